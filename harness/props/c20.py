"""C20 — bundled progress displays render every reachable state, ending with the final (proof, partial).

T1  harness/gen/progress.py -> lean/UberjobModel/Gen/Progress.lean
T2  (a) generated string / bookkeeping functions vs the real `_get_progress_string`, `get_elapsed_string`,
        `State.increment_*` on generated arguments;
    (b) the real Console / HTML / IPython observers on generated legal notification sequences, fake clock
        (`time` replaced inside uberjob.progress._simple_progress_observer, harness-side), captured output; driven
        deterministically (`_do_render` under the lock = one iteration of `_run_update_thread`) and with the real update
        thread (`threading.excepthook` captured, thread joined by `__exit__`);
    (c) the real `State` / observer flags after EVERY event vs the Lean model (`progress obs`);
    (d) `sorted_scope_items` vs the model's sort on scopes of the modelled value universe (`progress sort`);
    (e) the Lean predicates `Legal/PosTotals/WithinTotals/TotalsFirst` vs an independent Python reading of C15.
Monitors (the property itself, on the real code): no exception in any thread; at least one rendering and the last one was
produced from the final counts (console: what was last printed for every displayed section is its final state);
sum of weighted_elapsed = busy wall-clock (exact arithmetic in the model; floats compared with tolerance 1e-9 relative).
"""
from __future__ import annotations

import contextlib
import html as _html
import io
import random
import threading
import time as _time
import warnings
from fractions import Fraction
import os

import uberjob

import uberjob.progress._console_progress_observer as con_mod
import uberjob.progress._html_progress_observer as html_mod
import uberjob.progress._ipython_progress_observer as ipy_mod
import uberjob.progress._simple_progress_observer as spo
from uberjob.progress._console_progress_observer import ConsoleProgressObserver
from uberjob.progress._html_progress_observer import HtmlProgressObserver
from uberjob.progress._ipython_progress_observer import IPythonProgressObserver

GEN = ["Progress"]
PROP = "C20"
KINDS = ("console", "html", "ipython")
SECTION_IDS = {"stale": 0, "run": 1}

ASSUMPTIONS = [
    "notification sequences are Legal (C15); the clauses about totals (total >= 1, completed+failed+running <= total) and the "
    "console's last-printed-is-final additionally assume PosTotals / WithinTotals / TotalsFirst, which uberjob.run guarantees "
    "(Counter counts announced per section before the section executes) and C15 proves of notif(run)",
    "scopes are hashable and equatable; str() of a scope value does not raise; sections and scopes enter the bookkeeping only "
    "as dict keys",
    "times are exact rationals in the model; the real float arithmetic is sampled (tolerance 1e-9 relative)",
    "CPython's sorted() is modelled as a stable insertion sort whose comparison may raise",
]
TRUSTED_EXTRA = [
    "sampled, not modelled: float rounding of weighted_elapsed, traceback.format_exception, html.escape, ipywidgets, "
    "datetime.utcnow().strftime, str() of scope values, CPython sorted()",
]


class _Retrying:
    """The driver binary is shared with other builders and is briefly absent while lake relinks it."""

    def __init__(self, driver):
        self.driver = driver

    def batch(self, lines):
        for attempt in range(60):
            try:
                return self.driver.batch(lines)
            except (FileNotFoundError, PermissionError, OSError):
                if attempt == 59:
                    raise
                _time.sleep(1.0)


# ----------------------------------------------------------------------------------------------
# scope values
# ----------------------------------------------------------------------------------------------

class Opaque:
    """hashable, identity equality, no ordering"""

    def __init__(self, n):
        self.n = n

    def __repr__(self):
        return f"<Opaque {self.n}>"


class Twin:
    """distinct objects with the same str(): ties under the fallback key"""

    def __init__(self, n):
        self.n = n

    def __repr__(self):
        return "<Twin>"


def build_value(spec, cache):
    k = spec[0]
    if k == "i":
        return spec[1]
    if k == "s":
        return spec[1]
    if k == "N":
        return None
    if k == "b":
        return bool(spec[1])
    if k == "c":
        return complex(spec[1], spec[2])
    if k == "f":
        return float(spec[1])
    if k == "o":
        return cache.setdefault(("o", spec[1]), Opaque(spec[1]))
    if k == "w":
        return cache.setdefault(("w", spec[1]), Twin(spec[1]))
    if k == "t":
        return tuple(build_value(x, cache) for x in spec[1])
    if k == "fs":
        return frozenset(build_value(x, cache) for x in spec[1])
    if k == "by":
        return bytes.fromhex(spec[1])
    raise ValueError(spec)


STRS = ["", "a", "b", "ab", "A", "x.y.z", "<b>&amp;</b>", "é", "日本", "a | b", "0", "1", "10", "9", "None", "True", " ", "​", "𝔘",
        # digits that are not decimal digits (superscript, circled, subscript, fraction), digits of another script, format characters
        "²", "①", "10²", "2³", "x1₂", "½", "٣", "shard 9", "shard 10", "{shard}", "{0}", "{}", "}{", "a{b", "100%", "%d %s", "%(x)s"]


def gen_atom(rng, flavour):
    r = rng.random()
    if flavour == "plain":
        return ["i", rng.randint(-3, 12)] if r < 0.5 else ["s", rng.choice(STRS)]
    if flavour == "collide":
        return rng.choice([["i", 1], ["b", 1], ["f", "1.0"], ["s", "1"], ["i", 0], ["b", 0], ["s", "True"], ["N"], ["s", "None"],
                           ["c", 1, 0], ["w", rng.randint(0, 3)]])
    if flavour == "unorderable":
        return rng.choice([["c", rng.randint(0, 2), rng.randint(0, 3)], ["o", rng.randint(0, 4)], ["N"],
                           ["fs", [["i", rng.randint(0, 2)]]], ["i", rng.randint(0, 3)], ["w", rng.randint(0, 3)]])
    # mixed
    return rng.choice([["i", rng.randint(-2, 5)], ["s", rng.choice(STRS)], ["N"], ["b", rng.randint(0, 1)],
                       ["c", rng.randint(0, 2), rng.randint(0, 2)], ["f", rng.choice(["0.5", "2.0", "nan", "inf"])],
                       ["o", rng.randint(0, 3)], ["by", rng.choice(["", "00", "6162"])]])


def gen_value(rng, flavour):
    if rng.random() < (0.35 if flavour in ("unorderable", "mixed") else 0.1):
        return ["t", [gen_atom(rng, flavour) for _ in range(rng.randint(0, 3))]]
    return gen_atom(rng, flavour)


def gen_scope(rng, flavour):
    return [gen_value(rng, flavour) for _ in range(rng.choice([0, 1, 1, 1, 2, 2, 3]))]


def build_scope(spec, cache):
    return tuple(build_value(v, cache) for v in spec)


# ----------------------------------------------------------------------------------------------
# sequences
# ----------------------------------------------------------------------------------------------

def fr(x):
    return Fraction(x)


def rat(q):
    q = Fraction(q)
    return f"{q.numerator}/{q.denominator}"


def gen_sequence(rng, tier, shape="run"):
    """A notification sequence (without enter/exit) with render points and clock readings.
    shape: 'run' (Legal + PosTotals + WithinTotals + TotalsFirst), 'late' (Legal, totals of further scopes may arrive after
    activity), 'zero' (Legal, amounts may be 0), 'over' (Legal, more runnings than announced)."""
    flavour = rng.choice(["plain", "plain", "mixed", "mixed", "unorderable", "unorderable", "collide"])
    sections = rng.choice([["run"], ["stale", "run"], ["stale", "run"], ["stale"], ["run", "stale"], ["run", "other"]])
    big = tier != "quick"
    cache = {}
    scopes, ids = [], {}          # spec list; python scope -> id

    def scope_id(spec):
        obj = build_scope(spec, cache)
        if obj not in ids:
            ids[obj] = len(scopes)
            scopes.append(spec)
        return ids[obj]

    notifs = []                   # (op, sec, scope id, amount)
    plan = {}                     # sec -> {sid: remaining}
    for sec in sections:
        d = {}
        for _ in range(rng.randint(1, 6 if big else 4)):
            sid = scope_id(gen_scope(rng, flavour))
            lo = 0 if shape == "zero" else 1
            d[sid] = d.get(sid, 0) + 0  # keep key order
            for _ in range(rng.choice([1, 1, 1, 2])):
                amt = rng.randint(lo, 4)
                d[sid] += amt
                plan.setdefault(sec, []).append(("tot", sec, sid, amt))
        plan[(sec, "calls")] = d
    upfront = rng.random() < 0.4
    if upfront:
        for sec in sections:
            notifs += plan[sec]
    for sec in sections:
        tots = [] if upfront else list(plan[sec])
        calls = []
        for sid, n in plan[(sec, "calls")].items():
            extra = rng.randint(1, 2) if shape == "over" and rng.random() < 0.5 else 0
            calls += [sid] * (n + extra)
        rng.shuffle(calls)
        if rng.random() < 0.3 and calls:
            calls = calls[: rng.randint(0, len(calls))]          # stopped early: not everything ran
        late = []
        if shape == "late" and len(tots) > 1 and rng.random() < 0.8:
            k = rng.randint(1, len(tots) - 1)
            tots, late = tots[:k], tots[k:]
        notifs += tots
        announced = {t[2] for t in notifs if t[0] == "tot" and t[1] == sec}
        workers = rng.randint(1, 4)
        inflight = []
        pending = list(calls)
        while pending or inflight or late:
            choices = []
            if late:
                choices.append("late")
            startable = [c for c in pending if c in announced]
            if startable and len(inflight) < workers:
                choices += ["start"] * 2
            if inflight:
                choices += ["finish"] * 2
            if not choices:          # only unannounced calls are left: announce
                choices = ["late"]
            ch = rng.choice(choices)
            if ch == "late":
                t = late.pop(0)
                notifs.append(t)
                announced.add(t[2])
            elif ch == "start":
                c = startable[0]
                pending.remove(c)
                inflight.append(c)
                notifs.append(("run", sec, c, 0))
            else:
                c = inflight.pop(rng.randrange(len(inflight)))
                notifs.append(("fai" if rng.random() < 0.25 else "com", sec, c, rng.randint(0, 5)))
    # clock readings and render points
    start = fr(rng.choice([0, 0, 1000, "12345/8"]))
    t = start
    events = []
    steps = [0, fr("1/8"), fr("1/4"), 1, 1, 3, 10, 61, 100, 3700]
    p_w = rng.choice([0.0, 0.1, 0.3, 0.6])
    mi = rng.choice([0, 2, 10, 300, 300])
    for n in notifs:
        if rng.random() < p_w:
            # one or several iterations of the update thread; the later ones find nothing stale and render only when
            # max_update_interval has elapsed (steps hit the interval exactly, and fall short of it)
            for k in range(rng.choice([1, 1, 2, 3])):
                t += rng.choice(steps) if k == 0 else rng.choice([0, fr("1/8"), 1, mi, mi, max(mi - fr("1/8"), 0), mi + 1])
                t2 = t + rng.choice([0, 0, fr("1/8")])
                events.append(["w", rat(t), rat(t2)])
                t = t2
        t += rng.choice(steps)
        events.append(["n", rat(t), n[0], n[1], n[2], n[3]])
    t += rng.choice(steps)
    final = ["w", rat(t), rat(t + rng.choice([0, fr("1/8")]))]
    return {"shape": shape, "flavour": flavour, "scopes": scopes, "start": rat(start), "events": events, "final": final,
            "max_interval": rat(mi)}


def staged_sequence(rng, tier):
    """Work that is discovered in STAGES (Legal, totals of further scopes arrive after everything known so far has finished):
    per section, stage by stage: totals of one or two new scopes, a rendering, their calls run and finish, a rendering while
    everything announced is done - then the next stage.  Same format as `gen_sequence` (shape 'staged')."""
    flavour = rng.choice(["plain", "plain", "mixed", "unorderable"])
    sections = rng.choice([["run"], ["stale", "run"], ["run"], ["stale"]])
    cache, scopes, ids = {}, [], {}

    def scope_id(spec):
        obj = build_scope(spec, cache)
        if obj not in ids:
            ids[obj] = len(scopes)
            scopes.append(spec)
        return ids[obj]

    start = fr(rng.choice([0, 1000]))
    t = start
    events = []

    def wake():
        nonlocal t
        t += rng.choice([61, 100, 400])
        t2 = t + rng.choice([0, fr("1/8")])
        events.append(["w", rat(t), rat(t2)])
        t = t2

    def note(op, sec, sid, amt):
        nonlocal t
        t += rng.choice([fr("1/8"), 1, 3])
        events.append(["n", rat(t), op, sec, sid, amt])

    for sec in sections:
        for stage in range(rng.choice([2, 2, 3])):
            new = []
            for _ in range(rng.choice([1, 1, 2])):
                sid = scope_id(gen_scope(rng, flavour))
                amt = rng.randint(1, 2)
                note("tot", sec, sid, amt)
                new += [sid] * amt
            if rng.random() < 0.8:
                wake()
            rng.shuffle(new)
            for c in new:
                note("run", sec, c, 0)
                note("fai" if rng.random() < 0.15 else "com", sec, c, rng.randint(0, 5))
            if rng.random() < 0.85:
                wake()
    t += rng.choice([1, 61])
    final = ["w", rat(t), rat(t + rng.choice([0, fr("1/8")]))]
    return {"shape": "staged", "flavour": flavour, "scopes": scopes, "start": rat(start), "events": events, "final": final,
            "max_interval": rat(rng.choice([0, 10, 300]))}


def wide_sequence(rng, n_scopes=64):
    """A section with MANY scopes (more than any display is likely to show one by one): all totals, a rendering while nothing
    has finished, the calls with renderings in between - the first scopes finished, the last ones not begun -, the final
    rendering.  Same format as `gen_sequence` (shape 'run': all totals of the section come first)."""
    cache, scopes, ids = {}, [], {}

    def scope_id(spec):
        obj = build_scope(spec, cache)
        if obj not in ids:
            ids[obj] = len(scopes)
            scopes.append(spec)
        return ids[obj]

    sids = []
    while len(sids) < n_scopes:
        sid = scope_id(gen_scope(rng, "plain"))
        if sid not in sids:
            sids.append(sid)
    sec = rng.choice(["run", "stale"])
    t = fr(0)
    events = []

    def wake():
        nonlocal t
        t += rng.choice([61, 100])
        events.append(["w", rat(t), rat(t)])

    def note(op, sid, amt):
        nonlocal t
        t += fr("1/8")
        events.append(["n", rat(t), op, sec, sid, amt])

    for sid in sids:
        note("tot", sid, 1)
    wake()
    for k, sid in enumerate(sids):
        note("run", sid, 0)
        note("fai" if k % 17 == 5 else "com", sid, k % 6)
        if k in (0, n_scopes // 2, n_scopes - 2):
            wake()
    t += 61
    return {"shape": "run", "flavour": "plain", "scopes": scopes, "start": rat(fr(0)), "events": events,
            "final": ["w", rat(t), rat(t)], "max_interval": rat(300)}


def sec_id(sec, extra):
    if sec in SECTION_IDS:
        return SECTION_IDS[sec]
    return extra.setdefault(sec, 2 + len(extra))


def notif_tokens(ev, extra):
    op, sec, sid, amt = ev[2], ev[3], ev[4], ev[5]
    s = f"{op} {sec_id(sec, extra)} {sid}"
    return s + (f" {amt}" if op == "tot" else "")


def seq_notifs(seq):
    extra = {}
    return ["enter"] + [notif_tokens(e, extra) for e in seq["events"] if e[0] == "n"] + ["exit"]


# independent reading of C15's Legal and of the three run-shape predicates ------------------------------------------

def py_legal(toks):
    """toks: 'enter' | 'exit' | 'tot a b n' | 'run a b' | 'com a b' | 'fai a b'"""
    ev = [t.split() for t in toks]
    if len(ev) < 2 or ev[0] != ["enter"] or ev[-1] != ["exit"]:
        return dict(legal=False, pos=None, within=None, first=None)
    body = ev[1:-1]
    legal = all(e[0] not in ("enter", "exit") for e in body)
    pos = within = first = True
    ann, runs, fins, tot, act = set(), {}, {}, {}, set()
    for e in body:
        if e[0] in ("enter", "exit"):
            continue
        k = (e[1], e[2])
        if e[0] == "tot":
            if int(e[3]) < 1:
                pos = False
            if e[1] in act:
                first = False
            ann.add(k)
            tot[k] = tot.get(k, 0) + int(e[3])
        elif e[0] == "run":
            if k not in ann:
                legal = False
            runs[k] = runs.get(k, 0) + 1
            act.add(e[1])
            if runs[k] > tot.get(k, 0):
                within = False
        else:
            fins[k] = fins.get(k, 0) + 1
            act.add(e[1])
            if fins[k] > runs.get(k, 0):
                legal = False
    if any(fins.get(k, 0) != runs.get(k, 0) for k in set(runs) | set(fins)):
        legal = False
    return dict(legal=legal, pos=pos, within=within, first=first)


# ----------------------------------------------------------------------------------------------
# the real observers under a fake clock
# ----------------------------------------------------------------------------------------------

class FakeTime:
    """stands in for the `time` module inside _simple_progress_observer"""

    def __init__(self, now=0.0, tick=None):
        self.now = now
        self.queue = []
        self.tick = tick
        self.log = []
        self._lock = threading.Lock()

    def time(self):
        with self._lock:
            if self.queue:
                self.now = self.queue.pop(0)
            elif self.tick is not None:
                self.now += self.tick
            self.log.append((threading.get_ident(), self.now))
            return self.now


@contextlib.contextmanager
def patched_clock(fake):
    old = spo.time
    spo.time = fake
    try:
        yield fake
    finally:
        spo.time = old


class Weird(Exception):
    def __str__(self):
        return "<weird & 'quoted'>\nsecond line é 日本"


def make_exc(i):
    kinds = [lambda: ValueError("bad <value> & more"), lambda: KeyError(("k", i)), lambda: Weird(), lambda: Exception(),
             lambda: RuntimeError("x" * 300), lambda: OSError(2, "No such file")]
    try:
        try:
            raise kinds[i % len(kinds)]()
        except Exception as inner:
            if i % 3 == 0:
                raise TypeError("outer") from inner
            raise
    except Exception as e:
        return e


class Rig:
    """One real observer + recording wrappers (instance attributes / module attributes, harness-side only)."""

    def __init__(self, kind, max_interval, delays=(0, 0)):
        self.kind = kind
        self.outs = []
        self.renders = []          # snapshot of the counts every _render call was given
        self.printed = {}          # console: section -> snapshot of the counts it was last printed with
        kw = dict(initial_update_delay=delays[0], min_update_interval=delays[1], max_update_interval=max_interval)
        if kind == "console":
            self.obs = ConsoleProgressObserver(**kw)
            self.obs._output = self.outs.append
        elif kind == "html":
            self.obs = HtmlProgressObserver(self.outs.append, **kw)
        else:
            self.obs = IPythonProgressObserver(**kw)
        orig = self.obs._render

        def render(state, new_exception_index, exception_tuples, elapsed):
            try:
                snap = snapshot_counts(state)
            except RuntimeError:
                # the state changed under the harness's own iteration (possible only if a notification no longer takes the
                # observer's lock): that must show in what the LIBRARY does, not in this recorder
                snap = None
            self.renders.append(snap)
            return orig(state, new_exception_index, exception_tuples, elapsed)

        self.obs._render = render

    @contextlib.contextmanager
    def recording(self):
        """record which sections the console actually prints"""
        old = con_mod._print_section

        def rec(print_, section, scope_mapping):
            self.printed[section] = {sc: (s.completed, s.failed, s.running, s.total) for sc, s in scope_mapping.items()}
            return old(print_, section, scope_mapping)

        con_mod._print_section = rec
        try:
            with warnings.catch_warnings():
                warnings.simplefilter("ignore")
                with contextlib.redirect_stdout(io.StringIO()):
                    yield
        finally:
            con_mod._print_section = old

    def notify(self, op, sec, scope, amt):
        if op == "tot":
            self.obs.increment_total(section=sec, scope=scope, amount=amt)
        elif op == "run":
            self.obs.increment_running(section=sec, scope=scope)
        elif op == "com":
            self.obs.increment_completed(section=sec, scope=scope)
        else:
            self.obs.increment_failed(section=sec, scope=scope, exception=make_exc(amt))

    def wake(self):
        """the body of one iteration of `_run_update_thread`"""
        with self.obs._lock:
            out = self.obs._do_render()
        if out is not None:
            self.obs._output(out)


def zero_total_displayed(rig):
    m = rig.obs._state.section_scope_mapping
    return any(s.total == 0 for sec in ("stale", "run") for s in m.get(sec, {}).values())


def snapshot_counts(mapping):
    return {sec: {sc: (s.completed, s.failed, s.running, s.total) for sc, s in d.items()} for sec, d in mapping.items()}


def real_state(rig, ids, extra):
    st = rig.obs._state
    secs = []
    for sec, d in st.section_scope_mapping.items():
        rows = []
        for sc, s in d.items():
            rows.append((ids[sc], s.completed, s.failed, s.running, s.total, int(s in st._running_scope_states), s.weighted_elapsed))
        secs.append((sec_id(sec, extra), rows))
    return {"secs": secs, "rc": st.running_count, "prev": st._prev_time, "stale": int(rig.obs._stale),
            "last": rig.obs._last_render_time, "outs": len(rig.renders),
            "skipped": sorted(sec_id(s, extra) for s in getattr(rig.obs, "_skipped_sections", ())),
            "sumw": sum(s.weighted_elapsed for d in st.section_scope_mapping.values() for s in d.values())}


def parse_model_state(txt):
    """`keys=[a,b:c,f,r,t,in,num/den ...] rc=.. prev=.. stale=.. last=.. outs=.. lastSeen=.. skipped=[..] sumw=.. busy=.. html=..`"""
    out = {}
    i = txt.index("keys=[") + 6
    j = txt.index("]", i)
    rows = []
    for tok in txt[i:j].split():
        k, v = tok.split(":")
        a, b = k.split(",")
        c, f, r, t, ins, w = v.split(",")
        rows.append((int(a), int(b), int(c), int(f), int(r), int(t), int(ins), Fraction(w)))
    out["rows"] = rows
    for tok in txt[j + 1:].split():
        k, v = tok.split("=", 1)
        out[k] = v
    secs = []
    for a, b, c, f, r, t, ins, w in rows:
        if not secs or all(s[0] != a for s in secs):
            secs.append((a, []))
        next(s for s in secs if s[0] == a)[1].append((b, c, f, r, t, ins, w))
    out["secs"] = secs
    return out


def close(x, q, tol=1e-9):
    q = float(q)
    return abs(float(x) - q) <= tol * (1.0 + abs(q))


def compare_states(real, model):
    if [s[0] for s in real["secs"]] != [s[0] for s in model["secs"]]:
        return "section order"
    for (_, rr), (_, mr) in zip(real["secs"], model["secs"]):
        if [r[:6] for r in rr] != [m[:6] for m in mr]:
            return f"cells real={[r[:6] for r in rr]} model={[m[:6] for m in mr]}"
        for r, m in zip(rr, mr):
            if not close(r[6], m[6]):
                return f"weighted_elapsed real={r[6]} model={m[6]}"
    if real["rc"] != int(model["rc"]):
        return "running_count"
    if not close(real["prev"], Fraction(model["prev"]), 0):
        return "_prev_time"
    if real["stale"] != int(model["stale"]):
        return "_stale"
    if (real["last"] is None) != (model["last"] == "-") or (real["last"] is not None and float(Fraction(model["last"])) != real["last"]):
        return "_last_render_time"
    if real["outs"] != int(model["outs"]):
        return f"number of renderings real={real['outs']} model={model['outs']}"
    if "skipped" in real and real["kind"] == "console":
        want = [int(x) for x in model["skipped"].strip("[]").split(",") if x]
        if real["skipped"] != want:
            return f"_skipped_sections real={real['skipped']} model={want}"
    if not close(real["sumw"], Fraction(model["sumw"])):
        return "sum weighted"
    return None


def busy_from(readings):
    """readings: [(time, delta_active)] of the notifications that read the clock, in order."""
    busy, act, prev = Fraction(0), 0, None
    for t, d in readings:
        if prev is not None and act > 0:
            busy += Fraction(t) - prev
        prev = Fraction(t)
        act += d
    return busy, act


def check_final(rig, final_counts, kind, structure_only=False):
    """Monitor: at least one rendering; the last one was made from the final counts; console: last printed = final."""
    if not rig.renders:
        return "no rendering was ever emitted"
    last = rig.renders[-1]
    if last != final_counts:
        return f"last rendering shows {last}, final counts are {final_counts}"
    if structure_only:
        return None
    if kind == "console":
        for sec in ("stale", "run"):
            fin = final_counts.get(sec)
            if fin and rig.printed.get(sec) != fin:
                return f"console: section {sec!r} last printed as {rig.printed.get(sec)}, final counts are {fin}"
        text = "".join(rig.outs)
        for sec in ("stale", "run"):
            for sc, (c, f, r, t) in (final_counts.get(sec) or {}).items():
                if spec_progress(c, f, r, t) not in text:
                    return f"console output lacks {spec_progress(c, f, r, t)!r}"
    elif kind == "html":
        if not rig.outs:
            return "html: nothing written"
        text = rig.outs[-1].decode()
        for sec in ("stale", "run"):
            for sc, (c, f, r, t) in (final_counts.get(sec) or {}).items():
                want = _html.escape(spec_progress(c, f, r, t).split(",")[0])
                if want not in text:
                    return f"html output lacks {want!r}"
                if _html.escape(spo.get_scope_string(sc, add_zero_width_spaces=True)) not in text:
                    return "html output lacks a scope string"
    else:
        cache = rig.obs._widget_cache or {}
        for sec in ("stale", "run"):
            for sc, (c, f, r, t) in (final_counts.get(sec) or {}).items():
                lab = cache.get(("section", sec, "scope", sc, "label"))
                bar = cache.get(("section", sec, "scope", sc, "progress"))
                if lab is None or bar is None:
                    return "ipython: widget missing for a final scope"
                if not lab.value.startswith(spec_progress(c, f, r, t) + "; "):
                    return f"ipython label {lab.value!r} does not show {spec_progress(c, f, r, t)!r}"
                if bar.max != t or bar.value != min(c + f, t):
                    return f"ipython bar {bar.value}/{bar.max} for counts {(c, f, r, t)}"
    return None


def spec_progress(c, f, r, t):
    """C20_progress_string"""
    s = f"{c} / {t}" if (c + f == t or c + f + r == 0) else f"({c} + {r}) / {t}"
    return s + (f", {f} failed" if f else "")


def spec_elapsed(n):
    """C20_strings_total"""
    h, m, s = n // 3600, n % 3600 // 60, n % 60
    if h:
        return f"{h}h{m:02d}m{s:02d}s"
    if m:
        return f"{m}m{s:02d}s"
    return f"{s}s"


def overflow_sequence(rng, n_fail=131):
    """More failures than the observers keep exceptions for (128): one scope, every call fails, a periodic rendering between
    each 'running' and its 'failed' — the last rendering must still show the final count."""
    scope = gen_scope(rng, "plain")
    t = Fraction(0)
    events = [["n", rat(t), "tot", "run", 0, n_fail]]
    for k in range(n_fail):
        t += 1
        events.append(["n", rat(t), "run", "run", 0, 0])
        t += 1
        events.append(["w", rat(t), rat(t)])
        t += 1
        events.append(["n", rat(t), "fai", "run", 0, k % 6])
    t += 1
    return {"shape": "run", "flavour": "plain", "scopes": [scope], "start": rat(Fraction(0)), "events": events,
            "final": ["w", rat(t), rat(t)], "max_interval": rat(Fraction(300))}


def run_deterministic(kind, seq, driver=None):
    """Returns (violation text | None, disagreement text | None, info)."""
    cache = {}
    scopes = [build_scope(s, cache) for s in seq["scopes"]]
    ids = {}
    for i, s in enumerate(scopes):
        ids.setdefault(s, i)
    extra = {}
    fake = FakeTime(float(Fraction(seq["start"])))
    events = seq["events"] + [seq["final"]]
    model = None
    if driver is not None:
        ex2 = {}
        line = "progress obs %s %s | %s" % (seq["max_interval"], seq["start"], " ; ".join(
            ("w %s %s" % (e[1], e[2])) if e[0] == "w" else "n %s %s" % (e[1], notif_tokens(e, ex2)) for e in events))
        model = driver.batch([line])[0].split(" | ")
    run_shaped = seq["shape"] == "run"
    readings = []
    with patched_clock(fake):
        # the two delays only pace the update THREAD (not started here): whether a wake-up renders must not depend on them
        rig = Rig(kind, float(Fraction(seq["max_interval"])), delays=(1.0e6, 1.0e6))
        with rig.recording():
            for idx, e in enumerate(events):
                try:
                    if e[0] == "w":
                        fake.queue = [float(Fraction(e[1])), float(Fraction(e[2]))]
                        n_before = len(rig.renders)
                        try:
                            rig.wake()
                        finally:
                            if len(rig.renders) == n_before:      # not rendered: only the first reading was consumed
                                fake.queue = []
                        if len(rig.renders) > n_before:
                            # at EVERY rendering - also one triggered by the heartbeat alone - the elapsed times shown add up to the
                            # time during which something was running, up to the moment of the rendering
                            readings.append((Fraction(e[2]), 0))
                            busy_now, _ = busy_from(readings)
                            sumw_now = sum(x.weighted_elapsed for dd in rig.obs._state.section_scope_mapping.values() for x in dd.values())
                            if not close(sumw_now, busy_now):
                                return (f"{kind}: at the rendering of event {idx} {e} the elapsed times of the scopes add up to {sumw_now}, "
                                        f"something had been running for {float(busy_now)}", None, {})
                    else:
                        fake.queue = [float(Fraction(e[1]))]
                        rig.notify(e[2], e[3], scopes[e[4]], e[5])
                        if e[2] != "tot":
                            readings.append((Fraction(e[1]), 1 if e[2] == "run" else -1))
                        fake.queue = []
                except ZeroDivisionError:
                    # only the HTML renderer divides, and only by `total`: legitimate exactly when a displayed scope has
                    # total == 0, which needs an announced amount of 0 (outside PosTotals; C20_zero_total_witness)
                    if not (kind == "html" and e[0] == "w" and seq["shape"] == "zero" and zero_total_displayed(rig)):
                        return (f"{kind}: ZeroDivisionError at event {idx} {e}", None, {})
                    if model is not None and idx < len(model) and " html=0" not in model[idx]:
                        return (None, f"the HTML renderer divided by zero at event {idx}, the model says it cannot", {})
                    fake.queue = []
                except Exception as exc:                # noqa: BLE001 - the monitor: nothing may raise
                    return (f"{kind}: {type(exc).__name__}: {exc} at event {idx} {e}", None, {})
                else:
                    if (kind == "html" and e[0] == "w" and model is not None and idx < len(model) and " html=0" in model[idx]
                            and len(rig.renders) > n_before):
                        return (None, f"model predicts a division by zero at event {idx}, the HTML renderer did not raise", {})
                if model is not None:
                    if idx >= len(model) or model[idx].startswith("err") or model[idx] == "bad-op":
                        return (None, f"model: {model[min(idx, len(model) - 1)]} at event {idx} {e}; the real code raised nothing", {})
                    real = real_state(rig, ids, extra)
                    real["kind"] = kind
                    d = compare_states(real, parse_model_state(model[idx]))
                    if d:
                        return (None, f"{kind}: {d} after event {idx} {e}", {})
    final_counts = snapshot_counts(rig.obs._state.section_scope_mapping)
    busy, act = busy_from(readings)
    sumw = sum(s.weighted_elapsed for d in rig.obs._state.section_scope_mapping.values() for s in d.values())
    if not close(sumw, busy):
        return (f"{kind}: sum of weighted_elapsed {sumw} != busy wall-clock {float(busy)}", None, {})
    if model is not None:
        mb = parse_model_state(model[-1])
        if Fraction(mb["busy"]) != busy or Fraction(mb["sumw"]) != busy:
            return (None, f"busy time: model busy={mb['busy']} sumw={mb['sumw']} python={busy}", {})
    v = None
    if seq["shape"] != "zero" or kind != "html":
        # C20_last_render needs Legal only; the console's "last printed = final" needs the run shape (C20_console_final)
        v = check_final(rig, final_counts, kind, structure_only=(kind == "console" and not run_shaped))
    info = {"renders": len(rig.renders), "fallback_sorted": 0, "nontrivial": int(len(final_counts) > 0 and len(rig.renders) > 1)}
    return (f"{kind}: {v}" if v else None, None, info)


def run_threaded(kind, seq, rng):
    """The real update thread; returns violation text or None."""
    cache = {}
    scopes = [build_scope(s, cache) for s in seq["scopes"]]
    fake = FakeTime(0.0, tick=0.125)
    captured = []
    old_hook = threading.excepthook
    threading.excepthook = lambda args: captured.append(args)
    main = threading.get_ident()
    try:
        with patched_clock(fake):
            rig = Rig(kind, 1000.0, delays=(0.0005, 0.0005))
            with rig.recording():
                try:
                    with rig.obs:
                        for e in seq["events"]:
                            if e[0] == "n":
                                rig.notify(e[2], e[3], scopes[e[4]], e[5])
                            elif rng.random() < 0.5:
                                _time.sleep(0.002)
                    if rig.obs._thread is not None:
                        return f"{kind}: update thread not cleared after __exit__"
                except Exception as exc:            # noqa: BLE001
                    return f"{kind} (threaded): {type(exc).__name__}: {exc}"
    finally:
        threading.excepthook = old_hook
    if captured:
        a = captured[0]
        return f"{kind}: update thread died: {a.exc_type.__name__}: {a.exc_value}"
    final_counts = snapshot_counts(rig.obs._state.section_scope_mapping)
    v = check_final(rig, final_counts, kind)
    if v:
        return f"{kind} (threaded): {v}"
    # busy time from the clock readings of the notifications (main thread; the first reading is __init__)
    mine = [t for ident, t in fake.log if ident == main][1:]
    ops = [e[2] for e in seq["events"] if e[0] == "n" and e[2] != "tot"]
    if len(mine) != len(ops):
        # the bookkeeping read the clock a different number of times than once per notification: the readings cannot be
        # aligned with the notifications, so this run cannot judge the elapsed-time clause (the deterministic runs,
        # where the harness supplies the reading per event, still do).  Not a violation by itself.
        return None
    busy, _ = busy_from([(Fraction(t), 1 if op == "run" else -1) for t, op in zip(mine, ops)])
    sumw = sum(s.weighted_elapsed for d in rig.obs._state.section_scope_mapping.values() for s in d.values())
    if not close(sumw, busy):
        return f"{kind} (threaded): sum of weighted_elapsed {sumw} != busy wall-clock {float(busy)}"
    return None


def run_slow_output(kind, seq):
    """The run ends WHILE an update is being written: the first output of the real update thread blocks until `__exit__` has
    set the done event (a slow terminal, a page on a network mount).  Whatever was being written then is out of date: one more
    rendering, made from the final counts, must follow.  Returns violation text or None ("" when no output began mid-run)."""
    cache = {}
    scopes = [build_scope(s, cache) for s in seq["scopes"]]
    fake = FakeTime(0.0, tick=0.125)
    captured = []
    old_hook = threading.excepthook
    threading.excepthook = lambda args: captured.append(args)
    entered = threading.Event()
    try:
        with patched_clock(fake):
            rig = Rig(kind, 1000.0, delays=(0.0005, 0.0005))
            orig_out, first = rig.obs._output, [True]

            def slow(value):
                if first[0]:
                    first[0] = False
                    entered.set()
                    rig.obs._done_event.wait(3.0)
                return orig_out(value)

            rig.obs._output = slow
            evs = [e for e in seq["events"] if e[0] == "n"]
            half = max(1, len(evs) // 2)
            with rig.recording():
                try:
                    with rig.obs:
                        for e in evs[:half]:
                            rig.notify(e[2], e[3], scopes[e[4]], e[5])
                        began = entered.wait(1.0)
                        for e in evs[half:]:
                            rig.notify(e[2], e[3], scopes[e[4]], e[5])
                except Exception as exc:            # noqa: BLE001
                    return f"{kind} (slow output): {type(exc).__name__}: {exc}"
    finally:
        threading.excepthook = old_hook
    if captured:
        a = captured[0]
        return f"{kind}: update thread died: {a.exc_type.__name__}: {a.exc_value}"
    if not began:
        return ""
    v = check_final(rig, snapshot_counts(rig.obs._state.section_scope_mapping), kind)
    return f"{kind} (the run ended while an update was being written): {v}" if v else None


def run_insert_storm(kind, n_scopes=300):
    """Scopes are announced one after the other, as fast as the calling thread can, while the real update thread renders
    continuously (no delay between updates, interpreter switch interval 10 microseconds): a rendering iterates the very
    mappings the notifications extend.  The update thread must survive and the last rendering must show the final counts."""
    import sys as _sys
    fake = FakeTime(0.0, tick=0.125)
    captured = []
    old_hook = threading.excepthook
    threading.excepthook = lambda args: captured.append(args)
    old_si = _sys.getswitchinterval()
    try:
        _sys.setswitchinterval(1e-5)
        with patched_clock(fake):
            rig = Rig(kind, 1000.0, delays=(0.0, 0.0))
            with rig.recording():
                try:
                    with rig.obs:
                        # a few hundred finished scopes (so that a rendering has a long way to go through each section) ...
                        for i in range(n_scopes):
                            sec = "run" if i % 2 else "stale"
                            rig.notify("tot", sec, ("storm", i), 1)
                            rig.notify("run", sec, ("storm", i), 0)
                            rig.notify("com", sec, ("storm", i), 0)
                        # ... then totals of new scopes, one after the other, while renderings are under way (until ten more
                        # renderings have been made, 20000 scopes announced or three seconds have passed)
                        r0, t_end, i = len(rig.renders), _time.monotonic() + 3.0, n_scopes
                        while len(rig.renders) < r0 + 10 and i < 20000 and _time.monotonic() < t_end and not captured:
                            rig.notify("tot", "run" if i % 2 else "stale", ("storm", i), 1)
                            i += 1
                            if i % 4 == 0:
                                _time.sleep(0)
                except Exception as exc:            # noqa: BLE001
                    return f"{kind} (insert storm): {type(exc).__name__}: {exc}"
    finally:
        _sys.setswitchinterval(old_si)
        threading.excepthook = old_hook
    if captured:
        a = captured[0]
        return f"{kind}: update thread died while scopes were being announced: {a.exc_type.__name__}: {a.exc_value}"
    v = check_final(rig, snapshot_counts(rig.obs._state.section_scope_mapping), kind, structure_only=True)
    return f"{kind} (insert storm): {v}" if v else None


# ----------------------------------------------------------------------------------------------
# (a) generated functions vs the real ones
# ----------------------------------------------------------------------------------------------

def diff_functions(ctx, rng, n):
    dis, lines, want = [], [], []
    edge = [0, 1, 2, 9, 10, 59, 60, 61, 99, 100, 599, 600, 3599, 3600, 3601, 3660, 35999, 36000, 86399, 86400, 359999, 360000, 10 ** 7]
    for i in range(n):
        c, f, r = (rng.choice([0, 0, 1, 2, 3, 10, 123]) for _ in range(3))
        t = rng.choice([c + f, c + f + r, c + f + r + rng.randint(0, 5), 0, 1, rng.randint(0, 200)])
        lines.append(f"progress pstr {c} {f} {r} {t}")
        want.append(spo._get_progress_string(completed=c, failed=f, running=r, total=t))
        e = edge[i] if i < len(edge) else rng.choice([rng.randint(0, 120), rng.randint(0, 4000), rng.randint(0, 400000), rng.randint(0, 2 ** 40)])
        lines.append(f"progress estr {e}")
        want.append(spo.get_elapsed_string(e + rng.choice([0.0, 0.25, 0.999])))
        if spec_elapsed(e) != want[-1]:
            dis.append({"layer": "strings-spec", "input": e, "impl": want[-1], "spec": spec_elapsed(e)})
        if spec_progress(c, f, r, t) != want[-2]:
            dis.append({"layer": "strings-spec", "input": [c, f, r, t], "impl": want[-2], "spec": spec_progress(c, f, r, t)})
    # one bookkeeping method on one cell
    for _ in range(n):
        op = rng.choice(["tot", "run", "com", "fai"])
        c, f = rng.randint(0, 3), rng.randint(0, 3)
        r = rng.choice([-1, 0, 1, 1, 2, 3])
        t = rng.randint(0, 5)
        ins = rng.randint(0, 1)
        rc = rng.choice([r, r + 1, 0, 5])
        amt = rng.randint(0, 4)
        lines.append(f"progress cell {op} {c} {f} {r} {t} {ins} {rc}" + (f" {amt}" if op == "tot" else ""))
        with patched_clock(FakeTime(1.0)):
            st = spo.State(0.0)
            ss = spo.ScopeState(completed=c, failed=f, running=r, total=t)
            st.section_scope_mapping = {"run": {("k",): ss}}
            st.running_count = rc
            if ins:
                st._running_scope_states.add(ss)
            try:
                if op == "tot":
                    st.increment_total("run", ("k",), amt)
                else:
                    getattr(st, {"run": "increment_running", "com": "increment_completed", "fai": "increment_failed"}[op])("run", ("k",))
                want.append(f"ok {ss.completed},{ss.failed},{ss.running},{ss.total},{int(ss in st._running_scope_states)} {st.running_count}")
            except KeyError:
                want.append("removeAbsent")
    if ctx.driver is not None:
        got = ctx.driver.batch(lines)
        for ln, g, w in zip(lines, got, want):
            if g != w:
                dis.append({"layer": "generated-functions", "input": ln, "impl": w, "model": g})
                break
    return dis, len(lines)


# ----------------------------------------------------------------------------------------------
# (d) sorting
# ----------------------------------------------------------------------------------------------

def enc_str(s):
    return ".".join(str(ord(ch)) for ch in s)


def enc_atom(spec):
    k = spec[0]
    if k == "i":
        return f"i{spec[1]}"
    if k == "s":
        return "s" + enc_str(spec[1])
    if k == "N":
        return "N"
    if k == "b":
        return f"b{int(spec[1])}"
    if k == "c":
        return f"c{spec[1]}_{spec[2]}"
    if k == "o":
        return f"o{spec[1]}"
    return None


def enc_value(spec):
    if spec[0] == "t":
        parts = [enc_atom(x) for x in spec[1]]
        return None if any(p is None for p in parts) else "t" + "+".join(parts)
    return enc_atom(spec)


def gen_sort_case(rng):
    flavour = rng.choice(["plain", "mixed", "unorderable", "unorderable", "unorderable", "collide"])
    items = []
    for _ in range(rng.randint(0, 6)):
        sc = [v for v in (gen_value(rng, flavour) for _ in range(rng.choice([0, 1, 1, 2, 3]))) if enc_value(v) is not None]
        items.append(sc)
    return items


def sort_case(items, has_fallback):
    """-> (driver line, real outcome)"""
    cache = {}
    d = {}
    for i, spec in enumerate(items):
        d.setdefault(build_scope(spec, cache), (i, spec))
    kept = list(d.items())
    enc = []
    for obj, (i, spec) in kept:
        elts = [f"{enc_str(str(type(x)))}:{enc_str(str(x))}:{enc_value(v)}" for x, v in zip(obj, spec)]
        enc.append(",".join(elts) if elts else "-")
    line = f"progress sort {int(has_fallback)} | " + " ; ".join(enc)
    used = []
    old = getattr(spo, "_fallback_sort_key", None)
    if old is not None:
        def fb(*args):
            used.append(1)
            return old(*args)
        spo._fallback_sort_key = fb
    try:
        try:
            res = spo.sorted_scope_items({obj: j for j, (obj, _) in enumerate(kept)})
            real = ("fallback" if used else "natural") + "".join(f" {j}" for _, j in res)
        except TypeError:
            real = "raise"
        except Exception as e:      # noqa: BLE001 - any other exception of the sort is as fatal for the update thread
            real = "raise " + type(e).__name__
    finally:
        if old is not None:
            spo._fallback_sort_key = old
    if not kept:
        real = real.strip()
    return line, real.strip()


def diff_sort(ctx, rng, n, has_fallback):
    lines, want, cases = [], [], []
    fixed = [[[["c", 0, 1]], [["c", 0, 2]]], [[["t", [["i", 1], ["s", "a"]]]], [["t", [["i", 1], ["i", 2]]]]],
             [[["N"]], [["N"], ["i", 1]], []], [[["o", 1]], [["o", 2]], [["i", 3]]], [[["b", 1]], [["i", 1]], [["i", 0]]]]
    for i in range(n):
        items = fixed[i] if i < len(fixed) else gen_sort_case(rng)
        ln, real = sort_case(items, has_fallback)
        lines.append(ln)
        want.append(real)
        cases.append(items)
    dis, viol = [], []
    stats = {"sort_cases": n, "sort_fallback_path": sum(w.startswith("fallback") for w in want), "sort_raise": sum(w.startswith("raise") for w in want)}
    for items, w in zip(cases, want):
        if w.startswith("raise"):
            viol.append({"property": PROP, "what": f"sorted_scope_items raises {w[6:] or 'TypeError'} on scopes that are hashable and equatable",
                         "kind": "sort", "items": items})
            break
    if ctx.driver is not None:
        got = ctx.driver.batch(lines)
        for items, g, w in zip(cases, got, want):
            if g.strip() != w:
                dis.append({"layer": "sort", "items": items, "impl": w, "model": g})
                break
    return dis, viol, stats


# ----------------------------------------------------------------------------------------------
# (e) Legal
# ----------------------------------------------------------------------------------------------

def mutate_tokens(rng, toks):
    toks = list(toks)
    for _ in range(rng.randint(1, 2)):
        r = rng.random()
        if r < 0.3 and len(toks) > 2:
            del toks[rng.randrange(1, len(toks) - 1)]
        elif r < 0.5 and len(toks) > 3:
            i, j = rng.randrange(1, len(toks) - 1), rng.randrange(1, len(toks) - 1)
            toks[i], toks[j] = toks[j], toks[i]
        elif r < 0.7 and len(toks) > 2:
            toks.insert(rng.randrange(1, len(toks)), toks[rng.randrange(1, len(toks) - 1)])
        elif r < 0.8:
            toks.insert(rng.randrange(0, len(toks) + 1), rng.choice(["enter", "exit"]))
        elif r < 0.9:
            del toks[rng.choice([0, -1])]
        else:
            toks.insert(rng.randrange(1, max(2, len(toks))), rng.choice(["tot 1 0 0", "run 1 9", "com 0 0", "tot 0 7 2"]))
    return toks


def diff_legal(ctx, rng, seqs, n_mut):
    if ctx.driver is None:
        return [], {}
    cases = []
    for s in seqs:
        toks = seq_notifs(s)
        cases.append((toks, s["shape"]))
        for _ in range(n_mut):
            cases.append((mutate_tokens(rng, toks), "mutant"))
    cases = [c for c in cases if 0 < len(c[0]) <= 60]
    got = ctx.driver.batch(["progress legal " + " ; ".join(t) for t, _ in cases])
    dis = []
    n_illegal = 0
    for (toks, shape), g in zip(cases, got):
        m = dict(kv.split("=") for kv in g.split())
        p = py_legal(toks)
        n_illegal += not p["legal"]
        bad = (m.get("legal") == "1") != p["legal"]
        if p["legal"]:
            bad = bad or any((m.get(k) == "1") != p[k] for k in ("pos", "within", "first"))
            if shape == "run" and not (p["pos"] and p["within"] and p["first"]):
                dis.append({"layer": "generator", "what": "a run-shaped sequence is not run-shaped", "tokens": toks})
                break
        if shape != "mutant" and not p["legal"]:
            dis.append({"layer": "generator", "what": "a generated sequence is not Legal", "tokens": toks})
            break
        if bad:
            dis.append({"layer": "legal", "tokens": toks, "model": g, "python": p})
            break
    return dis, {"legal_cases": len(cases), "legal_illegal_mutants": n_illegal}


# ----------------------------------------------------------------------------------------------
# boundary probes (facts about the edge of the hypotheses; reported, not violations)
# ----------------------------------------------------------------------------------------------

def probe_boundaries():
    facts = {}
    with patched_clock(FakeTime(0.0)):
        rig = Rig("console", 1000.0)
        with rig.recording():
            for op, sc in (("tot", "A"), ("run", "A"), ("com", "A")):
                rig.notify(op, "run", (sc,), 1)
            rig.wake()
            for op, sc in (("tot", "B"), ("run", "B"), ("com", "B")):
                rig.notify(op, "run", (sc,), 1)
            rig.wake()
        final = snapshot_counts(rig.obs._state.section_scope_mapping)
        facts["boundary_late_totals_console"] = (
            "final counts of the late scope never printed (as C20_console_late_totals_witness)"
            if rig.printed.get("run") != final["run"] else "final counts printed")
        rig = Rig("html", 1000.0)
        with rig.recording():
            rig.notify("tot", "run", ("A",), 0)
            try:
                rig.wake()
                facts["boundary_zero_total_html"] = "rendered"
            except ZeroDivisionError:
                facts["boundary_zero_total_html"] = "ZeroDivisionError (as C20_zero_total_witness)"
    return facts


# ----------------------------------------------------------------------------------------------
# explore / replay / search
# ----------------------------------------------------------------------------------------------

def public_factory_cases(only=None):
    """The bundled displays as a USER gets them: `uberjob.run` with `progress=` left out (the default display), with
    `console_progress`, `html_progress(path)`, `html_progress(callable)` and a composite of two — on a small plan with two
    scopes, with and without a failing call.  What ends up on the terminal / in the file after `run` returned must show the
    final counts of every scope (nothing about layout is assumed beyond `<completed> / <total>` and the scope's name)."""
    import tempfile
    import uberjob.progress as up
    viol, done = [], 0
    for fail in (False, True):
        for mode in ("default", "console", "console-ascii", "html-path", "html-callable", "composite"):
            if only and (mode, fail) != tuple(only):
                continue
            with tempfile.TemporaryDirectory() as d:
                plan = uberjob.Plan()

                def fa(x):
                    return x + 1

                def fb(x, y):
                    if fail and x == 2:
                        raise ValueError("boom")
                    return x * y

                with plan.scope("A"):
                    a = [plan.call(fa, i) for i in range(3)]
                with plan.scope("B"):
                    b = [plan.call(fb, a[i], a[i + 1]) for i in range(2)]
                chunks = []
                path = os.path.join(d, "progress.html")
                kw = {}
                if mode in ("console", "console-ascii"):
                    kw["progress"] = up.console_progress
                elif mode == "html-path":
                    kw["progress"] = up.html_progress(path)
                elif mode == "html-callable":
                    kw["progress"] = up.html_progress(chunks.append)
                elif mode == "composite":
                    kw["progress"] = up.composite_progress(up.console_progress, up.html_progress(path))
                buf = io.StringIO()
                raw = None
                if mode == "console-ascii":
                    # a terminal / log that can only take ASCII: plain scopes and counts must still get through
                    raw = io.BytesIO()
                    buf = io.TextIOWrapper(raw, encoding="ascii", errors="strict", write_through=True)
                exc = None
                with warnings.catch_warnings():
                    warnings.simplefilter("ignore")
                    with contextlib.redirect_stdout(buf), contextlib.redirect_stderr(buf):
                        try:
                            uberjob.run(plan, output=b, max_errors=None, **kw)
                        except uberjob.CallError as e:
                            exc = e
                        except BaseException as e:      # noqa: BLE001
                            viol.append({"property": PROP, "kind": "factory", "case": [mode, fail],
                                         "what": f"run with the {mode} display raised {type(e).__name__}: {e}"})
                            continue
                done += 1
                if fail != (exc is not None):
                    viol.append({"property": PROP, "kind": "factory", "case": [mode, fail],
                                 "what": f"run with the {mode} display: outcome {exc!r}, a call {'fails' if fail else 'does not fail'}"})
                    continue
                texts = []
                if mode == "console-ascii":
                    texts.append(("terminal", raw.getvalue().decode("ascii")))
                elif mode in ("default", "console", "composite"):
                    texts.append(("terminal", buf.getvalue()))
                if mode in ("html-path", "composite"):
                    texts.append(("file", open(path, encoding="utf-8").read() if os.path.exists(path) else None))
                if mode == "html-callable":
                    texts.append(("callable", chunks[-1].decode("utf-8") if chunks else None))
                # final counts: scope A 3 of 3; scope B: without the failure 2 of 2, with it 1 completed, 1 failed of 2
                want = [("A", "3 / 3"), ("B", "1 / 2" if fail else "2 / 2")]
                for where, txt in texts:
                    if mode == "default" and (not txt or "uberjob, elapsed" not in txt):
                        continue        # which display (if any) is the default is not the property's business
                    if not txt:
                        viol.append({"property": PROP, "kind": "factory", "case": [mode, fail],
                                     "what": f"{mode} display: nothing was emitted to the {where} by the time run returned"})
                        continue
                    tail = txt[txt.rfind("uberjob, elapsed"):] if where == "terminal" and "uberjob, elapsed" in txt else txt
                    for scope, counts in want:
                        if counts not in tail or scope not in tail:
                            viol.append({"property": PROP, "kind": "factory", "case": [mode, fail],
                                         "what": f"{mode} display: the last rendering on the {where} does not show the final counts "
                                                 f"{counts!r} of scope {scope!r}: ...{tail[-300:]!r}"})
                            break
                    if fail and "1 failed" not in tail:
                        viol.append({"property": PROP, "kind": "factory", "case": [mode, fail],
                                     "what": f"{mode} display: the last rendering on the {where} does not show the failed call"})
    return viol, done


def _violation(what, kind, seq, mode):
    return {"property": PROP, "what": what, "kind": "sequence", "observer": kind, "mode": mode, "seq": seq}


def explore(ctx, n_scale=1.0, monitors_only=False):
    rng = random.Random(ctx.seed * 7919 + 20)
    quick = ctx.tier == "quick"
    driver = None if monitors_only or ctx.driver is None else _Retrying(ctx.driver)
    if driver is not None:
        class _C:
            pass
        c2 = _C()
        c2.__dict__.update(ctx.__dict__)
        c2.driver = driver
        ctx = c2
    n_seq = int((90 if quick else 1200) * n_scale)
    n_thr = int((30 if quick else 300) * n_scale)
    n_fun = int((400 if quick else 6000) * n_scale)
    n_sort = int((500 if quick else 8000) * n_scale)
    violations, disagreements = [], []
    gi = getattr(ctx, "gen_info", {}) or {}
    has_fallback = gi.get("Progress", {}).get("sort_has_fallback", hasattr(spo, "_fallback_sort_key"))
    cov = {"rule": "every generated sequence: each observer kind, every event compared with the model; "
                   "functions: each generated argument tuple compared exactly", "samples": []}
    # (a)
    d, n_eval = diff_functions(ctx if not monitors_only else type("C", (), {"driver": None})(), rng, n_fun)
    disagreements += d
    cov["function_evaluations"] = n_eval
    # (d)
    d, v, st = diff_sort(ctx if not monitors_only else type("C", (), {"driver": None})(), rng, n_sort, has_fallback)
    disagreements += d
    violations += v
    cov.update(st)
    # (b) + (c)
    shapes = ["run"] * 6 + ["late", "zero", "over"]
    seqs, events, nontrivial, renders = [], 0, 0, 0
    by_shape = {}
    for i in range(n_seq):
        shape = shapes[i % len(shapes)]
        seq = overflow_sequence(rng) if i == 1 else gen_sequence(rng, ctx.tier, shape)
        seqs.append(seq)
        by_shape[shape] = by_shape.get(shape, 0) + 1
        for kind in KINDS:
            v, d, info = run_deterministic(kind, seq, driver)
            events += len(seq["events"]) + 1
            if v:
                violations.append(_violation(v, kind, seq, "deterministic"))
            if d:
                disagreements.append({"layer": "progress-state", "what": d, "observer": kind, "seq": seq})
            nontrivial += info.get("nontrivial", 0)
            renders += info.get("renders", 0)
            if v or d:
                break
        if violations or disagreements:
            break
    # work discovered in stages (a stream of its own, so the sequences above stay what they were)
    rng_st = random.Random(ctx.seed * 613 + 7)
    if not violations and not disagreements:
        for i in range(max(6, n_seq // 8)):
            seq = staged_sequence(rng_st, ctx.tier)
            by_shape["staged"] = by_shape.get("staged", 0) + 1
            for kind in KINDS:
                v, d, info = run_deterministic(kind, seq, driver)
                events += len(seq["events"]) + 1
                if v:
                    violations.append(_violation(v, kind, seq, "deterministic"))
                if d:
                    disagreements.append({"layer": "progress-state", "what": d, "observer": kind, "seq": seq})
                renders += info.get("renders", 0)
                if v or d:
                    break
            if violations or disagreements:
                break
    # a section with many scopes
    if not violations and not disagreements:
        for n_sc in ((64,) if quick else (51, 64, 100)):      # the model is cubic in the number of scopes: 100 takes 10 s per display
            seq = wide_sequence(rng_st, n_sc)
            by_shape["wide"] = by_shape.get("wide", 0) + 1
            for kind in KINDS:
                v, d, info = run_deterministic(kind, seq, driver)
                events += len(seq["events"]) + 1
                if v:
                    violations.append(_violation(v, kind, seq, "deterministic"))
                if d:
                    disagreements.append({"layer": "progress-state", "what": d, "observer": kind, "seq": seq})
                renders += info.get("renders", 0)
                if v or d:
                    break
            if violations or disagreements:
                break
    cov["samples"] = [{"events": s["events"][:6], "scopes": s["scopes"][:4], "shape": s["shape"]} for s in seqs[:2]]
    cov["programs"] = len(seqs)
    cov["sequence_shapes"] = by_shape
    cov["events_compared_with_model"] = events if driver is not None else 0
    cov["distinct_nontrivial"] = nontrivial
    cov["renderings"] = renders
    cov["unorderable_or_mixed_sequences"] = sum(s["flavour"] in ("unorderable", "mixed", "collide") for s in seqs)
    # threaded
    thr = 0
    if not violations:
        for i in range(n_thr):
            seq = gen_sequence(rng, ctx.tier, "run")
            kind = KINDS[i % 3]
            v = run_threaded(kind, seq, rng)
            thr += 1
            if v:
                violations.append(_violation(v, kind, seq, "threaded"))
                break
    cov["threaded_runs"] = thr
    slow = 0
    if not violations:
        for i, seq in enumerate([q for q in seqs if q["shape"] == "run" and len(q["events"]) >= 4][:6 if quick else 60]):
            kind = KINDS[i % 3]
            v = run_slow_output(kind, seq)
            slow += v is None
            if v:
                violations.append(_violation(v, kind, seq, "slow-output"))
                break
    cov["runs_ending_during_an_output"] = slow
    storms = 0
    if not violations:
        for kind in (KINDS if quick else KINDS * 4):
            v = run_insert_storm(kind)
            storms += 1
            if v:
                violations.append({"property": "C20", "what": v, "kind": "storm", "observer": kind})
                break
    cov["insert_storms"] = storms
    if not violations:
        v, n_fac = public_factory_cases()
        violations += v[:2]
        cov["public_factory_runs"] = n_fac
    # (e)
    d, st = diff_legal(ctx if not monitors_only else type("C", (), {"driver": None})(), rng, seqs[: (40 if quick else 400)], 3)
    disagreements += d
    cov.update(st)
    cov.update(probe_boundaries())
    cov["evaluations"] = cov["function_evaluations"] + cov["sort_cases"] + cov.get("legal_cases", 0) + events
    if driver is not None and not violations and not disagreements:
        floor = {"distinct_nontrivial": len(seqs), "renderings": len(seqs) * 3}
        for k, f in floor.items():
            if cov[k] < f:
                disagreements.append({"layer": "generator", "what": f"coverage floor: {k}={cov[k]} < {f}"})
        if has_fallback and cov["sort_fallback_path"] == 0:
            disagreements.append({"layer": "generator", "what": "no sort case took the fallback path"})
    return {"violations": violations, "disagreements": disagreements, "coverage": cov}


def replay(ctx, payload):
    w = payload.get("witness", payload)
    if w.get("kind") == "sort":
        _, real = sort_case(w["items"], True)
        return f"sorted_scope_items raises {real[6:] or 'TypeError'}" if real.startswith("raise") else None
    if w.get("kind") == "storm":
        for _ in range(4):
            v = run_insert_storm(w["observer"])
            if v:
                return v
        return None
    if w.get("kind") == "factory":
        v, _ = public_factory_cases(only=w["case"])
        return v[0]["what"] if v else None
    if w.get("kind") == "sequence":
        seq, kind = w["seq"], w["observer"]
        if w.get("mode") == "slow-output":
            return run_slow_output(kind, seq) or None
        if w.get("mode") == "threaded":
            for k in range(5):
                v = run_threaded(kind, seq, random.Random(k))
                if v:
                    return v
            return None
        v, d, _ = run_deterministic(kind, seq, getattr(ctx, "driver", None))
        return v
    return None


def search(ctx, broken):
    """A proof or a correspondence is broken: run the monitors alone on many more sequences (unorderable scopes first)."""
    class C:
        pass
    for k in range(1, 4):
        c = C()
        c.__dict__.update(ctx.__dict__)
        c.seed = ctx.seed + 1000 * k
        res = explore(c, n_scale=3.0 if ctx.tier == "quick" else 1.0, monitors_only=True)
        if res["violations"]:
            return res["violations"]
    return []
