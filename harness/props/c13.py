"""C13 — run, dry_run and render never modify the Plan or Registry they are given.

T2, on the real code:
* deep structural snapshot of the caller's objects (plan object, graph object, `_scope`, node identities with scope /
  fn / value / stack_frame identities, attribute dicts, edge list with key identities and attribute dicts, adjacency
  order; registry object, mapping dict, every RegistryValue with store identity / is_source / stack_frame identity)
  before vs after `uberjob.run` for every outcome (success, failure in the stale check, failure of a call, failure of
  a store read/write, dry_run, with / without registry, with transform_physical) and after `uberjob.render`;
* write-target trace: the mutating methods of networkx.MultiDiGraph, `MultiDiGraph.copy`, `Node.__setattr__`,
  `RegistryValue.__setattr__`, `Registry.__setattr__` are wrapped (class attributes, harness-side) while the call
  runs: every mutated graph must have been created during the call (never the caller's), every written node /
  registry object must have been created during the call, the graph the engine is given is never the caller's, and
  the LINEAGE of graph copies and writes must be an instance of the one the Lean run program (built from the
  regenerated flags) produces (driver `c13run`);
* real-thread concurrent runs of one plan: identical results, snapshot unchanged;
* `Plan.copy` / `Registry.copy` independence: generated mutation sequences on original and copy, canonical snapshots
  of both compared with the Lean heap model (driver `c13plan`, `c13reg`).
"""
from __future__ import annotations

import datetime as dt
import random
import threading

import networkx as nx

import uberjob
import uberjob._execution.run_physical as rp_mod
import uberjob._registry as reg_mod
import uberjob._transformations.caching as caching_mod
import uberjob.graph as ugraph
from uberjob.graph import Call, Dependency, KeywordArg, Literal, PositionalArg

from harness import plans

GEN = ["Purity"]
ASSUMPTIONS = [
    "user callbacks (call functions, stores, transform_physical, render predicates) do not reach the caller's plan by other means",
    "networkx.MultiDiGraph.copy copies structure and attribute dicts and shares node and key objects (checked by the c13plan differential)",
]
TRUSTED_EXTRA = ["the Heap model's address policy (k-th allocation of thread t at base+2k+t) is a modelling device for 'fresh'"]

MUTATORS = ["add_node", "add_nodes_from", "remove_node", "remove_nodes_from", "add_edge", "add_edges_from",
            "add_weighted_edges_from", "remove_edge", "remove_edges_from", "clear", "clear_edges", "update"]


# ------------------------------------------------------------------------------------------------ stores
class Clock:
    def __init__(self):
        self.t = 0
        self.lock = threading.Lock()

    def tick(self):
        with self.lock:
            self.t += 1
            return dt.datetime(2000, 1, 1) + dt.timedelta(seconds=self.t)


MISSING = object()


class StoreFailure(Exception):
    pass


class MemStore(uberjob.ValueStore):
    """In-memory store with a logical clock; `fail` in {None, 'mtime', 'read', 'write'}."""

    def __init__(self, clock, name, value=MISSING, fail=None):
        self.clock, self.name, self.fail = clock, name, fail
        self.value = value
        self.mtime = None if value is MISSING else clock.tick()
        self.lock = threading.Lock()

    def read(self):
        if self.fail == "read":
            raise StoreFailure("read " + self.name)
        with self.lock:
            if self.value is MISSING:
                raise StoreFailure("empty " + self.name)
            return self.value

    def write(self, value):
        if self.fail == "write":
            raise StoreFailure("write " + self.name)
        with self.lock:
            self.value = value
            self.mtime = self.clock.tick()

    def get_modified_time(self):
        if self.fail == "mtime":
            raise StoreFailure("mtime " + self.name)
        return self.mtime

    def __repr__(self):
        return "MemStore(%s)" % self.name


# ------------------------------------------------------------------------------------------------ snapshots
def snapshot(plan, registry):
    """-> (comparable structure, objects kept alive so that ids stay meaningful)"""
    keep = [plan, registry]
    g = plan.graph if isinstance(plan, uberjob.Plan) else plan
    keep.append(g)
    s = {}
    if isinstance(plan, uberjob.Plan):
        s["plan"] = (id(plan), id(plan.graph), plan._scope, id(plan._scope_lock), sorted(vars(plan)))
    s["graph_attrs"] = (id(g.graph), sorted((repr(k), id(v)) for k, v in g.graph.items()))
    nodes = []
    for n, d in g.nodes(data=True):
        keep += [n, d]
        extra = ()
        if type(n) is Call:
            extra = (id(n.fn), id(n.stack_frame))
            keep += [n.fn, n.stack_frame]
        elif type(n) is Literal:
            extra = (id(n.value),)
            keep.append(n.value)
        # a node of the caller's graph may, after a faulty run/render, be an object that is not a Node at all
        sc = getattr(n, "scope", "<object without scope: %s>" % type(n).__name__)
        nodes.append((id(n), type(n).__name__, sc, id(sc), extra, id(d), sorted((repr(k), id(v)) for k, v in d.items())))
        keep.append(sc)
    s["nodes"] = nodes
    edges = []
    for u, v, k, d in g.edges(keys=True, data=True):
        keep += [k, d]
        edges.append((id(u), id(v), repr(k), id(k), id(d), sorted((repr(a), id(b)) for a, b in d.items())))
    s["edges"] = edges
    s["pred"] = [(id(v), [(id(u), [id(k) for k in g.pred[v][u]]) for u in g.pred[v]]) for v in g.nodes()]
    s["succ"] = [(id(u), [(id(v), [id(k) for k in g.succ[u][v]]) for v in g.succ[u]]) for u in g.nodes()]
    if registry is not None:
        keep.append(registry.mapping)
        ents = []
        for n, rv in registry.mapping.items():
            keep += [n, rv, rv.value_store, rv.stack_frame]
            ents.append((id(n), id(rv), id(rv.value_store), rv.is_source, id(rv.stack_frame)))
        s["registry"] = (id(registry), id(registry.mapping), sorted(vars(registry)), ents)
    return s, keep


def diff(a, b):
    for k in a:
        if a[k] != b.get(k):
            if isinstance(a[k], list) and isinstance(b.get(k), list):
                for i, (x, y) in enumerate(zip(a[k], b[k])):
                    if x != y:
                        return f"{k}[{i}]: {x} -> {y}"
                return f"{k}: length {len(a[k])} -> {len(b[k])}"
            return f"{k}: {a[k]} -> {b.get(k)}"
    return None


# ------------------------------------------------------------------------------------------------ write-target trace
class Trace:
    """While active, logs every structural write to any MultiDiGraph / Node / RegistryValue / Registry object."""

    def __init__(self):
        self.events = []            # ('copy', src, dst) | ('mut', gid, method) | ('engine', gid)
        self.attr_writes = []       # (kind, id(obj), attr)
        self.keep = []
        self.tls = threading.local()
        self.stopped = False
        self._undo = []

    def _patch(self, cls, name, make):
        had = name in cls.__dict__
        orig = getattr(cls, name)
        setattr(cls, name, make(orig))
        self._undo.append((cls, name, had, orig))

    def __enter__(self):
        tr = self

        def mut(name):
            def make(orig):
                def w(self, *a, **k):
                    if not tr.stopped and not getattr(tr.tls, "in_copy", 0):
                        tr.keep.append(self)
                        tr.events.append(("mut", id(self), name))
                    return orig(self, *a, **k)
                return w
            return make

        for m in MUTATORS:
            self._patch(nx.MultiDiGraph, m, mut(m))

        def make_copy(orig):
            def w(self, *a, **k):
                tr.tls.in_copy = getattr(tr.tls, "in_copy", 0) + 1
                try:
                    r = orig(self, *a, **k)
                finally:
                    tr.tls.in_copy -= 1
                if not tr.stopped and not tr.tls.in_copy:
                    tr.keep += [self, r]
                    tr.events.append(("copy", id(self), id(r)))
                return r
            return w

        self._patch(nx.MultiDiGraph, "copy", make_copy)

        def setattr_logger(kind):
            def make(orig):
                def w(self, name, value):
                    if not tr.stopped:
                        tr.keep.append(self)
                        tr.attr_writes.append((kind, id(self), name))
                    object.__setattr__(self, name, value)
                return w
            return make

        self._patch(ugraph.Node, "__setattr__", setattr_logger("node"))
        self._patch(reg_mod.RegistryValue, "__setattr__", setattr_logger("registry_value"))
        self._patch(reg_mod.Registry, "__setattr__", setattr_logger("registry"))

        def make_rfog(orig):
            def w(graph, fn, **k):
                tr.keep.append(graph)
                tr.events.append(("engine", id(graph)))
                return orig(graph, fn, **k)
            return w

        self._mods = [(m, m.run_function_on_graph) for m in (caching_mod, rp_mod)]
        for m, orig in self._mods:
            m.run_function_on_graph = make_rfog(orig)
        return self

    def __exit__(self, *a):
        for cls, name, had, orig in reversed(self._undo):
            if had:
                setattr(cls, name, orig)
            else:
                delattr(cls, name)
        for m, orig in self._mods:
            m.run_function_on_graph = orig

    def lineage(self, caller_gid):
        idx = {caller_gid: 0}
        out = []
        for e in self.events:
            if e[0] == "copy":
                if e[1] in idx:
                    idx[e[2]] = len(idx)
                    out.append("C%d>%d" % (idx[e[1]], idx[e[2]]))
                else:
                    out.append("C?>?")
            elif e[0] == "mut":
                out.append("M%s" % idx.get(e[1], "?"))
        res = []
        for t in out:
            if not res or res[-1] != t:
                res.append(t)
        return res


def is_instance_of(real, model, complete=True):
    """real lineage: the same copies in the same order (a prefix of them if the call was cut short by an exception),
    and writes only where (and when) the model writes."""
    rc, mc = [t for t in real if t[0] == "C"], [t for t in model if t[0] == "C"]
    if rc != (mc if complete else mc[:len(rc)]):
        return False
    i = 0
    for t in real:
        while i < len(model) and model[i] != t:
            if model[i][0] == "C":
                return False
            i += 1
        if i == len(model):
            return False
        if t[0] == "C":
            i += 1          # an M token may repeat (one phase, several writes were collapsed), a copy happens once
    return True


# ------------------------------------------------------------------------------------------------ run cases
SCOPES = ["a", "b", 1, 2]


def gen_run_case(rng, tier):
    spec = plans.gen_spec(rng, nmax=7 if tier == "quick" else 12)
    ids = [nd["id"] for nd in spec["nodes"]]
    calls = [nd["id"] for nd in spec["nodes"] if nd["kind"] == "call"]
    r = rng.random()
    if r < 0.12:
        out = None
    elif r < 0.45:
        out = {"n": rng.choice(ids)}
    else:
        picks = rng.sample(ids, min(len(ids), rng.choice([1, 2, 3])))
        out = {"list": [{"n": picks[0]}, {"dict": [[{"v": "k"}, {"n": picks[-1]}]]}, {"tuple": [{"n": p} for p in picks]}]}
    use_reg = rng.random() < 0.65
    reg = {}
    sources = 0
    if use_reg:
        for i in rng.sample(ids, rng.randint(0, len(ids))):
            if i in calls or rng.random() < 0.15:
                reg[str(i)] = {"state": rng.choice(["empty", "old", "new"]), "fail": None}
        sources = rng.choice([0, 0, 1, 2])
    outcome = rng.choice(["ok", "ok", "dry", "stale_fail", "call_fail", "store_fail"])
    failing = {}
    if outcome == "call_fail" and calls:
        for i in rng.sample(calls, min(len(calls), rng.choice([1, 2]))):
            failing[str(i)] = rng.choice(["Failure", "ValueError"])
    if outcome == "stale_fail" and reg:
        reg[rng.choice(sorted(reg))]["fail"] = "mtime"
    if outcome == "store_fail" and reg:
        reg[rng.choice(sorted(reg))]["fail"] = rng.choice(["read", "write"])
    return {"spec": spec, "output": out, "registry": reg if use_reg else None, "sources": sources,
            "dry_run": outcome == "dry", "failing": failing, "workers": rng.choice([1, 2, 4]),
            "max_errors": rng.choice([0, 0, 2, None]), "scheduler": rng.choice(["default", "random"]),
            "transform": rng.choice([None, None, "identity", "copy", "mutate"]),
            "fresh_time": rng.choice([None, None, 3]), "retry": rng.choice([None, 2])}


def val_of(ref, N):
    if ref is None:
        return None
    if "n" in ref:
        return N[ref["n"]]
    if "v" in ref:
        return ref["v"]
    if "list" in ref:
        return [val_of(r, N) for r in ref["list"]]
    if "tuple" in ref:
        return tuple(val_of(r, N) for r in ref["tuple"])
    if "dict" in ref:
        return {val_of(k, N): val_of(v, N) for k, v in ref["dict"]}
    raise ValueError(ref)


def build_case(case):
    rec = plans.Rec()
    failing = {int(k): v for k, v in case["failing"].items()}
    plan, N, raised = plans.build(case["spec"], rec, failing)
    registry = None
    clock = Clock()
    stores = []
    if case["registry"] is not None:
        registry = uberjob.Registry()
        for k in range(case["sources"]):
            st = MemStore(clock, "src%d" % k, value=("source", k))
            stores.append(st)
            with plan.scope("src"):
                N["s%d" % k] = registry.source(plan, st)
        for i, cfg in sorted(case["registry"].items(), key=lambda kv: int(kv[0])):
            st = MemStore(clock, "n%s" % i, value=MISSING if cfg["state"] == "empty" else ("stored", i), fail=cfg["fail"])
            if cfg["state"] == "new":
                st.mtime = dt.datetime(2000, 1, 2)
            stores.append(st)
            registry.add(N[int(i)], st)
    return plan, registry, val_of(case["output"], N), N, stores


def transform_of(kind):
    if kind is None:
        return None
    if kind == "identity":
        return lambda plan, node: (plan, node)
    if kind == "copy":
        return lambda plan, node: (plan.copy(), node)

    def mutate(plan, node):
        extra = plan.lit("extra")
        if node is not None:
            plan.add_dependency(extra, node)
        return plan, node
    return mutate


def canon_exc(e):
    if e is None:
        return "ok"
    return type(e).__name__ + (":" + type(e.__cause__).__name__ if e.__cause__ is not None else "")


def canon_value(v):
    if isinstance(v, uberjob.Plan):
        return "plan"
    if isinstance(v, ugraph.Node):
        return "node"
    if isinstance(v, (list, tuple)):
        return [canon_value(x) for x in v]
    if isinstance(v, dict):
        return sorted((repr(k), repr(canon_value(x))) for k, x in v.items())
    return repr(v)


def do_run(case, plan, registry, output):
    try:
        fresh = None if case["fresh_time"] is None else dt.datetime(2000, 1, 1) + dt.timedelta(seconds=case["fresh_time"])
        v = uberjob.run(plan, output=output, registry=registry, dry_run=case["dry_run"], max_workers=case["workers"],
                        max_errors=case["max_errors"], scheduler=case["scheduler"], progress=None,
                        transform_physical=transform_of(case["transform"]), fresh_time=fresh, retry=case["retry"])
        return v, None
    except Exception as e:      # noqa: BLE001 - every outcome is in scope
        return None, e


def check_run(case, driver_lineages):
    """-> (violations, disagreements, info)"""
    viol, dis = [], []
    plan, registry, output, N, stores = build_case(case)
    before, keep = snapshot(plan, registry)
    caller_nodes = {x[0] for x in before["nodes"]}
    caller_reg = set()
    if registry is not None:
        caller_reg = {before["registry"][0]} | {e[1] for e in before["registry"][3]}
    with Trace() as tr:
        value, exc = do_run(case, plan, registry, output)
    after, keep2 = snapshot(plan, registry)
    d = diff(before, after)
    if d:
        viol.append(f"run ({canon_exc(exc)}, dry_run={case['dry_run']}) changed the caller's objects: {d}")
    gid = id(plan.graph)
    created = {e[2] for e in tr.events if e[0] == "copy"}
    for e in tr.events:
        if e[0] == "mut" and e[1] == gid:
            viol.append(f"run called {e[2]} on the caller's graph object")
        elif e[0] == "mut" and e[1] not in created:
            dis.append(f"run mutated a graph that no traced copy created ({e[2]})")
        elif e[0] == "engine" and e[1] == gid:
            viol.append("the engine was handed the caller's graph object")
    for kind, oid, attr in tr.attr_writes:
        if kind == "node" and oid in caller_nodes:
            viol.append(f"run assigned .{attr} on one of the caller's node objects")
        if kind != "node" and oid in caller_reg:
            viol.append(f"run assigned .{attr} on the caller's {kind}")
    lin = tr.lineage(gid)
    reg_flag = 1 if registry else 0          # `if registry:` — an empty Registry is falsy
    key = (reg_flag, 1 if case["transform"] == "copy" else 0, 0)
    model = driver_lineages.get(key)
    if model is not None and not is_instance_of(lin, model, complete=exc is None):
        dis.append(f"graph lineage of the real run {lin} is not an instance of the model's {model}")
    info = {"outcome": canon_exc(exc) if not case["dry_run"] else "dry:" + canon_exc(exc), "lineage": " ".join(lin),
            "writes": sum(1 for e in tr.events if e[0] == "mut"), "attr_writes": len(tr.attr_writes)}
    del keep, keep2
    return viol, dis, info


# ------------------------------------------------------------------------------------------------ render
def gen_render_case(rng, tier):
    spec = plans.gen_spec(rng, nmax=6 if tier == "quick" else 10)
    calls = [nd["id"] for nd in spec["nodes"] if nd["kind"] == "call"]
    return {"spec": spec, "level": rng.choice([None, 0, 1, 2]), "predicate": rng.choice([None, "calls", "half"]),
            "registered": sorted(rng.sample(calls, rng.randint(0, len(calls)))) if rng.random() < 0.5 else None,
            "arg": rng.choice(["plan", "graph", "tuple", "dry"]), "real_dot": rng.random() < (0.15 if tier == "quick" else 0.05)}


def check_render(case, driver_lineages):
    import nxv
    viol, dis = [], []
    rec = plans.Rec()
    plan, N, _ = plans.build(case["spec"], rec, {})
    registry = None
    if case["registered"] is not None:
        registry = uberjob.Registry()
        clock = Clock()
        for i in case["registered"]:
            registry.add(N[i], MemStore(clock, "n%d" % i, value=1))
    pred = None
    if case["predicate"] == "calls":
        pred = lambda u, d: type(u) is Call                     # noqa: E731
    elif case["predicate"] == "half":
        keepset = {n for k, n in enumerate(plan.graph.nodes()) if k % 2 == 0}
        pred = lambda u, d: u in keepset                        # noqa: E731
    target = plan
    if case["arg"] == "graph":
        target = plan.graph
    elif case["arg"] == "tuple":
        target = (plan, None)
    elif case["arg"] == "dry":
        target = uberjob.run(plan, registry=registry, dry_run=True, output=[N[i] for i in sorted(N)][:2], progress=None)
    seen = target[0] if isinstance(target, tuple) else target
    before, keep = snapshot(plan, registry)
    before2, keep2 = snapshot(seen, None)
    caller_nodes = {x[0] for x in before["nodes"]} | {x[0] for x in before2["nodes"]}
    orig_render = nxv.render
    exc = None
    with Trace() as tr:
        def fake(graph, style, **kw):
            tr.stopped = True
            tr.rendered = graph
            if case["real_dot"]:
                return orig_render(graph, style, **kw)      # the real nxv + GraphViz (evaluates the registry-reading styles)
            return b""
        nxv.render = fake
        try:
            uberjob.render(target, registry=registry, predicate=pred, level=case["level"], format="svg")
        except Exception as e:      # noqa: BLE001
            exc = e
        finally:
            nxv.render = orig_render
    after, _k = snapshot(plan, registry)
    after2, _k2 = snapshot(seen, None)
    d = diff(before, after) or diff(before2, after2)
    if d:
        viol.append(f"render ({canon_exc(exc)}) changed the caller's objects: {d}")
    gid = id(seen.graph if isinstance(seen, uberjob.Plan) else seen)
    for e in tr.events:
        if e[0] == "mut" and e[1] == gid:
            viol.append(f"render called {e[2]} on the caller's graph object")
    if getattr(tr, "rendered", None) is not None and id(tr.rendered) == gid:
        viol.append("render handed the caller's graph object to nxv")
    for kind, oid, attr in tr.attr_writes:
        if kind == "node" and oid in caller_nodes:
            viol.append(f"render assigned .{attr} on one of the caller's node objects")
    lin = tr.lineage(gid)
    model = driver_lineages.get((0, 0, 1))
    if model is not None and exc is None and not is_instance_of(lin, model):
        dis.append(f"graph lineage of the real render {lin} is not an instance of the model's {model}")
    if exc is not None:
        dis.append(f"render raised {exc!r}")
    del keep, keep2
    return viol, dis, {"lineage": " ".join(lin), "grouped": case["level"] is not None, "real_dot": case["real_dot"]}


# ------------------------------------------------------------------------------------------------ concurrency
def check_concurrent(case, nthreads):
    viol, dis = [], []
    case = dict(case, failing={}, dry_run=False, transform=None)
    if case["registry"] is not None:         # fresh, filled stores only: concurrent runs then only read them
        case["registry"] = {k: {"state": "new", "fail": None} for k in case["registry"]}
        case["fresh_time"] = None
    plan, registry, output, N, stores = build_case(case)
    before, keep = snapshot(plan, registry)
    seq_v, seq_e = do_run(case, plan, registry, output)
    results = [None] * nthreads
    barrier = threading.Barrier(nthreads)

    def work(k):
        barrier.wait()
        c = dict(case, dry_run=(k == nthreads - 1 and nthreads > 2))
        results[k] = do_run(c, plan, registry, output)

    ts = [threading.Thread(target=work, args=(k,)) for k in range(nthreads)]
    for t in ts:
        t.start()
    for t in ts:
        t.join(120)
    if any(t.is_alive() for t in ts):
        dis.append("a concurrent run did not finish within 120 s")
        return viol, dis
    after, _ = snapshot(plan, registry)
    d = diff(before, after)
    if d:
        viol.append(f"{nthreads} concurrent runs of one plan changed the caller's objects: {d}")
    # ... also while ANOTHER thread is in the middle of building on the plan (inside `with plan.scope(...)`): a run works on
    # its own copy, so it must neither wait for nor disturb the builder (the copy must not share the plan's scope lock)
    held = {}

    def runner():
        held["r"] = do_run(dict(case, dry_run=False), plan, registry, output)

    with plan.scope("builder-holds-this-scope-open"):
        t = threading.Thread(target=runner, daemon=True)
        t.start()
        t.join(20)
        blocked = t.is_alive()
    t.join(120)
    if blocked:
        viol.append("a run of the plan from another thread did not finish while the caller was inside `with plan.scope(...)`: "
                    "the run's private copy shares state (the scope lock) with the caller's plan")
    elif "r" in held and (canon_value(held["r"][0]), canon_exc(held["r"][1])) != (canon_value(seq_v), canon_exc(seq_e)):
        viol.append("a run started while the caller held a scope open gave a different result")
    want = (canon_value(seq_v), canon_exc(seq_e))
    for k, (v, e) in enumerate(results):
        if k == nthreads - 1 and nthreads > 2:
            if e is not None or not (isinstance(v, tuple) and isinstance(v[0], uberjob.Plan)):
                viol.append(f"concurrent dry run gave {canon_exc(e)} / {type(v).__name__}")
            continue
        got = (canon_value(v), canon_exc(e))
        if got != want:
            viol.append(f"concurrent run {k} of one plan gave {got}, the sequential run gave {want}")
    del keep
    return viol, dis


# ------------------------------------------------------------------------------------------------ Plan.copy / Registry.copy vs the model
ATOM = {"a": 1, "b": 2, 1: 3, 2: 4, "src": 5, "x": 6, "y": 7}
UNATOM = {v: k for k, v in ATOM.items()}


def key_atom(k):
    if type(k) is Dependency:
        return 0
    if type(k) is PositionalArg:
        return 1 + 2 * k.index
    if type(k) is KeywordArg:
        return 2 + 2 * (k.index * 16 + int(k.name[1:]))
    raise ValueError(k)


def atom_key(a):
    if a == 0:
        return Dependency()
    if a % 2 == 1:
        return PositionalArg((a - 1) // 2)
    x = (a - 2) // 2
    return KeywordArg("k%d" % (x % 16), x // 16)


def scope_atoms(scope):
    return " ".join(str(ATOM[s]) for s in scope)


def gen_plan_ops(rng, tier):
    spec = plans.gen_spec(rng, nmax=5 if tier == "quick" else 8)
    n_ops = rng.randint(3, 14 if tier == "quick" else 30)
    return {"spec": spec, "seed": rng.randrange(1 << 30), "n_ops": n_ops, "fork_at": rng.randint(0, 3)}


def run_plan_ops(case, monitor=None):
    """Executes generated mutations on a real plan and its copy; returns (driver line, real reply string, #ops).
    With `monitor` (a list): the copy is taken first, the first half of the mutations goes through the copy, the
    second half through the original, and the direct independence statements are checked (violations appended)."""
    rng = random.Random(case["seed"])
    rec = plans.Rec()
    plan, N, _ = plans.build(case["spec"], rec, {})
    init = list(plan.graph.nodes())
    name = {id(n): str(i) for i, n in enumerate(init)}
    keep = list(init)
    news = []
    node_txt = ";".join("%d:%s" % (0 if type(n) is Call else 1, scope_atoms(n.scope)) for n in init)
    edge_txt = ";".join("%s,%s,%d" % (name[id(u)], name[id(v)], key_atom(k)) for u, v, k in plan.graph.edges(keys=True))
    P = {"o": plan, "c": None}
    stack = {"o": [], "c": []}
    ops = []
    last = [None]
    last_who = [None]

    def ref(n):
        return name[id(n)]

    def all_nodes():
        return init + news

    fork_at = 0 if monitor is not None else case["fork_at"]
    half = 1 + (case["n_ops"] - 1) // 2
    snap_o = snap_c = None
    for step in range(case["n_ops"]):
        if step == fork_at and P["c"] is None:
            P["c"] = plan.copy()
            ops.append("fork")
            if monitor is not None:
                snap_o = snapshot(plan, None)
            continue
        who = rng.choice(["o", "c"]) if P["c"] is not None else "o"
        if monitor is not None:
            who = "c" if step < half else "o"
            if step == half:
                d = diff(snap_o[0], snapshot(plan, None)[0])
                if d:
                    monitor.append(f"mutating a Plan.copy changed the original: {d} (ops {ops})")
                snap_c = snapshot(P["c"], None)
        X = P[who]
        kind = rng.choice(["new", "new", "edge", "edge", "redge", "rnode", "enter", "exit", "lscope"])
        if monitor is not None and kind == "lscope" and (last[0] is None or (who == "o") != (last_who[0] == "o")):
            continue        # node.scope = … is only legitimate on a node that plan itself just created
        if kind == "new":
            k = rng.choice([0, 1])
            n = X.call(lambda: None) if k == 0 else X.lit(("new", len(news)))
            name[id(n)] = "#%d" % len(news)
            news.append(n)
            keep.append(n)
            last[0] = n
            last_who[0] = who
            ops.append("%s:new:%d" % (who, k))
        elif kind == "edge":
            pool = list(X.graph.nodes()) if rng.random() < 0.8 else all_nodes()
            if len(pool) < 2:
                continue
            u, v = rng.sample(pool, 2)
            a = rng.choice([0, 0, 1, 3, 2, 34])
            if a == 0 and X.graph.has_node(u) and X.graph.has_node(v):
                X.add_dependency(u, v)
            else:
                X.graph.add_edge(u, v, atom_key(a))
            ops.append("%s:edge:%s,%s,%d" % (who, ref(u), ref(v), a))
        elif kind == "redge":
            es = list(X.graph.edges(keys=True))
            if not es:
                continue
            u, v, k = rng.choice(es)
            X.graph.remove_edge(u, v, k)
            ops.append("%s:redge:%s,%s,%d" % (who, ref(u), ref(v), key_atom(k)))
        elif kind == "rnode":
            ns = list(X.graph.nodes())
            if not ns:
                continue
            n = rng.choice(ns)
            X.graph.remove_node(n)
            ops.append("%s:rnode:%s" % (who, ref(n)))
        elif kind == "enter":
            s = rng.choice(["a", "b", 1, 2, "x"])
            cm = X.scope(s)
            cm.__enter__()
            stack[who].append(cm)
            ops.append("%s:pscope:%s" % (who, scope_atoms(X._scope)))
        elif kind == "exit":
            if not stack[who]:
                continue
            stack[who].pop().__exit__(None, None, None)
            ops.append("%s:pscope:%s" % (who, scope_atoms(X._scope)))
        elif kind == "lscope":
            if last[0] is None:
                continue
            sc = tuple(rng.choice(["a", "b", "y", 2]) for _ in range(rng.randint(0, 2)))
            last[0].scope = sc
            ops.append("%s:lscope:%s" % (who, scope_atoms(sc)))
    if monitor is not None and snap_c is not None:
        d = diff(snap_c[0], snapshot(P["c"], None)[0])
        if d:
            monitor.append(f"mutating the original after Plan.copy changed the copy: {d} (ops {ops})")
    line = "c13plan | %s | %s | %s | %s" % (scope_atoms(()), node_txt, edge_txt, ";".join(ops))

    def snap(X):
        if X is None:
            return "-"
        nrows = sorted("%s:%d:%s" % (ref(n), 0 if type(n) is Call else 1, scope_atoms(n.scope)) for n in X.graph.nodes())
        erows = sorted("%s,%s,%d" % (ref(u), ref(v), key_atom(k)) for u, v, k in X.graph.edges(keys=True))
        return "S[%s]N[%s]E[%s]" % (scope_atoms(X._scope), "|".join(nrows), "|".join(erows))

    real = "orig=%s copy=%s" % (snap(P["o"]), snap(P["c"]))
    for who in ("o", "c"):
        while stack[who]:
            stack[who].pop().__exit__(None, None, None)
    return line, real, len(ops)


def gen_reg_ops(rng, tier):
    return {"n": rng.randint(0, 5), "seed": rng.randrange(1 << 30), "n_ops": rng.randint(2, 12 if tier == "quick" else 30),
            "fork_at": rng.randint(0, 2)}


def reg_snap(X):
    return [(id(n), id(rv), id(rv.value_store), rv.is_source, id(rv.stack_frame)) for n, rv in X.mapping.items()]


def run_reg_ops(case, monitor=None):
    rng = random.Random(case["seed"])
    plan = uberjob.Plan()
    clock = Clock()
    nodes = [plan.call(lambda: None) for _ in range(case["n"] + 6)]
    natom = {id(n): 1000 + i for i, n in enumerate(nodes)}
    stores = [MemStore(clock, "s%d" % i) for i in range(6)]
    satom = {id(s): 50 + i for i, s in enumerate(stores)}
    frames = {}
    keep = []

    def fatom(f):
        keep.append(f)
        return frames.setdefault(id(f), 7 + len(frames))

    reg = uberjob.Registry()
    for i in range(case["n"]):
        if rng.random() < 0.3:
            n = reg.source(plan, stores[i % 6])
            natom[id(n)] = 1000 + len(natom)
            nodes.append(n)
        else:
            reg.add(nodes[i], stores[rng.randrange(6)])
    ename = {}
    ents = []
    for i, (n, rv) in enumerate(reg.mapping.items()):
        ename[id(rv)] = str(i)
        keep.append(rv)
        ents.append("%d,%d,%d,%d" % (natom[id(n)], satom[id(rv.value_store)], rv.is_source, fatom(rv.stack_frame)))
    R = {"o": reg, "c": None}
    ops = []
    nnew = [0]

    def new_name(rv):
        keep.append(rv)
        ename[id(rv)] = "#%d" % nnew[0]
        nnew[0] += 1

    fork_at = 0 if monitor is not None else case["fork_at"]
    half = 1 + (case["n_ops"] - 1) // 2
    snap_o = snap_c = None
    for step in range(case["n_ops"]):
        if step == fork_at and R["c"] is None:
            R["c"] = reg.copy()
            for rv in R["c"].mapping.values():
                new_name(rv)
            ops.append("fork")
            snap_o = reg_snap(reg)
            if monitor is not None:
                if [(a, c, d, e) for a, _, c, d, e in reg_snap(R["c"])] != [(a, c, d, e) for a, _, c, d, e in snap_o]:
                    monitor.append("Registry.copy does not list the same nodes / stores / flags / frames")
                if {b for _, b, _, _, _ in reg_snap(R["c"])} & {b for _, b, _, _, _ in snap_o}:
                    monitor.append("Registry.copy shares a RegistryValue object with the original")
            continue
        who = rng.choice(["o", "c"]) if R["c"] is not None else "o"
        if monitor is not None:
            who = "c" if step < half else "o"
            if step == half:
                if reg_snap(reg) != snap_o:
                    monitor.append(f"mutating a Registry.copy changed the original (ops {ops})")
                snap_c = reg_snap(R["c"])
        X = R[who]
        kind = rng.choice(["add", "src", "store", "rm"])
        present = list(X.mapping)
        if kind == "add":
            free = [n for n in nodes if n not in X.mapping]
            if not free:
                continue
            n, s = rng.choice(free), rng.choice(stores)
            X.add(n, s)
            rv = X.mapping[n]
            new_name(rv)
            ops.append("%s:add:%d,%d,0,%d" % (who, natom[id(n)], satom[id(s)], fatom(rv.stack_frame)))
        elif not present:
            continue
        elif kind == "src":
            n, b = rng.choice(present), rng.choice([0, 1])
            X.mapping[n].is_source = bool(b)
            ops.append("%s:src:%d,%d" % (who, natom[id(n)], b))
        elif kind == "store":
            n, s = rng.choice(present), rng.choice(stores)
            X.mapping[n].value_store = s
            ops.append("%s:store:%d,%d" % (who, natom[id(n)], satom[id(s)]))
        else:
            n = rng.choice(present)
            del X.mapping[n]
            ops.append("%s:rm:%d" % (who, natom[id(n)]))
    if monitor is not None and snap_c is not None and reg_snap(R["c"]) != snap_c:
        monitor.append(f"mutating the original after Registry.copy changed the copy (ops {ops})")
    line = "c13reg | %s | %s" % (";".join(ents), ";".join(ops))

    def snap(X):
        if X is None:
            return "-"
        return "|".join(sorted("%d:%s:%d:%s:%d" % (natom[id(n)], ename.get(id(rv), "?"), satom[id(rv.value_store)],
                                                    "true" if rv.is_source else "false", fatom(rv.stack_frame))
                               for n, rv in X.mapping.items()))

    return line, "orig=%s copy=%s" % (snap(R["o"]), snap(R["c"])), len(ops)


# ------------------------------------------------------------------------------------------------ entry points
def batch(driver, lines):
    import time
    for _ in range(40):
        try:
            return driver.batch(lines)
        except (FileNotFoundError, PermissionError, OSError):
            time.sleep(1.5)
    return driver.batch(lines)


def model_lineages(driver):
    if driver is None:
        return {}
    keys = [(r, t, 0) for r in (0, 1) for t in (0, 1)] + [(0, 0, 1)]
    rep = batch(driver, ["c13run | reg=%d | tcopy=%d | render=%d" % k for k in keys])
    return {k: v.split() for k, v in zip(keys, rep)}


def second_use_cases(ctx, replay=None):
    """What a call leaves behind shows at the NEXT use of the same objects:
    * the physical plan a dry run returned is the caller's object from then on: `run(physical, output=redirected)` must leave it
      as it is (deep snapshot), and a second such run must work and give the same value;
    * a Plan that is still EMPTY: `run(plan, output=<constants>)`, a dry run of it, and a run that fails in `transform_physical`
      leave it empty, and the plan a dry run returns is not the caller's object."""
    rng = random.Random(ctx.seed * 71 + 13)
    viol, done = [], 0
    n = 1 if replay else (60 if ctx.tier == "quick" else 800)
    for k in range(n):
        if replay is not None and replay.get("second_use") == "empty":
            break
        case = replay["case"] if replay else gen_run_case(rng, ctx.tier)
        case = dict(case, dry_run=True, failing={}, transform=None)
        if case["registry"] is not None:
            case["registry"] = {i: dict(cfg, fail=None) for i, cfg in case["registry"].items()}
        plan, registry, output, N, stores = build_case(case)
        res, exc = do_run(case, plan, registry, output)
        if exc is not None or output is None:
            continue
        phys, redirected = res
        before, keep = snapshot(phys, None)
        vals = []
        what = None
        for attempt in (1, 2):
            try:
                vals.append(canon_value(uberjob.run(phys, output=redirected, progress=None, max_workers=case["workers"])))
            except Exception as e:      # noqa: BLE001
                what = f"run #{attempt} of the physical plan a dry run returned raised {canon_exc(e)}"
                break
            after, keep2 = snapshot(phys, None)
            d = diff(before, after)
            if d:
                what = f"run #{attempt} of the physical plan a dry run returned changed that plan: {d}"
                break
        if what is None and len(vals) == 2 and vals[0] != vals[1]:
            what = f"two runs of the same physical plan returned {vals[0]} and then {vals[1]}"
        done += 1
        if what:
            viol.append({"property": "C13", "what": what, "kind": "second_use", "case": case, "second_use": "physical"})
            break
    if not viol and (replay is None or replay.get("second_use") == "empty"):
        def boom(plan, output):
            raise ValueError("transform_physical fails")
        for how, kw in (("run(output=5)", dict(output=5)), ("run(output=[1, {'a': (2, None)}])", dict(output=[1, {"a": (2, None)}])),
                        ("dry run (output=5)", dict(output=5, dry_run=True)), ("dry run (no output)", dict(dry_run=True)),
                        ("run failing in transform_physical", dict(output=7, transform_physical=boom))):
            plan = uberjob.Plan()
            before, keep = snapshot(plan, None)
            res = None
            try:
                res = uberjob.run(plan, progress=None, **kw)
            except ValueError:
                pass
            after, keep2 = snapshot(plan, None)
            d = diff(before, after)
            done += 1
            if d:
                viol.append({"property": "C13", "what": f"an EMPTY plan, {how}: the caller's plan changed: {d}", "kind": "second_use", "second_use": "empty"})
                break
            if kw.get("dry_run") and res is not None and res[0] is plan:
                viol.append({"property": "C13", "what": f"an EMPTY plan, {how}: the physical plan returned IS the caller's Plan object",
                             "kind": "second_use", "second_use": "empty"})
                break
    return viol, done


def explore(ctx):
    rng = random.Random(ctx.seed * 6151 + 13)
    q = ctx.tier == "quick"
    n_run, n_render, n_conc, n_pops, n_rops = (500, 120, 16, 600, 600) if q else (6000, 1000, 120, 12000, 12000)
    viol, dis = [], []
    cov = {"programs": 0, "runs": 0, "renders": 0, "concurrent_batches": 0, "plan_copy_op_sequences": 0,
           "registry_copy_op_sequences": 0, "copy_ops_total": 0, "graph_writes_traced": 0, "attr_writes_traced": 0,
           "rule": "deep snapshot before == after; every traced write targets an object created during the call; "
                   "graph lineage is an instance of the Lean run program's (c13run); Plan.copy/Registry.copy op sequences "
                   "== Lean heap model (c13plan, c13reg); concurrent results == sequential", "samples": []}
    outcomes, lineages = {}, set()
    lins = model_lineages(ctx.driver)
    for _ in range(n_run):
        case = gen_run_case(rng, ctx.tier)
        v, d, info = check_run(case, lins)
        cov["programs"] += 1
        cov["runs"] += 1
        cov["graph_writes_traced"] += info["writes"]
        cov["attr_writes_traced"] += info["attr_writes"]
        outcomes[info["outcome"]] = outcomes.get(info["outcome"], 0) + 1
        lineages.add(info["lineage"])
        if len(cov["samples"]) < 2 and case["registry"]:
            cov["samples"].append({"kind": "run", "case": case})
        viol += [{"property": "C13", "what": w, "kind": "run", "case": case} for w in v]
        dis += [{"layer": "heap(run path)", "what": w, "kind": "run", "case": case} for w in d]
        if len(viol) >= 3 or len(dis) >= 3:
            break
    if not viol and not dis:
        for _ in range(n_render):
            case = gen_render_case(rng, ctx.tier)
            v, d, info = check_render(case, lins)
            cov["programs"] += 1
            cov["renders"] += 1
            lineages.add("render:" + info["lineage"])
            viol += [{"property": "C13", "what": w, "kind": "render", "case": case} for w in v]
            dis += [{"layer": "heap(render)", "what": w, "kind": "render", "case": case} for w in d]
            if viol or dis:
                break
    if not viol and not dis:
        for _ in range(n_conc):
            case = gen_run_case(rng, ctx.tier)
            k = rng.choice([2, 3, 4])
            v, d = check_concurrent(case, k)
            cov["programs"] += 1
            cov["concurrent_batches"] += 1
            viol += [{"property": "C13", "what": w, "kind": "concurrent", "case": case, "threads": k} for w in v]
            dis += [{"layer": "heap(concurrent)", "what": w, "kind": "concurrent", "case": case, "threads": k} for w in d]
            if viol or dis:
                break
    if not viol and not dis:
        pend = []
        for _ in range(n_pops):
            case = gen_plan_ops(rng, ctx.tier)
            line, real, n = run_plan_ops(case)
            pend.append((line, real, {"kind": "plan_copy", "case": case}))
            cov["plan_copy_op_sequences"] += 1
            cov["copy_ops_total"] += n
        for _ in range(n_rops):
            case = gen_reg_ops(rng, ctx.tier)
            line, real, n = run_reg_ops(case)
            pend.append((line, real, {"kind": "registry_copy", "case": case}))
            cov["registry_copy_op_sequences"] += 1
            cov["copy_ops_total"] += n
        cov["programs"] += len(pend)
        cov["copy_independence_monitor_runs"] = 0
        for _ in range(n_pops // 2):
            for gen, fn, kind in ((gen_plan_ops, run_plan_ops, "plan_copy"), (gen_reg_ops, run_reg_ops, "registry_copy")):
                case = gen(rng, ctx.tier)
                mon = []
                fn(case, monitor=mon)
                cov["copy_independence_monitor_runs"] += 1
                viol += [{"property": "C13", "what": w, "kind": kind + "_monitor", "case": case} for w in mon]
            if viol:
                break
        if ctx.driver is not None:
            rep = batch(ctx.driver, [p[0] for p in pend])
            for (line, real, w), model in zip(pend, rep):
                if model.strip() != real.strip():
                    dis.append(dict(w, layer="heap(%s)" % w["kind"], what=f"real {real} != model {model}", line=line))
                    if len(dis) >= 3:
                        break
        cov["samples"].append({"kind": "plan_copy", "line": pend[0][0]})
    if not viol:
        v2, n2 = second_use_cases(ctx)
        viol += v2
        cov["second_use_cases"] = n2
    cov["outcomes"] = outcomes
    cov["distinct_nontrivial"] = len(lineages)
    cov["distinct_outcomes"] = len(outcomes)
    if not viol and not dis:
        need = {"ok", "dry:ok"}
        if not need <= set(outcomes) or not any(k.startswith("CallError") for k in outcomes) or len(lineages) < 4:
            from harness.common import Broken
            raise Broken("correspondence", "c13-generator", f"outcomes {outcomes}, {len(lineages)} lineages: too little variety")
    return {"violations": viol[:3], "disagreements": dis[:3], "coverage": cov}


def search(ctx, broken):
    class C:
        pass
    found = []
    for k in range(1, 4):
        c = C()
        c.__dict__.update(ctx.__dict__)
        c.seed, c.driver = ctx.seed + 1000 * k, None
        try:
            found += explore(c)["violations"]
        except Exception:   # noqa: BLE001
            pass
        if found:
            break
    return found


def replay(ctx, payload):
    w = payload.get("witness", payload)
    kind = w.get("kind")
    if kind == "run":
        v, d, _ = check_run(w["case"], {})
    elif kind == "render":
        v, d, _ = check_render(w["case"], {})
    elif kind == "concurrent":
        v, d = check_concurrent(w["case"], w.get("threads", 3))
    elif kind == "second_use":
        vv, _ = second_use_cases(ctx, replay=w)
        return vv[0]["what"] if vv else None
    elif kind in ("plan_copy_monitor", "registry_copy_monitor"):
        v = []
        (run_plan_ops if kind.startswith("plan") else run_reg_ops)(w["case"], monitor=v)
    elif kind in ("plan_copy", "registry_copy"):
        line, real, _ = (run_plan_ops if kind == "plan_copy" else run_reg_ops)(w["case"])
        if ctx.driver is None:
            return None
        model = batch(ctx.driver, [line])[0]
        return None if model.strip() == real.strip() else f"real {real} != model {model}"
    else:
        return None
    return v[0] if v else None
