"""MANIFEST.setup_cmd: regenerate Gen from /repo, build the Lean library and the driver from clean."""
import subprocess, sys
from harness import common, translate
_, errs = translate.regenerate()
for k, e in errs.items():
    print("setup: translator:", k, e)    # the per-property checks will report it
r = subprocess.run(["lake", "build"], cwd=common.LEAN)
sys.exit(r.returncode)
