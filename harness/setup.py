"""MANIFEST.setup_cmd: regenerate Gen from /repo, then build the driver and the property modules of every claimed check.
A module that does not build is reported by the check of the property it belongs to; setup itself only fails when the
Lean toolchain cannot build anything."""
import json
import os
import subprocess
import sys

from harness import common, translate

_, errs = translate.regenerate()
for k, e in errs.items():
    print("setup: translator:", k, e)    # the per-property checks will report it
man = json.load(open(os.path.join(common.VERIF, "MANIFEST.json")))
targets = ["driver"] + [f"UberjobModel.Props.{c['property_id']}" for c in man["checks"]]
r = subprocess.run(["lake", "build"] + targets, cwd=common.LEAN)
if r.returncode != 0:
    ok = 0
    for t in targets:
        rr = subprocess.run(["lake", "build", t], cwd=common.LEAN, capture_output=True, text=True)
        ok += rr.returncode == 0
        if rr.returncode != 0:
            print("setup: target failed:", t)
    sys.exit(0 if ok else 1)
sys.exit(0)
