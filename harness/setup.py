"""MANIFEST.setup_cmd: regenerate Gen from /repo, build the Lean library and the driver from clean."""
import subprocess, sys
from harness import common, translate
try:
    translate.regenerate()
except translate.TranslateError as e:
    print("setup: translator:", e)       # the per-property checks will report it
r = subprocess.run(["lake", "build"], cwd=common.LEAN)
sys.exit(r.returncode)
