import UberjobModel.Props.C16
#print axioms Uberjob.Refs.C16_facts
#print axioms Uberjob.Refs.C16_release
#print axioms Uberjob.Refs.C16_output
#print axioms Uberjob.Refs.C16_table_dropped
#print axioms Uberjob.Refs.C16_live_iff
#print axioms Uberjob.Refs.C16_kept_while_needed
#print axioms Uberjob.Refs.C16_release_lin
#print axioms Uberjob.Refs.C16_args_alive
