import UberjobModel.Props.C01
#print axioms Uberjob.Engine.C01_direct
#print axioms Uberjob.Engine.C01_transitive
#print axioms Uberjob.Engine.C01_enqueued
#print axioms Uberjob.Engine.C01_counter
#print axioms Uberjob.Engine.C01_fine
#print axioms Uberjob.Engine.physBuild_noreg
#print axioms Uberjob.Engine.C01_plan
#print axioms Uberjob.Engine.C01_plan_shape
