import UberjobModel.Props.C15
#print axioms Uberjob.Notify.sum_zero_of_all_zero
#print axioms Uberjob.Notify.begins_eq_begun
#print axioms Uberjob.Notify.phase_ok
#print axioms Uberjob.Notify.C15_legal
#print axioms Uberjob.Notify.C15_extras
#print axioms Uberjob.Notify.C15_run
#print axioms Uberjob.Notify.C15_totals
#print axioms Uberjob.Notify.C15_protocol
