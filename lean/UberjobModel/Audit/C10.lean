import UberjobModel.Props.C10
#print axioms Uberjob.Engine.C10_workers
#print axioms Uberjob.Engine.C10_pool
#print axioms Uberjob.Engine.C10_errors_bound
#print axioms Uberjob.Engine.C10_no_early_stop
#print axioms Uberjob.Engine.C10_none
#print axioms Uberjob.Engine.C10_parallel
#print axioms Uberjob.Engine.C10_parallel_begin
#print axioms Uberjob.Engine.C10_parallel_awake
#print axioms Uberjob.Engine.C10_runs_all_unblocked
#print axioms Uberjob.Engine.C10_retry_attempts
#print axioms Uberjob.Engine.C10_retry_bounds
#print axioms Uberjob.Engine.C10_retry_first_success
#print axioms Uberjob.Engine.C10_retry_last_exception
#print axioms Uberjob.Engine.C10_retry_base_exception
#print axioms Uberjob.Engine.C10_retry_one_is_identity
#print axioms Uberjob.Engine.C10_retry_sites
