import UberjobModel.Props.C10
#print axioms Uberjob.Engine.C10_workers
#print axioms Uberjob.Engine.C10_pool
#print axioms Uberjob.Engine.C10_errors_bound
#print axioms Uberjob.Engine.C10_no_early_stop
#print axioms Uberjob.Engine.C10_none
#print axioms Uberjob.Engine.C10_parallel
#print axioms Uberjob.Engine.C10_parallel_begin
