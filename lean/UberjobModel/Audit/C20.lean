import UberjobModel.Props.C20
#print axioms Uberjob.Progress.C20_shape
#print axioms Uberjob.Progress.C20_state_total
#print axioms Uberjob.Progress.C20_zero_total_witness
#print axioms Uberjob.Progress.C20_strings_total
#print axioms Uberjob.Progress.C20_progress_string
#print axioms Uberjob.Progress.C20_last_render
#print axioms Uberjob.Progress.C20_elapsed_sum
#print axioms Uberjob.Progress.C20_elapsed_sum_final
#print axioms Uberjob.Progress.C20_sort_total
#print axioms Uberjob.Progress.C20_fallback_total_preorder
#print axioms Uberjob.Progress.C20_sort_raises_only_if
#print axioms Uberjob.Progress.C20_sort_defect_witness
#print axioms Uberjob.Progress.C20_console_final
#print axioms Uberjob.Progress.C20_console_late_totals_witness
