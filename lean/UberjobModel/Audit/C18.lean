import UberjobModel.Props.C18
#print axioms Uberjob.Time.C18_handling
#print axioms Uberjob.Time.C18_sites
#print axioms Uberjob.Time.C18_fromTimestamp_denotes
#print axioms Uberjob.Time.C18_aware_denotes
#print axioms Uberjob.Time.C18_conv
#print axioms Uberjob.Time.C18_order
#print axioms Uberjob.Time.C18_decision
#print axioms Uberjob.Time.C18_fold_decision
#print axioms Uberjob.Time.C18_zone_independent
#print axioms Uberjob.Time.C18_max_defined
#print axioms Uberjob.Time.C18_cpython_lawful
#print axioms Uberjob.Time.C18_fixed_lawful
#print axioms Uberjob.Time.C18_gap_undenoted
#print axioms Uberjob.Time.C18_keepNaive_counterexample
#print axioms Uberjob.Time.C18_fallBack_lawful
#print axioms Uberjob.Time.C18_fold_counterexample
