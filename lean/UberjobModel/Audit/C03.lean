import UberjobModel.Props.C03
#print axioms Uberjob.Cache.C03_good_init
#print axioms Uberjob.Cache.C03_good_preserved
#print axioms Uberjob.Cache.C03_history
#print axioms Uberjob.Cache.C03_write_value
