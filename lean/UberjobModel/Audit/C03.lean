import UberjobModel.Props.C03
#print axioms Uberjob.Cache.C03_good_init
#print axioms Uberjob.Cache.C03_good_preserved
#print axioms Uberjob.Cache.C03_history
#print axioms Uberjob.Cache.C03_write_value
#print axioms Uberjob.Cache.C03_end_to_end
#print axioms Uberjob.Cache.C03_end_to_end_norm
#print axioms Uberjob.Cache.C03_end_to_end_prod
#print axioms Uberjob.Cache.ExQ.isStale_isolated
#print axioms Uberjob.Cache.ExQ.exQ_setup
#print axioms Uberjob.Cache.ExQ.exQ_run
#print axioms Uberjob.Cache.ExQ.exQ_start
#print axioms Uberjob.Cache.ExR.exR_setup
#print axioms Uberjob.Cache.ExR.exR_run
#print axioms Uberjob.Cache.ExT.exT_setup
#print axioms Uberjob.Cache.ExT.exT_run
