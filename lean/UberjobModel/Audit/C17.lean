import UberjobModel.Props.C17
#print axioms Uberjob.Engine.C17_no_new
#print axioms Uberjob.Engine.C17_no_new_ever
#print axioms Uberjob.Engine.C17_inflight
#print axioms Uberjob.Engine.C17_interrupt_wakes
#print axioms Uberjob.Engine.C17_interrupted_stays
