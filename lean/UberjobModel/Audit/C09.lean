import UberjobModel.Props.C09
#print axioms Uberjob.Phys.C09_loop_is_closed_form
#print axioms Uberjob.Phys.C09_edges
#print axioms Uberjob.Phys.C09_args_from_read
#print axioms Uberjob.Phys.C09_output
#print axioms Uberjob.Phys.C09_ancestors_keep_paths
#print axioms Uberjob.Phys.C09_prune_preserves_paths
#print axioms Uberjob.Phys.C09_final_paths
#print axioms Uberjob.Phys.C09_path_order
#print axioms Uberjob.Phys.C09_order
#print axioms Uberjob.Phys.C09_depsource
#print axioms Uberjob.Phys.C09_depsource_chain
#print axioms Uberjob.Phys.C09_downstream_stale
#print axioms Uberjob.Phys.C09_phys_acyclic
#print axioms Uberjob.Phys.C09_source_shape
#print axioms Uberjob.Phys.exP_wf
