import UberjobModel.Props.C14
#print axioms Uberjob.DryRun.C14_quiet
#print axioms Uberjob.DryRun.C14_real_run_executes
#print axioms Uberjob.DryRun.C14_same_plan
#print axioms Uberjob.DryRun.C14_result
#print axioms Uberjob.DryRun.C14_selfcontained
#print axioms Uberjob.DryRun.C14_selfcontained_phys
#print axioms Uberjob.DryRun.C14_restrict
#print axioms Uberjob.DryRun.C14_source_shape
