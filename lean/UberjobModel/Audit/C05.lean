import UberjobModel.Props.C05
#print axioms Uberjob.Cache.C05_stale_spec
#print axioms Uberjob.Cache.C05_downstream
#print axioms Uberjob.Cache.C05_fresh_monotone
#print axioms Uberjob.Cache.C05_idempotent
#print axioms Uberjob.Cache.C05_stale_check_any_schedule
#print axioms Uberjob.Cache.C05_stale_check_result
#print axioms Uberjob.Cache.C05_end_to_end_only_stale
#print axioms Uberjob.Cache.C05_end_to_end
#print axioms Uberjob.Cache.C05_end_to_end_prod_only_stale
#print axioms Uberjob.Cache.ancStep_nil
#print axioms Uberjob.Cache.anc_nil
#print axioms Uberjob.Cache.prunePlan_nothing
#print axioms Uberjob.Cache.stale_nil_of_fresh
#print axioms Uberjob.Cache.C05_repeated_run_nothing
#print axioms Uberjob.Cache.C05_repeated_run_exists
#print axioms Uberjob.Cache.C05_source_shape
