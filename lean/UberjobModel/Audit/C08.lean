import UberjobModel.Props.C08
#print axioms Uberjob.Cache.C08_cut
#print axioms Uberjob.Cache.C08_every_prefix
#print axioms Uberjob.Cache.C08_fault
#print axioms Uberjob.Cache.C08_next_run_correct
#print axioms Uberjob.Cache.C08_no_redo
#print axioms Uberjob.Cache.C08_end_to_end_cut
#print axioms Uberjob.Cache.C08_end_to_end_fault
#print axioms Uberjob.Cache.C08_end_to_end_cut_prod
