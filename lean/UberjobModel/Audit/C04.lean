import UberjobModel.Props.C04
#print axioms Uberjob.Engine.C04_once
#print axioms Uberjob.Engine.C04_enqueued_once
#print axioms Uberjob.Engine.C04_place
#print axioms Uberjob.Engine.C04_only_graph_nodes
#print axioms Uberjob.Engine.C04_exact
#print axioms Uberjob.Engine.C04_only_needed
#print axioms Uberjob.Engine.C04_runs_exactly_needed
#print axioms Uberjob.Engine.C04_random_put_perm
#print axioms Uberjob.Engine.C04_random_get_perm
#print axioms Uberjob.Engine.C04_priority_init_perm
#print axioms Uberjob.Engine.C04_priority_put_perm
#print axioms Uberjob.Engine.C04_priority_get_perm
#print axioms Uberjob.Engine.C04_priority_get_none
#print axioms Uberjob.Engine.C04_priority_reachable_heap
#print axioms Uberjob.Engine.C04_priority_get_min
#print axioms Uberjob.Engine.C04_queue_shapes
