import UberjobModel.Props.C13
#print axioms Uberjob.Heap.C13_facts
#print axioms Uberjob.Heap.C13_frame
#print axioms Uberjob.Heap.C13_frame_snapshot
#print axioms Uberjob.Heap.C13_writes_fresh
#print axioms Uberjob.Heap.C13_copy_independent
#print axioms Uberjob.Heap.C13_registry_copy_independent
#print axioms Uberjob.Heap.C13_concurrent
