import UberjobModel.Props.C06
#print axioms Uberjob.Engine.C06_contain
#print axioms Uberjob.Engine.C06_error
#print axioms Uberjob.Engine.C06_error_real
#print axioms Uberjob.Engine.C06_raises_iff
#print axioms Uberjob.Engine.C06_failed_not_ok
#print axioms Uberjob.Engine.C06_fine
