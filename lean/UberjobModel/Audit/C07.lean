import UberjobModel.Props.C07
#print axioms Uberjob.Engine.C07_terminates
#print axioms Uberjob.Engine.C07_no_deadlock
#print axioms Uberjob.Engine.C07_can_finish
#print axioms Uberjob.Engine.C07_quiescent
#print axioms Uberjob.Engine.C07_nothing_later
#print axioms Uberjob.Engine.C07_cycle_rejected
#print axioms Uberjob.Engine.C07_kahn_sound
#print axioms Uberjob.Engine.C07_acyclic_first
#print axioms Uberjob.Engine.C07_skeleton
#print axioms Uberjob.Engine.C07_fine_terminates
#print axioms Uberjob.Engine.C07_fine_no_deadlock
#print axioms Uberjob.Engine.C07_q_refines
#print axioms Uberjob.Engine.C07_sleepers_do_not_act
#print axioms Uberjob.Engine.C07_no_lost_wakeup
#print axioms Uberjob.Engine.C07_q_terminates
#print axioms Uberjob.Engine.C07_q_can_finish
