import UberjobModel.Lemmas.EngineInv2
/-!
  Liveness bookkeeping: `unfinished_tasks` accounting, DONE-sentinel accounting, absence of deadlock.
-/
namespace Uberjob.Engine
open Uberjob.Gen.Engine

/-- The worker holds an item for which `task_done` has not been called yet. -/
def W.busy : W → Bool
  | .held _ => true
  | .running _ => true
  | .releasing _ _ => true
  | .finishing _ => true
  | _ => false

def W.isExited : W → Bool
  | .exited => true
  | _ => false

def W.isIdle : W → Bool
  | .idle => true
  | _ => false

/-- The worker holds a DONE sentinel. -/
def W.hasDone : W → Bool
  | .held .done => true
  | .finishing true => true
  | _ => false

def donesPut (cfg : Cfg) : Coord → Nat
  | .putting k _ => k
  | .joining _ => cfg.workers
  | .returned _ => cfg.workers
  | _ => 0

structure Inv3 (cfg : Cfg) (s : St) : Prop where
  unf   : s.unfinished = s.queue.length + s.ws.countP W.busy
  dones : s.queue.count .done + s.ws.countP W.hasDone + s.ws.countP W.isExited = donesPut cfg s.coord
  putLt : ∀ k i, s.coord = .putting k i → k < cfg.workers
  retd  : ∀ i, s.coord = .returned i → ∀ w ∈ s.ws, w = W.exited

theorem countP_set' {p : W → Bool} {ws : List W} {w : Nat} {st st' : W} (hw : ws[w]? = some st) :
    (ws.set w st').countP p + (if p st then 1 else 0) = ws.countP p + (if p st' then 1 else 0) := by
  obtain ⟨hlt, hwi⟩ := List.getElem?_eq_some_iff.mp hw
  rw [List.countP_set hlt, hwi]
  by_cases h1 : p st = true
  · have := countP_pos_of_getElem? hw h1
    simp only [h1, if_true]; omega
  · simp only [h1]; simp

theorem inv3_init (cfg : Cfg) (g : Graph) : Inv3 cfg (init g) := by
  constructor <;> simp [init, donesPut]
  have : ∀ l : List Nat, List.count Item.done (l.map Item.node) = 0 := by
    intro l; induction l <;> simp_all [List.count_cons]
  exact this _

theorem inv3_step {g : Graph} {cfg : Cfg} (hwk : 1 ≤ cfg.workers) {s s' : St} (l : Label) (h2 : Inv2 cfg s) (hi : Inv3 cfg s)
    (h : step? g cfg s l = some s') : Inv3 cfg s' := by
  cases l with
  | spawn =>
    simp only [step?] at h
    split at h
    · next i hc =>
      split at h
      · cases h
        have hd := hi.dones
        rw [hc] at hd
        constructor <;> simp only [List.countP_append, List.length_append]
        · simpa [W.busy] using hi.unf
        · simp [W.hasDone, W.isExited]
          split <;> simpa [donesPut] using hd
        · intro k j hk; split at hk <;> cases hk
        · intro j hk; split at hk <;> cases hk
      · cases h
    · cases h
  | get w i =>
    simp only [step?] at h
    split at h
    · next hw =>
      split at h
      · next hq =>
        cases h
        have hb := countP_set' (p := W.busy) (st' := W.held i) hw
        have hd := countP_set' (p := W.hasDone) (st' := W.held i) hw
        have he := countP_set' (p := W.isExited) (st' := W.held i) hw
        have hq' : 0 < s.queue.count i := List.count_pos_iff.mpr hq
        have hl : 0 < s.queue.length := List.length_pos_of_mem hq
        simp [W.busy, W.isExited] at hb he
        constructor <;> simp only [setW]
        · rw [List.length_erase_of_mem hq]; have := hi.unf; omega
        · have := hi.dones
          rw [List.count_erase, he]
          cases i with
          | done => simp [W.hasDone] at hd ⊢; omega
          | node x => simp [W.hasDone] at hd ⊢; omega
        · exact hi.putLt
        · intro j hk v hv
          have := hi.retd j hk _ (List.mem_of_getElem? hw)
          cases this
      · cases h
    · cases h
  | check w =>
    simp only [step?] at h
    split at h
    · next hw =>
      cases h
      have hb := countP_set' (p := W.busy) (st' := W.finishing true) hw
      have hd := countP_set' (p := W.hasDone) (st' := W.finishing true) hw
      have he := countP_set' (p := W.isExited) (st' := W.finishing true) hw
      simp [W.busy, W.isExited, W.hasDone] at hb he hd
      constructor <;> simp only [setW, hb, hd, he]
      · exact hi.unf
      · exact hi.dones
      · exact hi.putLt
      · intro j hk v hv
        have := hi.retd j hk _ (List.mem_of_getElem? hw); cases this
    · next x hw =>
      split at h
      · cases h
        have hb := countP_set' (p := W.busy) (st' := W.finishing false) hw
        have hd := countP_set' (p := W.hasDone) (st' := W.finishing false) hw
        have he := countP_set' (p := W.isExited) (st' := W.finishing false) hw
        simp [W.busy, W.isExited, W.hasDone] at hb he hd
        constructor <;> simp only [setW, hb, hd, he]
        · exact hi.unf
        · exact hi.dones
        · exact hi.putLt
        · intro j hk v hv
          have := hi.retd j hk _ (List.mem_of_getElem? hw); cases this
      · cases h
        have hb := countP_set' (p := W.busy) (st' := W.running x) hw
        have hd := countP_set' (p := W.hasDone) (st' := W.running x) hw
        have he := countP_set' (p := W.isExited) (st' := W.running x) hw
        simp [W.busy, W.isExited, W.hasDone] at hb he hd
        constructor <;> simp only [setW, hb, hd, he]
        · exact hi.unf
        · exact hi.dones
        · exact hi.putLt
        · intro j hk v hv
          have := hi.retd j hk _ (List.mem_of_getElem? hw); cases this
    · cases h
  | finOk w =>
    simp only [step?] at h
    split at h
    · next x hw =>
      cases h
      have hb := countP_set' (p := W.busy) (st' := W.releasing x (g.succs x)) hw
      have hd := countP_set' (p := W.hasDone) (st' := W.releasing x (g.succs x)) hw
      have he := countP_set' (p := W.isExited) (st' := W.releasing x (g.succs x)) hw
      simp [W.busy, W.isExited, W.hasDone] at hb he hd
      constructor <;> simp only [setW, hb, hd, he]
      · exact hi.unf
      · exact hi.dones
      · exact hi.putLt
      · intro j hk v hv
        have := hi.retd j hk _ (List.mem_of_getElem? hw); cases this
    · cases h
  | finFail w =>
    simp only [step?] at h
    split at h
    · next x hw =>
      cases h
      have hb := countP_set' (p := W.busy) (st' := W.finishing false) hw
      have hd := countP_set' (p := W.hasDone) (st' := W.finishing false) hw
      have he := countP_set' (p := W.isExited) (st' := W.finishing false) hw
      simp [W.busy, W.isExited, W.hasDone] at hb he hd
      constructor <;> simp only [setW, hb, hd, he]
      · exact hi.unf
      · exact hi.dones
      · exact hi.putLt
      · intro j hk v hv
        have := hi.retd j hk _ (List.mem_of_getElem? hw); cases this
    · cases h
  | release w y =>
    simp only [step?] at h
    split at h
    · next x todo hw =>
      split at h
      · cases h
        have hb := countP_set' (p := W.busy) (st' := W.releasing x (todo.erase y)) hw
        have hd := countP_set' (p := W.hasDone) (st' := W.releasing x (todo.erase y)) hw
        have he := countP_set' (p := W.isExited) (st' := W.releasing x (todo.erase y)) hw
        simp [W.busy, W.isExited, W.hasDone] at hb he hd
        constructor <;> simp only [setW, hb, hd, he]
        · have := hi.unf
          by_cases hp : releasePut g s y = true <;> simp [hp] <;> omega
        · have := hi.dones
          by_cases hp : releasePut g s y = true <;> simp [hp, List.count_append] <;> exact this
        · exact hi.putLt
        · intro j hk v hv
          have := hi.retd j hk _ (List.mem_of_getElem? hw); cases this
      · cases h
    · cases h
  | taskDone w =>
    simp only [step?] at h
    split at h
    · next x hw =>
      cases h
      have hb := countP_set' (p := W.busy) (st' := W.idle) hw
      have hd := countP_set' (p := W.hasDone) (st' := W.idle) hw
      have he := countP_set' (p := W.isExited) (st' := W.idle) hw
      simp [W.busy, W.isExited, W.hasDone] at hb he hd
      constructor <;> simp only [setW, hd, he]
      · have := hi.unf; omega
      · exact hi.dones
      · exact hi.putLt
      · intro j hk v hv
        have := hi.retd j hk _ (List.mem_of_getElem? hw); cases this
    · next hw =>
      cases h
      have hb := countP_set' (p := W.busy) (st' := W.idle) hw
      have hd := countP_set' (p := W.hasDone) (st' := W.idle) hw
      have he := countP_set' (p := W.isExited) (st' := W.idle) hw
      simp [W.busy, W.isExited, W.hasDone] at hb he hd
      constructor <;> simp only [setW, hd, he]
      · have := hi.unf; omega
      · exact hi.dones
      · exact hi.putLt
      · intro j hk v hv
        have := hi.retd j hk _ (List.mem_of_getElem? hw); cases this
    · next hw =>
      cases h
      have hb := countP_set' (p := W.busy) (st' := W.exited) hw
      have hd := countP_set' (p := W.hasDone) (st' := W.exited) hw
      have he := countP_set' (p := W.isExited) (st' := W.exited) hw
      simp [W.busy, W.isExited, W.hasDone] at hb he hd
      constructor <;> simp only [setW]
      · have := hi.unf; omega
      · have := hi.dones; omega
      · exact hi.putLt
      · intro j hk v hv
        have := hi.retd j hk _ (List.mem_of_getElem? hw); cases this
    · cases h
  | joinReturn =>
    simp only [step?] at h
    split at h
    · next hc =>
      split at h
      · cases h
        have hd := hi.dones
        rw [hc] at hd
        constructor
        · exact hi.unf
        · simpa [donesPut] using hd
        · intro k j hk; cases hk
        · intro j hk; cases hk
      · cases h
    · cases h
  | interrupt =>
    simp only [step?] at h
    split at h
    · next hc =>
      cases h
      have hd := hi.dones
      rw [hc] at hd
      constructor
      · exact hi.unf
      · simpa [donesPut] using hd
      · intro k j hk; cases hk
      · intro j hk; cases hk
    · cases h
  | setStop =>
    simp only [step?] at h
    split at h
    · next i hc =>
      cases h
      have hd := hi.dones
      rw [hc] at hd
      have hw := h2.wsLen
      rw [hc] at hw
      have hrl := ws_le h2
      constructor
      · exact hi.unf
      · simpa [donesPut] using hd
      · intro k j hk
        cases hk
        omega
      · intro j hk; cases hk
    · cases h
  | putDone =>
    simp only [step?] at h
    split at h
    · next k i hc =>
      split at h
      · next hlt =>
        cases h
        have hd := hi.dones
        rw [hc] at hd
        constructor
        · have := hi.unf; simp; omega
        · simp only [List.count_append]
          split
          · next h1 => simp [donesPut] at hd ⊢; omega
          · next h1 => simp [donesPut] at hd ⊢; omega
        · intro k' j hk
          split at hk
          · cases hk
          · next h1 => cases hk; omega
        · intro j hk; split at hk <;> cases hk
      · cases h
    · cases h
  | joined =>
    simp only [step?] at h
    split at h
    · next i hc =>
      split at h
      · next hall =>
        cases h
        have hd := hi.dones
        rw [hc] at hd
        constructor
        · exact hi.unf
        · simpa [donesPut] using hd
        · intro k j hk; cases hk
        · intro j hk v hv
          have := List.all_eq_true.mp hall v hv
          simpa using this
      · cases h
    · cases h

end Uberjob.Engine

namespace Uberjob.Engine

theorem inv3_reach {g : Graph} {cfg : Cfg} (hw : 1 ≤ cfg.workers) {s : St} (h : Reach g cfg s) :
    Inv3 cfg s := by
  induction h with
  | init => exact inv3_init cfg g
  | step l hr hs ih => exact inv3_step hw l (inv2_reach hw hr) ih hs

theorem ws_partition (ws : List W) :
    ws.length = ws.countP W.isIdle + ws.countP W.busy + ws.countP W.isExited := by
  induction ws with
  | nil => simp
  | cons a t ih =>
    cases a <;> simp [List.countP_cons, W.isIdle, W.busy, W.isExited] <;> omega

/-- A worker that holds an item always has an enabled step of its own. -/
theorem busy_can_step {g : Graph} {cfg : Cfg} {s : St} {w : Nat} {st : W}
    (hw : s.ws[w]? = some st) (hb : st.busy = true) :
    ∃ l, l ≠ Label.interrupt ∧ (step? g cfg s l).isSome := by
  cases st with
  | idle => cases hb
  | exited => cases hb
  | held i =>
    refine ⟨.check w, by simp, ?_⟩
    cases i with
    | done => simp [step?, hw]
    | node x => simp only [step?, hw]; split <;> simp
  | running x => exact ⟨.finOk w, by simp, by simp [step?, hw]⟩
  | releasing x todo =>
    cases todo with
    | nil => exact ⟨.taskDone w, by simp, by simp [step?, hw]⟩
    | cons y t => exact ⟨.release w y, by simp, by simp [step?, hw]⟩
  | finishing b =>
    refine ⟨.taskDone w, by simp, ?_⟩
    cases b <;> simp [step?, hw]

/-- No reachable deadlock: unless `run_function_on_graph` has returned, some thread can take a step
    (and the step is not the external `interrupt`). -/
theorem progress {g : Graph} {cfg : Cfg} (hwk : 1 ≤ cfg.workers) {s : St}
    (h2 : Inv2 cfg s) (h3 : Inv3 cfg s) (hnf : ∀ i, s.coord ≠ .returned i) :
    ∃ l, l ≠ Label.interrupt ∧ (step? g cfg s l).isSome := by
  -- a busy worker can always move
  by_cases hbusy : 0 < s.ws.countP W.busy
  · obtain ⟨st, hst, hb⟩ := List.countP_pos_iff.mp hbusy
    obtain ⟨w, hw⟩ := List.mem_iff_getElem?.mp hst
    exact busy_can_step hw hb
  have hb0 : s.ws.countP W.busy = 0 := by omega
  have hpart := ws_partition s.ws
  have hwl := h2.wsLen
  have hd := h3.dones
  have hdone_le : s.ws.countP W.hasDone ≤ s.ws.countP W.busy := by
    apply List.countP_mono_left
    intro a _ ha; cases a <;> simp_all [W.hasDone, W.busy]
  -- an idle worker can take any queued item
  have idle_get : 0 < s.ws.countP W.isIdle → s.queue ≠ [] →
      ∃ l, l ≠ Label.interrupt ∧ (step? g cfg s l).isSome := by
    intro hidle hq
    obtain ⟨st, hst, hb⟩ := List.countP_pos_iff.mp hidle
    obtain ⟨w, hw⟩ := List.mem_iff_getElem?.mp hst
    cases st <;> simp [W.isIdle] at hb
    obtain ⟨i, t, hqt⟩ := List.exists_cons_of_ne_nil hq
    exact ⟨.get w i, by simp, by simp [step?, hw, hqt]⟩
  cases hc : s.coord with
  | spawning i =>
    rw [hc] at hwl
    exact ⟨.spawn, by simp, by simp [step?, hc, hwl.2]⟩
  | waiting =>
    by_cases hu : s.unfinished = 0
    · exact ⟨.joinReturn, by simp, by simp [step?, hc, hu]⟩
    · rw [hc] at hwl hd
      simp only [donesPut] at hd
      have hunf := h3.unf
      have hq : s.queue ≠ [] := by
        intro hq; rw [hq] at hunf; simp at hunf; omega
      apply idle_get _ hq
      omega
  | stopping i => exact ⟨.setStop, by simp, by simp [step?, hc]⟩
  | putting k i =>
    have := h3.putLt k i hc
    exact ⟨.putDone, by simp, by simp [step?, hc, this]⟩
  | joining i =>
    rw [hc] at hwl hd
    simp only [donesPut] at hd
    by_cases hall : s.ws.all (· == W.exited) = true
    · exact ⟨.joined, by simp, by simp [step?, hc, hall]⟩
    · -- somebody has not exited; nobody is busy, so somebody is idle, and a sentinel is waiting for them
      have hex : s.ws.countP W.isExited < s.ws.length := by
        rcases Nat.lt_or_ge (s.ws.countP W.isExited) s.ws.length with h1 | h1
        · exact h1
        · exfalso
          apply hall
          have : s.ws.countP W.isExited = s.ws.length := Nat.le_antisymm List.countP_le_length h1
          rw [List.countP_eq_length] at this
          apply List.all_eq_true.mpr
          intro a ha
          have := this a ha
          cases a <;> simp_all [W.isExited]
      have hq : s.queue ≠ [] := by
        intro hq; rw [hq] at hd; simp at hd; omega
      apply idle_get _ hq
      omega
  | returned i => exact absurd hc (hnf i)

end Uberjob.Engine
