import UberjobModel.Model.Cache
/-! Recursion equations for the stale check, from-scratch evaluation and `seen`. -/
namespace Uberjob.Cache
open Uberjob.Gen.Stale

theorem tab_length {α} (step : List α → Nat → α) (k : Nat) : (tab step k).length = k := by
  induction k with
  | zero => rfl
  | succ k ih => simp [tab, ih]

theorem tab_get_stable {α} (step : List α → Nat → α) {i k : Nat} (h : i < k) :
    (tab step k)[i]? = (tab step (i + 1))[i]? := by
  induction k with
  | zero => omega
  | succ k ih =>
    by_cases hik : i = k
    · subst hik; rfl
    · have hlt : i < k := by omega
      simp only [tab]
      rw [List.getElem?_append_left (by rw [tab_length]; exact hlt)]
      exact ih hlt

theorem tab_get_last {α} (step : List α → Nat → α) (k : Nat) :
    (tab step (k + 1))[k]? = some (step (tab step k) k) := by
  simp only [tab]
  rw [List.getElem?_append_right (by rw [tab_length]; omega)]
  simp [tab_length]

theorem any_congr_mem {l : List Nat} {p q : Nat → Bool} (h : ∀ a ∈ l, p a = q a) : l.any p = l.any q := by
  induction l with
  | nil => rfl
  | cons a t ih =>
    simp only [List.any_cons]
    rw [h a (by simp), ih (fun b hb => h b (by simp [hb]))]

/-- The functional form of `staleStep`: reads smaller entries through a function. -/
def staleStepF (P : LPlan) (w : World) (fresh : Option Int) (r : Nat → SRes) (k : Nat) : SRes :=
  if (P.preds k).any (fun p => (r p).stale) then ⟨true, none⟩
  else
    let anc := safeMax ((P.preds k).map (fun p => (r p).tm))
    match P.reg k with
    | none => ⟨false, anc⟩
    | some isSrc =>
      match w.mtime k with
      | none => ⟨true, none⟩
      | some mt => if staleCond mt anc fresh isSrc then ⟨true, none⟩ else ⟨false, some mt⟩

theorem getD'_staleTab {P : LPlan} {w : World} {f : Option Int} {p k : Nat} (h : p < k) :
    getD' (staleTab P w f k) p = sres P w f p := by
  unfold getD' sres getD' staleTab
  rw [List.getD_eq_getElem?_getD, List.getD_eq_getElem?_getD, tab_get_stable _ h]

theorem sres_eq {P : LPlan} (hP : P.WF) (w : World) (f : Option Int) (k : Nat) :
    sres P w f k = staleStepF P w f (sres P w f) k := by
  have h1 : sres P w f k = staleStep P w f (staleTab P w f k) k := by
    unfold sres getD' staleTab
    rw [List.getD_eq_getElem?_getD, tab_get_last]; rfl
  rw [h1]
  unfold staleStep staleStepF
  have hany : (P.preds k).any (fun p => (getD' (staleTab P w f k) p).stale)
      = (P.preds k).any (fun p => (sres P w f p).stale) := by
    apply any_congr_mem
    intro p hp; rw [getD'_staleTab (hP.predsLt k p hp)]
  have hmap : (P.preds k).map (fun p => (getD' (staleTab P w f k) p).tm)
      = (P.preds k).map (fun p => (sres P w f p).tm) := by
    apply List.map_congr_left
    intro p hp; rw [getD'_staleTab (hP.predsLt k p hp)]
  rw [hany, hmap]
  try rfl

theorem getV_tab {step : List V → Nat → V} {p k : Nat} (h : p < k) :
    getV (tab step k) p = getV (tab step (p + 1)) p := by
  unfold getV
  rw [List.getD_eq_getElem?_getD, List.getD_eq_getElem?_getD, tab_get_stable _ h]

theorem FS_eq {P : LPlan} (hP : P.WF) (w : World) (k : Nat) :
    FS P w k = match P.reg k with
      | some true => (w.content k).getD (.missing k)
      | _ => .app k ((P.args k).map (FS P w)) := by
  have h1 : FS P w k = fsStep P w (fsTab P w k) k := by
    unfold FS getV fsTab
    rw [List.getD_eq_getElem?_getD, tab_get_last]; rfl
  rw [h1]; unfold fsStep
  have hmap : (P.args k).map (getV (fsTab P w k)) = (P.args k).map (FS P w) := by
    apply List.map_congr_left
    intro p hp
    exact getV_tab (hP.predsLt k p (hP.argsSub k p hp))
  rw [hmap]
  try rfl

theorem seen_eq {P : LPlan} (hP : P.WF) (w : World) (k : Nat) :
    seen P w k = match P.reg k with
      | some _ => (w.content k).getD (.missing k)
      | none => .app k ((P.args k).map (seen P w)) := by
  have h1 : seen P w k = seenStep P w (seenTab P w k) k := by
    unfold seen getV seenTab
    rw [List.getD_eq_getElem?_getD, tab_get_last]; rfl
  rw [h1]; unfold seenStep
  have hmap : (P.args k).map (getV (seenTab P w k)) = (P.args k).map (seen P w) := by
    apply List.map_congr_left
    intro p hp
    exact getV_tab (hP.predsLt k p (hP.argsSub k p hp))
  rw [hmap]
  try rfl

end Uberjob.Cache
