import UberjobModel.Lemmas.ProgressObs
/-!
Time attribution: the weighted elapsed times of all scopes add up to the time during which at least one call was in
flight (exact arithmetic over ℚ; any timestamps).
-/
namespace Uberjob.Progress
open Uberjob.Gen.Progress

theorem sum_map_add_mul (keys : List Key) (g w : Key → Rat) (r : Key → Int) (m : Rat)
    (h : ∀ k ∈ keys, g k = w k + (r k : Rat) * m) :
    (keys.map g).sum = (keys.map w).sum + (((keys.map r).sum : Int) : Rat) * m := by
  induction keys with
  | nil => simp; grind
  | cons a l ih =>
    simp only [List.map_cons, List.sum_cons]
    rw [ih (fun k hk => h k (by simp [hk])), h a (by simp), Rat.intCast_add]
    grind

theorem sum_nonneg (l : List Int) (h : ∀ x ∈ l, 0 ≤ x) : 0 ≤ l.sum := by
  induction l with
  | nil => simp
  | cons a l ih =>
    simp only [List.sum_cons]
    have := h a (by simp)
    have := ih (fun x hx => h x (by simp [hx]))
    omega

theorem Sync.running_nonneg {b p : List Notif} {s : PState} (hb : PLegal b) (hp : p <+: b) (hs : Sync p s) :
    ∀ k ∈ s.keys, 0 ≤ (s.cell k).running := by
  intro k hk
  have := hs.running k hk
  have := hb.finLeRun p k hp
  omega

theorem Sync.rc_nonneg {b p : List Notif} {s : PState} (hb : PLegal b) (hp : p <+: b) (hs : Sync p s) : 0 ≤ s.rc := by
  rw [hs.rcSum]
  apply sum_nonneg
  intro x hx
  simp only [List.mem_map] at hx
  obtain ⟨k, hk, rfl⟩ := hx
  exact hs.running_nonneg hb hp k hk

/-- one `update_weighted_elapsed`: the scopes together receive exactly the elapsed time, iff something is running -/
theorem sumWeighted_uwe {p : List Notif} {s : PState} (hs : Sync p s) (t : Rat) :
    sumWeighted (uwe s t) = sumWeighted s + (if s.rc ≠ 0 then t - s.prev else 0) := by
  unfold uwe sumWeighted uweGuard
  by_cases h : s.rc = 0
  · simp [h]; grind
  · have hne : (s.rc != 0) = true := by simp [h]
    simp only [hne, if_true, ne_eq, h, not_false_eq_true]
    rw [sum_map_add_mul s.keys _ s.weighted (fun k => (s.cell k).running) ((t - s.prev) / (s.rc : Rat))]
    · have hsum : (s.keys.map (fun k => (s.cell k).running)).sum = s.rc := hs.rcSum.symm
      rw [hsum]
      have hq : (s.rc : Rat) ≠ 0 := by exact_mod_cast h
      have := Rat.div_mul_cancel (a := t - s.prev) hq
      grind
    · intro k hk
      have hi := hs.inSet k hk
      by_cases hr : (s.cell k).running = 0
      · have : (s.cell k).inSet = false := by rw [hi]; simp [hr]
        simp [this, hr]; grind
      · have : (s.cell k).inSet = true := by rw [hi]; simp [hr]
        simp [this, weightedDelta, uweElapsed]

theorem sumWeighted_ensure (s : PState) (k : Key) : sumWeighted (ensure s k) = sumWeighted s := by
  unfold ensure sumWeighted
  split
  · rfl
  · next hk =>
    simp only [List.map_append, List.sum_append, List.map_cons, List.map_nil, List.sum_cons, List.sum_nil]
    have : s.keys.map (upd s.weighted k weightedInit) = s.keys.map s.weighted := by
      apply List.map_congr_left; intro x hx
      have : x ≠ k := fun h => hk (h ▸ hx)
      simp [upd, this]
    rw [this]; simp [upd, weightedInit]; grind

theorem sumWeighted_apply {s s' : PState} {k : Key} {f : Cell → Int → Res} (h : apply s k f = .ok s') :
    sumWeighted s' = sumWeighted s := by
  unfold sumWeighted; rw [apply_keys h, (apply_weighted h).1]

/-- the bookkeeping agrees with the trace-only specification `Busy` -/
def EInv (o : Obs) (B : Busy) : Prop :=
  B.act = o.st.rc ∧ sumWeighted o.st = B.acc + (if 0 < B.act then o.st.prev - B.prev else 0)

theorem einv_uwe {p : List Notif} {s : PState} {B : Busy} (hs : Sync p s) (hrc : 0 ≤ s.rc) (t : Rat)
    (h1 : B.act = s.rc) (h2 : sumWeighted s = B.acc + (if 0 < B.act then s.prev - B.prev else 0)) :
    sumWeighted (uwe s t) = B.acc + (if 0 < B.act then t - B.prev else 0) := by
  rw [sumWeighted_uwe hs, h2]
  by_cases h : 0 < B.act
  · have : s.rc ≠ 0 := by omega
    simp only [h, this, if_true, ne_eq, not_false_eq_true]; grind
  · have : s.rc = 0 := by omega
    simp [h, this]; grind

theorem einv_step {b p : List Notif} {o o' : Obs} {ev : Ev} {B : Busy} {m : Rat} (hb : PLegal b) (hs : Sync p o.st)
    (hp : p ++ notifsOf [ev] <+: b) (hstep : o.step m ev = .ok o') (he : EInv o B) : EInv o' (B.step ev) := by
  have hpb : p <+: b := (List.prefix_append p _).trans hp
  have hrc := hs.rc_nonneg hb hpb
  obtain ⟨h1, h2⟩ := he
  obtain ⟨o'', hstep', hs'⟩ := hs.obsStep hb hp m
  rw [hstep] at hstep'; cases hstep'
  cases ev with
  | wake t t2 =>
    simp only [Obs.step] at hstep; cases hstep
    simp only [Busy.step]
    unfold doRender
    split
    · exact ⟨by simpa using h1, by simpa using einv_uwe hs hrc t2 h1 h2⟩
    · exact ⟨h1, h2⟩
  | notif t n =>
    simp only [Obs.step] at hstep
    split at hstep
    · next st hst =>
      cases hstep
      simp only [notifsOf] at hs'
      have hact := hs'.rcAct
      rw [active_snoc, ← hs.rcAct] at hact
      cases n with
      | enter => simp only [stepNotif] at hst; cases hst; exact ⟨h1, h2⟩
      | exit => simp only [stepNotif] at hst; cases hst; exact ⟨h1, h2⟩
      | total sec sc a =>
        simp only [stepNotif] at hst
        simp [Notif.anyRun, Notif.anyFin] at hact
        refine ⟨by simp only [Busy.step]; omega, ?_⟩
        simp only [Busy.step]
        rw [sumWeighted_apply hst, sumWeighted_ensure, (apply_weighted hst).2]
        have : (ensure o.st (sec, sc)).prev = o.st.prev := by unfold ensure; split <;> rfl
        rw [this]; exact h2
      | running sec sc =>
        simp only [stepNotif] at hst
        simp [Notif.anyRun, Notif.anyFin] at hact
        refine ⟨by simp only [Busy.step]; omega, ?_⟩
        simp only [Busy.step]
        rw [sumWeighted_apply hst, (apply_weighted hst).2, uwe_prev, einv_uwe hs hrc t h1 h2]
        grind
      | completed sec sc =>
        simp only [stepNotif] at hst
        simp [Notif.anyRun, Notif.anyFin] at hact
        refine ⟨by simp only [Busy.step]; omega, ?_⟩
        simp only [Busy.step]
        rw [sumWeighted_apply hst, (apply_weighted hst).2, uwe_prev, einv_uwe hs hrc t h1 h2]
        grind
      | failed sec sc =>
        simp only [stepNotif] at hst
        simp [Notif.anyRun, Notif.anyFin] at hact
        refine ⟨by simp only [Busy.step]; omega, ?_⟩
        simp only [Busy.step]
        rw [sumWeighted_apply hst, (apply_weighted hst).2, uwe_prev, einv_uwe hs hrc t h1 h2]
        grind
    · cases hstep

theorem einv_run {b : List Notif} (hb : PLegal b) (m : Rat) :
    ∀ evs p o B, Sync p o.st → EInv o B → p ++ notifsOf evs <+: b →
      ∃ o', Obs.run m o evs = .ok o' ∧ Sync (p ++ notifsOf evs) o'.st ∧ EInv o' (evs.foldl Busy.step B) := by
  intro evs
  induction evs with
  | nil => intro p o B hs he _; simp only [notifsOf, List.append_nil, Obs.run, List.foldl_nil]; exact ⟨o, rfl, hs, he⟩
  | cons ev evs ih =>
    intro p o B hs he hp
    rw [notifsOf_cons, ← List.append_assoc] at hp ⊢
    have hp1 : p ++ notifsOf [ev] <+: b := (List.prefix_append _ _).trans hp
    obtain ⟨o1, h1, hs1⟩ := hs.obsStep hb hp1 m
    have he1 := einv_step hb hs hp1 h1 he
    obtain ⟨o', h2, hs2, he2⟩ := ih _ o1 (B.step ev) hs1 he1 hp
    exact ⟨o', by simp only [Obs.run, h1, h2], hs2, by simpa using he2⟩

end Uberjob.Progress
