import UberjobModel.Lemmas.Heap
/-! Two runs of one plan, interleaved arbitrarily: neither writes an object the other (or the caller) can see. -/
namespace Uberjob.Heap

/-- `a` is an address of `w`'s allocation class -/
def Cls (w : Who) (a : Nat) : Prop := ∃ k, a = w.addr k

theorem Own.cls {w : Who} {n a : Nat} : Own w n a → Cls w a := fun ⟨k, _, e⟩ => ⟨k, e⟩

theorem cls_disjoint {b : Nat} {a : Nat} : Cls ⟨b, 0⟩ a → Cls ⟨b, 1⟩ a → False := by
  rintro ⟨j, hj⟩ ⟨k, hk⟩
  simp only [Who.addr] at hj hk
  omega

theorem cls_base {w : Who} {a : Nat} : Cls w a → w.base ≤ a := by
  rintro ⟨k, rfl⟩; simp only [Who.addr]; omega

theorem applyEffs_agree {P : Nat → Prop} (es : List Eff) {h h' : Heap} (hh : ∀ x, P x → h x = h' x) :
    ∀ x, P x → applyEffs h es x = applyEffs h' es x := by
  induction es generalizing h h' with
  | nil => exact hh
  | cons e es ih =>
    intro x hx
    rw [applyEffs_cons, applyEffs_cons]
    apply ih _ x hx
    intro y hy
    simp only [upd]
    split
    · rfl
    · exact hh y hy

theorem view_agree {t : T} {h h' : Heap} (hc : h t.cur = h' t.cur)
    (hg : ∀ g sc, h t.cur = some (.plan g sc) → h g = h' g)
    (ht : ∀ a, t.tmp = some a → h a = h' a ∧ ∀ g sc, h a = some (.plan g sc) → h g = h' g)
    (hl : ∀ a, t.last = some a → h a = h' a) : view t h = view t h' := by
  have e2 : (graphOf (h t.cur)).bind h = (graphOf (h' t.cur)).bind h' := by
    rw [← hc]
    cases hcur : h t.cur with
    | none => rfl
    | some o => cases o <;> simp [graphOf]; exact hg _ _ hcur
  have e3 : t.tmp.bind h = t.tmp.bind h' := by
    cases htmp : t.tmp with
    | none => rfl
    | some a => simp [(ht a htmp).1]
  have e4 : (graphOf (t.tmp.bind h)).bind h = (graphOf (t.tmp.bind h')).bind h' := by
    rw [← e3]
    cases htmp : t.tmp with
    | none => rfl
    | some a =>
      simp only [Option.bind_some]
      cases ha : h a with
      | none => rfl
      | some o => cases o <;> simp [graphOf]; exact (ht a htmp).2 _ _ ha
  have e5 : t.last.bind h = t.last.bind h' := by
    cases hlast : t.last with
    | none => rfl
    | some a => simp [hl a hlast]
  simp only [view]
  rw [e2, e4, e3, e5, hc]

/-- status of one thread w.r.t. the shared heap: it has not started (its next instruction is the initial copy),
    or it satisfies the post-copy invariant -/
def Ph (w : Who) (p : Nat) (th : Thread) (h : Heap) : Prop :=
  (th.t = T.init p ∧ ∃ r, th.rest = .getMutable false :: r ∧ ∀ i ∈ r, i.tame = true) ∨
  (J1 w th.t h ∧ ∀ i ∈ th.rest, i.tame = true)

/-- the caller's plan, seen from a heap that agrees with the original one below the base -/
structure Base (h0 : Heap) (b p : Nat) : Prop where
  wf : WFPlan h0 p
  below : Below h0 b p

theorem wf_transfer {h0 h : Heap} {b p : Nat} (hb : Base h0 b p) (hf : ∀ o, o < b → h o = h0 o) : WFPlan h p := by
  obtain ⟨g, sc, hp, ns, es, ga, hg⟩ := hb.wf.isPlan
  exact ⟨g, sc, by rw [hf p hb.below.plan]; exact hp, ns, es, ga, by rw [hf g (hb.below.graph g sc hp)]; exact hg⟩

/-- one step of a thread in status `Ph`: what it guarantees to itself and to everybody else -/
theorem ph_step {w : Who} {h0 h : Heap} {p : Nat} (hb : Base h0 w.base p) (hf : ∀ o, o < w.base → h o = h0 o)
    {th : Thread} (hph : Ph w p th h) {i : Instr} {is : List Instr} (hr : th.rest = i :: is) :
    Ph w p ⟨(step w (th.t, h) i).1, is⟩ (step w (th.t, h) i).2 ∧
    (∀ x, ¬ Cls w x → (step w (th.t, h) i).2 x = h x) := by
  rcases hph with ⟨ht, r, hrr, htame⟩ | ⟨hj, htame⟩
  · rw [hr] at hrr
    simp only [List.cons.injEq] at hrr
    obtain ⟨rfl, rfl⟩ := hrr
    rw [ht]
    obtain ⟨hj, _, _⟩ := J1_first (w := w) (wf_transfer hb hf)
    refine ⟨.inr ⟨hj, htame⟩, ?_⟩
    intro x hx
    obtain ⟨g, sc, hpp, ns, es, ga, hg⟩ := (wf_transfer hb hf).isPlan
    have hv : stepV w (T.init p) (view (T.init p) h) (.getMutable false) =
        ({ T.init p with nxt := 2, cur := w.addr 1 }, [(w.addr 0, .graph ns es ga), (w.addr 1, .plan (w.addr 0) [])]) := by
      simp [stepV, view, T.init, hpp, hg, graphOf, copyPlan]
    simp only [step, hv]
    apply applyEffs_frame
    intro e he hh
    simp only [List.mem_cons, List.mem_nil_iff, or_false] at he
    rcases he with rfl | rfl
    · exact hx ⟨0, hh.symm⟩
    · exact hx ⟨1, hh.symm⟩
  · have hi : i.tame = true := htame i (by rw [hr]; simp)
    obtain ⟨hj', _⟩ := J1_step (s := (th.t, h)) hj hi
    refine ⟨.inr ⟨hj', fun i' hi' => htame i' (by rw [hr]; exact List.mem_cons_of_mem _ hi')⟩, ?_⟩
    intro x hx
    obtain ⟨hok, _, _⟩ := stepV_ok hj hi
    simp only [step]
    exact applyEffs_frame (fun e he hh => hx (hh ▸ (hok.effs e he).1.cls))

/-- a step of ANOTHER thread (whose effects stay inside its own class, disjoint from `w`'s) keeps `Ph w` -/
theorem ph_other {w : Who} {p : Nat} {th : Thread} {h h' : Heap} (hph : Ph w p th h)
    (hsame : ∀ x, Cls w x → h' x = h x) : Ph w p th h' := by
  rcases hph with h0 | ⟨hj, htame⟩
  · exact .inl h0
  · exact .inr ⟨⟨hj.cur, hj.tmp, hj.last, hj.log, fun a g sc ha hh =>
      hj.pg a g sc ha (by rw [← hsame a ha.cls]; exact hh)⟩, htame⟩

/-- a thread in status `Ph` reads only below the base and inside its own class -/
theorem ph_view {w : Who} {h0 h h' : Heap} {p : Nat} (hb : Base h0 w.base p) (hf : ∀ o, o < w.base → h o = h0 o)
    {th : Thread} (hph : Ph w p th h) (hag : ∀ x, (x < w.base ∨ Cls w x) → h x = h' x) :
    view th.t h = view th.t h' := by
  rcases hph with ⟨ht, _⟩ | ⟨hj, _⟩
  · rw [ht]
    apply view_agree
    · exact hag p (.inl hb.below.plan)
    · intro g sc hp
      simp only [T.init] at hp
      rw [hf p hb.below.plan] at hp
      exact hag g (.inl (hb.below.graph g sc hp))
    · intro a ha; simp [T.init] at ha
    · intro a ha; simp [T.init] at ha
  · apply view_agree
    · exact hag _ (.inr hj.cur.cls)
    · intro g sc hp; exact hag g (.inr (hj.pg _ g sc hj.cur hp).cls)
    · intro a ha
      exact ⟨hag a (.inr (hj.tmp a ha).cls), fun g sc hp => hag g (.inr (hj.pg a g sc (hj.tmp a ha) hp).cls)⟩
    · intro a ha; exact hag a (.inr (hj.last a ha).cls)

theorem runN_succ {w : Who} {h : Heap} {p : Nat} {prog : List Instr} {n : Nat} {i : Instr} {is : List Instr}
    (hd : prog.drop n = i :: is) :
    runN w h p prog (n + 1) = step w (runN w h p prog n) i ∧ prog.drop (n + 1) = is := by
  have h1 : prog[n]? = some i := by
    have := List.head?_drop (l := prog) (i := n); rw [hd] at this; simpa using this.symm
  have h2 : prog.drop (n + 1) = is := by
    have := List.tail_drop (l := prog) (i := n); rw [hd] at this; simpa using this.symm
  refine ⟨?_, h2⟩
  simp [runN, exec, List.take_add_one, h1, List.foldl_append]

/-- the solo run of one thread and its part of the interleaved heap -/
structure Solo (w wo : Who) (h0 : Heap) (p : Nat) (prog : List Instr) (th : Thread) (h : Heap) : Prop where
  ex : ∃ n, th.t = (runN w h0 p prog n).1 ∧ th.rest = prog.drop n ∧ n ≤ prog.length ∧
        ∀ x, ¬ Cls wo x → h x = (runN w h0 p prog n).2 x

/-- one step of thread `w` in the interleaved execution, as seen by itself, by the other thread `wo` and by the caller -/
theorem conc_step {w wo : Who} (hbase : wo.base = w.base) (hdis : ∀ x, Cls w x → Cls wo x → False)
    {h0 h : Heap} {p : Nat} (hb : Base h0 w.base p) {prog progo : List Instr} {a o : Thread}
    (hf : ∀ x, x < w.base → h x = h0 x) (hpa : Ph w p a h) (hpo : Ph wo p o h)
    (hsa : Solo w wo h0 p prog a h) (hso : Solo wo w h0 p progo o h) {i : Instr} {is : List Instr}
    (hr : a.rest = i :: is) :
    (∀ x, x < w.base → (step w (a.t, h) i).2 x = h0 x) ∧
    Ph w p ⟨(step w (a.t, h) i).1, is⟩ (step w (a.t, h) i).2 ∧ Ph wo p o (step w (a.t, h) i).2 ∧
    Solo w wo h0 p prog ⟨(step w (a.t, h) i).1, is⟩ (step w (a.t, h) i).2 ∧
    Solo wo w h0 p progo o (step w (a.t, h) i).2 := by
  obtain ⟨hpa', hother⟩ := ph_step hb hf hpa hr
  have hold : ∀ x, x < w.base → ¬ Cls w x := fun x hx hc => by have := cls_base hc; omega
  have holdo : ∀ x, x < w.base → ¬ Cls wo x := fun x hx hc => by have := cls_base hc; omega
  refine ⟨fun x hx => by rw [hother x (hold x hx)]; exact hf x hx, hpa',
    ph_other hpo (fun x hx => hother x (fun hc => hdis x hc hx)), ?_, ?_⟩
  · obtain ⟨n, hat, har, _, hag⟩ := hsa.ex
    have hd : prog.drop n = i :: is := by rw [← har, hr]
    obtain ⟨hsucc, hdrop⟩ := runN_succ (w := w) (h := h0) (p := p) hd
    have hlen : n + 1 ≤ prog.length := by
      have : (prog.drop n).length = (i :: is).length := by rw [hd]
      simp at this; omega
    have hview : view a.t h = view a.t (runN w h0 p prog n).2 :=
      ph_view hb hf hpa (fun x hx => hag x (by
        rcases hx with hx | hx
        · exact holdo x hx
        · exact fun hc => hdis x hx hc))
    refine ⟨n + 1, ?_, hdrop.symm, hlen, ?_⟩
    · rw [hsucc]; simp only [step]; rw [← hat, hview]
    · intro x hx
      rw [hsucc]
      simp only [step]
      rw [← hat, ← hview]
      exact applyEffs_agree (P := fun x => ¬ Cls wo x) _ hag x hx
  · obtain ⟨n, hot, hor, hlen, hag⟩ := hso.ex
    exact ⟨n, hot, hor, hlen, fun x hx => by rw [hother x hx]; exact hag x hx⟩

theorem conc_inv {b p : Nat} {h0 : Heap} (hb : Base h0 b p) {prog1 prog2 : List Instr} :
    ∀ (σ : List Bool) (a o : Thread) (h : Heap),
      (∀ x, x < b → h x = h0 x) → Ph ⟨b, 0⟩ p a h → Ph ⟨b, 1⟩ p o h →
      Solo ⟨b, 0⟩ ⟨b, 1⟩ h0 p prog1 a h → Solo ⟨b, 1⟩ ⟨b, 0⟩ h0 p prog2 o h →
      (∀ x, x < b → (runConc ⟨b, 0⟩ ⟨b, 1⟩ σ a o h).2.2 x = h0 x) ∧
      Solo ⟨b, 0⟩ ⟨b, 1⟩ h0 p prog1 (runConc ⟨b, 0⟩ ⟨b, 1⟩ σ a o h).1 (runConc ⟨b, 0⟩ ⟨b, 1⟩ σ a o h).2.2 ∧
      Solo ⟨b, 1⟩ ⟨b, 0⟩ h0 p prog2 (runConc ⟨b, 0⟩ ⟨b, 1⟩ σ a o h).2.1 (runConc ⟨b, 0⟩ ⟨b, 1⟩ σ a o h).2.2 := by
  intro σ
  induction σ with
  | nil => intro a o h hf _ _ hsa hso; exact ⟨hf, hsa, hso⟩
  | cons c σ ih =>
    intro a o h hf hpa hpo hsa hso
    cases c with
    | true =>
      cases hr : a.rest with
      | nil => simp only [runConc, hr]; exact ih a o h hf hpa hpo hsa hso
      | cons i is =>
        simp only [runConc, hr]
        obtain ⟨hf', hpa', hpo', hsa', hso'⟩ :=
          conc_step (w := ⟨b, 0⟩) (wo := ⟨b, 1⟩) rfl (fun x => cls_disjoint) hb hf hpa hpo hsa hso hr
        exact ih _ _ _ hf' hpa' hpo' hsa' hso'
    | false =>
      cases hr : o.rest with
      | nil => simp only [runConc, hr]; exact ih a o h hf hpa hpo hsa hso
      | cons i is =>
        simp only [runConc, hr]
        obtain ⟨hf', hpo', hpa', hso', hsa'⟩ :=
          conc_step (w := ⟨b, 1⟩) (wo := ⟨b, 0⟩) rfl (fun x h1 h2 => cls_disjoint h2 h1) hb hf hpo hpa hso hsa hr
        exact ih _ _ _ hf' hpa' hpo' hsa' hso'

end Uberjob.Heap
