import UberjobModel.Lemmas.PhysStale
/-!
  The chain of "brought up to date" nodes `W q ⇝ W k` between two out-of-date registered nodes (the physical
  counterpart of hypothesis `hOrder` of `Cache.complete_run_correct`), the bridge to the engine for a start node that is
  merely KNOWN to be a node of the engine graph (so that Barrier literals can be treated), and the facts about who
  touches a store: the store literal of `i` is handed to `read i` and `write i` only, `write i` takes nothing but its
  store literal and `orig i`, and there is at most one node `write i`.
-/
set_option linter.unusedSectionVars false
namespace Uberjob.Phys

/-- `tail` of a registered node is its `W`. -/
theorem tail_of_reg {P : Input} {j : Nat} {s : Bool} (h : P.regOf j = some s) : P.tail j = P.W j := by
  simp [Input.tail, h]

/-- **The chain.**  `q`, `k` registered, `q ≠ k`, `q` a logical ancestor of `k` (reflexive-transitive closure of the
    logical edges: argument and plain-dependency edges, through unregistered nodes and through other registered nodes),
    every registered node on the way out of date: the plan before pruning has a path `W q ⇝ W k`. -/
theorem write_chain_path {P : Input} {q k : Nat} {sq sk : Bool}
    (hq : P.regOf q = some sq) (hk : P.regOf k = some sk) (hne : q ≠ k)
    (hreach : Cache.Reach P.toLPlan q k)
    (hall : ∀ x, Cache.Reach P.toLPlan q x → ∀ s', P.regOf x = some s' → P.isStale x = true) :
    Path (physBuild P).edges (P.W q) (P.W k) := by
  rcases tail_chain hreach hall with h | h
  · exact absurd h hne
  · rwa [tail_of_reg hq, tail_of_reg hk] at h

section generic
variable {α : Type} [DecidableEq α]

/-- `dropSourceLits_path` for a start node that is merely known to survive (not a literal without predecessors). -/
theorem dropSourceLits_path' {isLit : α → Bool} {G : PG α} {a b : α} (h : Path G.edges a b)
    (ha : ¬ (isLit a = true ∧ ∀ e ∈ G.edges, e.dst ≠ a)) : Path (dropSourceLits isLit G).edges a b := by
  induction h with
  | single h =>
    obtain ⟨e, he, h1, h2⟩ := h
    refine Path.single ⟨e, mem_dropSourceLits_edges.mpr ⟨he, ?_, ?_⟩, h1, h2⟩
    · rintro ⟨_, hl, hn⟩; rw [h1] at hl hn; exact ha ⟨hl, hn⟩
    · rintro ⟨_, _, hn⟩; exact hn e he rfl
  | cons hp h ih =>
    obtain ⟨e, he, h1, h2⟩ := h
    obtain ⟨e0, he0, hd0⟩ := hp.has_in
    refine Path.cons ih ⟨e, mem_dropSourceLits_edges.mpr ⟨he, ?_, ?_⟩, h1, h2⟩
    · rintro ⟨_, _, hn⟩; exact hn e0 he0 (by rw [hd0, h1])
    · rintro ⟨_, _, hn⟩; exact hn e he rfl

end generic

/-- A path of the plan before pruning between two nodes of the plan `dry_run` returns is a path of that plan. -/
theorem final_path' {P : Input} (hP : P.WF) {a b : PN} (hab : Path (physBuild P).edges a b)
    (ha : a ∈ (physFinal P).nodes) (hb : b ∈ (physFinal P).nodes) : Path (physFinal P).edges a b := by
  unfold physFinal prunePlan pruneLiterals at ha hb ⊢
  have hbK := (mem_pruneAnc_nodes.mp (foldLit_nodes_sub hb)).2
  obtain ⟨hp1, _⟩ := pruneAnc_path code (built_rank hP) (fuel_ok P) hab hbK
  exact foldLit_path hp1 ha hb

/-- **The bridge, for ANY start node that the engine knows** (a call, or a literal that survived
    `_prune_literal_if_trivial` and `prune_source_literals`). -/
theorem engine_path' {P : Input} (hP : P.WF) {a b : PN} (hab : Path (physBuild P).edges a b)
    (ha : code a ∈ (engineGraph P).nodes) (hb : code b ∈ (engineGraph P).nodes) :
    Engine.Path (engineGraph P) (code a) (code b) := by
  obtain ⟨ha2, hnot⟩ := mem_dropSourceLits_nodes.mp (toEngine_nodes ha)
  have hb2 := (mem_dropSourceLits_nodes.mp (toEngine_nodes hb)).1
  have hp := final_path' hP hab ha2 hb2
  exact toEngine_path (dropSourceLits_endsIn (final_endsIn hP)) (dropSourceLits_path' (isLit := PN.isLit P) hp hnot)

theorem toEngine_nodes_mem {G : PG PN} {b : PN} (h : b ∈ G.nodes) : code b ∈ (toEngine G).nodes := by
  simp only [toEngine, Engine.Graph.ofEdges, Engine.mem_dedup, List.mem_map]
  exact ⟨b, h, rfl⟩

/-- The write call of an out-of-date stored value is required, is a call, hence is a node of the engine graph. -/
theorem write_kept {P : Input} (hP : P.WF) {k : Nat} (hk : P.regOf k = some false) (hst : P.isStale k = true) :
    code (.write k) ∈ (engineGraph P).nodes := by
  have hm : (k, false) ∈ P.reg := mem_of_regOf hk
  have hW : P.W k = .write k := by simp [Input.W, hk]
  have hb0 : PN.write k ∈ (physBuild P).nodes := by
    have := W_mem hP hm hst
    rwa [hW] at this
  have hreq : PN.write k ∈ required P ++ (physOut P).toList := by
    apply List.mem_append.mpr; left
    exact List.mem_map.mpr ⟨(k, false), List.mem_filter.mpr ⟨hm, hst⟩, hW⟩
  have h1 : PN.write k ∈ (pruneAnc (fuelOf P) (required P ++ (physOut P).toList) (physBuild P)).nodes :=
    mem_pruneAnc_nodes.mpr ⟨hb0, subset_anc hreq⟩
  have h2 : PN.write k ∈ (physFinal P).nodes := by
    unfold physFinal prunePlan pruneLiterals
    exact foldLit_nodes_keep h1 (by simp [List.mem_filter, PN.isLit])
  have h3 : PN.write k ∈ (physEngine P).nodes :=
    mem_dropSourceLits_nodes.mpr ⟨h2, by simp [PN.isLit]⟩
  exact toEngine_nodes_mem h3

/-! ### who touches a store -/

/-- The store literal of `i` is an argument of `read i` and `write i` only. -/
theorem storeLit_out {P : Input} {e : Edge PN} (he : e ∈ (physBuild P).edges) {i : Nat} (hs : e.src = .storeLit i) :
    e = ⟨.storeLit i, .read i, .pos 0⟩ ∨ e = ⟨.storeLit i, .write i, .pos 0⟩ := by
  rcases mem_built_edges.mp he with ⟨le, _, hr⟩ | ⟨r, _, hg⟩
  · rcases rewire_cases hr with ⟨_, rfl⟩ | ⟨_, _, _, rfl⟩ | ⟨_, _, _, _, rfl⟩
    · cases hs
    · cases hs
    · simp only at hs; unfold Input.W at hs; split at hs <;> cases hs
  · rcases gadget_cases hg with rfl | ⟨_, _, rfl | ⟨u, a, _, ha, rfl⟩⟩ | ⟨_, _, rfl | rfl | rfl⟩
    · simp only [PN.storeLit.injEq] at hs; subst hs; exact Or.inl rfl
    · cases hs
    · simp only at hs
      rcases depSrc_cases ha with ⟨_, rfl⟩ | ⟨_, _, _, rfl⟩
      · cases hs
      · unfold Input.W at hs; split at hs <;> cases hs
    · simp only [PN.storeLit.injEq] at hs; subst hs; exact Or.inr rfl
    · cases hs
    · cases hs

/-- `write i` takes its own store literal and `orig i`, nothing else. -/
theorem write_in {P : Input} {e : Edge PN} (he : e ∈ (physBuild P).edges) {i : Nat} (hd : e.dst = .write i) :
    e = ⟨.storeLit i, .write i, .pos 0⟩ ∨ e = ⟨.orig i, .write i, .pos 1⟩ := by
  rcases mem_built_edges.mp he with ⟨le, _, hr⟩ | ⟨r, _, hg⟩
  · rcases rewire_cases hr with ⟨_, rfl⟩ | ⟨_, _, _, rfl⟩ | ⟨_, _, _, _, rfl⟩ <;> cases hd
  · rcases gadget_cases hg with rfl | ⟨_, _, rfl | ⟨u, a, _, _, rfl⟩⟩ | ⟨_, _, rfl | rfl | rfl⟩
    · cases hd
    · cases hd
    · cases hd
    · simp only [PN.write.injEq] at hd; subst hd; exact Or.inl rfl
    · simp only [PN.write.injEq] at hd; subst hd; exact Or.inr rfl
    · cases hd

theorem count_gadgetNodes_write (P : Input) (r : Nat × Bool) (i : Nat) :
    (P.gadgetNodes r).count (.write i) ≤ 1 ∧ (r.1 ≠ i → (P.gadgetNodes r).count (.write i) = 0) := by
  unfold Input.gadgetNodes
  by_cases hst : P.isStale r.1 = true
  · cases h2 : r.2
    · by_cases hi : r.1 = i
      · subst hi; simp [hst]
      · simp [hst, hi]
    · simp [hst]
  · simp [hst]

theorem count_flatMap_write (P : Input) (i : Nat) (l : List (Nat × Bool)) (hn : (l.map (·.1)).Nodup) :
    (l.flatMap P.gadgetNodes).count (.write i) ≤ 1 ∧
    (i ∉ l.map (·.1) → (l.flatMap P.gadgetNodes).count (.write i) = 0) := by
  induction l with
  | nil => simp
  | cons r rest ih =>
    simp only [List.map_cons, List.nodup_cons] at hn
    obtain ⟨ih1, ih2⟩ := ih hn.2
    obtain ⟨g1, g2⟩ := count_gadgetNodes_write P r i
    simp only [List.flatMap_cons, List.count_append, List.map_cons, List.mem_cons, not_or]
    constructor
    · by_cases hi : r.1 = i
      · have := ih2 (hi ▸ hn.1); omega
      · have := g2 hi; omega
    · rintro ⟨h1, h2⟩
      have := g2 (Ne.symm h1)
      have := ih2 h2
      omega

/-- There is at most one node `write i` in the physical plan. -/
theorem count_write {P : Input} (hP : P.WF) (i : Nat) : (physBuild P).nodes.count (.write i) ≤ 1 := by
  have h0 : (P.nodes.map PN.orig).count (.write i) = 0 := by
    apply List.count_eq_zero.mpr
    simp
  have := (count_flatMap_write P i P.reg hP.regNodup).1
  simp only [physBuild, List.count_append, h0]
  omega

end Uberjob.Phys
