import UberjobModel.Lemmas.FileStore
/-!
  Two runs of the same write on file systems that differ at most in what is lying at the STAGING path
  (e.g. the left-over of a killed process) take the same decisions and agree on every other path.
-/
namespace Uberjob.FileStore
set_option linter.unusedSectionVars false

section
variable {α : Type} [DecidableEq α]

/-- same clock, same content at every path -/
def Agree (a b : FS α) : Prop := a.clock = b.clock ∧ ∀ p, a.get p = b.get p

/-- same clock, same content at every path except possibly `stg` -/
def AgreeOff (stg : α) (a b : FS α) : Prop := a.clock = b.clock ∧ ∀ p, p ≠ stg → a.get p = b.get p

theorem Agree.off {a b : FS α} (h : Agree a b) (stg : α) : AgreeOff stg a b := ⟨h.1, fun p _ => h.2 p⟩

theorem Agree.tick {a b : FS α} (h : Agree a b) : Agree a.tick b.tick :=
  ⟨by simp [h.1], fun p => by simp [h.2 p]⟩

theorem Agree.append {a b : FS α} (h : Agree a b) (p : α) (c : Bytes) : Agree (a.append p c) (b.append p c) := by
  unfold FS.append
  rw [h.2 p]
  split
  · exact ⟨by simp [h.1], fun q => by simp [h.2 q, h.1]⟩
  · exact h.tick

theorem Agree.remove {a b : FS α} (h : Agree a b) (p : α) : Agree (a.remove p) (b.remove p) :=
  ⟨by simp [h.1], fun q => by simp [get_remove, h.2 q]⟩

theorem AgreeOff.remove {stg : α} {a b : FS α} (h : AgreeOff stg a b) : Agree (a.remove stg) (b.remove stg) := by
  refine ⟨by simp [h.1], fun q => ?_⟩
  simp only [get_remove]
  split
  · rfl
  · rename_i hq; exact h.2 q hq

theorem AgreeOff.openTrunc {stg : α} {a b : FS α} (h : AgreeOff stg a b) : Agree (a.openTrunc stg) (b.openTrunc stg) := by
  refine ⟨by simp [h.1], fun q => ?_⟩
  simp only [get_openTrunc, h.1]
  split
  · rfl
  · rename_i hq; exact h.2 q hq

theorem Agree.replace {a b : FS α} (h : Agree a b) (src dst : α) :
    (a.replace src dst = none ∧ b.replace src dst = none) ∨
    (∃ a' b', a.replace src dst = some a' ∧ b.replace src dst = some b' ∧ Agree a' b') := by
  unfold FS.replace
  rw [h.2 src]
  split
  · exact .inl ⟨rfl, rfl⟩
  · refine .inr ⟨_, _, rfl, rfl, by simp [h.1], fun q => ?_⟩
    simp [h.2 q]

/-- two results that took the same decisions -/
structure RSame (P : FS α → FS α → Prop) (r1 r2 : R α) : Prop where
  fs : P r1.fs r2.fs
  out : r1.out = r2.out
  next : r1.next = r2.next
  trace : r1.trace = r2.trace

theorem closeOp_agree (sched : Sched) {a b : FS α} (h : Agree a b) (i : Nat) (pend : Outcome) (tr : List OpName) :
    RSame Agree (closeOp sched a i pend tr) (closeOp sched b i pend tr) := by
  unfold closeOp
  split
  · exact ⟨h.tick, rfl, rfl, rfl⟩
  · exact ⟨h.tick, rfl, rfl, rfl⟩
  · exact ⟨h, rfl, rfl, rfl⟩

theorem Agree.partialAppend {a b : FS α} (h : Agree a b) (stg : α) (c : Bytes) (p : Nat) :
    Agree (if p = 0 then a else a.append stg (c.take p)) (if p = 0 then b else b.append stg (c.take p)) := by
  split
  · exact h
  · exact h.append _ _

theorem writesOp_agree (sched : Sched) (stg : α) (ops : List BodyOp) :
    ∀ {a b : FS α}, Agree a b → ∀ (i : Nat) (tr : List OpName),
      RSame Agree (writesOp sched stg a i ops tr) (writesOp sched stg b i ops tr) := by
  induction ops with
  | nil => intro a b h i tr; exact closeOp_agree sched h i _ tr
  | cons op r ih =>
    intro a b h i tr
    cases op with
    | fail e => exact closeOp_agree sched h i _ tr
    | write c =>
      simp only [writesOp]
      split
      · exact ih (h.append stg c) _ _
      · exact closeOp_agree sched (h.partialAppend stg c _) _ _ _
      · exact ⟨h.partialAppend stg c _, rfl, rfl, rfl⟩
    | failingWrite e =>
      simp only [writesOp]
      split
      · exact closeOp_agree sched h _ _ _
      · exact closeOp_agree sched h _ _ _
      · exact ⟨h, rfl, rfl, rfl⟩

/-- the block of `staged_write` opens the staging path with "w": whatever was lying there is gone as soon as the
    open succeeds; if the open fails without effect nothing was looked at -/
theorem body_agreeOff (sched : Sched) (stg : α) (ops : List BodyOp) {a b : FS α} (h : AgreeOff stg a b) :
    RSame Agree (bodyStagedWrite sched stg ops a) (bodyStagedWrite sched stg ops b) ∨
    (RSame (AgreeOff stg) (bodyStagedWrite sched stg ops a) (bodyStagedWrite sched stg ops b) ∧
      (bodyStagedWrite sched stg ops a).out ≠ .ok) := by
  unfold bodyStagedWrite
  split
  · exact .inl (writesOp_agree sched stg ops h.openTrunc _ _)
  · rename_i e p _
    by_cases hp : p = 0
    · simp only [hp, if_true]
      exact .inr ⟨⟨h, rfl, rfl, rfl⟩, fun h => by cases h⟩
    · simp only [hp, if_false]
      exact .inl ⟨h.openTrunc, rfl, rfl, rfl⟩
  · rename_i p _
    by_cases hp : p = 0
    · simp only [hp, if_true]
      exact .inr ⟨⟨h, rfl, rfl, rfl⟩, fun h => by cases h⟩
    · simp only [hp, if_false]
      exact .inl ⟨h.openTrunc, rfl, rfl, rfl⟩

theorem handler_agreeOff (cfg : Cfg) (sched : Sched) (stg : α) {a b : FS α} (h : AgreeOff stg a b)
    (i : Nat) (e : Exc) (tr : List OpName) :
    RSame (AgreeOff stg) (handler cfg sched stg a i e tr) (handler cfg sched stg b i e tr) := by
  unfold handler
  split
  · split
    · split
      · exact ⟨h.remove.off stg, rfl, rfl, rfl⟩
      · exact ⟨h, rfl, rfl, rfl⟩
      · exact ⟨h, rfl, rfl, rfl⟩
    · exact ⟨h, rfl, rfl, rfl⟩
  · exact ⟨h, rfl, rfl, rfl⟩

theorem stagedPath_agree (cfg : Cfg) (sched : Sched) (stg tgt : α) {b1 b2 : R α} (h : RSame Agree b1 b2) :
    RSame (AgreeOff stg) (stagedPath cfg sched stg tgt b1) (stagedPath cfg sched stg tgt b2) := by
  unfold stagedPath
  rw [← h.out, ← h.next, ← h.trace]
  split
  · exact ⟨h.fs.off stg, h.out, h.next, h.trace⟩
  · exact handler_agreeOff cfg sched stg (h.fs.off stg) _ _ _
  · simp only
    split
    · exact ⟨h.fs.off stg, rfl, rfl, rfl⟩
    · split
      · exact handler_agreeOff cfg sched stg (h.fs.off stg) _ _ _
      · exact ⟨h.fs.off stg, rfl, rfl, rfl⟩
    · rcases h.fs.replace stg tgt with ⟨h1, h2⟩ | ⟨a', b', h1, h2, hab⟩
      · rw [h1, h2]
        simp only
        split
        · exact handler_agreeOff cfg sched stg (h.fs.off stg) _ _ _
        · exact ⟨h.fs.off stg, rfl, rfl, rfl⟩
      · rw [h1, h2]
        exact ⟨hab.off stg, rfl, rfl, rfl⟩

theorem stagedPath_agreeOff_notok (cfg : Cfg) (sched : Sched) (stg tgt : α) {b1 b2 : R α}
    (h : RSame (AgreeOff stg) b1 b2) (hn : b1.out ≠ .ok) :
    RSame (AgreeOff stg) (stagedPath cfg sched stg tgt b1) (stagedPath cfg sched stg tgt b2) := by
  unfold stagedPath
  rw [← h.out, ← h.next, ← h.trace]
  split
  · exact ⟨h.fs, h.out, h.next, h.trace⟩
  · exact handler_agreeOff cfg sched stg h.fs _ _ _
  · rename_i hb; exact absurd hb hn

/-- what lies at the staging path beforehand influences neither the decisions taken by a `staged_write` nor any
    other path afterwards -/
theorem stagedWrite_agreeOff (cfg : Cfg) (sched : Sched) (w : Bool) (stg tgt : α) (ops : List BodyOp) {a b : FS α}
    (h : AgreeOff stg a b) :
    RSame (AgreeOff stg) (stagedWrite cfg sched w stg tgt ops a) (stagedWrite cfg sched w stg tgt ops b) := by
  unfold stagedWrite
  split
  · rcases body_agreeOff sched stg ops h with h1 | ⟨h1, h2⟩
    · exact stagedPath_agree cfg sched stg tgt h1
    · exact stagedPath_agreeOff_notok cfg sched stg tgt h1 h2
  · exact ⟨h, rfl, rfl, rfl⟩

end
end Uberjob.FileStore
