import UberjobModel.Lemmas.EngineLog
/-!
  The engine's event log is well bracketed: reading it left to right, every `ok x` / `fail x` closes a `begin x`
  that is open at that moment, no node is opened twice, and when the run has returned nothing is open.
-/
namespace Uberjob.Engine

/-- Open calls after reading the log (`none` = the log is not well bracketed). -/
def trackStep (acc : Option (List Nat)) (e : Ev) : Option (List Nat) :=
  match acc with
  | none => none
  | some R =>
    match e with
    | .begin x => if x ∈ R then none else some (R ++ [x])
    | .ok x => if x ∈ R then some (R.erase x) else none
    | .fail x => if x ∈ R then some (R.erase x) else none

def track (l : List Ev) : Option (List Nat) := l.foldl trackStep (some [])

theorem foldl_trackStep_none (l : List Ev) : l.foldl trackStep none = none := by
  induction l with
  | nil => rfl
  | cons e t ih => simpa [List.foldl_cons, trackStep] using ih

theorem track_append_singleton (l : List Ev) (e : Ev) : track (l ++ [e]) = trackStep (track l) e := by
  simp [track, List.foldl_append]

/-- A well-bracketed log has only well-bracketed prefixes. -/
theorem track_prefix {l : List Ev} {R : List Nat} (h : track l = some R) (i : Nat) : ∃ R', track (l.take i) = some R' := by
  have : l = l.take i ++ l.drop i := (List.take_append_drop i l).symm
  rw [this] at h
  simp only [track, List.foldl_append] at h
  cases ht : List.foldl trackStep (some []) (l.take i) with
  | none => rw [ht, foldl_trackStep_none] at h; cases h
  | some R' => exact ⟨R', ht⟩

/-- The calls that have begun and neither returned nor raised yet, in the order they began. -/
def openCalls (s : St) : List Nat := s.begun.filter (fun x => !(s.okd.contains x) && !(s.failed.contains x))

theorem filter_erase_of_nodup {l : List Nat} (hn : l.Nodup) (p : Nat → Bool) (x : Nat) :
    (l.filter p).erase x = l.filter (fun y => p y && (y != x)) := by
  induction l with
  | nil => simp
  | cons a t ih =>
    have hat := (List.nodup_cons.mp hn).1
    have := ih (List.nodup_cons.mp hn).2
    by_cases hax : a = x
    · subst hax
      by_cases hp : p a = true
      · simp only [List.filter_cons, hp, if_true, List.erase_cons_head]
        simp only [bne_self_eq_false, Bool.and_false, Bool.false_eq_true, if_false]
        apply List.filter_congr
        intro y hy
        have : y ≠ a := fun h => hat (h ▸ hy)
        simp [this]
      · simp only [List.filter_cons, hp, Bool.false_eq_true, if_false, Bool.false_and]
        rw [this]
    · by_cases hp : p a = true
      · have hne : (a != x) = true := by simpa using hax
        simp only [List.filter_cons, hp, hne, if_true, Bool.and_self]
        rw [List.erase_cons_tail (by simpa using hax), this]
      · simp only [List.filter_cons, hp, Bool.false_eq_true, if_false, Bool.false_and]
        rw [this]

/-- **The log of every reachable state is well bracketed, and what is open is exactly `openCalls`.** -/
theorem track_reach {g : Graph} (hg : g.WF) {cfg : Cfg} {s : St} (h : Reach g cfg s) :
    track s.log = some (openCalls s) := by
  induction h with
  | init => simp [init, track, openCalls]
  | step l hr hs ih =>
    rename_i s s'
    have hi := inv_reach hg hr
    cases l with
    | check w =>
      simp only [step?] at hs
      split at hs
      · cases hs; exact ih
      · next x hw =>
        split at hs
        · cases hs; exact ih
        · cases hs
          have hxb : x ∉ s.begun := hi.held x (List.mem_of_getElem? hw)
          have hxo : x ∉ s.okd := fun h => hxb (hi.okBegun x h)
          have hxf : x ∉ s.failed := fun h => hxb (hi.failBegun x h).1
          simp only [setW]
          rw [track_append_singleton, ih]
          have hno : x ∉ openCalls s := fun h => hxb (List.mem_filter.mp h).1
          simp only [trackStep, hno, if_false]
          simp [openCalls, List.filter_append, hxo, hxf]
      · cases hs
    | finOk w =>
      simp only [step?] at hs
      split at hs
      · next x hw =>
        cases hs
        obtain ⟨hxo, hxf, hxb⟩ := hi.running x (List.mem_of_getElem? hw)
        simp only [setW]
        rw [track_append_singleton, ih]
        have hin : x ∈ openCalls s := List.mem_filter.mpr ⟨hxb, by simp [hxo, hxf]⟩
        simp only [trackStep, hin, if_true]
        congr 1
        unfold openCalls
        rw [filter_erase_of_nodup hi.begunNodup]
        apply List.filter_congr
        intro y _
        by_cases hyx : y = x
        · subst hyx; simp
        · have : ¬ x = y := fun h => hyx h.symm
          simp [hyx, this]
      · cases hs
    | finFail w =>
      simp only [step?] at hs
      split at hs
      · next x hw =>
        cases hs
        obtain ⟨hxo, hxf, hxb⟩ := hi.running x (List.mem_of_getElem? hw)
        simp only [setW]
        rw [track_append_singleton, ih]
        have hin : x ∈ openCalls s := List.mem_filter.mpr ⟨hxb, by simp [hxo, hxf]⟩
        simp only [trackStep, hin, if_true]
        congr 1
        unfold openCalls
        rw [filter_erase_of_nodup hi.begunNodup]
        apply List.filter_congr
        intro y _
        by_cases hyx : y = x
        · subst hyx; simp
        · have : ¬ x = y := fun h => hyx h.symm
          simp [hyx, this]
      · cases hs
    | spawn => simp only [step?] at hs; repeat' split at hs
               all_goals first | (cases hs; exact ih) | cases hs
    | get w i => simp only [step?] at hs; repeat' split at hs
                 all_goals first | (cases hs; exact ih) | cases hs
    | release w y => simp only [step?] at hs; repeat' split at hs
                     all_goals first | (cases hs; exact ih) | cases hs
    | taskDone w => simp only [step?] at hs; repeat' split at hs
                    all_goals first | (cases hs; exact ih) | cases hs
    | joinReturn => simp only [step?] at hs; repeat' split at hs
                    all_goals first | (cases hs; exact ih) | cases hs
    | interrupt => simp only [step?] at hs; repeat' split at hs
                   all_goals first | (cases hs; exact ih) | cases hs
    | setStop => simp only [step?] at hs; repeat' split at hs
                 all_goals first | (cases hs; exact ih) | cases hs
    | putDone => simp only [step?] at hs; repeat' split at hs
                 all_goals first | (cases hs; exact ih) | cases hs
    | joined => simp only [step?] at hs; repeat' split at hs
                all_goals first | (cases hs; exact ih) | cases hs

/-- When the run has returned no call is open. -/
theorem openCalls_nil_at_return {g : Graph} (hg : g.WF) {cfg : Cfg} (hw : 1 ≤ cfg.workers) {s : St}
    (h : Reach g cfg s) {i : Bool} (hc : s.coord = .returned i) : openCalls s = [] := by
  have hl := invLog_reach hg h
  have hall := (inv3_reach hw h).retd i hc
  apply List.filter_eq_nil_iff.mpr
  intro x hx
  rcases hl.where_ x hx with h3 | h3 | h3
  · have := hall _ h3; cases this
  · simp [h3]
  · simp [h3]

end Uberjob.Engine
