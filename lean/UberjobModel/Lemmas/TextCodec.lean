import UberjobModel.Model.TextCodec
/-!
  Lemmas about newline translation (used by Props/C12).
-/
namespace Uberjob.TextCodec
open Uberjob.Gen.TextCodec (Newline)

theorem lf_ne_cr : LF ≠ CR := by decide
theorem cr_ne_lf : CR ≠ LF := by decide

theorem univ_true_lf (r : Str) : univ true (LF :: r) = univ false r := by
  simp [univ, LF, CR]

theorem univ_true_ne {d : Nat} (r : Str) (h : d ≠ LF) : univ true (d :: r) = univ false (d :: r) := by
  simp [univ, h]

/-- the incremental decoder computes "replace every CRLF, then every CR" -/
theorem universalRead_eq (s : Str) : universalRead s = replaceCR (replaceCRLF s) := by
  unfold universalRead
  induction s using replaceCRLF.induct with
  | case1 => simp [univ, replaceCRLF, replaceCR]
  | case2 c =>
    by_cases h13 : c = CR <;> by_cases h10 : c = LF <;> simp_all [univ, replaceCRLF, replaceCR, LF, CR]
  | case3 c d r h ih =>
    obtain ⟨rfl, rfl⟩ := h
    have : univ false (CR :: LF :: r) = LF :: univ true (LF :: r) := by simp [univ]
    rw [this, univ_true_lf, ih]
    simp [replaceCRLF, replaceCR, LF, CR]
  | case4 c d r h ih =>
    by_cases hc : c = CR
    · subst hc
      have hd : d ≠ LF := fun e => h ⟨rfl, e⟩
      have : univ false (CR :: d :: r) = LF :: univ true (d :: r) := by simp [univ]
      rw [this, univ_true_ne r hd, ih]
      simp [replaceCRLF, replaceCR, hd]
    · have : univ false (c :: d :: r) = c :: univ false (d :: r) := by
        by_cases hl : c = LF
        · subst hl; simp [univ, lf_ne_cr]
        · simp [univ, hc, hl]
      rw [this, ih]
      simp [replaceCRLF, replaceCR, hc]

theorem univ_noCR (s : Str) (h : CR ∉ s) : univ false s = s := by
  induction s with
  | nil => rfl
  | cons c r ih =>
    have hc : c ≠ CR := fun e => h (by simp [e])
    have hr : CR ∉ r := fun e => h (by simp [e])
    by_cases hl : c = LF
    · subst hl; simp [univ, lf_ne_cr, ih hr]
    · simp [univ, hc, hl, ih hr]

/-- the output of universal-newline translation never contains a CR -/
theorem univ_no_cr_out (s : Str) : ∀ b, CR ∉ univ b s := by
  induction s with
  | nil => intro b; simp [univ]
  | cons c r ih =>
    intro b
    by_cases hc : c = CR
    · subst hc
      simp only [univ, if_true]
      intro hm
      rcases List.mem_cons.mp hm with h | h
      · exact cr_ne_lf h
      · exact ih true h
    · by_cases hl : c = LF
      · subst hl
        cases b
        · simp only [univ, lf_ne_cr, if_false, if_true]
          intro hm
          rcases List.mem_cons.mp hm with h | h
          · exact cr_ne_lf h
          · exact ih false h
        · simp only [univ, lf_ne_cr, if_false, if_true]
          exact ih false
      · simp only [univ, hc, hl, if_false]
        intro hm
        rcases List.mem_cons.mp hm with h | h
        · exact hc h.symm
        · exact ih false h

theorem universalRead_id_iff (s : Str) : universalRead s = s ↔ CR ∉ s := by
  constructor
  · intro h hm
    have := univ_no_cr_out s false
    unfold universalRead at h
    rw [h] at this
    exact this hm
  · exact univ_noCR s

/-- replacing `"\n"` by `"\n"` is the identity -/
theorem flatMap_lf (s : Str) : s.flatMap (fun c => if c = LF then [LF] else [c]) = s := by
  induction s with
  | nil => rfl
  | cons c r ih =>
    simp only [List.flatMap_cons, ih]
    by_cases h : c = LF <;> simp [h]

theorem encodeText_transparent {linesep : Str} {nl : Newline} (h : writeTransparent linesep nl = true) (s : Str) :
    encodeText linesep nl s = s := by
  unfold encodeText
  unfold writeTransparent at h
  split
  · rfl
  · rename_i sep hs
    simp only [hs] at h
    have : sep = [LF] := by simpa using h
    subst this
    exact flatMap_lf s

theorem decodeText_transparent {nl : Newline} (h : readTransparent nl = true) (s : Str) : decodeText nl s = s := by
  cases nl <;> first | rfl | cases h

theorem latin1_roundtrip : latin1.Roundtrip := by
  intro s b h
  simp only [latin1] at h ⊢
  split at h
  · rename_i hs; cases h; simp [hs]
  · cases h


/-! ### UTF-8 and UTF-16: the strict decoders invert the strict encoders (every string without lone surrogates) -/

theorem utf8Char_dec {c : Nat} {a : Bytes} (h : utf8Char c = some a) (rest : Bytes) (f : Nat) :
    utf8DecF (f + 1) (a ++ rest) = consOpt c (utf8DecF f rest) := by
  unfold utf8Char at h
  split at h
  · next h1 =>
    cases h
    simp [utf8DecF, h1]
  · next h1 =>
    split at h
    · next h2 =>
      cases h
      have e1 : ¬ (0xC0 + c / 64 < 0x80) := by omega
      have e2 : ¬ (0xC0 + c / 64 < 0xC0) := by omega
      have e3 : 0xC0 + c / 64 < 0xE0 := by omega
      have e4 : (0xC0 + c / 64 - 0xC0) * 64 + (0x80 + c % 64 - 0x80) = c := by omega
      have e5 : isCont (0x80 + c % 64) = true := by simp [isCont]; omega
      simp only [List.cons_append, List.nil_append, utf8DecF, e1, e2, e3, e4, e5, if_true, if_false, Bool.true_and]
      have : decide (0x80 ≤ c) = true := by simp; omega
      simp [this]
    · next h2 =>
      split at h
      · next h3 =>
        split at h
        · cases h
        · next h4 =>
          cases h
          have e1 : ¬ (0xE0 + c / 4096 < 0x80) := by omega
          have e2 : ¬ (0xE0 + c / 4096 < 0xC0) := by omega
          have e3 : ¬ (0xE0 + c / 4096 < 0xE0) := by omega
          have e3' : 0xE0 + c / 4096 < 0xF0 := by omega
          have e4 : (0xE0 + c / 4096 - 0xE0) * 4096 + (0x80 + c / 64 % 64 - 0x80) * 64 + (0x80 + c % 64 - 0x80) = c := by omega
          have e5 : isCont (0x80 + c % 64) = true := by simp [isCont]; omega
          have e6 : isCont (0x80 + c / 64 % 64) = true := by simp [isCont]; omega
          have e7 : decide (0x800 ≤ c) = true := by simp; omega
          have e8 : isSurrogate c = false := by simpa using h4
          simp only [List.cons_append, List.nil_append, utf8DecF, e1, e2, e3, e3', e4, e5, e6, e7, e8, if_true, if_false,
            Bool.true_and, Bool.not_false, Bool.and_self]
      · next h3 =>
        split at h
        · next h4 =>
          cases h
          have e1 : ¬ (0xF0 + c / 262144 < 0x80) := by omega
          have e2 : ¬ (0xF0 + c / 262144 < 0xC0) := by omega
          have e3 : ¬ (0xF0 + c / 262144 < 0xE0) := by omega
          have e3' : ¬ (0xF0 + c / 262144 < 0xF0) := by omega
          have e3'' : 0xF0 + c / 262144 < 0xF8 := by omega
          have e4 : (0xF0 + c / 262144 - 0xF0) * 262144 + (0x80 + c / 4096 % 64 - 0x80) * 4096 + (0x80 + c / 64 % 64 - 0x80) * 64
              + (0x80 + c % 64 - 0x80) = c := by omega
          have e5 : isCont (0x80 + c % 64) = true := by simp [isCont]; omega
          have e6 : isCont (0x80 + c / 64 % 64) = true := by simp [isCont]; omega
          have e6' : isCont (0x80 + c / 4096 % 64) = true := by simp [isCont]; omega
          have e7 : decide (0x10000 ≤ c) = true := by simp; omega
          have e8 : decide (c < 0x110000) = true := by simp; omega
          simp only [List.cons_append, List.nil_append, utf8DecF, e1, e2, e3, e3', e3'', e4, e5, e6, e6', e7, e8, if_true, if_false,
            Bool.true_and, Bool.and_self]
        · cases h

theorem utf8Char_len {c : Nat} {a : Bytes} (h : utf8Char c = some a) : 1 ≤ a.length := by
  unfold utf8Char at h
  repeat' split at h
  all_goals first | (cases h; simp) | cases h

theorem utf8_dec_enc (s : Str) : ∀ b, encodeWith utf8Char s = some b → ∀ f, b.length ≤ f → utf8DecF f b = some s := by
  induction s with
  | nil => intro b h f _; simp [encodeWith] at h; subst h; cases f <;> simp [utf8DecF]
  | cons c r ih =>
    intro b h f hf
    simp only [encodeWith] at h
    split at h
    · next a b' ha hb' =>
      cases h
      have hl := utf8Char_len ha
      cases f with
      | zero => rw [List.length_append] at hf; omega
      | succ f' =>
        rw [utf8Char_dec ha, ih b' hb' f' (by rw [List.length_append] at hf; omega)]
        rfl
    · cases h

theorem utf8_roundtrip : utf8.Roundtrip := by
  intro s b h
  exact utf8_dec_enc s b h _ (Nat.le_refl _)

theorem utf16Char_dec {c : Nat} {a : Bytes} (h : utf16Char c = some a) (rest : Bytes) (f : Nat) :
    utf16UnitsF (f + 1) (a ++ rest) = consOpt c (utf16UnitsF f rest) := by
  unfold utf16Char at h
  split at h
  · next h1 =>
    split at h
    · cases h
    · next h2 =>
      cases h
      have hs : ¬ (0xD800 ≤ c ∧ c ≤ 0xDFFF) := by simpa [isSurrogate] using h2
      have e1 : ¬ (256 ≤ c % 256) := by omega
      have e2 : ¬ (256 ≤ c / 256) := by omega
      have e3 : c % 256 + 256 * (c / 256) = c := by omega
      have e4 : (c < 0xD800 ∨ 0xE000 ≤ c) := by omega
      simp only [List.cons_append, List.nil_append, utf16UnitsF, e1, e2, e3, decide_false, Bool.or_self, Bool.false_eq_true, if_false]
      simp [e4]
  · next h1 =>
    split at h
    · next h2 =>
      simp only [Option.some.injEq] at h
      subst h
      have e1 : ¬ (256 ≤ (0xD800 + (c - 0x10000) / 1024) % 256) := by omega
      have e2 : ¬ (256 ≤ (0xD800 + (c - 0x10000) / 1024) / 256) := by omega
      have e1' : ¬ (256 ≤ (0xDC00 + (c - 0x10000) % 1024) % 256) := by omega
      have e2' : ¬ (256 ≤ (0xDC00 + (c - 0x10000) % 1024) / 256) := by omega
      have e3 : (0xD800 + (c - 0x10000) / 1024) % 256 + 256 * ((0xD800 + (c - 0x10000) / 1024) / 256) = 0xD800 + (c - 0x10000) / 1024 := by omega
      have e3' : (0xDC00 + (c - 0x10000) % 1024) % 256 + 256 * ((0xDC00 + (c - 0x10000) % 1024) / 256) = 0xDC00 + (c - 0x10000) % 1024 := by omega
      have e4 : ¬ (0xD800 + (c - 0x10000) / 1024 < 0xD800 ∨ 0xE000 ≤ 0xD800 + (c - 0x10000) / 1024) := by omega
      have e5 : 0xD800 + (c - 0x10000) / 1024 < 0xDC00 := by omega
      have e6 : 0xDC00 ≤ 0xDC00 + (c - 0x10000) % 1024 ∧ 0xDC00 + (c - 0x10000) % 1024 < 0xE000 := by omega
      have e7 : 0x10000 + (0xD800 + (c - 0x10000) / 1024 - 0xD800) * 1024 + (0xDC00 + (c - 0x10000) % 1024 - 0xDC00) = c := by omega
      simp only [List.cons_append, List.nil_append, utf16UnitsF, e1, e2, e1', e2', e3, e3', decide_false, Bool.or_self,
        Bool.false_eq_true, if_false]
      simp [e4, e5, e6]
      have e8 : ∀ v : Nat, v / 1024 * 1024 + v % 1024 = v := by intro v; omega
      rw [Nat.add_assoc, e8]
      have e9 : 65536 + (c - 65536) = c := by omega
      rw [e9]
    · cases h

theorem utf16Char_len {c : Nat} {a : Bytes} (h : utf16Char c = some a) : 1 ≤ a.length := by
  unfold utf16Char at h
  repeat' split at h
  all_goals first | (cases h; simp) | cases h

theorem utf16_dec_enc (s : Str) : ∀ b, encodeWith utf16Char s = some b → ∀ f, b.length ≤ f → utf16UnitsF f b = some s := by
  induction s with
  | nil => intro b h f _; simp [encodeWith] at h; subst h; cases f <;> simp [utf16UnitsF]
  | cons c r ih =>
    intro b h f hf
    simp only [encodeWith] at h
    split at h
    · next a b' ha hb' =>
      cases h
      have hl := utf16Char_len ha
      cases f with
      | zero => rw [List.length_append] at hf; omega
      | succ f' =>
        rw [utf16Char_dec ha, ih b' hb' f' (by rw [List.length_append] at hf; omega)]
        rfl
    · cases h

theorem utf16_roundtrip : utf16.Roundtrip := by
  intro s b h
  simp only [utf16, utf16Enc, Option.map_eq_some_iff] at h
  obtain ⟨u, hu, rfl⟩ := h
  simp only [utf16, utf16Dec, List.cons_append, List.nil_append]
  exact utf16_dec_enc s u hu _ (Nat.le_refl _)

end Uberjob.TextCodec
