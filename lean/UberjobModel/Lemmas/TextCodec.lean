import UberjobModel.Model.TextCodec
/-!
  Lemmas about newline translation (used by Props/C12).
-/
namespace Uberjob.TextCodec
open Uberjob.Gen.TextCodec (Newline)

theorem lf_ne_cr : LF ≠ CR := by decide
theorem cr_ne_lf : CR ≠ LF := by decide

theorem univ_true_lf (r : Str) : univ true (LF :: r) = univ false r := by
  simp [univ, LF, CR]

theorem univ_true_ne {d : Nat} (r : Str) (h : d ≠ LF) : univ true (d :: r) = univ false (d :: r) := by
  simp [univ, h]

/-- the incremental decoder computes "replace every CRLF, then every CR" -/
theorem universalRead_eq (s : Str) : universalRead s = replaceCR (replaceCRLF s) := by
  unfold universalRead
  induction s using replaceCRLF.induct with
  | case1 => simp [univ, replaceCRLF, replaceCR]
  | case2 c =>
    by_cases h13 : c = CR <;> by_cases h10 : c = LF <;> simp_all [univ, replaceCRLF, replaceCR, LF, CR]
  | case3 c d r h ih =>
    obtain ⟨rfl, rfl⟩ := h
    have : univ false (CR :: LF :: r) = LF :: univ true (LF :: r) := by simp [univ]
    rw [this, univ_true_lf, ih]
    simp [replaceCRLF, replaceCR, LF, CR]
  | case4 c d r h ih =>
    by_cases hc : c = CR
    · subst hc
      have hd : d ≠ LF := fun e => h ⟨rfl, e⟩
      have : univ false (CR :: d :: r) = LF :: univ true (d :: r) := by simp [univ]
      rw [this, univ_true_ne r hd, ih]
      simp [replaceCRLF, replaceCR, hd]
    · have : univ false (c :: d :: r) = c :: univ false (d :: r) := by
        by_cases hl : c = LF
        · subst hl; simp [univ, lf_ne_cr]
        · simp [univ, hc, hl]
      rw [this, ih]
      simp [replaceCRLF, replaceCR, hc]

theorem univ_noCR (s : Str) (h : CR ∉ s) : univ false s = s := by
  induction s with
  | nil => rfl
  | cons c r ih =>
    have hc : c ≠ CR := fun e => h (by simp [e])
    have hr : CR ∉ r := fun e => h (by simp [e])
    by_cases hl : c = LF
    · subst hl; simp [univ, lf_ne_cr, ih hr]
    · simp [univ, hc, hl, ih hr]

/-- the output of universal-newline translation never contains a CR -/
theorem univ_no_cr_out (s : Str) : ∀ b, CR ∉ univ b s := by
  induction s with
  | nil => intro b; simp [univ]
  | cons c r ih =>
    intro b
    by_cases hc : c = CR
    · subst hc
      simp only [univ, if_true]
      intro hm
      rcases List.mem_cons.mp hm with h | h
      · exact cr_ne_lf h
      · exact ih true h
    · by_cases hl : c = LF
      · subst hl
        cases b
        · simp only [univ, lf_ne_cr, if_false, if_true]
          intro hm
          rcases List.mem_cons.mp hm with h | h
          · exact cr_ne_lf h
          · exact ih false h
        · simp only [univ, lf_ne_cr, if_false, if_true]
          exact ih false
      · simp only [univ, hc, hl, if_false]
        intro hm
        rcases List.mem_cons.mp hm with h | h
        · exact hc h.symm
        · exact ih false h

theorem universalRead_id_iff (s : Str) : universalRead s = s ↔ CR ∉ s := by
  constructor
  · intro h hm
    have := univ_no_cr_out s false
    unfold universalRead at h
    rw [h] at this
    exact this hm
  · exact univ_noCR s

/-- replacing `"\n"` by `"\n"` is the identity -/
theorem flatMap_lf (s : Str) : s.flatMap (fun c => if c = LF then [LF] else [c]) = s := by
  induction s with
  | nil => rfl
  | cons c r ih =>
    simp only [List.flatMap_cons, ih]
    by_cases h : c = LF <;> simp [h]

theorem encodeText_transparent {linesep : Str} {nl : Newline} (h : writeTransparent linesep nl = true) (s : Str) :
    encodeText linesep nl s = s := by
  unfold encodeText
  unfold writeTransparent at h
  split
  · rfl
  · rename_i sep hs
    simp only [hs] at h
    have : sep = [LF] := by simpa using h
    subst this
    exact flatMap_lf s

theorem decodeText_transparent {nl : Newline} (h : readTransparent nl = true) (s : Str) : decodeText nl s = s := by
  cases nl <;> first | rfl | cases h

theorem latin1_roundtrip : latin1.Roundtrip := by
  intro s b h
  simp only [latin1] at h ⊢
  split at h
  · rename_i hs; cases h; simp [hs]
  · cases h

end Uberjob.TextCodec
