import UberjobModel.Lemmas.CacheBasic
/-!
  `Good` is preserved by every store-level operation a run, a source update or a deletion performs
  (Appendix A of DESIGN.md: lemmas U, S′, B, B′, C in one perturbation lemma).
-/
namespace Uberjob.Cache
open Uberjob.Gen.Stale

/-! ### facts about the GENERATED stale condition (re-proved against the current source on every run) -/

theorem safeMax_three (mt : Int) (anc fresh : Option Int) :
    safeMax [some mt, anc, fresh] = some (match anc, fresh with
      | none, none => mt
      | some a, none => if mt < a then a else mt
      | none, some f => if mt < f then f else mt
      | some a, some f => if mt < (if a < f then f else a) then (if a < f then f else a) else mt) := by
  cases anc <;> cases fresh <;> simp [safeMax]

/-- Without `fresh_time`, a stored value with modified time `mt` is out of date exactly when a timed
    ancestor is newer. -/
theorem staleCond_none_iff (mt : Int) (anc : Option Int) (s : Bool) :
    staleCond mt anc none s = true ↔ ∃ a, anc = some a ∧ mt < a := by
  unfold staleCond
  rw [safeMax_three]
  cases anc with
  | none => simp [optGt]
  | some a =>
    simp only [optGt, Option.isSome_some, Bool.true_or, Bool.true_and, decide_eq_true_eq]
    constructor
    · intro h; refine ⟨a, rfl, ?_⟩; split at h <;> omega
    · rintro ⟨b, hb, hlt⟩; cases hb; simp [hlt]

/-- A newer timed ancestor makes a stored value out of date whatever `fresh_time` is. -/
theorem staleCond_of_newer_anc (mt a : Int) (f : Option Int) (s : Bool) (h : mt < a) :
    staleCond mt (some a) f s = true := by
  unfold staleCond
  rw [safeMax_three]
  cases f with
  | none => simp [optGt, h]
  | some f =>
    simp only [optGt, Option.isSome_some, Bool.true_or, Bool.true_and, decide_eq_true_eq]
    repeat' split
    all_goals omega

/-- The condition is monotone in `fresh_time`: dropping it can only make fewer things out of date. -/
theorem staleCond_mono_fresh (mt : Int) (anc f : Option Int) (s : Bool)
    (h : staleCond mt anc none s = true) : staleCond mt anc f s = true := by
  obtain ⟨a, ha, hlt⟩ := (staleCond_none_iff mt anc s).mp h
  subst ha; exact staleCond_of_newer_anc mt a f s hlt

theorem safeMax_mem {l : List (Option Int)} {a : Int} (h : safeMax l = some a) : some a ∈ l := by
  induction l generalizing a with
  | nil => simp [safeMax] at h
  | cons x t ih =>
    cases x with
    | none => simp only [safeMax] at h; exact List.mem_cons_of_mem _ (ih h)
    | some b =>
      simp only [safeMax] at h
      split at h
      · simp at h; subst h; simp
      · next c hc =>
        simp at h
        split at h
        · subst h; exact List.mem_cons_of_mem _ (ih hc)
        · subst h; simp

theorem safeMax_ge {l : List (Option Int)} {a b : Int} (h : safeMax l = some a) (hb : some b ∈ l) : b ≤ a := by
  induction l generalizing a with
  | nil => cases hb
  | cons x t ih =>
    cases x with
    | none =>
      simp only [safeMax] at h
      rcases List.mem_cons.mp hb with h1 | h1
      · cases h1
      · exact ih h h1
    | some c =>
      simp only [safeMax] at h
      split at h
      · next hn =>
        simp at h; subst h
        rcases List.mem_cons.mp hb with h1 | h1
        · cases h1; omega
        · exfalso
          have : ∀ (l : List (Option Int)) (b : Int), some b ∈ l → safeMax l ≠ none := by
            intro l; induction l with
            | nil => intro b hb; cases hb
            | cons y t ih2 =>
              intro b hb
              cases y with
              | none =>
                simp only [safeMax]
                rcases List.mem_cons.mp hb with h2 | h2
                · cases h2
                · exact ih2 b h2
              | some d => simp only [safeMax]; split <;> simp
          exact this t b h1 hn
      · next d hd =>
        simp at h
        rcases List.mem_cons.mp hb with h1 | h1
        · cases h1; split at h <;> omega
        · have := ih hd h1; split at h <;> omega

theorem safeMax_none_iff {l : List (Option Int)} : safeMax l = none ↔ ∀ x ∈ l, x = none := by
  induction l with
  | nil => simp [safeMax]
  | cons x t ih =>
    cases x with
    | none => simp [safeMax, ih]
    | some c => simp only [safeMax]; split <;> simp

/-! ### basic consequences of the recursion equation -/

section
variable {P : LPlan} (w : World) (f : Option Int)

theorem stale_of_pred_stale (hP : P.WF) {k p : Nat} (hp : p ∈ P.preds k) (hs : isStale P w f p = true) :
    isStale P w f k = true := by
  unfold isStale at *
  rw [sres_eq hP]
  unfold staleStepF
  have : (P.preds k).any (fun p => (sres P w f p).stale) = true :=
    List.any_eq_true.mpr ⟨p, hp, hs⟩
  simp [this]

/-- Every time the stale check propagates is the modified time of some store. -/
theorem tm_is_mtime (hP : P.WF) : ∀ (k : Nat) (a : Int), (sres P w f k).tm = some a → ∃ j, w.mtime j = some a := by
  intro k
  induction k using Nat.strongRecOn with
  | ind k ih =>
    intro a h
    rw [sres_eq hP] at h
    unfold staleStepF at h
    split at h
    · cases h
    · simp only at h
      split at h
      · have hm := safeMax_mem h
        obtain ⟨p, hp, hpe⟩ := List.mem_map.mp hm
        exact ih p (hP.predsLt k p hp) a hpe
      · split at h
        · cases h
        · next mt hmt =>
          split at h
          · cases h
          · simp at h; subst h; exact ⟨k, hmt⟩

/-- A stale node carries no time. -/
theorem tm_none_of_stale (hP : P.WF) {k : Nat} (hs : isStale P w f k = true) : (sres P w f k).tm = none := by
  unfold isStale at hs
  rw [sres_eq hP] at hs ⊢
  unfold staleStepF at hs ⊢
  split
  · rfl
  · simp only at hs ⊢
    rename_i hany
    simp only [hany] at hs
    split <;> simp_all
    split <;> simp_all
    split <;> simp_all
end

end Uberjob.Cache

namespace Uberjob.Cache
open Uberjob.Gen.Stale

theorem staleStepF_congr {P : LPlan} {w w' : World} {f : Option Int} {r r' : Nat → SRes} {k : Nat}
    (hr : ∀ p ∈ P.preds k, r p = r' p) (hm : w.mtime k = w'.mtime k) :
    staleStepF P w f r k = staleStepF P w' f r' k := by
  unfold staleStepF
  have h1 : (P.preds k).any (fun p => (r p).stale) = (P.preds k).any (fun p => (r' p).stale) :=
    any_congr_mem (fun p hp => by rw [hr p hp])
  have h2 : (P.preds k).map (fun p => (r p).tm) = (P.preds k).map (fun p => (r' p).tm) :=
    List.map_congr_left (fun p hp => by rw [hr p hp])
  rw [h1, h2, hm]

theorem safeMax_eq_of_top {l : List (Option Int)} {t : Int} (hm : some t ∈ l)
    (hle : ∀ b, some b ∈ l → b ≤ t) : safeMax l = some t := by
  cases h : safeMax l with
  | none => have := safeMax_none_iff.mp h (some t) hm; cases this
  | some m =>
    have h1 := hle m (safeMax_mem h)
    have h2 := safeMax_ge h hm
    have : m = t := by omega
    rw [this]

/-- `w'` differs from `w` only at store `i`. -/
def Agree (w w' : World) (i : Nat) : Prop := ∀ j, j ≠ i → w'.st j = w.st j

def Class1 (P : LPlan) (w w' : World) (f : Option Int) (j : Nat) : Prop :=
  sres P w' f j = sres P w f j ∧ FS P w' j = FS P w j

def Hot (P : LPlan) (w' : World) (f : Option Int) (t : Int) (j : Nat) : Prop :=
  (sres P w' f j).stale = false ∧ (sres P w' f j).tm = some t

/-- **Perturbation lemma.**  Change one store `i` so that node `i` becomes either out of date or carries a
    time `t` newer than everything else.  Then every node is unaffected (same stale-check result, same
    from-scratch value), or out of date, or an UNREGISTERED node carrying `t` (or `i` itself). -/
theorem perturb {P : LPlan} (hP : P.WF) {w w' : World} {f : Option Int} {i : Nat} {t : Int}
    (hag : Agree w w' i) (hbelow : w.below t)
    (hi : isStale P w' f i = true ∨ Hot P w' f t i) :
    ∀ j, Class1 P w w' f j ∨ isStale P w' f j = true ∨ (Hot P w' f t j ∧ (j = i ∨ P.reg j = none)) := by
  intro j
  induction j using Nat.strongRecOn with
  | ind j ih =>
    by_cases hji : j = i
    · subst hji
      rcases hi with h | h
      · right; left; exact h
      · right; right; exact ⟨h, Or.inl rfl⟩
    · have hst : w'.st j = w.st j := hag j hji
      have hmt : w'.mtime j = w.mtime j := by unfold World.mtime; rw [hst]
      have hct : w'.content j = w.content j := by unfold World.content; rw [hst]
      by_cases hB : ∃ p ∈ P.preds j, isStale P w' f p = true
      · obtain ⟨p, hp, hps⟩ := hB
        right; left; exact stale_of_pred_stale w' f hP hp hps
      · have hnoStale : ∀ p ∈ P.preds j, isStale P w' f p = false := by
          intro p hp
          cases h : isStale P w' f p with
          | false => rfl
          | true => exact absurd ⟨p, hp, h⟩ hB
        by_cases hA : ∀ p ∈ P.preds j, Class1 P w w' f p
        · left
          constructor
          · rw [sres_eq hP w' f j, sres_eq hP w f j]
            exact staleStepF_congr (fun p hp => (hA p hp).1) hmt
          · rw [FS_eq hP w' j, FS_eq hP w j, hct]
            have : (P.args j).map (FS P w') = (P.args j).map (FS P w) :=
              List.map_congr_left (fun p hp => (hA p (hP.argsSub j p hp)).2)
            rw [this]
        · -- some predecessor is hot, none is stale
          have hex : ∃ p ∈ P.preds j, Hot P w' f t p := by
            apply Classical.byContradiction
            intro hne
            apply hA
            intro p hp
            rcases ih p (hP.predsLt j p hp) with h1 | h1 | h1
            · exact h1
            · rw [hnoStale p hp] at h1; cases h1
            · exact absurd ⟨p, hp, h1.1⟩ hne
          obtain ⟨q, hq, hqhot⟩ := hex
          have hanc : safeMax ((P.preds j).map (fun p => (sres P w' f p).tm)) = some t := by
            apply safeMax_eq_of_top
            · exact List.mem_map.mpr ⟨q, hq, hqhot.2⟩
            · intro b hb
              obtain ⟨p, hp, hpe⟩ := List.mem_map.mp hb
              rcases ih p (hP.predsLt j p hp) with h1 | h1 | h1
              · rw [h1.1] at hpe
                obtain ⟨k, hk⟩ := tm_is_mtime w f hP p b hpe
                exact Int.le_of_lt (hbelow k b hk)
              · rw [hnoStale p hp] at h1; cases h1
              · rw [h1.1.2] at hpe; cases hpe; exact Int.le_refl _
          have hany : (P.preds j).any (fun p => (sres P w' f p).stale) = false := by
            apply List.any_eq_false.mpr
            intro p hp
            have := hnoStale p hp
            unfold isStale at this
            simp [this]
          have hrec := sres_eq hP w' f j
          unfold staleStepF at hrec
          simp only [hany, hanc] at hrec
          cases hreg : P.reg j with
          | none =>
            right; right
            rw [hreg] at hrec
            simp only [Bool.false_eq_true, if_false] at hrec
            refine ⟨⟨?_, ?_⟩, Or.inr rfl⟩ <;> rw [hrec]
          | some s =>
            right; left
            rw [hreg] at hrec
            simp only [Bool.false_eq_true, if_false] at hrec
            unfold isStale
            rw [hrec]
            cases hm : w'.mtime j with
            | none => rfl
            | some mt =>
              have : mt < t := hbelow j mt (by rw [← hmt]; exact hm)
              simp [staleCond_of_newer_anc mt t f s this]

end Uberjob.Cache
