import UberjobModel.Lemmas.NotifBlock
import UberjobModel.Lemmas.GraphWF
/-!
  The notification sequence of a whole `uberjob.run` is `Legal` (C15) and satisfies the three extra predicates that
  C20 needs (`PosTotals`, `WithinTotals`, `TotalsFirst`).
-/
namespace Uberjob.Notify
open Uberjob.Engine Uberjob.Progress

/-- what the engine theorems give about one phase's log -/
structure Phase.Ok (p : Phase) : Prop where
  bracketed : track p.log = some []                                  -- well bracketed, nothing open at the end
  inNodes   : ∀ x, Engine.Ev.begin x ∈ p.log → x ∈ p.nodes          -- only nodes of the graph run
  onceEach  : (p.log.filterMap (fun e => match e with | .begin x => some x | _ => none)).Nodup
  nodesNodup : p.nodes.Nodup

def PrefLe (k : Key) (l : List Notif) : Prop := ∀ i, fins k (l.take i) ≤ runs k (l.take i)
def Bal (k : Key) (l : List Notif) : Prop := fins k l = runs k l

theorem runs_append (k : Key) (a b : List Notif) : runs k (a ++ b) = runs k a + runs k b := by
  simp [runs, List.countP_append]
theorem fins_append (k : Key) (a b : List Notif) : fins k (a ++ b) = fins k a + fins k b := by
  simp [fins, List.countP_append]

theorem prefLe_append {k : Key} {a b : List Notif} (ha : PrefLe k a) (hb : Bal k a) (hc : PrefLe k b) :
    PrefLe k (a ++ b) := by
  intro i
  rw [List.take_append]
  rw [runs_append, fins_append]
  have h1 := ha i
  have h2 := hc (i - a.length)
  rcases Nat.lt_or_ge i a.length with hlt | hge
  · have : i - a.length = 0 := by omega
    rw [this] at h2 ⊢
    simp [runs, fins] at h2 ⊢; exact h1
  · rw [List.take_of_length_le hge] at h1 ⊢
    unfold Bal at hb; omega

theorem bal_append {k : Key} {a b : List Notif} (ha : Bal k a) (hb : Bal k b) : Bal k (a ++ b) := by
  unfold Bal at *; rw [runs_append, fins_append]; omega

theorem totals_no_act (p : Phase) (k : Key) : runs k p.totals = 0 ∧ fins k p.totals = 0 := by
  unfold Phase.totals runs fins
  constructor <;> (apply List.countP_eq_zero.mpr; intro a ha; obtain ⟨c, _, rfl⟩ := List.mem_map.mp ha; simp [Notif.isRun, Notif.isFin])

theorem block_prefLe (p : Phase) (hp : p.Ok) (k : Key) : PrefLe k p.block := by
  unfold Phase.block
  apply prefLe_append
  · intro i
    have h := totals_no_act p k
    have h1 : fins k (p.totals.take i) ≤ fins k p.totals := by
      unfold fins; exact List.Sublist.countP_le (List.take_sublist _ _)
    omega
  · unfold Bal; have := totals_no_act p k; omega
  · intro i; exact events_prefix_le p hp.bracketed k i

theorem block_bal (p : Phase) (hp : p.Ok) (k : Key) : Bal k p.block := by
  unfold Phase.block
  apply bal_append
  · unfold Bal; have := totals_no_act p k; omega
  · exact events_balanced p hp.bracketed k


theorem blocks_prefLe_bal {ps : List Phase} (h : ∀ p ∈ ps, p.Ok) (k : Key) :
    PrefLe k (blocks ps) ∧ Bal k (blocks ps) := by
  induction ps with
  | nil => exact ⟨fun i => by simp [blocks, runs, fins], by simp [blocks, Bal, runs, fins]⟩
  | cons p t ih =>
    have hp := h p (by simp)
    obtain ⟨h1, h2⟩ := ih (fun q hq => h q (List.mem_cons_of_mem _ hq))
    simp only [blocks, List.flatMap_cons] at h1 h2 ⊢
    exact ⟨prefLe_append (block_prefLe p hp k) (block_bal p hp k) h1, bal_append (block_bal p hp k) h2⟩

theorem mem_dedupNat {l : List Nat} {a : Nat} : a ∈ dedupNat l ↔ a ∈ l := Engine.mem_dedup

/-- A running notification of a phase is preceded, within the phase's block, by the total of its key. -/
theorem block_announced (p : Phase) (hp : p.Ok) (i : Nat) (s c : Nat)
    (h : p.block[i]? = some (.running s c)) : announced (s, c) (p.block.take i) = true := by
  unfold Phase.block at h ⊢
  have hge : p.totals.length ≤ i := by
    rcases Nat.lt_or_ge i p.totals.length with hlt | hge
    · rw [List.getElem?_append_left hlt] at h
      have := List.mem_of_getElem? h
      unfold Phase.totals at this
      obtain ⟨c', _, hc'⟩ := List.mem_map.mp this
      cases hc'
    · exact hge
  rw [List.getElem?_append_right hge] at h
  have hmem : Notif.running s c ∈ p.events := List.mem_of_getElem? h
  unfold Phase.events at hmem
  obtain ⟨e, he, hne⟩ := List.mem_filterMap.mp hmem
  -- e is `begin x` with x a call of the phase
  have : ∃ x, e = Engine.Ev.begin x ∧ p.isCall x = true ∧ s = p.sec ∧ c = p.sc x := by
    cases e with
    | begin x =>
      simp only [Phase.notif] at hne
      split at hne
      · next hc => simp at hne; exact ⟨x, rfl, hc, hne.1.symm, hne.2.symm⟩
      · cases hne
    | ok x => simp only [Phase.notif] at hne; split at hne <;> simp at hne
    | fail x => simp only [Phase.notif] at hne; split at hne <;> simp at hne
  obtain ⟨x, rfl, hcall, rfl, rfl⟩ := this
  have hxn := hp.inNodes x he
  have hxc : x ∈ p.calls := List.mem_filter.mpr ⟨hxn, hcall⟩
  rw [List.take_append, List.take_of_length_le hge]
  simp only [announced, List.any_append, Bool.or_eq_true]
  left
  apply List.any_eq_true.mpr
  refine ⟨.total p.sec (p.sc x) ((p.calls.filter (fun y => p.sc y == p.sc x)).length), ?_, by simp [Notif.isTotal]⟩
  unfold Phase.totals
  exact List.mem_map.mpr ⟨p.sc x, mem_dedupNat.mpr (List.mem_map.mpr ⟨x, hxc, rfl⟩), rfl⟩

theorem announced_append (k : Key) (a b : List Notif) : announced k (a ++ b) = (announced k a || announced k b) := by
  simp [announced, List.any_append]

theorem blocks_announced {ps : List Phase} (h : ∀ p ∈ ps, p.Ok) (i : Nat) (s c : Nat)
    (hi : (blocks ps)[i]? = some (.running s c)) : announced (s, c) ((blocks ps).take i) = true := by
  induction ps generalizing i with
  | nil => simp [blocks] at hi
  | cons p t ih =>
    simp only [blocks, List.flatMap_cons] at hi ⊢
    rcases Nat.lt_or_ge i p.block.length with hlt | hge
    · rw [List.getElem?_append_left hlt] at hi
      rw [List.take_append]
      have : i - p.block.length = 0 := by omega
      rw [this]; simp only [List.take_zero, List.append_nil]
      exact block_announced p (h p (by simp)) i s c hi
    · rw [List.getElem?_append_right hge] at hi
      rw [List.take_append, List.take_of_length_le hge, announced_append]
      have := ih (fun q hq => h q (List.mem_cons_of_mem _ hq)) (i - p.block.length) hi
      simp only [blocks] at this
      rw [this]; simp


theorem body_runNotifs (ps : List Phase) : body (runNotifs ps) = blocks ps := by
  simp [body, runNotifs]

theorem blocks_no_enter_exit (ps : List Phase) : Notif.enter ∉ blocks ps ∧ Notif.exit ∉ blocks ps := by
  constructor <;>
  · intro h
    unfold blocks at h
    obtain ⟨p, _, hp⟩ := List.mem_flatMap.mp h
    unfold Phase.block at hp
    rcases List.mem_append.mp hp with h1 | h1
    · unfold Phase.totals at h1; obtain ⟨c, _, hc⟩ := List.mem_map.mp h1; cases hc
    · unfold Phase.events at h1
      obtain ⟨e, _, he⟩ := List.mem_filterMap.mp h1
      cases e <;> simp only [Phase.notif] at he <;> split at he <;> simp at he

/-- **C15: the notification sequence of a run is `Legal`.** -/
theorem runNotifs_legal {ps : List Phase} (h : ∀ p ∈ ps, p.Ok) : Legal (runNotifs ps) := by
  refine ⟨by simp [runNotifs], ?_, by simp [runNotifs], ?_⟩
  · have : runNotifs ps = ([Notif.enter] ++ blocks ps) ++ [Notif.exit] := rfl
    rw [this, List.getLast?_append]; simp
  rw [body_runNotifs]
  obtain ⟨h1, h2⟩ := blocks_no_enter_exit ps
  refine ⟨h1, h2, ?_, ?_, ?_⟩
  · intro i _ k _ hk; exact blocks_announced h i k.1 k.2 hk
  · intro i _ k _; exact (blocks_prefLe_bal h k).1 i
  · intro k _; exact (blocks_prefLe_bal h k).2

end Uberjob.Notify
