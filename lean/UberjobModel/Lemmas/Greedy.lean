import UberjobModel.Model.Greedy
/-!
  `pred_search` terminates, visits nothing twice, and on a DAG reaches every node: every node has a priority of its own in
  `[0, n)`, none shares the priority of the DONE sentinel.
-/
namespace Uberjob.Greedy

/-- weight of the nodes of `L` not yet visited: one step to visit each, plus one per stack entry it pushes -/
def rem (preds : Nat → List Nat) : List Nat → List Nat → Nat
  | [], _ => 0
  | a :: L, out => (if a ∈ out then 0 else (preds a).length + 1) + rem preds L out

theorem rem_skip (preds : Nat → List Nat) (L out : List Nat) (x : Nat) (hx : x ∉ L) : rem preds L (x :: out) = rem preds L out := by
  induction L with
  | nil => rfl
  | cons a L ih =>
    have ha : a ≠ x := fun e => hx (e ▸ List.mem_cons_self ..)
    have hxL : x ∉ L := fun h => hx (List.mem_cons_of_mem _ h)
    simp only [rem, List.mem_cons, ha, false_or, ih hxL]

theorem rem_visit (preds : Nat → List Nat) (L out : List Nat) (x : Nat) (hL : L.Nodup) (hx : x ∈ L) (hxo : x ∉ out) :
    rem preds L (x :: out) + ((preds x).length + 1) = rem preds L out := by
  induction L with
  | nil => cases hx
  | cons a L ih =>
    have hnd := List.nodup_cons.mp hL
    by_cases hax : a = x
    · subst hax
      simp only [rem, List.mem_cons, true_or, if_true, hxo, if_false, rem_skip preds L out a hnd.1]
      omega
    · have hxL : x ∈ L := by
        rcases List.mem_cons.mp hx with h | h
        · exact absurd h.symm hax
        · exact h
      have := ih hnd.2 hxL
      simp only [rem, List.mem_cons, hax, false_or]
      omega

structure Inv (g : Gr) (stack out : List Nat) : Prop where
  stackLt : ∀ x ∈ stack, x < g.n
  outLt : ∀ x ∈ out, x < g.n
  nodup : out.Nodup
  closed : ∀ v ∈ out, ∀ p ∈ g.preds v, p ∈ out ∨ p ∈ stack

/-- `pred_search` ends (within `stack.length + rem` steps), with every node it was asked about and all their predecessors,
    each once -/
theorem search_ok (g : Gr) (hp : ∀ v, v < g.n → ∀ p ∈ g.preds v, p < g.n) :
    ∀ (fuel : Nat) (stack out : List Nat), Inv g stack out → stack.length + rem g.preds (List.range g.n) out < fuel + 1 →
    ∃ r, search g.preds fuel stack out = some r ∧ r.Nodup ∧ (∀ x ∈ r, x < g.n) ∧ (∀ x ∈ out, x ∈ r) ∧ (∀ x ∈ stack, x ∈ r) ∧
      (∀ v ∈ r, ∀ p ∈ g.preds v, p ∈ r) := by
  intro fuel
  induction fuel with
  | zero =>
    intro stack out I hf
    cases stack with
    | nil =>
      refine ⟨out, rfl, I.nodup, I.outLt, fun _ h => h, (fun _ h => by cases h), ?_⟩
      intro v hv p hp'
      rcases I.closed v hv p hp' with h | h
      · exact h
      · cases h
    | cons x rest => simp at hf
  | succ f ih =>
    intro stack out I hf
    cases stack with
    | nil =>
      refine ⟨out, by simp [search], I.nodup, I.outLt, fun _ h => h, (fun _ h => by cases h), ?_⟩
      intro v hv p hp'
      rcases I.closed v hv p hp' with h | h
      · exact h
      · cases h
    | cons x rest =>
      by_cases hx : x ∈ out
      · have I' : Inv g rest out := ⟨fun y hy => I.stackLt y (List.mem_cons_of_mem _ hy), I.outLt, I.nodup, by
          intro v hv p hp'
          rcases I.closed v hv p hp' with h | h
          · exact Or.inl h
          · rcases List.mem_cons.mp h with rfl | h
            · exact Or.inl hx
            · exact Or.inr h⟩
        obtain ⟨r, hr, h1, h2, h3, h4, h5⟩ := ih rest out I' (by simp at hf ⊢; omega)
        refine ⟨r, by simp [search, hx, hr], h1, h2, h3, ?_, h5⟩
        intro y hy
        rcases List.mem_cons.mp hy with rfl | hy
        · exact h3 _ hx
        · exact h4 y hy
      · have hxn : x < g.n := I.stackLt x (List.mem_cons_self ..)
        have I' : Inv g ((g.preds x).reverse ++ rest) (x :: out) := ⟨by
            intro y hy
            rcases List.mem_append.mp hy with hy | hy
            · exact hp x hxn y (List.mem_reverse.mp hy)
            · exact I.stackLt y (List.mem_cons_of_mem _ hy), by
            intro y hy
            rcases List.mem_cons.mp hy with rfl | hy
            · exact hxn
            · exact I.outLt y hy, List.nodup_cons.mpr ⟨hx, I.nodup⟩, by
            intro v hv p hp'
            rcases List.mem_cons.mp hv with rfl | hv
            · exact Or.inr (List.mem_append.mpr (Or.inl (List.mem_reverse.mpr hp')))
            · rcases I.closed v hv p hp' with h | h
              · exact Or.inl (List.mem_cons_of_mem _ h)
              · rcases List.mem_cons.mp h with rfl | h
                · exact Or.inl (List.mem_cons_self ..)
                · exact Or.inr (List.mem_append.mpr (Or.inr h))⟩
        have hrem := rem_visit g.preds (List.range g.n) out x List.nodup_range (List.mem_range.mpr hxn) hx
        obtain ⟨r, hr, h1, h2, h3, h4, h5⟩ := ih _ _ I' (by
          simp only [List.length_append, List.length_reverse, List.length_cons] at hf ⊢
          omega)
        refine ⟨r, by simp [search, hx, hr], h1, h2, fun y hy => h3 y (List.mem_cons_of_mem _ hy), ?_, h5⟩
        intro y hy
        rcases List.mem_cons.mp hy with rfl | hy
        · exact h3 _ (List.mem_cons_self ..)
        · exact h4 y (List.mem_append.mpr (Or.inr hy))

theorem rem_nil (g : Gr) : ∀ L : List Nat, rem g.preds L [] = (L.map (fun v => (g.preds v).length)).sum + L.length
  | [] => rfl
  | a :: L => by simp only [rem, List.not_mem_nil, if_false, rem_nil g L, List.map_cons, List.sum_cons, List.length_cons]; omega

end Uberjob.Greedy

namespace Uberjob.Greedy

theorem nodup_rev (l : List Nat) (h : l.Nodup) : l.reverse.Nodup := by
  unfold List.Nodup at *
  rw [List.pairwise_reverse]
  exact h.imp (fun h => h.symm)

/-- a DAG, presented with a topological numbering of its nodes `0 … n-1` -/
structure Gr.WF (g : Gr) : Prop where
  predsLt : ∀ v, v < g.n → ∀ p ∈ g.preds v, p < v
  argPred : ∀ u v, g.arg u v = true → v < g.n ∧ u ∈ g.preds v

theorem order_total (g : Gr) (hg : g.WF) (sinks : List Nat) (hs1 : ∀ x ∈ sinks, x < g.n)
    (hs2 : ∀ u, u < g.n → g.isSink u = true → u ∈ sinks) :
    ∃ o, order g sinks = some o ∧ o.Nodup ∧ ∀ v, v ∈ o ↔ v < g.n := by
  have hp : ∀ v, v < g.n → ∀ p ∈ g.preds v, p < g.n := fun v hv p hp => Nat.lt_trans (hg.predsLt v hv p hp) hv
  have I : Inv g sinks [] := ⟨hs1, (fun _ h => by cases h), List.nodup_nil, (fun _ h => by cases h)⟩
  have hb : sinks.length + rem g.preds (List.range g.n) [] < g.fuel sinks + 1 := by
    rw [rem_nil g (List.range g.n), List.length_range]
    simp only [Gr.fuel, Gr.edges]
    omega
  obtain ⟨r, hr, h1, h2, _, h4, h5⟩ := search_ok g hp (g.fuel sinks) sinks [] I hb
  have hall : ∀ k u, g.n - u = k → u < g.n → u ∈ r := by
    intro k
    induction k using Nat.strongRecOn with
    | ind k ih =>
      intro u hk hu
      by_cases hsk : g.isSink u = true
      · exact h4 u (hs2 u hu hsk)
      · have hex : ∃ v, v < g.n ∧ g.arg u v = true := by
          apply Classical.byContradiction
          intro hne
          apply hsk
          simp only [Gr.isSink, List.all_eq_true, List.mem_range, Bool.not_eq_true']
          intro v hv
          cases hav : g.arg u v
          · rfl
          · exact absurd ⟨v, hv, hav⟩ hne
        obtain ⟨v, _, hv⟩ := hex
        obtain ⟨hvn, hup⟩ := hg.argPred u v hv
        have huv := hg.predsLt v hvn u hup
        exact h5 v (ih (g.n - v) (by omega) v rfl hvn) u hup
  refine ⟨r.reverse, by simp [order, hr], (nodup_rev r h1), fun v => ⟨fun hv => h2 v (List.mem_reverse.mp hv), fun hv => List.mem_reverse.mpr (hall _ v rfl hv)⟩⟩

end Uberjob.Greedy
