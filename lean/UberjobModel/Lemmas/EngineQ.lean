import UberjobModel.Model.EngineQ
import UberjobModel.Lemmas.EngineLive
import UberjobModel.Lemmas.EngineMeasure
import UberjobModel.Lemmas.EngineRefine
/-!
  `Model/EngineQ.lean` (sleeping and waking in `queue.Queue`) against the coarse engine model:

  * every step of the wake-up model is a step of the coarse model or leaves the coarse state alone (`stepQ_coarse`), so every
    reachable state of it projects to a reachable coarse state (`reachQ_reach`) and every safety theorem carries over;
  * NO LOST WAKE-UP (`q_progress`): in every reachable state in which `run_function_on_graph` has not returned, some
    thread that is not asleep can take a step — although sleepers never poll and only `put` / `task_done` wake anybody;
  * every run of the wake-up model is finite (`muQ_decreases`).
-/
namespace Uberjob.EngineQ
open Uberjob.Engine
open Uberjob.Gen.Engine
open Uberjob.EngineFine (labelWorker step_ws_frame)

/-! ### what a coarse step does to the fields the wake-up protocol looks at -/

theorem get_frame {g : Graph} {cfg : Cfg} {c c' : St} {w : Nat} {i : Item} (h : step? g cfg c (.get w i) = some c') :
    c.ws[w]? = some W.idle ∧ c'.ws = c.ws.set w (.held i) ∧ c'.queue.length + 1 = c.queue.length ∧ c'.coord = c.coord ∧
      c'.unfinished = c.unfinished := by
  simp only [step?, setW] at h
  split at h
  · next hw =>
    split at h
    · next hi =>
      cases h
      refine ⟨hw, rfl, ?_, rfl, rfl⟩
      simp only [List.length_erase_of_mem hi]
      have := List.length_pos_of_mem hi
      omega
    · cases h
  · cases h

/-- A worker that is idle stays idle under every step except its own `get`. -/
theorem idle_keep {g : Graph} {cfg : Cfg} {c c' : St} {l : Label} (h : step? g cfg c l = some c')
    (hl : ∀ w i, l ≠ .get w i) {w : Nat} (hw : c.ws[w]? = some W.idle) : c'.ws[w]? = some W.idle := by
  by_cases hlw : labelWorker l = some w
  · exfalso
    cases l <;> simp only [labelWorker, Option.some.injEq, reduceCtorEq] at hlw
    case get w' i => exact hl w' i rfl
    all_goals
      subst hlw
      simp only [step?, hw] at h
      cases h
  · exact step_ws_frame h hlw hw

theorem base_frame {g : Graph} {cfg : Cfg} {c c' : St} {l : Label} (hb : isBase l = true) (h : step? g cfg c l = some c') :
    c'.queue = c.queue ∧ c'.unfinished = c.unfinished ∧ (c.coord = .waiting → c'.coord = .waiting) := by
  cases l <;> simp only [isBase, Bool.false_eq_true] at hb <;> simp only [step?, setW] at h
  all_goals
    repeat' split at h
    all_goals first
      | (cases h; exact ⟨rfl, rfl, fun hc => hc⟩)
      | (cases h; refine ⟨rfl, rfl, fun hc => ?_⟩; simp_all)
      | cases h

theorem put_frame {g : Graph} {cfg : Cfg} {c c' : St} {l : Label} (hb : isPut l = true) (h : step? g cfg c l = some c') :
    (c'.queue.length = c.queue.length ∨ c'.queue.length = c.queue.length + 1) ∧ c.unfinished ≤ c'.unfinished ∧
      (c.coord = .waiting → c'.coord = .waiting) := by
  cases l <;> simp only [isPut, Bool.false_eq_true] at hb <;> simp only [step?, setW] at h
  all_goals
    repeat' split at h
    all_goals first
      | (cases h; refine ⟨?_, ?_, fun hc => ?_⟩ <;> simp_all)
      | cases h

theorem taskDone_frame {g : Graph} {cfg : Cfg} {c c' : St} {w : Nat} (h : step? g cfg c (.taskDone w) = some c') :
    c'.queue = c.queue ∧ c'.coord = c.coord := by
  simp only [step?, setW] at h
  repeat' split at h
  all_goals first | (cases h; exact ⟨rfl, rfl⟩) | cases h

/-! ### refinement -/

theorem stepQ_coarse {g : Graph} {cfg : Cfg} {s s' : StQ} {l : LabelQ} (h : stepQ? g cfg s l = some s') :
    s'.c = s.c ∨ ∃ l1, step? g cfg s.c l1 = some s'.c := by
  cases l <;> simp only [stepQ?] at h
  case base l =>
    split at h
    · obtain ⟨c', hc', rfl⟩ := Option.map_eq_some_iff.mp h
      exact Or.inr ⟨l, hc'⟩
    · cases h
  case getTake w i =>
    split at h
    · cases h
    · obtain ⟨c', hc', rfl⟩ := Option.map_eq_some_iff.mp h
      exact Or.inr ⟨_, hc'⟩
  case getSleep w =>
    split at h
    · cases h; exact Or.inl rfl
    · cases h
  case put l v =>
    split at h
    · split at h
      · cases h
      · next c' hc' =>
        repeat' split at h
        all_goals first | (cases h; exact Or.inr ⟨l, hc'⟩) | cases h
    · cases h
  case taskDone w =>
    obtain ⟨c', hc', rfl⟩ := Option.map_eq_some_iff.mp h
    exact Or.inr ⟨_, hc'⟩
  case joinTake =>
    split at h
    · cases h
    · obtain ⟨c', hc', rfl⟩ := Option.map_eq_some_iff.mp h
      exact Or.inr ⟨_, hc'⟩
  case joinSleep =>
    split at h
    · cases h; exact Or.inl rfl
    · cases h
  case interrupt =>
    obtain ⟨c', hc', rfl⟩ := Option.map_eq_some_iff.mp h
    exact Or.inr ⟨_, hc'⟩

theorem reachQ_reach {g : Graph} {cfg : Cfg} {s : StQ} (h : ReachQ g cfg s) : Reach g cfg s.c := by
  induction h with
  | init => exact Reach.init
  | step l _ hs ih =>
    rcases stepQ_coarse hs with h1 | ⟨l1, h1⟩
    · rw [h1]; exact ih
    · exact Reach.step l1 ih h1

/-! ### the wake-up invariant -/

structure QInv (s : StQ) : Prop where
  slIdle  : ∀ w ∈ s.sleep, s.c.ws[w]? = some W.idle
  wkIdle  : ∀ w ∈ s.woken, s.c.ws[w]? = some W.idle
  wkNotSl : ∀ w ∈ s.woken, w ∉ s.sleep
  wkNodup : s.woken.Nodup
  /-- as long as anybody sleeps, every queued item has a notified worker on its way to it -/
  q1      : s.sleep ≠ [] → s.c.queue.length ≤ s.woken.length
  /-- the calling thread sleeps only while tasks are unfinished -/
  q2      : s.cs = .asleep → s.c.unfinished ≠ 0 ∧ s.c.coord = .waiting

theorem qinv_init (g : Graph) : QInv (initQ g) := by
  constructor <;> simp [initQ]

theorem mem_erase_ne {l : List Nat} (hd : l.Nodup) {a b : Nat} (h : a ∈ l.erase b) : a ∈ l ∧ a ≠ b := by
  rw [hd.mem_erase_iff] at h
  exact ⟨h.2, h.1⟩

theorem qinv_step {g : Graph} {cfg : Cfg} {s s' : StQ} {l : LabelQ} (hi : QInv s) (h : stepQ? g cfg s l = some s') :
    QInv s' := by
  cases l <;> simp only [stepQ?] at h
  case base l =>
    split at h
    · next hb =>
      obtain ⟨c', hc', rfl⟩ := Option.map_eq_some_iff.mp h
      have hnl : ∀ w i, l ≠ .get w i := by intro w i hh; subst hh; simp [isBase] at hb
      obtain ⟨f1, f2, f3⟩ := base_frame hb hc'
      exact ⟨fun w hw => idle_keep hc' hnl (hi.slIdle w hw), fun w hw => idle_keep hc' hnl (hi.wkIdle w hw), hi.wkNotSl,
        hi.wkNodup, fun hs => by simpa [f1] using hi.q1 hs,
        fun ha => by simpa [f2] using ⟨(hi.q2 ha).1, f3 (hi.q2 ha).2⟩⟩
    · cases h
  case getTake w i =>
    split at h
    · cases h
    · next hns =>
      obtain ⟨c', hc', rfl⟩ := Option.map_eq_some_iff.mp h
      obtain ⟨f0, f1, f2, f3, f4⟩ := get_frame hc'
      have keep : ∀ w', w' ≠ w → s.c.ws[w']? = some W.idle → c'.ws[w']? = some W.idle := by
        intro w' hne hw'
        rw [f1, List.getElem?_set_ne (Ne.symm hne)]; exact hw'
      refine ⟨fun w' hw' => keep w' (fun hh => hns (hh ▸ hw')) (hi.slIdle w' hw'), ?_, ?_, hi.wkNodup.erase w, ?_, ?_⟩
      · intro w' hw'
        obtain ⟨h1, h2⟩ := mem_erase_ne hi.wkNodup hw'
        exact keep w' h2 (hi.wkIdle w' h1)
      · intro w' hw'
        exact hi.wkNotSl w' (mem_erase_ne hi.wkNodup hw').1
      · intro hs
        have := hi.q1 hs
        simp only at hs ⊢
        by_cases hm : w ∈ s.woken
        · rw [List.length_erase_of_mem hm]
          have := List.length_pos_of_mem hm
          omega
        · rw [List.erase_of_not_mem hm]; omega
      · intro ha
        simp only at ha ⊢
        rw [f3, f4]; exact hi.q2 ha
  case getSleep w =>
    split at h
    · next hg =>
      cases h
      obtain ⟨hw, hns, hq⟩ := hg
      refine ⟨?_, ?_, ?_, hi.wkNodup.erase w, ?_, hi.q2⟩
      · intro w' hw'
        rcases List.mem_cons.mp hw' with h1 | h1
        · subst h1; exact hw
        · exact hi.slIdle w' h1
      · intro w' hw'
        exact hi.wkIdle w' (mem_erase_ne hi.wkNodup hw').1
      · intro w' hw' hm
        obtain ⟨h1, h2⟩ := mem_erase_ne hi.wkNodup hw'
        rcases List.mem_cons.mp hm with h3 | h3
        · exact h2 h3
        · exact hi.wkNotSl w' h1 h3
      · intro _; simp [hq]
    · cases h
  case put l v =>
    split at h
    · next hb =>
      split at h
      · cases h
      · next c' hc' =>
        have hnl : ∀ w i, l ≠ .get w i := by intro w i hh; subst hh; simp [isPut] at hb
        obtain ⟨f1, f2, f3⟩ := put_frame hb hc'
        have q2' : s.cs = .asleep → c'.unfinished ≠ 0 ∧ c'.coord = .waiting := by
          intro ha
          have := hi.q2 ha
          exact ⟨by omega, f3 this.2⟩
        have keepS := fun w hw => idle_keep hc' hnl (hi.slIdle w hw)
        have keepW := fun w hw => idle_keep hc' hnl (hi.wkIdle w hw)
        split at h
        · next hgrow =>
          split at h
          · next x =>
            split at h
            · next hx =>
              cases h
              refine ⟨?_, ?_, ?_, ?_, ?_, q2'⟩
              · intro w hw
                exact keepS w (List.mem_filter.mp hw).1
              · intro w hw
                rcases List.mem_cons.mp hw with h1 | h1
                · subst h1; exact keepS _ hx
                · exact keepW w h1
              · intro w hw hm
                have hm' := List.mem_filter.mp hm
                rcases List.mem_cons.mp hw with h1 | h1
                · subst h1; simp at hm'
                · exact hi.wkNotSl w h1 hm'.1
              · exact List.nodup_cons.mpr ⟨fun hm => hi.wkNotSl x hm hx, hi.wkNodup⟩
              · intro _
                have := hi.q1 (List.ne_nil_of_mem hx)
                simp only [List.length_cons]
                omega
            · cases h
          · split at h
            · next hs =>
              cases h
              exact ⟨keepS, keepW, hi.wkNotSl, hi.wkNodup, fun hne => absurd hs hne, q2'⟩
            · cases h
        · next hgrow =>
          split at h
          · cases h
            refine ⟨keepS, keepW, hi.wkNotSl, hi.wkNodup, ?_, q2'⟩
            intro hs
            have := hi.q1 hs
            simp only
            omega
          · cases h
    · cases h
  case taskDone w =>
    obtain ⟨c', hc', rfl⟩ := Option.map_eq_some_iff.mp h
    have hnl : ∀ w' i, Label.taskDone w ≠ .get w' i := by intro w' i hh; cases hh
    obtain ⟨f1, f2⟩ := taskDone_frame hc'
    refine ⟨fun w hw => idle_keep hc' hnl (hi.slIdle w hw), fun w hw => idle_keep hc' hnl (hi.wkIdle w hw), hi.wkNotSl,
      hi.wkNodup, fun hs => by simpa [f1] using hi.q1 hs, ?_⟩
    intro ha
    simp only at ha ⊢
    split at ha
    · cases ha
    · next hn =>
      have := hi.q2 ha
      refine ⟨fun h0 => hn ⟨h0, ha⟩, ?_⟩
      rw [f2]; exact this.2
  case joinTake =>
    split at h
    · cases h
    · obtain ⟨c', hc', rfl⟩ := Option.map_eq_some_iff.mp h
      have hnl : ∀ w' i, Label.joinReturn ≠ .get w' i := by intro w' i hh; cases hh
      have f1 : c'.queue = s.c.queue := by
        simp only [step?] at hc'
        repeat' split at hc'
        all_goals first | (cases hc'; rfl) | cases hc'
      exact ⟨fun w hw => idle_keep hc' hnl (hi.slIdle w hw), fun w hw => idle_keep hc' hnl (hi.wkIdle w hw), hi.wkNotSl,
        hi.wkNodup, fun hs => by simpa [f1] using hi.q1 hs, fun ha => by cases ha⟩
  case joinSleep =>
    split at h
    · next hg =>
      cases h
      exact ⟨hi.slIdle, hi.wkIdle, hi.wkNotSl, hi.wkNodup, hi.q1, fun _ => ⟨hg.2.2, hg.1⟩⟩
    · cases h
  case interrupt =>
    obtain ⟨c', hc', rfl⟩ := Option.map_eq_some_iff.mp h
    have hnl : ∀ w' i, Label.interrupt ≠ .get w' i := by intro w' i hh; cases hh
    have f1 : c'.queue = s.c.queue := by
      simp only [step?] at hc'
      repeat' split at hc'
      all_goals first | (cases hc'; rfl) | cases hc'
    exact ⟨fun w hw => idle_keep hc' hnl (hi.slIdle w hw), fun w hw => idle_keep hc' hnl (hi.wkIdle w hw), hi.wkNotSl,
      hi.wkNodup, fun hs => by simpa [f1] using hi.q1 hs, fun ha => by cases ha⟩

theorem qinv_reach {g : Graph} {cfg : Cfg} {s : StQ} (h : ReachQ g cfg s) : QInv s := by
  induction h with
  | init => exact qinv_init g
  | step l _ hs ih => exact qinv_step ih hs

/-! ### nobody asleep ever acts -/

/-- The worker a step belongs to. -/
def workerOf : LabelQ → Option Nat
  | .base l => labelWorker l
  | .getTake w _ => some w
  | .getSleep w => some w
  | .put l _ => labelWorker l
  | .taskDone w => some w
  | _ => none

/-- The steps of the calling thread (`interrupt` is not one: the signal comes from outside). -/
def byCaller : LabelQ → Bool
  | .base .spawn => true
  | .base .setStop => true
  | .base .joined => true
  | .put .putDone _ => true
  | .joinTake => true
  | .joinSleep => true
  | _ => false

/-- Sleepers do not poll: every step of the model is taken by a thread that is not asleep. -/
theorem stepQ_awake {g : Graph} {cfg : Cfg} {s s' : StQ} {l : LabelQ} (hi : QInv s) (h : stepQ? g cfg s l = some s') :
    (∀ w, workerOf l = some w → w ∉ s.sleep) ∧ (byCaller l = true → s.cs ≠ .asleep) := by
  have worker : ∀ (l0 : Label) (c' : St), step? g cfg s.c l0 = some c' → (∀ w i, l0 ≠ .get w i) →
      ∀ w, labelWorker l0 = some w → w ∉ s.sleep := by
    intro l0 c' hc' hnl w hlw hm
    have hw := hi.slIdle w hm
    cases l0 <;> simp only [labelWorker, Option.some.injEq, reduceCtorEq] at hlw
    case get w' i => exact hnl w' i rfl
    all_goals
      subst hlw
      simp only [step?, hw] at hc'
      cases hc'
  have caller : ∀ (l0 : Label) (c' : St), step? g cfg s.c l0 = some c' →
      (l0 = .spawn ∨ l0 = .setStop ∨ l0 = .joined ∨ l0 = .putDone) → s.cs ≠ .asleep := by
    intro l0 c' hc' hl0 ha
    have hw := (hi.q2 ha).2
    rcases hl0 with rfl | rfl | rfl | rfl <;> simp [step?, hw] at hc'
  cases l <;> simp only [stepQ?] at h
  case base l =>
    split at h
    · next hb =>
      obtain ⟨c', hc', rfl⟩ := Option.map_eq_some_iff.mp h
      refine ⟨worker l c' hc' (by intro w i hh; subst hh; simp [isBase] at hb), ?_⟩
      intro hc
      apply caller l c' hc'
      cases l <;> simp [byCaller] at hc ⊢
    · cases h
  case getTake w i =>
    split at h
    · cases h
    · next hns => exact ⟨fun w' hw' => by simp only [workerOf, Option.some.injEq] at hw'; subst hw'; exact hns, by simp [byCaller]⟩
  case getSleep w =>
    split at h
    · next hg => exact ⟨fun w' hw' => by simp only [workerOf, Option.some.injEq] at hw'; subst hw'; exact hg.2.1, by simp [byCaller]⟩
    · cases h
  case put l v =>
    split at h
    · next hb =>
      split at h
      · cases h
      · next c' hc' =>
        refine ⟨worker l c' hc' (by intro w i hh; subst hh; simp [isPut] at hb), ?_⟩
        intro hc
        apply caller l c' hc'
        cases l <;> simp [byCaller] at hc ⊢
    · cases h
  case taskDone w =>
    obtain ⟨c', hc', rfl⟩ := Option.map_eq_some_iff.mp h
    exact ⟨worker _ c' hc' (by intro w' i hh; cases hh), by simp [byCaller]⟩
  case joinTake =>
    split at h
    · cases h
    · next hns => exact ⟨by simp [workerOf], fun _ => hns⟩
  case joinSleep =>
    split at h
    · next hg => exact ⟨by simp [workerOf], fun _ => hg.2.1⟩
    · cases h
  case interrupt => exact ⟨by simp [workerOf], by simp [byCaller]⟩

/-! ### no lost wake-up -/

theorem put_enabled {g : Graph} {cfg : Cfg} (s : StQ) {l : Label} (hb : isPut l = true) (h : (step? g cfg s.c l).isSome) :
    ∃ v, (stepQ? g cfg s (.put l v)).isSome := by
  obtain ⟨c', hc'⟩ := Option.isSome_iff_exists.mp h
  by_cases hgrow : s.c.queue.length < c'.queue.length
  · cases hs : s.sleep with
    | nil => exact ⟨none, by simp [stepQ?, hb, hc', hgrow, hs]⟩
    | cons x t => exact ⟨some x, by simp [stepQ?, hb, hc', hgrow, hs]⟩
  · exact ⟨none, by simp [stepQ?, hb, hc', hgrow]⟩

/-- NO LOST WAKE-UP.  In every reachable state of the wake-up model in which `run_function_on_graph` has not returned,
    some step other than the external `interrupt` is enabled — and by `stepQ_awake` it is a step of a thread that is not
    asleep.  So the run never hangs with every live thread asleep in `not_empty.wait()` / `all_tasks_done.wait()`. -/
theorem q_progress {g : Graph} {cfg : Cfg} (hwk : 1 ≤ cfg.workers) {s : StQ} (hr : ReachQ g cfg s)
    (hnf : ∀ i, s.c.coord ≠ .returned i) : ∃ l, l ≠ LabelQ.interrupt ∧ (stepQ? g cfg s l).isSome := by
  have hi := qinv_reach hr
  have hrc := reachQ_reach hr
  have h2 := inv2_reach hwk hrc
  have h3 := inv3_reach hwk hrc
  -- a worker that holds an item is never asleep and can always move
  by_cases hbusy : 0 < s.c.ws.countP W.busy
  · obtain ⟨st, hst, hb⟩ := List.countP_pos_iff.mp hbusy
    obtain ⟨w, hw⟩ := List.mem_iff_getElem?.mp hst
    cases st with
    | idle => cases hb
    | exited => cases hb
    | held i =>
      refine ⟨.base (.check w), by simp, ?_⟩
      cases i with
      | done => simp [stepQ?, isBase, step?, hw]
      | node x => simp only [stepQ?, isBase, step?, hw, if_true]; split <;> simp
    | running x => exact ⟨.base (.finOk w), by simp, by simp [stepQ?, isBase, step?, hw]⟩
    | releasing x todo =>
      cases todo with
      | nil => exact ⟨.taskDone w, by simp, by simp [stepQ?, step?, hw]⟩
      | cons y t =>
        obtain ⟨v, hv⟩ := put_enabled (g := g) (cfg := cfg) s (l := .release w y) rfl (by simp [step?, hw])
        exact ⟨_, by simp, hv⟩
    | finishing b =>
      refine ⟨.taskDone w, by simp, ?_⟩
      cases b <;> simp [stepQ?, step?, hw]
  have hb0 : s.c.ws.countP W.busy = 0 := by omega
  have hpart := ws_partition s.c.ws
  have hwl := h2.wsLen
  have hd := h3.dones
  have hdone_le : s.c.ws.countP W.hasDone ≤ s.c.ws.countP W.busy := by
    apply List.countP_mono_left
    intro a _ ha; cases a <;> simp_all [W.hasDone, W.busy]
  -- if an item is queued and some worker is idle, then some idle worker that is NOT asleep can take it:
  -- either nobody sleeps, or (`q1`) a notified worker is on its way
  have idle_get : 0 < s.c.ws.countP W.isIdle → s.c.queue ≠ [] →
      ∃ l, l ≠ LabelQ.interrupt ∧ (stepQ? g cfg s l).isSome := by
    intro hidle hq
    obtain ⟨i, t, hqt⟩ := List.exists_cons_of_ne_nil hq
    cases hs : s.sleep with
    | nil =>
      obtain ⟨st, hst, hb⟩ := List.countP_pos_iff.mp hidle
      obtain ⟨w, hw⟩ := List.mem_iff_getElem?.mp hst
      cases st <;> simp [W.isIdle] at hb
      exact ⟨.getTake w i, by simp, by simp [stepQ?, hs, step?, hw, hqt]⟩
    | cons x0 t0 =>
      have hq1 := hi.q1 (by rw [hs]; simp)
      have hwk : s.woken ≠ [] := by
        intro hw0; rw [hw0, hqt] at hq1; simp at hq1
      obtain ⟨w, t1, hw1⟩ := List.exists_cons_of_ne_nil hwk
      have hwm : w ∈ s.woken := by rw [hw1]; simp
      have hw := hi.wkIdle w hwm
      have hns := hi.wkNotSl w hwm
      exact ⟨.getTake w i, by simp, by simp [stepQ?, hns, step?, hw, hqt]⟩
  cases hc : s.c.coord with
  | spawning i =>
    rw [hc] at hwl
    exact ⟨.base .spawn, by simp, by simp [stepQ?, isBase, step?, hc, hwl.2]⟩
  | waiting =>
    by_cases hu : s.c.unfinished = 0
    · have hna : s.cs ≠ .asleep := fun ha => (hi.q2 ha).1 hu
      exact ⟨.joinTake, by simp, by simp [stepQ?, hna, step?, hc, hu]⟩
    · rw [hc] at hwl hd
      simp only [donesPut] at hd
      have hunf := h3.unf
      have hq : s.c.queue ≠ [] := by
        intro hq; rw [hq] at hunf; simp at hunf; omega
      apply idle_get _ hq
      omega
  | stopping i => exact ⟨.base .setStop, by simp, by simp [stepQ?, isBase, step?, hc]⟩
  | putting k i =>
    have := h3.putLt k i hc
    obtain ⟨v, hv⟩ := put_enabled (g := g) (cfg := cfg) s (l := .putDone) rfl (by simp [step?, hc, this])
    exact ⟨_, by simp, hv⟩
  | joining i =>
    rw [hc] at hwl hd
    simp only [donesPut] at hd
    by_cases hall : s.c.ws.all (· == W.exited) = true
    · exact ⟨.base .joined, by simp, by simp [stepQ?, isBase, step?, hc, hall]⟩
    · have hex : s.c.ws.countP W.isExited < s.c.ws.length := by
        rcases Nat.lt_or_ge (s.c.ws.countP W.isExited) s.c.ws.length with h1 | h1
        · exact h1
        · exfalso
          apply hall
          have : s.c.ws.countP W.isExited = s.c.ws.length := Nat.le_antisymm List.countP_le_length h1
          rw [List.countP_eq_length] at this
          apply List.all_eq_true.mpr
          intro a ha
          have := this a ha
          cases a <;> simp_all [W.isExited]
      have hq : s.c.queue ≠ [] := by
        intro hq; rw [hq] at hd; simp at hd; omega
      apply idle_get _ hq
      omega
  | returned i => exact absurd hc (hnf i)

/-! ### no queued item waits for a sleeper -/

theorem idle_indices (ws : List W) :
    ∃ l : List Nat, l.Nodup ∧ (∀ w ∈ l, ws[w]? = some W.idle) ∧ l.length = ws.countP W.isIdle := by
  induction ws with
  | nil => exact ⟨[], by simp, by simp, by simp⟩
  | cons a t ih =>
    obtain ⟨l, hn, hi, hl⟩ := ih
    have hn' : (l.map (· + 1)).Nodup := hn.map (fun a b h => by simpa using h)
    have hi' : ∀ w ∈ l.map (· + 1), (a :: t)[w]? = some W.idle := by
      intro w hw
      obtain ⟨w0, hw0, rfl⟩ := List.mem_map.mp hw
      simpa using hi w0 hw0
    by_cases ha : a = W.idle
    · subst ha
      refine ⟨0 :: l.map (· + 1), ?_, ?_, ?_⟩
      · exact List.nodup_cons.mpr ⟨by simp, hn'⟩
      · intro w hw
        rcases List.mem_cons.mp hw with h0 | h1
        · subst h0; simp
        · exact hi' w h1
      · simp [List.countP_cons, W.isIdle, hl]
    · refine ⟨l.map (· + 1), hn', hi', ?_⟩
      have : W.isIdle a = false := by cases a <;> simp_all [W.isIdle]
      simp [this, hl]

/-- FULL USE OF THE POOL survives sleeping: in every reachable state there are at least
    `min (queued items) (idle workers)` idle workers that are AWAKE — each of them can take a queued item at once
    (`getTake`), so no ready item waits because the worker that should take it was never notified. -/
theorem q_parallel {g : Graph} {cfg : Cfg} {s : StQ} (hr : ReachQ g cfg s) :
    ∃ l : List Nat, l.Nodup ∧ (∀ w ∈ l, s.c.ws[w]? = some W.idle ∧ w ∉ s.sleep) ∧
      min s.c.queue.length (s.c.ws.countP W.isIdle) ≤ l.length := by
  have hi := qinv_reach hr
  cases hs : s.sleep with
  | nil =>
    obtain ⟨l, hn, hidle, hl⟩ := idle_indices s.c.ws
    exact ⟨l, hn, fun w hw => ⟨hidle w hw, by simp⟩, by omega⟩
  | cons x t =>
    have hq1 := hi.q1 (by rw [hs]; simp)
    refine ⟨s.woken, hi.wkNodup, fun w hw => ⟨hi.wkIdle w hw, ?_⟩, by omega⟩
    rw [← hs]; exact hi.wkNotSl w hw

theorem getTake_enabled {g : Graph} {cfg : Cfg} {s : StQ} {w : Nat} {i : Item}
    (hw : s.c.ws[w]? = some W.idle) (hns : w ∉ s.sleep) (hq : i ∈ s.c.queue) :
    (stepQ? g cfg s (.getTake w i)).isSome := by
  simp [stepQ?, hns, step?, hw, hq]

/-! ### every run of the wake-up model is finite -/

theorem sleep_nodup_step {g : Graph} {cfg : Cfg} {s s' : StQ} {l : LabelQ} (hn : s.sleep.Nodup)
    (h : stepQ? g cfg s l = some s') : s'.sleep.Nodup := by
  cases l <;> simp only [stepQ?] at h
  case put l v =>
    repeat' split at h
    all_goals first
      | (cases h; exact hn)
      | (cases h; exact hn.sublist List.filter_sublist)
      | cases h
  case getSleep w =>
    split at h
    · next hg => cases h; exact List.nodup_cons.mpr ⟨hg.2.1, hn⟩
    · cases h
  all_goals
    repeat' split at h
    all_goals first
      | (obtain ⟨c', _, rfl⟩ := Option.map_eq_some_iff.mp h; exact hn)
      | (cases h; exact hn)
      | cases h

theorem sleep_nodup_reach {g : Graph} {cfg : Cfg} {s : StQ} (h : ReachQ g cfg s) : s.sleep.Nodup := by
  induction h with
  | init => simp [initQ]
  | step l _ hs ih => exact sleep_nodup_step ih hs

theorem sleep_len_le {s : StQ} (hi : QInv s) (hn : s.sleep.Nodup) : s.sleep.length ≤ s.c.ws.length := by
  have hsub : s.sleep ⊆ List.range s.c.ws.length := fun w hw =>
    List.mem_range.mpr (List.getElem?_eq_some_iff.mp (hi.slIdle w hw)).1
  simpa using hn.length_le_of_subset hsub

/-- Twice the coarse measure, plus the number of workers that are not asleep, plus one while the calling thread is not
    asleep: going to sleep costs one, a wake-up is paid for by the coarse step that caused it. -/
def muQ (g : Graph) (cfg : Cfg) (s : StQ) : Nat :=
  2 * mu g cfg s.c + (cfg.workers - s.sleep.length) + (if s.cs = .asleep then 0 else 1)

theorem filter_len_ge {l : List Nat} (hn : l.Nodup) (x : Nat) : l.length ≤ (l.filter (· != x)).length + 1 := by
  induction l with
  | nil => simp
  | cons a t ih =>
    have hn' := List.nodup_cons.mp hn
    by_cases hax : a = x
    · subst hax
      have : t.filter (· != a) = t := by
        apply List.filter_eq_self.mpr
        intro b hb
        simp only [bne_iff_ne, ne_eq]
        intro hh; subst hh; exact hn'.1 hb
      simp [this]
    · have := ih hn'.2
      simp [hax]; omega

theorem muQ_decreases {g : Graph} (hg : g.WF) {cfg : Cfg} (hwk : 1 ≤ cfg.workers) {s s' : StQ} {l : LabelQ}
    (hr : ReachQ g cfg s) (h : stepQ? g cfg s l = some s') : muQ g cfg s' < muQ g cfg s := by
  have hi := qinv_reach hr
  have hn := sleep_nodup_reach hr
  have hrc := reachQ_reach hr
  have hinv := inv_reach hg hrc
  have hlen := Nat.le_trans (sleep_len_le hi hn) (ws_le (inv2_reach hwk hrc))
  have dec := fun (l0 : Label) (c' : St) (hc' : step? g cfg s.c l0 = some c') => mu_decreases hg hinv hc'
  unfold muQ
  cases l <;> simp only [stepQ?] at h
  case base l =>
    split at h
    · obtain ⟨c', hc', rfl⟩ := Option.map_eq_some_iff.mp h
      have := dec _ _ hc'
      simp only; omega
    · cases h
  case getTake w i =>
    split at h
    · cases h
    · obtain ⟨c', hc', rfl⟩ := Option.map_eq_some_iff.mp h
      have := dec _ _ hc'
      simp only; omega
  case getSleep w =>
    split at h
    · next hgd =>
      cases h
      have hn2 : (w :: s.sleep).Nodup := List.nodup_cons.mpr ⟨hgd.2.1, hn⟩
      have hsub : (w :: s.sleep) ⊆ List.range s.c.ws.length := by
        intro w' hw'
        rcases List.mem_cons.mp hw' with h1 | h1
        · subst h1; exact List.mem_range.mpr (List.getElem?_eq_some_iff.mp hgd.1).1
        · exact List.mem_range.mpr (List.getElem?_eq_some_iff.mp (hi.slIdle w' h1)).1
      have h1 := hn2.length_le_of_subset hsub
      have h2 := ws_le (inv2_reach hwk hrc)
      simp only [List.length_cons, List.length_range] at h1 ⊢
      omega
    · cases h
  case put l v =>
    split at h
    · split at h
      · cases h
      · next c' hc' =>
        have := dec _ _ hc'
        have := filter_len_ge hn
        repeat' split at h
        all_goals first
          | (cases h; simp only; omega)
          | (cases h; simp only; have := filter_len_ge hn ‹Nat›; omega)
          | cases h
    · cases h
  case taskDone w =>
    obtain ⟨c', hc', rfl⟩ := Option.map_eq_some_iff.mp h
    have := dec _ _ hc'
    simp only
    split <;> split <;> (simp_all; try omega)
  case joinTake =>
    split at h
    · cases h
    · next hna =>
      obtain ⟨c', hc', rfl⟩ := Option.map_eq_some_iff.mp h
      have := dec _ _ hc'
      simp only [hna, if_false, reduceCtorEq]; omega
  case joinSleep =>
    split at h
    · next hgd =>
      cases h
      simp only [hgd.2.1, if_false, if_true]; omega
    · cases h
  case interrupt =>
    obtain ⟨c', hc', rfl⟩ := Option.map_eq_some_iff.mp h
    have := dec _ _ hc'
    simp only [reduceCtorEq, if_false]
    split <;> omega

end Uberjob.EngineQ
