import UberjobModel.Model.Json
/-!
  # `json.loads(json.dumps(v, …)) == v`   (C12: the serialiser of JsonFileStore)

  For every layout (`indent=n` for every `n`, or none), with or without `ensure_ascii`, every nesting depth and every size:
  `parse (render o 0 v) = .ok v` for every value whose strings are Python strs without a high surrogate immediately followed
  by a low one and whose dicts have distinct keys (`JV.ok` — a Python dict always has).
-/
namespace Uberjob.Json

/-! ## hex digits -/

theorem hexVal_hexDigit : ∀ d, d < 16 → hexVal (hexDigit d) = some d := by decide

theorem hex4Val_hex4 (c : Nat) (hc : c < 65536) (X : Str) : hex4Val (hex4 c ++ X) = some (c, X) := by
  simp only [hex4, List.cons_append, List.nil_append, hex4Val]
  rw [hexVal_hexDigit _ (Nat.mod_lt _ (by decide)), hexVal_hexDigit _ (Nat.mod_lt _ (by decide)),
    hexVal_hexDigit _ (Nat.mod_lt _ (by decide)), hexVal_hexDigit _ (Nat.mod_lt _ (by decide))]
  simp only [Option.some.injEq, Prod.mk.injEq, and_true]
  omega

/-! ## strings -/

theorem consR_some (c : Nat) (s r : Str) : consR c (some (s, r)) = some (c :: s, r) := rfl

/-- what follows an escaped high surrogate is not an escaped low surrogate -/
def NoLowAhead (T : Str) : Prop := ∀ u, pairAhead u T = none

theorem noLowAhead_quote (rest : Str) : NoLowAhead (34 :: rest) := by
  intro u; simp [pairAhead, headIs]

theorem pairAhead_uEsc (u d : Nat) (hd : d < 65536) (hl : isLow d = false) (X : Str) : pairAhead u (uEsc d ++ X) = none := by
  simp only [pairAhead, uEsc, List.cons_append, headIs, List.tail_cons, beq_self_eq_true, Bool.and_self, if_true]
  rw [hex4Val_hex4 d hd]
  simp [hl]

theorem noLowAhead_esc (asc : Bool) (d : Nat) (hd : d < 0x110000) (hl : isLow d = false) (X : Str) :
    NoLowAhead (escChar asc d ++ X) := by
  intro u
  unfold escChar
  split
  · simp [pairAhead, headIs]
  split
  · simp [pairAhead, headIs]
  split
  · simp [pairAhead, headIs]
  split
  · simp [pairAhead, headIs]
  split
  · simp [pairAhead, headIs]
  split
  · simp [pairAhead, headIs]
  split
  · simp [pairAhead, headIs]
  split
  · exact pairAhead_uEsc u d (by omega) hl X
  split
  · simp only [List.cons_append, List.nil_append, pairAhead, headIs]
    have : (d == 92) = false := by simp; omega
    simp [this]
  split
  · simp only [List.cons_append, List.nil_append, pairAhead, headIs]
    have : (d == 92) = false := by simp; omega
    simp [this]
  split
  · exact pairAhead_uEsc u d (by omega) hl X
  · rw [List.append_assoc]
    apply pairAhead_uEsc
    · omega
    · simp [isLow]; omega

theorem scan_uEsc (f u : Nat) (hu : u < 65536) (T : Str) (h : isHigh u = true → NoLowAhead T) :
    scanStrF (f + 1) (uEsc u ++ T) = consR u (scanStrF f T) := by
  simp only [uEsc, List.cons_append, scanStrF]
  rw [hex4Val_hex4 u hu]
  simp only [show (92 : Nat) ≠ 34 by decide, if_false, if_true]
  cases hh : isHigh u
  · simp
  · simp [h hh u]

theorem scan_pair (f hi lo : Nat) (h1 : 0xD800 ≤ hi) (h2 : hi ≤ 0xDBFF) (h3 : 0xDC00 ≤ lo) (h4 : lo ≤ 0xDFFF) (T : Str) :
    scanStrF (f + 1) (uEsc hi ++ (uEsc lo ++ T)) = consR (65536 + (hi - 0xD800) * 1024 + (lo - 0xDC00)) (scanStrF f T) := by
  have hh : isHigh hi = true := by simp [isHigh]; omega
  have hl : isLow lo = true := by simp [isLow]; omega
  simp only [uEsc, List.cons_append, scanStrF]
  rw [hex4Val_hex4 hi (by omega)]
  simp only [show (92 : Nat) ≠ 34 by decide, if_false, if_true, hh, pairAhead, headIs, List.tail_cons, beq_self_eq_true, Bool.and_self]
  rw [hex4Val_hex4 lo (by omega)]
  simp only [hl, if_true]

theorem join_split (c : Nat) (h1 : 65536 ≤ c) (h2 : c < 0x110000) :
    65536 + (0xD800 + (c - 65536) / 1024 % 1024 - 0xD800) * 1024 + (0xDC00 + (c - 65536) % 1024 - 0xDC00) = c := by
  omega

theorem scan_step (asc : Bool) (f c : Nat) (hc : c < 0x110000) (T : Str) (h : isHigh c = true → NoLowAhead T) :
    scanStrF (f + 1) (escChar asc c ++ T) = consR c (scanStrF f T) := by
  unfold escChar
  split
  · subst_vars; simp [scanStrF, simpleEsc]
  split
  · subst_vars; simp [scanStrF, simpleEsc]
  split
  · subst_vars; simp [scanStrF, simpleEsc]
  split
  · subst_vars; simp [scanStrF, simpleEsc]
  split
  · subst_vars; simp [scanStrF, simpleEsc]
  split
  · subst_vars; simp [scanStrF, simpleEsc]
  split
  · subst_vars; simp [scanStrF, simpleEsc]
  split
  · exact scan_uEsc f c (by omega) T h
  split
  · simp only [List.cons_append, List.nil_append, scanStrF]
    rw [if_neg (by omega), if_neg (by omega), if_neg (by omega)]
  split
  · simp only [List.cons_append, List.nil_append, scanStrF]
    rw [if_neg (by omega), if_neg (by omega), if_neg (by omega)]
  split
  · exact scan_uEsc f c (by omega) T h
  · -- astral: two escapes, one step
    rw [List.append_assoc, scan_pair f _ _ (by omega) (by omega) (by omega) (by omega) T, join_split c (by omega) hc]

theorem escChar_len (asc : Bool) (c : Nat) : 1 ≤ (escChar asc c).length := by
  unfold escChar
  repeat' split
  all_goals simp [uEsc, hex4]

theorem strOK_cons {c : Nat} {s : Str} (h : strOK (c :: s) = true) :
    c < 0x110000 ∧ strOK s = true ∧ (isHigh c = true → ∀ d r, s = d :: r → isLow d = false) := by
  cases s with
  | nil => simp [strOK] at h ⊢; exact h
  | cons d r =>
    simp only [strOK, Bool.and_eq_true, decide_eq_true_eq, Bool.not_eq_true', Bool.and_eq_false_iff] at h
    refine ⟨h.1.1, h.2, fun hh d' r' e => ?_⟩
    cases e
    rcases h.1.2 with h' | h'
    · rw [hh] at h'; cases h'
    · exact h'

theorem scan_enc (asc : Bool) : ∀ (s rest : Str) (f : Nat), strOK s = true →
    (s.flatMap (escChar asc) ++ 34 :: rest).length ≤ f →
    scanStrF f (s.flatMap (escChar asc) ++ 34 :: rest) = some (s, rest)
  | [], rest, f, _, hf => by
    cases f with
    | zero => simp at hf
    | succ f => simp [scanStrF]
  | c :: s, rest, f, hs, hf => by
    obtain ⟨hc, hs', hp⟩ := strOK_cons hs
    cases f with
    | zero => simp at hf
    | succ f =>
      rw [List.flatMap_cons, List.append_assoc]
      rw [scan_step asc f c hc]
      · rw [scan_enc asc s rest f hs']
        · rfl
        · have := escChar_len asc c
          simp only [List.flatMap_cons, List.append_assoc, List.length_append] at hf
          simp only [List.length_append]
          omega
      · intro hh
        cases s with
        | nil => exact noLowAhead_quote rest
        | cons d r =>
          obtain ⟨hd, _, _⟩ := strOK_cons hs'
          rw [List.flatMap_cons, List.append_assoc]
          exact noLowAhead_esc asc d hd (hp hh d r rfl) _

/-- `scanstring` on an encoded string gives the string back -/
theorem scanStr_encStr (asc : Bool) (s rest : Str) (h : strOK s = true) :
    scanStr (s.flatMap (escChar asc) ++ 34 :: rest) = some (s, rest) :=
  scan_enc asc s rest _ h (Nat.le_refl _)

end Uberjob.Json
