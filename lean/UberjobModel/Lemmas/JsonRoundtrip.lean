import UberjobModel.Lemmas.JsonValue
/-! the round trip, by mutual structural recursion over values, item lists and member lists -/
namespace Uberjob.Json

mutual
/-- fuel the scanner needs for a value -/
def need : JV → Nat
  | .null => 1
  | .bool _ => 1
  | .int _ => 1
  | .float _ => 1
  | .str _ => 1
  | .arr xs => (match xs with | .nil => 1 | .cons v vs => 1 + need v + needTail vs)
  | .obj ms => (match ms with | .nil => 1 | .cons _ v ms => 1 + need v + needMTail ms)
def needTail : JVs → Nat
  | .nil => 1
  | .cons v vs => 1 + need v + needTail vs
def needMTail : JMs → Nat
  | .nil => 1
  | .cons _ v ms => 1 + need v + needMTail ms
end

theorem term_items (o : Opts) (lvl k : Nat) (rest : Str) (vs : JVs) :
    Term (renderItems o lvl vs ++ (o.layout.gap k ++ 93 :: rest)) := by
  cases vs with
  | nil => simp only [renderItems, List.nil_append]; exact term_gap _ _ _ _ (by decide)
  | cons v vs => simp only [renderItems, List.cons_append]; exact term_cons (by decide)

theorem term_members (o : Opts) (lvl k : Nat) (rest : Str) (ms : JMs) :
    Term (renderMembers o lvl ms ++ (o.layout.gap k ++ 125 :: rest)) := by
  cases ms with
  | nil => simp only [renderMembers, List.nil_append]; exact term_gap _ _ _ _ (by decide)
  | cons k' v ms => simp only [renderMembers, List.cons_append]; exact term_cons (by decide)

theorem skip_gap_close (L : Layout) (k c : Nat) (rest : Str) (hc : isWs c = false) :
    skipWs (L.gap k ++ c :: rest) = c :: rest := by
  rw [skipWs_ws _ _ (allWs_gap L k), skipWs_head hc]

mutual
theorem parse_render (o : Opts) : ∀ (v : JV) (lvl f : Nat) (rest : Str), v.ok = true → need v ≤ f → Term rest →
    parseV f (render o lvl v ++ rest) = .ok (v, rest)
  | .null, lvl, f, rest, _, hf, _ => by
    obtain ⟨f, rfl⟩ : ∃ f', f = f' + 1 := ⟨f - 1, by simp [need] at hf; omega⟩
    simp only [render, List.cons_append, List.nil_append]; exact parseV_null f rest
  | .bool true, lvl, f, rest, _, hf, _ => by
    obtain ⟨f, rfl⟩ : ∃ f', f = f' + 1 := ⟨f - 1, by simp [need] at hf; omega⟩
    simp only [render, List.cons_append, List.nil_append]; exact parseV_true f rest
  | .bool false, lvl, f, rest, _, hf, _ => by
    obtain ⟨f, rfl⟩ : ∃ f', f = f' + 1 := ⟨f - 1, by simp [need] at hf; omega⟩
    simp only [render, List.cons_append, List.nil_append]; exact parseV_false f rest
  | .int n, lvl, f, rest, _, hf, ht => by
    obtain ⟨f, rfl⟩ : ∃ f', f = f' + 1 := ⟨f - 1, by simp [need] at hf; omega⟩
    simp only [render, encInt]
    split
    · rename_i hn
      rw [List.cons_append]
      have hh : headIs 73 (natDigits n.natAbs ++ rest) = false := by
        rcases Nat.eq_zero_or_pos n.natAbs with h | h
        · rw [h, natDigits_zero]; rfl
        · obtain ⟨d, ds, e, h1, h2⟩ := natDigits_head _ h
          rw [e]; simp [headIs]; omega
      rw [parseV_neg f _ hh, parseNumber_int true _ rest ht]
      have : -(n.natAbs : Int) = n := by omega
      simp only [if_true, this]
    · rename_i hn
      have hst := starts_encInt n
      simp only [encInt, if_neg hn] at hst
      have hd : ∃ d ds, natDigits n.toNat = d :: ds ∧ isDigit d = true := by
        cases hnd : natDigits n.toNat with
        | nil => obtain ⟨c, t, e, _⟩ := hst; rw [hnd] at e; cases e
        | cons d ds => exact ⟨d, ds, rfl, natDigits_digits n.toNat d (by rw [hnd]; simp)⟩
      obtain ⟨d, ds, e, hdig⟩ := hd
      have hp := parseNumber_int false n.toNat rest ht
      rw [e] at hp ⊢
      rw [List.cons_append] at hp ⊢
      rw [parseV_digit f d _ hdig, hp]
      have : (n.toNat : Int) = n := by omega
      simp only [Bool.false_eq_true, if_false, this]
  | .float ft, lvl, f, rest, hok, hf, ht => by
    obtain ⟨f, rfl⟩ : ∃ f', f = f' + 1 := ⟨f - 1, by simp [need] at hf; omega⟩
    simp only [JV.ok] at hok
    have hp := parseNumber_float ft hok rest ht
    simp only [render, FT.text]
    cases hneg : ft.neg
    · simp only [hneg, Bool.false_eq_true, if_false, List.nil_append] at hp ⊢
      obtain ⟨d, t, e, hdig⟩ : ∃ d t, natDigits ft.ip = d :: t ∧ isDigit d = true := by
        have hst := starts_natDigits ft.ip []
        rw [List.append_nil] at hst
        obtain ⟨c, t, e, _⟩ := hst
        exact ⟨c, t, e, natDigits_digits ft.ip c (by rw [e]; simp)⟩
      rw [e] at hp ⊢
      simp only [List.cons_append] at hp ⊢
      rw [parseV_digit f d _ hdig]
      exact hp
    · simp only [hneg, if_true, List.cons_append, List.nil_append] at hp ⊢
      have hh : headIs 73 (natDigits ft.ip ++ ((if ft.frac = [] then [] else 46 :: ft.frac) ++ expText ft.expo) ++ rest) = false := by
        have hst := starts_natDigits ft.ip []
        rw [List.append_nil] at hst
        obtain ⟨c, t, e, _⟩ := hst
        have hdig := natDigits_digits ft.ip c (by rw [e]; simp)
        rw [e]
        simp only [isDigit, Bool.and_eq_true, decide_eq_true_eq] at hdig
        simp [headIs]; omega
      rw [parseV_neg f _ hh]
      exact hp
  | .str s, lvl, f, rest, hok, hf, _ => by
    obtain ⟨f, rfl⟩ : ∃ f', f = f' + 1 := ⟨f - 1, by simp [need] at hf; omega⟩
    simp only [JV.ok] at hok
    have e : render o lvl (.str s) ++ rest = 34 :: (s.flatMap (escChar o.ascii) ++ 34 :: rest) := by
      simp [render, encStr, List.append_assoc]
    rw [e]
    exact parseV_str f _ (scanStr_encStr o.ascii s rest hok)
  | .arr .nil, lvl, f, rest, _, hf, _ => by
    obtain ⟨f, rfl⟩ : ∃ f', f = f' + 1 := ⟨f - 1, by simp [need] at hf; omega⟩
    simp only [render, List.cons_append, List.nil_append]
    rw [parseV_arr_nil f _ (by simp [skipWs, isWs, headIs])]
    simp [skipWs, isWs]
  | .arr (.cons v vs), lvl, f, rest, hok, hf, _ => by
    obtain ⟨f, rfl⟩ : ∃ f', f = f' + 1 := ⟨f - 1, by simp [need] at hf; omega⟩
    simp only [JV.ok, JVs.ok, Bool.and_eq_true] at hok
    simp only [need] at hf
    have e : render o lvl (.arr (.cons v vs)) ++ rest =
        91 :: (o.layout.gap (lvl + 1) ++ (render o (lvl + 1) v ++ (renderItems o (lvl + 1) vs ++ (o.layout.gap lvl ++ 93 :: rest)))) := by
      simp [render, List.append_assoc]
    rw [e]
    have hst : Starts (render o (lvl + 1) v ++ (renderItems o (lvl + 1) vs ++ (o.layout.gap lvl ++ 93 :: rest))) :=
      starts_append (starts_render o _ v) _
    have hsk : skipWs (o.layout.gap (lvl + 1) ++ (render o (lvl + 1) v ++ (renderItems o (lvl + 1) vs ++ (o.layout.gap lvl ++ 93 :: rest))))
        = render o (lvl + 1) v ++ (renderItems o (lvl + 1) vs ++ (o.layout.gap lvl ++ 93 :: rest)) := by
      rw [skipWs_ws _ _ (allWs_gap _ _), skipWs_starts hst]
    refine parseV_arr_cons f _ (r := renderItems o (lvl + 1) vs ++ (o.layout.gap lvl ++ 93 :: rest))
      (by rw [hsk]; exact (headIs_starts hst).1) ?_ ?_
    · rw [hsk]; exact parse_render o v (lvl + 1) f _ hok.1 (by omega) (term_items o _ _ _ vs)
    · exact parse_tail o vs (lvl + 1) lvl f rest hok.2 (by omega)
  | .obj .nil, lvl, f, rest, _, hf, _ => by
    obtain ⟨f, rfl⟩ : ∃ f', f = f' + 1 := ⟨f - 1, by simp [need] at hf; omega⟩
    simp only [render, List.cons_append, List.nil_append]
    rw [parseV_obj_nil f _ (by simp [skipWs, isWs, headIs])]
    simp [skipWs, isWs]
  | .obj (.cons k v ms), lvl, f, rest, hok, hf, _ => by
    obtain ⟨f, rfl⟩ : ∃ f', f = f' + 1 := ⟨f - 1, by simp [need] at hf; omega⟩
    simp only [JV.ok, JMs.ok, Bool.and_eq_true] at hok
    simp only [need] at hf
    have e : render o lvl (.obj (.cons k v ms)) ++ rest =
        123 :: (o.layout.gap (lvl + 1) ++ (encStr o.ascii k ++ 58 :: 32 :: (render o (lvl + 1) v ++ (renderMembers o (lvl + 1) ms
          ++ (o.layout.gap lvl ++ 125 :: rest))))) := by
      simp [render, List.append_assoc]
    rw [e]
    have hst : Starts (encStr o.ascii k ++ 58 :: 32 :: (render o (lvl + 1) v ++ (renderMembers o (lvl + 1) ms
          ++ (o.layout.gap lvl ++ 125 :: rest)))) := ⟨34, _, by simp [encStr]; rfl, by decide⟩
    have hsk := skipWs_ws (o.layout.gap (lvl + 1)) (encStr o.ascii k ++ 58 :: 32 :: (render o (lvl + 1) v ++ (renderMembers o (lvl + 1) ms
          ++ (o.layout.gap lvl ++ 125 :: rest)))) (allWs_gap _ _)
    rw [skipWs_starts hst] at hsk
    have hd := JMs.dedupe_nodup (.cons k v ms) hok.2
    rw [← hd]
    refine parseV_obj_cons f _ (r := renderMembers o (lvl + 1) ms ++ (o.layout.gap lvl ++ 125 :: rest))
      (by rw [hsk]; exact (headIs_starts hst).2.1) ?_ ?_
    · rw [hsk]
      exact parseMember_enc o.ascii _ k hok.1.1.1 _ (starts_append (starts_render o _ v) _)
        (parse_render o v (lvl + 1) f _ hok.1.1.2 (by omega) (term_members o _ _ _ ms))
    · exact parse_mtail o ms (lvl + 1) lvl f rest hok.1.2 (by omega)
theorem parse_tail (o : Opts) : ∀ (vs : JVs) (lvl k f : Nat) (rest : Str), vs.ok = true → needTail vs ≤ f →
    parseTail f (renderItems o lvl vs ++ (o.layout.gap k ++ 93 :: rest)) = .ok (vs, rest)
  | .nil, lvl, k, f, rest, _, hf => by
    obtain ⟨f, rfl⟩ : ∃ f', f = f' + 1 := ⟨f - 1, by simp [needTail] at hf; omega⟩
    simp only [renderItems, List.nil_append]
    have hsk := skip_gap_close o.layout k 93 rest (by decide)
    rw [parseTail_nil f _ (by rw [hsk]; rfl) (by rw [hsk]; rfl), hsk]
    rfl
  | .cons v vs, lvl, k, f, rest, hok, hf => by
    obtain ⟨f, rfl⟩ : ∃ f', f = f' + 1 := ⟨f - 1, by simp [needTail] at hf; omega⟩
    simp only [JVs.ok, Bool.and_eq_true] at hok
    simp only [needTail] at hf
    have e : renderItems o lvl (.cons v vs) ++ (o.layout.gap k ++ 93 :: rest) =
        44 :: (o.layout.sgap lvl ++ (render o lvl v ++ (renderItems o lvl vs ++ (o.layout.gap k ++ 93 :: rest)))) := by
      simp [renderItems, List.append_assoc]
    rw [e]
    have h0 : skipWs (44 :: (o.layout.sgap lvl ++ (render o lvl v ++ (renderItems o lvl vs ++ (o.layout.gap k ++ 93 :: rest)))))
        = 44 :: (o.layout.sgap lvl ++ (render o lvl v ++ (renderItems o lvl vs ++ (o.layout.gap k ++ 93 :: rest)))) :=
      skipWs_head (by decide)
    have hst : Starts (render o lvl v ++ (renderItems o lvl vs ++ (o.layout.gap k ++ 93 :: rest))) :=
      starts_append (starts_render o _ v) _
    refine parseTail_cons f _ (r := renderItems o lvl vs ++ (o.layout.gap k ++ 93 :: rest)) (by rw [h0]; rfl) ?_ ?_
    · rw [h0, List.tail_cons, skipWs_ws _ _ (allWs_sgap _ _), skipWs_starts hst]
      exact parse_render o v lvl f _ hok.1 (by omega) (term_items o _ _ _ vs)
    · exact parse_tail o vs lvl k f rest hok.2 (by omega)
theorem parse_mtail (o : Opts) : ∀ (ms : JMs) (lvl k f : Nat) (rest : Str), ms.ok = true → needMTail ms ≤ f →
    parseMTail f (renderMembers o lvl ms ++ (o.layout.gap k ++ 125 :: rest)) = .ok (ms, rest)
  | .nil, lvl, k, f, rest, _, hf => by
    obtain ⟨f, rfl⟩ : ∃ f', f = f' + 1 := ⟨f - 1, by simp [needMTail] at hf; omega⟩
    simp only [renderMembers, List.nil_append]
    have hsk := skip_gap_close o.layout k 125 rest (by decide)
    rw [parseMTail_nil f _ (by rw [hsk]; rfl) (by rw [hsk]; rfl), hsk]
    rfl
  | .cons key v ms, lvl, k, f, rest, hok, hf => by
    obtain ⟨f, rfl⟩ : ∃ f', f = f' + 1 := ⟨f - 1, by simp [needMTail] at hf; omega⟩
    simp only [JMs.ok, Bool.and_eq_true] at hok
    simp only [needMTail] at hf
    have e : renderMembers o lvl (.cons key v ms) ++ (o.layout.gap k ++ 125 :: rest) =
        44 :: (o.layout.sgap lvl ++ (encStr o.ascii key ++ 58 :: 32 :: (render o lvl v ++ (renderMembers o lvl ms ++ (o.layout.gap k ++ 125 :: rest))))) := by
      simp [renderMembers, List.append_assoc]
    rw [e]
    have h0 : skipWs (44 :: (o.layout.sgap lvl ++ (encStr o.ascii key ++ 58 :: 32 :: (render o lvl v ++ (renderMembers o lvl ms ++ (o.layout.gap k ++ 125 :: rest))))))
        = 44 :: (o.layout.sgap lvl ++ (encStr o.ascii key ++ 58 :: 32 :: (render o lvl v ++ (renderMembers o lvl ms ++ (o.layout.gap k ++ 125 :: rest))))) :=
      skipWs_head (by decide)
    have hst : Starts (encStr o.ascii key ++ 58 :: 32 :: (render o lvl v ++ (renderMembers o lvl ms ++ (o.layout.gap k ++ 125 :: rest)))) :=
      ⟨34, _, by simp [encStr]; rfl, by decide⟩
    refine parseMTail_cons f _ (r := renderMembers o lvl ms ++ (o.layout.gap k ++ 125 :: rest)) (by rw [h0]; rfl) ?_ ?_
    · rw [h0, List.tail_cons, skipWs_ws _ _ (allWs_sgap _ _), skipWs_starts hst]
      exact parseMember_enc o.ascii _ key hok.1.1 _ (starts_append (starts_render o _ v) _)
        (parse_render o v lvl f _ hok.1.2 (by omega) (term_members o _ _ _ ms))
    · exact parse_mtail o ms lvl k f rest hok.2 (by omega)
end


/-! ## fuel: the length of the text is enough -/

theorem natDigits_ne_nil (n : Nat) : 1 ≤ (natDigits n).length := by
  rcases Nat.eq_zero_or_pos n with rfl | h
  · rw [natDigits_zero]; simp
  · obtain ⟨d, ds, e, _⟩ := natDigits_head n h; rw [e]; simp

theorem encInt_len (n : Int) : 1 ≤ (encInt n).length := by
  unfold encInt; split
  · simp
  · exact natDigits_ne_nil _

mutual
theorem need_le (o : Opts) : ∀ (v : JV) (lvl : Nat), need v ≤ (render o lvl v).length
  | .null, _ => by simp [need, render]
  | .bool true, _ => by simp [need, render]
  | .bool false, _ => by simp [need, render]
  | .int n, _ => by simp only [need, render]; exact encInt_len n
  | .float f, _ => by
    simp only [need, render, FT.text, List.length_append]
    have := natDigits_ne_nil f.ip
    omega
  | .str s, _ => by simp [need, render, encStr]
  | .arr .nil, _ => by simp [need, render]
  | .arr (.cons v vs), lvl => by
    have h1 := need_le o v (lvl + 1)
    have h2 := needTail_le o vs (lvl + 1)
    simp only [need, render, List.length_cons, List.length_append, List.length_nil]
    omega
  | .obj .nil, _ => by simp [need, render]
  | .obj (.cons k v ms), lvl => by
    have h1 := need_le o v (lvl + 1)
    have h2 := needMTail_le o ms (lvl + 1)
    simp only [need, render, List.length_cons, List.length_append, List.length_nil]
    omega
theorem needTail_le (o : Opts) : ∀ (vs : JVs) (lvl : Nat), needTail vs ≤ (renderItems o lvl vs).length + 1
  | .nil, _ => by simp [needTail, renderItems]
  | .cons v vs, lvl => by
    have h1 := need_le o v lvl
    have h2 := needTail_le o vs lvl
    simp only [needTail, renderItems, List.length_cons, List.length_append]
    omega
theorem needMTail_le (o : Opts) : ∀ (ms : JMs) (lvl : Nat), needMTail ms ≤ (renderMembers o lvl ms).length + 1
  | .nil, _ => by simp [needMTail, renderMembers]
  | .cons k v ms, lvl => by
    have h1 := need_le o v lvl
    have h2 := needMTail_le o ms lvl
    simp only [needMTail, renderMembers, List.length_cons, List.length_append]
    omega
end

/-- **`json.loads(json.dumps(v, indent=…, ensure_ascii=…)) == v`** for every value of the domain, every layout, every depth -/
theorem parse_render_top (o : Opts) (v : JV) (h : v.ok = true) : parse (render o 0 v) = .ok v := by
  have hst := starts_render o 0 v
  unfold parse
  rw [if_neg (by rw [(headIs_starts hst).2.2.2]; simp), skipWs_starts hst]
  have := parse_render o v 0 ((render o 0 v).length + 1) [] h (by have := need_le o v 0; omega) term_nil
  rw [List.append_nil] at this
  rw [this]
  simp [skipWs]

/-! ## with `ensure_ascii` the text is ASCII without carriage returns -/

def asciiC (c : Nat) : Prop := c = 10 ∨ (32 ≤ c ∧ c ≤ 126)
def Ascii (s : Str) : Prop := ∀ c ∈ s, asciiC c

theorem ascii_append {a b : Str} (ha : Ascii a) (hb : Ascii b) : Ascii (a ++ b) := by
  intro c hc; rcases List.mem_append.mp hc with h | h
  · exact ha c h
  · exact hb c h

theorem ascii_cons {c : Nat} {s : Str} (hc : asciiC c) (hs : Ascii s) : Ascii (c :: s) := by
  intro d hd; rcases List.mem_cons.mp hd with rfl | h
  · exact hc
  · exact hs d h

theorem ascii_nil : Ascii [] := by intro c hc; cases hc

theorem hexDigit_ascii (d : Nat) (h : d < 16) : asciiC (hexDigit d) := by
  unfold hexDigit asciiC; split <;> omega

theorem uEsc_ascii (c : Nat) : Ascii (uEsc c) := by
  unfold uEsc hex4
  refine ascii_cons (by unfold asciiC; omega) (ascii_cons (by unfold asciiC; omega) ?_)
  intro d hd
  simp only [List.mem_cons, List.mem_nil_iff, or_false] at hd
  rcases hd with rfl | rfl | rfl | rfl <;> exact hexDigit_ascii _ (Nat.mod_lt _ (by decide))

theorem escChar_ascii (c : Nat) : Ascii (escChar true c) := by
  unfold escChar
  repeat' split
  all_goals first
    | exact uEsc_ascii _
    | exact ascii_append (uEsc_ascii _) (uEsc_ascii _)
    | (intro d hd; simp at hd; unfold asciiC; omega)
    | (rename_i h; simp at h)

theorem encStr_ascii (s : Str) : Ascii (encStr true s) := by
  unfold encStr
  refine ascii_cons (by unfold asciiC; omega) (ascii_append ?_ (ascii_cons (by unfold asciiC; omega) ascii_nil))
  intro c hc
  obtain ⟨a, _, ha⟩ := List.mem_flatMap.mp hc
  exact escChar_ascii a c ha

theorem encInt_ascii (n : Int) : Ascii (encInt n) := by
  have hd : ∀ m, Ascii (natDigits m) := by
    intro m c hc
    have := natDigits_digits m c hc
    simp [isDigit] at this; unfold asciiC; omega
  unfold encInt; split
  · exact ascii_cons (by unfold asciiC; omega) (hd _)
  · exact hd _

/-- a float text whose digits are digits is ASCII (any float text of the domain is) -/
theorem ftext_ascii_of (f : FT) (h : f.ok = true) : Ascii f.text := by
  obtain ⟨neg, ip, fr, ex⟩ := f
  simp only [FT.ok, Bool.and_eq_true, Bool.or_eq_true, List.all_eq_true] at h
  have hdig : ∀ m, Ascii (natDigits m) := by
    intro m c hc
    have := natDigits_digits m c hc
    simp [isDigit] at this; unfold asciiC; omega
  have hds : ∀ ds : List Nat, (∀ d ∈ ds, isDigit d = true) → Ascii ds := by
    intro ds hd c hc
    have := hd c hc
    simp [isDigit] at this; unfold asciiC; omega
  unfold FT.text
  refine ascii_append (by split; exact ascii_cons (by unfold asciiC; omega) ascii_nil; exact ascii_nil) (ascii_append (hdig _) (ascii_append ?_ ?_))
  · split
    · exact ascii_nil
    · exact ascii_cons (by unfold asciiC; omega) (hds _ h.1.2)
  · cases ex with
    | none => exact ascii_nil
    | some t =>
      obtain ⟨e, sg, ds⟩ := t
      simp only [Bool.and_eq_true, Bool.or_eq_true, beq_iff_eq, List.all_eq_true] at h
      obtain ⟨_, ⟨⟨he, hsg⟩, _⟩, hdd⟩ := h
      simp only [expText]
      refine ascii_cons (by rcases he with rfl | rfl <;> (unfold asciiC; omega)) (ascii_append ?_ (hds _ hdd))
      rcases hsg with (rfl | rfl) | rfl
      · exact ascii_nil
      · exact ascii_cons (by unfold asciiC; omega) ascii_nil
      · exact ascii_cons (by unfold asciiC; omega) ascii_nil

theorem gap_ascii (L : Layout) (k : Nat) : Ascii (L.gap k) := by
  intro c hc
  have := allWs_gap L k c hc
  cases L with
  | indent n =>
    simp only [Layout.gap, nl, List.mem_cons, List.mem_replicate] at hc
    rcases hc with rfl | ⟨_, rfl⟩ <;> (unfold asciiC; omega)
  | compact => cases hc

theorem sgap_ascii (L : Layout) (k : Nat) : Ascii (L.sgap k) := by
  intro c hc
  cases L with
  | indent n =>
    simp only [Layout.sgap, nl, List.mem_cons, List.mem_replicate] at hc
    rcases hc with rfl | ⟨_, rfl⟩ <;> (unfold asciiC; omega)
  | compact => simp [Layout.sgap] at hc; subst hc; unfold asciiC; omega

mutual
theorem render_ascii (L : Layout) : ∀ (v : JV) (lvl : Nat), v.ok = true → Ascii (render ⟨L, true⟩ lvl v)
  | .null, _, _ => by simp only [render]; intro c hc; simp at hc; unfold asciiC; omega
  | .bool true, _, _ => by simp only [render]; intro c hc; simp at hc; unfold asciiC; omega
  | .bool false, _, _ => by simp only [render]; intro c hc; simp at hc; unfold asciiC; omega
  | .int n, _, _ => by simp only [render]; exact encInt_ascii n
  | .float f, _, h => by simp only [render]; exact ftext_ascii_of f (by simpa [JV.ok] using h)
  | .str s, _, _ => by simp only [render]; exact encStr_ascii s
  | .arr .nil, _, _ => by simp only [render]; intro c hc; simp at hc; unfold asciiC; omega
  | .arr (.cons v vs), lvl, h => by
    simp only [JV.ok, JVs.ok, Bool.and_eq_true] at h
    simp only [render]
    exact ascii_cons (by unfold asciiC; omega) (ascii_append (ascii_append (ascii_append (ascii_append (gap_ascii _ _)
      (render_ascii L v _ h.1)) (renderItems_ascii L vs _ h.2)) (gap_ascii _ _)) (ascii_cons (by unfold asciiC; omega) ascii_nil))
  | .obj .nil, _, _ => by simp only [render]; intro c hc; simp at hc; unfold asciiC; omega
  | .obj (.cons k v ms), lvl, h => by
    simp only [JV.ok, JMs.ok, Bool.and_eq_true] at h
    simp only [render]
    exact ascii_cons (by unfold asciiC; omega) (ascii_append (ascii_append (ascii_append (ascii_append (ascii_append (gap_ascii _ _)
      (encStr_ascii k)) (ascii_cons (by unfold asciiC; omega) (ascii_cons (by unfold asciiC; omega) (render_ascii L v _ h.1.1.2))))
      (renderMembers_ascii L ms _ h.1.2)) (gap_ascii _ _)) (ascii_cons (by unfold asciiC; omega) ascii_nil))
theorem renderItems_ascii (L : Layout) : ∀ (vs : JVs) (lvl : Nat), vs.ok = true → Ascii (renderItems ⟨L, true⟩ lvl vs)
  | .nil, _, _ => by simp only [renderItems]; exact ascii_nil
  | .cons v vs, lvl, h => by
    simp only [JVs.ok, Bool.and_eq_true] at h
    simp only [renderItems]
    exact ascii_cons (by unfold asciiC; omega) (ascii_append (ascii_append (sgap_ascii _ _) (render_ascii L v _ h.1)) (renderItems_ascii L vs _ h.2))
theorem renderMembers_ascii (L : Layout) : ∀ (ms : JMs) (lvl : Nat), ms.ok = true → Ascii (renderMembers ⟨L, true⟩ lvl ms)
  | .nil, _, _ => by simp only [renderMembers]; exact ascii_nil
  | .cons k v ms, lvl, h => by
    simp only [JMs.ok, Bool.and_eq_true] at h
    simp only [renderMembers]
    exact ascii_cons (by unfold asciiC; omega) (ascii_append (ascii_append (ascii_append (sgap_ascii _ _) (encStr_ascii k))
      (ascii_cons (by unfold asciiC; omega) (ascii_cons (by unfold asciiC; omega) (render_ascii L v _ h.1.2)))) (renderMembers_ascii L ms _ h.2))
end

end Uberjob.Json
