import UberjobModel.Model.Queues
import Batteries.Data.List.Perm
namespace Uberjob.Queues
open List

theorem count_swap (l : List Nat) (i j : Nat) (hi : i < l.length) (hj : j < l.length) (x : Nat) :
    ((l.set i l[j]).set j l[i]).count x = l.count x := by
  have hj' : j < (l.set i l[j]).length := by simpa using hj
  have h1 := List.count_set (a := l[i]) (b := x) (l := l.set i l[j]) hj'
  have h2 := List.count_set (a := l[j]) (b := x) (l := l) hi
  have h3 : (l.set i l[j])[j] = l[j] := by
    by_cases hij : i = j
    · subst hij; simp
    · exact List.getElem_set_ne hij _
  rw [h1, h2, h3]
  have ci : 0 < l.count l[i] := List.count_pos_iff.mpr (List.getElem_mem hi)
  have cj : 0 < l.count l[j] := List.count_pos_iff.mpr (List.getElem_mem hj)
  by_cases e1 : l[i] = x <;> by_cases e2 : l[j] = x
  · rw [e1] at ci; simp [e1, e2]; omega
  · rw [e1] at ci; simp [e1, e2]; omega
  · rw [e2] at cj; simp [e1, e2]
  · simp [e1, e2]

/-- `_put` neither loses nor duplicates anything, whatever index the random generator returns. -/
theorem randomPut_perm (q : List Nat) (item r : Nat) : (randomPut q item r).Perm (item :: q) := by
  apply List.perm_iff_count.mpr
  intro x
  unfold randomPut
  simp only
  have hlen : 0 < (q ++ [item]).length := by simp
  have hi : r % (q ++ [item]).length < (q ++ [item]).length := Nat.mod_lt _ hlen
  have hl : (q ++ [item]).length - 1 < (q ++ [item]).length := by omega
  have e1 : (q ++ [item]).getD (r % (q ++ [item]).length) 0 = (q ++ [item])[r % (q ++ [item]).length] :=
    Eq.symm (List.getElem_eq_getD 0)
  have e2 : (q ++ [item]).getD ((q ++ [item]).length - 1) 0 = (q ++ [item])[(q ++ [item]).length - 1] :=
    Eq.symm (List.getElem_eq_getD 0)
  rw [e1, e2, count_swap (q ++ [item]) _ _ hi hl x]
  simp [List.count_append, List.count_cons]

/-- `_get` removes exactly the item it returns. -/
theorem randomGet_perm (q : List Nat) (x : Nat) (rest : List Nat) (h : randomGet q = some (x, rest)) :
    q.Perm (x :: rest) := by
  unfold randomGet at h
  cases hq : q.getLast? with
  | none => rw [hq] at h; cases h
  | some y =>
    rw [hq] at h
    simp at h
    obtain ⟨rfl, rfl⟩ := h
    have hne : q ≠ [] := by intro h0; rw [h0] at hq; simp at hq
    have hy : q.getLast hne = y := by
      have := List.getLast?_eq_some_getLast hne
      rw [hq] at this; exact (Option.some.inj this).symm
    have hsplit : q.dropLast ++ [y] = q := by rw [← hy]; exact List.dropLast_concat_getLast hne
    calc q = q.dropLast ++ [y] := hsplit.symm
      _ ~ y :: q.dropLast := List.perm_append_singleton _ _

theorem randomGet_none (q : List Nat) : randomGet q = none ↔ q = [] := by
  unfold randomGet
  cases q with
  | nil => simp
  | cons a t => simp [List.getLast?_cons]

end Uberjob.Queues
