import UberjobModel.Model.Traceback
/-!
  Helper lemmas for C19.  The first block is about the GENERATED test / decrement / constants: a changed
  comparison operator, decrement or default makes one of these fail and names it.
-/
namespace Uberjob.Traceback
open Uberjob.Gen.Traceback

/-! ### facts about the generated fragments -/

theorem truncTest_nat (n : Nat) : truncTest (n : Int) = false := by
  unfold truncTest; simp

theorem truncTest_negOne : truncTest (-1) = true := by
  unfold truncTest; simp

theorem nextDepth_succ (n : Nat) : nextDepth ((n + 1 : Nat) : Int) = (n : Int) := by
  unfold nextDepth; omega

theorem nextDepth_zero : nextDepth ((0 : Nat) : Int) = -1 := by
  unfold nextDepth; omega

/-- `get_stack_frame()` skips exactly its own frame and the frame of the API function that called it. -/
theorem initialDepth_eq : initialDepth = 2 := rfl

theorem siteDirect_all (s : Site) : siteDirect s = true := by
  cases s <;> rfl

theorem passesFrame_all (n : Nested) : passesFrame n = true := by
  cases n <;> rfl

/-! ### capture -/

theorem recurse_negOne (stk : List Frame) :
    recurse stk (-1) = if stk = [] then Chain.none else Chain.truncated := by
  cases stk with
  | nil => simp [recurse]
  | cons f back => simp [recurse, truncTest_negOne]

/-- With `n ≥ 0` levels left, `recurse` keeps `n + 1` frames and marks the chain truncated iff more remain. -/
theorem recurse_nat (n : Nat) : ∀ stk : List Frame,
    recurse stk (n : Int)
      = Chain.ofList (stk.take (n + 1)) (if n + 1 < stk.length then Chain.truncated else Chain.none) := by
  induction n with
  | zero =>
    intro stk
    cases stk with
    | nil => simp [recurse, Chain.ofList]
    | cons f back =>
      rw [recurse, truncTest_nat, nextDepth_zero, recurse_negOne]
      cases back <;> simp [Chain.ofList]
  | succ n ih =>
    intro stk
    cases stk with
    | nil => simp [recurse, Chain.ofList]
    | cons f back =>
      rw [recurse, truncTest_nat, nextDepth_succ, ih back]
      simp [Chain.ofList]

theorem walk_eq (n : Nat) : ∀ stk : List Frame,
    walk n stk = if n ≤ stk.length then some (stk.drop n) else Option.none := by
  induction n with
  | zero => intro stk; simp [walk]
  | succ n ih =>
    intro stk
    cases stk with
    | nil => simp [walk, fBack]
    | cons f back => simp [walk, fBack, ih back]

/-! ### rendering -/

theorem ofList_nil (t : Chain) : Chain.ofList [] t = t := rfl

theorem ofList_cons (f : Frame) (fs : List Frame) (t : Chain) :
    Chain.ofList (f :: fs) t = Chain.frame f (Chain.ofList fs t) := rfl

theorem collect_ofList_clean (fs : List Frame) (tail : Chain) (h : ∀ f ∈ fs, cut f = false) :
    collect (Chain.ofList fs tail) = fs.map Entry.frame ++ collect tail := by
  induction fs with
  | nil => simp [ofList_nil]
  | cons f fs ih =>
    have hf : cut f = false := h f (by simp)
    have := ih (fun x hx => h x (by simp [hx]))
    rw [ofList_cons, collect, this]
    simp [hf]

theorem collect_ofList_cut (pre post : List Frame) (f : Frame) (tail : Chain)
    (h : ∀ x ∈ pre, cut x = false) (hf : cut f = true) :
    collect (Chain.ofList (pre ++ f :: post) tail) = pre.map Entry.frame := by
  induction pre with
  | nil => simp [ofList_cons, collect, hf]
  | cons p pre ih =>
    have hp : cut p = false := h p (by simp)
    have := ih (fun x hx => h x (by simp [hx]))
    rw [List.cons_append, ofList_cons, collect, this]
    simp [hp]

/-! ### inheritance -/

theorem gather_frames (sf fresh : Chain) :
    (∀ v c, c ∈ (gatherV sf fresh v).2 → c.frame = sf) ∧ (∀ vs c, c ∈ (gatherL sf fresh vs).2 → c.frame = sf) := by
  have key := gatherV.mutual_induct sf fresh
    (motive_1 := fun v => ∀ c, c ∈ (gatherV sf fresh v).2 → c.frame = sf)
    (motive_2 := fun vs => ∀ c, c ∈ (gatherL sf fresh vs).2 → c.frame = sf)
  refine key ?_ ?_ ?_ ?_ ?_ ?_
  · intro c hc; simp [gatherV] at hc
  · intro c hc; simp [gatherV] at hc
  · intro items r hr ih c hc
    simp only [gatherV] at hc
    rw [if_pos hr] at hc
    simp only [List.mem_append, List.mem_singleton] at hc
    rcases hc with hc | hc
    · exact ih c hc
    · subst hc; simp [pick, passesFrame_all]
  · intro items r hr ih c hc
    simp only [gatherV] at hc
    rw [if_neg hr] at hc
    exact ih c hc
  · intro c hc; simp [gatherL] at hc
  · intro v vs ih1 ih2 c hc
    simp only [gatherL, List.mem_append] at hc
    rcases hc with hc | hc
    · exact ih1 c hc
    · exact ih2 c hc

theorem callCalls_frames (k : Kind) (sf fresh : Chain) (args kwargs : List Val) :
    ∀ c ∈ callCalls k sf fresh args kwargs, c.frame = sf := by
  intro c hc
  simp only [callCalls, List.mem_cons, List.mem_append] at hc
  rcases hc with hc | hc | hc
  · subst hc; simp [pick, passesFrame_all]
  · have := (gather_frames (pick .callArgGather sf fresh) fresh).2 args c hc
    simpa [pick, passesFrame_all] using this
  · have := (gather_frames (pick .callKwargGather sf fresh) fresh).2 kwargs c hc
    simpa [pick, passesFrame_all] using this

theorem gather_kinds (sf fresh : Chain) :
    (∀ v c, c ∈ (gatherV sf fresh v).2 → c.kind = .gather) ∧ (∀ vs c, c ∈ (gatherL sf fresh vs).2 → c.kind = .gather) := by
  have key := gatherV.mutual_induct sf fresh
    (motive_1 := fun v => ∀ c, c ∈ (gatherV sf fresh v).2 → c.kind = .gather)
    (motive_2 := fun vs => ∀ c, c ∈ (gatherL sf fresh vs).2 → c.kind = .gather)
  refine key ?_ ?_ ?_ ?_ ?_ ?_
  · intro c hc; simp [gatherV] at hc
  · intro c hc; simp [gatherV] at hc
  · intro items r hr ih c hc
    simp only [gatherV] at hc
    rw [if_pos hr] at hc
    simp only [List.mem_append, List.mem_singleton] at hc
    rcases hc with hc | hc
    · exact ih c hc
    · subst hc; rfl
  · intro items r hr ih c hc
    simp only [gatherV] at hc
    rw [if_neg hr] at hc
    exact ih c hc
  · intro c hc; simp [gatherL] at hc
  · intro v vs ih1 ih2 c hc
    simp only [gatherL, List.mem_append] at hc
    rcases hc with hc | hc
    · exact ih1 c hc
    · exact ih2 c hc

/-- The calls created by one `_call`: the call itself (of the given kind) first, then only gather calls. -/
theorem callCalls_kinds (k : Kind) (sf fresh : Chain) (args kwargs : List Val) :
    ∃ rest, callCalls k sf fresh args kwargs = ⟨k, sf⟩ :: rest ∧ ∀ c ∈ rest, c.kind = .gather := by
  refine ⟨(gatherL sf fresh args).2 ++ (gatherL sf fresh kwargs).2, by simp [callCalls, pick, passesFrame_all], ?_⟩
  intro c hc
  simp only [List.mem_append] at hc
  rcases hc with hc | hc
  · exact (gather_kinds _ fresh).2 args c hc
  · exact (gather_kinds _ fresh).2 kwargs c hc

theorem filter_flatMap_const_length {α β : Type} (l : List α) (a : β) (p : β → Bool) (h : p a = true) :
    ((l.flatMap (fun _ => [a])).filter p).length = l.length := by
  induction l with
  | nil => rfl
  | cons x xs ih => simp [List.flatMap_cons, h, ih]

end Uberjob.Traceback
