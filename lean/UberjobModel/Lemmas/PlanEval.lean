import UberjobModel.Lemmas.PlanArgs
/-!
  Direct evaluation: the table, its fixed-point equation on well-formed plans, frame lemmas for extensions.
-/
namespace Uberjob.Plan

/-- `st'` extends `st`: more nodes at the end, more edges, and every new edge points to a new node. -/
def Ext (st st' : PlanSt) : Prop :=
  ∃ ns es, st'.nodes = st.nodes ++ ns ∧ st'.edges = st.edges ++ es ∧ ∀ e ∈ es, st.nodes.length ≤ e.dst

theorem Ext.refl (st : PlanSt) : Ext st st := ⟨[], [], by simp, by simp, by simp⟩

theorem Ext.trans {a b c : PlanSt} (h1 : Ext a b) (h2 : Ext b c) : Ext a c := by
  obtain ⟨n1, e1, hn1, he1, hd1⟩ := h1
  obtain ⟨n2, e2, hn2, he2, hd2⟩ := h2
  refine ⟨n1 ++ n2, e1 ++ e2, by rw [hn2, hn1]; simp, by rw [he2, he1]; simp, ?_⟩
  intro e he
  rcases List.mem_append.mp he with he | he
  · exact hd1 e he
  · have := hd2 e he; rw [hn1] at this; simp at this; omega

theorem Ext.len_le {a b : PlanSt} (h : Ext a b) : a.nodes.length ≤ b.nodes.length := by
  obtain ⟨n1, _, hn1, _, _⟩ := h; rw [hn1]; simp

theorem Ext.node_eq {a b : PlanSt} (h : Ext a b) {n : Nat} (hn : n < a.nodes.length) : b.nodes[n]? = a.nodes[n]? := by
  obtain ⟨n1, _, hn1, _, _⟩ := h; rw [hn1, List.getElem?_append_left hn]

theorem Ext.inEdges_eq {a b : PlanSt} (h : Ext a b) {n : Nat} (hn : n < a.nodes.length) :
    inEdges b.edges n = inEdges a.edges n := by
  obtain ⟨_, es, _, he, hd⟩ := h
  rw [he]; unfold inEdges
  rw [List.filter_append, filter_dst_eq_nil (l := es)]
  · simp
  · intro e hm; have := hd e hm; omega

theorem getArgumentNodes_congr {es es' : List Edge} {c : Nat} (h : inEdges es' c = inEdges es c) :
    getArgumentNodes es' c = getArgumentNodes es c := by
  unfold getArgumentNodes; rw [h]

theorem evalNode_ext {a b : PlanSt} (h : Ext a b) {n : Nat} (hn : n < a.nodes.length) (ρ : Nat → Val) :
    evalNode b ρ n = evalNode a ρ n := by
  unfold evalNode
  rw [h.node_eq hn, getArgumentNodes_congr (h.inEdges_eq hn)]

theorem evalAll_length (st : PlanSt) : ∀ k, (evalAll st k).length = k
  | 0 => rfl
  | k + 1 => by simp [evalAll, evalAll_length st k]

theorem evalAll_ext {a b : PlanSt} (h : Ext a b) : ∀ k, k ≤ a.nodes.length → evalAll b k = evalAll a k
  | 0, _ => rfl
  | k + 1, hk => by
    simp only [evalAll]
    rw [evalAll_ext h k (by omega), evalNode_ext h (by omega)]

/-- Entries of the table never change once written. -/
theorem evalAll_getD (st : PlanSt) (i : Nat) : ∀ k, i < k → (evalAll st k).getD i .fail = eval st i
  | 0, h => by omega
  | k + 1, h => by
    by_cases e : i = k
    · subst e; rfl
    · have ih := evalAll_getD st i k (by omega)
      simp only [evalAll]
      rw [List.getD_eq_getElem?_getD, List.getElem?_append_left (by rw [evalAll_length]; omega),
        ← List.getD_eq_getElem?_getD]
      exact ih

theorem eval_ext {a b : PlanSt} (h : Ext a b) {n : Nat} (hn : n < a.nodes.length) : eval b n = eval a n := by
  unfold eval; rw [evalAll_ext h (n + 1) (by omega)]

/-- `eval` unfolds to one application of `evalNode` on the table of the smaller nodes. -/
theorem eval_unfold (st : PlanSt) (n : Nat) :
    eval st n = evalNode st (fun p => (evalAll st n).getD p .fail) n := by
  unfold eval
  simp only [evalAll]
  rw [List.getD_eq_getElem?_getD, List.getElem?_append_right (by rw [evalAll_length]; omega)]
  simp [evalAll_length]

theorem evalNode_congr (st : PlanSt) (n : Nat) (ρ ρ' : Nat → Val)
    (h : ∀ e ∈ st.edges, e.dst = n → e.key ≠ .dep → ρ e.src = ρ' e.src) : evalNode st ρ n = evalNode st ρ' n := by
  unfold evalNode
  split
  · rfl
  · rfl
  · split
    · rfl
    · rename_i f as kws hg
      have hs := src_of_getArgumentNodes hg
      congr 1
      · apply List.map_congr_left
        intro a ha
        obtain ⟨e, he, hd, hsrc, hk⟩ := hs.1 a ha
        rw [← hsrc]; exact h e he hd hk
      · apply List.map_congr_left
        intro q hq
        obtain ⟨e, he, hd, hsrc, hk⟩ := hs.2 q hq
        rw [← hsrc, h e he hd hk]

/-- On a well-formed plan direct evaluation satisfies its defining equation with itself as environment. -/
theorem eval_fix {st : PlanSt} (hwf : WF st) (n : Nat) : eval st n = evalNode st (eval st) n := by
  rw [eval_unfold]
  apply evalNode_congr
  intro e he hd _
  have := (hwf e he).1
  exact evalAll_getD st e.src n (by omega)

/-! ### new nodes -/

theorem WF_lit {st : PlanSt} (h : WF st) (v : PV) : WF (lit st v).1 := by
  intro e he
  have := h e he
  simp only [lit, List.length_append, List.length_cons, List.length_nil] at *
  omega

theorem Ext_lit (st : PlanSt) (v : PV) : Ext st (lit st v).1 := ⟨[.lit v], [], rfl, by simp [lit], by simp⟩

theorem eval_lit (st : PlanSt) (v : PV) : eval (lit st v).1 (lit st v).2 = embed v := by
  rw [eval_unfold]
  simp [evalNode, lit]

theorem WF_mkCall {st : PlanSt} (h : WF st) (f : Fn) (as : List Nat) (kws : List (String × Nat))
    (ha : ∀ a ∈ as, a < st.nodes.length) (hk : ∀ q ∈ kws, q.2 < st.nodes.length) : WF (mkCall st f as kws).1 := by
  intro e he
  simp only [mkCall, List.mem_append, List.length_append, List.length_cons, List.length_nil] at *
  rcases he with (he | he) | he
  · have := h e he; omega
  · have h1 := dst_posEdges _ as 0 e he
    have h2 := ha _ (src_posEdges _ as 0 e he)
    omega
  · have h1 := dst_kwEdges _ kws 0 e he
    have h2 := src_kwEdges _ kws 0 e he
    simp only [List.mem_map] at h2
    obtain ⟨q, hq, e2⟩ := h2
    have := hk q hq
    omega

theorem Ext_mkCall (st : PlanSt) (f : Fn) (as : List Nat) (kws : List (String × Nat)) : Ext st (mkCall st f as kws).1 := by
  refine ⟨[.call f], posEdges st.nodes.length 0 as ++ kwEdges st.nodes.length 0 kws, rfl, by simp [mkCall], ?_⟩
  intro e he
  rcases List.mem_append.mp he with he | he
  · rw [dst_posEdges _ as 0 e he]; exact Nat.le_refl _
  · rw [dst_kwEdges _ kws 0 e he]; exact Nat.le_refl _

/-- The value of a new call: its function applied to the values of its argument nodes, positional in order,
    keyword under their names in order. -/
theorem eval_mkCall {st : PlanSt} (h : WF st) (f : Fn) (as : List Nat) (kws : List (String × Nat))
    (ha : ∀ a ∈ as, a < st.nodes.length) (hk : ∀ q ∈ kws, q.2 < st.nodes.length) (hn : (kws.map (·.1)).Nodup) :
    eval (mkCall st f as kws).1 (mkCall st f as kws).2
      = applyFn f (as.map (eval st)) (kws.map (fun p => (p.1, eval st p.2))) := by
  have hwf := WF_mkCall h f as kws ha hk
  have hext := Ext_mkCall st f as kws
  rw [eval_fix hwf]
  have hg : getArgumentNodes (mkCall st f as kws).1.edges st.nodes.length = some (as, kws) := by
    apply getArgumentNodes_mkCall st.edges st.nodes.length as kws _ hn
    · simp [mkCall]
    · intro e he; have := (h e he).2; omega
  have hnode : (mkCall st f as kws).1.nodes[st.nodes.length]? = some (.call f) := by simp [mkCall]
  show evalNode (mkCall st f as kws).1 _ st.nodes.length = _
  unfold evalNode
  rw [hnode, hg]
  simp only
  congr 1
  · apply List.map_congr_left; intro a ha'; exact eval_ext hext (ha a ha')
  · apply List.map_congr_left; intro q hq; rw [eval_ext hext (hk q hq)]

end Uberjob.Plan
