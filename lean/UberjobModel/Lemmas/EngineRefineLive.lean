import UberjobModel.Lemmas.EngineRefine
import UberjobModel.Lemmas.EngineMeasure
import UberjobModel.Lemmas.EngineLive
/-!
  Liveness of the fine model (`Model/EngineFine.lean`): with the two locks as explicit resources there is still no
  deadlock — a thread never waits for one lock while holding the other, and a lock holder can always take its next step —
  and every step decreases an explicit measure, so every schedule of the individual statements is finite.
-/
set_option linter.unusedSectionVars false
set_option linter.unusedSimpArgs false
namespace Uberjob.EngineFine
open Uberjob.Engine
open Uberjob.Gen.Engine

def lockPot : Option Region → Nat
  | none => 4
  | some r => match r.stage with
    | .acquired => 3
    | .decremented => 2
    | .tested _ => 1
    | .done => 5

def flockPot : Option FRegion → Nat
  | none => 4
  | some r => match r.stage with
    | .acquired => 3
    | .counted => 2
    | .firstSet => 1
    | .done => 5

/-- Five times the coarse measure of the state the fine state stands for, plus what is left of the blocks in progress. -/
def mu2 (g : Graph) (cfg : Cfg) (s : St2) : Nat := 5 * mu g cfg (abs s) + lockPot s.lock + flockPot s.flock

/-- How a fine step changes the two lock fields. -/
theorem pot_step {g : Graph} {cfg : Cfg} {s s' : St2} {l : Label2} (h : step2? g cfg s l = some s') :
    (commits l = false → lockPot s'.lock + flockPot s'.flock + 1 = lockPot s.lock + flockPot s.flock) ∧
    (commits l = true → lockPot s'.lock + flockPot s'.flock ≤ lockPot s.lock + flockPot s.flock + 4) := by
  cases l <;> simp only [step2?] at h <;> simp only [commits]
  case base l =>
    by_cases hb : blocked s l = true
    · simp [hb] at h
    · simp only [hb, Bool.false_eq_true, if_false] at h
      refine ⟨(fun hh => by cases hh), fun _ => ?_⟩
      cases l <;> simp only at h
      case release w y =>
        split at h
        · cases hc : step? g cfg s.c (.release w y) with
          | none => rw [hc] at h; cases h
          | some c' => rw [hc] at h; cases h; simp
        · cases h
      case finFail w => cases h
      all_goals
        cases hc : step? g cfg s.c _ with
        | none => rw [hc] at h; cases h
        | some c' => rw [hc] at h; cases h; simp
  case acquire w y =>
    split at h
    · next x todo hl hw =>
      split at h
      · cases h; simp [lockPot, hl] <;> omega
      · cases h
    · cases h
  case dec w =>
    split at h
    · next r hl =>
      split at h
      · next hc => cases h; simp [lockPot, hl, hc.2] <;> omega
      · cases h
    · cases h
  case test w =>
    split at h
    · next r hl =>
      split at h
      · next hc => cases h; simp [lockPot, hl, hc.2] <;> omega
      · cases h
    · cases h
  case put w =>
    split at h
    · next r hl =>
      split at h
      · next b hst =>
        split at h
        · cases h; simp [lockPot, hl, hst] <;> omega
        · cases h
      all_goals cases h
    · cases h
  case unlock w =>
    split at h
    · next r hl =>
      split at h
      · next hc => cases h; simp [lockPot, hl, hc.2] <;> omega
      · cases h
    · cases h
  case facquire w =>
    split at h
    · next x hl hw => cases h; simp [flockPot, hl] <;> omega
    · cases h
  case fcount w =>
    split at h
    · next r hl =>
      split at h
      · next hc => cases h; simp [flockPot, hl, hc.2] <;> omega
      · cases h
    · cases h
  case ffirst w =>
    split at h
    · next r hl =>
      split at h
      · next hc => cases h; simp [flockPot, hl, hc.2] <;> omega
      · cases h
    · cases h
  case fstop w =>
    split at h
    · next r hl =>
      split at h
      · next hc => cases h; simp [flockPot, hl, hc.2] <;> omega
      · cases h
    · cases h
  case funlock w =>
    split at h
    · next r hl =>
      split at h
      · next hc => cases h; simp [flockPot, hl, hc.2] <;> omega
      · cases h
    · cases h

/-- **Every step of the fine model strictly decreases `mu2`**: every schedule of the individual statements is finite. -/
theorem mu2_decreases {g : Graph} (hg : g.WF) {cfg : Cfg} {s s' : St2} {l : Label2}
    (hr : Reach2 g cfg s) (h : step2? g cfg s l = some s') : mu2 g cfg s' < mu2 g cfg s := by
  obtain ⟨hra, hf⟩ := refine_reach hg hr
  obtain ⟨_, hsim⟩ := sim hg hra hf h
  obtain ⟨hp1, hp2⟩ := pot_step h
  unfold mu2
  cases hc : commits l with
  | true =>
    simp only [hc, if_true] at hsim
    obtain ⟨l1, hl1⟩ := hsim
    have := mu_decreases hg (inv_reach hg hra) hl1
    have := hp2 hc
    omega
  | false =>
    simp only [hc, Bool.false_eq_true, if_false] at hsim
    rw [hsim]
    have := hp1 hc
    omega

/-- **No deadlock in the fine model**: unless the run has returned, some thread can take a step (and it is not the external
    `interrupt`).  A lock holder can always take the next step of its block; with both locks free, whatever the coarse model
    can do is available — as the first step of a block where the coarse model takes the block at once. -/
theorem fine_progress {g : Graph} (hg : g.WF) {cfg : Cfg} (hw : 1 ≤ cfg.workers) {s : St2} (hr : Reach2 g cfg s)
    (hnf : ∀ i, s.c.coord ≠ .returned i) :
    ∃ l, l ≠ Label2.base .interrupt ∧ (step2? g cfg s l).isSome := by
  obtain ⟨hra, hfR, hfF⟩ := refine_reach hg hr
  cases hlk : s.lock with
  | some r =>
    -- the holder of the counter lock moves on
    cases hst : r.stage with
    | acquired => exact ⟨.dec r.w, by simp, by simp [step2?, hlk, hst]⟩
    | decremented => exact ⟨.test r.w, by simp, by simp [step2?, hlk, hst]⟩
    | tested b => exact ⟨.put r.w, by simp, by simp [step2?, hlk, hst]⟩
    | done => exact ⟨.unlock r.w, by simp, by simp [step2?, hlk, hst]⟩
  | none =>
    cases hfl : s.flock with
    | some r =>
      cases hst : r.stage with
      | acquired => exact ⟨.fcount r.w, by simp, by simp [step2?, hfl, hst]⟩
      | counted => exact ⟨.ffirst r.w, by simp, by simp [step2?, hfl, hst]⟩
      | firstSet => exact ⟨.fstop r.w, by simp, by simp [step2?, hfl, hst]⟩
      | done => exact ⟨.funlock r.w, by simp, by simp [step2?, hfl, hst]⟩
    | none =>
      have habs : abs s = s.c := by simp [abs, absF, absR, hlk, hfl]
      rw [habs] at hra
      obtain ⟨l, hne, hl⟩ := progress (g := g) hw (inv2_reach hw hra) (inv3_reach hw hra) hnf
      have hnb : blocked s l = false := by
        simp only [blocked, holds, hlk, hfl, Bool.or_self]
        cases labelWorker l <;> rfl
      cases l with
      | release w y =>
        by_cases hsing : classify (g.predCount y) = Kind.single
        · exact ⟨.base (.release w y), by simp, by
            simp only [step2?, hnb, Bool.false_eq_true, if_false, hsing, beq_self_eq_true, if_true]
            obtain ⟨c', hc'⟩ := Option.isSome_iff_exists.mp hl
            simp [hc']⟩
        · -- the coarse model would take the whole block at once: here the worker takes the lock
          simp only [step?] at hl
          split at hl
          · next x todo hws =>
            split at hl
            · next hy =>
              exact ⟨.acquire w y, by simp, by simp [step2?, hlk, hws, hy, hsing]⟩
            · simp at hl
          · simp at hl
      | finFail w =>
        simp only [step?] at hl
        split at hl
        · next x hws => exact ⟨.facquire w, by simp, by simp [step2?, hfl, hws]⟩
        · simp at hl
      | interrupt => exact absurd rfl hne
      | spawn => exact ⟨.base .spawn, by simp, by
          obtain ⟨c', hc'⟩ := Option.isSome_iff_exists.mp hl
          simp [step2?, hnb, hc']⟩
      | get w i => exact ⟨.base (.get w i), by simp, by
          obtain ⟨c', hc'⟩ := Option.isSome_iff_exists.mp hl
          simp [step2?, hnb, hc']⟩
      | check w => exact ⟨.base (.check w), by simp, by
          obtain ⟨c', hc'⟩ := Option.isSome_iff_exists.mp hl
          simp [step2?, hnb, hc']⟩
      | finOk w => exact ⟨.base (.finOk w), by simp, by
          obtain ⟨c', hc'⟩ := Option.isSome_iff_exists.mp hl
          simp [step2?, hnb, hc']⟩
      | taskDone w => exact ⟨.base (.taskDone w), by simp, by
          obtain ⟨c', hc'⟩ := Option.isSome_iff_exists.mp hl
          simp [step2?, hnb, hc']⟩
      | joinReturn => exact ⟨.base .joinReturn, by simp, by
          obtain ⟨c', hc'⟩ := Option.isSome_iff_exists.mp hl
          simp [step2?, hnb, hc']⟩
      | setStop => exact ⟨.base .setStop, by simp, by
          obtain ⟨c', hc'⟩ := Option.isSome_iff_exists.mp hl
          simp [step2?, hnb, hc']⟩
      | putDone => exact ⟨.base .putDone, by simp, by
          obtain ⟨c', hc'⟩ := Option.isSome_iff_exists.mp hl
          simp [step2?, hnb, hc']⟩
      | joined => exact ⟨.base .joined, by simp, by
          obtain ⟨c', hc'⟩ := Option.isSome_iff_exists.mp hl
          simp [step2?, hnb, hc']⟩

end Uberjob.EngineFine
