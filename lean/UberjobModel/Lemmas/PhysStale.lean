import UberjobModel.Lemmas.PhysBuild
import UberjobModel.Lemmas.CacheRun
/-!
  Link between the physical plan and the stale check: the input of `physBuild` seen as a logical plan `LPlan` of the
  cache model, and the chain `W i ⇝ W j` of "brought up to date" nodes along every logical path that starts at an
  out-of-date registered node.
-/
namespace Uberjob.Phys

/-- The logical plan the stale check runs on. -/
def Input.toLPlan (P : Input) : Cache.LPlan :=
  ⟨maxL P.nodes + 1, P.logicalPreds,
   fun i => (P.edges.filter (fun e => e.dst == i && e.key.isArg)).map (·.src), P.regOf⟩

theorem toLPlan_wf {P : Input} (hP : P.WF) : P.toLPlan.WF := by
  constructor
  · intro i p hp
    obtain ⟨e, he, h1, h2⟩ := mem_logicalPreds.mp hp
    have := hP.topo e he
    omega
  · intro i p hp
    simp only [Input.toLPlan, List.mem_map, List.mem_filter, Bool.and_eq_true, beq_iff_eq] at hp
    obtain ⟨e, ⟨he, hd, _⟩, hs⟩ := hp
    exact mem_logicalPreds.mpr ⟨e, he, hs, hd⟩

/-- The node whose completion means "`j` is available downstream": the node itself when it is not registered,
    its write call / Barrier when it is. -/
def Input.tail (P : Input) (j : Nat) : PN :=
  match P.regOf j with
  | none => .orig j
  | some _ => P.W j

theorem adj_built {P : Input} {e : Edge PN} (h : e ∈ (physBuild P).edges) : Adj (physBuild P).edges e.src e.dst :=
  adj_of_mem h

theorem W_to_read {P : Input} {p : Nat} {s : Bool} (hr : P.regOf p = some s) (hs : P.isStale p = true) :
    Adj (physBuild P).edges (P.W p) (.read p) := by
  have hm := mem_of_regOf hr
  rw [W_of_regOf hr]
  cases s with
  | true =>
    exact ⟨⟨.barrier p, .read p, .dep⟩, mem_built_edges.mpr (Or.inr ⟨(p, true), hm, by simp [Input.gadgetEdges, hs]⟩), rfl, rfl⟩
  | false =>
    exact ⟨⟨.write p, .read p, .dep⟩, mem_built_edges.mpr (Or.inr ⟨(p, false), hm, by simp [Input.gadgetEdges, hs]⟩), rfl, rfl⟩

/-- From "`p` is available" to the node of a direct successor. -/
theorem tail_to_orig {P : Input} {p j : Nat} {k : Key} (he : (⟨p, j, k⟩ : LEdge) ∈ P.edges)
    (hp : ∀ s, P.regOf p = some s → P.isStale p = true) : Path (physBuild P).edges (P.tail p) (.orig j) := by
  unfold Input.tail
  cases hr : P.regOf p with
  | none =>
    simp only
    exact Path.single ⟨⟨.orig p, .orig j, k⟩,
      mem_built_edges.mpr (Or.inl ⟨_, he, by simp [Input.rewire, hr]⟩), rfl, rfl⟩
  | some s =>
    simp only
    have hs := hp s hr
    cases hk : k.isArg with
    | true =>
      refine Path.head (W_to_read hr hs) (Path.single ⟨⟨.read p, .orig j, k⟩,
        mem_built_edges.mpr (Or.inl ⟨_, he, by simp [Input.rewire, hr, hk]⟩), rfl, rfl⟩)
    | false =>
      exact Path.single ⟨⟨P.W p, .orig j, .dep⟩,
        mem_built_edges.mpr (Or.inl ⟨_, he, by simp [Input.rewire, hr, hk, Input.depSrc, hs]⟩), rfl, rfl⟩

theorem depSrc_tail {P : Input} {p : Nat} (hp : ∀ s, P.regOf p = some s → P.isStale p = true) :
    P.depSrc p = some (P.tail p) := by
  unfold Input.depSrc Input.tail
  cases hr : P.regOf p with
  | none => rfl
  | some s => simp [hp s hr]

/-- One logical edge between nodes that are out of date whenever they are registered. -/
theorem edge_to_tail {P : Input} {p j : Nat} {k : Key} (he : (⟨p, j, k⟩ : LEdge) ∈ P.edges)
    (hp : ∀ s, P.regOf p = some s → P.isStale p = true) (hj : ∀ s, P.regOf j = some s → P.isStale j = true) :
    Path (physBuild P).edges (P.tail p) (P.tail j) := by
  cases hr : P.regOf j with
  | none =>
    have : P.tail j = .orig j := by simp [Input.tail, hr]
    rw [this]; exact tail_to_orig he hp
  | some s =>
    have hs := hj s hr
    have hm := mem_of_regOf hr
    have ht : P.tail j = P.W j := by simp [Input.tail, hr]
    rw [ht, W_of_regOf hr]
    cases s with
    | false =>
      refine Path.cons (tail_to_orig he hp) ⟨⟨.orig j, .write j, .pos 1⟩,
        mem_built_edges.mpr (Or.inr ⟨(j, false), hm, by simp [Input.gadgetEdges, hs]⟩), rfl, rfl⟩
    | true =>
      refine Path.single ⟨⟨P.tail p, .barrier j, .dep⟩, mem_built_edges.mpr (Or.inr ⟨(j, true), hm, ?_⟩), rfl, rfl⟩
      simp only [Input.gadgetEdges, hs, if_true, List.mem_cons, List.mem_filterMap, Option.map_eq_some_iff]
      right; right
      exact ⟨p, mem_logicalPreds.mpr ⟨_, he, rfl, rfl⟩, P.tail p, depSrc_tail hp, rfl⟩

/-- Along every logical path from `i`, all of whose registered nodes are out of date, the "available" nodes are
    chained in the physical plan. -/
theorem tail_chain {P : Input} {i j : Nat} (h : Cache.Reach P.toLPlan i j)
    (hall : ∀ q, Cache.Reach P.toLPlan i q → ∀ s, P.regOf q = some s → P.isStale q = true) :
    i = j ∨ Path (physBuild P).edges (P.tail i) (P.tail j) := by
  induction h with
  | refl => exact Or.inl rfl
  | @step p j hqp hp ih =>
    obtain ⟨e, he, h1, h2⟩ := mem_logicalPreds.mp hp
    have he' : (⟨p, j, e.key⟩ : LEdge) ∈ P.edges := by
      have : e = ⟨p, j, e.key⟩ := by cases e; simp_all
      rw [← this]; exact he
    have hstep := edge_to_tail he' (hall p hqp) (hall j (Cache.Reach.step hqp hp))
    rcases ih with rfl | hpath
    · exact Or.inr hstep
    · exact Or.inr (hpath.trans hstep)

end Uberjob.Phys
