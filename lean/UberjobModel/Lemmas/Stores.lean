import UberjobModel.Model.Stores
import UberjobModel.Lemmas.TextCodec
import UberjobModel.Lemmas.FileStore
/-!
  Small lemmas for Props/C12.
-/
namespace Uberjob.Stores
open Uberjob.FileStore Uberjob.Gen.FileStore Uberjob.TextCodec

/-- A text without carriage returns survives every read mode (json.dump never emits one). -/
theorem decodeText_noCR (nl : Gen.TextCodec.Newline) (s : Str) (h : CR ∉ s) : decodeText nl s = s := by
  cases nl <;> first | rfl | exact univ_noCR s h

theorem payload_chunkOps (chunks : List Bytes) : payload (chunkOps chunks) = chunks.flatten := by
  induction chunks with
  | nil => rfl
  | cons c r ih => simp [chunkOps, payload] at ih ⊢; exact ih

theorem noFail_chunkOps (chunks : List Bytes) : noFail (chunkOps chunks) = true := by
  induction chunks with
  | nil => rfl
  | cons c r ih => simpa [chunkOps, noFail] using ih

theorem mtimeLE_refl (a : Option Nat) : mtimeLE a a := by cases a <;> simp [mtimeLE]

theorem mtimeLE_trans {a b c : Option Nat} (h1 : mtimeLE a b) (h2 : mtimeLE b c) : mtimeLE a c := by
  cases a <;> cases b <;> cases c <;> simp_all [mtimeLE]
  omega

section
variable {α : Type} [DecidableEq α]

theorem runAttempts_append (cfg : Cfg) (stg tgt : α) (as bs : List Attempt) (fs : FS α) :
    runAttempts cfg stg tgt (as ++ bs) fs = runAttempts cfg stg tgt bs (runAttempts cfg stg tgt as fs) := by
  induction as generalizing fs with
  | nil => rfl
  | cons a r ih => simp [runAttempts, ih]

end

end Uberjob.Stores
