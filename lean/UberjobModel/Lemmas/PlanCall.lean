import UberjobModel.Lemmas.PlanGather
/-!
  `gather`, `addCall`, `unpack`: values of the nodes they return; execution by slots in any admissible order.
-/
namespace Uberjob.Plan
open Uberjob.Gen.Plan (Ty GFn gatherLookup gfnBuilds unpackTake unpackOk)

theorem substList_eq_map (ρ : Nat → Val) : ∀ xs : List PV, substList ρ xs = xs.map (subst ρ)
  | [] => rfl
  | x :: xs => by simp [substList, substList_eq_map ρ xs]

theorem embedList_eq_map : ∀ xs : List PV, embedList xs = xs.map embed
  | [] => rfl
  | x :: xs => by simp [embedList, embedList_eq_map xs]

theorem nodesBelowL_iff (b : Nat) : ∀ xs : List PV, PV.nodesBelowL b xs = true ↔ ∀ x ∈ xs, x.nodesBelow b = true
  | [] => by simp [PV.nodesBelowL]
  | x :: xs => by simp [PV.nodesBelowL, nodesBelowL_iff b xs]

/-- `gather`: the returned node evaluates to the substitution. -/
theorem gather_ok (b : Nat) (v : PV) {st : PlanSt} (hwf : WF st) (hb : b ≤ st.nodes.length) (hv : v.nodesBelow b = true) :
    WF (gather st v).1 ∧ Ext st (gather st v).1 ∧ (gather st v).2 < (gather st v).1.nodes.length ∧
      eval (gather st v).1 (gather st v).2 = subst (eval st) v := by
  obtain ⟨w, e, _, ok, hval, _⟩ := recurse_ok b v st hwf hb hv
  obtain ⟨w2, e2, l2, v2⟩ := asNode_spec w (recurse st v).2 ok
  exact ⟨w2, e.trans e2, l2, by simp only [gather]; rw [v2, hval]⟩

theorem asNode_nonnode (st : PlanSt) {r : PV} (h : r.isNode = false) : asNode st r = lit st r := by
  cases r <;> simp [PV.isNode] at h <;> rfl

/-- A value without nodes becomes a literal node holding the very object. -/
theorem gather_nodefree (b : Nat) (v : PV) {st : PlanSt} (hwf : WF st) (hb : b ≤ st.nodes.length)
    (hv : v.nodesBelow b = true) (hc : v.containsNode = false) : gather st v = lit st v := by
  obtain ⟨_, _, hn, _, _, hs⟩ := recurse_ok b v st hwf hb hv
  have h := hs hc
  simp only [gather]
  rw [h]
  have : v.isNode = false := by rw [h] at hn; rw [← hc]; exact hn
  exact asNode_nonnode st this

theorem gatherList_ok (b : Nat) : ∀ (args : List PV) {st : PlanSt}, WF st → b ≤ st.nodes.length →
    PV.nodesBelowL b args = true →
    WF (gatherList st args).1 ∧ Ext st (gatherList st args).1 ∧
      (∀ a ∈ (gatherList st args).2, a < (gatherList st args).1.nodes.length) ∧
      (gatherList st args).2.map (eval (gatherList st args).1) = args.map (subst (eval st))
  | [], st, hwf, _, _ => ⟨hwf, Ext.refl _, by simp [gatherList], by simp [gatherList]⟩
  | v :: vs, st, hwf, hb, hv => by
    simp only [PV.nodesBelowL, Bool.and_eq_true] at hv
    obtain ⟨w1, e1, l1, v1⟩ := gather_ok b v hwf hb hv.1
    obtain ⟨w2, e2, l2, v2⟩ := gatherList_ok b vs w1 (Nat.le_trans hb e1.len_le) hv.2
    simp only [gatherList]
    refine ⟨w2, e1.trans e2, ?_, ?_⟩
    · intro a ha
      simp only [List.mem_cons] at ha
      rcases ha with ha | ha
      · rw [ha]; have := e2.len_le; omega
      · exact l2 a ha
    · simp only [List.map_cons]
      rw [eval_ext e2 l1, v1, v2]
      congr 1
      apply List.map_congr_left
      intro x hx
      exact subst_congr _ _ b (fun n hn => eval_ext e1 (by omega)) x ((nodesBelowL_iff b vs).mp hv.2 x hx)

theorem gatherKw_ok (b : Nat) : ∀ (kwargs : List (String × PV)) {st : PlanSt}, WF st → b ≤ st.nodes.length →
    PV.nodesBelowL b (kwargs.map (·.2)) = true →
    WF (gatherKw st kwargs).1 ∧ Ext st (gatherKw st kwargs).1 ∧
      (∀ q ∈ (gatherKw st kwargs).2, q.2 < (gatherKw st kwargs).1.nodes.length) ∧
      (gatherKw st kwargs).2.map (·.1) = kwargs.map (·.1) ∧
      (gatherKw st kwargs).2.map (fun p => (p.1, eval (gatherKw st kwargs).1 p.2))
        = kwargs.map (fun p => (p.1, subst (eval st) p.2))
  | [], st, hwf, _, _ => ⟨hwf, Ext.refl _, by simp [gatherKw], by simp [gatherKw], by simp [gatherKw]⟩
  | (name, v) :: vs, st, hwf, hb, hv => by
    simp only [List.map_cons, PV.nodesBelowL, Bool.and_eq_true] at hv
    obtain ⟨w1, e1, l1, v1⟩ := gather_ok b v hwf hb hv.1
    obtain ⟨w2, e2, l2, n2, v2⟩ := gatherKw_ok b vs w1 (Nat.le_trans hb e1.len_le) hv.2
    simp only [gatherKw]
    refine ⟨w2, e1.trans e2, ?_, ?_, ?_⟩
    · intro a ha
      simp only [List.mem_cons] at ha
      rcases ha with ha | ha
      · rw [ha]; have := e2.len_le; simp only; omega
      · exact l2 a ha
    · simp only [List.map_cons, n2]
    · simp only [List.map_cons]
      rw [eval_ext e2 l1, v1, v2]
      congr 1
      apply List.map_congr_left
      intro x hx
      have hx' : x.2.nodesBelow b = true :=
        (nodesBelowL_iff b (vs.map (·.2))).mp hv.2 x.2 (List.mem_map_of_mem hx)
      rw [subst_congr _ _ b (fun n hn => eval_ext e1 (by omega)) x.2 hx']

/-- `Plan.call`: the call evaluates to its function applied to the substituted positional arguments in order
    and the substituted keyword arguments under their names in order. -/
theorem addCall_ok (f : Fn) (args : List PV) (kwargs : List (String × PV)) {st : PlanSt} (hwf : WF st)
    (ha : PV.nodesBelowL st.nodes.length args = true) (hk : PV.nodesBelowL st.nodes.length (kwargs.map (·.2)) = true)
    (hn : (kwargs.map (·.1)).Nodup) :
    WF (addCall st f args kwargs).1 ∧ Ext st (addCall st f args kwargs).1 ∧
      (addCall st f args kwargs).2 < (addCall st f args kwargs).1.nodes.length ∧
      eval (addCall st f args kwargs).1 (addCall st f args kwargs).2
        = applyFn f (args.map (subst (eval st))) (kwargs.map (fun p => (p.1, subst (eval st) p.2))) := by
  obtain ⟨w1, e1, l1, v1⟩ := gatherList_ok st.nodes.length args hwf (Nat.le_refl _) ha
  obtain ⟨w2, e2, l2, n2, v2⟩ := gatherKw_ok st.nodes.length kwargs w1 e1.len_le hk
  have l1' : ∀ a ∈ (gatherList st args).2, a < (gatherKw (gatherList st args).1 kwargs).1.nodes.length := by
    intro a h; have := l1 a h; have := e2.len_le; omega
  have hn' : ((gatherKw (gatherList st args).1 kwargs).2.map (·.1)).Nodup := by rw [n2]; exact hn
  simp only [addCall]
  refine ⟨WF_mkCall w2 f _ _ l1' l2, (e1.trans e2).trans (Ext_mkCall _ _ _ _), by simp [mkCall], ?_⟩
  rw [eval_mkCall w2 f _ _ l1' l2 hn', v2]
  congr 1
  · rw [← v1]
    apply List.map_congr_left
    intro a h
    exact eval_ext e2 (l1 a h)
  · apply List.map_congr_left
    intro x hx
    have hx' : x.2.nodesBelow st.nodes.length = true :=
      (nodesBelowL_iff _ (kwargs.map (·.2))).mp hk x.2 (List.mem_map_of_mem hx)
    rw [subst_congr _ _ st.nodes.length (fun n hn => eval_ext e1 (by omega)) x.2 hx']

/-! ### unpack -/

/-- "unpack yields exactly the n items": item `j` of the iterable if it has exactly `n` items, else no value. -/
def unpackItem (val : Val) (n j : Nat) : Val :=
  match iterItems val with
  | some xs => if xs.length = n then xs.getD j .fail else .fail
  | none => .fail

theorem unpackOk_iff (n len : Nat) : unpackOk n (min (unpackTake n) len) = true ↔ len = n := by
  have h : ∀ (p : Prop) [Decidable p], ((!decide p) = true ↔ ¬ p) := by intro p _; simp
  unfold unpackOk unpackTake
  rw [Bool.and_eq_true, h, h]
  omega

theorem iterItems_fail : iterItems .fail = none := rfl

theorem getitem_unpack (val : Val) (n j : Nat) :
    applyFn .getitem [applyFn .unpack [val, .int n] [], .int j] [] = unpackItem val n j := by
  unfold unpackItem
  cases hv : val.isFail
  · have h1 : applyFn .unpack [val, .int n] [] =
        match iterItems val with
        | none => .fail
        | some xs => if unpackOk n (xs.take (unpackTake n)).length then .tuple none (xs.take (unpackTake n)) else .fail := by
      have hi : Val.isFail (.int n) = false := rfl
      simp only [applyFn, List.any_cons, List.any_nil, hv, hi, Bool.or_false, Bool.false_eq_true, if_false]
      cases iterItems val <;> rfl
    rw [h1]
    cases hi : iterItems val with
    | none => simp [applyFn, Val.isFail]
    | some xs =>
      simp only [List.length_take]
      by_cases hl : xs.length = n
      · rw [if_pos ((unpackOk_iff n xs.length).mpr hl), if_pos hl]
        have : xs.take (unpackTake n) = xs := by
          apply List.take_of_length_le; simp [unpackTake]; omega
        rw [this]
        simp [applyFn, Val.isFail]
      · rw [if_neg (fun h => hl ((unpackOk_iff n xs.length).mp h)), if_neg hl]
        simp [applyFn, Val.isFail]
  · have : val = .fail := by cases val <;> simp [Val.isFail] at hv; rfl
    subst this
    simp [applyFn, Val.isFail, iterItems]

theorem getitems_ok (t : Nat) : ∀ (k i : Nat) {st : PlanSt}, WF st → t < st.nodes.length →
    WF (getitems st t i k).1 ∧ Ext st (getitems st t i k).1 ∧ (getitems st t i k).2.length = k ∧
      ∀ j, j < k → ∃ c, (getitems st t i k).2[j]? = some c ∧ c < (getitems st t i k).1.nodes.length ∧
        eval (getitems st t i k).1 c = applyFn .getitem [eval st t, .int (i + j)] []
  | 0, i, st, hwf, _ => ⟨hwf, Ext.refl _, rfl, fun j hj => by omega⟩
  | k + 1, i, st, hwf, ht => by
    have hb : PV.nodesBelowL st.nodes.length [.node t, .int i] = true := by simp [PV.nodesBelowL, PV.nodesBelow, ht]
    obtain ⟨w1, e1, l1, v1⟩ := addCall_ok .getitem [.node t, .int i] [] hwf hb (by simp [PV.nodesBelowL]) (by simp)
    obtain ⟨w2, e2, n2, v2⟩ := getitems_ok t k (i + 1) w1 (Nat.lt_of_lt_of_le ht e1.len_le)
    simp only [getitems]
    refine ⟨w2, e1.trans e2, by simp [n2], ?_⟩
    intro j hj
    cases j with
    | zero =>
      refine ⟨_, rfl, ?_, ?_⟩
      · have := e2.len_le; omega
      · rw [eval_ext e2 l1, v1]; simp [subst, embed]
    | succ j =>
      obtain ⟨c, hc, hl, hv⟩ := v2 j (by omega)
      refine ⟨c, by simpa using hc, hl, ?_⟩
      rw [hv, eval_ext e1 ht]
      have : i + 1 + j = i + (j + 1) := by omega
      rw [this]

/-- `Plan.unpack(v, n)` returns `n` nodes; the `j`-th evaluates to the `j`-th item of the (substituted) iterable
    if that has exactly `n` items, and has no value (ValueError / TypeError in the run) otherwise. -/
theorem unpack_ok (v : PV) (n : Nat) {st : PlanSt} (hwf : WF st) (hv : v.nodesBelow st.nodes.length = true) :
    WF (unpack st v n).1 ∧ Ext st (unpack st v n).1 ∧ (unpack st v n).2.length = n ∧
      ∀ j, j < n → ∃ c, (unpack st v n).2[j]? = some c ∧ c < (unpack st v n).1.nodes.length ∧
        eval (unpack st v n).1 c = unpackItem (subst (eval st) v) n j := by
  have hb : PV.nodesBelowL st.nodes.length [v, .int n] = true := by simp [PV.nodesBelowL, PV.nodesBelow, hv]
  obtain ⟨w1, e1, l1, v1⟩ := addCall_ok .unpack [v, .int n] [] hwf hb (by simp [PV.nodesBelowL]) (by simp)
  obtain ⟨w2, e2, n2, v2⟩ := getitems_ok (addCall st .unpack [v, .int n] []).2 n 0 w1 l1
  simp only [unpack]
  refine ⟨w2, e1.trans e2, n2, ?_⟩
  intro j hj
  obtain ⟨c, hc, hl, hv'⟩ := v2 j hj
  refine ⟨c, hc, hl, ?_⟩
  rw [hv', v1]
  simp only [List.map_cons, List.map_nil, Nat.zero_add]
  have : subst (eval st) (.int n) = .int n := rfl
  rw [this]
  exact getitem_unpack _ n j

/-! ### execution by slots -/

/-- An order of execution: no node twice, and every call argument that is not a literal was processed before. -/
def Admissible (st : PlanSt) (lin : List Nat) : Prop :=
  lin.Nodup ∧ ∀ pre n post, lin = pre ++ n :: post →
    ∀ e ∈ st.edges, e.dst = n → e.key ≠ .dep → isLit st e.src = false → e.src ∈ pre

/-- Executable check of `Admissible` (used for concrete instances). -/
def admissibleB (st : PlanSt) (lin : List Nat) : Bool :=
  decide lin.Nodup && (List.range lin.length).all fun i =>
    st.edges.all fun e =>
      !(e.dst == lin.getD i 0) || e.key == .dep || isLit st e.src || (lin.take i).contains e.src

theorem admissible_of_B {st : PlanSt} {lin : List Nat} (h : admissibleB st lin = true) : Admissible st lin := by
  simp only [admissibleB, Bool.and_eq_true, decide_eq_true_eq, List.all_eq_true, List.mem_range] at h
  refine ⟨h.1, ?_⟩
  intro pre n post hlin e he hd hk hl
  have hlen : pre.length < lin.length := by rw [hlin]; simp
  have := h.2 pre.length hlen e he
  have h1 : lin.getD pre.length 0 = n := by rw [hlin]; simp
  have h2 : lin.take pre.length = pre := by rw [hlin]; simp
  rw [h1, h2, hd, hl] at this
  simp only [beq_self_eq_true, Bool.not_true, Bool.false_or, Bool.or_false, Bool.or_eq_true, beq_iff_eq,
    List.contains_eq_mem, decide_eq_true_eq] at this
  rcases this with this | this
  · exact absurd this hk
  · exact this

theorem eval_of_lit {st : PlanSt} {p : Nat} {v : PV} (h : st.nodes[p]? = some (.lit v)) : eval st p = embed v := by
  rw [eval_unfold]; simp [evalNode, h]

theorem readSlot_lit {st : PlanSt} {p : Nat} (h : isLit st p = true) (slots : Nat → Val) : readSlot st slots p = eval st p := by
  unfold isLit at h
  split at h
  · rename_i v hv; rw [eval_of_lit hv]; simp [readSlot, hv]
  · cases h

theorem readSlot_nonlit {st : PlanSt} {p : Nat} (h : isLit st p = false) (slots : Nat → Val) : readSlot st slots p = slots p := by
  unfold isLit at h
  unfold readSlot
  split
  · rename_i v hv; rw [hv] at h; cases h
  · rfl

theorem readSlot_exec_ne {st : PlanSt} (slots : Nat → Val) {n m : Nat} (h : m ≠ n) :
    readSlot st (execNode st slots n) m = readSlot st slots m := by
  unfold readSlot execNode
  split
  · rfl
  · simp [h]

theorem run_inv {st : PlanSt} (hwf : WF st) : ∀ (post pre : List Nat) (slots : Nat → Val), (pre ++ post).Nodup →
    (∀ p1 n p2, post = p1 ++ n :: p2 → ∀ e ∈ st.edges, e.dst = n → e.key ≠ .dep → isLit st e.src = false →
      e.src ∈ pre ++ p1) →
    (∀ m ∈ pre, readSlot st slots m = eval st m) →
    ∀ m ∈ pre ++ post, readSlot st (post.foldl (execNode st) slots) m = eval st m
  | [], pre, slots, _, _, hinv => by simpa using hinv
  | n :: post, pre, slots, hnd, hcl, hinv => by
    simp only [List.foldl_cons]
    have hnd' : ((pre ++ [n]) ++ post).Nodup := by simpa using hnd
    have hn : n ∉ pre := by
      intro hm
      have := (List.nodup_append.mp hnd).2.2 n hm n (by simp)
      exact this rfl
    have key := run_inv hwf post (pre ++ [n]) (execNode st slots n) hnd'
      (by
        intro p1 k p2 hp e he hd hk hl
        have := hcl (n :: p1) k p2 (by rw [hp]; rfl) e he hd hk hl
        simpa using this)
      (by
        intro m hm
        rcases List.mem_append.mp hm with hm | hm
        · have hne : m ≠ n := fun e => hn (e ▸ hm)
          rw [readSlot_exec_ne slots hne]; exact hinv m hm
        · simp only [List.mem_singleton] at hm
          subst hm
          cases hl : isLit st m
          · rw [readSlot_nonlit hl]
            simp only [execNode, if_true]
            rw [eval_fix hwf m]
            apply evalNode_congr
            intro e he hd hk
            cases hl2 : isLit st e.src
            · have := hcl [] m post rfl e he hd hk hl2
              exact hinv _ (by simpa using this)
            · exact readSlot_lit hl2 slots
          · exact readSlot_lit hl _)
    intro m hm
    exact key m (by simpa using hm)

theorem strict_ok {args : List Val} (h : args.any Val.isFail = false) (r : Val) : strict args r = r := by
  simp [strict, h]

theorem toPairs_substKVs (ρ : Nat → Val) : ∀ (kvs : List (PV × PV)),
    (kvs.all fun p => !(subst ρ p.1).isFail && !(subst ρ p.2).isFail) = true →
    Val.toPairs (substKVs ρ kvs) = some (kvs.map fun p => (subst ρ p.1, subst ρ p.2)) ∧
      (substKVs ρ kvs).any Val.isFail = false
  | [], _ => by simp [substKVs, Val.toPairs]
  | (k, v) :: rest, h => by
    simp only [List.all_cons, Bool.and_eq_true, Bool.not_eq_true'] at h
    obtain ⟨ih1, ih2⟩ := toPairs_substKVs ρ rest h.2
    cases hc : (k.containsNode || v.containsNode)
    · simp only [Bool.or_eq_false_iff] at hc
      simp [substKVs, hc, embed, embedList, Val.toPairs, ih1, ih2, subst_nodefree ρ hc.1, subst_nodefree ρ hc.2,
        Val.isFail]
    · have hs : strict [subst ρ k, subst ρ v] (Val.build .tuple [subst ρ k, subst ρ v])
          = .tuple none [subst ρ k, subst ρ v] := by
        simp [strict, h.1.1, h.1.2, Val.build]
      simp [substKVs, hc, hs, Val.toPairs, ih1, ih2, Val.isFail]

instance (st : PlanSt) : Decidable (WF st) := by unfold WF; exact inferInstance

end Uberjob.Plan
