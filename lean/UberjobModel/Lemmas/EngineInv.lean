import UberjobModel.Model.Engine
import UberjobModel.Lemmas.GenFacts
import Batteries.Data.List.Perm
import Mathlib.Data.List.Nodup
import Mathlib.Data.List.Count
/-!
  Safety invariants of the engine model, proved inductive over `step?`.
-/
namespace Uberjob.Engine
open Uberjob.Gen.Engine

/-! ### list helpers -/

theorem countP_pos_of_getElem? {α} {l : List α} {i : Nat} {a : α} {p : α → Bool}
    (h : l[i]? = some a) (hp : p a = true) : 1 ≤ l.countP p :=
  List.countP_pos_iff.mpr ⟨a, List.mem_of_getElem? h, hp⟩

theorem countP_two_of_getElem? {α} {l : List α} {i j : Nat} {a b : α} {p : α → Bool}
    (hij : i ≠ j) (hi : l[i]? = some a) (hj : l[j]? = some b) (ha : p a = true) (hb : p b = true) :
    2 ≤ l.countP p := by
  induction l generalizing i j with
  | nil => simp at hi
  | cons c l ih =>
    cases i with
    | zero =>
      cases j with
      | zero => exact absurd rfl hij
      | succ j =>
        simp at hi hj
        subst hi
        have := countP_pos_of_getElem? hj hb
        rw [List.countP_cons_of_pos ha]; omega
    | succ i =>
      cases j with
      | zero =>
        simp at hi hj
        subst hj
        have := countP_pos_of_getElem? hi ha
        rw [List.countP_cons_of_pos hb]; omega
      | succ j =>
        simp at hi hj
        have := ih (by omega) hi hj
        simp [List.countP_cons]; omega

theorem covers_of_nodup_length {l₁ l₂ : List Nat} (d : l₁.Nodup) (H : l₁ ⊆ l₂)
    (hl : l₂.length ≤ l₁.length) : l₂ ⊆ l₁ :=
  ((List.subperm_of_subset d H).perm_of_length_le hl).symm.subset

theorem rel_pigeon {rel : List (Nat × Nat)} {y : Nat} {ps : List Nat}
    (hn : rel.Nodup) (hsub : ∀ e ∈ rel, e.2 = y → e.1 ∈ ps)
    (hc : ps.length ≤ rel.countP (fun e => e.2 == y)) :
    ∀ p ∈ ps, (p, y) ∈ rel := by
  let F := rel.filter (fun e => e.2 == y)
  have hF : F.Nodup := hn.sublist List.filter_sublist
  have hL : (F.map Prod.fst).Nodup := by
    apply List.Nodup.map_on _ hF
    intro a ha b hb hab
    simp [F] at ha hb
    cases a; cases b; simp_all
  have hsub' : F.map Prod.fst ⊆ ps := by
    intro p hp
    obtain ⟨e, he, hep⟩ := List.mem_map.mp hp
    obtain ⟨he1, he2⟩ := List.mem_filter.mp he
    rw [← hep]
    exact hsub e he1 (by simpa using he2)
  have hlen : ps.length ≤ (F.map Prod.fst).length := by
    rw [List.length_map]
    rw [List.countP_eq_length_filter] at hc
    exact hc
  intro p hp
  have := covers_of_nodup_length hL hsub' hlen hp
  obtain ⟨e, he, hep⟩ := List.mem_map.mp this
  obtain ⟨he1, he2⟩ := List.mem_filter.mp he
  have he2' : e.2 = y := by simpa using he2
  have : e = (p, y) := by cases e; simp_all
  rw [← this]; exact he1

/-! ### where a node is -/

def holds (x : Nat) (w : W) : Bool := w.node? == some x

def qCount (s : St) (x : Nat) : Nat := s.queue.count (.node x)
def wCount (s : St) (x : Nat) : Nat := s.ws.countP (holds x)
def rCount (s : St) (x : Nat) : Nat := s.retired.count x
def cnt (s : St) (x : Nat) : Nat := qCount s x + wCount s x + rCount s x

/-- The safety invariant bundle. -/
structure Inv (g : Graph) (s : St) : Prop where
  place    : ∀ x, cnt s x = s.enq.count x
  once     : ∀ x, s.enq.count x ≤ 1
  ready    : ∀ y, 1 ≤ cnt s y → ∀ p ∈ g.preds y, (p, y) ∈ s.rel
  relOk    : ∀ p y, (p, y) ∈ s.rel → p ∈ s.okd ∧ y ∈ g.succs p
  relNodup : s.rel.Nodup
  relsing  : ∀ (x : Nat) (todo : List Nat), W.releasing x todo ∈ s.ws →
               x ∈ s.okd ∧ todo.Nodup ∧ (∀ y, y ∈ todo → y ∈ g.succs x ∧ (x, y) ∉ s.rel) ∧
               (∀ y, y ∈ g.succs x → y ∉ todo → (x, y) ∈ s.rel)
  running  : ∀ (x : Nat), W.running x ∈ s.ws → x ∉ s.okd ∧ x ∉ s.failed ∧ x ∈ s.begun
  held     : ∀ (x : Nat), W.held (.node x) ∈ s.ws → x ∉ s.begun
  queued   : ∀ x, Item.node x ∈ s.queue → x ∉ s.begun
  okBegun  : ∀ x, x ∈ s.okd → x ∈ s.begun
  failBegun : ∀ x, x ∈ s.failed → x ∈ s.begun ∧ x ∉ s.okd ∧ x ∈ s.retired
  skipNot  : ∀ x, x ∈ s.skipped → x ∉ s.begun ∧ x ∈ s.retired
  begunNodup : s.begun.Nodup
  begunCnt : ∀ x, x ∈ s.begun → 1 ≤ cnt s x
  remOk    : ∀ y, 2 ≤ g.predCount y → s.rem y + s.rel.countP (fun e => e.2 == y) = g.predCount y


end Uberjob.Engine


namespace Uberjob.Engine
open Uberjob.Gen.Engine

theorem mem_set_cases {α} {l : List α} {i : Nat} {a b : α} (h : b ∈ l.set i a) :
    b = a ∨ ∃ j, j ≠ i ∧ l[j]? = some b := by
  rw [List.mem_iff_getElem?] at h
  obtain ⟨j, hj⟩ := h
  rw [List.getElem?_set] at hj
  split at hj
  · split at hj
    · left; simpa using hj.symm
    · cases hj
  · right; exact ⟨j, by omega, hj⟩

theorem wCount_set {ws : List W} {w : Nat} {st st' : W} (hw : ws[w]? = some st) (x : Nat) :
    (ws.set w st').countP (holds x) + (if holds x st then 1 else 0)
      = ws.countP (holds x) + (if holds x st' then 1 else 0) := by
  obtain ⟨hlt, hwi⟩ := List.getElem?_eq_some_iff.mp hw
  rw [List.countP_set hlt, hwi]
  by_cases h1 : holds x st = true
  · have := countP_pos_of_getElem? hw h1
    simp only [h1, if_true]; omega
  · simp only [h1]; simp

theorem holds_node?_eq {a b : W} (h : a.node? = b.node?) (x : Nat) : holds x a = holds x b := by
  simp [holds, h]

/-- A worker state change that keeps the held node keeps every count. -/
theorem wCount_set_same {ws : List W} {w : Nat} {st st' : W} (hw : ws[w]? = some st)
    (h : st.node? = st'.node?) (x : Nat) :
    (ws.set w st').countP (holds x) = ws.countP (holds x) := by
  have := wCount_set (st' := st') hw x
  rw [holds_node?_eq h x] at this
  omega

theorem inv_spawn {g : Graph} {cfg : Cfg} {s s' : St} (hi : Inv g s)
    (h : step? g cfg s .spawn = some s') : Inv g s' := by
  simp only [step?] at h
  split at h
  · split at h
    · cases h
      constructor <;> simp [cnt, qCount, wCount, rCount, List.countP_append, holds, W.node?]
      · exact hi.place
      · exact hi.once
      · exact hi.ready
      · exact hi.relOk
      · exact hi.relNodup
      · exact hi.relsing
      · exact hi.running
      · exact hi.held
      · exact hi.queued
      · exact hi.okBegun
      · exact hi.failBegun
      · exact hi.skipNot
      · exact hi.begunNodup
      · exact hi.begunCnt
      · exact hi.remOk
    · cases h
  · cases h

theorem inv_get {g : Graph} {cfg : Cfg} {s s' : St} {w : Nat} {i : Item} (hi : Inv g s)
    (h : step? g cfg s (.get w i) = some s') : Inv g s' := by
  simp only [step?] at h
  split at h
  · next hw =>
    split at h
    · next hq =>
      cases h
      have hc : ∀ x, cnt { setW s w (W.held i) with queue := s.queue.erase i } x = cnt s x := by
        intro x
        have h1 := wCount_set (st' := W.held i) hw x
        have hq' : 0 < s.queue.count i := List.count_pos_iff.mpr hq
        simp only [setW, cnt, qCount, wCount, rCount, List.count_erase]
        cases i with
        | done => simp [holds, W.node?] at h1 ⊢; omega
        | node y =>
          by_cases hxy : y = x
          · subst hxy; simp [holds, W.node?] at h1 ⊢; omega
          · simp [holds, W.node?, hxy] at h1 ⊢; omega
      constructor
      · intro x; rw [hc]; exact hi.place x
      · exact hi.once
      · intro y hy; rw [hc] at hy; exact hi.ready y hy
      · exact hi.relOk
      · exact hi.relNodup
      · intro x todo hm
        rcases List.mem_or_eq_of_mem_set hm with h1 | h1
        · exact hi.relsing x todo h1
        · cases h1
      · intro x hm
        rcases List.mem_or_eq_of_mem_set hm with h1 | h1
        · exact hi.running x h1
        · cases h1
      · intro x hm
        rcases List.mem_or_eq_of_mem_set hm with h1 | h1
        · exact hi.held x h1
        · cases h1; exact hi.queued x hq
      · intro x hm
        exact hi.queued x (List.mem_of_mem_erase hm)
      · exact hi.okBegun
      · exact hi.failBegun
      · exact hi.skipNot
      · exact hi.begunNodup
      · intro x hx; rw [hc]; exact hi.begunCnt x hx
      · exact hi.remOk
    · cases h
  · cases h

theorem inv_check {g : Graph} {cfg : Cfg} {s s' : St} {w : Nat} (hi : Inv g s)
    (h : step? g cfg s (.check w) = some s') : Inv g s' := by
  simp only [step?] at h
  split at h
  · next hw =>
    -- held DONE → finishing true
    cases h
    have hc : ∀ x, (s.ws.set w (W.finishing true)).countP (holds x) = s.ws.countP (holds x) :=
      fun x => wCount_set_same (st' := W.finishing true) hw rfl x
    constructor <;> simp only [setW, cnt, qCount, wCount, rCount, hc]
    · exact hi.place
    · exact hi.once
    · exact hi.ready
    · exact hi.relOk
    · exact hi.relNodup
    · intro x todo hm
      rcases List.mem_or_eq_of_mem_set hm with h1 | h1
      · exact hi.relsing x todo h1
      · cases h1
    · intro x hm
      rcases List.mem_or_eq_of_mem_set hm with h1 | h1
      · exact hi.running x h1
      · cases h1
    · intro x hm
      rcases List.mem_or_eq_of_mem_set hm with h1 | h1
      · exact hi.held x h1
      · cases h1
    · exact hi.queued
    · exact hi.okBegun
    · exact hi.failBegun
    · exact hi.skipNot
    · exact hi.begunNodup
    · exact hi.begunCnt
    · exact hi.remOk
  · next x hw =>
    have hmem : W.held (Item.node x) ∈ s.ws := List.mem_of_getElem? hw
    have hxb : x ∉ s.begun := hi.held x hmem
    split at h
    · -- stop set: skip
      cases h
      have hc : ∀ z, cnt { setW s w (W.finishing false) with
            skipped := s.skipped ++ [x], retired := s.retired ++ [x] } z = cnt s z := by
        intro z
        have h1 := wCount_set (st' := W.finishing false) hw z
        simp only [setW, cnt, qCount, wCount, rCount, List.count_append]
        by_cases hzx : x = z
        · subst hzx; simp [holds, W.node?] at h1 ⊢; omega
        · simp [holds, W.node?, hzx] at h1 ⊢; omega
      constructor
      · intro z; rw [hc]; exact hi.place z
      · exact hi.once
      · intro y hy; rw [hc] at hy; exact hi.ready y hy
      · exact hi.relOk
      · exact hi.relNodup
      · intro z todo hm
        rcases List.mem_or_eq_of_mem_set hm with h1 | h1
        · exact hi.relsing z todo h1
        · cases h1
      · intro z hm
        rcases List.mem_or_eq_of_mem_set hm with h1 | h1
        · exact hi.running z h1
        · cases h1
      · intro z hm
        rcases List.mem_or_eq_of_mem_set hm with h1 | h1
        · exact hi.held z h1
        · cases h1
      · exact hi.queued
      · exact hi.okBegun
      · intro z hz
        have := hi.failBegun z hz
        exact ⟨this.1, this.2.1, List.mem_append_left _ this.2.2⟩
      · intro z hz
        simp only [List.mem_append, List.mem_singleton] at hz ⊢
        rcases hz with hz | hz
        · have := hi.skipNot z hz; exact ⟨this.1, Or.inl this.2⟩
        · subst hz; exact ⟨hxb, Or.inr rfl⟩
      · exact hi.begunNodup
      · intro z hz; rw [hc]; exact hi.begunCnt z hz
      · exact hi.remOk
    · -- begin
      cases h
      have hcW : ∀ z, (s.ws.set w (W.running x)).countP (holds z) = s.ws.countP (holds z) :=
        fun z => wCount_set_same (st' := W.running x) hw rfl z
      -- uniqueness: nobody else holds x
      have huniq : ∀ j, j ≠ w → ∀ st, s.ws[j]? = some st → holds x st = false := by
        intro j hj st hst
        by_cases hh : holds x st = true
        · have h2 := countP_two_of_getElem? (p := holds x) hj hst hw hh (by simp [holds, W.node?])
          have h3 := hi.place x
          have h4 := hi.once x
          simp only [cnt, qCount, wCount, rCount] at h3
          omega
        · simpa using hh
      constructor <;> simp only [setW, cnt, qCount, wCount, rCount, hcW]
      · exact hi.place
      · exact hi.once
      · exact hi.ready
      · exact hi.relOk
      · exact hi.relNodup
      · intro z todo hm
        rcases List.mem_or_eq_of_mem_set hm with h1 | h1
        · exact hi.relsing z todo h1
        · cases h1
      · intro z hm
        rcases mem_set_cases hm with h1 | ⟨j, hj, hst⟩
        · cases h1
          refine ⟨fun h => hxb (hi.okBegun x h), fun h => hxb (hi.failBegun x h).1, ?_⟩
          simp
        · have := hi.running z (List.mem_of_getElem? hst)
          exact ⟨this.1, this.2.1, List.mem_append_left _ this.2.2⟩
      · intro z hm
        rcases mem_set_cases hm with h1 | ⟨j, hj, hst⟩
        · cases h1
        · have h1 := hi.held z (List.mem_of_getElem? hst)
          have h2 := huniq j hj _ hst
          simp only [List.mem_append, List.mem_singleton, not_or]
          refine ⟨h1, ?_⟩
          intro hzx; subst hzx
          simp [holds, W.node?] at h2
      · intro z hz
        have h1 := hi.queued z hz
        simp only [List.mem_append, List.mem_singleton, not_or]
        refine ⟨h1, ?_⟩
        intro hzx; subst hzx
        have h2 : 0 < s.queue.count (Item.node z) := List.count_pos_iff.mpr hz
        have h3 := hi.place z
        have h4 := hi.once z
        have h5 := countP_pos_of_getElem? (p := holds z) hw (by simp [holds, W.node?])
        simp only [cnt, qCount, wCount, rCount] at h3
        omega
      · intro z hz; exact List.mem_append_left _ (hi.okBegun z hz)
      · intro z hz
        have := hi.failBegun z hz
        exact ⟨List.mem_append_left _ this.1, this.2⟩
      · intro z hz
        have := hi.skipNot z hz
        simp only [List.mem_append, List.mem_singleton, not_or]
        refine ⟨⟨this.1, ?_⟩, this.2⟩
        intro hzx; subst hzx
        have h2 : 0 < s.retired.count z := List.count_pos_iff.mpr this.2
        have h3 := hi.place z
        have h4 := hi.once z
        have h5 := countP_pos_of_getElem? (p := holds z) hw (by simp [holds, W.node?])
        simp only [cnt, qCount, wCount, rCount] at h3
        omega
      · rw [List.nodup_append]
        refine ⟨hi.begunNodup, by simp, ?_⟩
        intro a ha b hb
        simp at hb; subst hb
        intro hab; subst hab; exact hxb ha
      · intro z hz
        simp only [List.mem_append, List.mem_singleton] at hz
        rcases hz with hz | hz
        · exact hi.begunCnt z hz
        · subst hz
          have h5 := countP_pos_of_getElem? (p := holds z) hw (by simp [holds, W.node?])
          omega
      · exact hi.remOk
  · cases h


/-- Nobody but worker `w` holds the node that worker `w` holds. -/
theorem uniq_holder {g : Graph} {s : St} (hi : Inv g s) {w : Nat} {st : W} {x : Nat}
    (hw : s.ws[w]? = some st) (hx : holds x st = true) :
    ∀ j, j ≠ w → ∀ st', s.ws[j]? = some st' → holds x st' = false := by
  intro j hj st' hst
  by_cases hh : holds x st' = true
  · have h2 := countP_two_of_getElem? (p := holds x) hj hst hw hh hx
    have h3 := hi.place x
    have h4 := hi.once x
    simp only [cnt, qCount, wCount, rCount] at h3
    omega
  · simpa using hh

theorem inv_finOk {g : Graph} (hg : g.WF) {cfg : Cfg} {s s' : St} {w : Nat} (hi : Inv g s)
    (h : step? g cfg s (.finOk w) = some s') : Inv g s' := by
  simp only [step?] at h
  split at h
  · next x hw =>
    cases h
    have hmem : W.running x ∈ s.ws := List.mem_of_getElem? hw
    obtain ⟨hxo, hxf, hxb⟩ := hi.running x hmem
    have hcW : ∀ z, (s.ws.set w (W.releasing x (g.succs x))).countP (holds z) = s.ws.countP (holds z) :=
      fun z => wCount_set_same (st' := W.releasing x (g.succs x)) hw rfl z
    have huniq := uniq_holder hi hw (x := x) (by simp [holds, W.node?])
    constructor <;> simp only [setW, cnt, qCount, wCount, rCount, hcW]
    · exact hi.place
    · exact hi.once
    · exact hi.ready
    · intro p y hpy
      have := hi.relOk p y hpy
      exact ⟨List.mem_append_left _ this.1, this.2⟩
    · exact hi.relNodup
    · intro z todo hm
      rcases List.mem_or_eq_of_mem_set hm with h1 | h1
      · have := hi.relsing z todo h1
        exact ⟨List.mem_append_left _ this.1, this.2⟩
      · cases h1
        refine ⟨by simp, hg.succsNodup x, ?_, ?_⟩
        · intro y hy
          exact ⟨hy, fun hr => hxo (hi.relOk x y hr).1⟩
        · intro y hy hny; exact absurd hy hny
    · intro z hm
      rcases mem_set_cases hm with h1 | ⟨j, hj, hst⟩
      · cases h1
      · have := hi.running z (List.mem_of_getElem? hst)
        have h2 := huniq j hj _ hst
        refine ⟨?_, this.2⟩
        simp only [List.mem_append, List.mem_singleton, not_or]
        refine ⟨this.1, ?_⟩
        intro hzx; subst hzx
        simp [holds, W.node?] at h2
    · intro z hm
      rcases List.mem_or_eq_of_mem_set hm with h1 | h1
      · exact hi.held z h1
      · cases h1
    · exact hi.queued
    · intro z hz
      simp only [List.mem_append, List.mem_singleton] at hz
      rcases hz with hz | hz
      · exact hi.okBegun z hz
      · subst hz; exact hxb
    · intro z hz
      have := hi.failBegun z hz
      refine ⟨this.1, ?_, this.2.2⟩
      simp only [List.mem_append, List.mem_singleton, not_or]
      refine ⟨this.2.1, ?_⟩
      intro hzx; subst hzx; exact hxf hz
    · exact hi.skipNot
    · exact hi.begunNodup
    · exact hi.begunCnt
    · exact hi.remOk
  · cases h

theorem inv_finFail {g : Graph} {cfg : Cfg} {s s' : St} {w : Nat} (hi : Inv g s)
    (h : step? g cfg s (.finFail w) = some s') : Inv g s' := by
  simp only [step?] at h
  split at h
  · next x hw =>
    cases h
    have hmem : W.running x ∈ s.ws := List.mem_of_getElem? hw
    obtain ⟨hxo, hxf, hxb⟩ := hi.running x hmem
    have huniq := uniq_holder hi hw (x := x) (by simp [holds, W.node?])
    have hc : ∀ z, List.count (Item.node z) s.queue
          + List.countP (holds z) (s.ws.set w (W.finishing false))
          + List.count z (s.retired ++ [x]) = cnt s z := by
      intro z
      have h1 := wCount_set (st' := W.finishing false) hw z
      simp only [cnt, qCount, wCount, rCount, List.count_append]
      by_cases hzx : x = z
      · subst hzx; simp [holds, W.node?] at h1 ⊢; omega
      · simp [holds, W.node?, hzx] at h1 ⊢; omega
    constructor <;> simp only [setW, cnt, qCount, wCount, rCount, hc]
    · exact hi.place
    · exact hi.once
    · exact hi.ready
    · exact hi.relOk
    · exact hi.relNodup
    · intro z todo hm
      rcases List.mem_or_eq_of_mem_set hm with h1 | h1
      · exact hi.relsing z todo h1
      · cases h1
    · intro z hm
      rcases mem_set_cases hm with h1 | ⟨j, hj, hst⟩
      · cases h1
      · have := hi.running z (List.mem_of_getElem? hst)
        have h2 := huniq j hj _ hst
        refine ⟨this.1, ?_, this.2.2⟩
        simp only [List.mem_append, List.mem_singleton, not_or]
        refine ⟨this.2.1, ?_⟩
        intro hzx; subst hzx
        simp [holds, W.node?] at h2
    · intro z hm
      rcases List.mem_or_eq_of_mem_set hm with h1 | h1
      · exact hi.held z h1
      · cases h1
    · exact hi.queued
    · exact hi.okBegun
    · intro z hz
      simp only [List.mem_append, List.mem_singleton] at hz ⊢
      rcases hz with hz | hz
      · have := hi.failBegun z hz
        exact ⟨this.1, this.2.1, Or.inl this.2.2⟩
      · subst hz; exact ⟨hxb, hxo, Or.inr rfl⟩
    · intro z hz
      have := hi.skipNot z hz
      exact ⟨this.1, List.mem_append_left _ this.2⟩
    · exact hi.begunNodup
    · exact hi.begunCnt
    · exact hi.remOk
  · cases h

theorem inv_taskDone {g : Graph} {cfg : Cfg} {s s' : St} {w : Nat} (hi : Inv g s)
    (h : step? g cfg s (.taskDone w) = some s') : Inv g s' := by
  simp only [step?] at h
  split at h
  · next x hw =>
    cases h
    have hc : ∀ z, List.count (Item.node z) s.queue
          + List.countP (holds z) (s.ws.set w W.idle)
          + List.count z (s.retired ++ [x]) = cnt s z := by
      intro z
      have h1 := wCount_set (st' := W.idle) hw z
      simp only [cnt, qCount, wCount, rCount, List.count_append]
      by_cases hzx : x = z
      · subst hzx; simp [holds, W.node?] at h1 ⊢; omega
      · simp [holds, W.node?, hzx] at h1 ⊢; omega
    constructor <;> simp only [setW, cnt, qCount, wCount, rCount, hc]
    · exact hi.place
    · exact hi.once
    · exact hi.ready
    · exact hi.relOk
    · exact hi.relNodup
    · intro z todo hm
      rcases List.mem_or_eq_of_mem_set hm with h1 | h1
      · exact hi.relsing z todo h1
      · cases h1
    · intro z hm
      rcases List.mem_or_eq_of_mem_set hm with h1 | h1
      · exact hi.running z h1
      · cases h1
    · intro z hm
      rcases List.mem_or_eq_of_mem_set hm with h1 | h1
      · exact hi.held z h1
      · cases h1
    · exact hi.queued
    · exact hi.okBegun
    · intro z hz
      have := hi.failBegun z hz
      exact ⟨this.1, this.2.1, List.mem_append_left _ this.2.2⟩
    · intro z hz
      have := hi.skipNot z hz
      exact ⟨this.1, List.mem_append_left _ this.2⟩
    · exact hi.begunNodup
    · exact hi.begunCnt
    · exact hi.remOk
  · next hw =>
    cases h
    have hcW : ∀ z, (s.ws.set w W.idle).countP (holds z) = s.ws.countP (holds z) :=
      fun z => wCount_set_same (st' := W.idle) hw rfl z
    constructor <;> simp only [setW, cnt, qCount, wCount, rCount, hcW]
    · exact hi.place
    · exact hi.once
    · exact hi.ready
    · exact hi.relOk
    · exact hi.relNodup
    · intro z todo hm
      rcases List.mem_or_eq_of_mem_set hm with h1 | h1
      · exact hi.relsing z todo h1
      · cases h1
    · intro z hm
      rcases List.mem_or_eq_of_mem_set hm with h1 | h1
      · exact hi.running z h1
      · cases h1
    · intro z hm
      rcases List.mem_or_eq_of_mem_set hm with h1 | h1
      · exact hi.held z h1
      · cases h1
    · exact hi.queued
    · exact hi.okBegun
    · exact hi.failBegun
    · exact hi.skipNot
    · exact hi.begunNodup
    · exact hi.begunCnt
    · exact hi.remOk
  · next hw =>
    cases h
    have hcW : ∀ z, (s.ws.set w W.exited).countP (holds z) = s.ws.countP (holds z) :=
      fun z => wCount_set_same (st' := W.exited) hw rfl z
    constructor <;> simp only [setW, cnt, qCount, wCount, rCount, hcW]
    · exact hi.place
    · exact hi.once
    · exact hi.ready
    · exact hi.relOk
    · exact hi.relNodup
    · intro z todo hm
      rcases List.mem_or_eq_of_mem_set hm with h1 | h1
      · exact hi.relsing z todo h1
      · cases h1
    · intro z hm
      rcases List.mem_or_eq_of_mem_set hm with h1 | h1
      · exact hi.running z h1
      · cases h1
    · intro z hm
      rcases List.mem_or_eq_of_mem_set hm with h1 | h1
      · exact hi.held z h1
      · cases h1
    · exact hi.queued
    · exact hi.okBegun
    · exact hi.failBegun
    · exact hi.skipNot
    · exact hi.begunNodup
    · exact hi.begunCnt
    · exact hi.remOk
  · cases h


theorem inv_release {g : Graph} (hg : g.WF) {cfg : Cfg} {s s' : St} {w y : Nat} (hi : Inv g s)
    (h : step? g cfg s (.release w y) = some s') : Inv g s' := by
  simp only [step?] at h
  split at h
  · next x todo hw =>
    split at h
    · next hyt =>
      have hmem : W.releasing x todo ∈ s.ws := List.mem_of_getElem? hw
      obtain ⟨hxo, htn, htodo, hdone⟩ := hi.relsing x todo hmem
      obtain ⟨hys, hnr⟩ := htodo y hyt
      have hxp : x ∈ g.preds y := (hg.adj x y).mp hys
      have hcy : cnt s y = 0 := by
        rcases Nat.eq_zero_or_pos (cnt s y) with h0 | h0
        · exact h0
        · exact absurd (hi.ready y h0 x hxp) hnr
      have hpc : 1 ≤ g.predCount y := by
        unfold Graph.predCount
        exact List.length_pos_of_mem hxp
      have huniq := uniq_holder hi hw (x := x) (by simp [holds, W.node?])
      have hcW : ∀ z, (s.ws.set w (W.releasing x (todo.erase y))).countP (holds z) = s.ws.countP (holds z) :=
        fun z => wCount_set_same (st' := W.releasing x (todo.erase y)) hw rfl z
      -- the counter is positive before a locked decrement
      have hrem : 2 ≤ g.predCount y → 1 ≤ s.rem y := by
        intro h2
        have h3 := hi.remOk y h2
        rcases Nat.eq_zero_or_pos (s.rem y) with h0 | h0
        · exfalso
          have hall := rel_pigeon (ps := g.preds y) hi.relNodup
            (fun e he hey => by
              have := (hi.relOk e.1 e.2 (by simpa using he)).2
              rw [hey] at this; exact (hg.adj _ _).mp this)
            (by unfold Graph.predCount at h3; omega)
          exact hnr (hall x hxp)
        · exact h0
      -- if the successor is put, all its predecessors have released it
      have hputAll : releasePut g s y = true → ∀ p ∈ g.preds y, (p, y) ∈ s.rel ++ [(x, y)] := by
        intro hput p hp
        by_cases h1 : g.predCount y = 1
        · clear hput
          unfold Graph.predCount at h1
          have : g.preds y = [x] := by
            match hl : g.preds y, h1, hxp with
            | [a], _, hxa => simp at hxa; simp [hxa]
          rw [this] at hp; simp at hp; subst hp; simp
        · have h2 : 2 ≤ g.predCount y := by omega
          have h3 := hi.remOk y h2
          have h4 := hrem h2
          have hns : ¬ classify (g.predCount y) = Kind.single := fun hc => h1 ((classify_single_iff _).mp hc)
          simp [releasePut, releaseRem, hns, readyCond_iff] at hput
          have hall := rel_pigeon (rel := s.rel ++ [(x, y)]) (ps := g.preds y)
            (by
              rw [List.nodup_append]
              refine ⟨hi.relNodup, by simp, ?_⟩
              intro a ha b hb hab; simp at hb; subst hb; subst hab; exact hnr ha)
            (fun e he hey => by
              simp only [List.mem_append, List.mem_singleton] at he
              rcases he with he | he
              · have := (hi.relOk e.1 e.2 (by simpa using he)).2
                rw [hey] at this; exact (hg.adj _ _).mp this
              · subst he; exact hxp)
            (by unfold Graph.predCount at h3; simp [List.countP_append]; omega)
          exact hall p hp
      cases h
      constructor <;> simp only [setW, cnt, qCount, wCount, rCount, hcW]
      · -- place
        intro z
        have := hi.place z
        simp only [cnt, qCount, wCount, rCount] at this hcy
        split
        · by_cases hzy : y = z
          · subst hzy; simp [List.count_append]; omega
          · simp [List.count_append, hzy]; omega
        · exact this
      · -- once
        intro z
        have h1 := hi.once z
        have h2 := hi.place y
        split
        · by_cases hzy : y = z
          · subst hzy; simp [List.count_append]; omega
          · simp [List.count_append, hzy]; omega
        · exact h1
      · -- ready
        intro z hz p hp
        by_cases hzy : z = y
        · subst hzy
          split at hz
          · next hput => exact hputAll hput p hp
          · simp only [cnt, qCount, wCount, rCount] at hcy; omega
        · apply List.mem_append_left
          apply hi.ready z _ p hp
          simp only [cnt, qCount, wCount, rCount]
          split at hz
          · have : List.count (Item.node z) (s.queue ++ [Item.node y]) = List.count (Item.node z) s.queue := by
              have hne : (Item.node y == Item.node z) = false := by
                simp; intro h; exact hzy h.symm
              simp [List.count_append, List.count_singleton, hne]
            omega
          · exact hz
      · -- relOk
        intro p z hpz
        simp only [List.mem_append, List.mem_singleton] at hpz
        rcases hpz with hpz | hpz
        · exact hi.relOk p z hpz
        · cases hpz; exact ⟨hxo, hys⟩
      · -- relNodup
        rw [List.nodup_append]
        refine ⟨hi.relNodup, by simp, ?_⟩
        intro a ha b hb hab; simp at hb; subst hb; subst hab; exact hnr ha
      · -- relsing
        intro z todo' hm
        rcases mem_set_cases hm with h1 | ⟨j, hj, hst⟩
        · cases h1
          refine ⟨hxo, htn.erase y, ?_, ?_⟩
          · intro v hv
            have hv' := (htn.mem_erase_iff).mp hv
            obtain ⟨h3, h4⟩ := htodo v hv'.2
            refine ⟨h3, ?_⟩
            simp only [List.mem_append, List.mem_singleton, not_or]
            refine ⟨h4, ?_⟩
            intro he; cases he; exact hv'.1 rfl
          · intro v hv hnv
            simp only [List.mem_append, List.mem_singleton]
            by_cases hvy : v = y
            · subst hvy; right; rfl
            · left; apply hdone v hv
              intro hvt; exact hnv ((htn.mem_erase_iff).mpr ⟨hvy, hvt⟩)
        · have h2 := huniq j hj _ hst
          have hzx : z ≠ x := by
            intro hzx; subst hzx; simp [holds, W.node?] at h2
          obtain ⟨a1, a2, a3, a4⟩ := hi.relsing z todo' (List.mem_of_getElem? hst)
          refine ⟨a1, a2, ?_, ?_⟩
          · intro v hv
            refine ⟨(a3 v hv).1, ?_⟩
            simp only [List.mem_append, List.mem_singleton, not_or]
            refine ⟨(a3 v hv).2, ?_⟩
            intro he; cases he; exact hzx rfl
          · intro v hv hnv
            exact List.mem_append_left _ (a4 v hv hnv)
      · -- running
        intro z hm
        rcases List.mem_or_eq_of_mem_set hm with h1 | h1
        · exact hi.running z h1
        · cases h1
      · -- held
        intro z hm
        rcases List.mem_or_eq_of_mem_set hm with h1 | h1
        · exact hi.held z h1
        · cases h1
      · -- queued
        intro z hz
        split at hz
        · simp only [List.mem_append, List.mem_singleton] at hz
          rcases hz with hz | hz
          · exact hi.queued z hz
          · cases hz
            intro hb
            have := hi.begunCnt y hb
            omega
        · exact hi.queued z hz
      · exact hi.okBegun
      · exact hi.failBegun
      · exact hi.skipNot
      · exact hi.begunNodup
      · -- begunCnt
        intro z hz
        have := hi.begunCnt z hz
        simp only [cnt, qCount, wCount, rCount] at this
        split
        · have : List.count (Item.node z) s.queue ≤ List.count (Item.node z) (s.queue ++ [Item.node y]) := by
            simp [List.count_append]
          omega
        · exact this
      · -- remOk
        intro z hz
        have h3 := hi.remOk z hz
        by_cases hzy : z = y
        · subst hzy
          have h1 : ¬ g.predCount z = 1 := by omega
          have h4 := hrem hz
          have hns : ¬ classify (g.predCount z) = Kind.single := fun hc => h1 ((classify_single_iff _).mp hc)
          simp [releaseRem, hns, List.countP_append]; omega
        · have : List.countP (fun e => e.2 == z) (s.rel ++ [(x, y)]) = List.countP (fun e => e.2 == z) s.rel := by
            simp [List.countP_append]; intro h; exact absurd h.symm hzy
          rw [this]
          unfold releaseRem
          split
          · exact h3
          · simp [hzy]; exact h3
    · cases h
  · cases h


/-- Steps of the coordinating thread that touch only `coord` / `stop`. -/
theorem inv_coord_only {g : Graph} {s : St} (hi : Inv g s) (c : Coord) (b : Bool) :
    Inv g { s with coord := c, stop := b } := by
  constructor <;> simp only [cnt, qCount, wCount, rCount]
  · exact hi.place
  · exact hi.once
  · exact hi.ready
  · exact hi.relOk
  · exact hi.relNodup
  · exact hi.relsing
  · exact hi.running
  · exact hi.held
  · exact hi.queued
  · exact hi.okBegun
  · exact hi.failBegun
  · exact hi.skipNot
  · exact hi.begunNodup
  · exact hi.begunCnt
  · exact hi.remOk

theorem inv_putDone {g : Graph} {cfg : Cfg} {s s' : St} (hi : Inv g s)
    (h : step? g cfg s .putDone = some s') : Inv g s' := by
  simp only [step?] at h
  split at h
  · split at h
    · cases h
      have hq : ∀ x, List.count (Item.node x) (s.queue ++ [Item.done]) = List.count (Item.node x) s.queue := by
        intro x; simp [List.count_append, List.count_singleton]
      constructor <;> simp only [cnt, qCount, wCount, rCount, hq]
      · exact hi.place
      · exact hi.once
      · exact hi.ready
      · exact hi.relOk
      · exact hi.relNodup
      · exact hi.relsing
      · exact hi.running
      · exact hi.held
      · intro x hx
        simp only [List.mem_append, List.mem_singleton] at hx
        rcases hx with hx | hx
        · exact hi.queued x hx
        · cases hx
      · exact hi.okBegun
      · exact hi.failBegun
      · exact hi.skipNot
      · exact hi.begunNodup
      · exact hi.begunCnt
      · exact hi.remOk
    · cases h
  · cases h

theorem inv_init {g : Graph} (hg : g.WF) : Inv g (init g) := by
  have hs : (sources g).Nodup := hg.nodesNodup.sublist List.filter_sublist
  constructor <;> simp only [init, cnt, qCount, wCount, rCount]
  · intro x
    simp
    have : Function.Injective Item.node := by intro a b h; cases h; rfl
    exact List.count_map_of_injective _ _ this _
  · intro x; exact List.nodup_iff_count_le_one.mp hs x
  · intro y hy p hp
    simp only [List.countP_nil, List.count_nil, Nat.add_zero] at hy
    have hy' : 0 < List.count (Item.node y) (List.map Item.node (sources g)) := by omega
    have := List.count_pos_iff.mp hy'
    simp [sources, classify_source_iff, Graph.predCount] at this
    rw [this.2] at hp; cases hp
  · intro p y h; cases h
  · exact List.nodup_nil
  · intro x todo h; cases h
  · intro x h; cases h
  · intro x h; cases h
  · intro x _; exact List.not_mem_nil
  · intro x h; cases h
  · intro x h; cases h
  · intro x h; cases h
  · exact List.nodup_nil
  · intro x h; cases h
  · intro y _; simp

theorem inv_step {g : Graph} (hg : g.WF) {cfg : Cfg} {s s' : St} (l : Label) (hi : Inv g s)
    (h : step? g cfg s l = some s') : Inv g s' := by
  cases l with
  | spawn => exact inv_spawn hi h
  | get w i => exact inv_get hi h
  | check w => exact inv_check hi h
  | finOk w => exact inv_finOk hg hi h
  | finFail w => exact inv_finFail hi h
  | release w y => exact inv_release hg hi h
  | taskDone w => exact inv_taskDone hi h
  | joinReturn =>
    simp only [step?] at h
    split at h
    · split at h
      · cases h; exact inv_coord_only hi _ s.stop
      · cases h
    · cases h
  | interrupt =>
    simp only [step?] at h
    split at h
    · cases h; exact inv_coord_only hi _ s.stop
    · cases h
  | setStop =>
    simp only [step?] at h
    split at h
    · cases h; exact inv_coord_only hi _ true
    · cases h
  | putDone => exact inv_putDone hi h
  | joined =>
    simp only [step?] at h
    split at h
    · split at h
      · cases h; exact inv_coord_only hi _ s.stop
      · cases h
    · cases h

theorem inv_reach {g : Graph} (hg : g.WF) {cfg : Cfg} {s : St} (h : Reach g cfg s) : Inv g s := by
  induction h with
  | init => exact inv_init hg
  | step l _ hs ih => exact inv_step hg l ih hs

end Uberjob.Engine
