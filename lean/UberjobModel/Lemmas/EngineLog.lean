import UberjobModel.Lemmas.EngineLive
/-!
  The observable event log of the engine (`begin x`, `ok x`, `fail x`): every finish is preceded by its begin,
  every node begins at most once and finishes at most once, and at the end everything begun has finished.
-/
namespace Uberjob.Engine

def finCount (x : Nat) (l : List Ev) : Nat := l.count (.ok x) + l.count (.fail x)
def beginCount (x : Nat) (l : List Ev) : Nat := l.count (.begin x)

structure InvLog (s : St) : Prop where
  begins   : ∀ x, s.log.count (.begin x) = s.begun.count x
  oks      : ∀ x, s.log.count (.ok x) = s.okd.count x
  fails    : ∀ x, s.log.count (.fail x) = s.failed.count x
  finOnce  : ∀ x, s.okd.count x + s.failed.count x ≤ s.begun.count x
  where_   : ∀ x, x ∈ s.begun → W.running x ∈ s.ws ∨ x ∈ s.okd ∨ x ∈ s.failed
  prefixes : ∀ i x, finCount x (s.log.take i) ≤ beginCount x (s.log.take i)

theorem take_append_singleton {α} (l : List α) (a : α) (i : Nat) :
    (l ++ [a]).take i = if i ≤ l.length then l.take i else l ++ [a] := by
  split
  · next h => rw [List.take_append_of_le_length h]
  · next h => rw [List.take_of_length_le (by simp; omega)]

theorem mem_set_of_ne {α} {l : List α} {i : Nat} {a b : α} (h : b ∈ l) (hb : l[i]? ≠ some b ∨ True) :
    b ∈ l.set i a ∨ l[i]? = some b := by
  obtain ⟨j, hj⟩ := List.mem_iff_getElem?.mp h
  by_cases hij : i = j
  · right; subst hij; exact hj
  · left
    apply List.mem_iff_getElem?.mpr
    exact ⟨j, by rw [List.getElem?_set]; simp [hij, hj]⟩

theorem invLog_init (g : Graph) : InvLog (init g) := by
  constructor <;> simp [init, finCount, beginCount]

theorem invLog_step {g : Graph} {cfg : Cfg} {s s' : St} (l : Label) (hi : Inv g s) (hl : InvLog s)
    (h : step? g cfg s l = some s') : InvLog s' := by
  -- steps that do not touch the log or the ghost lists only move workers that are not `running`
  have keepRunning : ∀ (w : Nat) (st st' : W), s.ws[w]? = some st → (∀ x, st ≠ W.running x) →
      ∀ x, W.running x ∈ s.ws → W.running x ∈ s.ws.set w st' := by
    intro w st st' hw hne x hx
    rcases mem_set_of_ne (i := w) (a := st') hx (Or.inr trivial) with h1 | h1
    · exact h1
    · rw [hw] at h1; cases h1; exact absurd rfl (hne x)
  cases l with
  | check w =>
    simp only [step?] at h
    split at h
    · next hw =>
      cases h
      exact ⟨hl.begins, hl.oks, hl.fails, hl.finOnce,
        fun x hx => (hl.where_ x hx).imp_left (keepRunning w _ _ hw (by intro x h; cases h) x), hl.prefixes⟩
    · next x hw =>
      split at h
      · cases h
        exact ⟨hl.begins, hl.oks, hl.fails, hl.finOnce,
          fun y hy => (hl.where_ y hy).imp_left (keepRunning w _ _ hw (by intro x h; cases h) y), hl.prefixes⟩
      · cases h
        have hlt : w < s.ws.length := (List.getElem?_eq_some_iff.mp hw).1
        refine ⟨?_, ?_, ?_, ?_, ?_, ?_⟩
        · intro y; simp only [setW, List.count_append]; rw [hl.begins y]; simp [List.count_singleton]
        · intro y; simp only [setW, List.count_append]; rw [hl.oks y]; simp
        · intro y; simp only [setW, List.count_append]; rw [hl.fails y]; simp
        · intro y; have := hl.finOnce y; simp only [setW, List.count_append]; omega
        · intro y hy
          simp only [setW, List.mem_append, List.mem_singleton] at hy ⊢
          rcases hy with hy | hy
          · exact (hl.where_ y hy).imp_left (keepRunning w _ _ hw (by intro x h; cases h) y)
          · subst hy; left; exact List.mem_iff_getElem?.mpr ⟨w, by simp [List.getElem?_set, hlt]⟩
        · intro i y
          simp only [setW]
          rw [take_append_singleton]
          split
          · exact hl.prefixes i y
          · have h1 := hl.prefixes s.log.length y
            rw [List.take_length] at h1
            simp only [finCount, beginCount, List.count_append] at h1 ⊢
            simp [List.count_singleton]; omega
    · cases h
  | finOk w =>
    simp only [step?] at h
    split at h
    · next x hw =>
      cases h
      have hlt : w < s.ws.length := (List.getElem?_eq_some_iff.mp hw).1
      obtain ⟨hxo, hxf, hxb⟩ := hi.running x (List.mem_of_getElem? hw)
      have hb1 : s.begun.count x = 1 := by
        have h1 := List.nodup_iff_count_le_one.mp hi.begunNodup x
        have h2 := List.count_pos_iff.mpr hxb
        omega
      have ho0 : s.okd.count x = 0 := List.count_eq_zero.mpr hxo
      have hf0 : s.failed.count x = 0 := List.count_eq_zero.mpr hxf
      refine ⟨?_, ?_, ?_, ?_, ?_, ?_⟩
      · intro y; simp only [setW, List.count_append]; rw [hl.begins y]; simp
      · intro y; simp only [setW, List.count_append]; rw [hl.oks y]; simp [List.count_singleton]
      · intro y; simp only [setW, List.count_append]; rw [hl.fails y]; simp
      · intro y
        have := hl.finOnce y
        simp only [setW, List.count_append, List.count_singleton]
        by_cases hyx : x = y
        · subst hyx; simp; omega
        · simp [hyx]; omega
      · intro y hy
        simp only [setW, List.mem_append, List.mem_singleton]
        by_cases hyx : y = x
        · right; left; right; exact hyx
        · rcases hl.where_ y hy with h1 | h1 | h1
          · left
            rcases mem_set_of_ne (i := w) (a := W.releasing x (g.succs x)) h1 (Or.inr trivial) with h2 | h2
            · exact h2
            · rw [hw] at h2; cases h2; exact absurd rfl hyx
          · right; left; left; exact h1
          · right; right; exact h1
      · intro i y
        simp only [setW]
        rw [take_append_singleton]
        split
        · exact hl.prefixes i y
        · have h1 := hl.finOnce y
          simp only [finCount, beginCount, List.count_append, List.count_singleton]
          rw [hl.oks y, hl.fails y, hl.begins y]
          by_cases hyx : x = y
          · subst hyx; simp; omega
          · simp [hyx]; omega
    · cases h
  | finFail w =>
    simp only [step?] at h
    split at h
    · next x hw =>
      cases h
      have hlt : w < s.ws.length := (List.getElem?_eq_some_iff.mp hw).1
      obtain ⟨hxo, hxf, hxb⟩ := hi.running x (List.mem_of_getElem? hw)
      have hb1 : s.begun.count x = 1 := by
        have h1 := List.nodup_iff_count_le_one.mp hi.begunNodup x
        have h2 := List.count_pos_iff.mpr hxb
        omega
      have ho0 : s.okd.count x = 0 := List.count_eq_zero.mpr hxo
      have hf0 : s.failed.count x = 0 := List.count_eq_zero.mpr hxf
      refine ⟨?_, ?_, ?_, ?_, ?_, ?_⟩
      · intro y; simp only [setW, List.count_append]; rw [hl.begins y]; simp
      · intro y; simp only [setW, List.count_append]; rw [hl.oks y]; simp
      · intro y; simp only [setW, List.count_append]; rw [hl.fails y]; simp [List.count_singleton]
      · intro y
        have := hl.finOnce y
        simp only [setW, List.count_append, List.count_singleton]
        by_cases hyx : x = y
        · subst hyx; simp; omega
        · simp [hyx]; omega
      · intro y hy
        simp only [setW, List.mem_append, List.mem_singleton]
        by_cases hyx : y = x
        · right; right; right; exact hyx
        · rcases hl.where_ y hy with h1 | h1 | h1
          · left
            rcases mem_set_of_ne (i := w) (a := W.finishing false) h1 (Or.inr trivial) with h2 | h2
            · exact h2
            · rw [hw] at h2; cases h2; exact absurd rfl hyx
          · right; left; exact h1
          · right; right; left; exact h1
      · intro i y
        simp only [setW]
        rw [take_append_singleton]
        split
        · exact hl.prefixes i y
        · have h1 := hl.finOnce y
          simp only [finCount, beginCount, List.count_append, List.count_singleton]
          rw [hl.oks y, hl.fails y, hl.begins y]
          by_cases hyx : x = y
          · subst hyx; simp; omega
          · simp [hyx]; omega
    · cases h
  | spawn =>
    simp only [step?] at h
    repeat' split at h
    all_goals first
      | (cases h; exact ⟨hl.begins, hl.oks, hl.fails, hl.finOnce,
          fun x hx => (hl.where_ x hx).imp_left (fun hm => List.mem_append_left _ hm), hl.prefixes⟩)
      | cases h
  | get w i =>
    simp only [step?] at h
    split at h
    · next hw =>
      split at h
      · cases h
        exact ⟨hl.begins, hl.oks, hl.fails, hl.finOnce,
          fun x hx => (hl.where_ x hx).imp_left (keepRunning w _ _ hw (by intro x h; cases h) x), hl.prefixes⟩
      · cases h
    · cases h
  | release w y =>
    simp only [step?] at h
    split at h
    · next x todo hw =>
      split at h
      · cases h
        exact ⟨hl.begins, hl.oks, hl.fails, hl.finOnce,
          fun z hz => (hl.where_ z hz).imp_left (keepRunning w _ _ hw (by intro x h; cases h) z), hl.prefixes⟩
      · cases h
    · cases h
  | taskDone w =>
    simp only [step?] at h
    split at h
    · next x hw =>
      cases h
      exact ⟨hl.begins, hl.oks, hl.fails, hl.finOnce,
        fun z hz => (hl.where_ z hz).imp_left (keepRunning w _ _ hw (by intro x h; cases h) z), hl.prefixes⟩
    · next hw =>
      cases h
      exact ⟨hl.begins, hl.oks, hl.fails, hl.finOnce,
        fun z hz => (hl.where_ z hz).imp_left (keepRunning w _ _ hw (by intro x h; cases h) z), hl.prefixes⟩
    · next hw =>
      cases h
      exact ⟨hl.begins, hl.oks, hl.fails, hl.finOnce,
        fun z hz => (hl.where_ z hz).imp_left (keepRunning w _ _ hw (by intro x h; cases h) z), hl.prefixes⟩
    · cases h
  | joinReturn =>
    simp only [step?] at h
    repeat' split at h
    all_goals first | (cases h; exact ⟨hl.begins, hl.oks, hl.fails, hl.finOnce, hl.where_, hl.prefixes⟩) | cases h
  | interrupt =>
    simp only [step?] at h
    repeat' split at h
    all_goals first | (cases h; exact ⟨hl.begins, hl.oks, hl.fails, hl.finOnce, hl.where_, hl.prefixes⟩) | cases h
  | setStop =>
    simp only [step?] at h
    repeat' split at h
    all_goals first | (cases h; exact ⟨hl.begins, hl.oks, hl.fails, hl.finOnce, hl.where_, hl.prefixes⟩) | cases h
  | putDone =>
    simp only [step?] at h
    repeat' split at h
    all_goals first | (cases h; exact ⟨hl.begins, hl.oks, hl.fails, hl.finOnce, hl.where_, hl.prefixes⟩) | cases h
  | joined =>
    simp only [step?] at h
    repeat' split at h
    all_goals first | (cases h; exact ⟨hl.begins, hl.oks, hl.fails, hl.finOnce, hl.where_, hl.prefixes⟩) | cases h

theorem invLog_reach {g : Graph} (hg : g.WF) {cfg : Cfg} {s : St} (h : Reach g cfg s) : InvLog s := by
  induction h with
  | init => exact invLog_init g
  | step l hr hs ih => exact invLog_step l (inv_reach hg hr) ih hs

/-- When the run has returned, every call that was started has finished: begins = finishes, node by node. -/
theorem log_balanced_at_return {g : Graph} (hg : g.WF) {cfg : Cfg} (hw : 1 ≤ cfg.workers) {s : St}
    (h : Reach g cfg s) {i : Bool} (hc : s.coord = .returned i) (x : Nat) :
    finCount x s.log = beginCount x s.log := by
  have hl := invLog_reach hg h
  have hall := (inv3_reach hw h).retd i hc
  have hi := inv_reach hg h
  unfold finCount beginCount
  rw [hl.oks, hl.fails, hl.begins]
  have h1 := hl.finOnce x
  have h2 := List.nodup_iff_count_le_one.mp hi.begunNodup x
  by_cases hx : x ∈ s.begun
  · have hb : s.begun.count x = 1 := by have := List.count_pos_iff.mpr hx; omega
    rcases hl.where_ x hx with h3 | h3 | h3
    · have := hall _ h3; cases this
    · have := List.count_pos_iff.mpr h3; omega
    · have := List.count_pos_iff.mpr h3; omega
  · have : s.begun.count x = 0 := List.count_eq_zero.mpr hx
    omega

end Uberjob.Engine
