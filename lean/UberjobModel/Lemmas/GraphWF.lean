import UberjobModel.Model.Engine
namespace Uberjob.Engine

theorem mem_dedup {l : List Nat} {a : Nat} : a ∈ dedup l ↔ a ∈ l := by
  induction l with
  | nil => simp [dedup]
  | cons x xs ih =>
    simp only [dedup, List.mem_cons, List.mem_filter, ih]
    by_cases h : a = x <;> simp [h]

theorem nodup_dedup (l : List Nat) : (dedup l).Nodup := by
  induction l with
  | nil => simp [dedup]
  | cons x xs ih =>
    simp only [dedup, List.nodup_cons]
    refine ⟨?_, ih.sublist List.filter_sublist⟩
    simp [List.mem_filter]

theorem ofEdges_wf (nodes : List Nat) (edges : List (Nat × Nat)) : (Graph.ofEdges nodes edges).WF := by
  constructor
  · intro x y
    simp only [Graph.ofEdges, mem_dedup, List.mem_map, List.mem_filter]
    constructor
    · rintro ⟨e, ⟨⟨he, hn⟩, hx⟩, hy⟩
      refine ⟨e, ⟨⟨he, hn⟩, ?_⟩, ?_⟩ <;> simp_all
    · rintro ⟨e, ⟨⟨he, hn⟩, hy⟩, hx⟩
      refine ⟨e, ⟨⟨he, hn⟩, ?_⟩, ?_⟩ <;> simp_all
  · intro x; exact nodup_dedup _
  · intro y; exact nodup_dedup _
  · intro x y
    simp only [Graph.ofEdges, mem_dedup, List.mem_map, List.mem_filter]
    rintro ⟨e, ⟨⟨he, hn⟩, hx⟩, hy⟩
    simp at hn hx
    subst hx; subst hy
    exact hn
  · exact nodup_dedup _

end Uberjob.Engine
