import UberjobModel.Lemmas.ExecInv
/-!
  Facts about the END of a run on the physical plan: the engine graph is acyclic (so a run that returns normally has
  completed every node, C04), the node whose result is returned is a node of the plan, and the consequences of the
  execution invariant for a complete run.
-/
set_option linter.unusedSectionVars false
set_option linter.unusedSimpArgs false
namespace Uberjob.Exec
open Uberjob.Phys Uberjob.Cache

/-- The engine graph of a physical plan is acyclic: node codes increase along every edge. -/
theorem engine_ranked {P : Input} (hP : P.WF) : ∀ x y, y ∈ (engineGraph P).succs x → x < y := by
  intro x y hy
  simp only [engineGraph, toEngine, Engine.Graph.ofEdges, Engine.mem_dedup, List.mem_map, List.mem_filter] at hy
  obtain ⟨e, ⟨⟨⟨pe, hpe, rfl⟩, _⟩, hx⟩, rfl⟩ := hy
  simp only [beq_iff_eq] at hx
  subst hx
  exact final_rank hP pe (mem_dropSourceLits_edges.mp hpe).1

/-- The node whose result `run` returns survives both pruning steps. -/
theorem out_kept {P : Input} {a : PN} (ho : physOut P = some a) (hb : a ∈ (physBuild P).nodes) :
    a ∈ (physFinal P).nodes := by
  unfold physFinal prunePlan pruneLiterals
  have h1 : a ∈ (pruneAnc (fuelOf P) (required P ++ (physOut P).toList) (physBuild P)).nodes :=
    mem_pruneAnc_nodes.mpr ⟨hb, subset_anc (by simp [ho])⟩
  exact foldLit_nodes_keep h1 (by simp [List.mem_filter, ho])

theorem engine_of_final {P : Input} {a : PN} (h : a ∈ (physFinal P).nodes) (hl : a.isLit P = false) :
    code a ∈ (engineGraph P).nodes :=
  toEngine_nodes_mem (mem_dropSourceLits_nodes.mpr ⟨h, by simp [hl]⟩)

/-- In the plan before pruning, the original node of a registered node that is not rebuilt has no out-edge: its
    consumers were moved to the read node, its plain dependents dropped. -/
theorem no_out_of_kept_orig {P : Input} (hP : P.WF) {i : Nat} {sr : Bool} (hr : P.regOf i = some sr)
    (hns : sr = true ∨ P.isStale i = false) : ∀ e ∈ (physBuild P).edges, e.src ≠ .orig i := by
  intro e he hs
  rcases mem_built_edges.mp he with ⟨le, hle, hre⟩ | ⟨r, hrm, hg⟩
  · rcases rewire_cases hre with ⟨h0, rfl⟩ | ⟨s', _, _, rfl⟩ | ⟨s', _, _, _, rfl⟩
    · simp only [PN.orig.injEq] at hs; rw [hs, hr] at h0; cases h0
    · cases hs
    · exact W_not_orig P _ _ hs
  · have hreg : P.regOf r.1 = some r.2 := regOf_of_mem hP (by cases r; exact hrm)
    rcases gadget_cases hg with h | ⟨_, _, h | ⟨u, a, _, hd, h⟩⟩ | ⟨hst, hsrc, h | h | h⟩
    · subst h; cases hs
    · subst h; cases hs
    · subst h
      simp only at hs
      subst hs
      rcases depSrc_cases hd with ⟨h1, h2⟩ | ⟨_, _, _, h2⟩
      · simp only [PN.orig.injEq] at h2; rw [← h2, hr] at h1; cases h1
      · exact W_not_orig P _ _ h2.symm
    · subst h; cases hs
    · subst h
      simp only [PN.orig.injEq] at hs
      rw [hs] at hreg hst
      rw [hr] at hreg
      rcases hns with h1 | h1
      · rw [h1, hsrc] at hreg; cases hreg
      · rw [h1] at hst; cases hst
    · subst h; cases hs

/-- **An up-to-date stored value (and a source) is not recomputed**: its original node is not part of the plan a run
    executes. -/
theorem kept_orig_pruned {P : Input} (hP : P.WF) {i : Nat} {sr : Bool} (hr : P.regOf i = some sr)
    (hns : sr = true ∨ P.isStale i = false) : PN.orig i ∉ (physFinal P).nodes := by
  intro hm
  unfold physFinal prunePlan pruneLiterals at hm
  obtain ⟨_, hK⟩ := mem_pruneAnc_nodes.mp (foldLit_nodes_sub hm)
  obtain ⟨n, _, r, hrm, hp⟩ := mem_anc.mp hK
  cases hp with
  | zero =>
    rcases List.mem_append.mp hrm with h1 | h1
    · simp only [required, List.mem_map, List.mem_filter] at h1
      obtain ⟨e, _, he⟩ := h1
      exact W_not_orig P _ _ he
    · simp only [physOut, Option.mem_toList, Option.map_eq_some_iff] at h1
      obtain ⟨o, _, ho⟩ := h1
      split at ho
      · cases ho
      · next hno => simp only [PN.orig.injEq] at ho; subst ho; rw [hr] at hno; simp at hno
  | succ ha _ =>
    obtain ⟨e, he, hs, _⟩ := ha
    exact no_out_of_kept_orig hP hr hns e he hs

end Uberjob.Exec
