import UberjobModel.Lemmas.EngineInv
/-!
  Second invariant bundle: error bookkeeping, worker-pool size, `stop`, and the error bound.
-/
namespace Uberjob.Engine
open Uberjob.Gen.Engine

def Coord.past : Coord → Bool
  | .putting _ _ => true
  | .joining _ => true
  | .returned _ => true
  | _ => false

structure Inv2 (cfg : Cfg) (s : St) : Prop where
  firstHead : s.first = s.failed.head?
  errsLen   : s.errs = s.failed.length
  wsLen     : match s.coord with
              | .spawning i => s.ws.length = i ∧ i < cfg.workers
              | _ => s.ws.length = cfg.workers
  stopPast  : s.coord.past = true → s.stop = true
  errBound  : ∀ k, cfg.maxErr = some k →
                if s.stop then s.errs + runningCount s ≤ k + cfg.workers else s.errs ≤ k
  stopWhy   : s.stop = true → s.coord.past = true ∨ ∃ k, cfg.maxErr = some k ∧ k < s.errs

theorem ws_le {cfg : Cfg} {s : St} (h : Inv2 cfg s) : s.ws.length ≤ cfg.workers := by
  have := h.wsLen
  split at this <;> omega

theorem running_le {cfg : Cfg} {s : St} (h : Inv2 cfg s) : runningCount s ≤ cfg.workers :=
  Nat.le_trans List.countP_le_length (ws_le h)

theorem runningCount_set {ws : List W} {w : Nat} {st st' : W} (hw : ws[w]? = some st) :
    (ws.set w st').countP W.isRunning + (if st.isRunning then 1 else 0)
      = ws.countP W.isRunning + (if st'.isRunning then 1 else 0) := by
  obtain ⟨hlt, hwi⟩ := List.getElem?_eq_some_iff.mp hw
  rw [List.countP_set hlt, hwi]
  by_cases h1 : st.isRunning = true
  · have := countP_pos_of_getElem? hw h1
    simp only [h1, if_true]; omega
  · simp only [h1]; simp

theorem inv2_init (cfg : Cfg) (hw : 1 ≤ cfg.workers) (g : Graph) : Inv2 cfg (init g) := by
  constructor <;> simp [init, Coord.past, runningCount]
  · omega

theorem inv2_step {g : Graph} {cfg : Cfg} {s s' : St} (l : Label) (hi : Inv2 cfg s)
    (h : step? g cfg s l = some s') : Inv2 cfg s' := by
  have hwl := hi.wsLen
  cases l with
  | spawn =>
    simp only [step?] at h
    split at h
    · next i hc =>
      split at h
      · next hlt =>
        cases h
        rw [hc] at hwl
        constructor <;> simp only [runningCount, List.countP_append, List.length_append]
        · exact hi.firstHead
        · exact hi.errsLen
        · split
          · next h1 => split at h1 <;> simp_all <;> omega
          · next h1 => split at h1 <;> simp_all
        · intro hp; split at hp <;> simp [Coord.past] at hp
        · simpa [runningCount, W.isRunning] using hi.errBound
        · intro hs
          have := hi.stopWhy hs
          simp [hc, Coord.past] at this
          right; exact this
      · cases h
    · cases h
  | get w i =>
    simp only [step?] at h
    split at h
    · next hw =>
      split at h
      · cases h
        have hr := runningCount_set (st' := W.held i) hw
        simp [W.isRunning] at hr
        constructor <;> simp only [setW, runningCount, List.length_set, hr]
        · exact hi.firstHead
        · exact hi.errsLen
        · exact hi.wsLen
        · exact hi.stopPast
        · exact hi.errBound
        · exact hi.stopWhy
      · cases h
    · cases h
  | check w =>
    simp only [step?] at h
    split at h
    · next hw =>
      cases h
      have hr := runningCount_set (st' := W.finishing true) hw
      simp [W.isRunning] at hr
      constructor <;> simp only [setW, runningCount, List.length_set, hr]
      · exact hi.firstHead
      · exact hi.errsLen
      · exact hi.wsLen
      · exact hi.stopPast
      · exact hi.errBound
      · exact hi.stopWhy
    · next x hw =>
      split at h
      · cases h
        have hr := runningCount_set (st' := W.finishing false) hw
        simp [W.isRunning] at hr
        constructor <;> simp only [setW, runningCount, List.length_set, hr]
        · exact hi.firstHead
        · exact hi.errsLen
        · exact hi.wsLen
        · exact hi.stopPast
        · exact hi.errBound
        · exact hi.stopWhy
      · next hns =>
        cases h
        have hr := runningCount_set (st' := W.running x) hw
        simp [W.isRunning] at hr
        constructor <;> simp only [setW, runningCount, List.length_set]
        · exact hi.firstHead
        · exact hi.errsLen
        · exact hi.wsLen
        · exact hi.stopPast
        · intro k hk
          have := hi.errBound k hk
          simp only [hns] at this ⊢
          simpa using this
        · exact hi.stopWhy
    · cases h
  | finOk w =>
    simp only [step?] at h
    split at h
    · next x hw =>
      cases h
      have hr := runningCount_set (st' := W.releasing x (g.succs x)) hw
      simp [W.isRunning] at hr
      constructor <;> simp only [setW, runningCount, List.length_set]
      · exact hi.firstHead
      · exact hi.errsLen
      · exact hi.wsLen
      · exact hi.stopPast
      · intro k hk
        have := hi.errBound k hk
        simp only [runningCount] at this
        by_cases hs : s.stop = true
        · simp only [hs, if_true] at this ⊢; omega
        · simp only [hs] at this ⊢; exact this
      · exact hi.stopWhy
    · cases h
  | finFail w =>
    simp only [step?] at h
    split at h
    · next x hw =>
      cases h
      have hr := runningCount_set (st' := W.finishing false) hw
      simp [W.isRunning] at hr
      have hrl := running_le hi
      simp only [runningCount] at hrl
      constructor <;> simp only [setW, runningCount, List.length_set]
      · have := hi.firstHead
        cases hf : s.failed with
        | nil => simp [hf] at this; simp [this]
        | cons a t => simp [hf] at this; simp [this]
      · simp [hi.errsLen]
      · exact hi.wsLen
      · intro hp; simp [hi.stopPast hp]
      · intro k hk
        have := hi.errBound k hk
        simp only [runningCount] at this
        rw [hk]
        by_cases hs : s.stop = true
        · simp only [hs, if_true, Bool.true_or] at this ⊢
          omega
        · have hs' : s.stop = false := by simpa using hs
          simp only [hs', Bool.false_or] at this ⊢
          by_cases hc : stopCond (s.errs + 1) (some k) = true
          · simp only [hc, if_true]
            have := (stopCond_some _ _).mp hc
            simp at *; omega
          · have hc' : stopCond (s.errs + 1) (some k) = false := by simpa using hc
            simp only [hc']
            have : ¬ k < s.errs + 1 := fun h => hc ((stopCond_some _ _).mpr h)
            simp; omega
      · intro hs
        simp only [Bool.or_eq_true] at hs
        rcases hs with hs | hs
        · rcases hi.stopWhy hs with h1 | ⟨k, hk, hlt⟩
          · left; exact h1
          · right; exact ⟨k, hk, by omega⟩
        · right
          cases hm : cfg.maxErr with
          | none => rw [hm, stopCond_none] at hs; cases hs
          | some k => rw [hm] at hs; exact ⟨k, rfl, (stopCond_some _ _).mp hs⟩
    · cases h
  | release w y =>
    simp only [step?] at h
    split at h
    · next x todo hw =>
      split at h
      · cases h
        have hr := runningCount_set (st' := W.releasing x (todo.erase y)) hw
        simp [W.isRunning] at hr
        constructor <;> simp only [setW, runningCount, List.length_set, hr]
        · exact hi.firstHead
        · exact hi.errsLen
        · exact hi.wsLen
        · exact hi.stopPast
        · exact hi.errBound
        · exact hi.stopWhy
      · cases h
    · cases h
  | taskDone w =>
    simp only [step?] at h
    split at h
    · next x hw =>
      cases h
      have hr := runningCount_set (st' := W.idle) hw
      simp [W.isRunning] at hr
      constructor <;> simp only [setW, runningCount, List.length_set, hr]
      · exact hi.firstHead
      · exact hi.errsLen
      · exact hi.wsLen
      · exact hi.stopPast
      · exact hi.errBound
      · exact hi.stopWhy
    · next hw =>
      cases h
      have hr := runningCount_set (st' := W.idle) hw
      simp [W.isRunning] at hr
      constructor <;> simp only [setW, runningCount, List.length_set, hr]
      · exact hi.firstHead
      · exact hi.errsLen
      · exact hi.wsLen
      · exact hi.stopPast
      · exact hi.errBound
      · exact hi.stopWhy
    · next hw =>
      cases h
      have hr := runningCount_set (st' := W.exited) hw
      simp [W.isRunning] at hr
      constructor <;> simp only [setW, runningCount, List.length_set, hr]
      · exact hi.firstHead
      · exact hi.errsLen
      · exact hi.wsLen
      · exact hi.stopPast
      · exact hi.errBound
      · exact hi.stopWhy
    · cases h
  | joinReturn =>
    simp only [step?] at h
    split at h
    · next hc =>
      split at h
      · cases h
        rw [hc] at hwl
        constructor <;> simp only [runningCount]
        · exact hi.firstHead
        · exact hi.errsLen
        · exact hwl
        · intro hp; simp [Coord.past] at hp
        · exact hi.errBound
        · intro hs
          have := hi.stopWhy hs
          simp [hc, Coord.past] at this
          right; exact this
      · cases h
    · cases h
  | interrupt =>
    simp only [step?] at h
    split at h
    · next hc =>
      cases h
      rw [hc] at hwl
      constructor <;> simp only [runningCount]
      · exact hi.firstHead
      · exact hi.errsLen
      · exact hwl
      · intro hp; simp [Coord.past] at hp
      · exact hi.errBound
      · intro hs
        have := hi.stopWhy hs
        simp [hc, Coord.past] at this
        right; exact this
    · cases h
  | setStop =>
    simp only [step?] at h
    split at h
    · next i hc =>
      cases h
      rw [hc] at hwl
      have hrl := running_le hi
      constructor <;> simp only [runningCount]
      · exact hi.firstHead
      · exact hi.errsLen
      · exact hwl
      · intro _; trivial
      · intro k hk
        have := hi.errBound k hk
        simp only [runningCount] at this hrl
        simp only [if_true]
        split at this <;> omega
      · intro _; left; simp [Coord.past]
    · cases h
  | putDone =>
    simp only [step?] at h
    split at h
    · next k i hc =>
      split at h
      · cases h
        rw [hc] at hwl
        have hsp := hi.stopPast (by simp [hc, Coord.past])
        constructor <;> simp only [runningCount]
        · exact hi.firstHead
        · exact hi.errsLen
        · split <;> (next h1 => split at h1 <;> simp_all)
        · intro _; exact hsp
        · exact hi.errBound
        · intro _; left; split <;> simp [Coord.past]
      · cases h
    · cases h
  | joined =>
    simp only [step?] at h
    split at h
    · next i hc =>
      split at h
      · cases h
        rw [hc] at hwl
        have hsp := hi.stopPast (by simp [hc, Coord.past])
        constructor <;> simp only [runningCount]
        · exact hi.firstHead
        · exact hi.errsLen
        · exact hwl
        · intro _; exact hsp
        · exact hi.errBound
        · intro _; left; simp [Coord.past]
      · cases h
    · cases h

theorem inv2_reach {g : Graph} {cfg : Cfg} (hw : 1 ≤ cfg.workers) {s : St} (h : Reach g cfg s) :
    Inv2 cfg s := by
  induction h with
  | init => exact inv2_init cfg hw g
  | step l _ hs ih => exact inv2_step l ih hs

end Uberjob.Engine
