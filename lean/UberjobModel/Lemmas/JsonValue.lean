import UberjobModel.Lemmas.JsonNum
/-! values: `json.loads(json.dumps(v, …)) == v` -/
namespace Uberjob.Json

/-! ## white space -/

def allWs (s : Str) : Prop := ∀ c ∈ s, isWs c = true

theorem skipWs_ws (g x : Str) (hg : allWs g) : skipWs (g ++ x) = skipWs x := by
  induction g with
  | nil => rfl
  | cons c g ih =>
    simp only [List.cons_append, skipWs, hg c (by simp), if_true]
    exact ih (fun d hd => hg d (by simp [hd]))

theorem skipWs_head {c : Nat} {r : Str} (h : isWs c = false) : skipWs (c :: r) = c :: r := by
  simp [skipWs, h]

theorem allWs_nl (n lvl : Nat) : allWs (nl n lvl) := by
  intro c hc
  simp only [nl, List.mem_cons, List.mem_replicate] at hc
  rcases hc with rfl | ⟨_, rfl⟩ <;> decide

theorem allWs_gap (L : Layout) (k : Nat) : allWs (L.gap k) := by
  cases L with
  | indent n => exact allWs_nl n k
  | compact => intro c hc; cases hc

theorem allWs_sgap (L : Layout) (k : Nat) : allWs (L.sgap k) := by
  cases L with
  | indent n => exact allWs_nl n k
  | compact => intro c hc; simp [Layout.sgap] at hc; subst hc; decide

/-- a gap followed by a closing bracket (or a comma) does not continue a number -/
theorem term_gap (L : Layout) (k c : Nat) (r : Str) (hc : isDigit c = false ∧ c ≠ 46 ∧ c ≠ 101 ∧ c ≠ 69) :
    Term (L.gap k ++ c :: r) := by
  cases L with
  | indent n => exact term_cons (by decide)
  | compact => exact term_cons hc

/-! ## how a rendered value starts -/

def Starts (s : Str) : Prop := ∃ c t, s = c :: t ∧ isWs c = false ∧ c ≠ 93 ∧ c ≠ 125 ∧ c ≠ 44 ∧ c ≠ 0xFEFF

theorem starts_append {s : Str} (h : Starts s) (x : Str) : Starts (s ++ x) := by
  obtain ⟨c, t, rfl, h⟩ := h
  exact ⟨c, t ++ x, rfl, h⟩

theorem starts_encInt (n : Int) : Starts (encInt n) := by
  unfold encInt
  split
  · exact ⟨45, _, rfl, by decide⟩
  · rcases Nat.eq_zero_or_pos n.toNat with h | h
    · rw [h, natDigits_zero]; exact ⟨48, [], rfl, by decide⟩
    · obtain ⟨d, ds, e, h1, h2⟩ := natDigits_head _ h
      rw [e]
      refine ⟨d, ds, rfl, ?_, by omega, by omega, by omega, by omega⟩
      simp [isWs]; omega

theorem starts_natDigits (n : Nat) (X : Str) : Starts (natDigits n ++ X) := by
  rcases Nat.eq_zero_or_pos n with h | h
  · rw [h, natDigits_zero]; exact ⟨48, _, rfl, by decide⟩
  · obtain ⟨d, ds, e, h1, h2⟩ := natDigits_head _ h
    rw [e]
    refine ⟨d, ds ++ X, rfl, ?_, by omega, by omega, by omega, by omega⟩
    simp [isWs]; omega

theorem starts_ftext (f : FT) : Starts f.text := by
  unfold FT.text
  split
  · exact ⟨45, _, rfl, by decide⟩
  · exact starts_natDigits _ _

theorem starts_render (o : Opts) (lvl : Nat) (v : JV) : Starts (render o lvl v) := by
  cases v with
  | null => simp only [render]; exact ⟨110, _, rfl, by decide⟩
  | bool b => cases b <;> simp only [render] <;> exact ⟨_, _, rfl, by decide⟩
  | int n => simp only [render]; exact starts_encInt n
  | float f => simp only [render]; exact starts_ftext f
  | str s => simp only [render, encStr]; exact ⟨34, _, rfl, by decide⟩
  | arr xs => cases xs <;> simp only [render] <;> exact ⟨91, _, rfl, by decide⟩
  | obj ms => cases ms <;> simp only [render] <;> exact ⟨123, _, rfl, by decide⟩

theorem headIs_starts {s : Str} (h : Starts s) : headIs 93 s = false ∧ headIs 125 s = false ∧ headIs 44 s = false ∧ headIs 0xFEFF s = false := by
  obtain ⟨c, t, rfl, _, h1, h2, h3, h4⟩ := h
  simp [headIs, h1, h2, h3, h4]

theorem skipWs_starts {s : Str} (h : Starts s) : skipWs s = s := by
  obtain ⟨c, t, rfl, hw, _⟩ := h
  exact skipWs_head hw

/-! ## duplicate keys -/

def JMs.append : JMs → JMs → JMs
  | .nil, b => b
  | .cons k v ms, b => .cons k v (ms.append b)

theorem JMs.append_nil : ∀ a : JMs, a.append .nil = a
  | .nil => rfl
  | .cons k v ms => by simp [JMs.append, JMs.append_nil ms]

theorem JMs.append_assoc1 (k : Str) (v : JV) (b : JMs) :
    ∀ a : JMs, (a.append (.cons k v .nil)).append b = a.append (.cons k v b)
  | .nil => rfl
  | .cons k' v' ms => by simp [JMs.append, JMs.append_assoc1 k v b ms]

theorem JMs.keys_append (b : JMs) : ∀ a : JMs, (a.append b).keys = a.keys ++ b.keys
  | .nil => rfl
  | .cons k v ms => by simp [JMs.append, JMs.keys, JMs.keys_append b ms]

theorem JMs.upsert_fresh (k : Str) (v : JV) : ∀ a : JMs, k ∉ a.keys → a.upsert k v = a.append (.cons k v .nil)
  | .nil, _ => rfl
  | .cons k' v' ms, h => by
    simp only [JMs.keys, List.mem_cons, not_or] at h
    simp only [JMs.upsert, JMs.append]
    rw [if_neg (fun e => h.1 e.symm), JMs.upsert_fresh k v ms h.2]

theorem JMs.dedupeInto_nodup : ∀ (ms acc : JMs), (acc.keys ++ ms.keys).Nodup → ms.dedupeInto acc = acc.append ms
  | .nil, acc, _ => by simp [JMs.dedupeInto, JMs.append_nil]
  | .cons k v ms, acc, h => by
    have hk : k ∉ acc.keys := by
      intro hk
      have := (List.nodup_append.mp h).2.2 k hk k (by simp [JMs.keys])
      exact this rfl
    simp only [JMs.dedupeInto]
    rw [JMs.upsert_fresh k v acc hk, JMs.dedupeInto_nodup ms, JMs.append_assoc1]
    rw [JMs.keys_append]
    simpa [JMs.keys, List.append_assoc] using h

theorem nodupB_iff (l : List Str) : nodupB l = true ↔ l.Nodup := by
  induction l with
  | nil => simp [nodupB]
  | cons k ks ih => simp [nodupB, ih, List.nodup_cons]

theorem JMs.dedupe_nodup (ms : JMs) (h : nodupB ms.keys = true) : ms.dedupe = ms := by
  unfold JMs.dedupe
  rw [JMs.dedupeInto_nodup ms .nil (by simpa [JMs.keys] using (nodupB_iff _).mp h)]
  rfl

/-! ## one step of the scanner -/


theorem parseV_arr_nil (f : Nat) (s : Str) (h : headIs 93 (skipWs s) = true) :
    parseV (f + 1) (91 :: s) = .ok (.arr .nil, (skipWs s).tail) := by
  rw [parseV]; simp [h]

theorem parseV_arr_cons (f : Nat) (s : Str) {v : JV} {vs : JVs} {r r' : Str} (h : headIs 93 (skipWs s) = false)
    (h1 : parseV f (skipWs s) = .ok (v, r)) (h2 : parseTail f r = .ok (vs, r')) :
    parseV (f + 1) (91 :: s) = .ok (.arr (.cons v vs), r') := by
  rw [parseV]; simp [h, h1, h2]

theorem parseV_obj_nil (f : Nat) (s : Str) (h : headIs 125 (skipWs s) = true) :
    parseV (f + 1) (123 :: s) = .ok (.obj .nil, (skipWs s).tail) := by
  rw [parseV]; simp [h]

theorem parseV_obj_cons (f : Nat) (s : Str) {k : Str} {v : JV} {ms : JMs} {r r' : Str} (h : headIs 125 (skipWs s) = false)
    (h1 : parseMember (parseV f) (skipWs s) = .ok ((k, v), r)) (h2 : parseMTail f r = .ok (ms, r')) :
    parseV (f + 1) (123 :: s) = .ok (.obj (JMs.dedupe (.cons k v ms)), r') := by
  rw [parseV]; simp [h, h1, h2]

theorem parseV_str (f : Nat) (s : Str) {str r : Str} (h : scanStr s = some (str, r)) :
    parseV (f + 1) (34 :: s) = .ok (.str str, r) := by
  rw [parseV]; simp [h]

theorem parseV_null (f : Nat) (rest : Str) : parseV (f + 1) (110 :: 117 :: 108 :: 108 :: rest) = .ok (.null, rest) := by
  rw [parseV]; simp [startsWith]
theorem parseV_true (f : Nat) (rest : Str) : parseV (f + 1) (116 :: 114 :: 117 :: 101 :: rest) = .ok (.bool true, rest) := by
  rw [parseV]; simp [startsWith]
theorem parseV_false (f : Nat) (rest : Str) : parseV (f + 1) (102 :: 97 :: 108 :: 115 :: 101 :: rest) = .ok (.bool false, rest) := by
  rw [parseV]; simp [startsWith]

theorem parseV_neg (f : Nat) (s : Str) (h : headIs 73 s = false) : parseV (f + 1) (45 :: s) = parseNumber true s := by
  rw [parseV]
  have : startsWith [73, 110, 102, 105, 110, 105, 116, 121] s = false := by
    cases s with
    | nil => rfl
    | cons c t => simp [headIs] at h; simp [startsWith, h]
  simp [this]

theorem parseV_digit (f d : Nat) (s : Str) (h : isDigit d = true) : parseV (f + 1) (d :: s) = parseNumber false (d :: s) := by
  simp only [isDigit, Bool.and_eq_true, decide_eq_true_eq] at h
  rw [parseV]
  rw [if_neg (by omega), if_neg (by omega), if_neg (by omega), if_neg (by omega), if_neg (by omega), if_neg (by omega),
    if_neg (by omega), if_neg (by omega), if_neg (by omega)]

/-- an integer text followed by something that does not continue a number -/
theorem parseNumber_int (neg : Bool) (n : Nat) (rest : Str) (hr : Term rest) :
    parseNumber neg (natDigits n ++ rest) = .ok (.int (if neg then -(n : Int) else n), rest) := by
  unfold parseNumber
  rw [parseNat_natDigits n rest hr.noDigit]
  have h1 := scanFrac_none rest (fun c r e => (hr c r e).2.1)
  have h2 := scanExp_none rest (fun c r e => ⟨(hr c r e).2.2.1, (hr c r e).2.2.2⟩)
  simp only [h1, h2, and_self, if_true]

theorem noDigit_exp (ex : Option (Nat × Option Nat × List Nat)) (rest : Str) (hr : Term rest)
    (he : ∀ e sg ds, ex = some (e, sg, ds) → e = 101 ∨ e = 69) : NoDigit (expText ex ++ rest) := by
  cases ex with
  | none => exact hr.noDigit
  | some t =>
    obtain ⟨e, sg, ds⟩ := t
    intro c r h
    simp only [expText, List.cons_append, List.cons.injEq] at h
    rcases he e sg ds rfl with rfl | rfl <;> (rw [← h.1]; decide)

/-- a float text followed by something that does not continue a number -/
theorem parseNumber_float (f : FT) (hok : f.ok = true) (rest : Str) (hr : Term rest) :
    parseNumber f.neg (natDigits f.ip ++ ((if f.frac = [] then [] else 46 :: f.frac) ++ expText f.expo) ++ rest) = .ok (.float f, rest) := by
  obtain ⟨neg, ip, fr, ex⟩ := f
  simp only [FT.ok, Bool.and_eq_true, Bool.or_eq_true, bne_iff_ne, ne_eq, List.all_eq_true] at hok
  obtain ⟨⟨hpres, hfd⟩, hex⟩ := hok
  have hE : ∀ e sg ds, ex = some (e, sg, ds) → (e = 101 ∨ e = 69) ∧ (sg = none ∨ sg = some 43 ∨ sg = some 45) ∧ ds ≠ [] ∧ ∀ d ∈ ds, isDigit d = true := by
    intro e sg ds h
    subst h
    simp only [Bool.and_eq_true, Bool.or_eq_true, beq_iff_eq, bne_iff_ne, ne_eq, List.all_eq_true] at hex
    exact ⟨hex.1.1.1, or_assoc.mp hex.1.1.2, hex.1.2, hex.2⟩
  have hnd : NoDigit (expText ex ++ rest) := noDigit_exp ex rest hr (fun e sg ds h => (hE e sg ds h).1)
  simp only [List.append_assoc]
  unfold parseNumber
  have hfracND : NoDigit ((if fr = [] then [] else 46 :: fr) ++ (expText ex ++ rest)) := by
    by_cases hf : fr = []
    · simp only [hf, if_true, List.nil_append]; exact hnd
    · simp only [hf, if_false, List.cons_append]; intro c r h; simp only [List.cons.injEq] at h; rw [← h.1]; decide
  rw [parseNat_natDigits ip _ hfracND]
  -- the fraction
  have hfrac : scanFrac ((if fr = [] then [] else 46 :: fr) ++ (expText ex ++ rest)) = (fr, expText ex ++ rest) := by
    by_cases hf : fr = []
    · simp only [hf, if_true, List.nil_append]
      apply scanFrac_none
      intro c r h
      cases ex with
      | none => simp only [expText, List.nil_append] at h; exact (hr c r h).2.1
      | some t =>
        obtain ⟨e, sg, ds⟩ := t
        simp only [expText, List.cons_append, List.cons.injEq] at h
        rcases (hE e sg ds rfl).1 with rfl | rfl <;> (rw [← h.1]; decide)
    · simp only [hf, if_false, List.cons_append]
      exact scanFrac_some fr _ hf hfd hnd
  -- the exponent
  have hexp : scanExp (expText ex ++ rest) = (ex, rest) := by
    cases ex with
    | none => simp only [expText, List.nil_append]; exact scanExp_none rest (fun c r e => ⟨(hr c r e).2.2.1, (hr c r e).2.2.2⟩)
    | some t =>
      obtain ⟨e, sg, ds⟩ := t
      obtain ⟨h1, h2, h3, h4⟩ := hE e sg ds rfl
      simp only [expText, List.cons_append, List.append_assoc]
      exact scanExp_some e sg ds rest h1 h2 h3 h4 hr.noDigit
  simp only [hfrac, hexp]
  have : ¬ (fr = [] ∧ ex = none) := by
    intro h
    rcases hpres with h1 | h1
    · exact h1 h.1
    · rw [h.2] at h1; cases h1
  rw [if_neg this]

theorem parseTail_nil (f : Nat) (s : Str) (h0 : headIs 44 (skipWs s) = false) (h : headIs 93 (skipWs s) = true) :
    parseTail (f + 1) s = .ok (.nil, (skipWs s).tail) := by
  rw [parseTail]; simp [h0, h]

theorem parseTail_cons (f : Nat) (s : Str) {v : JV} {vs : JVs} {r r' : Str} (h : headIs 44 (skipWs s) = true)
    (h1 : parseV f (skipWs (skipWs s).tail) = .ok (v, r)) (h2 : parseTail f r = .ok (vs, r')) :
    parseTail (f + 1) s = .ok (.cons v vs, r') := by
  rw [parseTail]; simp [h, h1, h2]

theorem parseMTail_nil (f : Nat) (s : Str) (h0 : headIs 44 (skipWs s) = false) (h : headIs 125 (skipWs s) = true) :
    parseMTail (f + 1) s = .ok (.nil, (skipWs s).tail) := by
  rw [parseMTail]; simp [h0, h]

theorem parseMTail_cons (f : Nat) (s : Str) {k : Str} {v : JV} {ms : JMs} {r r' : Str} (h : headIs 44 (skipWs s) = true)
    (h1 : parseMember (parseV f) (skipWs (skipWs s).tail) = .ok ((k, v), r)) (h2 : parseMTail f r = .ok (ms, r')) :
    parseMTail (f + 1) s = .ok (.cons k v ms, r') := by
  rw [parseMTail]; simp [h, h1, h2]

theorem parseMember_enc (asc : Bool) (pv : Str → P JV) (k : Str) (hk : strOK k = true) (X : Str) (hX : Starts X)
    {v : JV} {r2 : Str} (hpv : pv X = .ok (v, r2)) :
    parseMember pv (encStr asc k ++ 58 :: 32 :: X) = .ok ((k, v), r2) := by
  have e : encStr asc k ++ 58 :: 32 :: X = 34 :: (k.flatMap (escChar asc) ++ 34 :: (58 :: 32 :: X)) := by
    simp [encStr, List.append_assoc]
  rw [e]
  unfold parseMember
  simp only [headIs, beq_self_eq_true, if_true, List.tail_cons]
  rw [scanStr_encStr asc k _ hk]
  have h1 : skipWs (58 :: 32 :: X) = 58 :: 32 :: X := skipWs_head (by decide)
  have h2 : skipWs (32 :: X) = X := by
    rw [show (32 :: X) = [32] ++ X from rfl, skipWs_ws [32] X (by intro c hc; simp at hc; subst hc; decide), skipWs_starts hX]
  simp only [h1, beq_self_eq_true, if_true, List.tail_cons, h2, hpv]


end Uberjob.Json
