import UberjobModel.Lemmas.ProgressObs
/-!
The console observer prints a finished section only once (`_skipped_sections`).  With run-shaped sequences
(`PosTotals`, `WithinTotals`, `TotalsFirst`) a finished section can never change again, so what was last printed for
every displayed section is its final state.
-/
namespace Uberjob.Progress
open Uberjob.Gen.Progress

def secDone (st : PState) (sec : Nat) : Bool :=
  (secCells st sec).all (fun p => consoleScopeDone p.2.completed p.2.failed p.2.total)

theorem renderedSecs_eq : renderedSecs = [0, 1] := by decide

theorem conRender_eq (st : PState) (c : Con) : conRender st c = conSection st (conSection st c 0) 1 := by
  simp [conRender, renderedSecs_eq]

theorem conSection_spec (st : PState) (c : Con) (sec : Nat)
    (ha : sec ∈ c.skipped → c.printed sec = some (secCells st sec)) :
    (∀ sec', sec' ≠ sec → (conSection st c sec).printed sec' = c.printed sec'
        ∧ (sec' ∈ (conSection st c sec).skipped ↔ sec' ∈ c.skipped)) ∧
    (secCells st sec ≠ [] → (conSection st c sec).printed sec = some (secCells st sec)
        ∧ (sec ∈ (conSection st c sec).skipped ↔ secDone st sec = true)) ∧
    (secCells st sec = [] → conSection st c sec = c) := by
  refine ⟨?_, ?_, ?_⟩
  · intro sec' hne
    unfold conSection
    simp only [consolePrints, consoleSkipAfter]
    cases (secCells st sec).isEmpty <;>
      cases ((secCells st sec).all fun p => consoleScopeDone p.2.completed p.2.failed p.2.total) <;>
      cases hc : c.skipped.contains sec <;> simp [hne]
  · intro hne
    have hemp : (secCells st sec).isEmpty = false := by
      cases h : secCells st sec with
      | nil => exact absurd h hne
      | cons _ _ => rfl
    unfold conSection
    simp only [hemp, consolePrints, consoleSkipAfter, secDone]
    cases hd : (secCells st sec).all (fun p => consoleScopeDone p.2.completed p.2.failed p.2.total) with
    | false => simp
    | true =>
      cases hc : c.skipped.contains sec with
      | true =>
        have hs : sec ∈ c.skipped := by simpa using hc
        simp [hs, ha hs]
      | false => simp
  · intro he
    unfold conSection
    simp [he]

/-- the console invariant -/
structure CInv (o : Obs) : Prop where
  skipped : ∀ sec, sec ∈ o.con.skipped →
    secDone o.st sec = true ∧ o.con.printed sec = some (secCells o.st sec) ∧ secCells o.st sec ≠ []
  fresh : o.stale = false → ∀ sec ∈ renderedSecs, secCells o.st sec ≠ [] → o.con.printed sec = some (secCells o.st sec)

theorem secCells_uwe (s : PState) (t : Rat) (sec : Nat) : secCells (uwe s t) sec = secCells s sec := by
  simp [secCells]

/-- after one console rendering of state `st` -/
theorem conRender_spec (st : PState) (c : Con)
    (ha : ∀ sec, sec ∈ c.skipped → secDone st sec = true ∧ c.printed sec = some (secCells st sec) ∧ secCells st sec ≠ []) :
    (∀ sec, sec ∈ (conRender st c).skipped →
      secDone st sec = true ∧ (conRender st c).printed sec = some (secCells st sec) ∧ secCells st sec ≠ []) ∧
    (∀ sec ∈ renderedSecs, secCells st sec ≠ [] → (conRender st c).printed sec = some (secCells st sec)) := by
  rw [conRender_eq]
  -- one section at a time
  have step : ∀ (c : Con) (s0 : Nat),
      (∀ sec, sec ∈ c.skipped → secDone st sec = true ∧ c.printed sec = some (secCells st sec) ∧ secCells st sec ≠ []) →
      (∀ sec, sec ∈ (conSection st c s0).skipped →
        secDone st sec = true ∧ (conSection st c s0).printed sec = some (secCells st sec) ∧ secCells st sec ≠ []) ∧
      (secCells st s0 ≠ [] → (conSection st c s0).printed s0 = some (secCells st s0)) ∧
      (∀ sec, sec ≠ s0 → (conSection st c s0).printed sec = c.printed sec) := by
    intro c s0 hc
    obtain ⟨h1, h2, h3⟩ := conSection_spec st c s0 (fun h => (hc s0 h).2.1)
    refine ⟨?_, fun hne => (h2 hne).1, fun sec hne => (h1 sec hne).1⟩
    intro sec hsec
    by_cases hs : sec = s0
    · subst hs
      by_cases he : secCells st sec = []
      · rw [h3 he] at hsec ⊢; exact hc sec hsec
      · exact ⟨(h2 he).2.mp hsec, (h2 he).1, he⟩
    · obtain ⟨hp, hsk⟩ := h1 sec hs
      rw [hp]; exact hc sec (hsk.mp hsec)
  obtain ⟨a0, b0, _⟩ := step c 0 ha
  obtain ⟨a1, b1, d1⟩ := step (conSection st c 0) 1 a0
  refine ⟨a1, ?_⟩
  intro sec hsec hne
  rw [renderedSecs_eq] at hsec
  simp only [List.mem_cons, List.not_mem_nil, or_false] at hsec
  rcases hsec with rfl | rfl
  · rw [d1 0 (by decide)]; exact b0 hne
  · exact b1 hne

theorem apply_cell {s s' : PState} {k : Key} {f : Cell → Int → Res} (h : apply s k f = .ok s') :
    ∃ c, s'.cell = upd s.cell k c := by
  unfold apply at h
  split at h
  · split at h
    · cases h; exact ⟨_, rfl⟩
    · cases h
  · cases h

theorem secCells_other {s s' : PState} {k : Key} {sec : Nat} (hk : s'.keys = s.keys ∨ (k ∉ s.keys ∧ s'.keys = s.keys ++ [k]))
    (hc : ∀ k', k' ≠ k → s'.cell k' = s.cell k') (hne : k.1 ≠ sec) : secCells s' sec = secCells s sec := by
  unfold secCells
  have hf : s'.keys.filter (fun k => k.1 == sec) = s.keys.filter (fun k => k.1 == sec) := by
    rcases hk with h | ⟨_, h⟩
    · rw [h]
    · rw [h, List.filter_append]; simp [hne]
  rw [hf]
  apply List.map_congr_left
  intro k' hk'
  have : k'.1 = sec := by simpa using (List.mem_filter.mp hk').2
  have hkk : k' ≠ k := fun h => hne (h ▸ this)
  rw [hc k' hkk]

theorem ensure_shape (s : PState) (k : Key) :
    ((ensure s k).keys = s.keys ∨ (k ∉ s.keys ∧ (ensure s k).keys = s.keys ++ [k])) ∧
    (∀ k', k' ≠ k → (ensure s k).cell k' = s.cell k') := by
  unfold ensure
  split
  · exact ⟨Or.inl rfl, fun _ _ => rfl⟩
  · next h => exact ⟨Or.inr ⟨h, rfl⟩, fun k' hk' => by simp [upd, hk']⟩

/-- a notification only touches the section of its key -/
theorem stepNotif_secCells_other {s s' : PState} {t : Rat} {n : Notif} {k : Key} {sec : Nat}
    (h : stepNotif s t n = .ok s') (hn : n.key? = some k) (hne : k.1 ≠ sec) : secCells s' sec = secCells s sec := by
  cases n with
  | enter => simp [Notif.key?] at hn
  | exit => simp [Notif.key?] at hn
  | total a b m =>
    simp only [Notif.key?, Option.some.injEq] at hn; subst hn
    simp only [stepNotif] at h
    obtain ⟨c, hc⟩ := apply_cell h
    obtain ⟨e1, e2⟩ := ensure_shape s (a, b)
    apply secCells_other (k := (a, b)) _ _ hne
    · rw [apply_keys h]; exact e1
    · intro k' hk'; rw [hc]; simp only [upd, hk', if_false]; exact e2 k' hk'
  | running a b =>
    simp only [Notif.key?, Option.some.injEq] at hn; subst hn
    simp only [stepNotif] at h
    obtain ⟨c, hc⟩ := apply_cell h
    apply secCells_other (k := (a, b)) _ _ hne
    · rw [apply_keys h, uwe_keys]; exact Or.inl rfl
    · intro k' hk'; rw [hc]; simp [upd, hk']
  | completed a b =>
    simp only [Notif.key?, Option.some.injEq] at hn; subst hn
    simp only [stepNotif] at h
    obtain ⟨c, hc⟩ := apply_cell h
    apply secCells_other (k := (a, b)) _ _ hne
    · rw [apply_keys h, uwe_keys]; exact Or.inl rfl
    · intro k' hk'; rw [hc]; simp [upd, hk']
  | failed a b =>
    simp only [Notif.key?, Option.some.injEq] at hn; subst hn
    simp only [stepNotif] at h
    obtain ⟨c, hc⟩ := apply_cell h
    apply secCells_other (k := (a, b)) _ _ hne
    · rw [apply_keys h, uwe_keys]; exact Or.inl rfl
    · intro k' hk'; rw [hc]; simp [upd, hk']

theorem done_of_secDone {st : PState} {k : Key} (hk : k ∈ st.keys) (hd : secDone st k.1 = true) :
    (st.cell k).completed + (st.cell k).failed = (st.cell k).total := by
  simp only [secDone, List.all_eq_true] at hd
  have : (k, st.cell k) ∈ secCells st k.1 := by
    simp only [secCells, List.mem_map, List.mem_filter]
    exact ⟨k, ⟨hk, by simp⟩, rfl⟩
  simpa [consoleScopeDone] using hd _ this

/-- a finished, displayed section of a run-shaped sequence receives no further notification -/
theorem no_change_when_done {b p : List Notif} {s : PState} {n : Notif} {k : Key}
    (hb : PLegal b) (hpos : PosTotals b) (hw : WithinTotals b) (htf : TotalsFirst b)
    (hs : Sync p s) (hann : ∀ k ∈ s.keys, announced k p = true)
    (hp : p ++ [n] <+: b) (hn : n.key? = some k)
    (hd : secDone s k.1 = true) (hne : secCells s k.1 ≠ []) : False := by
  have hpb : p <+: b := (List.prefix_append p _).trans hp
  have hposp : ∀ x ∈ p, x.amountPos = true := fun x hx => hpos x (hpb.subset hx)
  cases n with
  | enter => simp [Notif.key?] at hn
  | exit => simp [Notif.key?] at hn
  | total a c m =>
    simp only [Notif.key?, Option.some.injEq] at hn; subst hn
    -- some scope of the section is present and finished, with a positive total: the section saw activity
    obtain ⟨⟨k0, c0⟩, hmem⟩ := List.exists_mem_of_ne_nil _ hne
    simp only [secCells, List.mem_map, List.mem_filter] at hmem
    obtain ⟨k1, ⟨hk1, hsec⟩, heq⟩ := hmem
    have hsec' : k1.1 = a := by simpa using hsec
    have hd1 := done_of_secDone hk1 (by rw [hsec']; exact hd)
    have h1 := hs.done k1 hk1
    have h2 := hs.total k1 hk1
    have h3 := totalSum_pos (hann k1 hk1) hposp
    have hact := act_of_fins (p := p) (k := k1) (by omega)
    rw [hsec'] at hact
    have := htf.toP p a c m hp
    simp [this] at hact
  | running a c =>
    simp only [Notif.key?, Option.some.injEq] at hn; subst hn
    have hk : (a, c) ∈ s.keys := hs.present _ (hb.announcedFirst p a c hp)
    have hd1 := done_of_secDone hk hd
    have h1 := hs.done _ hk
    have h2 := hs.total _ hk
    have h4 := hb.finLeRun p (a, c) hpb
    have h5 := hw.toP _ (a, c) hp
    simp [runs_snoc, totalSum_snoc, Notif.isRun, Notif.amount] at h5
    omega
  | completed a c =>
    simp only [Notif.key?, Option.some.injEq] at hn; subst hn
    have h4 := hb.finLeRun _ (a, c) hp
    simp [runs_snoc, fins_snoc, Notif.isRun, Notif.isFin] at h4
    have hk : (a, c) ∈ s.keys := hs.present _ (hb.announced_of_runs hpb (by omega))
    have hd1 := done_of_secDone hk hd
    have h1 := hs.done _ hk
    have h2 := hs.total _ hk
    have h5 := hw.toP _ (a, c) hpb
    omega
  | failed a c =>
    simp only [Notif.key?, Option.some.injEq] at hn; subst hn
    have h4 := hb.finLeRun _ (a, c) hp
    simp [runs_snoc, fins_snoc, Notif.isRun, Notif.isFin] at h4
    have hk : (a, c) ∈ s.keys := hs.present _ (hb.announced_of_runs hpb (by omega))
    have hd1 := done_of_secDone hk hd
    have h1 := hs.done _ hk
    have h2 := hs.total _ hk
    have h5 := hw.toP _ (a, c) hpb
    omega

/-- The invariant carried along a run: keys are announced, and the console invariant. -/
def ConP (p : List Notif) (o : Obs) : Prop := (∀ k ∈ o.st.keys, announced k p = true) ∧ CInv o

theorem conP_init (start : Rat) : ConP [] (Obs.init start) := by
  refine ⟨by simp [Obs.init, PState.init], ⟨by simp [Obs.init, Con.init], by simp [Obs.init]⟩⟩

theorem conP_render {p : List Notif} {o : Obs} (m t t2 : Rat) (h : ConP p o) : ConP p (doRender m o t t2) := by
  refine ⟨by rw [doRender_keys]; exact h.1, ?_⟩
  unfold doRender
  split
  · have ha : ∀ sec, sec ∈ o.con.skipped → secDone (uwe o.st t2) sec = true ∧
        o.con.printed sec = some (secCells (uwe o.st t2) sec) ∧ secCells (uwe o.st t2) sec ≠ [] := by
      intro sec hsec
      have := h.2.skipped sec hsec
      simpa [secDone, secCells_uwe] using this
    obtain ⟨r1, r2⟩ := conRender_spec (uwe o.st t2) o.con ha
    exact ⟨r1, fun _ => r2⟩
  · exact h.2

theorem conP_step {b p : List Notif} {o o' : Obs} {ev : Ev} {m : Rat}
    (hb : PLegal b) (hpos : PosTotals b) (hw : WithinTotals b) (htf : TotalsFirst b)
    (hs : Sync p o.st) (h : ConP p o) (hp : p ++ notifsOf [ev] <+: b) (hstep : o.step m ev = .ok o') :
    ConP (p ++ notifsOf [ev]) o' := by
  refine ⟨obsStep_keys_announced hstep h.1, ?_⟩
  cases ev with
  | wake t t2 =>
    simp only [Obs.step] at hstep; cases hstep
    exact (conP_render m t t2 h).2
  | notif t n =>
    simp only [Obs.step] at hstep
    split at hstep
    · next st hst =>
      cases hstep
      simp only [notifsOf] at hp
      have hmem : n ∈ b := hp.subset (by simp)
      refine ⟨?_, by intro h'; simp at h'⟩
      intro sec hsec
      have hold := h.2.skipped sec hsec
      cases hk : n.key? with
      | none =>
        cases n <;> simp [Notif.key?] at hk
        · exact absurd hmem hb.noEnter
        · exact absurd hmem hb.noExit
      | some k =>
        by_cases hks : k.1 = sec
        · subst hks
          exact (no_change_when_done hb hpos hw htf hs h.1 hp hk hold.1 hold.2.2).elim
        · have := stepNotif_secCells_other hst hk hks
          simp only [secDone, this]
          exact hold
    · cases hstep

end Uberjob.Progress
