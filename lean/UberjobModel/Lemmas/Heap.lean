import UberjobModel.Model.Heap
/-! Write-locality of the run path: after the initial copy every effect targets an object this run allocated. -/
namespace Uberjob.Heap

/-- `a` is one of the first `n` objects allocated by `w` -/
def Own (w : Who) (n : Nat) (a : Nat) : Prop := ∃ k, k < n ∧ a = w.addr k

theorem Own.mono {w : Who} {n n' : Nat} {a : Nat} (h : n ≤ n') : Own w n a → Own w n' a :=
  fun ⟨k, hk, e⟩ => ⟨k, by omega, e⟩

theorem Own.base_le {w : Who} {n : Nat} {a : Nat} : Own w n a → w.base ≤ a :=
  fun ⟨k, _, e⟩ => by subst e; unfold Who.addr; omega

theorem own_addr {w : Who} {n k : Nat} (h : k < n) : Own w n (w.addr k) := ⟨k, h, rfl⟩

theorem addr_inj {w : Who} {j k : Nat} : w.addr j = w.addr k ↔ j = k := by
  unfold Who.addr; omega

theorem own_succ {w : Who} {n : Nat} {a : Nat} (h : Own w (n + 1) a) : Own w n a ∨ a = w.addr n := by
  obtain ⟨k, hk, e⟩ := h
  by_cases hkn : k = n
  · subst hkn; exact .inr e
  · exact .inl ⟨k, by omega, e⟩

theorem upd_ne {h : Heap} {a x : Nat} {o : Obj} (hx : x ≠ a) : upd h a o x = h x := by simp [upd, hx]
theorem upd_eq {h : Heap} {a : Nat} {o : Obj} : upd h a o a = some o := by simp [upd]

theorem applyEffs_cons (h : Heap) (e : Eff) (es : List Eff) :
    applyEffs h (e :: es) = applyEffs (upd h e.1 e.2) es := rfl

/-- an address no effect targets keeps its object -/
theorem applyEffs_frame {es : List Eff} {h : Heap} {x : Nat} (hx : ∀ e ∈ es, e.1 ≠ x) : applyEffs h es x = h x := by
  induction es generalizing h with
  | nil => rfl
  | cons e es ih =>
    rw [applyEffs_cons, ih (fun e' he' => hx e' (List.mem_cons_of_mem _ he'))]
    exact upd_ne (fun hh => hx e (by simp) hh.symm)

/-- an address some effect targets holds what one of those effects wrote -/
theorem applyEffs_hit {es : List Eff} {h : Heap} {x : Nat} (hx : ∃ e ∈ es, e.1 = x) :
    ∃ e ∈ es, e.1 = x ∧ applyEffs h es x = some e.2 := by
  induction es generalizing h with
  | nil => obtain ⟨e, he, _⟩ := hx; cases he
  | cons e es ih =>
    by_cases hl : ∃ e' ∈ es, e'.1 = x
    · obtain ⟨e', he', hx', hv⟩ := ih (h := upd h e.1 e.2) hl
      exact ⟨e', List.mem_cons_of_mem _ he', hx', by rw [applyEffs_cons]; exact hv⟩
    · have hne : ∀ e' ∈ es, e'.1 ≠ x := fun e' he' hh => hl ⟨e', he', hh⟩
      obtain ⟨e0, he0, hx0⟩ := hx
      rcases List.mem_cons.mp he0 with rfl | he0
      · refine ⟨e0, by simp, hx0, ?_⟩
        rw [applyEffs_cons, applyEffs_frame hne, ← hx0]
        exact upd_eq
      · exact absurd hx0 (hne e0 he0)

theorem applyEffs_cases (es : List Eff) (h : Heap) (x : Nat) :
    applyEffs h es x = h x ∨ ∃ e ∈ es, e.1 = x ∧ applyEffs h es x = some e.2 := by
  by_cases hl : ∃ e ∈ es, e.1 = x
  · exact .inr (applyEffs_hit hl)
  · exact .inl (applyEffs_frame (fun e he hh => hl ⟨e, he, hh⟩))

/-- What a tame step does, given that the registers it goes through are owned. -/
structure StepOk (w : Who) (t : T) (r : T × List Eff) : Prop where
  nxt  : t.nxt ≤ r.1.nxt
  effs : ∀ e ∈ r.2, Own w r.1.nxt e.1 ∧ ∀ g sc, e.2 = .plan g sc → Own w r.1.nxt g
  last : ∀ a, r.1.last = some a → Own w r.1.nxt a
  log  : ∀ a ∈ r.1.log, Own w r.1.nxt a
  new  : ∀ a, Own w r.1.nxt a → Own w t.nxt a ∨ ∃ e ∈ r.2, e.1 = a

theorem mutV_ok {w : Who} {t : T} {p? : Option Nat} {po go lo : Option Obj} {m : Mut}
    (hp : ∀ p, p? = some p → Own w t.nxt p)
    (hg : ∀ g sc, p?.isSome → po = some (.plan g sc) → Own w t.nxt g)
    (hl : ∀ a, t.last = some a → Own w t.nxt a) (hlog : ∀ a ∈ t.log, Own w t.nxt a) (hm : m.tame = true) :
    StepOk w t (mutV w t p? po go lo m) ∧ (mutV w t p? po go lo m).1.cur = t.cur ∧
      (mutV w t p? po go lo m).1.tmp = t.tmp := by
  have triv : StepOk w t (t, []) ∧ (t, ([] : List Eff)).1.cur = t.cur ∧ (t, ([] : List Eff)).1.tmp = t.tmp :=
    ⟨⟨Nat.le_refl _, by simp, hl, hlog, fun a ha => .inl ha⟩, rfl, rfl⟩
  unfold mutV
  split
  · next p g sc =>
    have hop : Own w t.nxt p := hp p rfl
    have hog : Own w t.nxt g := hg g sc rfl rfl
    cases m
    case scopeOf n kd s => simp [Mut.tame] at hm
    case setPlanScope s =>
      refine ⟨⟨Nat.le_refl _, ?_, hl, ?_, fun a ha => .inl ha⟩, rfl, rfl⟩
      · intro e he
        simp only [List.mem_singleton] at he
        subst he
        exact ⟨hop, fun g' sc' he => by cases he; exact hog⟩
      · intro a ha
        simp only [logw, List.mem_append, List.mem_singleton] at ha
        rcases ha with ha | rfl
        · exact hlog a ha
        · exact hop
    case scopeOfLast s =>
      simp only
      split
      · next a hla =>
        have hoa : Own w t.nxt a := hl a hla
        split
        · refine ⟨⟨Nat.le_refl _, ?_, hl, ?_, fun a ha => .inl ha⟩, rfl, rfl⟩
          · intro e he
            simp only [List.mem_singleton] at he
            subst he
            exact ⟨hoa, fun g' sc' he => by cases he⟩
          · intro b hb
            simp only [logw, List.mem_append, List.mem_singleton] at hb
            rcases hb with hb | rfl
            · exact hlog b hb
            · exact hoa
        · exact triv
      · exact triv
    case newNode kd =>
      simp only
      split
      · next ns es ga =>
        refine ⟨⟨by simp, ?_, ?_, ?_, ?_⟩, rfl, rfl⟩
        · intro e he
          simp only [List.mem_cons, List.mem_nil_iff, or_false] at he
          rcases he with rfl | rfl
          · exact ⟨own_addr (by simp), fun g' sc' he => by cases he⟩
          · exact ⟨hog.mono (by simp), fun g' sc' he => by cases he⟩
        · intro a ha
          simp only [Option.some.injEq] at ha
          subst ha
          exact own_addr (by simp)
        · intro a ha
          simp only [List.mem_append, List.mem_singleton] at ha
          rcases ha with ha | rfl
          · exact (hlog a ha).mono (by simp)
          · exact hog.mono (by simp)
        · intro a ha
          rcases own_succ ha with ha | rfl
          · exact .inl ha
          · exact .inr ⟨(w.addr t.nxt, Obj.node kd sc), by simp, rfl⟩
      · exact triv
    all_goals
      simp only
      split
      · refine ⟨⟨Nat.le_refl _, ?_, hl, ?_, fun a ha => .inl ha⟩, rfl, rfl⟩
        · intro e he
          simp only [List.mem_singleton] at he
          subst he
          exact ⟨hog, fun g' sc' he => by cases he⟩
        · intro a ha
          simp only [logw, List.mem_append, List.mem_singleton] at ha
          rcases ha with ha | rfl
          · exact hlog a ha
          · exact hog
      · exact triv
  · exact triv

/-- The invariant of a run after its initial copy: every register points to an object this run allocated, and
    every plan object this run allocated points to a graph object this run allocated. -/
structure J1 (w : Who) (t : T) (h : Heap) : Prop where
  cur  : Own w t.nxt t.cur
  tmp  : ∀ a, t.tmp = some a → Own w t.nxt a
  last : ∀ a, t.last = some a → Own w t.nxt a
  log  : ∀ a ∈ t.log, Own w t.nxt a
  pg   : ∀ a g sc, Own w t.nxt a → h a = some (.plan g sc) → Own w t.nxt g

theorem copy_ok {w : Who} {t : T} (hl : ∀ a, t.last = some a → Own w t.nxt a) (hlog : ∀ a ∈ t.log, Own w t.nxt a)
    {po go : Option Obj} {t' : T} {effs : List Eff} {ap : Nat} (hc : copyPlan w t po go = some (t', effs, ap)) :
    StepOk w t (t', effs) ∧ Own w t'.nxt ap ∧ t'.cur = t.cur ∧ t'.tmp = t.tmp ∧ t'.nxt = t.nxt + 2 ∧
      ap = w.addr (t.nxt + 1) := by
  unfold copyPlan at hc
  split at hc
  · next ns es ga =>
    simp only [Option.some.injEq, Prod.mk.injEq] at hc
    obtain ⟨rfl, rfl, rfl⟩ := hc
    refine ⟨⟨by simp, ?_, ?_, ?_, ?_⟩, own_addr (by simp), rfl, rfl, rfl, rfl⟩
    · intro e he
      simp only [List.mem_cons, List.mem_nil_iff, or_false] at he
      rcases he with rfl | rfl
      · exact ⟨own_addr (by simp), fun g' sc' he => by cases he⟩
      · exact ⟨own_addr (by simp), fun g' sc' he => by cases he; exact own_addr (by simp)⟩
    · intro a ha; exact (hl a ha).mono (by simp)
    · intro a ha; exact (hlog a ha).mono (by simp)
    · intro a ha
      obtain ⟨k, hk, rfl⟩ := ha
      simp only at hk
      by_cases h1 : k < t.nxt
      · exact .inl (own_addr h1)
      · by_cases h2 : k = t.nxt
        · subst h2; exact .inr ⟨(w.addr t.nxt, Obj.graph ns es ga), by simp, rfl⟩
        · have : k = t.nxt + 1 := by omega
          subst this
          exact .inr ⟨(w.addr (t.nxt + 1), Obj.plan (w.addr t.nxt) []), by simp, rfl⟩
  · cases hc

theorem stepV_ok {w : Who} {t : T} {h : Heap} (hj : J1 w t h) {i : Instr} (hi : i.tame = true) :
    StepOk w t (stepV w t (view t h) i) ∧ Own w (stepV w t (view t h) i).1.nxt (stepV w t (view t h) i).1.cur ∧
      ∀ a, (stepV w t (view t h) i).1.tmp = some a → Own w (stepV w t (view t h) i).1.nxt a := by
  have triv : StepOk w t (t, []) := ⟨Nat.le_refl _, by simp, hj.last, hj.log, fun a ha => .inl ha⟩
  cases i
  case wild a o => simp [Instr.tame] at hi
  case getMutable inplace =>
    simp only [stepV]
    split
    · exact ⟨triv, hj.cur, hj.tmp⟩
    · split
      · next t' effs ap hc =>
        obtain ⟨hok, hap, _, htmp, hn, _⟩ := copy_ok hj.last hj.log hc
        refine ⟨⟨hok.nxt, hok.effs, hok.last, hok.log, hok.new⟩, hap, fun a ha => ?_⟩
        simp only at ha
        exact (hj.tmp a (htmp ▸ ha)).mono (by simp [hn])
      · exact ⟨triv, hj.cur, hj.tmp⟩
  case forkTmp inplace =>
    simp only [stepV]
    split
    · refine ⟨⟨Nat.le_refl _, by simp, hj.last, hj.log, fun a ha => .inl ha⟩, hj.cur, fun a ha => ?_⟩
      simp only [Option.some.injEq] at ha
      exact ha ▸ hj.cur
    · split
      · next t' effs ap hc =>
        obtain ⟨hok, hap, hcur, _, hn, _⟩ := copy_ok hj.last hj.log hc
        refine ⟨⟨hok.nxt, hok.effs, hok.last, hok.log, hok.new⟩, ?_, fun a ha => ?_⟩
        · simp only; rw [hcur]; exact hj.cur.mono (by simp [hn])
        · simp only [Option.some.injEq] at ha
          exact ha ▸ hap
      · exact ⟨triv, hj.cur, hj.tmp⟩
  case «mut» onTmp m =>
    simp only [Instr.tame] at hi
    simp only [stepV]
    split
    · obtain ⟨hok, hc, ht⟩ := mutV_ok (w := w) (t := t) (p? := t.tmp) (po := (view t h).tmpO) (go := (view t h).tmpG)
        (lo := (view t h).lastO) (m := m) hj.tmp
        (by
          intro g sc hs hpo
          obtain ⟨a, ha⟩ := Option.isSome_iff_exists.mp hs
          simp only [view, ha, Option.bind_some] at hpo
          exact hj.pg a g sc (hj.tmp a ha) hpo)
        hj.last hj.log hi
      refine ⟨hok, ?_, fun a ha => ?_⟩
      · rw [hc]; exact hj.cur.mono hok.nxt
      · rw [ht] at ha; exact (hj.tmp a ha).mono hok.nxt
    · obtain ⟨hok, hc, ht⟩ := mutV_ok (w := w) (t := t) (p? := some t.cur) (po := (view t h).curO)
        (go := (view t h).curG) (lo := (view t h).lastO) (m := m)
        (by intro p hp; cases hp; exact hj.cur)
        (by
          intro g sc _ hpo
          simp only [view] at hpo
          exact hj.pg t.cur g sc hj.cur hpo)
        hj.last hj.log hi
      refine ⟨hok, ?_, fun a ha => ?_⟩
      · rw [hc]; exact hj.cur.mono hok.nxt
      · rw [ht] at ha; exact (hj.tmp a ha).mono hok.nxt

/-- a step that satisfies `StepOk` keeps every address below the allocation base as it was -/
theorem stepOk_frame {w : Who} {t : T} {r : T × List Eff} (hok : StepOk w t r) (h : Heap) {o : Nat}
    (ho : o < w.base) : applyEffs h r.2 o = h o :=
  applyEffs_frame (fun e he hh => by have := (hok.effs e he).1.base_le; omega)

theorem J1_step {w : Who} {s : T × Heap} (hj : J1 w s.1 s.2) {i : Instr} (hi : i.tame = true) :
    J1 w (step w s i).1 (step w s i).2 ∧ ∀ o, o < w.base → (step w s i).2 o = s.2 o := by
  obtain ⟨hok, hcur, htmp⟩ := stepV_ok hj hi
  refine ⟨⟨hcur, htmp, hok.last, hok.log, ?_⟩, fun o ho => stepOk_frame hok s.2 ho⟩
  intro a g sc ha hh
  simp only [step] at hh
  by_cases hl : ∃ e ∈ (stepV w s.1 (view s.1 s.2) i).2, e.1 = a
  · obtain ⟨e, he, _, hv⟩ := applyEffs_hit (h := s.2) hl
    rw [hv] at hh
    exact (hok.effs e he).2 g sc (Option.some.inj hh)
  · rw [applyEffs_frame (fun e he hh' => hl ⟨e, he, hh'⟩)] at hh
    rcases hok.new a ha with h0 | h0
    · exact (hj.pg a g sc h0 hh).mono hok.nxt
    · exact absurd h0 hl

theorem J1_exec {w : Who} {is : List Instr} (hi : ∀ i ∈ is, i.tame = true) {s : T × Heap} (hj : J1 w s.1 s.2) :
    J1 w (exec w s is).1 (exec w s is).2 ∧ ∀ o, o < w.base → (exec w s is).2 o = s.2 o := by
  induction is generalizing s with
  | nil => exact ⟨hj, fun _ _ => rfl⟩
  | cons i is ih =>
    obtain ⟨hj', hf⟩ := J1_step hj (hi i (by simp))
    obtain ⟨hj'', hf'⟩ := ih (fun i' hi' => hi i' (List.mem_cons_of_mem _ hi')) hj'
    exact ⟨hj'', fun o ho => by
      show (exec w (step w s i) is).2 o = s.2 o
      rw [hf' o ho, hf o ho]⟩

/-- the caller's argument is a Plan object whose graph object exists (what `assert_is_instance(plan, "plan", Plan)`
    and `Plan.__init__` guarantee) -/
structure WFPlan (h : Heap) (p : Nat) : Prop where
  isPlan : ∃ g sc, h p = some (.plan g sc) ∧ ∃ ns es ga, h g = some (.graph ns es ga)

/-- the initial `plan = get_mutable_plan(plan, inplace=False)` establishes the invariant -/
theorem J1_first {w : Who} {h : Heap} {p : Nat} (hp : WFPlan h p) :
    J1 w (step w (T.init p, h) (.getMutable false)).1 (step w (T.init p, h) (.getMutable false)).2 ∧
    (∀ o, o < w.base → (step w (T.init p, h) (.getMutable false)).2 o = h o) ∧
    (step w (T.init p, h) (.getMutable false)).1.log = [] := by
  obtain ⟨g, sc, hpp, ns, es, ga, hg⟩ := hp.isPlan
  have hv : stepV w (T.init p) (view (T.init p) h) (.getMutable false) =
      ({ T.init p with nxt := 2, cur := w.addr 1 }, [(w.addr 0, .graph ns es ga), (w.addr 1, .plan (w.addr 0) [])]) := by
    simp [stepV, view, T.init, hpp, hg, graphOf, copyPlan]
  have h01 : w.addr 0 ≠ w.addr 1 := by simp [addr_inj]
  simp only [step, hv]
  refine ⟨⟨own_addr (by simp), by simp [T.init], by simp [T.init], by simp [T.init], ?_⟩, ?_, by simp [T.init]⟩
  · intro a g' sc' ha hh
    obtain ⟨k, hk, rfl⟩ := ha
    simp only at hk
    have : k = 0 ∨ k = 1 := by omega
    rcases this with rfl | rfl
    · simp [applyEffs, upd, h01] at hh
    · simp [applyEffs, upd] at hh
      rw [← hh.1]; exact own_addr (by simp)
  · intro o ho
    apply applyEffs_frame
    intro e he
    simp only [List.mem_cons, List.mem_nil_iff, or_false] at he
    rcases he with rfl | rfl <;> simp [Who.addr] <;> omega

/-! ### programs -/

theorem place_tame {f : Gen.Purity.Flow} (hf : f.scopeFreshOnly = true) (m : Mut) : (place f m).tame = true := by
  cases m <;> simp [place, hf, Mut.tame]

theorem muts_tame {f : Gen.Purity.Flow} (hf : f.scopeFreshOnly = true) (b : Bool) (ms : List Mut) :
    ∀ i ∈ muts f b ms, i.tame = true := by
  intro i hi
  simp only [muts, List.mem_map] at hi
  obtain ⟨m, _, rfl⟩ := hi
  exact place_tame hf m

theorem runRest_tame {f : Gen.Purity.Flow} (hf : f.scopeFreshOnly = true) (hr : f.registryWrites = false)
    (s : Script) : ∀ i ∈ runRest f s, i.tame = true := by
  intro i hi
  simp only [runRest, hr, List.mem_append] at hi
  have hm := fun b ms => muts_tame hf b ms i
  rcases hi with ((((((hi | hi) | hi) | hi) | hi) | hi) | hi)
  · exact hm _ _ hi
  · split at hi
    · simp only [List.mem_append] at hi
      rcases hi with ((((hi | hi) | hi) | hi) | hi)
      · simp only [List.mem_cons, List.mem_nil_iff, or_false] at hi
        rcases hi with rfl | rfl <;> rfl
      · exact hm _ _ hi
      · exact hm _ _ hi
      · simp only [List.mem_singleton] at hi; subst hi; rfl
      · exact hm _ _ hi
    · simp only [List.mem_append, List.mem_singleton] at hi
      rcases hi with rfl | hi
      · rfl
      · exact hm _ _ hi
  · simp only [List.mem_singleton] at hi; subst hi; rfl
  · exact hm _ _ hi
  · simp only [List.mem_singleton] at hi; subst hi; rfl
  · exact hm _ _ hi
  · simp at hi

theorem renderRest_tame {f : Gen.Purity.Flow} (hf : f.scopeFreshOnly = true) (hr : f.registryWrites = false)
    (s : Script) : ∀ i ∈ renderRest f s, i.tame = true := by
  intro i hi
  simp only [renderRest, hr, List.mem_append] at hi
  rcases hi with hi | hi
  · exact muts_tame hf _ _ i hi
  · simp at hi

/-- **Frame + write log** for any program of the form "copy first, then tame instructions", cut at any point. -/
theorem frame_prog {w : Who} {h : Heap} {p : Nat} (hp : WFPlan h p) {rest : List Instr}
    (ht : ∀ i ∈ rest, i.tame = true) (n : Nat) :
    (∀ o, o < w.base → (runN w h p (.getMutable false :: rest) n).2 o = h o) ∧
    (∀ a ∈ (runN w h p (.getMutable false :: rest) n).1.log,
        Own w (runN w h p (.getMutable false :: rest) n).1.nxt a) := by
  cases n with
  | zero => simp [runN, exec, T.init]
  | succ n =>
    obtain ⟨hj, hf, _⟩ := J1_first (w := w) hp
    have ht' : ∀ i ∈ rest.take n, i.tame = true := fun i hi => ht i (List.mem_of_mem_take hi)
    obtain ⟨hj', hf'⟩ := J1_exec ht' hj
    have e : runN w h p (.getMutable false :: rest) (n + 1) =
        exec w (step w (T.init p, h) (.getMutable false)) (rest.take n) := by
      simp [runN, exec, List.take_succ_cons]
    rw [e]
    exact ⟨fun o ho => by rw [hf' o ho, hf o ho], hj'.log⟩

/-- what a caller can reach through a plan lies below the allocation base -/
structure Below (h : Heap) (b : Nat) (p : Nat) : Prop where
  plan  : p < b
  graph : ∀ g sc, h p = some (.plan g sc) → g < b
  nodes : ∀ g sc ns es ga, h p = some (.plan g sc) → h g = some (.graph ns es ga) → ∀ e ∈ ns, e.1 < b

theorem snapPlan_congr {h h' : Heap} {b p : Nat} (hf : ∀ o, o < b → h' o = h o) (hb : Below h b p) :
    snapPlan h' p = snapPlan h p := by
  unfold snapPlan
  rw [hf p hb.plan]
  cases hp : h p with
  | none => rfl
  | some o =>
    cases o with
    | plan g sc =>
      simp only
      rw [hf g (hb.graph g sc hp)]
      cases hg : h g with
      | none => rfl
      | some o' =>
        cases o' with
        | graph ns es ga =>
          simp only
          have : List.map (fun e => (e.1, e.2, h' e.1)) ns = List.map (fun e => (e.1, e.2, h e.1)) ns :=
            List.map_congr_left (fun e he => by rw [hf e.1 (hb.nodes g sc ns es ga hp hg e he)])
          rw [this]
        | _ => rfl
    | _ => rfl

end Uberjob.Heap
