import UberjobModel.Gen.Progress
/-!
Exact characterisation of the generated string functions.
-/
namespace Uberjob.Progress
open Uberjob.Gen.Progress

/-- hours / minutes / seconds of a number of seconds -/
def hms (e : Nat) : Nat × Nat × Nat := (e / 3600, e % 3600 / 60, e % 60)

theorem hms_sound (e : Nat) : e = 3600 * (hms e).1 + 60 * (hms e).2.1 + (hms e).2.2 ∧ (hms e).2.1 < 60 ∧ (hms e).2.2 < 60 := by
  simp only [hms]; omega

theorem hms_unique (h m s h' m' s' : Nat) (hm : m < 60) (hs : s < 60) (hm' : m' < 60) (hs' : s' < 60)
    (heq : 3600 * h + 60 * m + s = 3600 * h' + 60 * m' + s') : h = h' ∧ m = m' ∧ s = s' := by
  omega

theorem elapsedString_eq (e : Nat) :
    elapsedString e =
      if (hms e).1 ≠ 0 then toString (hms e).1 ++ "h" ++ pad2 (hms e).2.1 ++ "m" ++ pad2 (hms e).2.2 ++ "s"
      else if (hms e).2.1 ≠ 0 then toString (hms e).2.1 ++ "m" ++ pad2 (hms e).2.2 ++ "s"
      else toString (hms e).2.2 ++ "s" := by
  simp only [elapsedString, hms, bne_iff_ne]
  by_cases h : e / 3600 = 0 <;> by_cases h2 : e % 3600 / 60 = 0 <;> simp only [h, h2, ne_eq, not_true_eq_false, not_false_eq_true, if_true, if_false]

theorem pad2_eq (n : Nat) : pad2 n = if n < 10 then "0" ++ toString n else toString n := rfl

theorem progressString_eq (c f r t : Nat) :
    progressString c f r t =
      (if c + f = t ∨ c + f + r = 0 then toString c ++ " / " ++ toString t
       else "(" ++ toString c ++ " + " ++ toString r ++ ") / " ++ toString t)
      ++ (if f ≠ 0 then ", " ++ toString f ++ " failed" else "") := by
  simp only [progressString]
  by_cases h1 : c + f = t ∨ c + f + r = 0
  · have : ((c + f == t) || !decide (c + f + r > 0)) = true := by
      rcases h1 with h | h
      · simp [h]
      · simp; right; omega
    simp only [this, if_true, h1]
    by_cases h2 : f = 0
    · simp [h2]
    · simp [h2, String.append_assoc]
  · have : ((c + f == t) || !decide (c + f + r > 0)) = false := by
      simp only [not_or] at h1
      simp; exact ⟨h1.1, by omega⟩
    simp only [this, h1, if_false]
    by_cases h2 : f = 0
    · simp [h2]
    · simp [h2, String.append_assoc]

end Uberjob.Progress
