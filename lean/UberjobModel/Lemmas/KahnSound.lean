import UberjobModel.Model.Kahn
import UberjobModel.Lemmas.EnginePath
/-!
  Soundness of the Kahn model: if `topological_sort` runs to completion, what it yielded is a
  topological order of ALL nodes; hence a graph with a cycle always raises `HasACycle`.
-/
namespace Uberjob.Kahn
open Uberjob.Engine (Graph Path)

structure KInv (g : Graph) (pend : List Nat) (st : KSt) : Prop where
  cnt : ∀ y, st.cnt y + (g.preds y).countP (fun p => decide (p ∈ st.out))
          = g.predCount y + (if y ∈ pend then 1 else 0)
  qOk : ∀ y ∈ st.q, y ∈ g.nodes ∧ y ∉ st.out ∧ st.cnt y = 0
  qNodup : st.q.Nodup
  zero : ∀ y ∈ g.nodes, st.cnt y = 0 → y ∈ st.q ∨ y ∈ st.out
  outNodup : st.out.Nodup
  outNodes : ∀ y ∈ st.out, y ∈ g.nodes
  outZero : ∀ y ∈ st.out, st.cnt y = 0 ∧ y ∉ pend
  order : ∀ (j y : Nat), st.out[j]? = some y → ∀ p ∈ g.preds y, ∃ i, i < j ∧ st.out[i]? = some p
  pendOk : pend.Nodup ∧ ∀ y ∈ pend, y ∈ g.nodes

theorem countP_le_predCount (g : Graph) (y : Nat) (p : Nat → Bool) : (g.preds y).countP p ≤ g.predCount y :=
  List.countP_le_length

theorem inv_relaxOne {g : Graph} {y : Nat} {rest : List Nat} {st : KSt}
    (hi : KInv g (y :: rest) st) : KInv g rest (relaxOne st y) := by
  have hyr : y ∉ rest := (List.nodup_cons.mp hi.pendOk.1).1
  have hc := hi.cnt y
  have hle := countP_le_predCount g y (fun p => decide (p ∈ st.out))
  simp only [List.mem_cons, true_or, if_true] at hc
  have hpos : 1 ≤ st.cnt y := by omega
  have hyq : y ∉ st.q := fun h => by have := (hi.qOk y h).2.2; omega
  have hyo : y ∉ st.out := fun h => by have := (hi.outZero y h).1; omega
  constructor
  · intro z
    have hout : (relaxOne st y).out = st.out := rfl
    rw [hout]
    by_cases hzy : z = y
    · subst hzy
      have h1 : (relaxOne st z).cnt z = st.cnt z - 1 := by simp [relaxOne]
      rw [h1, if_neg hyr]; omega
    · have h1 : (relaxOne st y).cnt z = st.cnt z := by simp [relaxOne, hzy]
      have := hi.cnt z
      rw [h1]
      simp only [List.mem_cons, hzy, false_or] at this
      exact this
  · intro z hz
    simp only [relaxOne] at hz ⊢
    split at hz
    · next h0 =>
      rcases List.mem_cons.mp hz with h1 | h1
      · subst h1
        exact ⟨hi.pendOk.2 z (by simp), hyo, by simp [h0]⟩
      · have := hi.qOk z h1
        have hzy : z ≠ y := fun h => hyq (h ▸ h1)
        exact ⟨this.1, this.2.1, by simp [hzy, this.2.2]⟩
    · have := hi.qOk z hz
      have hzy : z ≠ y := fun h => hyq (h ▸ hz)
      exact ⟨this.1, this.2.1, by simp [hzy, this.2.2]⟩
  · simp only [relaxOne]
    split
    · exact List.nodup_cons.mpr ⟨hyq, hi.qNodup⟩
    · exact hi.qNodup
  · intro z hz hz0
    simp only [relaxOne] at hz0 ⊢
    by_cases hzy : z = y
    · subst hzy
      simp at hz0
      simp [hz0]
    · simp [hzy] at hz0
      rcases hi.zero z hz hz0 with h1 | h1
      · left; split
        · exact List.mem_cons_of_mem _ h1
        · exact h1
      · right; exact h1
  · exact hi.outNodup
  · exact hi.outNodes
  · intro z hz
    have := hi.outZero z hz
    have hzy : z ≠ y := fun h => hyo (h ▸ hz)
    simp only [relaxOne]
    refine ⟨by simp [hzy, this.1], ?_⟩
    intro hr; exact this.2 (List.mem_cons_of_mem _ hr)
  · exact hi.order
  · exact ⟨(List.nodup_cons.mp hi.pendOk.1).2, fun z hz => hi.pendOk.2 z (List.mem_cons_of_mem _ hz)⟩

theorem inv_relax {g : Graph} {ys : List Nat} {st : KSt} (hi : KInv g ys st) : KInv g [] (relax st ys) := by
  induction ys generalizing st with
  | nil => exact hi
  | cons y rest ih => exact ih (inv_relaxOne hi)

theorem countP_mem_append_singleton {l out : List Nat} {x : Nat} (hl : l.Nodup) (hx : x ∉ out) :
    l.countP (fun p => decide (p ∈ out ++ [x]))
      = l.countP (fun p => decide (p ∈ out)) + (if x ∈ l then 1 else 0) := by
  induction l with
  | nil => simp
  | cons a t ih =>
    have hat := (List.nodup_cons.mp hl).1
    have := ih (List.nodup_cons.mp hl).2
    by_cases hax : a = x
    · subst hax
      simp [List.countP_cons, hx, hat] at this ⊢
      omega
    · have hxa : ¬ x = a := fun h => hax h.symm
      by_cases hao : a ∈ out
      · simp [List.countP_cons, hao, hax, hxa] at this ⊢; split at this <;> simp_all <;> omega
      · simp [List.countP_cons, hao, hax, hxa] at this ⊢; split at this <;> simp_all

/-- One iteration of the `while q:` loop keeps the invariant. -/
theorem inv_pop {g : Graph} (hg : g.WF) {st : KSt} {x : Nat} {q : List Nat}
    (hi : KInv g [] st) (hq : st.q = x :: q) :
    KInv g [] (relax { st with q := q, out := st.out ++ [x] } (g.succs x)) := by
  apply inv_relax
  have hxq : x ∈ st.q := by rw [hq]; simp
  obtain ⟨hxn, hxo, hx0⟩ := hi.qOk x hxq
  have hqn : (x :: q).Nodup := hq ▸ hi.qNodup
  -- all predecessors of x are already out
  have hpre : ∀ p ∈ g.preds x, p ∈ st.out := by
    have := hi.cnt x
    simp [hx0, Graph.predCount] at this
    intro p hp; exact this p hp
  have hself : x ∉ g.succs x := fun h => hxo (hpre x ((hg.adj x x).mp h))
  constructor
  · intro y
    have := hi.cnt y
    simp only [List.not_mem_nil, if_false, Nat.add_zero] at this
    rw [countP_mem_append_singleton (hg.predsNodup y) hxo]
    have hadj := hg.adj x y
    by_cases hy : y ∈ g.succs x
    · simp [hy, hadj.mp hy]; omega
    · have : x ∉ g.preds y := fun h => hy (hadj.mpr h)
      simp [hy, this]; omega
  · intro y hy
    have hyq : y ∈ st.q := by rw [hq]; exact List.mem_cons_of_mem _ hy
    obtain ⟨h1, h2, h3⟩ := hi.qOk y hyq
    refine ⟨h1, ?_, h3⟩
    simp only [List.mem_append, List.mem_singleton, not_or]
    exact ⟨h2, fun h => (List.nodup_cons.mp hqn).1 (h ▸ hy)⟩
  · exact (List.nodup_cons.mp hqn).2
  · intro y hy h0
    rcases hi.zero y hy h0 with h1 | h1
    · rw [hq] at h1
      rcases List.mem_cons.mp h1 with h2 | h2
      · right; simp [h2]
      · left; exact h2
    · right; exact List.mem_append_left _ h1
  · rw [List.nodup_append]
    refine ⟨hi.outNodup, by simp, ?_⟩
    intro a ha b hb hab; simp at hb; subst hb; subst hab; exact hxo ha
  · intro y hy
    simp only [List.mem_append, List.mem_singleton] at hy
    rcases hy with hy | hy
    · exact hi.outNodes y hy
    · subst hy; exact hxn
  · intro y hy
    simp only [List.mem_append, List.mem_singleton] at hy
    rcases hy with hy | hy
    · refine ⟨(hi.outZero y hy).1, ?_⟩
      intro hys
      -- x would be a predecessor of y, hence out before y; but x is not out
      obtain ⟨j, hj⟩ := List.mem_iff_getElem?.mp hy
      obtain ⟨i, _, hi'⟩ := hi.order j y hj x ((hg.adj x y).mp hys)
      exact hxo (List.mem_of_getElem? hi')
    · subst hy; exact ⟨hx0, hself⟩
  · intro j y hj p hp
    rcases Nat.lt_or_ge j st.out.length with hlt | hge
    · rw [List.getElem?_append_left hlt] at hj
      obtain ⟨i, hij, hi'⟩ := hi.order j y hj p hp
      exact ⟨i, hij, by rw [List.getElem?_append_left (by omega)]; exact hi'⟩
    · rw [List.getElem?_append_right hge] at hj
      have hj0 : j - st.out.length = 0 := by
        cases hk : j - st.out.length with
        | zero => rfl
        | succ k => simp [hk] at hj
      simp [hj0] at hj
      subst hj
      obtain ⟨i, hi'⟩ := List.mem_iff_getElem?.mp (hpre p hp)
      have hlt : i < st.out.length := (List.getElem?_eq_some_iff.mp hi').1
      exact ⟨i, by omega, by rw [List.getElem?_append_left hlt]; exact hi'⟩
  · exact ⟨hg.succsNodup x, fun y hy => (hg.succsNodes x y hy).2⟩

theorem inv_loop {g : Graph} (hg : g.WF) (f : Nat) {st : KSt} (hi : KInv g [] st) :
    KInv g [] (loop g f st) := by
  induction f generalizing st with
  | zero => exact hi
  | succ f ih =>
    simp only [loop]
    split
    · exact hi
    · next x q hq => exact ih (inv_pop hg hi hq)

theorem inv_start {g : Graph} (hg : g.WF) : KInv g [] (start g) := by
  constructor <;> (try simp only [start])
  · intro y; simp
  · intro y hy
    simp at hy
    exact ⟨hy.1, by simp, hy.2⟩
  · exact List.nodup_reverse.mpr (hg.nodesNodup.sublist List.filter_sublist)
  · intro y hy h0; left; simp [hy, h0]
  · exact List.nodup_nil
  · intro y hy; cases hy
  · intro y hy; cases hy
  · intro j y hj; simp at hj
  · exact ⟨List.nodup_nil, fun y hy => by cases hy⟩

/-- What a completed `topological_sort` yielded. -/
structure TopoOrder (g : Graph) (out : List Nat) : Prop where
  nodup : out.Nodup
  all   : ∀ y, y ∈ out ↔ y ∈ g.nodes
  fwd   : ∀ (j y : Nat), out[j]? = some y → ∀ p ∈ g.preds y, ∃ i, i < j ∧ out[i]? = some p

theorem kahn_sound {g : Graph} (hg : g.WF) {out : List Nat} (h : kahn g = some out) : TopoOrder g out := by
  simp only [kahn] at h
  split at h
  · next hc =>
    cases h
    have hi := inv_loop hg (g.nodes.length + 1) (inv_start hg)
    simp only [Bool.and_eq_true, List.isEmpty_iff, List.all_eq_true, beq_iff_eq] at hc
    refine ⟨hi.outNodup, ?_, hi.order⟩
    intro y
    constructor
    · exact hi.outNodes y
    · intro hy
      rcases hi.zero y hy (hc.2 y hy) with h1 | h1
      · rw [hc.1] at h1; cases h1
      · exact h1
  · cases h

/-- A topological order excludes every dependency cycle. -/
theorem topo_no_cycle {g : Graph} (hg : g.WF) {out : List Nat} (ht : TopoOrder g out) :
    ∀ x, ¬ Path g x x := by
  have key : ∀ p x, Path g p x → ∀ (j : Nat), out[j]? = some x → ∃ i, i < j ∧ out[i]? = some p := by
    intro p x hpx
    induction hpx with
    | single h => intro j hj; exact ht.fwd j _ hj _ h
    | cons _ hq ih =>
      intro j hj
      obtain ⟨k, hkj, hk⟩ := ht.fwd j _ hj _ hq
      obtain ⟨i, hik, hi⟩ := ih k hk
      exact ⟨i, by omega, hi⟩
  intro x hxx
  have hxn : x ∈ g.nodes := by
    cases hxx with
    | single h => exact (hg.succsNodes x x ((hg.adj x x).mpr h)).1
    | cons _ hq => exact (hg.succsNodes _ x ((hg.adj _ x).mpr hq)).2
  obtain ⟨j, hj⟩ := List.mem_iff_getElem?.mp ((ht.all x).mpr hxn)
  obtain ⟨i, hij, hi⟩ := key x x hxx j hj
  have hjl := (List.getElem?_eq_some_iff.mp hj).1
  have hil := (List.getElem?_eq_some_iff.mp hi).1
  have := (List.Nodup.getElem_inj_iff ht.nodup (hi := hil) (hj := hjl)).mp (by
    rw [(List.getElem?_eq_some_iff.mp hi).2, (List.getElem?_eq_some_iff.mp hj).2])
  omega

/-- A dependency cycle makes `assert_acyclic` raise. -/
theorem cycle_rejected {g : Graph} (hg : g.WF) {x : Nat} (hc : Path g x x) : kahn g = none := by
  cases h : kahn g with
  | none => rfl
  | some out => exact absurd hc (topo_no_cycle hg (kahn_sound hg h) x)

end Uberjob.Kahn
