import UberjobModel.Lemmas.Json
/-! integers: `int(str(n)) == n` through the number grammar of the JSON scanner -/
namespace Uberjob.Json

/-- what may follow a rendered value: not something that would continue a number -/
def Term (rest : Str) : Prop := ∀ c r, rest = c :: r → isDigit c = false ∧ c ≠ 46 ∧ c ≠ 101 ∧ c ≠ 69

theorem term_nil : Term [] := by intro c r h; cases h

theorem term_cons {c : Nat} {r : Str} (h : isDigit c = false ∧ c ≠ 46 ∧ c ≠ 101 ∧ c ≠ 69) : Term (c :: r) := by
  intro c' r' e; cases e; exact h

theorem digitsVal_snoc (ds : Str) (d : Nat) : digitsVal (ds ++ [d]) = 10 * digitsVal ds + (d - 48) := by
  simp [digitsVal, List.foldl_append]

theorem digitsVal_natDigits (n : Nat) : digitsVal (natDigits n) = n := by
  induction n using natDigits.induct with
  | case1 n h => rw [natDigits, dif_pos h]; simp [digitsVal]
  | case2 n h ih => rw [natDigits, dif_neg h, digitsVal_snoc, ih]; omega

theorem natDigits_digits (n : Nat) : ∀ d ∈ natDigits n, isDigit d = true := by
  induction n using natDigits.induct with
  | case1 n h => rw [natDigits, dif_pos h]; simp [isDigit]; omega
  | case2 n h ih =>
    rw [natDigits, dif_neg h]
    intro d hd
    rcases List.mem_append.mp hd with hd | hd
    · exact ih d hd
    · simp at hd; subst hd; simp [isDigit]; omega

theorem natDigits_zero : natDigits 0 = [48] := by rw [natDigits]; simp

theorem natDigits_head (n : Nat) (hn : 1 ≤ n) : ∃ d ds, natDigits n = d :: ds ∧ 49 ≤ d ∧ d ≤ 57 := by
  induction n using natDigits.induct with
  | case1 n h => rw [natDigits, dif_pos h]; exact ⟨48 + n, [], rfl, by omega, by omega⟩
  | case2 n h ih =>
    obtain ⟨d, ds, e, h1, h2⟩ := ih (by omega)
    rw [natDigits, dif_neg h, e]
    exact ⟨d, ds ++ [48 + n % 10], rfl, h1, h2⟩

theorem spanDigits_append (ds rest : Str) (hd : ∀ d ∈ ds, isDigit d = true) (hr : Term rest) :
    spanDigits (ds ++ rest) = (ds, rest) := by
  induction ds with
  | nil =>
    cases rest with
    | nil => rfl
    | cons c r => simp [spanDigits, (hr c r rfl).1]
  | cons d ds ih =>
    simp only [List.cons_append, spanDigits, hd d (by simp), if_true]
    rw [ih (fun x hx => hd x (by simp [hx]))]

/-- what follows does not start with a digit -/
def NoDigit (rest : Str) : Prop := ∀ c r, rest = c :: r → isDigit c = false

theorem Term.noDigit {rest : Str} (h : Term rest) : NoDigit rest := fun c r e => (h c r e).1

theorem spanDigits_append' (ds rest : Str) (hd : ∀ d ∈ ds, isDigit d = true) (hr : NoDigit rest) :
    spanDigits (ds ++ rest) = (ds, rest) := by
  induction ds with
  | nil =>
    cases rest with
    | nil => rfl
    | cons c r => simp [spanDigits, hr c r rfl]
  | cons d ds ih =>
    simp only [List.cons_append, spanDigits, hd d (by simp), if_true]
    rw [ih (fun x hx => hd x (by simp [hx]))]

theorem parseNat_natDigits (n : Nat) (rest : Str) (hr : NoDigit rest) : parseNat (natDigits n ++ rest) = .ok (n, rest) := by
  rcases Nat.eq_zero_or_pos n with rfl | hn
  · rw [natDigits_zero]; simp [parseNat]
  · obtain ⟨d, ds, e, h1, h2⟩ := natDigits_head n hn
    have hall := natDigits_digits n
    have hv := digitsVal_natDigits n
    rw [e] at hall hv ⊢
    have hsp := spanDigits_append' ds rest (fun x hx => hall x (by simp [hx])) hr
    simp only [List.cons_append, parseNat]
    rw [if_neg (by omega), if_pos ⟨h1, h2⟩, hsp, hv]

/-! ### fraction and exponent -/

theorem scanFrac_none (rest : Str) (h : ∀ c r, rest = c :: r → c ≠ 46) : scanFrac rest = ([], rest) := by
  unfold scanFrac
  split
  · next d r => exact absurd rfl (h 46 _ rfl)
  · rfl

theorem scanFrac_some (fr rest : Str) (hne : fr ≠ []) (hd : ∀ d ∈ fr, isDigit d = true) (hr : NoDigit rest) :
    scanFrac (46 :: (fr ++ rest)) = (fr, rest) := by
  cases fr with
  | nil => exact absurd rfl hne
  | cons d ds =>
    have := spanDigits_append' (d :: ds) rest hd hr
    simp only [List.cons_append] at this ⊢
    simp only [scanFrac, hd d (by simp), if_true, this]

theorem scanExp_none (rest : Str) (h : ∀ c r, rest = c :: r → c ≠ 101 ∧ c ≠ 69) : scanExp rest = (none, rest) := by
  unfold scanExp
  split
  · next e sg r2 =>
    have := h e _ rfl
    rw [if_neg (by omega)]
  · rfl

theorem scanExp_some (e : Nat) (sg : Option Nat) (ds rest : Str) (he : e = 101 ∨ e = 69)
    (hsg : sg = none ∨ sg = some 43 ∨ sg = some 45) (hne : ds ≠ []) (hd : ∀ d ∈ ds, isDigit d = true) (hr : NoDigit rest) :
    scanExp (e :: (sg.toList ++ (ds ++ rest))) = (some (e, sg, ds), rest) := by
  have hsp := spanDigits_append' ds rest hd hr
  cases ds with
  | nil => exact absurd rfl hne
  | cons d ds' =>
    have hdd : isDigit d = true := hd d (by simp)
    have hd' : 48 ≤ d ∧ d ≤ 57 := by simpa [isDigit] using hdd
    rcases hsg with rfl | rfl | rfl
    · simp only [Option.toList_none, List.nil_append, List.cons_append, scanExp, he, if_true]
      rw [if_neg (by omega)]
      simp only [hdd, if_true]
      simp only [List.cons_append] at hsp
      rw [hsp]
    · simp only [Option.toList_some, List.cons_append, List.nil_append, scanExp, he, if_true, true_or, headIs', hdd]
      simp only [List.cons_append] at hsp
      rw [hsp]
    · simp only [Option.toList_some, List.cons_append, List.nil_append, scanExp, he, if_true, or_true, headIs', hdd]
      simp only [List.cons_append] at hsp
      rw [hsp]

end Uberjob.Json
