import UberjobModel.Model.Refs
/-! Reachability in the reference graph of `run_physical` has a closed form (used by C16). -/
namespace Uberjob.Refs

variable {g : G} {s : St}

theorem reach_inv {y : Obj} (h : Reach g s y) :
    y ∈ roots s ∨ ∃ x, Reach g s x ∧ y ∈ edges g s x := by
  cases h with
  | root hr => exact .inl hr
  | step hx hy => exact .inr ⟨_, hx, hy⟩

theorem reach_lookup : Reach g s .lookup := .root (by simp [roots])
theorem reach_outRef : Reach g s .outRef := .root (by simp [roots])

theorem reach_table : Reach g s .table ↔ s.tableLive = true := by
  constructor
  · intro h
    rcases reach_inv h with hr | ⟨x, _, hy⟩
    · by_cases ht : s.tableLive <;> simp [roots, ht] at hr ⊢
    · cases x <;> simp [edges] at hy
      all_goals (split at hy <;> simp at hy)
      all_goals (try split at hy) <;> simp at hy
  · intro h; exact .root (by simp [roots, h])

theorem reach_entry {j : Nat} : Reach g s (.entry j) ↔ j ∈ calls g := by
  constructor
  · intro h
    rcases reach_inv h with hr | ⟨x, _, hy⟩
    · by_cases ht : s.tableLive <;> simp [roots, ht] at hr
    · cases x <;> simp [edges] at hy
      · exact hy
      all_goals (split at hy <;> simp at hy)
      all_goals (try split at hy) <;> simp at hy
  · intro h; exact .step reach_lookup (by simp [edges]; exact h)

theorem reach_boundCall {j : Nat} : Reach g s (.boundCall j) ↔ j ∈ calls g ∧ j ∉ s.dropped := by
  constructor
  · intro h
    rcases reach_inv h with hr | ⟨x, hx, hy⟩
    · by_cases ht : s.tableLive <;> simp [roots, ht] at hr
    · cases x <;> simp [edges] at hy
      case entry j' =>
        obtain ⟨hd, rfl⟩ := hy
        exact ⟨reach_entry.mp hx, hd⟩
      all_goals (split at hy <;> simp at hy)
      all_goals (try split at hy) <;> simp at hy
  · rintro ⟨hc, hd⟩
    exact .step (reach_entry.mpr hc) (by simp [edges, hd])

/-- Every reference to a result cell comes from the table, the output variable or a BoundCall. -/
theorem holder_cases {i : Nat} {x : Obj} (h : Obj.slot i ∈ edges g s x) :
    (x = .table ∧ i ∈ calls g) ∨ (x = .outRef ∧ g.output = some i ∧ g.isCall i = true) ∨
    ∃ j, x = .boundCall j ∧ (j = i ∨ (i ∈ g.args j ∧ g.isCall i = true)) := by
  cases x <;> simp [edges] at h
  case table => exact .inl ⟨rfl, h⟩
  case outRef =>
    split at h
    · next o ho =>
      split at h <;> simp at h
      next hc => subst h; exact .inr (.inl ⟨rfl, ho, hc⟩)
    · simp at h
  case boundCall j =>
    refine .inr (.inr ⟨j, rfl, ?_⟩)
    rcases h with h | h
    · exact .inr h
    · exact .inl h.symm

theorem reach_slot {i : Nat} : Reach g s (.slot i) ↔ slotLive g s i = true := by
  constructor
  · intro h
    rcases reach_inv h with hr | ⟨x, hx, hy⟩
    · by_cases ht : s.tableLive <;> simp [roots, ht] at hr
    · rcases holder_cases hy with ⟨rfl, hi⟩ | ⟨rfl, ho, hc⟩ | ⟨j, rfl, hj⟩
      · have := reach_table.mp hx
        simp [slotLive, this, hi]
      · simp [slotLive, isOutput, ho, hc]
      · obtain ⟨hjc, hjd⟩ := reach_boundCall.mp hx
        have : heldByCall g s i = true := by
          simp only [heldByCall, List.any_eq_true]
          refine ⟨j, hjc, ?_⟩
          rcases hj with rfl | ⟨ha, hc⟩
          · simp [hjd]
          · simp [hjd, ha, hc]
        simp [slotLive, this]
  · intro h
    simp only [slotLive, Bool.or_eq_true, Bool.and_eq_true] at h
    rcases h with (⟨ht, hi⟩ | ho) | hb
    · exact .step (reach_table.mpr ht) (by simpa [edges] using hi)
    · simp only [isOutput, Bool.and_eq_true, beq_iff_eq] at ho
      exact .step reach_outRef (by simp [edges, ho.1, ho.2])
    · simp only [heldByCall, List.any_eq_true, Bool.and_eq_true, Bool.or_eq_true, Bool.not_eq_true',
        beq_iff_eq, List.contains_eq_mem, decide_eq_true_eq, decide_eq_false_iff_not] at hb
      obtain ⟨j, hjc, hjd, hj⟩ := hb
      refine .step (reach_boundCall.mpr ⟨hjc, hjd⟩) ?_
      rcases hj with rfl | ⟨ha, hc⟩
      · simp [edges]
      · simp only [edges, List.mem_append, List.mem_map, List.mem_filter]
        exact .inl ⟨i, ⟨ha, hc⟩, rfl⟩

theorem reach_value {i : Nat} : Reach g s (.value i) ↔ valueLive g s i = true := by
  constructor
  · intro h
    rcases reach_inv h with hr | ⟨x, hx, hy⟩
    · by_cases ht : s.tableLive <;> simp [roots, ht] at hr
    · cases x <;> simp [edges] at hy
      case slot i' =>
        obtain ⟨hs, rfl⟩ := hy
        simp [valueLive, reach_slot.mp hx, hs]
      all_goals (split at hy <;> simp at hy)
      all_goals (try split at hy) <;> simp at hy
  · intro h
    simp only [valueLive, Bool.and_eq_true, List.contains_eq_mem, decide_eq_true_eq] at h
    exact .step (reach_slot.mpr h.1) (by simp [edges, h.2])

/-! ### the state after a sequence of operations -/

theorem foldl_tableLive_false (c : Cfg) (ops : List Op) (s : St) (h : s.tableLive = false) :
    (ops.foldl (step c) s).tableLive = false := by
  induction ops generalizing s with
  | nil => exact h
  | cons o ops ih =>
    apply ih
    cases o with
    | ret => simp [step, h]
    | store i => simp [step, h]
    | finish j' ok' => by_cases hd : c.drops ok' = true <;> simp [step, hd, h]

theorem foldl_dropped_mono (c : Cfg) (ops : List Op) (s : St) {j : Nat} (h : j ∈ s.dropped) :
    j ∈ (ops.foldl (step c) s).dropped := by
  induction ops generalizing s with
  | nil => exact h
  | cons o ops ih =>
    apply ih
    cases o with
    | ret => simp [step, h]
    | store i => simp [step, h]
    | finish j' ok' => by_cases hd : c.drops ok' = true <;> simp [step, hd, h]

theorem foldl_finish_dropped (c : Cfg) (hok : c.dropOnOk = true) (hf : c.dropOnFail = true)
    (ops : List Op) (s : St) {j : Nat} {ok : Bool} (h : Op.finish j ok ∈ ops) :
    j ∈ (ops.foldl (step c) s).dropped := by
  induction ops generalizing s with
  | nil => simp at h
  | cons o ops ih =>
    rcases List.mem_cons.mp h with rfl | h
    · simp only [List.foldl_cons]
      apply foldl_dropped_mono
      cases ok <;> simp [step, Cfg.drops, hok, hf]
    · exact ih _ h

theorem run_ret_tableLive (c : Cfg) (hl : c.tableLocal = true) (ops : List Op) :
    (run c (.ret :: ops)).tableLive = false := by
  simp only [run, List.foldl_cons]
  exact foldl_tableLive_false c ops _ (by simp [step, hl])

/-- Without a failure nothing is dropped that did not finish: the converse direction used for exactness. -/
theorem foldl_dropped_sub (c : Cfg) (ops : List Op) (s : St) {j : Nat}
    (h : j ∈ (ops.foldl (step c) s).dropped) : j ∈ s.dropped ∨ ∃ ok, Op.finish j ok ∈ ops := by
  induction ops generalizing s with
  | nil => exact .inl h
  | cons o ops ih =>
    rcases ih _ h with h' | ⟨ok, h'⟩
    · cases o with
      | ret => exact .inl (by simpa [step] using h')
      | store i => exact .inl (by simpa [step] using h')
      | finish j' ok' =>
        by_cases hd : c.drops ok' = true
        · simp only [step, hd, if_true] at h'
          rcases List.mem_cons.mp h' with rfl | h''
          · exact .inr ⟨ok', by simp⟩
          · exact .inl h''
        · simp only [step, hd] at h'
          exact .inl h'
    · exact .inr ⟨ok, by simp [h']⟩

theorem foldl_stored_mono (c : Cfg) (ops : List Op) (s : St) {i : Nat} (h : i ∈ s.stored) :
    i ∈ (ops.foldl (step c) s).stored := by
  induction ops generalizing s with
  | nil => exact h
  | cons o ops ih =>
    apply ih
    cases o with
    | ret => simp [step, h]
    | store i => simp [step, h]
    | finish j' ok' => by_cases hd : c.drops ok' = true <;> simp [step, hd, h]

theorem foldl_store_stored (c : Cfg) (ops : List Op) (s : St) {i : Nat} (h : Op.store i ∈ ops) :
    i ∈ (ops.foldl (step c) s).stored := by
  induction ops generalizing s with
  | nil => simp at h
  | cons o ops ih =>
    rcases List.mem_cons.mp h with rfl | h
    · simp only [List.foldl_cons]
      apply foldl_stored_mono
      simp [step]
    · exact ih _ h

end Uberjob.Refs
