import UberjobModel.Lemmas.EngineLive
/-!
  Completeness: a run that returns normally (no failure, no interrupt) has executed EVERY node of an acyclic graph.
-/
namespace Uberjob.Engine
open Uberjob.Gen.Engine

def Coord.intr : Coord → Bool
  | .stopping i => i
  | .putting _ i => i
  | .joining i => i
  | .returned i => i
  | _ => false

/-- After `queue.join()` returned normally. -/
def Coord.afterJoin : Coord → Bool
  | .stopping false => true
  | .putting _ false => true
  | .joining false => true
  | .returned false => true
  | _ => false

structure Inv4 (g : Graph) (cfg : Cfg) (s : St) : Prop where
  srcEnq  : ∀ x ∈ sources g, x ∈ s.enq
  relEnq  : ∀ y, g.preds y ≠ [] → (∀ p ∈ g.preds y, (p, y) ∈ s.rel) → y ∈ s.enq
  okdRel  : ∀ x, x ∈ s.retired → x ∈ s.okd → ∀ y ∈ g.succs x, (x, y) ∈ s.rel
  retWhy  : ∀ x, x ∈ s.retired → x ∈ s.okd ∨ x ∈ s.failed ∨ x ∈ s.skipped
  quiet   : s.coord.afterJoin = true → (∀ x, Item.node x ∉ s.queue) ∧ (∀ w ∈ s.ws, w.node? = none) ∧
              (∀ w ∈ s.ws, w = W.idle ∨ w = W.held .done ∨ w = W.finishing true ∨ w = W.exited)
  skipWhy : s.skipped ≠ [] → (∃ k, cfg.maxErr = some k ∧ k < s.errs) ∨ s.coord.intr = true
  unfZero : s.coord = .stopping false → s.unfinished = 0

theorem countP_ge_of_all_mem {rel : List (Nat × Nat)} {y : Nat} {ps : List Nat} (hn : ps.Nodup)
    (h : ∀ p ∈ ps, (p, y) ∈ rel) : ps.length ≤ rel.countP (fun e => e.2 == y) := by
  rw [List.countP_eq_length_filter]
  have hsub : ps.map (fun p => (p, y)) ⊆ rel.filter (fun e => e.2 == y) := by
    intro e he
    obtain ⟨p, hp, rfl⟩ := List.mem_map.mp he
    exact List.mem_filter.mpr ⟨h p hp, by simp⟩
  have hnd : (ps.map (fun p => (p, y))).Nodup := by
    apply List.Nodup.map _ hn
    intro a b hab; cases hab; rfl
  have := (List.subperm_of_subset hnd hsub).length_le
  simpa using this

theorem inv4_init (g : Graph) (cfg : Cfg) : Inv4 g cfg (init g) := by
  constructor <;> simp [init, Coord.afterJoin, Coord.intr]
  intro y hne hall
  cases hp : g.preds y with
  | nil => exact absurd hp hne
  | cons p t => have := hall p (by rw [hp]; simp); exact absurd this (by simp)

theorem inv4_step {g : Graph} (hg : g.WF) {cfg : Cfg} (hwk : 1 ≤ cfg.workers) {s s' : St} (l : Label)
    (hi : Inv g s) (h2 : Inv2 cfg s) (h3 : Inv3 cfg s) (h4 : Inv4 g cfg s)
    (h : step? g cfg s l = some s') : Inv4 g cfg s' := by
  cases l with
  | spawn =>
    simp only [step?] at h
    split at h
    · next i hc =>
      split at h
      · cases h
        refine ⟨h4.srcEnq, h4.relEnq, h4.okdRel, h4.retWhy, ?_, ?_, ?_⟩
        · intro ha; split at ha <;> simp [Coord.afterJoin] at ha
        · intro hs; have := h4.skipWhy hs; simp [hc, Coord.intr] at this
          left; exact this
        · intro hc'; split at hc' <;> cases hc'
      · cases h
    · cases h
  | get w i =>
    simp only [step?] at h
    split at h
    · next hw =>
      split at h
      · next hq =>
        cases h
        refine ⟨h4.srcEnq, h4.relEnq, h4.okdRel, h4.retWhy, ?_, h4.skipWhy, h4.unfZero⟩
        intro ha
        obtain ⟨q1, q2, q3⟩ := h4.quiet ha
        have hid : i = Item.done := by
          cases i with
          | done => rfl
          | node x => exact absurd hq (q1 x)
        subst hid
        refine ⟨fun x hx => q1 x (List.mem_of_mem_erase hx), ?_, ?_⟩
        · intro v hv
          rcases List.mem_or_eq_of_mem_set hv with h1 | h1
          · exact q2 v h1
          · subst h1; rfl
        · intro v hv
          rcases List.mem_or_eq_of_mem_set hv with h1 | h1
          · exact q3 v h1
          · subst h1; right; left; rfl
      · cases h
    · cases h
  | check w =>
    simp only [step?] at h
    split at h
    · next hw =>
      cases h
      refine ⟨h4.srcEnq, h4.relEnq, h4.okdRel, h4.retWhy, ?_, h4.skipWhy, h4.unfZero⟩
      intro ha
      obtain ⟨q1, q2, q3⟩ := h4.quiet ha
      refine ⟨q1, ?_, ?_⟩
      · intro v hv
        rcases List.mem_or_eq_of_mem_set hv with h1 | h1
        · exact q2 v h1
        · subst h1; rfl
      · intro v hv
        rcases List.mem_or_eq_of_mem_set hv with h1 | h1
        · exact q3 v h1
        · subst h1; right; right; left; rfl
    · next x hw =>
      have hnq : s.coord.afterJoin = false := by
        cases ha : s.coord.afterJoin with
        | false => rfl
        | true => have := (h4.quiet ha).2.1 _ (List.mem_of_getElem? hw); simp [W.node?] at this
      split at h
      · next hstop =>
        cases h
        refine ⟨h4.srcEnq, h4.relEnq, ?_, ?_, ?_, ?_, h4.unfZero⟩
        · intro y hy hyo
          simp only [setW, List.mem_append, List.mem_singleton] at hy
          rcases hy with hy | hy
          · exact h4.okdRel y hy hyo
          · subst hy
            -- a held node has not begun, so it is not in okd
            exact absurd (hi.okBegun y hyo) (hi.held y (List.mem_of_getElem? hw))
        · intro y hy
          simp only [setW, List.mem_append, List.mem_singleton] at hy ⊢
          rcases hy with hy | hy
          · rcases h4.retWhy y hy with h1 | h1 | h1
            · left; exact h1
            · right; left; exact h1
            · right; right; left; exact h1
          · right; right; right; exact hy
        · intro ha; simp only [setW] at ha; rw [hnq] at ha; cases ha
        · intro _
          -- stop is set: either errors exceeded the limit, or the coordinator is past setStop
          simp only [setW]
          rcases h2.stopWhy hstop with h1 | ⟨k, hk, hlt⟩
          · -- past, but not afterJoin ⇒ interrupted
            right
            cases hc : s.coord with
            | spawning i => simp [hc, Coord.past] at h1
            | waiting => simp [hc, Coord.past] at h1
            | stopping i => simp [hc, Coord.past] at h1
            | putting k i => cases i <;> simp_all [Coord.afterJoin, Coord.intr]
            | joining i => cases i <;> simp_all [Coord.afterJoin, Coord.intr]
            | returned i => cases i <;> simp_all [Coord.afterJoin, Coord.intr]
          · left; exact ⟨k, hk, hlt⟩
      · cases h
        refine ⟨h4.srcEnq, h4.relEnq, h4.okdRel, h4.retWhy, ?_, h4.skipWhy, h4.unfZero⟩
        intro ha; simp only [setW] at ha; rw [hnq] at ha; cases ha
    · cases h
  | finOk w =>
    simp only [step?] at h
    split at h
    · next x hw =>
      cases h
      have hnq : s.coord.afterJoin = false := by
        cases ha : s.coord.afterJoin with
        | false => rfl
        | true => have := (h4.quiet ha).2.1 _ (List.mem_of_getElem? hw); simp [W.node?] at this
      refine ⟨h4.srcEnq, h4.relEnq, ?_, ?_, ?_, h4.skipWhy, h4.unfZero⟩
      · intro y hy hyo
        simp only [setW, List.mem_append, List.mem_singleton] at hyo
        rcases hyo with hyo | hyo
        · exact h4.okdRel y hy hyo
        · subst hyo
          -- x is running, hence not retired
          exfalso
          simp only [setW] at hy
          have h5 := countP_pos_of_getElem? (p := holds y) hw (by simp [holds, W.node?])
          have h6 := List.count_pos_iff.mpr hy
          have h7 := hi.place y
          have h8 := hi.once y
          simp only [cnt, qCount, wCount, rCount] at h7
          omega
      · intro y hy
        rcases h4.retWhy y hy with h1 | h1 | h1
        · left; exact List.mem_append_left _ h1
        · right; left; exact h1
        · right; right; exact h1
      · intro ha; simp only [setW] at ha; rw [hnq] at ha; cases ha
    · cases h
  | finFail w =>
    simp only [step?] at h
    split at h
    · next x hw =>
      cases h
      have hnq : s.coord.afterJoin = false := by
        cases ha : s.coord.afterJoin with
        | false => rfl
        | true => have := (h4.quiet ha).2.1 _ (List.mem_of_getElem? hw); simp [W.node?] at this
      obtain ⟨hxo, _, _⟩ := hi.running x (List.mem_of_getElem? hw)
      refine ⟨h4.srcEnq, h4.relEnq, ?_, ?_, ?_, ?_, h4.unfZero⟩
      · intro y hy hyo
        simp only [setW, List.mem_append, List.mem_singleton] at hy
        rcases hy with hy | hy
        · exact h4.okdRel y hy hyo
        · subst hy; exact absurd hyo hxo
      · intro y hy
        simp only [setW, List.mem_append, List.mem_singleton] at hy ⊢
        rcases hy with hy | hy
        · rcases h4.retWhy y hy with h1 | h1 | h1
          · left; exact h1
          · right; left; left; exact h1
          · right; right; exact h1
        · right; left; right; exact hy
      · intro ha; simp only [setW] at ha; rw [hnq] at ha; cases ha
      · intro hs
        simp only [setW] at hs
        rcases h4.skipWhy hs with ⟨k, hk, hlt⟩ | h1
        · left; exact ⟨k, hk, by simp only [setW]; omega⟩
        · right; exact h1
    · cases h
  | release w y =>
    simp only [step?] at h
    split at h
    · next x todo hw =>
      split at h
      · next hyt =>
        cases h
        have hnq : s.coord.afterJoin = false := by
          cases ha : s.coord.afterJoin with
          | false => rfl
          | true => have := (h4.quiet ha).2.1 _ (List.mem_of_getElem? hw); simp [W.node?] at this
        obtain ⟨hxo, htn, htodo, hdone⟩ := hi.relsing x todo (List.mem_of_getElem? hw)
        obtain ⟨hys, hnr⟩ := htodo y hyt
        have hxp : x ∈ g.preds y := (hg.adj x y).mp hys
        refine ⟨?_, ?_, ?_, h4.retWhy, ?_, h4.skipWhy, ?_⟩
        rotate_right
        · intro hc'
          simp only [setW] at hc'
          have : s.coord.afterJoin = true := by rw [hc']; rfl
          rw [hnq] at this; cases this
        · intro z hz; simp only [setW]; split
          · exact List.mem_append_left _ (h4.srcEnq z hz)
          · exact h4.srcEnq z hz
        · intro z hne hall
          simp only [setW] at hall ⊢
          by_cases hzy : z = y
          · subst hzy
            -- all predecessors have now released z: the put must have happened
            have hput : releasePut g s z = true := by
              unfold releasePut
              by_cases h1 : classify (g.predCount z) = Kind.single
              · simp [h1]
              · have hne1 : g.predCount z ≠ 1 := fun hh => h1 ((classify_single_iff _).mpr hh)
                have hpc : 1 ≤ g.predCount z := by unfold Graph.predCount; exact List.length_pos_of_mem hxp
                have h2' : 2 ≤ g.predCount z := by omega
                have hrem := hi.remOk z h2'
                have hge := countP_ge_of_all_mem (hg.predsNodup z) hall
                simp only [List.countP_append, List.countP_cons, List.countP_nil] at hge
                simp at hge
                unfold Graph.predCount at hrem h2'
                have : s.rem z ≤ 1 := by omega
                simp [h1, releaseRem, readyCond_iff]; omega
            simp [hput]
          · have hall' : ∀ p ∈ g.preds z, (p, z) ∈ s.rel := by
              intro p hp
              have := hall p hp
              simp only [List.mem_append, List.mem_singleton] at this
              rcases this with h1 | h1
              · exact h1
              · cases h1; exact absurd rfl hzy
            have := h4.relEnq z hne hall'
            split
            · exact List.mem_append_left _ this
            · exact this
        · intro z hz hzo v hv
          simp only [setW]
          exact List.mem_append_left _ (h4.okdRel z hz hzo v hv)
        · intro ha; simp only [setW] at ha; rw [hnq] at ha; cases ha
      · cases h
    · cases h
  | taskDone w =>
    simp only [step?] at h
    split at h
    · next x hw =>
      cases h
      have hnq : s.coord.afterJoin = false := by
        cases ha : s.coord.afterJoin with
        | false => rfl
        | true => have := (h4.quiet ha).2.1 _ (List.mem_of_getElem? hw); simp [W.node?] at this
      obtain ⟨hxo, _, _, hdone⟩ := hi.relsing x [] (List.mem_of_getElem? hw)
      refine ⟨h4.srcEnq, h4.relEnq, ?_, ?_, ?_, h4.skipWhy, ?_⟩
      · intro y hy hyo v hv
        simp only [setW, List.mem_append, List.mem_singleton] at hy
        rcases hy with hy | hy
        · exact h4.okdRel y hy hyo v hv
        · subst hy; exact hdone v hv (by simp)
      · intro y hy
        simp only [setW, List.mem_append, List.mem_singleton] at hy
        rcases hy with hy | hy
        · exact h4.retWhy y hy
        · subst hy; left; exact hxo
      · intro ha; simp only [setW] at ha; rw [hnq] at ha; cases ha
      · intro hc; simp only [setW] at hc
        have : s.coord.afterJoin = true := by rw [hc]; rfl
        rw [hnq] at this; cases this
    · next hw =>
      cases h
      have hnq : s.coord.afterJoin = false := by
        cases ha : s.coord.afterJoin with
        | false => rfl
        | true =>
          have := (h4.quiet ha).2.2 _ (List.mem_of_getElem? hw)
          simp at this
      refine ⟨h4.srcEnq, h4.relEnq, h4.okdRel, h4.retWhy, ?_, h4.skipWhy, ?_⟩
      · intro ha; simp only [setW] at ha; rw [hnq] at ha; cases ha
      · intro hc; simp only [setW] at hc
        have : s.coord.afterJoin = true := by rw [hc]; rfl
        rw [hnq] at this; cases this
    · next hw =>
      cases h
      refine ⟨h4.srcEnq, h4.relEnq, h4.okdRel, h4.retWhy, ?_, h4.skipWhy, ?_⟩
      · intro ha
        obtain ⟨q1, q2, q3⟩ := h4.quiet ha
        refine ⟨q1, ?_, ?_⟩
        · intro v hv
          rcases List.mem_or_eq_of_mem_set hv with h1 | h1
          · exact q2 v h1
          · subst h1; rfl
        · intro v hv
          rcases List.mem_or_eq_of_mem_set hv with h1 | h1
          · exact q3 v h1
          · subst h1; right; right; right; rfl
      · intro hc; simp only [setW] at hc
        -- a worker holding DONE exists only after putDone, not in `stopping`
        exfalso
        have hd := h3.dones
        rw [hc] at hd
        have := countP_pos_of_getElem? (p := W.hasDone) hw (by simp [W.hasDone])
        simp only [donesPut] at hd; omega
    · cases h
  | joinReturn =>
    simp only [step?] at h
    split at h
    · next hc =>
      split at h
      · next hu =>
        cases h
        refine ⟨h4.srcEnq, h4.relEnq, h4.okdRel, h4.retWhy, ?_, ?_, fun _ => hu⟩
        · intro _
          -- unfinished = 0 ⇒ queue empty and nobody busy; no DONE around yet ⇒ everybody idle
          have hunf := h3.unf
          have hd := h3.dones
          rw [hc] at hd
          simp only [donesPut] at hd
          have hq : s.queue = [] := List.eq_nil_of_length_eq_zero (by omega)
          have hb : s.ws.countP W.busy = 0 := by omega
          have he : s.ws.countP W.isExited = 0 := by omega
          refine ⟨by intro x; rw [hq]; simp, ?_, ?_⟩
          · intro v hv
            have h1 := List.countP_eq_zero.mp hb v hv
            cases v <;> simp_all [W.busy, W.node?]
          · intro v hv
            have h1 := List.countP_eq_zero.mp hb v hv
            have h2' := List.countP_eq_zero.mp he v hv
            cases v <;> simp_all [W.busy, W.isExited]
        · intro hs
          have := h4.skipWhy hs
          simp [hc, Coord.intr] at this
          left; exact this
      · cases h
    · cases h
  | interrupt =>
    simp only [step?] at h
    split at h
    · next hc =>
      cases h
      refine ⟨h4.srcEnq, h4.relEnq, h4.okdRel, h4.retWhy, ?_, ?_, ?_⟩
      · intro ha; simp [Coord.afterJoin] at ha
      · intro _; right; rfl
      · intro hc'; cases hc'
    · cases h
  | setStop =>
    simp only [step?] at h
    split at h
    · next i hc =>
      cases h
      refine ⟨h4.srcEnq, h4.relEnq, h4.okdRel, h4.retWhy, ?_, ?_, ?_⟩
      · intro ha
        have : s.coord.afterJoin = true := by
          cases i <;> simp [Coord.afterJoin] at ha; rw [hc]; rfl
        exact h4.quiet this
      · intro hs
        have := h4.skipWhy hs
        simpa [hc, Coord.intr] using this
      · intro hc'; cases hc'
    · cases h
  | putDone =>
    simp only [step?] at h
    split at h
    · next k i hc =>
      split at h
      · cases h
        refine ⟨h4.srcEnq, h4.relEnq, h4.okdRel, h4.retWhy, ?_, ?_, ?_⟩
        · intro ha
          have : s.coord.afterJoin = true := by
            rw [hc]; cases i
            · rfl
            · split at ha <;> simp [Coord.afterJoin] at ha
          obtain ⟨q1, q2, q3⟩ := h4.quiet this
          refine ⟨?_, q2, q3⟩
          intro x hx
          simp only [List.mem_append, List.mem_singleton] at hx
          rcases hx with hx | hx
          · exact q1 x hx
          · cases hx
        · intro hs
          have := h4.skipWhy hs
          rw [hc] at this
          split <;> simpa [Coord.intr] using this
        · intro hc'; split at hc' <;> cases hc'
      · cases h
    · cases h
  | joined =>
    simp only [step?] at h
    split at h
    · next i hc =>
      split at h
      · cases h
        refine ⟨h4.srcEnq, h4.relEnq, h4.okdRel, h4.retWhy, ?_, ?_, ?_⟩
        · intro ha
          have : s.coord.afterJoin = true := by
            cases i <;> simp [Coord.afterJoin] at ha; rw [hc]; rfl
          exact h4.quiet this
        · intro hs
          have := h4.skipWhy hs
          simpa [hc, Coord.intr] using this
        · intro hc'; cases hc'
      · cases h
    · cases h

theorem inv4_reach {g : Graph} (hg : g.WF) {cfg : Cfg} (hw : 1 ≤ cfg.workers) {s : St} (h : Reach g cfg s) :
    Inv4 g cfg s := by
  induction h with
  | init => exact inv4_init g cfg
  | step l hr hs ih => exact inv4_step hg hw l (inv_reach hg hr) (inv2_reach hw hr) (inv3_reach hw hr) ih hs

end Uberjob.Engine
