import UberjobModel.Lemmas.CacheRun
/-!
  The stale check computes exactly the declarative "out of date" relation of C05.
-/
namespace Uberjob.Cache
open Uberjob.Gen.Stale

/-- The generated stale condition, spelled out. -/
theorem staleCond_iff (mt : Int) (anc F : Option Int) (s : Bool) :
    staleCond mt anc F s = true ↔
      (anc.isSome = true ∨ s = false) ∧ ((∃ a, anc = some a ∧ mt < a) ∨ (∃ f, F = some f ∧ mt < f)) := by
  unfold staleCond
  rw [safeMax_three]
  cases anc <;> cases F <;> cases s <;> simp [optGt] <;> (try (repeat' split)) <;> omega

/-- Registered node `q`, different from `k`, upstream of `k`, holding something. -/
def TimedAncestor (P : LPlan) (w : World) (k q : Nat) (a : Int) : Prop :=
  q ≠ k ∧ Reach P q k ∧ (∃ s, P.reg q = some s) ∧ w.mtime q = some a

/-- A local reason for the registered node `k` to be out of date. -/
def Cause (P : LPlan) (w : World) (F : Option Int) (k : Nat) : Prop :=
  ∃ s, P.reg k = some s ∧
    (w.mtime k = none ∨
     ∃ mt, w.mtime k = some mt ∧
       ((∃ q a, TimedAncestor P w k q a ∧ mt < a) ∨
        (∃ f, F = some f ∧ mt < f ∧ (s = false ∨ ∃ q a, TimedAncestor P w k q a))))

/-- C05's reading of "out of date": missing, older than `fresh_time` (a source with nothing timed upstream is
    exempt), older than a stored value or source upstream, or downstream of such a node. -/
def OutOfDate (P : LPlan) (w : World) (F : Option Int) (j : Nat) : Prop :=
  ∃ k, Reach P k j ∧ Cause P w F k

theorem Reach.trans_step {P : LPlan} {q p j : Nat} (h : Reach P q p) (hp : p ∈ P.preds j) : Reach P q j :=
  Reach.step h hp

theorem Reach.inv {P : LPlan} {q k : Nat} (h : Reach P q k) (hne : q ≠ k) : ∃ p ∈ P.preds k, Reach P q p := by
  cases h with
  | refl => exact absurd rfl hne
  | step h hp => exact ⟨_, hp, h⟩

/-- A propagated time is the modified time of a registered node upstream (or the node itself). -/
theorem tm_source {P : LPlan} (hP : P.WF) (w : World) (f : Option Int) :
    ∀ (k : Nat) (a : Int), (sres P w f k).tm = some a →
      ∃ q, Reach P q k ∧ (∃ s, P.reg q = some s) ∧ w.mtime q = some a := by
  intro k
  induction k using Nat.strongRecOn with
  | ind k ih =>
    intro a h
    rw [sres_eq hP] at h
    unfold staleStepF at h
    split at h
    · cases h
    · simp only at h
      cases hreg : P.reg k with
      | none =>
        rw [hreg] at h
        obtain ⟨p, hp, hpe⟩ := List.mem_map.mp (safeMax_mem h)
        obtain ⟨q, hq, hr, hm⟩ := ih p (hP.predsLt k p hp) a hpe
        exact ⟨q, Reach.step hq hp, hr, hm⟩
      | some s =>
        rw [hreg] at h
        cases hm : w.mtime k with
        | none => rw [hm] at h; cases h
        | some mt =>
          rw [hm] at h
          simp only at h
          split at h
          · cases h
          · simp at h; subst h; exact ⟨k, Reach.refl k, ⟨s, hreg⟩, hm⟩

/-- An up-to-date node carries a time that dominates the modified time of every registered node upstream. -/
theorem tm_dominates {P : LPlan} (hP : P.WF) (w : World) (F : Option Int) :
    ∀ x, isStale P w F x = false → ∀ q a, Reach P q x → (∃ s, P.reg q = some s) → w.mtime q = some a →
      ∃ b, (sres P w F x).tm = some b ∧ a ≤ b := by
  intro x
  induction x using Nat.strongRecOn with
  | ind x ih =>
    intro hns q a hq hreg hm
    have hpreds : ∀ p ∈ P.preds x, isStale P w F p = false := by
      intro p hp
      cases h : isStale P w F p with
      | false => rfl
      | true => rw [stale_of_pred_stale w F hP hp h] at hns; cases hns
    have hany : (P.preds x).any (fun p => (sres P w F p).stale) = false := by
      apply List.any_eq_false.mpr
      intro p hp; have := hpreds p hp; unfold isStale at this; simp [this]
    have hrec := sres_eq hP w F x
    unfold staleStepF at hrec
    simp only [hany, Bool.false_eq_true, if_false] at hrec
    unfold isStale at hns
    -- the ancestor time dominates a, when q is a proper ancestor
    have hanc : q ≠ x → ∃ c, safeMax ((P.preds x).map (fun p => (sres P w F p).tm)) = some c ∧ a ≤ c := by
      intro hne
      obtain ⟨p, hp, hqp⟩ := hq.inv hne
      obtain ⟨b, hb, hab⟩ := ih p (hP.predsLt x p hp) (hpreds p hp) q a hqp hreg hm
      have hmem : some b ∈ (P.preds x).map (fun p => (sres P w F p).tm) := List.mem_map.mpr ⟨p, hp, hb⟩
      cases hs : safeMax ((P.preds x).map (fun p => (sres P w F p).tm)) with
      | none => have := safeMax_none_iff.mp hs _ hmem; cases this
      | some c => exact ⟨c, rfl, Int.le_trans hab (safeMax_ge hs hmem)⟩
    cases hregx : P.reg x with
    | none =>
      rw [hregx] at hrec
      have hne : q ≠ x := by intro h; subst h; rw [hregx] at hreg; obtain ⟨s, hs⟩ := hreg; cases hs
      obtain ⟨c, hc, hac⟩ := hanc hne
      exact ⟨c, by rw [hrec]; exact hc, hac⟩
    | some s =>
      rw [hregx] at hrec
      cases hmx : w.mtime x with
      | none => rw [hmx] at hrec; rw [hrec] at hns; cases hns
      | some mt =>
        rw [hmx] at hrec
        simp only at hrec
        cases hc : staleCond mt (safeMax ((P.preds x).map (fun p => (sres P w F p).tm))) F s with
        | true => rw [hc] at hrec; simp at hrec; rw [hrec] at hns; cases hns
        | false =>
          rw [hc] at hrec; simp at hrec
          refine ⟨mt, by rw [hrec], ?_⟩
          by_cases hne : q = x
          · subst hne; rw [hmx] at hm; cases hm; exact Int.le_refl _
          · obtain ⟨c, hcs, hac⟩ := hanc hne
            have : ¬ (mt < c) := by
              intro hlt
              have := (staleCond_iff mt _ F s).mpr ⟨Or.inl (by rw [hcs]; rfl), Or.inl ⟨c, hcs, hlt⟩⟩
              rw [hc] at this; cases this
            omega

/-- **The stale check decides exactly the declarative out-of-date relation.** -/
theorem stale_iff_outOfDate {P : LPlan} (hP : P.WF) (w : World) (F : Option Int) (j : Nat) :
    isStale P w F j = true ↔ OutOfDate P w F j := by
  constructor
  · -- every stale node has a cause upstream
    induction j using Nat.strongRecOn with
    | ind j ih =>
      intro hs
      by_cases hB : ∃ p ∈ P.preds j, isStale P w F p = true
      · obtain ⟨p, hp, hps⟩ := hB
        obtain ⟨k, hk, hc⟩ := ih p (hP.predsLt j p hp) hps
        exact ⟨k, Reach.step hk hp, hc⟩
      · have hany : (P.preds j).any (fun p => (sres P w F p).stale) = false := by
          apply List.any_eq_false.mpr
          intro p hp
          cases h : isStale P w F p with
          | false => unfold isStale at h; simp [h]
          | true => exact absurd ⟨p, hp, h⟩ hB
        have hrec := sres_eq hP w F j
        unfold staleStepF at hrec
        simp only [hany, Bool.false_eq_true, if_false] at hrec
        unfold isStale at hs
        cases hreg : P.reg j with
        | none => rw [hreg] at hrec; rw [hrec] at hs; cases hs
        | some s =>
          rw [hreg] at hrec
          refine ⟨j, Reach.refl j, s, hreg, ?_⟩
          cases hm : w.mtime j with
          | none => left; rfl
          | some mt =>
            right
            refine ⟨mt, rfl, ?_⟩
            rw [hm] at hrec
            simp only at hrec
            cases hc : staleCond mt (safeMax ((P.preds j).map (fun p => (sres P w F p).tm))) F s with
            | false => rw [hc] at hrec; simp at hrec; rw [hrec] at hs; cases hs
            | true =>
              obtain ⟨h1, h2⟩ := (staleCond_iff _ _ _ _).mp hc
              -- a timed ancestor, whenever the ancestor time is present
              have hta : ∀ a, safeMax ((P.preds j).map (fun p => (sres P w F p).tm)) = some a →
                  ∃ q, TimedAncestor P w j q a := by
                intro a ha
                obtain ⟨p, hp, hpe⟩ := List.mem_map.mp (safeMax_mem ha)
                obtain ⟨q, hq, hr, hmq⟩ := tm_source hP w F p a hpe
                refine ⟨q, ?_, Reach.step hq hp, hr, hmq⟩
                have := hq.le hP; have := hP.predsLt j p hp; omega
              rcases h2 with ⟨a, ha, hlt⟩ | ⟨f, hf, hlt⟩
              · left
                obtain ⟨q, hq⟩ := hta a ha
                exact ⟨q, a, hq, hlt⟩
              · right
                refine ⟨f, hf, hlt, ?_⟩
                rcases h1 with h1 | h1
                · right
                  cases ha : safeMax ((P.preds j).map (fun p => (sres P w F p).tm)) with
                  | none => rw [ha] at h1; cases h1
                  | some a => obtain ⟨q, hq⟩ := hta a ha; exact ⟨q, a, hq⟩
                · left; exact h1
  · -- a cause makes its node stale, and staleness propagates downstream
    rintro ⟨k, hk, s, hreg, hcause⟩
    apply stale_reach hP w F _ hk
    cases hs : isStale P w F k with
    | true => rfl
    | false =>
      exfalso
      have hpreds : ∀ p ∈ P.preds k, isStale P w F p = false := by
        intro p hp
        cases h : isStale P w F p with
        | false => rfl
        | true => rw [stale_of_pred_stale w F hP hp h] at hs; cases hs
      have hany : (P.preds k).any (fun p => (sres P w F p).stale) = false := by
        apply List.any_eq_false.mpr
        intro p hp; have := hpreds p hp; unfold isStale at this; simp [this]
      have hrec := sres_eq hP w F k
      unfold staleStepF at hrec
      simp only [hany, Bool.false_eq_true, if_false, hreg] at hrec
      unfold isStale at hs
      -- a timed ancestor shows up in the ancestor time
      have hta : ∀ q a, TimedAncestor P w k q a →
          ∃ c, safeMax ((P.preds k).map (fun p => (sres P w F p).tm)) = some c ∧ a ≤ c := by
        rintro q a ⟨hne, hq, hr, hm⟩
        obtain ⟨p, hp, hqp⟩ := hq.inv hne
        obtain ⟨b, hb, hab⟩ := tm_dominates hP w F p (hpreds p hp) q a hqp hr hm
        have hmem : some b ∈ (P.preds k).map (fun p => (sres P w F p).tm) := List.mem_map.mpr ⟨p, hp, hb⟩
        cases hsm : safeMax ((P.preds k).map (fun p => (sres P w F p).tm)) with
        | none => have := safeMax_none_iff.mp hsm _ hmem; cases this
        | some c => exact ⟨c, rfl, Int.le_trans hab (safeMax_ge hsm hmem)⟩
      rcases hcause with hmiss | ⟨mt, hm, hc⟩
      · rw [hmiss] at hrec; rw [hrec] at hs; cases hs
      · rw [hm] at hrec
        simp only at hrec
        have hst : staleCond mt (safeMax ((P.preds k).map (fun p => (sres P w F p).tm))) F s = true := by
          apply (staleCond_iff _ _ _ _).mpr
          rcases hc with ⟨q, a, hq, hlt⟩ | ⟨f, hf, hlt, hex⟩
          · obtain ⟨c, hcs, hac⟩ := hta q a hq
            exact ⟨Or.inl (by rw [hcs]; rfl), Or.inl ⟨c, hcs, by omega⟩⟩
          · refine ⟨?_, Or.inr ⟨f, hf, hlt⟩⟩
            rcases hex with h1 | ⟨q, a, hq⟩
            · right; exact h1
            · obtain ⟨c, hcs, _⟩ := hta q a hq
              left; rw [hcs]; rfl
        rw [hst] at hrec; simp at hrec; rw [hrec] at hs; cases hs

end Uberjob.Cache
