import UberjobModel.Lemmas.Heap
/-! `Plan.copy` / `Registry.copy`: mutating the original afterwards does not show through the copy. -/
namespace Uberjob.Heap

/-- where the effects of a tame mutation through the plan `p` (plan object `.plan g sc`) land -/
structure Where (w : Who) (t : T) (p g : Nat) (r : T × List Eff) : Prop where
  effs : ∀ e ∈ r.2, (e.1 = p ∧ ∃ s, e.2 = .plan g s) ∨ (e.1 = g ∧ ∀ g' s', e.2 ≠ .plan g' s') ∨
           (t.last = some e.1 ∧ ∀ g' s', e.2 ≠ .plan g' s') ∨ (e.1 = w.addr t.nxt ∧ ∀ g' s', e.2 ≠ .plan g' s')
  nxt  : r.1.nxt = t.nxt ∨ r.1.nxt = t.nxt + 1
  last : r.1.last = t.last ∨ r.1.last = some (w.addr t.nxt)
  cur  : r.1.cur = t.cur
  tmp  : r.1.tmp = t.tmp

theorem mutV_where {w : Who} {t : T} {p g : Nat} {sc : List Atom} {go lo : Option Obj} {m : Mut}
    (hm : m.tame = true) : Where w t p g (mutV w t (some p) (some (.plan g sc)) go lo m) := by
  have triv : Where w t p g (t, []) := ⟨by simp, .inl rfl, .inl rfl, rfl, rfl⟩
  unfold mutV
  simp only
  cases m
  case scopeOf n kd s => simp [Mut.tame] at hm
  case setPlanScope s =>
    exact ⟨fun e he => by simp only [List.mem_singleton] at he; subst he; exact .inl ⟨rfl, s, rfl⟩,
      .inl rfl, .inl rfl, rfl, rfl⟩
  case scopeOfLast s =>
    simp only
    split
    · next a hla =>
      split
      · exact ⟨fun e he => by
          simp only [List.mem_singleton] at he; subst he
          exact .inr (.inr (.inl ⟨hla, fun g' s' hh => by cases hh⟩)), .inl rfl, .inl rfl, rfl, rfl⟩
      · exact triv
    · exact triv
  case newNode kd =>
    simp only
    split
    · refine ⟨fun e he => ?_, .inr rfl, .inr rfl, rfl, rfl⟩
      simp only [List.mem_cons, List.mem_nil_iff, or_false] at he
      rcases he with rfl | rfl
      · exact .inr (.inr (.inr ⟨rfl, fun g' s' hh => by cases hh⟩))
      · exact .inr (.inl ⟨rfl, fun g' s' hh => by cases hh⟩)
    · exact triv
  all_goals
    simp only
    split
    · exact ⟨fun e he => by
        simp only [List.mem_singleton] at he; subst he
        exact .inr (.inl ⟨rfl, fun g' s' hh => by cases hh⟩), .inl rfl, .inl rfl, rfl, rfl⟩
    · exact triv

/-- the caller's plan with well-typed rows: the node table lists node objects -/
structure Typed (h : Heap) (b p : Nat) : Prop where
  below : Below h b p
  nodes : ∀ g sc ns es ga, h p = some (.plan g sc) → h g = some (.graph ns es ga) →
            ∀ e ∈ ns, ∃ kd s, h e.1 = some (.node kd s)

/-- invariant while the ORIGINAL plan `p` (graph `gp`) is mutated after a copy was forked off -/
structure K (w : Who) (b p gp : Nat) (h1 : Heap) (t : T) (h : Heap) : Prop where
  cur  : t.cur = p
  nxt  : 2 ≤ t.nxt
  last : ∀ a, t.last = some a → ∃ k, 2 ≤ k ∧ a = w.addr k
  plan : ∃ s, h p = some (.plan gp s)
  frz  : ∀ x, (x = w.addr 0 ∨ x = w.addr 1 ∨ (x < b ∧ x ≠ p ∧ x ≠ gp)) → h x = h1 x

theorem K_step {w : Who} {p gp : Nat} {h1 : Heap} (hpb : p < w.base) (hgb : gp < w.base) (hne : p ≠ gp)
    {s : T × Heap} (hk : K w w.base p gp h1 s.1 s.2) {m : Mut} (hm : m.tame = true) :
    K w w.base p gp h1 (step w s (.mut false m)).1 (step w s (.mut false m)).2 := by
  obtain ⟨sc, hp⟩ := hk.plan
  have hw := mutV_where (w := w) (t := s.1) (p := p) (g := gp) (sc := sc) (go := (view s.1 s.2).curG)
    (lo := (view s.1 s.2).lastO) hm
  have hv : stepV w s.1 (view s.1 s.2) (.mut false m) =
      mutV w s.1 (some p) (some (.plan gp sc)) (view s.1 s.2).curG (view s.1 s.2).lastO m := by
    simp [stepV, view, hk.cur, hp]
  simp only [step, hv]
  have hb0 : ∀ k, w.base ≤ w.addr k := fun k => by simp only [Who.addr]; omega
  have hmiss : ∀ x, (x = w.addr 0 ∨ x = w.addr 1 ∨ (x < w.base ∧ x ≠ p ∧ x ≠ gp)) → ∀ e ∈ (mutV w s.1 (some p)
      (some (.plan gp sc)) (view s.1 s.2).curG (view s.1 s.2).lastO m).2, e.1 ≠ x := by
    intro x hx e he hh
    have hxp : x ≠ p := by rcases hx with rfl | rfl | hx; · have := hb0 0; omega
                           · have := hb0 1; omega
                           · exact hx.2.1
    have hxg : x ≠ gp := by rcases hx with rfl | rfl | hx; · have := hb0 0; omega
                            · have := hb0 1; omega
                            · exact hx.2.2
    have hxk : ∀ k, 2 ≤ k → x ≠ w.addr k := by
      intro k hk2
      rcases hx with rfl | rfl | hx
      · simp [addr_inj]; omega
      · simp [addr_inj]; omega
      · have := hb0 k; omega
    rcases hw.effs e he with ⟨h1', _⟩ | ⟨h1', _⟩ | ⟨h1', _⟩ | ⟨h1', _⟩
    · exact hxp (hh ▸ h1')
    · exact hxg (hh ▸ h1')
    · obtain ⟨k, hk2, hk3⟩ := hk.last e.1 h1'
      exact hxk k hk2 (hh ▸ hk3)
    · exact hxk s.1.nxt hk.nxt (hh ▸ h1')
  refine ⟨by rw [hw.cur]; exact hk.cur, by rcases hw.nxt with h' | h' <;> rw [h'] <;> have := hk.nxt <;> omega, ?_, ?_, ?_⟩
  · intro a ha
    rcases hw.last with h' | h'
    · exact hk.last a (h' ▸ ha)
    · rw [h'] at ha; cases ha; exact ⟨s.1.nxt, hk.nxt, rfl⟩
  · rcases applyEffs_cases (mutV w s.1 (some p) (some (.plan gp sc)) (view s.1 s.2).curG (view s.1 s.2).lastO m).2
      s.2 p with h' | ⟨e, he, hep, hv'⟩
    · exact ⟨sc, by rw [h']; exact hp⟩
    · rcases hw.effs e he with ⟨_, s', hs'⟩ | ⟨h1', _⟩ | ⟨h1', _⟩ | ⟨h1', _⟩
      · exact ⟨s', by rw [hv', hs']⟩
      · exact absurd (hep ▸ h1') hne
      · obtain ⟨k, _, hk3⟩ := hk.last e.1 h1'
        have := hb0 k; omega
      · have := hb0 s.1.nxt; omega
  · intro x hx
    rw [applyEffs_frame (hmiss x hx)]
    exact hk.frz x hx

theorem K_exec {w : Who} {p gp : Nat} {h1 : Heap} (hpb : p < w.base) (hgb : gp < w.base) (hne : p ≠ gp)
    (ms : List Mut) (hm : ∀ m ∈ ms, m.tame = true) {s : T × Heap} (hk : K w w.base p gp h1 s.1 s.2) :
    K w w.base p gp h1 (exec w s (ms.map (.mut false ·))).1 (exec w s (ms.map (.mut false ·))).2 := by
  induction ms generalizing s with
  | nil => exact hk
  | cons m ms ih =>
    exact ih (fun m' hm' => hm m' (List.mem_cons_of_mem _ hm')) (K_step hpb hgb hne hk (hm m (by simp)))

theorem snapPlan_same {h1 h2 : Heap} {q : Nat} (hq : h2 q = h1 q)
    (hg : ∀ g sc, h1 q = some (.plan g sc) → h2 g = h1 g)
    (hn : ∀ g sc ns es ga, h1 q = some (.plan g sc) → h1 g = some (.graph ns es ga) → ∀ e ∈ ns, h2 e.1 = h1 e.1) :
    snapPlan h2 q = snapPlan h1 q := by
  unfold snapPlan
  rw [hq]
  cases hp : h1 q with
  | none => rfl
  | some o =>
    cases o with
    | plan g sc =>
      simp only
      rw [hg g sc hp]
      cases hgg : h1 g with
      | none => rfl
      | some o' =>
        cases o' with
        | graph ns es ga =>
          simp only
          have : List.map (fun e => (e.1, e.2, h2 e.1)) ns = List.map (fun e => (e.1, e.2, h1 e.1)) ns :=
            List.map_congr_left (fun e he => by rw [hn g sc ns es ga hp hgg e he])
          rw [this]
        | _ => rfl
    | _ => rfl

/-- **Mutating the original after `Plan.copy` does not show through the copy.**  `forkTmp false` copies the plan
    `p` into `tmp`; then any tame mutations are applied THROUGH `p` itself. -/
theorem copy_indep_original {w : Who} {h : Heap} {p : Nat} (hp : WFPlan h p) (ht : Typed h w.base p)
    (ms : List Mut) (hm : ∀ m ∈ ms, m.tame = true) :
    let s1 := step w (T.init p, h) (.forkTmp false)
    let s2 := exec w s1 (ms.map (.mut false ·))
    s1.1.tmp = some (w.addr 1) ∧ snapPlan s2.2 (w.addr 1) = snapPlan s1.2 (w.addr 1) ∧
      (snapPlan s1.2 (w.addr 1)).map (fun x => x.2) = (snapPlan h p).map (fun x => x.2) := by
  obtain ⟨gp, sc, hpp, ns, es, ga, hg⟩ := hp.isPlan
  have hb0 : ∀ k, w.base ≤ w.addr k := fun k => by simp only [Who.addr]; omega
  have hpb := ht.below.plan
  have hgb := ht.below.graph gp sc hpp
  have hne : p ≠ gp := by intro e; rw [e] at hpp; rw [hpp] at hg; cases hg
  have h01 : w.addr 0 ≠ w.addr 1 := by simp [addr_inj]
  have hs1 : step w (T.init p, h) (.forkTmp false) =
      ({ T.init p with nxt := 2, tmp := some (w.addr 1) },
       applyEffs h [(w.addr 0, .graph ns es ga), (w.addr 1, .plan (w.addr 0) [])]) := by
    simp [step, stepV, view, T.init, hpp, hg, graphOf, copyPlan]
  simp only [hs1]
  have hq1 : applyEffs h [(w.addr 0, .graph ns es ga), (w.addr 1, .plan (w.addr 0) [])] (w.addr 1) =
      some (.plan (w.addr 0) []) := by simp [applyEffs, upd]
  have hq0 : applyEffs h [(w.addr 0, .graph ns es ga), (w.addr 1, .plan (w.addr 0) [])] (w.addr 0) =
      some (.graph ns es ga) := by simp [applyEffs, upd, h01]
  have hold : ∀ x, x < w.base → applyEffs h [(w.addr 0, .graph ns es ga), (w.addr 1, .plan (w.addr 0) [])] x = h x := by
    intro x hx
    apply applyEffs_frame
    intro e he hh
    simp only [List.mem_cons, List.mem_nil_iff, or_false] at he
    rcases he with rfl | rfl
    · have := hb0 0; simp only at hh; omega
    · have := hb0 1; simp only at hh; omega
  have hk : K w w.base p gp (applyEffs h [(w.addr 0, .graph ns es ga), (w.addr 1, .plan (w.addr 0) [])])
      { T.init p with nxt := 2, tmp := some (w.addr 1) }
      (applyEffs h [(w.addr 0, .graph ns es ga), (w.addr 1, .plan (w.addr 0) [])]) :=
    ⟨rfl, Nat.le_refl _, by simp [T.init], ⟨sc, by rw [hold p hpb]; exact hpp⟩, fun _ _ => rfl⟩
  have hk2 := K_exec hpb hgb hne ms hm (s := (_, _)) hk
  refine ⟨trivial, ?_, ?_⟩
  · apply snapPlan_same
    · exact hk2.frz _ (.inr (.inl rfl))
    · intro g' sc' hh
      rw [hq1] at hh; cases hh
      exact hk2.frz _ (.inl rfl)
    · intro g' sc' ns' es' ga' hh hgg e he
      rw [hq1] at hh; cases hh
      rw [hq0] at hgg; cases hgg
      obtain ⟨kd, s', hnode⟩ := ht.nodes gp sc ns es ga hpp hg e he
      apply hk2.frz
      refine .inr (.inr ⟨ht.below.nodes gp sc ns es ga hpp hg e he, ?_, ?_⟩)
      · intro e'; rw [e'] at hnode; rw [hnode] at hpp; cases hpp
      · intro e'; rw [e'] at hnode; rw [hnode] at hg; cases hg
  · simp only [snapPlan, hq1, hq0, hpp, hg, Option.map_some]
    have : List.map (fun e => (e.1, e.2, applyEffs h [(w.addr 0, Obj.graph ns es ga),
        (w.addr 1, Obj.plan (w.addr 0) [])] e.1)) ns = List.map (fun e => (e.1, e.2, h e.1)) ns :=
      List.map_congr_left (fun e he => by rw [hold e.1 (ht.below.nodes gp sc ns es ga hpp hg e he)])
    rw [this]

end Uberjob.Heap
