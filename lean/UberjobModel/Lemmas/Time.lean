import UberjobModel.Model.Time
/-! Helper lemmas for C18: the conversion returns the denoted instant; the stale fold only sees converted values. -/
namespace Uberjob.Time
open Uberjob.Gen.TimeConv (Handling)

/-- With the `.convertLocal` handling the conversion of any datetime is the instant it denotes. -/
theorem conv_of_denotes {tz : TZ} (hl : tz.Lawful) {d : DT} {i : Int} (h : Denotes tz d i) :
    toNaiveUtc .convertLocal tz d = i := by
  cases d with
  | naive w f =>
    obtain ⟨hw, hf⟩ := h
    subst hw
    show tz.decode _ f = i
    cases hf with
    | inl hf => subst hf; exact hl.roundTrip i
    | inr hu => exact hl.foldIgnored i f hu
  | aware w off => exact h

theorem processNode_map {τ : Type} (cv : τ → Int) (fresh : Option Int) (done : List (Bool × Option Int))
    (n : Node τ) : processNode cv fresh done n = processNode id fresh done (n.map cv) := by
  cases n with
  | mk preds store =>
    cases store with
    | none => rfl
    | some p =>
      cases p with
      | mk s m => cases m <;> rfl

theorem staleGo_map {τ : Type} (cv : τ → Int) (fresh : Option Int) (nodes : List (Node τ)) :
    ∀ done, staleGo cv fresh done nodes = staleGo id fresh done (nodes.map (Node.map cv)) := by
  induction nodes with
  | nil => intro done; rfl
  | cons n rest ih =>
    intro done
    simp only [staleGo, List.map_cons, processNode_map cv fresh done n, ih]

/-- The fold depends on the datetimes only through their conversions. -/
theorem staleFold_map {τ : Type} (cv : τ → Int) (fresh : Option τ) (nodes : List (Node τ)) :
    staleFold cv fresh nodes = staleFold id (fresh.map cv) (nodes.map (Node.map cv)) := by
  simp only [staleFold, staleGo_map cv, Option.map_map, Function.id_comp]

theorem Node.map_congr {τ σ : Type} {f g : τ → σ} (n : Node τ)
    (h : ∀ t, n.store = some (true, some t) ∨ n.store = some (false, some t) → f t = g t) :
    n.map f = n.map g := by
  cases n with
  | mk preds store =>
    cases store with
    | none => rfl
    | some p =>
      cases p with
      | mk s m =>
        cases m with
        | none => rfl
        | some t =>
          have := h t (by cases s <;> simp)
          simp [Node.map, this]

theorem map_congr_occurring {τ σ : Type} {f g : τ → σ} (fresh : Option τ) (nodes : List (Node τ))
    (h : ∀ t ∈ occurring fresh nodes, f t = g t) :
    fresh.map f = fresh.map g ∧ nodes.map (Node.map f) = nodes.map (Node.map g) := by
  constructor
  · cases fresh with
    | none => rfl
    | some t => simp [h t (by simp [occurring])]
  · apply List.map_congr_left
    intro n hn
    apply Node.map_congr
    intro t ht
    apply h
    simp only [occurring, List.mem_append, List.mem_flatMap]
    refine Or.inr ⟨n, hn, ?_⟩
    rcases ht with ht | ht <;> simp [ht]

end Uberjob.Time
