import UberjobModel.Model.EngineFine
import UberjobModel.Lemmas.EnginePath
/-!
  The fine model (`Model/EngineFine.lean`: the `with remaining_pred_count_lock:` block as five interleavable steps)
  REFINES the coarse engine model: every reachable fine state stands for (`abs`) a reachable coarse state with the same
  queue, counters, workers and event history; the five steps of the block map to
  `stutter, stutter, stutter, release, stutter`.  Hence every safety theorem about `Engine.Reach` holds of `Reach2`.
-/
set_option linter.unusedSectionVars false
set_option linter.unusedSimpArgs false
namespace Uberjob.EngineFine
open Uberjob.Engine
open Uberjob.Gen.Engine

/-- The counter is positive before a locked decrement (extracted from the proof of `inv_release`). -/
theorem rem_pos {g : Graph} (hg : g.WF) {s : St} (hi : Inv g s) {w x y : Nat} {todo : List Nat}
    (hw : s.ws[w]? = some (.releasing x todo)) (hyt : y ∈ todo) (h2 : 2 ≤ g.predCount y) : 1 ≤ s.rem y := by
  have hmem : W.releasing x todo ∈ s.ws := List.mem_of_getElem? hw
  obtain ⟨_, _, htodo, _⟩ := hi.relsing x todo hmem
  obtain ⟨hys, hnr⟩ := htodo y hyt
  have hxp : x ∈ g.preds y := (hg.adj x y).mp hys
  have h3 := hi.remOk y h2
  rcases Nat.eq_zero_or_pos (s.rem y) with h0 | h0
  · exfalso
    have hall := rel_pigeon (ps := g.preds y) hi.relNodup
      (fun e he hey => by
        have := (hi.relOk e.1 e.2 (by simpa using he)).2
        rw [hey] at this; exact (hg.adj _ _).mp this)
      (by unfold Graph.predCount at h3; omega)
    exact hnr (hall x hxp)
  · exact h0

/-! ### frame lemmas of the coarse step function -/

/-- A label that is not the one-step handling of a multi-parent successor. -/
def Plain (g : Graph) : Label → Prop
  | .release _ y => classify (g.predCount y) = Kind.single
  | _ => True

/-- Such a step neither reads nor writes `remaining_pred_count_mapping`. -/
theorem step_rem_frame {g : Graph} {cfg : Cfg} {c : St} {l : Label} (hl : Plain g l) (r' : Nat → Nat) :
    step? g cfg { c with rem := r' } l = (step? g cfg c l).map (fun c' => { c' with rem := r' }) ∧
    ∀ c', step? g cfg c l = some c' → c'.rem = c.rem := by
  cases l <;> simp only [step?, setW]
  case release w y =>
    have hs : classify (g.predCount y) = Kind.single := hl
    constructor
    · split
      · split
        · simp [releasePut, releaseRem, hs, setW]
        · rfl
      · rfl
    · intro c' h
      split at h
      · split at h
        · cases h; simp [releaseRem, hs]
        · cases h
      · cases h
  all_goals
    constructor
    · repeat' split
      all_goals first | rfl | simp
    · intro c' h
      repeat' split at h
      all_goals first | (cases h; rfl) | cases h

/-- A step of another thread leaves a worker's control state alone. -/
theorem step_ws_frame {g : Graph} {cfg : Cfg} {c c' : St} {l : Label} (h : step? g cfg c l = some c') {w : Nat}
    (hw : labelWorker l ≠ some w) {st : W} (hst : c.ws[w]? = some st) : c'.ws[w]? = some st := by
  have hset : ∀ (w' : Nat) (v : W), w' ≠ w → (c.ws.set w' v)[w]? = some st := by
    intro w' v hne
    rw [List.getElem?_set_ne hne]; exact hst
  cases l <;> simp only [step?, setW] at h <;> simp only [labelWorker, ne_eq, Option.some.injEq] at hw
  case spawn =>
    repeat' split at h
    all_goals first | (cases h; simp only; rw [List.getElem?_append_left (by
      have := List.getElem?_eq_some_iff.mp hst; exact this.1)]; exact hst) | cases h
  all_goals
    repeat' split at h
    all_goals first
      | (cases h; exact hst)
      | (cases h; exact hset _ _ (fun hh => hw hh))
      | cases h

/-! ### the simulation -/

/-- What is known about the holder of `remaining_pred_count_lock`. -/
def FInv (g : Graph) (s : St2) : Prop :=
  match s.lock with
  | none => True
  | some r =>
    r.y ∈ r.todo ∧ classify (g.predCount r.y) ≠ Kind.single ∧
    s.c.ws[r.w]? = some (if r.stage = .done then .releasing r.x (r.todo.erase r.y) else .releasing r.x r.todo) ∧
    (∀ b, r.stage = .tested b → b = readyCond (s.c.rem r.y))

theorem abs_fields (s : St2) :
    (abs s).queue = s.c.queue ∧ (abs s).unfinished = s.c.unfinished ∧ (abs s).stop = s.c.stop ∧
    (abs s).errs = s.c.errs ∧ (abs s).first = s.c.first ∧ (abs s).ws = s.c.ws ∧ (abs s).coord = s.c.coord ∧
    (abs s).begun = s.c.begun ∧ (abs s).okd = s.c.okd ∧ (abs s).failed = s.c.failed ∧
    (abs s).skipped = s.c.skipped ∧ (abs s).retired = s.c.retired ∧ (abs s).rel = s.c.rel ∧ (abs s).enq = s.c.enq ∧
    (abs s).log = s.c.log := by
  unfold abs
  split
  · split <;> simp
  · simp

theorem bump_dec {rem : Nat → Nat} {y : Nat} (h : 1 ≤ rem y) :
    bump (fun z => if z = y then rem y - 1 else rem z) y = rem := by
  funext z
  unfold bump
  by_cases hz : z = y
  · subst hz; simp; omega
  · simp [hz]

/-- **One fine step is one coarse step or none** (and `FInv` is kept). -/
theorem sim {g : Graph} (hg : g.WF) {cfg : Cfg} {s s' : St2} {l : Label2}
    (hr : Reach g cfg (abs s)) (hf : FInv g s) (h : step2? g cfg s l = some s') :
    FInv g s' ∧ (abs s' = abs s ∨ ∃ l1, step? g cfg (abs s) l1 = some (abs s')) := by
  cases l with
  | acquire w y =>
    simp only [step2?] at h
    split at h
    · next x todo hl hw =>
      split at h
      · next hc =>
        cases h
        refine ⟨?_, Or.inl ?_⟩
        · simp only [FInv]
          exact ⟨hc.1, by simpa using hc.2, by simpa using hw, fun b hb => by cases hb⟩
        · simp [abs, hl]
      · cases h
    · cases h
  | dec w =>
    simp only [step2?] at h
    split at h
    · next r hl =>
      split at h
      · next hc =>
        cases h
        obtain ⟨rfl, hst⟩ := hc
        simp only [FInv, hl] at hf
        obtain ⟨hy, hns, hws, _⟩ := hf
        simp only [hst] at hws
        have habs : abs s = s.c := by simp [abs, hl, hst]
        have hi := inv_reach hg hr
        rw [habs] at hi
        have h2 : 2 ≤ g.predCount r.y := by
          have hmem : W.releasing r.x r.todo ∈ s.c.ws := List.mem_of_getElem? (by simpa using hws)
          obtain ⟨_, _, htodo, _⟩ := hi.relsing r.x r.todo hmem
          have hxp : r.x ∈ g.preds r.y := (hg.adj r.x r.y).mp (htodo r.y hy).1
          have h1 : 1 ≤ g.predCount r.y := by unfold Graph.predCount; exact List.length_pos_of_mem hxp
          have h3 : g.predCount r.y ≠ 1 := fun hh => hns ((classify_single_iff _).mpr hh)
          omega
        have hpos := rem_pos hg hi (by simpa using hws) hy h2
        refine ⟨?_, Or.inl ?_⟩
        · simp only [FInv]
          exact ⟨hy, hns, by simpa using hws, fun b hb => by cases hb⟩
        · rw [habs]
          simp only [abs]
          rw [bump_dec hpos]
      · cases h
    · cases h
  | test w =>
    simp only [step2?] at h
    split at h
    · next r hl =>
      split at h
      · next hc =>
        cases h
        obtain ⟨rfl, hst⟩ := hc
        simp only [FInv, hl] at hf
        obtain ⟨hy, hns, hws, _⟩ := hf
        simp only [hst] at hws
        refine ⟨?_, Or.inl ?_⟩
        · simp only [FInv]
          exact ⟨hy, hns, by simpa using hws, fun b hb => by cases hb; rfl⟩
        · simp [abs, hl, hst]
      · cases h
    · cases h
  | put w =>
    simp only [step2?] at h
    split at h
    · next r hl =>
      split at h
      · next b hst =>
        split at h
        · next hw =>
          cases h
          subst hw
          simp only [FInv, hl] at hf
          obtain ⟨hy, hns, hws, hb⟩ := hf
          simp only [hst] at hws
          have hb' := hb b hst
          have hws' : s.c.ws[r.w]? = some (W.releasing r.x r.todo) := by simpa using hws
          refine ⟨?_, Or.inr ⟨.release r.w r.y, ?_⟩⟩
          · simp only [FInv]
            refine ⟨hy, hns, ?_, fun b' hb'' => by cases hb''⟩
            simp only [setW, if_true]
            have hlt := (List.getElem?_eq_some_iff.mp hws').1
            simp [List.getElem?_set, hlt]
          · have habs : abs s = { s.c with rem := bump s.c.rem r.y } := by simp [abs, hl, hst]
            rw [habs]
            simp only [step?, hws', hy, if_true, abs, releasePut, releaseRem, hns, setW]
            have hrem : (fun z => if z = r.y then bump s.c.rem r.y r.y - 1 else bump s.c.rem r.y z) = s.c.rem := by
              funext z
              unfold bump
              by_cases hz : z = r.y
              · subst hz; simp
              · simp [hz]
            have hready : readyCond (if r.y = r.y then bump s.c.rem r.y r.y - 1 else bump s.c.rem r.y r.y) = b := by
              simp [bump, hb']
            have hr2 : readyCond (bump s.c.rem r.y r.y - 1) = b := by simp [bump, hb']
            simp [hrem, hr2, hns]
        · cases h
      all_goals cases h
    · cases h
  | unlock w =>
    simp only [step2?] at h
    split at h
    · next r hl =>
      split at h
      · next hc =>
        cases h
        exact ⟨by simp [FInv], Or.inl (by simp [abs, hl, hc.2])⟩
      · cases h
    · cases h
  | base l =>
    simp only [step2?] at h
    by_cases hguard : blocked s l = true
    · simp [hguard] at h
    · simp only [hguard, Bool.false_eq_true, if_false] at h
      -- the coarse step on the actual state, a plain label
      have key : ∃ c', step? g cfg s.c l = some c' ∧ s' = { s with c := c' } ∧ Plain g l := by
        cases l
        case release w y =>
          simp only at h
          split at h
          · next hsingle =>
            cases hc : step? g cfg s.c (.release w y) with
            | none => rw [hc] at h; cases h
            | some c' => rw [hc] at h; cases h; exact ⟨c', rfl, rfl, by simpa [Plain] using hsingle⟩
          · cases h
        all_goals
          simp only at h
          cases hc : step? g cfg s.c _ with
          | none => rw [hc] at h; cases h
          | some c' => rw [hc] at h; cases h; exact ⟨c', rfl, rfl, trivial⟩
      obtain ⟨c', hc, rfl, hplain⟩ := key
      have hrem := (step_rem_frame (g := g) (cfg := cfg) (c := s.c) hplain (fun z => z)).2 c' hc
      refine ⟨?_, Or.inr ⟨l, ?_⟩⟩
      · -- FInv: the holder's control state and the counter are untouched
        cases hl : s.lock with
        | none => simp [FInv, hl]
        | some r =>
          simp only [FInv, hl] at hf ⊢
          obtain ⟨hy, hns, hws, hb⟩ := hf
          have hne : labelWorker l ≠ some r.w := by
            intro hh
            apply hguard
            simp [blocked, hh, holds, hl]
          exact ⟨hy, hns, step_ws_frame hc hne hws, fun b hb' => by rw [hrem]; exact hb b hb'⟩
      · -- abs commutes with the step
        cases hl : s.lock with
        | none => simp [abs, hl, hc]
        | some r =>
          cases hst : r.stage with
          | acquired => simp [abs, hl, hst, hc]
          | done => simp [abs, hl, hst, hc]
          | decremented =>
            simp only [abs, hl, hst]
            rw [(step_rem_frame hplain (bump s.c.rem r.y)).1, hc, hrem]; rfl
          | tested b =>
            simp only [abs, hl, hst]
            rw [(step_rem_frame hplain (bump s.c.rem r.y)).1, hc, hrem]; rfl

/-- **Refinement**: every reachable state of the fine model stands for a reachable state of the coarse model. -/
theorem refine_reach {g : Graph} (hg : g.WF) {cfg : Cfg} {s : St2} (h : Reach2 g cfg s) :
    Reach g cfg (abs s) ∧ FInv g s := by
  induction h with
  | init => exact ⟨by simpa [abs, init2] using Reach.init, by simp [FInv, init2]⟩
  | step l _ hs ih =>
    obtain ⟨hf, hstep⟩ := sim hg ih.1 ih.2 hs
    refine ⟨?_, hf⟩
    rcases hstep with heq | ⟨l1, hl1⟩
    · rw [heq]; exact ih.1
    · exact Reach.step l1 ih.1 hl1

/-- The locked decrement never underflows: whenever the lock holder is about to decrement, the counter is positive. -/
theorem dec_positive {g : Graph} (hg : g.WF) {cfg : Cfg} {s : St2} (h : Reach2 g cfg s) {r : Region}
    (hl : s.lock = some r) (hst : r.stage = .acquired) : 1 ≤ s.c.rem r.y := by
  obtain ⟨hr, hf⟩ := refine_reach hg h
  simp only [FInv, hl] at hf
  obtain ⟨hy, hns, hws, _⟩ := hf
  simp only [hst] at hws
  have habs : abs s = s.c := by simp [abs, hl, hst]
  have hi := inv_reach hg hr
  rw [habs] at hi
  have hws' : s.c.ws[r.w]? = some (W.releasing r.x r.todo) := by simpa using hws
  have hmem : W.releasing r.x r.todo ∈ s.c.ws := List.mem_of_getElem? hws'
  obtain ⟨_, _, htodo, _⟩ := hi.relsing r.x r.todo hmem
  have hxp : r.x ∈ g.preds r.y := (hg.adj r.x r.y).mp (htodo r.y hy).1
  have h1 : 1 ≤ g.predCount r.y := by unfold Graph.predCount; exact List.length_pos_of_mem hxp
  have h3 : g.predCount r.y ≠ 1 := fun hh => hns ((classify_single_iff _).mpr hh)
  exact rem_pos hg hi hws' hy (by omega)

end Uberjob.EngineFine
