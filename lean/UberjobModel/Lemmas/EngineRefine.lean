import UberjobModel.Model.EngineFine
import UberjobModel.Lemmas.EnginePath
/-!
  The fine model (`Model/EngineFine.lean`: the `with remaining_pred_count_lock:` block as five interleavable steps)
  REFINES the coarse engine model: every reachable fine state stands for (`abs`) a reachable coarse state with the same
  queue, counters, workers and event history; the five steps of the block map to
  `stutter, stutter, stutter, release, stutter`.  Hence every safety theorem about `Engine.Reach` holds of `Reach2`.
-/
set_option linter.unusedSectionVars false
set_option linter.unusedSimpArgs false
namespace Uberjob.EngineFine
open Uberjob.Engine
open Uberjob.Gen.Engine

/-- The counter is positive before a locked decrement (extracted from the proof of `inv_release`). -/
theorem rem_pos {g : Graph} (hg : g.WF) {s : St} (hi : Inv g s) {w x y : Nat} {todo : List Nat}
    (hw : s.ws[w]? = some (.releasing x todo)) (hyt : y ∈ todo) (h2 : 2 ≤ g.predCount y) : 1 ≤ s.rem y := by
  have hmem : W.releasing x todo ∈ s.ws := List.mem_of_getElem? hw
  obtain ⟨_, _, htodo, _⟩ := hi.relsing x todo hmem
  obtain ⟨hys, hnr⟩ := htodo y hyt
  have hxp : x ∈ g.preds y := (hg.adj x y).mp hys
  have h3 := hi.remOk y h2
  rcases Nat.eq_zero_or_pos (s.rem y) with h0 | h0
  · exfalso
    have hall := rel_pigeon (ps := g.preds y) hi.relNodup
      (fun e he hey => by
        have := (hi.relOk e.1 e.2 (by simpa using he)).2
        rw [hey] at this; exact (hg.adj _ _).mp this)
      (by unfold Graph.predCount at h3; omega)
    exact hnr (hall x hxp)
  · exact h0

/-! ### frame lemmas of the coarse step function -/

/-- A label that is not the one-step handling of a multi-parent successor. -/
def Plain (g : Graph) : Label → Prop
  | .release _ y => classify (g.predCount y) = Kind.single
  | _ => True

/-- Such a step neither reads nor writes `remaining_pred_count_mapping`. -/
theorem step_rem_frame {g : Graph} {cfg : Cfg} {c : St} {l : Label} (hl : Plain g l) (r' : Nat → Nat) :
    step? g cfg { c with rem := r' } l = (step? g cfg c l).map (fun c' => { c' with rem := r' }) ∧
    ∀ c', step? g cfg c l = some c' → c'.rem = c.rem := by
  cases l <;> simp only [step?, setW]
  case release w y =>
    have hs : classify (g.predCount y) = Kind.single := hl
    constructor
    · split
      · split
        · simp [releasePut, releaseRem, hs, setW]
        · rfl
      · rfl
    · intro c' h
      split at h
      · split at h
        · cases h; simp [releaseRem, hs]
        · cases h
      · cases h
  all_goals
    constructor
    · repeat' split
      all_goals first | rfl | simp
    · intro c' h
      repeat' split at h
      all_goals first | (cases h; rfl) | cases h

/-- A step of another thread leaves a worker's control state alone. -/
theorem step_ws_frame {g : Graph} {cfg : Cfg} {c c' : St} {l : Label} (h : step? g cfg c l = some c') {w : Nat}
    (hw : labelWorker l ≠ some w) {st : W} (hst : c.ws[w]? = some st) : c'.ws[w]? = some st := by
  have hset : ∀ (w' : Nat) (v : W), w' ≠ w → (c.ws.set w' v)[w]? = some st := by
    intro w' v hne
    rw [List.getElem?_set_ne hne]; exact hst
  cases l <;> simp only [step?, setW] at h <;> simp only [labelWorker, ne_eq, Option.some.injEq] at hw
  case spawn =>
    repeat' split at h
    all_goals first | (cases h; simp only; rw [List.getElem?_append_left (by
      have := List.getElem?_eq_some_iff.mp hst; exact this.1)]; exact hst) | cases h
  all_goals
    repeat' split at h
    all_goals first
      | (cases h; exact hst)
      | (cases h; exact hset _ _ (fun hh => hw hh))
      | cases h

/-- A label other than the one-step failure bookkeeping. -/
def NoFail : Label → Prop
  | .finFail _ => False
  | _ => True

/-- Such a step neither reads nor writes `error_count` and `first_node_error`. -/
theorem step_err_frame {g : Graph} {cfg : Cfg} {c : St} {l : Label} (hl : NoFail l) (e' : Nat) (f' : Option Nat) :
    step? g cfg { c with errs := e', first := f' } l = (step? g cfg c l).map (fun c' => { c' with errs := e', first := f' }) ∧
    ∀ c', step? g cfg c l = some c' → c'.errs = c.errs ∧ c'.first = c.first := by
  cases l <;> simp only [step?, setW, releasePut, releaseRem]
  case finFail w => exact absurd hl (by simp [NoFail])
  all_goals
    constructor
    · repeat' split
      all_goals first | rfl | simp
    · intro c' h
      repeat' split at h
      all_goals first | (cases h; exact ⟨rfl, rfl⟩) | cases h

/-! ### the simulation -/

/-- `absR` commutes with every step that is not the one-step handling of a multi-parent successor. -/
theorem step_absR {g : Graph} {cfg : Cfg} {c : St} {l : Label} (hl : Plain g l) (lk : Option Region) :
    step? g cfg (absR lk c) l = (step? g cfg c l).map (absR lk) := by
  have key : ∀ y, step? g cfg { c with rem := bump c.rem y } l =
      (step? g cfg c l).map (fun c' => { c' with rem := bump c'.rem y }) := by
    intro y
    rw [(step_rem_frame hl (bump c.rem y)).1]
    cases hc : step? g cfg c l with
    | none => rfl
    | some c' => simp only [Option.map_some]; rw [(step_rem_frame (g := g) (cfg := cfg) hl (fun z => z)).2 c' hc]
  unfold absR
  split
  · next r =>
    split
    · simpa using key r.y
    · simpa using key r.y
    · simp
  · simp

/-- `absF` commutes with every step that is not the one-step failure bookkeeping. -/
theorem step_absF {g : Graph} {cfg : Cfg} {c : St} {l : Label} (hl : NoFail l) (fl : Option FRegion) :
    step? g cfg (absF fl c) l = (step? g cfg c l).map (absF fl) := by
  have key : ∀ f', step? g cfg { c with errs := c.errs - 1, first := f' } l =
      (step? g cfg c l).map (fun c' => { c' with errs := c'.errs - 1, first := f' }) := by
    intro f'
    rw [(step_err_frame hl (c.errs - 1) f').1]
    cases hc : step? g cfg c l with
    | none => rfl
    | some c' => simp only [Option.map_some]; rw [((step_err_frame (g := g) (cfg := cfg) hl 0 none).2 c' hc).1]
  have key2 : step? g cfg { c with errs := c.errs - 1 } l =
      (step? g cfg c l).map (fun c' => { c' with errs := c'.errs - 1 }) := by
    have := key c.first
    cases hc : step? g cfg c l with
    | none => rw [hc] at this; simpa using this
    | some c' =>
      rw [hc] at this
      have hf := ((step_err_frame (g := g) (cfg := cfg) hl 0 none).2 c' hc).2
      simp only [Option.map_some] at this ⊢
      have e1 : ({ c with errs := c.errs - 1 } : St) = { c with errs := c.errs - 1, first := c.first } := rfl
      rw [e1, this, ← hf]
  unfold absF
  split
  · next r =>
    split
    · simpa using key2
    · simpa using key r.oldFirst
    · simp
  · simp

theorem absF_absR_comm (fl : Option FRegion) (lk : Option Region) (c : St) : absF fl (absR lk c) = absR lk (absF fl c) := by
  unfold absF absR
  split
  · split
    all_goals (split <;> try split) <;> rfl
  · rfl

/-- What is known about the holders of the two locks. -/
def FInv (g : Graph) (s : St2) : Prop :=
  (match s.lock with
   | none => True
   | some r =>
     r.y ∈ r.todo ∧ classify (g.predCount r.y) ≠ Kind.single ∧
     s.c.ws[r.w]? = some (if r.stage = .done then .releasing r.x (r.todo.erase r.y) else .releasing r.x r.todo) ∧
     (∀ b, r.stage = .tested b → b = readyCond (s.c.rem r.y))) ∧
  (match s.flock with
   | none => True
   | some r =>
     s.c.ws[r.w]? = some (if r.stage = .done then .finishing false else .running r.x) ∧
     (r.stage = .acquired → s.c.first = r.oldFirst) ∧
     (r.stage = .counted → s.c.first = r.oldFirst ∧ 1 ≤ s.c.errs) ∧
     (r.stage = .firstSet → s.c.first = (match r.oldFirst with | some f => some f | none => some r.x) ∧ 1 ≤ s.c.errs))

theorem absR_fields (lk : Option Region) (c : St) :
    (absR lk c).queue = c.queue ∧ (absR lk c).unfinished = c.unfinished ∧ (absR lk c).stop = c.stop ∧
    (absR lk c).errs = c.errs ∧ (absR lk c).first = c.first ∧ (absR lk c).ws = c.ws ∧ (absR lk c).coord = c.coord ∧
    (absR lk c).begun = c.begun ∧ (absR lk c).okd = c.okd ∧ (absR lk c).failed = c.failed ∧
    (absR lk c).skipped = c.skipped ∧ (absR lk c).retired = c.retired ∧ (absR lk c).rel = c.rel ∧
    (absR lk c).enq = c.enq ∧ (absR lk c).log = c.log := by
  unfold absR
  split
  · split <;> simp
  · simp

theorem absF_fields (fl : Option FRegion) (c : St) :
    (absF fl c).queue = c.queue ∧ (absF fl c).unfinished = c.unfinished ∧ (absF fl c).stop = c.stop ∧
    (absF fl c).rem = c.rem ∧ (absF fl c).ws = c.ws ∧ (absF fl c).coord = c.coord ∧
    (absF fl c).begun = c.begun ∧ (absF fl c).okd = c.okd ∧ (absF fl c).failed = c.failed ∧
    (absF fl c).skipped = c.skipped ∧ (absF fl c).retired = c.retired ∧ (absF fl c).rel = c.rel ∧
    (absF fl c).enq = c.enq ∧ (absF fl c).log = c.log := by
  unfold absF
  split
  · split <;> simp
  · simp

/-- The abstraction keeps the queue, the workers, the stop flag and the whole event history. -/
theorem abs_fields (s : St2) :
    (abs s).queue = s.c.queue ∧ (abs s).unfinished = s.c.unfinished ∧ (abs s).stop = s.c.stop ∧
    (abs s).ws = s.c.ws ∧ (abs s).coord = s.c.coord ∧
    (abs s).begun = s.c.begun ∧ (abs s).okd = s.c.okd ∧ (abs s).failed = s.c.failed ∧
    (abs s).skipped = s.c.skipped ∧ (abs s).retired = s.c.retired ∧ (abs s).rel = s.c.rel ∧ (abs s).enq = s.c.enq ∧
    (abs s).log = s.c.log := by
  obtain ⟨a1, a2, a3, a4, a5, a6, a7, a8, a9, a10, a11, a12, a13, a14⟩ := absF_fields s.flock (absR s.lock s.c)
  obtain ⟨b1, b2, b3, _, _, b6, b7, b8, b9, b10, b11, b12, b13, b14, b15⟩ := absR_fields s.lock s.c
  unfold abs
  exact ⟨a1.trans b1, a2.trans b2, a3.trans b3, a5.trans b6, a6.trans b7, a7.trans b8, a8.trans b9, a9.trans b10,
    a10.trans b11, a11.trans b12, a12.trans b13, a13.trans b14, a14.trans b15⟩

theorem bump_dec {rem : Nat → Nat} {y : Nat} (h : 1 ≤ rem y) :
    bump (fun z => if z = y then rem y - 1 else rem z) y = rem := by
  funext z
  unfold bump
  by_cases hz : z = y
  · subst hz; simp; omega
  · simp [hz]

theorem with_errs_self (a : St) (e : Nat) (h : a.errs = e) : { a with errs := e } = a := by
  cases a; simp_all

theorem ws_ne {ws : List W} {a b : Nat} {u v : W} (ha : ws[a]? = some u) (hb : ws[b]? = some v) (huv : u ≠ v) : a ≠ b := by
  intro hab; subst hab; rw [ha] at hb; exact huv (Option.some.inj hb)

theorem absR_with_errs (lk : Option Region) (c : St) (e : Nat) :
    absR lk { c with errs := e } = { absR lk c with errs := e } := by
  unfold absR; split
  · split <;> rfl
  · rfl

theorem absR_with_first (lk : Option Region) (c : St) (f : Option Nat) :
    absR lk { c with first := f } = { absR lk c with first := f } := by
  unfold absR; split
  · split <;> rfl
  · rfl

/-- The steps at which something becomes visible to the coarse model: every step outside the blocks, and the last shared
    write of each block. -/
def commits : Label2 → Bool
  | .base _ => true
  | .put _ => true
  | .fstop _ => true
  | _ => false

section
variable {g : Graph} {cfg : Cfg} {s s' : St2}

/-- the steps of the `remaining_pred_count_lock` block -/
theorem sim_counter (hg : g.WF) {l : Label2} (hr : Reach g cfg (abs s)) (hf : FInv g s)
    (hl : (∃ w y, l = .acquire w y) ∨ (∃ w, l = .dec w) ∨ (∃ w, l = .test w) ∨ (∃ w, l = .put w) ∨ (∃ w, l = .unlock w))
    (h : step2? g cfg s l = some s') :
    FInv g s' ∧ (if commits l then ∃ l1, step? g cfg (abs s) l1 = some (abs s') else abs s' = abs s) := by
  obtain ⟨hfR, hfF⟩ := hf
  rcases hl with ⟨w, y, rfl⟩ | ⟨w, rfl⟩ | ⟨w, rfl⟩ | ⟨w, rfl⟩ | ⟨w, rfl⟩
  · -- acquire
    simp only [step2?] at h
    split at h
    · next x todo hlk hw =>
      split at h
      · next hc =>
        cases h
        refine ⟨⟨?_, hfF⟩, ?_⟩
        · exact ⟨hc.1, by simpa using hc.2, by simpa using hw, fun b hb => by cases hb⟩
        · show abs _ = abs s
          simp [abs, absR, hlk]
      · cases h
    · cases h
  · -- dec
    simp only [step2?] at h
    split at h
    · next r hlk =>
      split at h
      · next hc =>
        cases h
        obtain ⟨rfl, hst⟩ := hc
        simp only [hlk] at hfR
        obtain ⟨hy, hns, hws, _⟩ := hfR
        simp only [hst] at hws
        have hws' : s.c.ws[r.w]? = some (W.releasing r.x r.todo) := by simpa using hws
        have hi := inv_reach hg hr
        obtain ⟨_, _, _, haws, _, _, _, _, _, _, harel, _, _⟩ := abs_fields s
        have harem : (abs s).rem = s.c.rem := by
          unfold abs
          rw [(absF_fields s.flock _).2.2.2.1]
          simp [absR, hlk, hst]
        have hmem : W.releasing r.x r.todo ∈ (abs s).ws := by rw [haws]; exact List.mem_of_getElem? hws'
        obtain ⟨_, _, htodo, _⟩ := hi.relsing r.x r.todo hmem
        have hxp : r.x ∈ g.preds r.y := (hg.adj r.x r.y).mp (htodo r.y hy).1
        have h1 : 1 ≤ g.predCount r.y := by unfold Graph.predCount; exact List.length_pos_of_mem hxp
        have h3 : g.predCount r.y ≠ 1 := fun hh => hns ((classify_single_iff _).mpr hh)
        have hpos : 1 ≤ s.c.rem r.y := by
          have := rem_pos hg hi (w := r.w) (by rw [haws]; exact hws') hy (by omega)
          rwa [harem] at this
        refine ⟨⟨?_, ?_⟩, ?_⟩
        · exact ⟨hy, hns, by simpa using hws, fun b hb => by cases hb⟩
        · exact hfF
        · show abs _ = abs s
          simp only [abs, absR, hlk, hst]
          rw [bump_dec hpos]
      · cases h
    · cases h
  · -- test
    simp only [step2?] at h
    split at h
    · next r hlk =>
      split at h
      · next hc =>
        cases h
        obtain ⟨rfl, hst⟩ := hc
        simp only [hlk] at hfR
        obtain ⟨hy, hns, hws, _⟩ := hfR
        simp only [hst] at hws
        refine ⟨⟨?_, hfF⟩, ?_⟩
        · exact ⟨hy, hns, by simpa using hws, fun b hb => by cases hb; rfl⟩
        · show abs _ = abs s
          simp [abs, absR, hlk, hst]
      · cases h
    · cases h
  · -- put: the block takes effect
    simp only [step2?] at h
    split at h
    · next r hlk =>
      split at h
      · next b hst =>
        split at h
        · next hw =>
          cases h
          subst hw
          simp only [hlk] at hfR
          obtain ⟨hy, hns, hws, hb⟩ := hfR
          simp only [hst] at hws
          have hb' := hb b hst
          have hws' : s.c.ws[r.w]? = some (W.releasing r.x r.todo) := by simpa using hws
          have hlt := (List.getElem?_eq_some_iff.mp hws').1
          refine ⟨⟨?_, ?_⟩, (show ∃ l1, step? g cfg (abs s) l1 = some (abs _) from ⟨.release r.w r.y, ?_⟩)⟩
          · refine ⟨hy, hns, ?_, fun b' hb'' => by cases hb''⟩
            simp only [setW, if_true]
            simp [List.getElem?_set, hlt]
          · -- the holder of the other lock is another worker
            cases hfl : s.flock with
            | none => simp
            | some fr =>
              simp only [hfl] at hfF ⊢
              obtain ⟨hfw, h1, h2, h3⟩ := hfF
              have hne : r.w ≠ fr.w := ws_ne hws' hfw (by split <;> simp)
              exact ⟨by simp only [setW]; rw [List.getElem?_set_ne hne]; exact hfw, h1, h2, h3⟩
          · unfold abs
            rw [step_absF (by simp [NoFail])]
            have hcore : step? g cfg (absR s.lock s.c) (.release r.w r.y) = some
                { setW s.c r.w (.releasing r.x (r.todo.erase r.y)) with
                    rel := s.c.rel ++ [(r.x, r.y)]
                    queue := if b then s.c.queue ++ [.node r.y] else s.c.queue
                    unfinished := if b then s.c.unfinished + 1 else s.c.unfinished
                    enq := if b then s.c.enq ++ [r.y] else s.c.enq } := by
              simp only [absR, hlk, hst, step?, hws', hy, if_true, releasePut, releaseRem, hns, setW]
              have hrem : (fun z => if z = r.y then bump s.c.rem r.y r.y - 1 else bump s.c.rem r.y z) = s.c.rem := by
                funext z
                unfold bump
                by_cases hz : z = r.y
                · subst hz; simp
                · simp [hz]
              have hr2 : readyCond (bump s.c.rem r.y r.y - 1) = b := by simp [bump, hb']
              simp [hrem, hr2, hns]
            rw [hcore]
            simp [absR]
        · cases h
      all_goals cases h
    · cases h
  · -- unlock
    simp only [step2?] at h
    split at h
    · next r hlk =>
      split at h
      · next hc =>
        cases h
        exact ⟨⟨by simp, hfF⟩, (show abs _ = abs s by simp [abs, absR, hlk, hc.2])⟩
      · cases h
    · cases h

/-- the steps of the `failure_lock` block -/
theorem sim_failure {l : Label2} (hf : FInv g s)
    (hl : (∃ w, l = .facquire w) ∨ (∃ w, l = .fcount w) ∨ (∃ w, l = .ffirst w) ∨ (∃ w, l = .fstop w) ∨ (∃ w, l = .funlock w))
    (h : step2? g cfg s l = some s') :
    FInv g s' ∧ (if commits l then ∃ l1, step? g cfg (abs s) l1 = some (abs s') else abs s' = abs s) := by
  obtain ⟨hfR, hfF⟩ := hf
  rcases hl with ⟨w, rfl⟩ | ⟨w, rfl⟩ | ⟨w, rfl⟩ | ⟨w, rfl⟩ | ⟨w, rfl⟩
  · -- facquire
    simp only [step2?] at h
    split at h
    · next x hfl hw =>
      cases h
      refine ⟨⟨hfR, ?_⟩, ?_⟩
      · exact ⟨by simpa using hw, fun _ => rfl, (fun hh => by cases hh), (fun hh => by cases hh)⟩
      · show abs _ = abs s
        simp [abs, absF, hfl]
    · cases h
  · -- fcount
    simp only [step2?] at h
    split at h
    · next r hfl =>
      split at h
      · next hc =>
        cases h
        obtain ⟨rfl, hst⟩ := hc
        simp only [hfl] at hfF
        obtain ⟨hfw, h1, _, _⟩ := hfF
        simp only [hst] at hfw
        refine ⟨⟨hfR, ?_⟩, ?_⟩
        · exact ⟨by simpa using hfw, (fun hh => by cases hh), fun _ => ⟨h1 hst, by simp⟩, (fun hh => by cases hh)⟩
        · show abs _ = abs s
          simp only [abs, absF, hfl, hst]
          rw [absR_with_errs]
          have := (absR_fields s.lock s.c).2.2.2.1
          simp only [this, Nat.add_sub_cancel]
          exact with_errs_self _ _ this
      · cases h
    · cases h
  · -- ffirst
    simp only [step2?] at h
    split at h
    · next r hfl =>
      split at h
      · next hc =>
        cases h
        obtain ⟨rfl, hst⟩ := hc
        simp only [hfl] at hfF
        obtain ⟨hfw, _, h2, _⟩ := hfF
        simp only [hst] at hfw
        obtain ⟨hfirst, hpos⟩ := h2 hst
        refine ⟨⟨hfR, ?_⟩, ?_⟩
        · exact ⟨by simpa using hfw, (fun hh => by cases hh), (fun hh => by cases hh),
            fun _ => ⟨by show (match s.c.first with | some f => some f | none => some r.x) = _; rw [hfirst], hpos⟩⟩
        · show abs _ = abs s
          simp only [abs, absF, hfl, hst]
          rw [absR_with_first]
          have := (absR_fields s.lock s.c).2.2.2.2.1
          simp [this, hfirst]
      · cases h
    · cases h
  · -- fstop: the block takes effect
    simp only [step2?] at h
    split at h
    · next r hfl =>
      split at h
      · next hc =>
        cases h
        obtain ⟨rfl, hst⟩ := hc
        simp only [hfl] at hfF
        obtain ⟨hfw, _, _, h3⟩ := hfF
        simp only [hst] at hfw
        obtain ⟨hfirst, hpos⟩ := h3 hst
        have hfw' : s.c.ws[r.w]? = some (W.running r.x) := by simpa using hfw
        have hlt := (List.getElem?_eq_some_iff.mp hfw').1
        refine ⟨⟨?_, ?_⟩, (show ∃ l1, step? g cfg (abs s) l1 = some (abs _) from ⟨.finFail r.w, ?_⟩)⟩
        · cases hlk : s.lock with
          | none => simp
          | some q =>
            simp only [hlk] at hfR ⊢
            obtain ⟨a1, a2, a3, a4⟩ := hfR
            have hne : r.w ≠ q.w := ws_ne hfw' a3 (by split <;> simp)
            exact ⟨a1, a2, by simp only [setW]; rw [List.getElem?_set_ne hne]; exact a3, a4⟩
        · refine ⟨?_, (fun hh => by cases hh), (fun hh => by cases hh), (fun hh => by cases hh)⟩
          simp only [setW, if_true]
          simp [List.getElem?_set, hlt]
        · unfold abs
          rw [absF_absR_comm, step_absR (by simp [Plain])]
          have hcore : step? g cfg (absF s.flock s.c) (.finFail r.w) = some
              { setW s.c r.w (.finishing false) with
                  stop := s.c.stop || stopCond s.c.errs cfg.maxErr
                  failed := s.c.failed ++ [r.x], retired := s.c.retired ++ [r.x]
                  log := s.c.log ++ [.fail r.x] } := by
            simp only [absF, hfl, hst, step?, hfw', setW]
            have he : s.c.errs - 1 + 1 = s.c.errs := by omega
            simp [he, hfirst]
            cases r.oldFirst <;> rfl
          rw [hcore]
          simp [absF]
      · cases h
    · cases h
  · -- funlock
    simp only [step2?] at h
    split at h
    · next r hfl =>
      split at h
      · next hc =>
        cases h
        exact ⟨⟨hfR, by simp⟩, (show abs _ = abs s by simp [abs, absF, hfl, hc.2])⟩
      · cases h
    · cases h

/-- a step of a thread that is in neither block -/
theorem sim_base {l : Label} (hf : FInv g s) (h : step2? g cfg s (.base l) = some s') :
    FInv g s' ∧ step? g cfg (abs s) l = some (abs s') := by
  obtain ⟨hfR, hfF⟩ := hf
  simp only [step2?] at h
  by_cases hguard : blocked s l = true
  · simp [hguard] at h
  · simp only [hguard, Bool.false_eq_true, if_false] at h
    have key : ∃ c', step? g cfg s.c l = some c' ∧ s' = { s with c := c' } ∧ Plain g l ∧ NoFail l := by
      cases l
      case release w y =>
        simp only at h
        split at h
        · next hsingle =>
          cases hc : step? g cfg s.c (.release w y) with
          | none => rw [hc] at h; cases h
          | some c' => rw [hc] at h; cases h; exact ⟨c', rfl, rfl, by simpa [Plain] using hsingle, trivial⟩
        · cases h
      case finFail w => simp only at h; cases h
      all_goals
        simp only at h
        cases hc : step? g cfg s.c _ with
        | none => rw [hc] at h; cases h
        | some c' => rw [hc] at h; cases h; exact ⟨c', rfl, rfl, trivial, trivial⟩
    obtain ⟨c', hc, rfl, hplain, hnofail⟩ := key
    have hrem := (step_rem_frame (g := g) (cfg := cfg) (c := s.c) hplain (fun z => z)).2 c' hc
    have herr := (step_err_frame (g := g) (cfg := cfg) (c := s.c) hnofail 0 none).2 c' hc
    refine ⟨⟨?_, ?_⟩, ?_⟩
    · cases hlk : s.lock with
      | none => simp
      | some r =>
        simp only [hlk] at hfR ⊢
        obtain ⟨hy, hns, hws, hb⟩ := hfR
        have hne : labelWorker l ≠ some r.w := by
          intro hh
          apply hguard
          simp [blocked, hh, holds, hlk]
        exact ⟨hy, hns, step_ws_frame hc hne hws, fun b hb' => by rw [hrem]; exact hb b hb'⟩
    · cases hfl : s.flock with
      | none => simp
      | some r =>
        simp only [hfl] at hfF ⊢
        obtain ⟨hfw, h1, h2, h3⟩ := hfF
        have hne : labelWorker l ≠ some r.w := by
          intro hh
          apply hguard
          simp [blocked, hh, holds, hfl]
        refine ⟨step_ws_frame hc hne hfw, ?_, ?_, ?_⟩
        · intro hh; rw [herr.2]; exact h1 hh
        · intro hh; rw [herr.1, herr.2]; exact h2 hh
        · intro hh; rw [herr.1, herr.2]; exact h3 hh
    · unfold abs
      rw [step_absF hnofail, step_absR hplain, hc]
      rfl

/-- **One fine step is one coarse step or none** (and `FInv` is kept). -/
theorem sim (hg : g.WF) {l : Label2} (hr : Reach g cfg (abs s)) (hf : FInv g s) (h : step2? g cfg s l = some s') :
    FInv g s' ∧ (if commits l then ∃ l1, step? g cfg (abs s) l1 = some (abs s') else abs s' = abs s) := by
  cases l with
  | base l => obtain ⟨a, b⟩ := sim_base hf h; exact ⟨a, (show ∃ l1, _ from ⟨l, b⟩)⟩
  | acquire w y => exact sim_counter hg hr hf (Or.inl ⟨w, y, rfl⟩) h
  | dec w => exact sim_counter hg hr hf (Or.inr (Or.inl ⟨w, rfl⟩)) h
  | test w => exact sim_counter hg hr hf (Or.inr (Or.inr (Or.inl ⟨w, rfl⟩))) h
  | put w => exact sim_counter hg hr hf (Or.inr (Or.inr (Or.inr (Or.inl ⟨w, rfl⟩)))) h
  | unlock w => exact sim_counter hg hr hf (Or.inr (Or.inr (Or.inr (Or.inr ⟨w, rfl⟩)))) h
  | facquire w => exact sim_failure hf (Or.inl ⟨w, rfl⟩) h
  | fcount w => exact sim_failure hf (Or.inr (Or.inl ⟨w, rfl⟩)) h
  | ffirst w => exact sim_failure hf (Or.inr (Or.inr (Or.inl ⟨w, rfl⟩))) h
  | fstop w => exact sim_failure hf (Or.inr (Or.inr (Or.inr (Or.inl ⟨w, rfl⟩)))) h
  | funlock w => exact sim_failure hf (Or.inr (Or.inr (Or.inr (Or.inr ⟨w, rfl⟩)))) h

end

/-- **Refinement**: every reachable state of the fine model stands for a reachable state of the coarse model. -/
theorem refine_reach {g : Graph} (hg : g.WF) {cfg : Cfg} {s : St2} (h : Reach2 g cfg s) :
    Reach g cfg (abs s) ∧ FInv g s := by
  induction h with
  | init => exact ⟨by simpa [abs, absF, absR, init2] using Reach.init, by simp [FInv, init2]⟩
  | step l _ hs ih =>
    obtain ⟨hf, hstep⟩ := sim hg ih.1 ih.2 hs
    refine ⟨?_, hf⟩
    split at hstep
    · obtain ⟨l1, hl1⟩ := hstep
      exact Reach.step l1 ih.1 hl1
    · rw [hstep]; exact ih.1

/-- The locked decrement never underflows: whenever the lock holder is about to decrement, the counter is positive. -/
theorem dec_positive {g : Graph} (hg : g.WF) {cfg : Cfg} {s : St2} (h : Reach2 g cfg s) {r : Region}
    (hl : s.lock = some r) (hst : r.stage = .acquired) : 1 ≤ s.c.rem r.y := by
  obtain ⟨hr, hfR, _⟩ := refine_reach hg h
  simp only [hl] at hfR
  obtain ⟨hy, hns, hws, _⟩ := hfR
  simp only [hst] at hws
  have hws' : s.c.ws[r.w]? = some (W.releasing r.x r.todo) := by simpa using hws
  have hi := inv_reach hg hr
  obtain ⟨_, _, _, haws, _⟩ := abs_fields s
  have harem : (abs s).rem = s.c.rem := by
    unfold abs
    rw [(absF_fields s.flock _).2.2.2.1]
    simp [absR, hl, hst]
  have hmem : W.releasing r.x r.todo ∈ (abs s).ws := by rw [haws]; exact List.mem_of_getElem? hws'
  obtain ⟨_, _, htodo, _⟩ := hi.relsing r.x r.todo hmem
  have hxp : r.x ∈ g.preds r.y := (hg.adj r.x r.y).mp (htodo r.y hy).1
  have h1 : 1 ≤ g.predCount r.y := by unfold Graph.predCount; exact List.length_pos_of_mem hxp
  have h3 : g.predCount r.y ≠ 1 := fun hh => hns ((classify_single_iff _).mpr hh)
  have := rem_pos hg hi (w := r.w) (by rw [haws]; exact hws') hy (by omega)
  rwa [harem] at this

end Uberjob.EngineFine
