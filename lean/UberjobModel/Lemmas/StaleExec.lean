import UberjobModel.Lemmas.ExecInv
/-!
  The stale check AS IT RUNS: `_get_stale_nodes` hands `process` to `run_function_on_graph` (scheduler "cheap",
  `stale_check_max_workers` threads), so the nodes of the logical plan are processed concurrently, each reading the
  `stale_lookup` / `modified_time_lookup` slots of its predecessors and writing its own.  `Cache.isStale` is the
  sequential dynamic-programming reading.  This file proves that EVERY schedule of the engine model computes it.
-/
set_option linter.unusedSectionVars false
set_option linter.unusedSimpArgs false
namespace Uberjob.StaleExec
open Uberjob.Cache

/-- The graph the stale check hands to the engine: the nodes `0 … n-1` of the logical plan with its edges. -/
def stGraph (L : LPlan) : Engine.Graph :=
  Engine.Graph.ofEdges (List.range L.n) ((List.range L.n).flatMap (fun j => (L.preds j).map (fun p => (p, j))))

structure SX where
  look    : Nat → Option SRes          -- (stale_lookup[k].value, modified_time_lookup[k].value) once `process(k)` returned
  queried : List Nat                   -- stores asked for their modified time, in order

def initSX : SX := ⟨fun _ => none, []⟩

/-- `process(k)` at its completion: `has_stale_ancestor` from the predecessors' slots, else `process_no_stale_ancestor`
    (which queries the store of a registered node). -/
def processNode (L : LPlan) (w : World) (F : Option Int) (x : SX) (k : Nat) : SX :=
  let r := fun p => (x.look p).getD ⟨false, none⟩
  { look := fun j => if j = k then some (staleStepF L w F r k) else x.look j
    queried := if (L.preds k).any (fun p => (r p).stale) = false ∧ (L.reg k).isSome then x.queried ++ [k] else x.queried }

def execOrder (L : LPlan) (w : World) (F : Option Int) (order : List Nat) : SX :=
  order.foldl (processNode L w F) initSX

theorem execOrder_snoc (L : LPlan) (w : World) (F : Option Int) (l : List Nat) (k : Nat) :
    execOrder L w F (l ++ [k]) = processNode L w F (execOrder L w F l) k := by
  simp [execOrder, List.foldl_append]

theorem stGraph_wf (L : LPlan) : (stGraph L).WF := Engine.ofEdges_wf _ _

theorem mem_stGraph_nodes {L : LPlan} {k : Nat} : k ∈ (stGraph L).nodes ↔ k < L.n := by
  simp [stGraph, Engine.Graph.ofEdges, Engine.mem_dedup]

theorem preds_stGraph {L : LPlan} (hL : L.WF) {p k : Nat} (hk : k < L.n) (hp : p ∈ L.preds k) :
    p ∈ (stGraph L).preds k := by
  have hpk := hL.predsLt k p hp
  simp only [stGraph, Engine.Graph.ofEdges, Engine.mem_dedup, List.mem_map, List.mem_filter, List.mem_flatMap,
    List.mem_range, List.contains_eq_mem, Bool.and_eq_true, decide_eq_true_eq, beq_iff_eq]
  exact ⟨(p, k), ⟨⟨⟨k, hk, p, hp, rfl⟩, by omega, hk⟩, rfl⟩, rfl⟩

structure SInv (L : LPlan) (w : World) (F : Option Int) (okd : List Nat) (x : SX) : Prop where
  done : ∀ k, k ∈ okd → x.look k = some (sres L w F k)
  notYet : ∀ k, k ∉ okd → x.look k = none
  asked : ∀ k, k ∈ x.queried ↔ k ∈ okd ∧ (L.reg k).isSome ∧ (L.preds k).any (fun p => isStale L w F p) = false
  once : x.queried.Nodup

/-- **Every schedule of the engine model computes the sequential stale check**: in every reachable state, every node
    whose `process` has completed holds exactly `sres` (stale flag and carried modified time), and a store has been asked
    for its modified time iff its node completed, is registered and has no out-of-date predecessor — once. -/
theorem sinv_reach {L : LPlan} (hL : L.WF) (w : World) (F : Option Int) {cfg : Engine.Cfg} {s : Engine.St}
    (h : Engine.Reach (stGraph L) cfg s) : SInv L w F s.okd (execOrder L w F s.okd) := by
  induction h with
  | init =>
    exact { done := fun _ hk => by cases hk
            notYet := fun _ _ => rfl
            asked := fun k => by simp [execOrder, initSX, Engine.init]
            once := by simp [execOrder, initSX, Engine.init] }
  | @step s s' l hr hs ih =>
    rcases Exec.okd_step hs with heq | ⟨wk, n, hw, heq⟩
    · rw [heq]; exact ih
    · rw [heq, execOrder_snoc]
      have hi := Engine.inv_reach (stGraph_wf L) hr
      obtain ⟨hnok, _, hbeg⟩ := hi.running n (List.mem_of_getElem? hw)
      have hn : n < L.n := mem_stGraph_nodes.mp (Engine.begun_in_nodes (stGraph_wf L) hr _ hbeg)
      have hpreds : ∀ p ∈ L.preds n, ((execOrder L w F s.okd).look p).getD ⟨false, none⟩ = sres L w F p := by
        intro p hp
        have := Engine.begun_preds_okd hi hbeg p (preds_stGraph hL hn hp)
        rw [ih.done p this]; rfl
      have hstep : staleStepF L w F (fun p => ((execOrder L w F s.okd).look p).getD ⟨false, none⟩) n = sres L w F n := by
        rw [sres_eq hL w F n]
        exact staleStepF_congr hpreds rfl
      have hany : (L.preds n).any (fun p => (((execOrder L w F s.okd).look p).getD ⟨false, none⟩).stale)
          = (L.preds n).any (fun p => isStale L w F p) := by
        apply any_congr_mem
        intro p hp
        rw [hpreds p hp]; rfl
      refine ⟨?_, ?_, ?_, ?_⟩
      · intro k hk
        simp only [processNode]
        by_cases hkn : k = n
        · subst hkn; simp only [if_true]; rw [hstep]
        · simp only [hkn, if_false]
          rcases List.mem_append.mp hk with h1 | h1
          · exact ih.done k h1
          · simp at h1; exact absurd h1 hkn
      · intro k hk
        simp only [processNode]
        have hkn : k ≠ n := fun hh => hk (by rw [hh]; simp)
        simp only [hkn, if_false]
        exact ih.notYet k (fun h1 => hk (List.mem_append.mpr (Or.inl h1)))
      · intro k
        simp only [processNode, hany]
        by_cases hc : (L.preds n).any (fun p => isStale L w F p) = false ∧ (L.reg n).isSome
        · simp only [hc, and_self, if_true, List.mem_append, List.mem_singleton]
          constructor
          · rintro (h1 | h1)
            · obtain ⟨a, b, c⟩ := (ih.asked k).mp h1
              exact ⟨Or.inl a, b, c⟩
            · subst h1; exact ⟨Or.inr rfl, hc.2, hc.1⟩
          · rintro ⟨h1 | h1, b, c⟩
            · exact Or.inl ((ih.asked k).mpr ⟨h1, b, c⟩)
            · exact Or.inr h1
        · simp only [hc, if_false, List.mem_append, List.mem_singleton]
          constructor
          · intro h1
            obtain ⟨a, b, c⟩ := (ih.asked k).mp h1
            exact ⟨Or.inl a, b, c⟩
          · rintro ⟨h1 | h1, b, c⟩
            · exact (ih.asked k).mpr ⟨h1, b, c⟩
            · subst h1; exact absurd ⟨c, b⟩ hc
      · simp only [processNode, hany]
        split
        · apply List.nodup_append.mpr
          refine ⟨ih.once, by simp, ?_⟩
          intro a ha b hb
          simp at hb; subst hb
          intro hab; subst hab
          exact hnok ((ih.asked a).mp ha).1
        · exact ih.once

end Uberjob.StaleExec
