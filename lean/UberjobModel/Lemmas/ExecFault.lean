import UberjobModel.Lemmas.ExecInv
/-!
  Store operations that raise AFTER taking effect.  `Exec.execOrder` over `St.okd` applies the effects of the nodes that
  completed.  A `value_store.write` may also change the store and THEN raise (the engine sees a failed node; nothing
  downstream runs).  `effects eff log` lists, in order, every completed node and every failed write node whose store
  operation had taken effect (`eff`, arbitrary); the invariant of Lemmas/ExecInv.lean holds for it as well.
-/
set_option linter.unusedSectionVars false
set_option linter.unusedSimpArgs false
namespace Uberjob.Exec
open Uberjob.Phys Uberjob.Cache

def PN.isWrite : PN → Bool
  | .write _ => true
  | _ => false

def evEffect (eff : Nat → Bool) : Engine.Ev → Option Nat
  | .ok x => some x
  | .fail x => if eff x && PN.isWrite (decode x) then some x else none
  | .begin _ => none

/-- The nodes whose effect took place, in the order in which it did. -/
def effects (eff : Nat → Bool) (log : List Engine.Ev) : List Nat := log.filterMap (evEffect eff)

theorem effects_snoc (eff : Nat → Bool) (log : List Engine.Ev) (e : Engine.Ev) :
    effects eff (log ++ [e]) = effects eff log ++ (evEffect eff e).toList := by
  simp only [effects, List.filterMap_append, List.filterMap_cons, List.filterMap_nil]
  cases evEffect eff e <;> rfl

/-- How one step of the engine changes the event log, the completed list and the begun list. -/
theorem log_step {g : Engine.Graph} {cfg : Engine.Cfg} {s s' : Engine.St} {l : Engine.Label}
    (h : Engine.step? g cfg s l = some s') :
    (s'.log = s.log ∧ s'.okd = s.okd ∧ s'.begun = s.begun) ∨
    (∃ x, s'.log = s.log ++ [.begin x] ∧ s'.okd = s.okd ∧ s'.begun = s.begun ++ [x]) ∨
    (∃ (w x : Nat), s.ws[w]? = some (Engine.W.running x) ∧ s'.log = s.log ++ [.ok x] ∧ s'.okd = s.okd ++ [x] ∧
      s'.begun = s.begun) ∨
    (∃ (w x : Nat), s.ws[w]? = some (Engine.W.running x) ∧ s'.log = s.log ++ [.fail x] ∧ s'.okd = s.okd ∧
      s'.begun = s.begun) := by
  cases l <;> simp only [Engine.step?] at h
  case finOk w =>
    split at h
    · next x hw => cases h; exact Or.inr (Or.inr (Or.inl ⟨w, x, hw, rfl, rfl, rfl⟩))
    · cases h
  case finFail w =>
    split at h
    · next x hw => cases h; exact Or.inr (Or.inr (Or.inr ⟨w, x, hw, rfl, rfl, rfl⟩))
    · cases h
  case check w =>
    split at h
    · cases h; exact Or.inl ⟨rfl, rfl, rfl⟩
    · next x hw =>
      split at h
      · cases h; exact Or.inl ⟨rfl, rfl, rfl⟩
      · cases h; exact Or.inr (Or.inl ⟨x, rfl, rfl, rfl⟩)
    · cases h
  all_goals
    left
    repeat' split at h
    all_goals first | (cases h; exact ⟨rfl, rfl, rfl⟩) | cases h

/-- **The execution invariant with store operations that fail after taking effect**: for every choice `eff` of which
    failing write nodes had changed their store before raising, in every reachable state of every schedule. -/
theorem xinv_reach_eff {P : Input} {w0 : World} {F : Option Int} {c0 : Int} (S : Setup P w0 F c0) (eff : Nat → Bool)
    {cfg : Engine.Cfg} {s : Engine.St} (h : Engine.Reach (engineGraph P) cfg s) :
    (∀ n, n ∈ s.okd → n ∈ effects eff s.log) ∧ (∀ n, n ∈ effects eff s.log → n ∈ s.begun) ∧
    XInv P w0 c0 (effects eff s.log) (execOrder P (initX w0 c0) (effects eff s.log)) := by
  induction h with
  | init =>
    refine ⟨?_, ?_, xinv_init S⟩
    · intro n hn; cases hn
    · intro n hn; cases hn
  | @step s s' l hr hs ih =>
    obtain ⟨hD1, hD2, I⟩ := ih
    have hi := Engine.inv_reach (engine_wf P) hr
    rcases log_step hs with ⟨h1, h2, h3⟩ | ⟨x, h1, h2, h3⟩ | ⟨w, n, hw, h1, h2, h3⟩ | ⟨w, n, hw, h1, h2, h3⟩
    · rw [h1, h2, h3]; exact ⟨hD1, hD2, I⟩
    · rw [h1, h2, h3, effects_snoc]
      simp only [evEffect, Option.toList_none, List.append_nil]
      exact ⟨hD1, fun n hn => List.mem_append.mpr (Or.inl (hD2 n hn)), I⟩
    · -- a node completes: as in `xinv_reach`
      rw [h1, h2, h3, effects_snoc]
      simp only [evEffect, Option.toList_some]
      obtain ⟨hnok, _, hbeg⟩ := hi.running n (List.mem_of_getElem? hw)
      refine ⟨?_, ?_, ?_⟩
      · intro m hm
        rcases List.mem_append.mp hm with hm | hm
        · exact List.mem_append.mpr (Or.inl (hD1 m hm))
        · exact List.mem_append.mpr (Or.inr hm)
      · intro m hm
        rcases List.mem_append.mp hm with hm | hm
        · exact hD2 m hm
        · simp at hm; subst hm; exact hbeg
      · rw [execOrder_snoc]
        obtain ⟨a, rfl, _⟩ := engine_node (Engine.begun_in_nodes (engine_wf P) hr _ hbeg)
        rw [decode_code]
        cases a with
        | orig j =>
          simp only [execNode]
          by_cases hl : P.lits.contains j = true
          · simp only [hl, if_true]
            exact xinv_noop I (by simp) (by simp) (fun j' hj => by cases hj; exact hl)
          · simp only [hl, if_false]
            apply xinv_slot I (by simp) (by simp)
            intro j' hj _ hs'
            cases hj
            exact orig_value S hr hD1 hD2 I hbeg hs'
        | read u =>
          simp only [execNode]
          apply xinv_slot I (by simp)
          · intro u' hu; cases hu; exact read_value S hr hD1 hD2 I hbeg
          · intro j hj; cases hj
        | write i =>
          simp only [execNode]
          exact xinv_write S hr hD1 hD2 I hbeg hnok
        | storeLit i =>
          simp only [execNode]
          exact xinv_noop I (by simp) (by simp) (fun j hj => by cases hj)
        | barrier i =>
          simp only [execNode]
          exact xinv_noop I (by simp) (by simp) (fun j hj => by cases hj)
    · -- a node fails: its effect is applied iff it is a store write that took effect before raising
      rw [h1, h2, h3, effects_snoc]
      obtain ⟨hnok, _, hbeg⟩ := hi.running n (List.mem_of_getElem? hw)
      by_cases he : (eff n && PN.isWrite (decode n)) = true
      · simp only [evEffect, he, if_true, Option.toList_some]
        refine ⟨fun m hm => List.mem_append.mpr (Or.inl (hD1 m hm)), ?_, ?_⟩
        · intro m hm
          rcases List.mem_append.mp hm with hm | hm
          · exact hD2 m hm
          · simp at hm; subst hm; exact hbeg
        · rw [execOrder_snoc]
          obtain ⟨a, rfl, _⟩ := engine_node (Engine.begun_in_nodes (engine_wf P) hr _ hbeg)
          rw [decode_code] at he ⊢
          cases a with
          | write i =>
            simp only [execNode]
            exact xinv_write S hr hD1 hD2 I hbeg hnok
          | orig j => simp [PN.isWrite] at he
          | read u => simp [PN.isWrite] at he
          | storeLit i => simp [PN.isWrite] at he
          | barrier i => simp [PN.isWrite] at he
      · simp only [evEffect, he, Bool.false_eq_true, if_false, Option.toList_none, List.append_nil]
        exact ⟨hD1, hD2, I⟩

end Uberjob.Exec
