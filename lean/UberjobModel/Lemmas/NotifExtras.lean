import UberjobModel.Lemmas.NotifLegal
/-!
  `PosTotals`, `WithinTotals` and `TotalsFirst` for the notification sequence of a run (what C20 assumes beyond `Legal`).
-/
namespace Uberjob.Notify
open Uberjob.Engine Uberjob.Progress

theorem blocks_posTotals (ps : List Phase) : PosTotals (blocks ps) := by
  intro x hx
  unfold blocks at hx
  obtain ⟨p, _, hp⟩ := List.mem_flatMap.mp hx
  unfold Phase.block at hp
  rcases List.mem_append.mp hp with h1 | h1
  · unfold Phase.totals at h1
    obtain ⟨c, hc, rfl⟩ := List.mem_map.mp h1
    obtain ⟨y, hy, hyc⟩ := List.mem_map.mp (mem_dedupNat.mp hc)
    have : y ∈ p.calls.filter (fun x => p.sc x == c) := List.mem_filter.mpr ⟨hy, by simp [hyc]⟩
    have := List.length_pos_of_mem this
    simp [Notif.amountPos]; omega
  · unfold Phase.events at h1
    obtain ⟨e, _, he⟩ := List.mem_filterMap.mp h1
    cases e <;> simp only [Phase.notif] at he <;> split at he <;> simp at he <;> subst he <;> rfl

/-- acts of a block belong to the block's section -/
theorem block_act_sec (p : Phase) (s : Nat) (hs : s ≠ p.sec) : p.block.any (Notif.isAct s) = false := by
  apply List.any_eq_false.mpr
  intro x hx
  unfold Phase.block at hx
  rcases List.mem_append.mp hx with h1 | h1
  · unfold Phase.totals at h1; obtain ⟨c, _, rfl⟩ := List.mem_map.mp h1; simp [Notif.isAct]
  · unfold Phase.events at h1
    obtain ⟨e, _, he⟩ := List.mem_filterMap.mp h1
    cases e <;> simp only [Phase.notif] at he <;> split at he <;> simp at he <;> subst he <;>
      simp [Notif.isAct] <;> exact fun h => hs h.symm

theorem blocks_act_other (ps : List Phase) (s : Nat) (hs : ∀ p ∈ ps, p.sec ≠ s) :
    (blocks ps).any (Notif.isAct s) = false := by
  induction ps with
  | nil => simp [blocks]
  | cons p t ih =>
    simp only [blocks, List.flatMap_cons, List.any_append]
    rw [block_act_sec p s (fun h => hs p (by simp) h.symm)]
    have := ih (fun q hq => hs q (List.mem_cons_of_mem _ hq))
    simp only [blocks] at this
    simp [this]

theorem any_take_false {l : List Notif} {q : Notif → Bool} (h : l.any q = false) (i : Nat) : (l.take i).any q = false := by
  apply List.any_eq_false.mpr
  intro x hx
  exact List.any_eq_false.mp h x (List.mem_of_mem_take hx)

/-- a total of a block can only stand in its totals part, and it carries the block's section -/
theorem block_total_pos (p : Phase) (i : Nat) (k : Key) (h : (p.block[i]?).any (Notif.isTotal k) = true) :
    i < p.totals.length ∧ k.1 = p.sec := by
  unfold Phase.block at h
  rcases Nat.lt_or_ge i p.totals.length with hlt | hge
  · refine ⟨hlt, ?_⟩
    rw [List.getElem?_append_left hlt] at h
    cases hx : p.totals[i]? with
    | none => rw [hx] at h; cases h
    | some x =>
      rw [hx] at h
      have := List.mem_of_getElem? hx
      unfold Phase.totals at this
      obtain ⟨c, _, rfl⟩ := List.mem_map.mp this
      simp [Notif.isTotal] at h
      have := congrArg Prod.fst h; simpa using this.symm
  · exfalso
    rw [List.getElem?_append_right hge] at h
    cases hx : p.events[i - p.totals.length]? with
    | none => rw [hx] at h; cases h
    | some x =>
      rw [hx] at h
      have := List.mem_of_getElem? hx
      unfold Phase.events at this
      obtain ⟨e, _, he⟩ := List.mem_filterMap.mp this
      cases e <;> simp only [Phase.notif] at he <;> split at he <;> simp at he <;> subst he <;> simp [Notif.isTotal] at h

theorem totals_no_act_any (p : Phase) (s : Nat) : p.totals.any (Notif.isAct s) = false := by
  apply List.any_eq_false.mpr
  intro x hx
  unfold Phase.totals at hx; obtain ⟨c, _, rfl⟩ := List.mem_map.mp hx; simp [Notif.isAct]

/-- **TotalsFirst**: with pairwise distinct sections, no total of a section comes after an act of that section. -/
theorem blocks_totalsFirst {ps : List Phase} (hsec : (ps.map (·.sec)).Nodup) : TotalsFirst (blocks ps) := by
  intro i _ k _ hk
  clear * - hsec hk
  induction ps generalizing i with
  | nil => simp [blocks] at hk
  | cons p t ih =>
    simp only [List.map_cons, List.nodup_cons] at hsec
    simp only [blocks, List.flatMap_cons] at hk ⊢
    rcases Nat.lt_or_ge i p.block.length with hlt | hge
    · rw [List.getElem?_append_left hlt] at hk
      obtain ⟨hit, _⟩ := block_total_pos p i k hk
      rw [List.take_append]
      have h0 : i - p.block.length = 0 := by omega
      rw [h0]; simp only [List.take_zero, List.append_nil]
      -- the prefix lies inside the totals part
      unfold Phase.block
      rw [List.take_append]
      have h1 : i - p.totals.length = 0 := by omega
      rw [h1]; simp only [List.take_zero, List.append_nil]
      exact any_take_false (totals_no_act_any p k.1) i
    · rw [List.getElem?_append_right hge] at hk
      rw [List.take_append, List.take_of_length_le hge, List.any_append]
      have := ih hsec.2 (i - p.block.length) hk
      simp only [blocks] at this
      rw [this]
      -- the total belongs to a later block, whose section differs from p's
      have hks : k.1 ≠ p.sec := by
        intro heq
        -- find the block of t that holds the total: its section is k.1 = p.sec, contradiction with Nodup
        have : ∃ q ∈ t, q.sec = k.1 := by
          clear this ih
          generalize i - p.block.length = j at hk
          induction t generalizing j with
          | nil => simp at hk
          | cons q u ihu =>
            simp only [List.flatMap_cons] at hk
            rcases Nat.lt_or_ge j q.block.length with h1 | h1
            · rw [List.getElem?_append_left h1] at hk
              exact ⟨q, by simp, (block_total_pos q j k hk).2.symm⟩
            · rw [List.getElem?_append_right h1] at hk
              have hn : (u.map (·.sec)).Nodup ∧ p.sec ∉ u.map (·.sec) := by
                simp only [List.map_cons, List.nodup_cons, List.mem_cons, not_or] at hsec
                exact ⟨hsec.2.2, hsec.1.2⟩
              obtain ⟨r, hr, hrs⟩ := ihu ⟨hn.2, hn.1⟩ _ hk
              exact ⟨r, List.mem_cons_of_mem _ hr, hrs⟩
        obtain ⟨q, hq, hqs⟩ := this
        exact hsec.1 (List.mem_map.mpr ⟨q, hq, by rw [hqs, heq]⟩)
      rw [block_act_sec p k.1 hks]; rfl

end Uberjob.Notify

namespace Uberjob.Notify
open Uberjob.Engine Uberjob.Progress

def beginsOf (l : List Engine.Ev) : List Nat :=
  l.filterMap (fun e => match e with | .begin x => some x | _ => none)

theorem runs_events_eq (p : Phase) (k : Key) :
    runs k p.events = ((beginsOf p.log).filter (fun x => p.isCall x && (p.key x == k))).length := by
  unfold Phase.events beginsOf runs
  induction p.log with
  | nil => simp
  | cons e t ih =>
    cases e with
    | begin x =>
      by_cases hc : p.isCall x = true
      · by_cases hk : (p.sec, p.sc x) = k
        · have hr : Notif.isRun k (Notif.running p.sec (p.sc x)) = true := by simp [Notif.isRun, hk]
          simp only [List.filterMap_cons, Phase.notif, hc, if_true, List.filter_cons, Phase.key, hk, beq_self_eq_true,
            Bool.and_self, List.length_cons]
          rw [List.countP_cons_of_pos hr]
          simp only [Phase.key] at ih
          rw [ih]
        · have hr : ¬ Notif.isRun k (Notif.running p.sec (p.sc x)) = true := by simp [Notif.isRun, hk]
          have hb : ((p.sec, p.sc x) == k) = false := by simpa using hk
          simp only [List.filterMap_cons, Phase.notif, hc, if_true, List.filter_cons, Phase.key, hb,
            Bool.and_false, Bool.false_eq_true, if_false]
          rw [List.countP_cons_of_neg hr]
          simp only [Phase.key] at ih
          rw [ih]
      · have hc' : p.isCall x = false := by simpa using hc
        simp only [List.filterMap_cons, Phase.notif, hc', Bool.false_eq_true, if_false, List.filter_cons, Bool.false_and]
        exact ih
    | ok x =>
      by_cases hc : p.isCall x = true
      · simp [List.filterMap_cons, Phase.notif, hc, Notif.isRun] at ih ⊢; exact ih
      · simp [List.filterMap_cons, Phase.notif, hc] at ih ⊢; exact ih
    | fail x =>
      by_cases hc : p.isCall x = true
      · simp [List.filterMap_cons, Phase.notif, hc, Notif.isRun] at ih ⊢; exact ih
      · simp [List.filterMap_cons, Phase.notif, hc] at ih ⊢; exact ih

theorem sum_indicator (sec : Nat) (k : Key) (n : Nat → Nat) :
    ∀ (L : List Nat), L.Nodup →
      (L.map (fun c => Notif.amount k (.total sec c (n c)))).sum = if k.1 = sec ∧ k.2 ∈ L then n k.2 else 0 := by
  intro L
  induction L with
  | nil => simp
  | cons c t ih =>
    intro hn
    have hct := (List.nodup_cons.mp hn).1
    have hrest := ih (List.nodup_cons.mp hn).2
    rw [List.map_cons, List.sum_cons, hrest]
    obtain ⟨k1, k2⟩ := k
    simp only [Notif.amount, List.mem_cons]
    by_cases h1 : k1 = sec
    · subst h1
      by_cases h2 : c = k2
      · subst h2; simp [hct]
      · have h3 : ¬ k2 = c := fun h => h2 h.symm
        have h4 : ((k1, c) == (k1, k2)) = false := by simp [h2]
        simp [h4, h3]
    · have h3 : ∀ c', ((sec, c') == (k1, k2)) = false := by
        intro c'; simp; intro h; exact absurd h.symm h1
      simp [h3, h1]

theorem totalSum_totals (p : Phase) (k : Key) :
    totalSum k p.totals = (p.calls.filter (fun x => p.key x == k)).length := by
  unfold totalSum Phase.totals
  rw [List.map_map]
  have := sum_indicator p.sec k (fun c => (p.calls.filter (fun x => p.sc x == c)).length)
    (dedupNat (p.calls.map p.sc)) (Engine.nodup_dedup _)
  simp only [Function.comp_def]
  rw [this]
  obtain ⟨k1, k2⟩ := k
  by_cases h1 : k1 = p.sec
  · subst h1
    by_cases h2 : k2 ∈ dedupNat (p.calls.map p.sc)
    · simp only [h2, and_self, if_true]
      congr 1
      apply List.filter_congr
      intro x _
      simp [Phase.key]
    · simp only [h2, and_false, if_false]
      symm
      apply List.length_eq_zero_iff.mpr
      apply List.filter_eq_nil_iff.mpr
      intro x hx
      simp only [Phase.key, beq_iff_eq, Prod.mk.injEq, true_and]
      intro hsc
      exact h2 (mem_dedupNat.mpr (List.mem_map.mpr ⟨x, hx, hsc⟩))
  · simp only [h1, false_and, if_false]
    symm
    apply List.length_eq_zero_iff.mpr
    apply List.filter_eq_nil_iff.mpr
    intro x _
    simp only [Phase.key, beq_iff_eq, Prod.mk.injEq]
    intro h; exact h1 h.1.symm

theorem totalSum_append (k : Key) (a b : List Notif) : totalSum k (a ++ b) = totalSum k a + totalSum k b := by
  simp [totalSum]

theorem runs_take_le (k : Key) (l : List Notif) (i : Nat) : runs k (l.take i) ≤ runs k l := by
  unfold runs; exact List.Sublist.countP_le (List.take_sublist _ _)

/-- in one block the runnings of a key never exceed its announced total, at every moment -/
theorem block_within (p : Phase) (hp : p.Ok) (k : Key) (i : Nat) :
    runs k (p.block.take i) ≤ totalSum k (p.block.take i) := by
  unfold Phase.block
  rw [List.take_append, runs_append, totalSum_append]
  rcases Nat.lt_or_ge i p.totals.length with hlt | hge
  · have h0 : i - p.totals.length = 0 := by omega
    rw [h0]
    have h1 := (totals_no_act p k).1
    have h2 := runs_take_le k p.totals i
    have h3 : runs k (p.events.take 0) = 0 := by simp [runs]
    omega
  · rw [List.take_of_length_le hge, totalSum_totals]
    have h1 := (totals_no_act p k).1
    have h2 := runs_take_le k p.events (i - p.totals.length)
    rw [runs_events_eq] at h2
    -- begun calls under k: a duplicate-free sublist of the calls under k
    have hsub : (beginsOf p.log).filter (fun x => p.isCall x && (p.key x == k)) ⊆ p.calls.filter (fun x => p.key x == k) := by
      intro x hx
      obtain ⟨hxb, hxp⟩ := List.mem_filter.mp hx
      simp only [Bool.and_eq_true] at hxp
      obtain ⟨e, he, hee⟩ := List.mem_filterMap.mp hxb
      have : e = Engine.Ev.begin x := by cases e <;> simp at hee; subst hee; rfl
      subst this
      exact List.mem_filter.mpr ⟨List.mem_filter.mpr ⟨hp.inNodes x he, hxp.1⟩, hxp.2⟩
    have hnd : ((beginsOf p.log).filter (fun x => p.isCall x && (p.key x == k))).Nodup := hp.onceEach.sublist List.filter_sublist
    have := (List.subperm_of_subset hnd hsub).length_le
    omega

theorem blocks_within {ps : List Phase} (h : ∀ p ∈ ps, p.Ok) (k : Key) (i : Nat) :
    runs k ((blocks ps).take i) ≤ totalSum k ((blocks ps).take i) := by
  induction ps generalizing i with
  | nil => simp [blocks, runs, totalSum]
  | cons p t ih =>
    simp only [blocks, List.flatMap_cons]
    rw [List.take_append, runs_append, totalSum_append]
    have h1 := block_within p (h p (by simp)) k i
    have h2 := ih (fun q hq => h q (List.mem_cons_of_mem _ hq)) (i - p.block.length)
    simp only [blocks] at h2
    omega

/-- **WithinTotals** for a run. -/
theorem blocks_withinTotals {ps : List Phase} (h : ∀ p ∈ ps, p.Ok) : WithinTotals (blocks ps) :=
  fun i _ k _ => blocks_within h k i

end Uberjob.Notify
