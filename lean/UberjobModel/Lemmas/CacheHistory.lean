import UberjobModel.Lemmas.CacheRun
/-!
  From event lists (`HOp`) to the hypotheses of `run_prefix_fresh`, and the main theorem about a complete run.
-/
namespace Uberjob.Cache
open Uberjob.Gen.Stale

def HOp.key : HOp → Option (Nat × Int)
  | .write i t => some (i, t)
  | .update s _ t => some (s, t)
  | .delete _ => none

/-- The (node, time) pairs of the writes a run performed, in order. -/
def linOf (ops : List HOp) : List (Nat × Int) := ops.filterMap HOp.key

def NoDelete (ops : List HOp) : Prop := ∀ op ∈ ops, ∃ k, op.key = some k

theorem applyOp_st_other {P : LPlan} {w : World} {op : HOp} {i : Nat} {t : Int} (hk : op.key = some (i, t))
    {j : Nat} (hj : j ≠ i) : (applyOp P w op).st j = w.st j := by
  cases op <;> simp [HOp.key] at hk <;> obtain ⟨rfl, rfl⟩ := hk <;> simp [applyOp, World.set, hj]

theorem applyOp_mtime_self {P : LPlan} {w : World} {op : HOp} {i : Nat} {t : Int} (hk : op.key = some (i, t)) :
    (applyOp P w op).mtime i = some t := by
  cases op <;> simp [HOp.key] at hk <;> obtain ⟨rfl, rfl⟩ := hk <;> simp [applyOp, World.set, World.mtime]

theorem applyOps_untouched {P : LPlan} {ops : List HOp} (hnd : NoDelete ops) {j : Nat}
    (hu : ∀ t, (j, t) ∉ linOf ops) (w : World) : (applyOps P w ops).st j = w.st j := by
  induction ops generalizing w with
  | nil => rfl
  | cons op ops ih =>
    obtain ⟨⟨i, t⟩, hk⟩ := hnd op (by simp)
    have hji : j ≠ i := by
      intro h; subst h
      exact hu t (by simp [linOf, List.filterMap_cons, hk])
    have hu' : ∀ t', (j, t') ∉ linOf ops := by
      intro t' h
      exact hu t' (by simp only [linOf, List.filterMap_cons, hk] at h ⊢; exact List.mem_cons_of_mem _ h)
    simp only [applyOps, List.foldl_cons]
    have := ih (fun o ho => hnd o (List.mem_cons_of_mem _ ho)) hu' (applyOp P w op)
    simp only [applyOps] at this
    rw [this, applyOp_st_other hk hji]

theorem applyOps_touched {P : LPlan} {ops : List HOp} (hnd : NoDelete ops)
    (hnodup : ((linOf ops).map Prod.fst).Nodup) {j : Nat} {t : Int} (hm : (j, t) ∈ linOf ops) (w : World) :
    (applyOps P w ops).mtime j = some t := by
  induction ops generalizing w with
  | nil => simp [linOf] at hm
  | cons op ops ih =>
    obtain ⟨⟨i, t0⟩, hk⟩ := hnd op (by simp)
    have hnd' : NoDelete ops := fun o ho => hnd o (List.mem_cons_of_mem _ ho)
    simp only [linOf, List.filterMap_cons, hk, List.map_cons, List.nodup_cons] at hnodup hm
    simp only [applyOps, List.foldl_cons]
    rcases List.mem_cons.mp hm with h1 | h1
    · cases h1
      -- the remaining events do not touch j
      have hu : ∀ t', (j, t') ∉ linOf ops := by
        intro t' h
        exact hnodup.1 (List.mem_map.mpr ⟨(j, t'), h, rfl⟩)
      have := applyOps_untouched (P := P) hnd' hu (applyOp P w op)
      simp only [applyOps] at this
      unfold World.mtime
      rw [this]
      exact applyOp_mtime_self hk
    · exact ih hnd' hnodup.2 h1 (applyOp P w op)

/-- "Modified times increase with every write": each event's time is above every modified time of the
    world the run started from. -/
theorem opsOk_below {P : LPlan} {ops : List HOp} (hnd : NoDelete ops) {w : World} (hok : OpsOk P w ops)
    {j : Nat} {t : Int} (hm : (j, t) ∈ linOf ops) : w.below t := by
  induction ops generalizing w with
  | nil => simp [linOf] at hm
  | cons op ops ih =>
    obtain ⟨⟨i, t0⟩, hk⟩ := hnd op (by simp)
    have hnd' : NoDelete ops := fun o ho => hnd o (List.mem_cons_of_mem _ ho)
    have hb0 : w.below t0 := by
      cases op <;> simp [HOp.key] at hk <;> obtain ⟨rfl, rfl⟩ := hk <;> exact hok.1.2
    simp only [linOf, List.filterMap_cons, hk] at hm
    rcases List.mem_cons.mp hm with h1 | h1
    · cases h1; exact hb0
    · have hb := ih hnd' hok.2 h1
      intro k m hkm
      by_cases hki : k = i
      · subst hki
        have h1 := hb0 k m hkm
        have h2 := hb k t0 (applyOp_mtime_self hk)
        omega
      · apply hb k m
        unfold World.mtime at hkm ⊢
        rw [applyOp_st_other hk hki]; exact hkm

/-- **C03/C05 at the store level.**  Start from a `Good` store state.  A run rewrites (in `ops`) exactly the
    registered nodes that are out of date w.r.t. `fresh_time = F`, each once, every write getting a modified time
    newer than everything before it and than `F`, an ancestor before its descendants.  Then afterwards
    (1) nothing is out of date (w.r.t. `F`, hence also without `fresh_time`);
    (2) every stored non-source value equals its from-scratch value;
    (3) every node gives its consumers — and the run's output — its from-scratch value. -/
theorem complete_run_correct {P : LPlan} (hP : P.WF) {w0 : World} (hg : Good P w0) {F : Option Int}
    {ops : List HOp} (hnd : NoDelete ops) (hok : OpsOk P w0 ops)
    (hnodup : ((linOf ops).map Prod.fst).Nodup)
    (hOnlyStale : ∀ j t, (j, t) ∈ linOf ops → (∃ s, P.reg j = some s) ∧ isStale P w0 F j = true)
    (hAllStale : ∀ j s, P.reg j = some s → isStale P w0 F j = true → ∃ t, (j, t) ∈ linOf ops)
    (hFresh : ∀ j t f, (j, t) ∈ linOf ops → F = some f → f ≤ t)
    (hOrder : ∀ q tq k tk, (q, tq) ∈ linOf ops → (k, tk) ∈ linOf ops → q ≠ k → Reach P q k → tq < tk) :
    let wf := applyOps P w0 ops
    (∀ j, isStale P wf F j = false) ∧
    (∀ j, isStale P wf none j = false) ∧
    (∀ i v t, P.reg i = some false → wf.st i = some (v, t) → v = FS P wf i) ∧
    (∀ o, seen P wf o = FS P wf o) := by
  intro wf
  have hF : ∀ j, isStale P wf F j = false :=
    complete_run_fresh hP (fun j hu => applyOps_untouched hnd hu w0)
      (fun j t hm => applyOps_touched hnd hnodup hm w0) hOnlyStale hAllStale
      (fun j t hm => ⟨opsOk_below hnd hok hm, fun f hf => hFresh j t f hm hf⟩) hOrder
  have hN : ∀ j, isStale P wf none j = false := by
    intro j
    unfold isStale
    rw [stale_mono_fresh hP wf F j (hF j)]
    exact hF j
  have hgf : Good P wf := good_history hP hg hok
  exact ⟨hF, hN, fun i v t hreg hst => hgf i hreg v t hst (hN i), fun o => seen_eq_FS hP hgf o (hN o)⟩

end Uberjob.Cache
