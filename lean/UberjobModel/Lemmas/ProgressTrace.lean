import UberjobModel.Model.Progress
/-!
Trace-level facts for the `Progress` model: counting over prefixes, and the bounded clauses of
`LegalBody` / `WithinTotals` / `TotalsFirst` / `PosTotals` in the prefix-closed form the inductions use.
-/
namespace Uberjob.Progress
open Uberjob.Gen.Progress

theorem runs_snoc (k : Key) (p : List Notif) (n : Notif) :
    runs k (p ++ [n]) = runs k p + (if n.isRun k then 1 else 0) := by
  simp [runs, List.countP_append, List.countP_cons]

theorem fins_snoc (k : Key) (p : List Notif) (n : Notif) :
    fins k (p ++ [n]) = fins k p + (if n.isFin k then 1 else 0) := by
  simp [fins, List.countP_append, List.countP_cons]

theorem totalSum_snoc (k : Key) (p : List Notif) (n : Notif) :
    totalSum k (p ++ [n]) = totalSum k p + n.amount k := by
  simp [totalSum, List.sum_append]

theorem announced_snoc (k : Key) (p : List Notif) (n : Notif) :
    announced k (p ++ [n]) = (announced k p || n.isTotal k) := by
  simp [announced, List.any_append]

theorem active_snoc (p : List Notif) (n : Notif) :
    active (p ++ [n]) = active p + (if n.anyRun then 1 else 0) - (if n.anyFin then 1 else 0) := by
  simp only [active, List.countP_append, List.countP_cons, List.countP_nil]
  cases n <;> simp [Notif.anyRun, Notif.anyFin] <;> omega

theorem announced_mono {k : Key} {p q : List Notif} (h : announced k p = true) : announced k (p ++ q) = true := by
  simp [announced, List.any_append] at *; exact Or.inl h

theorem mem_keysOf {b : List Notif} {n : Notif} {k : Key} (hn : n ∈ b) (hk : n.key? = some k) : k ∈ keysOf b := by
  simp only [keysOf, List.mem_filterMap]; exact ⟨n, hn, hk⟩

theorem isRun_key {k : Key} {n : Notif} (h : n.isRun k = true) : n.key? = some k := by
  cases n <;> simp_all [Notif.isRun, Notif.key?]

theorem isFin_key {k : Key} {n : Notif} (h : n.isFin k = true) : n.key? = some k := by
  cases n <;> simp_all [Notif.isFin, Notif.key?]

theorem isTotal_key {k : Key} {n : Notif} (h : n.isTotal k = true) : n.key? = some k := by
  cases n <;> simp_all [Notif.isTotal, Notif.key?]

theorem amount_key {k : Key} {n : Notif} (h : n.amount k ≠ 0) : n.key? = some k := by
  cases n <;> simp_all [Notif.amount, Notif.key?]

theorem runs_eq_zero {k : Key} {b p : List Notif} (hk : k ∉ keysOf b) (hp : ∀ x ∈ p, x ∈ b) : runs k p = 0 := by
  simp only [runs, List.countP_eq_zero]
  intro x hx hr; exact hk (mem_keysOf (hp x hx) (isRun_key hr))

theorem fins_eq_zero {k : Key} {b p : List Notif} (hk : k ∉ keysOf b) (hp : ∀ x ∈ p, x ∈ b) : fins k p = 0 := by
  simp only [fins, List.countP_eq_zero]
  intro x hx hr; exact hk (mem_keysOf (hp x hx) (isFin_key hr))

theorem prefix_mem {p b : List Notif} (h : p <+: b) : ∀ x ∈ p, x ∈ b := fun _ hx => h.subset hx

theorem prefix_take {p b : List Notif} (h : p <+: b) : b.take p.length = p := (List.prefix_iff_eq_take.mp h).symm

/-- prefix-closed form of the body clauses -/
structure PLegal (b : List Notif) : Prop where
  noEnter : Notif.enter ∉ b
  noExit : Notif.exit ∉ b
  announcedFirst : ∀ p s c, p ++ [Notif.running s c] <+: b → announced (s, c) p = true
  finLeRun : ∀ p k, p <+: b → fins k p ≤ runs k p
  balanced : ∀ k, fins k b = runs k b

theorem LegalBody.toP {b : List Notif} (h : LegalBody b) : PLegal b := by
  obtain ⟨h1, h2, h3, h4, h5⟩ := h
  refine ⟨h1, h2, ?_, ?_, ?_⟩
  · intro p s c hp
    have hlen : p.length < b.length := by
      have := hp.length_le; simp at this; omega
    have hmem : Notif.running s c ∈ b := hp.subset (by simp)
    have hk : (s, c) ∈ keysOf b := mem_keysOf hmem rfl
    have hpb : p <+: b := (List.prefix_append p _).trans hp
    have hi : b[p.length]? = some (Notif.running s c) := by
      obtain ⟨t, rfl⟩ := hp
      simp
    have := h3 p.length hlen (s, c) hk hi
    rwa [prefix_take hpb] at this
  · intro p k hp
    by_cases hk : k ∈ keysOf b
    · have := h4 p.length (by have := hp.length_le; omega) k hk
      rwa [prefix_take hp] at this
    · rw [fins_eq_zero hk (prefix_mem hp)]; exact Nat.zero_le _
  · intro k
    by_cases hk : k ∈ keysOf b
    · exact h5 k hk
    · rw [fins_eq_zero hk (fun _ h => h), runs_eq_zero hk (fun _ h => h)]

theorem WithinTotals.toP {b : List Notif} (h : WithinTotals b) :
    ∀ p k, p <+: b → runs k p ≤ totalSum k p := by
  intro p k hp
  by_cases hk : k ∈ keysOf b
  · have := h p.length (by have := hp.length_le; omega) k hk
    rwa [prefix_take hp] at this
  · rw [runs_eq_zero hk (prefix_mem hp)]; exact Nat.zero_le _

theorem TotalsFirst.toP {b : List Notif} (h : TotalsFirst b) :
    ∀ p s c n, p ++ [Notif.total s c n] <+: b → p.any (Notif.isAct s) = false := by
  intro p s c n hp
  have hlen : p.length < b.length := by
    have := hp.length_le; simp at this; omega
  have hmem : Notif.total s c n ∈ b := hp.subset (by simp)
  have hk : (s, c) ∈ keysOf b := mem_keysOf hmem rfl
  have hpb : p <+: b := (List.prefix_append p _).trans hp
  have hi : b[p.length]? = some (Notif.total s c n) := by
    obtain ⟨t, rfl⟩ := hp
    simp
  have := h p.length hlen (s, c) hk (by rw [hi]; simp [Notif.isTotal])
  rwa [prefix_take hpb] at this

/-- a key that was reported running has been announced -/
theorem PLegal.announced_of_runs {b : List Notif} (h : PLegal b) {p : List Notif} {k : Key} (hp : p <+: b)
    (hr : 0 < runs k p) : announced k p = true := by
  simp only [runs, List.countP_pos_iff] at hr
  obtain ⟨x, hx, hxr⟩ := hr
  obtain ⟨p1, p2, rfl⟩ := List.append_of_mem hx
  have hx' : x = Notif.running k.1 k.2 := by
    cases x <;> simp_all [Notif.isRun]
    next s c => subst hxr; exact ⟨rfl, rfl⟩
  have h1 : p1 ++ [x] <+: b := by
    refine List.IsPrefix.trans ?_ hp
    exact ⟨p2, by simp⟩
  rw [hx'] at h1
  have := h.announcedFirst p1 k.1 k.2 h1
  exact announced_mono this

/-- a finished call was once running, hence its section saw activity -/
theorem act_of_fins {p : List Notif} {k : Key} (h : 0 < fins k p) : p.any (Notif.isAct k.1) = true := by
  simp only [fins, List.countP_pos_iff] at h
  obtain ⟨x, hx, hxr⟩ := h
  simp only [List.any_eq_true]
  refine ⟨x, hx, ?_⟩
  cases x <;> simp_all [Notif.isFin, Notif.isAct]
  all_goals (rw [← hxr])

end Uberjob.Progress
