import UberjobModel.Model.ExecProd
import UberjobModel.Lemmas.ExecFinal
import UberjobModel.Lemmas.CacheSpec
/-!
  The run, end to end, WITH producers that rewrite dependent sources as a side effect (`Model/ExecProd.lean`).

  `Lemmas/ExecInv.lean` fixes the from-scratch values once and for all (`FS P w0`): no source changes during a run.  Here the
  sources change while the run is going on, so every invariant speaks about the CURRENT store state — "this slot holds the
  from-scratch value of its node with respect to what the sources hold now" — and stays true when a producer rewrites a
  source, because whatever is downstream of that source has not begun yet (the Barrier of the source orders it after the
  producer).  The store-level theory (`Good`, `good_update`, `good_write`, `run_prefix_fresh`, `complete_run_fresh`) already
  covers source updates; it is used as it is.
-/
set_option linter.unusedSectionVars false
set_option linter.unusedSimpArgs false
namespace Uberjob.Exec
open Uberjob.Phys Uberjob.Cache

/-! ### from-scratch values depend only on the sources UPSTREAM -/

theorem FS_local {L : LPlan} (hL : L.WF) {w w' : World} :
    ∀ k, (∀ q, L.reg q = some true → Cache.Reach L q k → w'.content q = w.content q) → FS L w' k = FS L w k := by
  intro k
  induction k using Nat.strongRecOn with
  | ind k ih =>
    intro h
    rw [FS_eq hL w' k, FS_eq hL w k]
    have hm : (L.args k).map (FS L w') = (L.args k).map (FS L w) := by
      apply List.map_congr_left
      intro p hp
      have hpp := hL.argsSub k p hp
      exact ih p (hL.predsLt k p hpp) (fun q hq hr => h q hq (Cache.Reach.step hr hpp))
    cases hr : L.reg k with
    | none => simp only [hm]
    | some s =>
      cases s with
      | true => simp only [h k hr (Cache.Reach.refl k)]
      | false => simp only [hm]

theorem reach_trans {L : LPlan} {a b c : Nat} (h1 : Cache.Reach L a b) (h2 : Cache.Reach L b c) : Cache.Reach L a c := by
  induction h2 with
  | refl => exact h1
  | step _ hp ih => exact Cache.Reach.step ih hp

/-! ### the setting -/

/-- `pr j = some d`: the unregistered call `j` rewrites the dependent source `d`.  The producer is PRIVATE (its only
    dependent is `d`: then it runs exactly when `d` has to be refreshed), every source has at most one producer, a source
    that is out of date has one (reaching it directly or through ordering tokens), and every registered node upstream of `d`
    is upstream of the producer too (DESIGN 7.7:
    otherwise `d` could be rewritten before something it depends on, and be out of date again at once). -/
structure SetupP (P : Input) (pr : Nat → Option Nat) (w0 : World) (F : Option Int) (c0 : Int) : Prop where
  wf : P.WF
  stale : ∀ x, P.isStale x = Cache.isStale P.toLPlan w0 F x
  litArgs : ∀ e ∈ P.edges, P.lits.contains e.dst = true → e.key.isArg = false
  good : Good P.toLPlan w0
  below : w0.below c0
  fresh : ∀ f, F = some f → f ≤ c0
  prodOk : ∀ j d, pr j = some d → P.regOf j = none ∧ P.lits.contains j = false ∧ P.regOf d = some true ∧
    Cache.Reach P.toLPlan j d ∧ j ∈ P.nodes
  /-- the nodes PRIVATE to a dependent source `d`: its producer and the ordering tokens (plain literals) between the two;
      whatever depends on one of them is another of them or `d` itself, and none of them is the requested output -/
  ownEx : ∃ ow : Nat → Option Nat, (∀ j d, pr j = some d → ow j = some d) ∧
    ∀ u d, ow u = some d → P.regOf u = none ∧ P.out ≠ some u ∧ ∀ e ∈ P.edges, e.src = u → e.dst = d ∨ ow e.dst = some d
  prodInj : ∀ j j' d, pr j = some d → pr j' = some d → j = j'
  srcStale : ∀ d, P.regOf d = some true → P.isStale d = true → ∃ j, pr j = some d
  depsUp : ∀ j d, pr j = some d → ∀ q sq, P.regOf q = some sq → Cache.Reach P.toLPlan q d → q ≠ d →
    Cache.Reach P.toLPlan q j

/-- whatever a private node of `d` reaches is private to `d` too, or is `d` or downstream of it -/
theorem reach_own {P : Input} {ow : Nat → Option Nat} {d : Nat}
    (hown : ∀ u, ow u = some d → ∀ e ∈ P.edges, e.src = u → e.dst = d ∨ ow e.dst = some d)
    {j u : Nat} (hj : ow j = some d) (hr : Cache.Reach P.toLPlan j u) : ow u = some d ∨ Cache.Reach P.toLPlan d u := by
  induction hr with
  | refl => exact Or.inl hj
  | @step p u _ hp ih =>
    rcases ih with h1 | h1
    · obtain ⟨e, he, hs, hd⟩ := mem_logicalPreds.mp hp
      rcases hown p h1 e he hs with h2 | h2
      · right; rw [← hd, h2]; exact Cache.Reach.refl d
      · left; rw [← hd]; exact h2
    · exact Or.inr (Cache.Reach.step h1 hp)

/-- From a producer to the Barrier of its out-of-date source there is a path in the plan before pruning (directly, or
    through the ordering tokens). -/
theorem producer_path {P : Input} {pr : Nat → Option Nat} {w0 : World} {F : Option Int} {c0 : Int}
    (S : SetupP P pr w0 F c0) {j d : Nat} (hp : pr j = some d) (hst : P.isStale d = true) :
    Path (physBuild P).edges (.orig j) (P.W d) := by
  obtain ⟨hj, _, hd, hreach, _⟩ := S.prodOk j d hp
  obtain ⟨ow, how1, how2⟩ := S.ownEx
  have hall : ∀ q, Cache.Reach P.toLPlan j q → ∀ s, P.regOf q = some s → P.isStale q = true := by
    intro q hq sq hsq
    rcases reach_own (fun u hu => (how2 u d hu).2.2) (how1 j d hp) hq with h1 | h1
    · rw [(how2 q d h1).1] at hsq; cases hsq
    · rw [S.stale] at hst ⊢
      exact Cache.stale_reach (toLPlan_wf S.wf) w0 F hst h1
  rcases tail_chain hreach hall with rfl | hpath
  · rw [hj] at hd; cases hd
  · rwa [show P.tail j = .orig j by simp [Input.tail, hj], tail_of_reg hd] at hpath

section order
variable {P : Input} {pr : Nat → Option Nat} {w0 : World} {F : Option Int} {c0 : Int} (S : SetupP P pr w0 F c0)
  {cfg : Engine.Cfg} {s : Engine.St} (h : Engine.Reach (engineGraph P) cfg s)
include S h

theorem begun_builtP {a : PN} (hb : code a ∈ s.begun) : a ∈ (physFinal P).nodes ∧ a ∈ (physBuild P).nodes := by
  obtain ⟨b, hb', hbn⟩ := engine_node (Engine.begun_in_nodes (engine_wf P) h _ hb)
  rw [code_inj hb']
  exact ⟨engine_sub_final hbn, final_sub_built (engine_sub_final hbn)⟩

/-- everything reachable from an out-of-date node is out of date -/
theorem stale_allP {q : Nat} (hst : P.isStale q = true) :
    ∀ y, Cache.Reach P.toLPlan q y → ∀ s', P.regOf y = some s' → P.isStale y = true := by
  intro y hy _ _
  rw [S.stale] at hst ⊢
  exact Cache.stale_reach (toLPlan_wf S.wf) w0 F hst hy

/-- The producer of an out-of-date source `d` completes before ANYTHING downstream of `d` begins: the read-back of a
    registered node, the write of a stored node, or the call of any node `u` that `d` reaches. -/
theorem downstream_waits {j d u : Nat} (hp : pr j = some d) (hst : P.isStale d = true)
    (hr : Cache.Reach P.toLPlan d u) {a : PN}
    (ha : (a = .read u ∧ ∃ sr, P.regOf u = some sr) ∨ (a = .write u ∧ P.regOf u = some false) ∨ (a = .orig u ∧ d ≠ u))
    (hb : code a ∈ s.begun) : code (.orig j) ∈ s.okd := by
  obtain ⟨hj, hjl, hd, _, _⟩ := S.prodOk j d hp
  have hall := stale_allP S h hst
  have hjd : Path (physBuild P).edges (.orig j) (P.W d) := producer_path S hp hst
  have hfin : Path (physBuild P).edges (P.W d) a := by
    rcases ha with ⟨rfl, sr, hru⟩ | ⟨rfl, hru⟩ | ⟨rfl, hne⟩
    · have hsu := hall u hr sr hru
      rcases tail_chain hr hall with rfl | hpath
      · exact Path.single (W_to_read hd hst)
      · rw [tail_of_reg hd, tail_of_reg hru] at hpath
        exact Path.cons hpath (W_to_read hru hsu)
    · rcases tail_chain hr hall with rfl | hpath
      · rw [hd] at hru; cases hru
      · rw [tail_of_reg hd, tail_of_reg hru] at hpath
        have : P.W u = .write u := by simp [Input.W, hru]
        rwa [this] at hpath
    · obtain ⟨p, hpp, hrp⟩ := Cache.Reach.inv hr hne
      obtain ⟨e, he, h1, h2⟩ := mem_logicalPreds.mp hpp
      have he' : (⟨p, u, e.key⟩ : LEdge) ∈ P.edges := by
        have : e = ⟨p, u, e.key⟩ := by cases e; simp_all
        rw [← this]; exact he
      have hstep := tail_to_orig he' (hall p hrp)
      rcases tail_chain hrp hall with rfl | hpath
      · rwa [tail_of_reg hd] at hstep
      · rw [tail_of_reg hd] at hpath
        exact hpath.trans hstep
  exact path_order S.wf h (hjd.trans hfin) (by simpa [PN.isLit] using hjl) hb

end order

/-- A private producer is part of the plan a run executes only if its source has to be refreshed. -/
theorem producer_kept_stale {P : Input} {pr : Nat → Option Nat} {w0 : World} {F : Option Int} {c0 : Int}
    (S : SetupP P pr w0 F c0) {j d : Nat} (hp : pr j = some d) (hm : PN.orig j ∈ (physFinal P).nodes) :
    P.isStale d = true := by
  obtain ⟨hj, hjl, hd, _, _⟩ := S.prodOk j d hp
  obtain ⟨ow, how1, how2⟩ := S.ownEx
  unfold physFinal prunePlan pruneLiterals at hm
  obtain ⟨_, hK⟩ := mem_pruneAnc_nodes.mp (foldLit_nodes_sub hm)
  obtain ⟨n, _, r, hrm, hpath⟩ := mem_anc.mp hK
  have root_not_orig : ∀ v, PN.orig v ∈ required P ++ (physOut P).toList → P.out = some v ∧ P.regOf v = none := by
    intro v h1
    rcases List.mem_append.mp h1 with h1 | h1
    · simp only [required, List.mem_map, List.mem_filter] at h1
      obtain ⟨e, _, he⟩ := h1
      exact absurd he (W_not_orig P _ _)
    · simp only [physOut, Option.mem_toList, Option.map_eq_some_iff] at h1
      obtain ⟨o, ho, ho2⟩ := h1
      split at ho2
      · cases ho2
      · next hno =>
        simp only [PN.orig.injEq] at ho2; subst ho2
        exact ⟨ho, by cases hh : P.regOf o <;> simp_all⟩
  -- along any path from a node private to d to a required node / the output, d is out of date
  have key : ∀ (n : Nat) (a : PN), PathN (physBuild P).edges n a r → (∃ u, a = .orig u ∧ ow u = some d) →
      P.isStale d = true := by
    intro n
    induction n with
    | zero =>
      intro a hpn ⟨u, hau, hou⟩
      cases hpn
      subst hau
      exact absurd (root_not_orig u hrm).1 (how2 u d hou).2.1
    | succ n ih =>
      intro a hpn ⟨u, hau, hou⟩
      subst hau
      obtain ⟨hureg, _, huout⟩ := how2 u d hou
      cases hpn with
      | succ ha hrest =>
        obtain ⟨e, he, hs, hq⟩ := ha
        rcases mem_built_edges.mp he with ⟨le, hle, hre⟩ | ⟨r', hrm', hg⟩
        · rcases rewire_cases hre with ⟨h0, rfl⟩ | ⟨s', _, _, rfl⟩ | ⟨s', _, _, _, rfl⟩
          · simp only [PN.orig.injEq] at hs
            simp only at hq
            rcases huout le hle hs with hdst | hdst
            · -- the logical edge into d as it is: ... -> orig d, and orig d leads nowhere
              rw [hdst] at hq
              subst hq
              exfalso
              cases hrest with
              | zero => have := (root_not_orig d hrm).2; rw [hd] at this; cases this
              | succ ha2 _ =>
                obtain ⟨e2, he2, hs2, _⟩ := ha2
                exact no_out_of_kept_orig S.wf hd (Or.inl rfl) e2 he2 hs2
            · subst hq
              exact ih _ hrest ⟨le.dst, rfl, hdst⟩
          · cases hs
          · exact absurd hs (W_not_orig P _ _)
        · have hreg : P.regOf r'.1 = some r'.2 := regOf_of_mem S.wf (by cases r'; exact hrm')
          rcases gadget_cases hg with h | ⟨hst, _, h | ⟨u', a', hu', hda, h⟩⟩ | ⟨hst, hsrc, h | h | h⟩
          · subst h; cases hs
          · subst h; cases hs
          · -- the Barrier of an out-of-date source that depends on a private node of d: that source is d
            subst h
            simp only at hs
            subst hs
            rcases depSrc_cases hda with ⟨h1, h2⟩ | ⟨_, _, _, h2⟩
            · simp only [PN.orig.injEq] at h2
              subst h2
              obtain ⟨le, hle, h1', h2'⟩ := mem_logicalPreds.mp hu'
              rcases huout le hle h1' with h3 | h3
              · rw [h2'] at h3; rw [← h3]; exact hst
              · rw [h2'] at h3
                rw [(how2 r'.1 d h3).1] at hreg; cases hreg
            · exact absurd h2.symm (W_not_orig P _ _)
          · subst h; cases hs
          · subst h
            simp only [PN.orig.injEq] at hs
            rw [hs, hureg] at hreg; cases hreg
          · subst h; cases hs
  exact key n _ hpath ⟨j, rfl, how1 j d hp⟩

/-! ### the invariant -/

/-- store `i` has been given a new value by the nodes `D` completed so far: by its write node, or by its producer -/
def Tch (pr : Nat → Option Nat) (D : List Nat) (i : Nat) : Prop :=
  code (.write i) ∈ D ∨ ∃ j, pr j = some i ∧ code (.orig j) ∈ D

theorem code_of_decode_orig {n j : Nat} (h : decode n = .orig j) : n = code (.orig j) := by
  unfold decode at h
  split at h <;> simp at h
  next h5 => subst h; simp [code]; omega

/-- The modified times the run has given so far, with their stores (writes of stored values and producer updates). -/
def linP (pr : Nat → Option Nat) (D : List Nat) (w : World) : List (Nat × Int) :=
  D.filterMap (fun n => match decode n with
    | .write i => (w.mtime i).map (fun t => (i, t))
    | .orig j => match pr j with
      | some d => (w.mtime d).map (fun t => (d, t))
      | none => none
    | _ => none)

theorem mem_linP {pr : Nat → Option Nat} {D : List Nat} {w : World} {i : Nat} {t : Int} :
    (i, t) ∈ linP pr D w ↔ Tch pr D i ∧ w.mtime i = some t := by
  simp only [linP, List.mem_filterMap, Tch]
  constructor
  · rintro ⟨n, hn, hm⟩
    split at hm
    · next j hd =>
      simp only [Option.map_eq_some_iff, Prod.mk.injEq] at hm
      obtain ⟨t', ht', rfl, rfl⟩ := hm
      exact ⟨Or.inl (code_of_decode_write hd ▸ hn), ht'⟩
    · next j hd =>
      split at hm
      · next d hpd =>
        simp only [Option.map_eq_some_iff, Prod.mk.injEq] at hm
        obtain ⟨t', ht', rfl, rfl⟩ := hm
        exact ⟨Or.inr ⟨j, hpd, code_of_decode_orig hd ▸ hn⟩, ht'⟩
      · cases hm
    · cases hm
  · rintro ⟨hn | ⟨j, hpj, hn⟩, hm⟩
    · exact ⟨_, hn, by simp [decode_code, hm]⟩
    · exact ⟨_, hn, by simp [decode_code, hpj, hm]⟩

structure XInvP (P : Input) (pr : Nat → Option Nat) (w0 : World) (c0 : Int) (D : List Nat) (x : XSt) : Prop where
  clockLe : c0 ≤ x.clock
  below : x.w.below x.clock
  good : Good P.toLPlan x.w
  untouched : ∀ i, ¬ Tch pr D i → x.w.st i = w0.st i
  touched : ∀ i, Tch pr D i → ∃ t, x.w.mtime i = some t ∧ c0 ≤ t
  order : ∀ q k tq tk, q ≠ k → Tch pr D q → Tch pr D k → x.w.mtime q = some tq → x.w.mtime k = some tk →
    Cache.Reach P.toLPlan q k → tq < tk
  /-- every completed read-back holds the from-scratch value with respect to what the sources hold NOW -/
  readOk : ∀ u, code (.read u) ∈ D → x.slot (.read u) = some (FS P.toLPlan x.w u)
  origOk : ∀ j, code (.orig j) ∈ D → P.lits.contains j = false → P.regOf j ≠ some true →
    x.slot (.orig j) = some (FS P.toLPlan x.w j)
  writtenOk : ∀ i, code (.write i) ∈ D → x.w.content i = some (FS P.toLPlan x.w i)
  /-- a refreshed dependent source holds what its producer computes from scratch -/
  prodOk : ∀ j d, pr j = some d → code (.orig j) ∈ D → x.w.content d = some (FS P.toLPlan x.w j)

theorem xinvP_init {P : Input} {pr : Nat → Option Nat} {w0 : World} {F : Option Int} {c0 : Int}
    (S : SetupP P pr w0 F c0) : XInvP P pr w0 c0 [] (initX w0 c0) where
  clockLe := Int.le_refl _
  below := S.below
  good := S.good
  untouched := fun _ _ => rfl
  touched := fun _ h => by rcases h with h | ⟨_, _, h⟩ <;> cases h
  order := fun _ _ _ _ _ h => by rcases h with h | ⟨_, _, h⟩ <;> cases h
  readOk := fun _ h => by cases h
  origOk := fun _ h => by cases h
  writtenOk := fun _ h => by cases h
  prodOk := fun _ _ _ h => by cases h

theorem tch_snoc {pr : Nat → Option Nat} {D : List Nat} {a : PN} {i : Nat} :
    Tch pr (D ++ [code a]) i ↔ Tch pr D i ∨ a = .write i ∨ ∃ j, a = .orig j ∧ pr j = some i := by
  unfold Tch
  constructor
  · rintro (h1 | ⟨j, hj, h1⟩)
    · rcases mem_snoc_code.mp h1 with h2 | h2
      · exact Or.inl (Or.inl h2)
      · exact Or.inr (Or.inl h2.symm)
    · rcases mem_snoc_code.mp h1 with h2 | h2
      · exact Or.inl (Or.inr ⟨j, hj, h2⟩)
      · exact Or.inr (Or.inr ⟨j, h2.symm, hj⟩)
  · rintro ((h1 | ⟨j, hj, h1⟩) | h1 | ⟨j, h1, hj⟩)
    · exact Or.inl (mem_snoc_code.mpr (Or.inl h1))
    · exact Or.inr ⟨j, hj, mem_snoc_code.mpr (Or.inl h1)⟩
    · exact Or.inl (mem_snoc_code.mpr (Or.inr h1.symm))
    · exact Or.inr ⟨j, hj, mem_snoc_code.mpr (Or.inr h1.symm)⟩

/-- literals take no arguments: their from-scratch value is themselves, whatever the stores hold -/
theorem FS_litP {P : Input} (hP : P.WF) (hla : ∀ e ∈ P.edges, P.lits.contains e.dst = true → e.key.isArg = false)
    (w : World) {u : Nat} (hl : P.lits.contains u = true) (hr : P.regOf u ≠ some true) :
    FS P.toLPlan w u = .app u [] := by
  have hargs : P.toLPlan.args u = [] := by
    simp only [Input.toLPlan, List.map_eq_nil_iff, List.filter_eq_nil_iff]
    intro e he
    by_cases hd : e.dst = u
    · have := hla e he (by rw [hd]; exact hl)
      simp [this]
    · simp [hd]
  rw [FS_eq (toLPlan_wf hP), hargs]
  have hr' : P.toLPlan.reg u ≠ some true := hr
  split
  · next h1 => exact absurd h1 hr'
  · rfl

section stepsP
variable {P : Input} {pr : Nat → Option Nat} {w0 : World} {F : Option Int} {c0 : Int} (S : SetupP P pr w0 F c0)
  {cfg : Engine.Cfg} {s : Engine.St} (h : Engine.Reach (engineGraph P) cfg s)
  {x : XSt} (I : XInvP P pr w0 c0 s.okd x)
include S h I

/-- Only out-of-date registered nodes are given new values. -/
theorem tch_stale {i : Nat} (ht : Tch pr s.okd i) : (∃ sr, P.regOf i = some sr) ∧ P.isStale i = true := by
  rcases ht with hm | ⟨j, hpj, hm⟩
  · obtain ⟨h1, h2⟩ := write_node_reg S.wf (okd_node h hm)
    exact ⟨⟨false, h1⟩, h2⟩
  · have hk := (begun_builtP S h (okd_begun h _ hm)).1
    exact ⟨⟨true, (S.prodOk j i hpj).2.2.1⟩, producer_kept_stale S hpj hk⟩

/-- Whatever is not out of date sees, upstream, the sources as they were. -/
theorem FS_now_of_fresh {u : Nat} (hns : P.isStale u = false) : FS P.toLPlan x.w u = FS P.toLPlan w0 u := by
  apply FS_local (toLPlan_wf S.wf)
  intro q _ hr
  have hnt : ¬ Tch pr s.okd q := by
    intro ht
    obtain ⟨⟨sr, hsr⟩, hst⟩ := tch_stale S h I ht
    have := stale_allP S h hst u hr
    cases hu : P.regOf u with
    | none =>
      -- an unregistered node downstream of an out-of-date one is out of date too
      have h1 : Cache.isStale P.toLPlan w0 F u = true := by
        rw [S.stale] at hst
        exact Cache.stale_reach (toLPlan_wf S.wf) w0 F hst hr
      rw [← S.stale, hns] at h1; cases h1
    | some su => rw [this su hu] at hns; cases hns
  simp [World.content, I.untouched q hnt]

/-- What `read u` finds in the store is the from-scratch value of `u` with respect to what the sources hold now. -/
theorem read_valueP {u : Nat} (hb : code (.read u) ∈ s.begun) :
    (x.w.content u).getD (.missing u) = FS P.toLPlan x.w u := by
  have hL := toLPlan_wf S.wf
  obtain ⟨sr, hreg⟩ := read_node_reg S.wf (begun_builtP S h hb).2
  have hregL : P.toLPlan.reg u = some sr := hreg
  cases sr with
  | true => rw [FS_eq hL, hregL]
  | false =>
    by_cases hst : P.isStale u = true
    · have hadj := W_to_read hreg hst
      have hW : P.W u = .write u := by simp [Input.W, hreg]
      rw [hW] at hadj
      have := path_order S.wf h (Path.single hadj) rfl hb
      simp [I.writtenOk u this]
    · have hst' : P.isStale u = false := by simpa using hst
      have hnt : ¬ Tch pr s.okd u := fun ht => hst (tch_stale S h I ht).2
      have hu := I.untouched u hnt
      have hns : isStale P.toLPlan w0 F u = false := by rw [← S.stale]; exact hst'
      obtain ⟨t, ht⟩ := fresh_content hL S.good hregL hns
      simp [World.content, hu, ht, FS_now_of_fresh S h I hst']

/-- The value an argument node of a begun node holds is the from-scratch value of the logical node it stands for. -/
theorem arg_valueP {u j : Nat} (hu : u ∈ P.toLPlan.args j)
    (hpath : ∀ a, a.isLit P = false → (∃ k, (⟨a, .orig j, k⟩ : Edge PN) ∈ (physBuild P).edges) → code a ∈ s.okd) :
    x.get P (argNode P u) = FS P.toLPlan x.w u := by
  simp only [Input.toLPlan, List.mem_map, List.mem_filter, Bool.and_eq_true, beq_iff_eq] at hu
  obtain ⟨e, ⟨he, hd, hk⟩, hs⟩ := hu
  cases hr : P.regOf u with
  | some sr =>
    have hedge : (⟨.read u, .orig j, e.key⟩ : Edge PN) ∈ (physBuild P).edges :=
      mem_built_edges.mpr (Or.inl ⟨e, he, by simp [Input.rewire, hs, hr, hk, hd]⟩)
    have := hpath (.read u) rfl ⟨_, hedge⟩
    simp only [argNode, hr, Option.isSome_some, if_true, XSt.get, I.readOk u this, Option.getD_some]
  | none =>
    simp only [argNode, hr, Option.isSome_none, Bool.false_eq_true, if_false, XSt.get]
    by_cases hl : P.lits.contains u = true
    · simp only [hl, if_true]
      exact (FS_litP S.wf S.litArgs x.w hl (by rw [hr]; simp)).symm
    · have hl' : P.lits.contains u = false := by simpa using hl
      have hedge : (⟨.orig u, .orig j, e.key⟩ : Edge PN) ∈ (physBuild P).edges :=
        mem_built_edges.mpr (Or.inl ⟨e, he, by simp [Input.rewire, hs, hr, hd]⟩)
      have := hpath (.orig u) (by simpa [PN.isLit] using hl') ⟨_, hedge⟩
      simp only [hl', Bool.false_eq_true, if_false, I.origOk u this hl' (by rw [hr]; simp), Option.getD_some]

/-- What a user call computes is its from-scratch value (with respect to what the sources hold now). -/
theorem orig_valueP {j : Nat} (hb : code (.orig j) ∈ s.begun) (hs : P.regOf j ≠ some true) :
    V.app j ((argSrcs (physFinal P) (.orig j)).map (x.get P)) = FS P.toLPlan x.w j := by
  have hL := toLPlan_wf S.wf
  rw [argSrcs_final S.wf (begun_builtP S h hb).1, argSrcs_built, FS_eq hL]
  have hs' : P.toLPlan.reg j ≠ some true := hs
  have hm : ((P.toLPlan.args j).map (argNode P)).map (x.get P) = (P.toLPlan.args j).map (FS P.toLPlan x.w) := by
    rw [List.map_map]
    apply List.map_congr_left
    intro u hu
    exact arg_valueP S h I hu
      (fun a ha ⟨k, hk⟩ => path_order S.wf h (Path.single ⟨_, hk, rfl, rfl⟩) ha hb)
  rw [hm]
  split
  · next h1 => exact absurd h1 hs'
  · rfl

/-- Right now nothing upstream of a node whose write has begun is out of date. -/
theorem preds_fresh_now {i : Nat} (hb : code (.write i) ∈ s.begun) (hri : P.regOf i = some false) :
    ∀ u, u ∈ P.toLPlan.preds i → isStale P.toLPlan x.w F u = false := by
  have hL := toLPlan_wf S.wf
  intro u hu
  apply run_prefix_fresh hL (w0 := w0) (wf := x.w) (F := F) (lin := linP pr s.okd x.w)
  · intro j hj
    apply I.untouched j
    intro ht
    obtain ⟨t, hmt, _⟩ := I.touched j ht
    exact hj t (mem_linP.mpr ⟨ht, hmt⟩)
  · intro j t hm; exact (mem_linP.mp hm).2
  · intro j t hm
    obtain ⟨hreg, hst⟩ := tch_stale S h I (mem_linP.mp hm).1
    exact ⟨hreg, by rw [← S.stale]; exact hst⟩
  · intro j t hm
    obtain ⟨ht, hmt⟩ := mem_linP.mp hm
    obtain ⟨t', hmt', hc⟩ := I.touched j ht
    have : t = t' := by rw [hmt] at hmt'; exact Option.some.inj hmt'
    subst this
    exact ⟨below_mono S.below hc, fun f hf => Int.le_trans (S.fresh f hf) hc⟩
  · intro q tq k tk hq hk hne hr
    obtain ⟨hq1, hq2⟩ := mem_linP.mp hq
    obtain ⟨hk1, hk2⟩ := mem_linP.mp hk
    exact I.order q k tq tk hne hq1 hk1 hq2 hk2 hr
  · intro q sq hr hreg hst
    have hri' : Cache.Reach P.toLPlan q i := Cache.Reach.step hr hu
    have hlt : q ≠ i := by
      have := Cache.Reach.le hL hr
      have := hL.predsLt i u hu
      omega
    have hstq : P.isStale q = true := by rw [S.stale]; exact hst
    have hregq : P.regOf q = some sq := hreg
    have htch : Tch pr s.okd q := by
      cases sq with
      | false =>
        have hp := write_chain_path hregq hri hlt hri' (stale_allP S h hstq)
        have hWq : P.W q = .write q := by simp [Input.W, hregq]
        have hWi : P.W i = .write i := by simp [Input.W, hri]
        rw [hWq, hWi] at hp
        exact Or.inl (path_order S.wf h hp rfl hb)
      | true =>
        obtain ⟨jq, hjq⟩ := S.srcStale q hregq hstq
        exact Or.inr ⟨jq, hjq, downstream_waits S h hjq hstq hri' (Or.inr (Or.inl ⟨rfl, hri⟩)) hb⟩
    obtain ⟨t, hmt, _⟩ := I.touched q htch
    exact ⟨t, mem_linP.mpr ⟨htch, hmt⟩⟩

/-- ... so what the call of `i` would compute from what its arguments give RIGHT NOW is its from-scratch value. -/
theorem rawNow_valueP {i : Nat} (hb : code (.write i) ∈ s.begun) (hri : P.regOf i = some false) :
    rawNow P.toLPlan x.w i = FS P.toLPlan x.w i := by
  have hL := toLPlan_wf S.wf
  unfold rawNow
  rw [FS_eq hL]
  have hri' : P.toLPlan.reg i = some false := hri
  simp only [hri']
  congr 1
  apply List.map_congr_left
  intro u hu
  have hup := hL.argsSub i u hu
  have h0 : isStale P.toLPlan x.w none u = false := by
    have := preds_fresh_now S h I hb hri u hup
    unfold isStale; rw [stale_mono_fresh hL x.w F u this]; exact this
  exact seen_eq_FS hL I.good u h0

/-- The value handed to `write i`. -/
theorem write_arg_valueP {i : Nat} (hb : code (.write i) ∈ s.begun) (hri : P.regOf i = some false)
    (hst : P.isStale i = true) : x.get P (.orig i) = FS P.toLPlan x.w i := by
  simp only [XSt.get]
  by_cases hl : P.lits.contains i = true
  · simp only [hl, if_true]
    exact (FS_litP S.wf S.litArgs x.w hl (by rw [hri]; simp)).symm
  · have hl' : P.lits.contains i = false := by simpa using hl
    have hedge : (⟨.orig i, .write i, .pos 1⟩ : Edge PN) ∈ (physBuild P).edges :=
      mem_built_edges.mpr (Or.inr ⟨(i, false), mem_of_regOf hri, by simp [Input.gadgetEdges, hst]⟩)
    have := path_order S.wf h (Path.single ⟨_, hedge, rfl, rfl⟩) (by simpa [PN.isLit] using hl') hb
    simp only [hl', Bool.false_eq_true, if_false, I.origOk i this hl' (by rw [hri]; simp), Option.getD_some]

/-- Nothing that has been given a new value is downstream of a store `i` whose own refresh has not completed. -/
theorem no_touched_downstream {i k : Nat} {a : PN} (ha : a.isLit P = false) (hna : code a ∉ s.okd)
    (hsti : P.isStale i = true) {si : Bool} (hregi : P.regOf i = some si)
    (hai : Path (physBuild P).edges a (P.W i) ∨ a = P.W i) (hne : i ≠ k) (hr : Cache.Reach P.toLPlan i k)
    (hk : Tch pr s.okd k) : False := by
  have hL := toLPlan_wf S.wf
  have hall := stale_allP S h hsti
  have start : ∀ {b : PN}, Path (physBuild P).edges (P.W i) b → code b ∈ s.begun → False := by
    intro b hp hb
    rcases hai with hp0 | rfl
    · exact hna (path_order S.wf h (hp0.trans hp) ha hb)
    · exact hna (path_order S.wf h hp ha hb)
  rcases hk with hm | ⟨jk, hjk, hm⟩
  · obtain ⟨hrk, _⟩ := write_node_reg S.wf (okd_node h hm)
    have hp := write_chain_path hregi hrk hne hr hall
    have hWk : P.W k = .write k := by simp [Input.W, hrk]
    rw [hWk] at hp
    exact start hp (okd_begun h _ hm)
  · -- k is a source refreshed by its producer jk: i reaches jk
    obtain ⟨hjkreg, _, _, _, _⟩ := S.prodOk jk k hjk
    have hrjk : Cache.Reach P.toLPlan i jk := S.depsUp jk k hjk i si hregi hr hne
    rcases tail_chain hrjk hall with rfl | hpath
    · rw [hjkreg] at hregi; cases hregi
    · rw [tail_of_reg hregi, show P.tail jk = .orig jk by simp [Input.tail, hjkreg]] at hpath
      exact start hpath (okd_begun h _ hm)

/-- The world part of the invariant after store `i` (not touched before, nothing touched downstream of it) has been given
    a value at the current clock. -/
theorem world_touch {i : Nat} {v : V} {D' : List Nat} {x' : XSt}
    (hw' : x'.w = x.w.set i (some (v, x.clock))) (hc' : x'.clock = x.clock + 1)
    (htch : ∀ k, Tch pr D' k ↔ Tch pr s.okd k ∨ k = i)
    (hgood : Good P.toLPlan (x.w.set i (some (v, x.clock))))
    (hdown : ∀ k, i ≠ k → Cache.Reach P.toLPlan i k → Tch pr s.okd k → False) :
    c0 ≤ x'.clock ∧ x'.w.below x'.clock ∧ Good P.toLPlan x'.w ∧ (∀ k, ¬ Tch pr D' k → x'.w.st k = w0.st k) ∧
    (∀ k, Tch pr D' k → ∃ t, x'.w.mtime k = some t ∧ c0 ≤ t) ∧
    (∀ q k tq tk, q ≠ k → Tch pr D' q → Tch pr D' k → x'.w.mtime q = some tq → x'.w.mtime k = some tk →
      Cache.Reach P.toLPlan q k → tq < tk) := by
  have hst_other : ∀ k, k ≠ i → x'.w.st k = x.w.st k := by
    intro k hk; rw [hw']; simp [World.set, hk]
  have hmt_other : ∀ k, k ≠ i → x'.w.mtime k = x.w.mtime k := by
    intro k hk; simp [World.mtime, hst_other k hk]
  have hmt_self : x'.w.mtime i = some x.clock := by
    rw [hw']; simp [World.mtime, World.set]
  refine ⟨by have := I.clockLe; rw [hc']; omega, by rw [hw', hc']; exact below_set I.below i _, by rw [hw']; exact hgood,
    ?_, ?_, ?_⟩
  · intro k hk
    have hki : k ≠ i := fun hh => hk ((htch k).mpr (Or.inr hh))
    rw [hst_other k hki]
    exact I.untouched k (fun ht => hk ((htch k).mpr (Or.inl ht)))
  · intro k hk
    by_cases hki : k = i
    · subst hki; exact ⟨x.clock, hmt_self, I.clockLe⟩
    · rcases (htch k).mp hk with h1 | h1
      · obtain ⟨t, ht, hc⟩ := I.touched k h1
        exact ⟨t, by rw [hmt_other k hki]; exact ht, hc⟩
      · exact absurd h1 hki
  · intro q k tq tk hne hq hk hmq hmk hr
    by_cases hki : k = i
    · subst hki
      rw [hmt_self] at hmk
      rw [hmt_other q hne] at hmq
      have := I.below q tq hmq
      simp at hmk; omega
    · by_cases hqi : q = i
      · subst hqi
        exfalso
        rcases (htch k).mp hk with h1 | h1
        · exact hdown k hne hr h1
        · exact hki h1
      · rw [hmt_other q hqi] at hmq
        rw [hmt_other k hki] at hmk
        have hq' : Tch pr s.okd q := by
          rcases (htch q).mp hq with h1 | h1
          · exact h1
          · exact absurd h1 hqi
        have hk' : Tch pr s.okd k := by
          rcases (htch k).mp hk with h1 | h1
          · exact h1
          · exact absurd h1 hki
        exact I.order q k tq tk hne hq' hk' hmq hmk hr

theorem tch_same {a : PN} (hw : ∀ i, a ≠ .write i) (hp : ∀ j d, a = .orig j → pr j ≠ some d) (k : Nat) :
    Tch pr (s.okd ++ [code a]) k ↔ Tch pr s.okd k := by
  rw [tch_snoc]
  constructor
  · rintro (h1 | h1 | ⟨j, h1, h2⟩)
    · exact h1
    · exact absurd h1 (hw k)
    · exact absurd h2 (hp j k h1)
  · exact Or.inl

/-- Completing a node that touches neither a slot nor a store. -/
theorem xinvP_noop {a : PN} (hr : ∀ u, a ≠ .read u) (hw : ∀ i, a ≠ .write i)
    (ho : ∀ j, a = .orig j → P.lits.contains j = true) : XInvP P pr w0 c0 (s.okd ++ [code a]) x := by
  have hp : ∀ j d, a = .orig j → pr j ≠ some d := by
    intro j d hj hpj
    have := (S.prodOk j d hpj).2.1
    rw [ho j hj] at this; cases this
  have ht := tch_same S h I hw hp
  exact
    { clockLe := I.clockLe, below := I.below, good := I.good
      untouched := fun k hk => I.untouched k (fun h' => hk ((ht k).mpr h'))
      touched := fun k hk => I.touched k ((ht k).mp hk)
      order := fun q k tq tk hne hq hk => I.order q k tq tk hne ((ht q).mp hq) ((ht k).mp hk)
      readOk := fun u hm => by
        rcases mem_snoc_code.mp hm with h1 | h1
        · exact I.readOk u h1
        · exact absurd h1.symm (hr u)
      origOk := fun j hm hl hs => by
        rcases mem_snoc_code.mp hm with h1 | h1
        · exact I.origOk j h1 hl hs
        · rw [ho j h1.symm] at hl; cases hl
      writtenOk := fun i hm => by
        rcases mem_snoc_code.mp hm with h1 | h1
        · exact I.writtenOk i h1
        · exact absurd h1.symm (hw i)
      prodOk := fun j d hpj hm => by
        rcases mem_snoc_code.mp hm with h1 | h1
        · exact I.prodOk j d hpj h1
        · exact absurd hpj (hp j d h1.symm) }

/-- Completing a node that only fills its slot (a read-back, or a user call that is not a producer). -/
theorem xinvP_slot {a : PN} {v : V} (hw : ∀ i, a ≠ .write i) (hp : ∀ j d, a = .orig j → pr j ≠ some d)
    (hr : ∀ u, a = .read u → v = FS P.toLPlan x.w u)
    (ho : ∀ j, a = .orig j → P.lits.contains j = false → P.regOf j ≠ some true → v = FS P.toLPlan x.w j) :
    XInvP P pr w0 c0 (s.okd ++ [code a]) (setSlot x a v) := by
  have ht := tch_same S h I hw hp
  exact
    { clockLe := I.clockLe, below := I.below, good := I.good
      untouched := fun k hk => I.untouched k (fun h' => hk ((ht k).mpr h'))
      touched := fun k hk => I.touched k ((ht k).mp hk)
      order := fun q k tq tk hne hq hk => I.order q k tq tk hne ((ht q).mp hq) ((ht k).mp hk)
      readOk := fun u hm => by
        simp only [setSlot]
        by_cases hu : PN.read u = a
        · simp only [hu, if_true]; rw [hr u hu.symm]
        · simp only [hu, if_false]
          rcases mem_snoc_code.mp hm with h1 | h1
          · exact I.readOk u h1
          · exact absurd h1 hu
      origOk := fun j hm hl hs => by
        simp only [setSlot]
        by_cases hu : PN.orig j = a
        · simp only [hu, if_true]; rw [ho j hu.symm hl hs]
        · simp only [hu, if_false]
          rcases mem_snoc_code.mp hm with h1 | h1
          · exact I.origOk j h1 hl hs
          · exact absurd h1 hu
      writtenOk := fun i hm => by
        rcases mem_snoc_code.mp hm with h1 | h1
        · exact I.writtenOk i h1
        · exact absurd h1.symm (hw i)
      prodOk := fun j d hpj hm => by
        rcases mem_snoc_code.mp hm with h1 | h1
        · exact I.prodOk j d hpj h1
        · exact absurd hpj (hp j d h1.symm) }

/-- Completing the write of stored value `i`. -/
theorem xinvP_write {i : Nat} (hb : code (.write i) ∈ s.begun) (hn : code (.write i) ∉ s.okd) :
    XInvP P pr w0 c0 (s.okd ++ [code (.write i)])
      { x with w := x.w.set i (some (x.get P (.orig i), x.clock)), clock := x.clock + 1 } := by
  have hL := toLPlan_wf S.wf
  obtain ⟨hri, hst⟩ := write_node_reg S.wf (begun_builtP S h hb).2
  have hv := write_arg_valueP S h I hb hri hst
  have hraw := rawNow_valueP S h I hb hri
  have htch : ∀ k, Tch pr (s.okd ++ [code (.write i)]) k ↔ Tch pr s.okd k ∨ k = i := by
    intro k
    rw [tch_snoc]
    constructor
    · rintro (h1 | h1 | ⟨j, h1, _⟩)
      · exact Or.inl h1
      · simp only [PN.write.injEq] at h1; exact Or.inr h1.symm
      · cases h1
    · rintro (h1 | h1)
      · exact Or.inl h1
      · exact Or.inr (Or.inl (by rw [h1]))
  have hWi : P.W i = .write i := by simp [Input.W, hri]
  have hdown : ∀ k, i ≠ k → Cache.Reach P.toLPlan i k → Tch pr s.okd k → False := by
    intro k hne hr hk
    exact no_touched_downstream S h I (a := .write i) rfl hn hst hri (Or.inr hWi.symm) hne hr hk
  have hgood : Good P.toLPlan (x.w.set i (some (x.get P (.orig i), x.clock))) := by
    rw [hv, ← hraw]; exact good_write hL I.good hri I.below
  obtain ⟨f1, f2, f3, f4, f5, f6⟩ := world_touch S h I (i := i) (v := x.get P (.orig i))
    (D' := s.okd ++ [code (.write i)])
    (x' := { x with w := x.w.set i (some (x.get P (.orig i), x.clock)), clock := x.clock + 1 }) rfl rfl htch hgood hdown
  have hFS : ∀ k, FS P.toLPlan (x.w.set i (some (x.get P (.orig i), x.clock))) k = FS P.toLPlan x.w k := by
    apply FS_congr hL
    intro q hq
    have hqi : q ≠ i := by
      intro hh; subst hh
      have hq' : P.regOf q = some true := hq
      rw [hq'] at hri; cases hri
    simp [World.content, World.set, hqi]
  have hcont : ∀ k, k ≠ i → (x.w.set i (some (x.get P (.orig i), x.clock))).content k = x.w.content k := by
    intro k hk; simp [World.content, World.set, hk]
  refine { clockLe := f1, below := f2, good := f3, untouched := f4, touched := f5, order := f6,
           readOk := ?_, origOk := ?_, writtenOk := ?_, prodOk := ?_ }
  · intro u hm
    rcases mem_snoc_code.mp hm with h1 | h1
    · show x.slot _ = _; rw [hFS]; exact I.readOk u h1
    · cases h1
  · intro j hm hl hs
    rcases mem_snoc_code.mp hm with h1 | h1
    · show x.slot _ = _; rw [hFS]; exact I.origOk j h1 hl hs
    · cases h1
  · intro k hm
    show (x.w.set i _).content k = _
    rw [hFS]
    by_cases hk : k = i
    · subst hk; simp [World.content, World.set, hv]
    · rw [hcont k hk]
      rcases mem_snoc_code.mp hm with h1 | h1
      · exact I.writtenOk k h1
      · simp only [PN.write.injEq] at h1; exact absurd h1 hk
  · intro j d hpj hm
    show (x.w.set i _).content d = _
    rw [hFS]
    have hdi : d ≠ i := by
      intro hh; subst hh
      rw [(S.prodOk j d hpj).2.2.1] at hri; cases hri
    rw [hcont d hdi]
    rcases mem_snoc_code.mp hm with h1 | h1
    · exact I.prodOk j d hpj h1
    · cases h1

/-- Completing a producer: the call fills its slot and rewrites its dependent source `d`; everything completed so far is
    upstream of neither, so every from-scratch value recorded so far is still the from-scratch value. -/
theorem xinvP_prod {j d : Nat} (hp : pr j = some d) (hb : code (.orig j) ∈ s.begun) (hn : code (.orig j) ∉ s.okd) :
    let v := V.app j ((argSrcs (physFinal P) (.orig j)).map (x.get P))
    XInvP P pr w0 c0 (s.okd ++ [code (.orig j)])
      ⟨x.w.set d (some (v, x.clock)), fun b => if b = PN.orig j then some v else x.slot b, x.clock + 1⟩ := by
  intro v
  have hL := toLPlan_wf S.wf
  obtain ⟨hj, hjl, hd, hreach, _⟩ := S.prodOk j d hp
  have hstd : P.isStale d = true := producer_kept_stale S hp (begun_builtP S h hb).1
  have hv : v = FS P.toLPlan x.w j := orig_valueP S h I hb (by rw [hj]; simp)
  have htch : ∀ k, Tch pr (s.okd ++ [code (.orig j)]) k ↔ Tch pr s.okd k ∨ k = d := by
    intro k
    rw [tch_snoc]
    constructor
    · rintro (h1 | h1 | ⟨j', h1, h2⟩)
      · exact Or.inl h1
      · cases h1
      · simp only [PN.orig.injEq] at h1; subst h1
        rw [hp] at h2; exact Or.inr (Option.some.inj h2).symm
    · rintro (h1 | h1)
      · exact Or.inl h1
      · exact Or.inr (Or.inr ⟨j, rfl, by rw [h1]; exact hp⟩)
  have hjd : Path (physBuild P).edges (.orig j) (P.W d) := producer_path S hp hstd
  have hdown : ∀ k, d ≠ k → Cache.Reach P.toLPlan d k → Tch pr s.okd k → False := by
    intro k hne hr hk
    exact no_touched_downstream S h I (a := .orig j) (by simpa [PN.isLit] using hjl) hn hstd hd (Or.inl hjd) hne hr hk
  have hgood : Good P.toLPlan (x.w.set d (some (v, x.clock))) := good_update hL I.good hd I.below
  obtain ⟨f1, f2, f3, f4, f5, f6⟩ := world_touch S h I (i := d) (v := v) (D' := s.okd ++ [code (.orig j)])
    (x' := ⟨x.w.set d (some (v, x.clock)), fun b => if b = PN.orig j then some v else x.slot b, x.clock + 1⟩)
    rfl rfl htch hgood hdown
  -- whatever is not downstream of d keeps its from-scratch value
  have hFS : ∀ u, ¬ Cache.Reach P.toLPlan d u → FS P.toLPlan (x.w.set d (some (v, x.clock))) u = FS P.toLPlan x.w u := by
    intro u hnr
    apply FS_local hL
    intro q _ hr
    have hqd : q ≠ d := fun hh => hnr (hh ▸ hr)
    simp [World.content, World.set, hqd]
  have hcont : ∀ k, k ≠ d → (x.w.set d (some (v, x.clock))).content k = x.w.content k := by
    intro k hk; simp [World.content, World.set, hk]
  -- nothing completed so far is downstream of d
  have wait : ∀ {u : Nat} {a : PN}, Cache.Reach P.toLPlan d u →
      ((a = .read u ∧ ∃ sr, P.regOf u = some sr) ∨ (a = .write u ∧ P.regOf u = some false) ∨ (a = .orig u ∧ d ≠ u)) →
      code a ∈ s.okd → False := by
    intro u a hr ha hm
    exact hn (downstream_waits S h hp hstd hr ha (okd_begun h _ hm))
  have hnj : ¬ Cache.Reach P.toLPlan d j := by
    intro hr
    have h1 := Cache.Reach.le hL hr
    have h2 := Cache.Reach.le hL hreach
    have h3 : j ≠ d := by intro hh; rw [hh, hd] at hj; cases hj
    omega
  refine { clockLe := f1, below := f2, good := f3, untouched := f4, touched := f5, order := f6,
           readOk := ?_, origOk := ?_, writtenOk := ?_, prodOk := ?_ }
  · intro u hm
    rcases mem_snoc_code.mp hm with h1 | h1
    · have hreg := read_node_reg S.wf (okd_node h h1)
      have hnr : ¬ Cache.Reach P.toLPlan d u := fun hr => wait hr (Or.inl ⟨rfl, hreg⟩) h1
      show (if PN.read u = PN.orig j then some v else x.slot (.read u)) = some (FS P.toLPlan (x.w.set d _) u)
      simp only [reduceCtorEq, if_false]
      rw [hFS u hnr]; exact I.readOk u h1
    · cases h1
  · intro j' hm hl hs
    show (if PN.orig j' = PN.orig j then some v else x.slot (.orig j')) = some (FS P.toLPlan (x.w.set d _) j')
    by_cases hjj : j' = j
    · subst hjj
      simp only [if_true]
      rw [hFS j' hnj, hv]
    · have h1 : code (PN.orig j') ∈ s.okd := by
        rcases mem_snoc_code.mp hm with h1 | h1
        · exact h1
        · simp only [PN.orig.injEq] at h1; exact absurd h1 hjj
      have hdj : d ≠ j' := by
        intro hh; subst hh
        exact kept_orig_pruned S.wf hd (Or.inl rfl) (begun_builtP S h (okd_begun h _ h1)).1
      have hnr : ¬ Cache.Reach P.toLPlan d j' := fun hr => wait hr (Or.inr (Or.inr ⟨rfl, hdj⟩)) h1
      have hne : PN.orig j' ≠ PN.orig j := by simp [hjj]
      simp only [hne, if_false]
      rw [hFS j' hnr]; exact I.origOk j' h1 hl hs
  · intro k hm
    have h1 : code (PN.write k) ∈ s.okd := by
      rcases mem_snoc_code.mp hm with h1 | h1
      · exact h1
      · cases h1
    obtain ⟨hrk, _⟩ := write_node_reg S.wf (okd_node h h1)
    have hnr : ¬ Cache.Reach P.toLPlan d k := fun hr => wait hr (Or.inr (Or.inl ⟨rfl, hrk⟩)) h1
    have hkd : k ≠ d := by intro hh; subst hh; rw [hd] at hrk; cases hrk
    show (x.w.set d _).content k = _
    rw [hcont k hkd, hFS k hnr]; exact I.writtenOk k h1
  · intro j2 d2 hp2 hm
    show (x.w.set d _).content d2 = some (FS P.toLPlan (x.w.set d _) j2)
    by_cases hjj : j2 = j
    · subst hjj
      rw [hp] at hp2
      have : d2 = d := (Option.some.inj hp2).symm
      subst this
      rw [hFS j2 hnj, ← hv]
      simp [World.content, World.set]
    · have h1 : code (PN.orig j2) ∈ s.okd := by
        rcases mem_snoc_code.mp hm with h1 | h1
        · exact h1
        · simp only [PN.orig.injEq] at h1; exact absurd h1 hjj
      have hd2 : d2 ≠ d := fun hh => hjj (S.prodInj j2 j d (hh ▸ hp2) hp)
      have hdj : d ≠ j2 := by
        intro hh
        have := (S.prodOk j2 d2 hp2).1
        rw [← hh, hd] at this; cases this
      have hnr : ¬ Cache.Reach P.toLPlan d j2 := fun hr => wait hr (Or.inr (Or.inr ⟨rfl, hdj⟩)) h1
      rw [hcont d2 hd2, hFS j2 hnr]; exact I.prodOk j2 d2 hp2 h1

end stepsP

theorem execOrderP_snoc (P : Input) (pr : Nat → Option Nat) (x : XSt) (l : List Nat) (n : Nat) :
    execOrderP P pr x (l ++ [n]) = execNodeP P pr (physFinal P) (execOrderP P pr x l) (decode n) := by
  simp [execOrderP, List.foldl_append]

/-- **The invariant holds in every reachable state of the engine model** on the physical plan — for every worker count,
    `max_errors`, queue discipline, failure pattern and interleaving — with producers rewriting their dependent sources. -/
theorem xinvP_reach {P : Input} {pr : Nat → Option Nat} {w0 : World} {F : Option Int} {c0 : Int} (S : SetupP P pr w0 F c0)
    {cfg : Engine.Cfg} {s : Engine.St} (h : Engine.Reach (engineGraph P) cfg s) :
    XInvP P pr w0 c0 s.okd (execOrderP P pr (initX w0 c0) s.okd) := by
  induction h with
  | init => exact xinvP_init S
  | @step s s' l hr hs ih =>
    rcases okd_step hs with heq | ⟨w, n, hw, heq⟩
    · rw [heq]; exact ih
    · rw [heq, execOrderP_snoc]
      have hi := Engine.inv_reach (engine_wf P) hr
      obtain ⟨hnok, _, hbeg⟩ := hi.running n (List.mem_of_getElem? hw)
      obtain ⟨a, rfl, _⟩ := engine_node (Engine.begun_in_nodes (engine_wf P) hr _ hbeg)
      rw [decode_code]
      cases a with
      | orig j =>
        simp only [execNodeP]
        by_cases hl : P.lits.contains j = true
        · simp only [hl, if_true]
          exact xinvP_noop S hr ih (by simp) (by simp) (fun j' hj => by cases hj; exact hl)
        · simp only [hl, if_false]
          cases hp : pr j with
          | some d =>
            have := xinvP_prod S hr ih hp hbeg hnok
            simpa only [setSlot, Bool.false_eq_true, if_false] using this
          | none =>
            simp only
            apply xinvP_slot S hr ih (by simp)
            · intro j' d' hj hpj; cases hj; rw [hp] at hpj; cases hpj
            · intro u hu; cases hu
            · intro j' hj _ hs'
              cases hj
              exact orig_valueP S hr ih hbeg hs'
      | read u =>
        simp only [execNodeP, execNode]
        apply xinvP_slot S hr ih (by simp) (by intro j d hj; cases hj)
        · intro u' hu; cases hu; exact read_valueP S hr ih hbeg
        · intro j hj; cases hj
      | write i =>
        simp only [execNodeP, execNode]
        exact xinvP_write S hr ih hbeg hnok
      | storeLit i =>
        simp only [execNodeP, execNode]
        exact xinvP_noop S hr ih (by simp) (by simp) (fun j hj => by cases hj)
      | barrier i =>
        simp only [execNodeP, execNode]
        exact xinvP_noop S hr ih (by simp) (by simp) (fun j hj => by cases hj)

/-! ### a run that returns normally -/

/-- a node with a path to a kept node is kept by the ancestor pruning -/
theorem anc_closed_path {P : Input} (hP : P.WF) {a b : PN} (hab : Path (physBuild P).edges a b)
    (hb : b ∈ anc (physBuild P).edges (fuelOf P) (required P ++ (physOut P).toList)) :
    a ∈ anc (physBuild P).edges (fuelOf P) (required P ++ (physOut P).toList) := by
  induction hab with
  | single hadj => exact anc_closed code (built_rank hP) (fuel_ok P) hb hadj
  | cons _ hadj ih => exact ih (anc_closed code (built_rank hP) (fuel_ok P) hb hadj)

/-- The producer of an out-of-date source is part of the graph handed to the engine. -/
theorem producer_kept {P : Input} {pr : Nat → Option Nat} {w0 : World} {F : Option Int} {c0 : Int}
    (S : SetupP P pr w0 F c0) {j d : Nat} (hp : pr j = some d) (hst : P.isStale d = true) :
    code (.orig j) ∈ (engineGraph P).nodes := by
  obtain ⟨hj, hjl, hd, _, hjn⟩ := S.prodOk j d hp
  have hm : (d, true) ∈ P.reg := mem_of_regOf hd
  have hreq : P.W d ∈ required P ++ (physOut P).toList := by
    apply List.mem_append.mpr; left
    exact List.mem_map.mpr ⟨(d, true), List.mem_filter.mpr ⟨hm, hst⟩, rfl⟩
  have hanc : PN.orig j ∈ anc (physBuild P).edges (fuelOf P) (required P ++ (physOut P).toList) :=
    anc_closed_path S.wf (producer_path S hp hst) (subset_anc hreq)
  have hb0 : PN.orig j ∈ (physBuild P).nodes := orig_mem hjn
  have h1 : PN.orig j ∈ (pruneAnc (fuelOf P) (required P ++ (physOut P).toList) (physBuild P)).nodes :=
    mem_pruneAnc_nodes.mpr ⟨hb0, hanc⟩
  have h2 : PN.orig j ∈ (physFinal P).nodes := by
    unfold physFinal prunePlan pruneLiterals
    refine foldLit_nodes_keep h1 ?_
    intro hmem
    have := (List.mem_filter.mp hmem).2
    simp only [PN.isLit, Bool.and_eq_true] at this
    rw [hjl] at this
    exact absurd this.1 (by simp)
  exact engine_of_final h2 (by simpa [PN.isLit] using hjl)

end Uberjob.Exec
