import UberjobModel.Lemmas.Heap
/-! `Registry.copy` makes a new registry object with a new RegistryValue object per entry; mutating either registry
    (through its own mapping) never writes an object of the other. -/
namespace Uberjob.Heap

structure WFReg (h : Heap) (b r : Nat) (m : List (Nat × Nat)) : Prop where
  lt  : r < b
  reg : h r = some (.registry m)
  ent : ∀ ne ∈ m, ne.2 < b ∧ ∃ st bo fr, h ne.2 = some (.entry st bo fr)

theorem hb0 (w : Who) (k : Nat) : w.base ≤ w.addr k := by simp only [Who.addr]; omega

section copy
variable {w : Who} {t : T} {h : Heap} {r : Nat} {m : List (Nat × Nat)}

theorem regCopy_eq (hr : h r = some (.registry m)) :
    (regCopy w t h r).1.nxt = t.nxt + m.length + 1 ∧ (regCopy w t h r).2.2 = w.addr (t.nxt + m.length) ∧
    (regCopy w t h r).1.log = t.log := by
  simp [regCopy, hr]

theorem regCopy_old (hr : h r = some (.registry m)) {x : Nat} (hx : x < w.base) : (regCopy w t h r).2.1 x = h x := by
  simp only [regCopy, hr]
  have h1 : x ≠ w.addr (t.nxt + m.length) := by have := hb0 w (t.nxt + m.length); omega
  have h2 : ¬ (w.base + w.tid ≤ x ∧ (x - w.base - w.tid) % 2 = 0 ∧ t.nxt ≤ (x - w.base - w.tid) / 2 ∧
      (x - w.base - w.tid) / 2 < t.nxt + m.length) := by omega
  simp [h1, h2]

theorem regCopy_reg (hr : h r = some (.registry m)) :
    (regCopy w t h r).2.1 (w.addr (t.nxt + m.length)) =
      some (.registry (m.mapIdx (fun i ne => (ne.1, w.addr (t.nxt + i))))) := by
  simp [regCopy, hr]

theorem regCopy_entry (hr : h r = some (.registry m)) {i : Nat} (hi : i < m.length) :
    (regCopy w t h r).2.1 (w.addr (t.nxt + i)) = h (m[i]).2 := by
  simp only [regCopy, hr]
  have h1 : w.addr (t.nxt + i) ≠ w.addr (t.nxt + m.length) := by simp [addr_inj]; omega
  have e : w.addr (t.nxt + i) - w.base - w.tid = 2 * (t.nxt + i) := by simp only [Who.addr]; omega
  have h2 : (w.base + w.tid ≤ w.addr (t.nxt + i) ∧ (w.addr (t.nxt + i) - w.base - w.tid) % 2 = 0 ∧
      t.nxt ≤ (w.addr (t.nxt + i) - w.base - w.tid) / 2 ∧
      (w.addr (t.nxt + i) - w.base - w.tid) / 2 < t.nxt + m.length) := by
    rw [e]; simp only [Who.addr]; omega
  have e3 : (w.addr (t.nxt + i) - w.base - w.tid) / 2 - t.nxt = i := by rw [e]; omega
  simp only [h1, if_false, h2, and_self, if_true, e3]
  simp [List.getElem?_eq_getElem hi]

/-- the copy lists the same nodes with entry objects of equal contents -/
theorem regCopy_contents (hr : h r = some (.registry m)) :
    (snapReg (regCopy w t h r).2.1 (regCopy w t h r).2.2).map (List.map (fun x => (x.1, x.2.2))) =
      (snapReg h r).map (List.map (fun x => (x.1, x.2.2))) := by
  rw [(regCopy_eq hr).2.1]
  simp only [snapReg, regCopy_reg hr, hr, Option.map_some, Option.some.injEq, List.map_map]
  apply List.ext_getElem
  · simp
  · intro i h1 h2
    simp only [List.length_map, List.length_mapIdx] at h1
    simp only [List.getElem_map, List.getElem_mapIdx, Function.comp]
    rw [regCopy_entry hr h1]

end copy

/-- invariant while registry `x` is mutated: its entries lie in `E`, the registry object itself satisfies `E` or is `x` -/
structure RInv (E : Nat → Prop) (x : Nat) (s : T × Heap) : Prop where
  reg : ∃ mm, s.2 x = some (.registry mm) ∧ ∀ ne ∈ mm, E ne.2

/-- every write of a registry mutation goes to the registry object, to one of its entries, or to a new object -/
theorem rmut_step {w : Who} {E : Nat → Prop} {x : Nat} {s : T × Heap} (hi : RInv E x s) (hE : E (w.addr s.1.nxt))
    (hxE : ¬ E x) (rm : RMut) :
    RInv E x (applyRMut w s x rm) ∧ s.1.nxt ≤ (applyRMut w s x rm).1.nxt ∧
    (∀ y, y ≠ x → ¬ E y → (applyRMut w s x rm).2 y = s.2 y) := by
  obtain ⟨mm, hreg, hent⟩ := hi.reg
  have keep : RInv E x s ∧ s.1.nxt ≤ s.1.nxt ∧ ∀ y, y ≠ x → ¬ E y → s.2 y = s.2 y :=
    ⟨hi, Nat.le_refl _, fun _ _ _ => rfl⟩
  have hax : w.addr s.1.nxt ≠ x := fun e => hxE (e ▸ hE)
  cases rm with
  | add n st b fr =>
    simp only [applyRMut, hreg]
    refine ⟨⟨mm.filter (fun e => e.1 != n) ++ [(n, w.addr s.1.nxt)], by simp [upd], ?_⟩, by simp, ?_⟩
    · intro ne hne
      simp only [List.mem_append, List.mem_filter, List.mem_singleton] at hne
      rcases hne with hne | rfl
      · exact hent ne hne.1
      · exact hE
    · intro y hy hyE
      have : y ≠ w.addr s.1.nxt := fun e => hyE (e ▸ hE)
      simp [upd, hy, this]
  | remove n =>
    simp only [applyRMut, hreg]
    refine ⟨⟨mm.filter (fun e => e.1 != n), by simp [upd], ?_⟩, by simp [logw], ?_⟩
    · intro ne hne
      exact hent ne (List.mem_filter.mp hne).1
    · intro y hy _
      simp [upd, hy]
  | setSource n b =>
    simp only [applyRMut, hreg]
    split
    · next e he =>
      have heE : E e := by
        simp only [lookupEntry, Option.map_eq_some_iff] at he
        obtain ⟨ne, hf, rfl⟩ := he
        exact hent ne (List.mem_of_find?_eq_some hf)
      have hex : e ≠ x := fun e' => hxE (e' ▸ heE)
      split
      · refine ⟨⟨mm, by simp [upd, Ne.symm hex, hreg], hent⟩, by simp [logw], ?_⟩
        intro y hy hyE
        have : y ≠ e := fun e' => hyE (e' ▸ heE)
        simp [upd, this]
      · exact keep
    · exact keep
  | setStore n st =>
    simp only [applyRMut, hreg]
    split
    · next e he =>
      have heE : E e := by
        simp only [lookupEntry, Option.map_eq_some_iff] at he
        obtain ⟨ne, hf, rfl⟩ := he
        exact hent ne (List.mem_of_find?_eq_some hf)
      have hex : e ≠ x := fun e' => hxE (e' ▸ heE)
      split
      · refine ⟨⟨mm, by simp [upd, Ne.symm hex, hreg], hent⟩, by simp [logw], ?_⟩
        intro y hy hyE
        have : y ≠ e := fun e' => hyE (e' ▸ heE)
        simp [upd, this]
      · exact keep
    · exact keep

def execR (w : Who) (x : Nat) (s : T × Heap) (rms : List RMut) : T × Heap := rms.foldl (fun s rm => applyRMut w s x rm) s

/-- a whole sequence of mutations through registry `x`, for an entry class `E` that contains every later allocation -/
theorem rmut_exec {w : Who} {E : Nat → Prop} {x : Nat} (hxE : ¬ E x) (n0 : Nat) (hE : ∀ k, n0 ≤ k → E (w.addr k))
    (rms : List RMut) {s : T × Heap} (hn : n0 ≤ s.1.nxt) (hi : RInv E x s) :
    ∀ y, y ≠ x → ¬ E y → (execR w x s rms).2 y = s.2 y := by
  induction rms generalizing s with
  | nil => intro y _ _; rfl
  | cons rm rms ih =>
    obtain ⟨hi', hn', hf⟩ := rmut_step hi (hE _ hn) hxE rm
    intro y hy hyE
    show (execR w x (applyRMut w s x rm) rms).2 y = s.2 y
    rw [ih (Nat.le_trans hn hn') hi' y hy hyE, hf y hy hyE]

theorem snapReg_same {h1 h2 : Heap} {q : Nat} (hq : h2 q = h1 q)
    (he : ∀ mm, h1 q = some (.registry mm) → ∀ ne ∈ mm, h2 ne.2 = h1 ne.2) : snapReg h2 q = snapReg h1 q := by
  unfold snapReg
  rw [hq]
  cases hp : h1 q with
  | none => rfl
  | some o =>
    cases o with
    | registry mm =>
      simp only
      have : List.map (fun e => (e.1, e.2, h2 e.2)) mm = List.map (fun e => (e.1, e.2, h1 e.2)) mm :=
        List.map_congr_left (fun e hee => by rw [he mm hp e hee])
      rw [this]
    | _ => rfl

/-- **Mutating a `Registry.copy` leaves the original as it was** (its mapping and every RegistryValue object). -/
theorem regcopy_indep_copy {w : Who} {t : T} {h : Heap} {r : Nat} {m : List (Nat × Nat)} (hw : WFReg h w.base r m)
    (rms : List RMut) :
    let c := regCopy w t h r
    snapReg (execR w c.2.2 (c.1, c.2.1) rms).2 r = snapReg h r := by
  intro c
  obtain ⟨hnxt, har, _⟩ := regCopy_eq (w := w) (t := t) hw.reg
  let E : Nat → Prop := fun a => ∃ j, a = w.addr j ∧ j ≠ t.nxt + m.length
  have hxE : ¬ E c.2.2 := by
    rintro ⟨j, hj, hne⟩
    rw [har] at hj
    exact hne (addr_inj.mp hj).symm
  have hinv : RInv E c.2.2 (c.1, c.2.1) := by
    refine ⟨⟨_, by rw [har]; exact regCopy_reg hw.reg, ?_⟩⟩
    intro ne hne
    obtain ⟨i, hi, rfl⟩ := List.mem_mapIdx.mp hne
    exact ⟨t.nxt + i, rfl, by omega⟩
  have hfr := rmut_exec (w := w) (E := E) hxE (t.nxt + m.length + 1) (fun k hk => ⟨k, rfl, by omega⟩) rms
    (s := (c.1, c.2.1)) (by simp only [c]; omega) hinv
  have hlow : ∀ y, y < w.base → (execR w c.2.2 (c.1, c.2.1) rms).2 y = h y := by
    intro y hy
    rw [hfr y (by rw [har]; have := hb0 w (t.nxt + m.length); omega)
      (by rintro ⟨j, hj, _⟩; have := hb0 w j; omega)]
    exact regCopy_old hw.reg hy
  apply snapReg_same (hlow r hw.lt)
  intro mm hmm ne hne
  rw [hw.reg] at hmm; cases hmm
  exact hlow _ (hw.ent ne hne).1

/-- **Mutating the original after `Registry.copy` does not show through the copy.** -/
theorem regcopy_indep_original {w : Who} {t : T} {h : Heap} {r : Nat} {m : List (Nat × Nat)} (hw : WFReg h w.base r m)
    (rms : List RMut) :
    let c := regCopy w t h r
    snapReg (execR w r (c.1, c.2.1) rms).2 c.2.2 = snapReg c.2.1 c.2.2 := by
  intro c
  obtain ⟨hnxt, har, _⟩ := regCopy_eq (w := w) (t := t) hw.reg
  let E : Nat → Prop := fun a => a ≠ r ∧ a ≠ w.addr (t.nxt + m.length) ∧ ¬ ∃ i, i < m.length ∧ a = w.addr (t.nxt + i)
  have hxE : ¬ E r := fun hh => hh.1 rfl
  have hinv : RInv E r (c.1, c.2.1) := by
    refine ⟨⟨m, by simp only [c]; rw [regCopy_old hw.reg hw.lt]; exact hw.reg, ?_⟩⟩
    intro ne hne
    obtain ⟨hlt, st, bo, fr, hent⟩ := hw.ent ne hne
    refine ⟨?_, ?_, ?_⟩
    · intro e; rw [e, hw.reg] at hent; cases hent
    · have := hb0 w (t.nxt + m.length); omega
    · rintro ⟨i, _, hi⟩; have := hb0 w (t.nxt + i); omega
  have hfr := rmut_exec (w := w) (E := E) hxE (t.nxt + m.length + 1)
    (fun k hk => ⟨by have := hb0 w k; have := hw.lt; omega, by simp [addr_inj]; omega,
      by rintro ⟨i, hi, he⟩; have := addr_inj.mp he; omega⟩) rms
    (s := (c.1, c.2.1)) (by simp only [c]; omega) hinv
  have hrne : w.addr (t.nxt + m.length) ≠ r := by have := hb0 w (t.nxt + m.length); have := hw.lt; omega
  rw [har]
  apply snapReg_same
  · exact hfr _ hrne (fun hh => hh.2.1 rfl)
  · intro mm hmm ne hne
    rw [regCopy_reg hw.reg] at hmm
    cases hmm
    obtain ⟨i, hi, rfl⟩ := List.mem_mapIdx.mp hne
    exact hfr _ (by have := hb0 w (t.nxt + i); have := hw.lt; omega) (fun hh => hh.2.2 ⟨i, hi, rfl⟩)

end Uberjob.Heap
