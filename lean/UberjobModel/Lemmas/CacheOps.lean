import UberjobModel.Lemmas.CacheGood
import UberjobModel.Model.History
/-!
  `Good` is preserved by a write of the currently computed value, by a source update and by a deletion,
  each at ANY time and in ANY order (no scheduling assumption at all).
-/
namespace Uberjob.Cache
open Uberjob.Gen.Stale

theorem agree_set (w : World) (i : Nat) (s : Store) : Agree w (w.set i s) i := by
  intro j hj; simp [World.set, hj]

/-- Nodes below the changed store are unaffected. -/
theorem agree_below {P : LPlan} (hP : P.WF) {w w' : World} {i : Nat} (hag : Agree w w' i) (f : Option Int) :
    ∀ j, j < i → sres P w' f j = sres P w f j ∧ FS P w' j = FS P w j ∧ seen P w' j = seen P w j := by
  intro j
  induction j using Nat.strongRecOn with
  | ind j ih =>
    intro hji
    have hst : w'.st j = w.st j := hag j (by omega)
    have hmt : w'.mtime j = w.mtime j := by unfold World.mtime; rw [hst]
    have hct : w'.content j = w.content j := by unfold World.content; rw [hst]
    have hp : ∀ p ∈ P.preds j, p < i := fun p hp => by have := hP.predsLt j p hp; omega
    refine ⟨?_, ?_, ?_⟩
    · rw [sres_eq hP w' f j, sres_eq hP w f j]
      exact staleStepF_congr (fun p h => (ih p (hP.predsLt j p h) (hp p h)).1) hmt
    · rw [FS_eq hP w' j, FS_eq hP w j, hct]
      have : (P.args j).map (FS P w') = (P.args j).map (FS P w) :=
        List.map_congr_left (fun p h => (ih p (hP.predsLt j p (hP.argsSub j p h)) (hp p (hP.argsSub j p h))).2.1)
      rw [this]
    · rw [seen_eq hP w' j, seen_eq hP w j, hct]
      have : (P.args j).map (seen P w') = (P.args j).map (seen P w) :=
        List.map_congr_left (fun p h => (ih p (hP.predsLt j p (hP.argsSub j p h)) (hp p (hP.argsSub j p h))).2.2)
      rw [this]

/-- Under `Good`, a node that is not out of date gives its consumers its from-scratch value. -/
theorem seen_eq_FS {P : LPlan} (hP : P.WF) {w : World} (hg : Good P w) :
    ∀ i, isStale P w none i = false → seen P w i = FS P w i := by
  intro i
  induction i using Nat.strongRecOn with
  | ind i ih =>
    intro hns
    have hpreds : ∀ p ∈ P.preds i, isStale P w none p = false := by
      intro p hp
      cases h : isStale P w none p with
      | false => rfl
      | true => rw [stale_of_pred_stale w none hP hp h] at hns; cases hns
    rw [seen_eq hP, FS_eq hP]
    cases hreg : P.reg i with
    | none =>
      simp only
      have : (P.args i).map (seen P w) = (P.args i).map (FS P w) :=
        List.map_congr_left (fun p hp =>
          ih p (hP.predsLt i p (hP.argsSub i p hp)) (hpreds p (hP.argsSub i p hp)))
      rw [this]
    | some s =>
      cases s with
      | true => rfl
      | false =>
        simp only
        -- not stale ⇒ something is stored ⇒ by Good it is the from-scratch value
        cases hst : w.st i with
        | none =>
          exfalso
          unfold isStale at hns
          rw [sres_eq hP] at hns
          unfold staleStepF at hns
          have hm : w.mtime i = none := by unfold World.mtime; rw [hst]; rfl
          split at hns
          · cases hns
          · simp [hreg, hm] at hns
        | some vt =>
          obtain ⟨v, t⟩ := vt
          have := hg i hreg v t hst hns
          have hc : w.content i = some v := by unfold World.content; rw [hst]; rfl
          rw [hc, this, FS_eq hP, hreg]
          rfl

/-- The stale-check result at a store that has just been given the newest time `t`. -/
theorem touched_cls {P : LPlan} (hP : P.WF) {w : World} {i : Nat} {v : V} {t : Int} {s : Bool}
    (hreg : P.reg i = some s) (hbelow : w.below t) :
    isStale P (w.set i (some (v, t))) none i = true ∨ Hot P (w.set i (some (v, t))) none t i := by
  let w' := w.set i (some (v, t))
  have hag : Agree w w' i := agree_set w i _
  have hlow := agree_below hP hag none
  have hm : w'.mtime i = some t := by simp [w', World.mtime, World.set]
  have hrec := sres_eq hP w' none i
  unfold staleStepF at hrec
  by_cases hany : (P.preds i).any (fun p => (sres P w' none p).stale) = true
  · left; unfold isStale; rw [hrec]; simp [hany]
  · right
    have hany' : (P.preds i).any (fun p => (sres P w' none p).stale) = false := by simpa using hany
    simp only [hany', hreg, hm] at hrec
    have hnot : staleCond t (safeMax ((P.preds i).map (fun p => (sres P w' none p).tm))) none s = false := by
      cases hc : staleCond t (safeMax ((P.preds i).map (fun p => (sres P w' none p).tm))) none s with
      | false => rfl
      | true =>
        exfalso
        obtain ⟨a, ha, hlt⟩ := (staleCond_none_iff _ _ _).mp hc
        have hmem := safeMax_mem ha
        obtain ⟨p, hp, hpe⟩ := List.mem_map.mp hmem
        rw [(hlow p (hP.predsLt i p hp)).1] at hpe
        obtain ⟨k, hk⟩ := tm_is_mtime w none hP p a hpe
        have := hbelow k a hk
        omega
    simp only [hnot, Bool.false_eq_true, if_false] at hrec
    exact ⟨by rw [hrec], by rw [hrec]⟩

/-- Consequence of the perturbation lemma used three times below. -/
theorem good_elsewhere {P : LPlan} (hP : P.WF) {w w' : World} {i : Nat} {t : Int}
    (hg : Good P w) (hag : Agree w w' i) (hbelow : w.below t)
    (hi : isStale P w' none i = true ∨ Hot P w' none t i) :
    ∀ j, j ≠ i → P.reg j = some false → ∀ v tj, w'.st j = some (v, tj) →
      isStale P w' none j = false → v = FS P w' j := by
  intro j hji hreg v tj hst hns
  rcases perturb hP hag hbelow hi j with h1 | h1 | h1
  · rw [h1.2]
    apply hg j hreg v tj (by rw [← hag j hji]; exact hst)
    unfold isStale at hns ⊢
    rw [← h1.1]; exact hns
  · rw [hns] at h1; cases h1
  · rcases h1.2 with h2 | h2
    · exact absurd h2 hji
    · rw [hreg] at h2; cases h2

/-- **Write.**  Storing at node `i` the value its call computes from what its arguments give right now, with a
    modified time newer than everything else, keeps `Good` — whenever it happens. -/
theorem good_write {P : LPlan} (hP : P.WF) {w : World} (hg : Good P w) {i : Nat} {t : Int}
    (hreg : P.reg i = some false) (hbelow : w.below t) :
    Good P (w.set i (some (rawNow P w i, t))) := by
  intro j hregj v tj hst hns
  have hag : Agree w (w.set i (some (rawNow P w i, t))) i := agree_set w i _
  have hi := touched_cls (v := rawNow P w i) hP hreg hbelow
  by_cases hji : j = i
  · subst hji
    have hv : v = rawNow P w j := by
      simp [World.set] at hst; exact hst.1.symm
    have hlow := agree_below hP hag none
    -- no predecessor is stale, before or after
    have hpreds : ∀ p ∈ P.preds j, isStale P w none p = false := by
      intro p hp
      cases h : isStale P w none p with
      | false => rfl
      | true =>
        exfalso
        have : isStale P (w.set j (some (rawNow P w j, t))) none p = true := by
          unfold isStale at h ⊢; rw [(hlow p (hP.predsLt j p hp)).1]; exact h
        rw [stale_of_pred_stale _ none hP hp this] at hns; cases hns
    have hargs : (P.args j).map (FS P (w.set j (some (rawNow P w j, t)))) = (P.args j).map (seen P w) := by
      apply List.map_congr_left
      intro p hp
      have hpj := hP.predsLt j p (hP.argsSub j p hp)
      rw [(hlow p hpj).2.1]
      exact (seen_eq_FS hP hg p (hpreds p (hP.argsSub j p hp))).symm
    rw [hv, FS_eq hP, hregj]
    simp only
    rw [hargs]
    rfl
  · exact good_elsewhere hP hg hag hbelow hi j hji hregj v tj hst hns

/-- **Source update.**  Replacing what a source store holds (new modified time newer than everything) keeps `Good`:
    every stored value downstream becomes out of date. -/
theorem good_update {P : LPlan} (hP : P.WF) {w : World} (hg : Good P w) {s : Nat} {v : V} {t : Int}
    (hreg : P.reg s = some true) (hbelow : w.below t) :
    Good P (w.set s (some (v, t))) := by
  intro j hregj v' tj hst hns
  have hag : Agree w (w.set s (some (v, t))) s := agree_set w s _
  have hi := touched_cls (v := v) hP hreg hbelow
  have hjs : j ≠ s := by intro h; subst h; rw [hreg] at hregj; cases hregj
  exact good_elsewhere hP hg hag hbelow hi j hjs hregj v' tj hst hns

/-- **Deletion.**  Removing what a registered store holds keeps `Good`. -/
theorem good_delete {P : LPlan} (hP : P.WF) {w : World} (hg : Good P w) {i : Nat} {s : Bool} {t : Int}
    (hreg : P.reg i = some s) (hbelow : w.below t) :
    Good P (w.set i none) := by
  intro j hregj v' tj hst hns
  have hag : Agree w (w.set i none) i := agree_set w i _
  have hi : isStale P (w.set i none) none i = true ∨ Hot P (w.set i none) none t i := by
    left
    unfold isStale
    rw [sres_eq hP]
    unfold staleStepF
    have hm : (w.set i none).mtime i = none := by simp [World.mtime, World.set]
    split
    · rfl
    · simp [hreg, hm]
  have hji : j ≠ i := by
    intro h; subst h; simp [World.set] at hst
  exact good_elsewhere hP hg hag hbelow hi j hji hregj v' tj hst hns

/-- Nothing stored, nothing to be wrong. -/
theorem good_empty (P : LPlan) {w : World} (h : ∀ i, P.reg i = some false → w.st i = none) : Good P w := by
  intro i hreg v t hst; rw [h i hreg] at hst; cases hst

/-- One admissible event keeps `Good`. -/
theorem good_op {P : LPlan} (hP : P.WF) {w : World} (hg : Good P w) {op : HOp} (hok : OpOk P w op) :
    Good P (applyOp P w op) := by
  cases op with
  | write i t => exact good_write hP hg hok.1 hok.2
  | update s v t => exact good_update hP hg hok.1 hok.2
  | delete i =>
    obtain ⟨⟨s, hs⟩, ⟨t, ht⟩⟩ := hok
    exact good_delete hP hg hs ht

/-- **Every history keeps `Good`**: any finite sequence of completed writes (of any runs, cut anywhere, in any
    order), source updates and deletions. -/
theorem good_history {P : LPlan} (hP : P.WF) {w : World} (hg : Good P w) {ops : List HOp}
    (hok : OpsOk P w ops) : Good P (applyOps P w ops) := by
  induction ops generalizing w with
  | nil => exact hg
  | cons op ops ih =>
    simp only [applyOps, List.foldl_cons]
    exact ih (good_op hP hg hok.1) hok.2

end Uberjob.Cache
