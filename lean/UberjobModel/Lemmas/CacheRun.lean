import UberjobModel.Lemmas.CacheOps
/-!
  A COMPLETE successful run leaves nothing out of date (C05's "a repeated run does nothing", and the
  step from `Good` to "every stored value equals its from-scratch value" in C03).
-/
namespace Uberjob.Cache
open Uberjob.Gen.Stale

/-- `Reach P q j`: `q` is `j` or an ancestor of `j` (through argument and plain-dependency edges). -/
inductive Reach (P : LPlan) : Nat → Nat → Prop where
  | refl (j : Nat) : Reach P j j
  | step {q p j : Nat} : Reach P q p → p ∈ P.preds j → Reach P q j

theorem Reach.le {P : LPlan} (hP : P.WF) {q j : Nat} (h : Reach P q j) : q ≤ j := by
  induction h with
  | refl => exact Nat.le_refl _
  | step _ hp ih => have := hP.predsLt _ _ hp; omega

theorem stale_reach {P : LPlan} (hP : P.WF) (w : World) (f : Option Int) {q j : Nat}
    (hs : isStale P w f q = true) (h : Reach P q j) : isStale P w f j = true := by
  induction h with
  | refl => exact hs
  | step _ hp ih => exact stale_of_pred_stale w f hP hp ih

/-- The stale-check result of a node depends only on the stores of the node and its ancestors. -/
theorem cone_agree {P : LPlan} (hP : P.WF) {w w' : World} (f : Option Int) :
    ∀ j, (∀ q, Reach P q j → w'.st q = w.st q) → sres P w' f j = sres P w f j := by
  intro j
  induction j using Nat.strongRecOn with
  | ind j ih =>
    intro hc
    have hm : w'.mtime j = w.mtime j := by unfold World.mtime; rw [hc j (Reach.refl j)]
    rw [sres_eq hP w' f j, sres_eq hP w f j]
    apply staleStepF_congr _ hm
    intro p hp
    exact ih p (hP.predsLt j p hp) (fun q hq => hc q (Reach.step hq hp))

/-- Nothing newer upstream and nothing newer requested: up to date. -/
theorem staleCond_false_of (mt : Int) (anc F : Option Int) (s : Bool)
    (ha : ∀ a, anc = some a → a ≤ mt) (hf : ∀ f, F = some f → f ≤ mt) : staleCond mt anc F s = false := by
  unfold staleCond
  rw [safeMax_three]
  cases anc with
  | none =>
    cases F with
    | none => simp [optGt]
    | some f => have := hf f rfl; simp [optGt]; intro _; split <;> omega
  | some a =>
    have := ha a rfl
    cases F with
    | none => simp [optGt]; split <;> omega
    | some f => have := hf f rfl; simp [optGt]; repeat' split; all_goals omega

/-- **What a run (complete or cut short) has brought up to date.**
    `lin` lists the registered nodes the run rewrote so far, with the modified times they got.  A node `j` is up to
    date afterwards as soon as every registered node in its ancestor cone that was out of date has been rewritten. -/
theorem run_prefix_fresh {P : LPlan} (hP : P.WF) {w0 wf : World} {F : Option Int} {lin : List (Nat × Int)}
    (hUntouched : ∀ j, (∀ t, (j, t) ∉ lin) → wf.st j = w0.st j)
    (hTouched : ∀ j t, (j, t) ∈ lin → wf.mtime j = some t)
    (hOnlyStale : ∀ j t, (j, t) ∈ lin → (∃ s, P.reg j = some s) ∧ isStale P w0 F j = true)
    (hTimes : ∀ j t, (j, t) ∈ lin → w0.below t ∧ ∀ f, F = some f → f ≤ t)
    (hOrder : ∀ q tq k tk, (q, tq) ∈ lin → (k, tk) ∈ lin → q ≠ k → Reach P q k → tq < tk) :
    ∀ j, (∀ q s, Reach P q j → P.reg q = some s → isStale P w0 F q = true → ∃ t, (q, t) ∈ lin) →
      isStale P wf F j = false := by
  have key : ∀ j, (∀ q s, Reach P q j → P.reg q = some s → isStale P w0 F q = true → ∃ t, (q, t) ∈ lin) →
      isStale P wf F j = false ∧
      ∀ a, (sres P wf F j).tm = some a →
        (∃ i, w0.mtime i = some a) ∨ (∃ q tq, (q, tq) ∈ lin ∧ Reach P q j ∧ a = tq) := by
    intro j
    induction j using Nat.strongRecOn with
    | ind j ih' =>
      intro hsettled
      have ih : ∀ p, p ∈ P.preds j → isStale P wf F p = false ∧
          ∀ a, (sres P wf F p).tm = some a →
            (∃ i, w0.mtime i = some a) ∨ (∃ q tq, (q, tq) ∈ lin ∧ Reach P q p ∧ a = tq) :=
        fun p hp => ih' p (hP.predsLt j p hp) (fun q s hq => hsettled q s (Reach.step hq hp))
      have hany : (P.preds j).any (fun p => (sres P wf F p).stale) = false := by
        apply List.any_eq_false.mpr
        intro p hp
        have := (ih p hp).1
        unfold isStale at this; simp [this]
      have hrec := sres_eq hP wf F j
      unfold staleStepF at hrec
      simp only [hany, Bool.false_eq_true, if_false] at hrec
      -- where the ancestor time comes from
      have hanc : ∀ a, safeMax ((P.preds j).map (fun p => (sres P wf F p).tm)) = some a →
          (∃ i, w0.mtime i = some a) ∨ (∃ q tq, (q, tq) ∈ lin ∧ (∃ p ∈ P.preds j, Reach P q p) ∧ a = tq) := by
        intro a ha
        obtain ⟨p, hp, hpe⟩ := List.mem_map.mp (safeMax_mem ha)
        rcases (ih p hp).2 a hpe with h1 | ⟨q, tq, h1, h2, h3⟩
        · left; exact h1
        · right; exact ⟨q, tq, h1, ⟨p, hp, h2⟩, h3⟩
      by_cases htouch : ∃ t, (j, t) ∈ lin
      · -- rewritten in this run at time t
        obtain ⟨t, ht⟩ := htouch
        obtain ⟨⟨s, hreg⟩, _⟩ := hOnlyStale j t ht
        have hm := hTouched j t ht
        obtain ⟨hbelow, hF⟩ := hTimes j t ht
        have hns : staleCond t (safeMax ((P.preds j).map (fun p => (sres P wf F p).tm))) F s = false := by
          apply staleCond_false_of _ _ _ _ _ hF
          intro a ha
          rcases hanc a ha with ⟨i, hi⟩ | ⟨q, tq, hq, ⟨p, hp, hqp⟩, hea⟩
          · exact Int.le_of_lt (hbelow i a hi)
          · subst hea
            have hqj : q ≠ j := by
              have := hqp.le hP; have := hP.predsLt j p hp; omega
            exact Int.le_of_lt (hOrder q a j t hq ht hqj (Reach.step hqp hp))
        simp only [hreg, hm, hns, Bool.false_eq_true, if_false] at hrec
        refine ⟨by unfold isStale; rw [hrec], ?_⟩
        intro a ha
        rw [hrec] at ha; simp at ha; subst ha
        right; exact ⟨j, t, ht, Reach.refl j, rfl⟩
      · have hnt : ∀ t, (j, t) ∉ lin := fun t h => htouch ⟨t, h⟩
        cases hs0 : isStale P w0 F j with
        | true =>
          -- out of date before and not rewritten: it is not registered, and no predecessor is out of date now
          have hreg : P.reg j = none := by
            cases h : P.reg j with
            | none => rfl
            | some s => obtain ⟨t, ht⟩ := hsettled j s (Reach.refl j) h hs0; exact absurd ht (hnt t)
          simp only [hreg] at hrec
          refine ⟨by unfold isStale; rw [hrec], ?_⟩
          intro a ha
          rw [hrec] at ha; simp only at ha
          rcases hanc a ha with h1 | ⟨q, tq, hq, ⟨p, hp, hqp⟩, hea⟩
          · left; exact h1
          · right; exact ⟨q, tq, hq, Reach.step hqp hp, hea⟩
        | false =>
          -- up to date before: its whole ancestor cone is untouched
          have hcone : ∀ q, Reach P q j → wf.st q = w0.st q := by
            intro q hq
            apply hUntouched
            intro t ht
            have := stale_reach hP w0 F (hOnlyStale q t ht).2 hq
            rw [hs0] at this; cases this
          have heq := cone_agree hP F j hcone
          refine ⟨by unfold isStale at hs0 ⊢; rw [heq]; exact hs0, ?_⟩
          intro a ha
          rw [heq] at ha
          left; exact tm_is_mtime w0 F hP j a ha
  exact fun j hs => (key j hs).1

/-- **After a complete run nothing is out of date** (every out-of-date registered node was rewritten). -/
theorem complete_run_fresh {P : LPlan} (hP : P.WF) {w0 wf : World} {F : Option Int} {lin : List (Nat × Int)}
    (hUntouched : ∀ j, (∀ t, (j, t) ∉ lin) → wf.st j = w0.st j)
    (hTouched : ∀ j t, (j, t) ∈ lin → wf.mtime j = some t)
    (hOnlyStale : ∀ j t, (j, t) ∈ lin → (∃ s, P.reg j = some s) ∧ isStale P w0 F j = true)
    (hAllStale : ∀ j s, P.reg j = some s → isStale P w0 F j = true → ∃ t, (j, t) ∈ lin)
    (hTimes : ∀ j t, (j, t) ∈ lin → w0.below t ∧ ∀ f, F = some f → f ≤ t)
    (hOrder : ∀ q tq k tk, (q, tq) ∈ lin → (k, tk) ∈ lin → q ≠ k → Reach P q k → tq < tk) :
    ∀ j, isStale P wf F j = false :=
  fun j => run_prefix_fresh hP hUntouched hTouched hOnlyStale hTimes hOrder j
    (fun q s _ hreg hst => hAllStale q s hreg hst)

/-- Dropping `fresh_time` can only make fewer things out of date. -/
theorem stale_mono_fresh {P : LPlan} (hP : P.WF) (w : World) (F : Option Int) :
    ∀ j, isStale P w F j = false → sres P w none j = sres P w F j := by
  intro j
  induction j using Nat.strongRecOn with
  | ind j ih =>
    intro hns
    have hpreds : ∀ p ∈ P.preds j, isStale P w F p = false := by
      intro p hp
      cases h : isStale P w F p with
      | false => rfl
      | true => rw [stale_of_pred_stale w F hP hp h] at hns; cases hns
    have hsame : ∀ p ∈ P.preds j, sres P w none p = sres P w F p :=
      fun p hp => ih p (hP.predsLt j p hp) (hpreds p hp)
    have hany : (P.preds j).any (fun p => (sres P w F p).stale) = false := by
      apply List.any_eq_false.mpr
      intro p hp
      have := hpreds p hp
      unfold isStale at this; simp [this]
    unfold isStale at hns
    rw [sres_eq hP w F j] at hns ⊢
    rw [sres_eq hP w none j]
    have hcongr : staleStepF P w none (sres P w none) j = staleStepF P w none (sres P w F) j :=
      staleStepF_congr hsame rfl
    rw [hcongr]
    cases hreg : P.reg j with
    | none => simp only [staleStepF, hany, hreg]
    | some s =>
      cases hm : w.mtime j with
      | none => simp [staleStepF, hany, hreg, hm] at hns
      | some mt =>
        simp only [staleStepF, hany, hreg, hm, Bool.false_eq_true, if_false] at hns ⊢
        cases hF : staleCond mt (safeMax ((P.preds j).map (fun p => (sres P w F p).tm))) F s with
        | true => simp [hF] at hns
        | false =>
          have hN : staleCond mt (safeMax ((P.preds j).map (fun p => (sres P w F p).tm))) none s = false := by
            cases h : staleCond mt (safeMax ((P.preds j).map (fun p => (sres P w F p).tm))) none s with
            | false => rfl
            | true => rw [staleCond_mono_fresh _ _ F _ h] at hF; cases hF
          simp [hN]

end Uberjob.Cache
