import UberjobModel.Lemmas.PQueue
/-!
  The heap ORDER of the transcribed `heapq` algorithms (`Model/PQueue.lean`): `heapify` establishes it on any list, `heappush`
  and `heappop` keep it, and `heappop` returns an item of minimal key.  `HeapFrom k` is the order on the edges whose parent
  index is at least `k` (what `heapify` has established after `_siftup(x, k)`); `Sub s p` says position `p` lies in the subtree
  of `s` (`_siftdown(heap, startpos, pos)` never leaves it).
-/
namespace Uberjob.PQueue
open List

def par (i : Nat) : Nat := (i - 1) / 2

theorem swap_get (h : List E) (i j k : Nat) (a b : E) (ha : h[i]? = some a) (hb : h[j]? = some b) :
    (swap h i j)[k]? = if k = j then some a else if k = i then some b else h[k]? := by
  unfold swap
  rw [ha, hb]
  simp only
  obtain ⟨hi, _⟩ := List.getElem?_eq_some_iff.mp ha
  obtain ⟨hj, _⟩ := List.getElem?_eq_some_iff.mp hb
  grind

theorem par_lt {i : Nat} (h : 0 < i) : par i < i := by unfold par; omega

inductive Sub (s : Nat) : Nat → Prop
  | refl : Sub s s
  | child {p c : Nat} : Sub s p → 0 < c → par c = p → Sub s c

theorem sub_ge {s p : Nat} (h : Sub s p) : s ≤ p := by
  induction h with
  | refl => exact Nat.le_refl _
  | child _ hc hp ih => unfold par at hp; omega

theorem sub_par {s p : Nat} (h : Sub s p) (hlt : s < p) : Sub s (par p) := by
  cases h with
  | refl => omega
  | child h' hc hp => rw [hp]; exact h'

theorem sub_zero (n : Nat) : Sub 0 n := by
  induction n using Nat.strongRecOn with
  | _ n ih =>
    by_cases h0 : n = 0
    · subst h0; exact Sub.refl
    · exact Sub.child (ih (par n) (by unfold par; omega)) (by omega) rfl

/-- the heap property on every edge whose parent index is at least `k` -/
def HeapFrom (k : Nat) (h : List E) : Prop :=
  ∀ i a b, 0 < i → k ≤ par i → h[par i]? = some a → h[i]? = some b → a.1 ≤ b.1

structure SDInv (start pos : Nat) (h : List E) : Prop where
  sub : Sub start pos
  edges : ∀ i a b, 0 < i → start ≤ par i → i ≠ pos → h[par i]? = some a → h[i]? = some b → a.1 ≤ b.1
  grand : ∀ c a b, 0 < c → par c = pos → start < pos → h[par pos]? = some a → h[c]? = some b → a.1 ≤ b.1

theorem sdinv_swap {start pos : Nat} {h : List E} (inv : SDInv start pos h) (hlt : start < pos)
    {x p : E} (hx : h[pos]? = some x) (hp : h[par pos]? = some p) (hxp : x.1 < p.1) :
    SDInv start (par pos) (swap h pos (par pos)) := by
  have hsub := sub_par inv.sub hlt
  have hge := sub_ge hsub
  have hq : par pos < pos := by unfold par; omega
  refine ⟨hsub, ?_, ?_⟩
  · intro i a b hi hs hne ha hb
    rw [swap_get h pos (par pos) _ x p hx hp] at ha hb
    by_cases hip : i = pos
    · subst hip
      simp at ha
      have : i ≠ par i := by omega
      simp [this] at hb
      subst ha hb; omega
    · have hpi : par i < i := by unfold par; omega
      simp [hne, hip] at hb
      by_cases h1 : par i = par pos
      · simp [h1] at ha
        subst ha
        have := inv.edges i p b hi hs hip (by rw [h1]; exact hp) hb
        omega
      · by_cases h2 : par i = pos
        · have n3 : pos ≠ par pos := by omega
          simp [h2, n3] at ha
          subst ha
          exact inv.grand i p b hi h2 hlt hp hb
        · simp [h1, h2] at ha
          exact inv.edges i a b hi hs hip ha hb
  · intro c a b hc hpc hlt2 ha hb
    have hqq : par (par pos) < par pos := par_lt (by omega)
    have hge2 := sub_ge (sub_par hsub hlt2)
    rw [swap_get h pos (par pos) _ x p hx hp] at ha hb
    have n1 : par (par pos) ≠ par pos := by omega
    have n2 : par (par pos) ≠ pos := by omega
    simp [n1, n2] at ha
    have e1 := inv.edges (par pos) a p (by omega) hge2 (by omega) ha hp
    have hcq : c ≠ par pos := by have := par_lt hc; omega
    by_cases hcp : c = pos
    · have n3 : pos ≠ par pos := by omega
      simp [hcp, n3] at hb
      subst hb; exact e1
    · simp [hcq, hcp] at hb
      have := inv.edges c p b hc (by omega) hcp (by rw [hpc]; exact hp) hb
      omega

theorem siftDown_heap (start fuel : Nat) (h : List E) (pos : Nat) (inv : SDInv start pos h) (hf : pos < fuel) :
    HeapFrom start (siftDown start fuel h pos) := by
  induction fuel generalizing h pos with
  | zero => omega
  | succ n ih =>
    simp only [siftDown]
    have fin : ∀ (hh : ∀ a b, h[par pos]? = some a → h[pos]? = some b → start ≤ par pos → 0 < pos → a.1 ≤ b.1), HeapFrom start h := by
      intro hh i a b hi hs ha hb
      by_cases hip : i = pos
      · subst hip; exact hh a b ha hb hs hi
      · exact inv.edges i a b hi hs hip ha hb
    split
    · rename_i hlt
      have hq : par pos < pos := by unfold par; omega
      cases hx : h[pos]? with
      | none =>
        apply fin; intro a b _ hb; rw [hx] at hb; cases hb
      | some x =>
        have hp' : h[(pos - 1) / 2]? = h[par pos]? := rfl
        cases hp : h[(pos - 1) / 2]? with
        | none =>
          apply fin; intro a b ha; rw [← hp', hp] at ha; cases ha
        | some p =>
          simp only []
          split
          · rename_i hxp
            exact ih _ _ (sdinv_swap inv hlt hx (hp'.symm.trans hp) hxp) (by omega)
          · rename_i hxp
            apply fin; intro a b ha hb _ _
            rw [← hp', hp] at ha; rw [hx] at hb
            cases ha; cases hb; omega
    · rename_i hle
      have := sub_ge inv.sub
      apply fin
      intro a b _ _ hs hp
      unfold par at hs; omega

structure BInv (start pos : Nat) (h : List E) : Prop where
  sub : Sub start pos
  edges : ∀ i a b, 0 < i → start ≤ par i → i ≠ pos → par i ≠ pos → h[par i]? = some a → h[i]? = some b → a.1 ≤ b.1
  grand : ∀ c a b, 0 < c → par c = pos → start < pos → h[par pos]? = some a → h[c]? = some b → a.1 ≤ b.1

theorem par_child (c pos : Nat) : (0 < c ∧ par c = pos) ↔ (c = 2 * pos + 1 ∨ c = 2 * pos + 2) := by
  unfold par; omega

/-- one step of the `_siftup` loop: `c` is the smaller child of `pos` -/
theorem binv_swap {start pos c : Nat} {h : List E} (inv : BInv start pos h) {x y : E}
    (hx : h[pos]? = some x) (hy : h[c]? = some y) (hc : c = 2 * pos + 1 ∨ c = 2 * pos + 2)
    (hmin : ∀ d z, (d = 2 * pos + 1 ∨ d = 2 * pos + 2) → h[d]? = some z → y.1 ≤ z.1) :
    BInv start c (swap h pos c) := by
  have hcp := (par_child c pos).mpr hc
  have hge := sub_ge inv.sub
  refine ⟨Sub.child inv.sub hcp.1 hcp.2, ?_, ?_⟩
  · intro i a b hi hs hne hpne ha hb
    have hpi := par_lt hi
    rw [swap_get h pos c _ x y hx hy] at ha hb
    simp [hne, hpne] at ha hb
    by_cases hip : i = pos
    · subst hip
      have n1 : par i ≠ i := by omega
      simp [n1] at ha
      simp at hb; subst hb
      exact inv.grand c a y hcp.1 hcp.2 (by omega) ha hy
    · simp [hip] at hb
      by_cases h2 : par i = pos
      · simp [h2] at ha; subst ha
        exact hmin i b ((par_child i pos).mp ⟨hi, h2⟩) hb
      · simp [h2] at ha
        exact inv.edges i a b hi hs hip h2 ha hb
  · intro d a b hd hpd hlt ha hb
    rw [swap_get h pos c _ x y hx hy] at ha hb
    have hdc := par_lt hd
    have n1 : par c ≠ c := by omega
    have n2 : d ≠ c := by omega
    have n3 : d ≠ pos := by omega
    have n4 : pos ≠ c := by omega
    simp [hcp.2, n4] at ha
    simp [n2, n3] at hb
    subst ha
    exact inv.edges d y b hd (by omega) n3 (by omega) (by rw [hpd]; exact hy) hb

theorem bubble_inv (start fuel : Nat) (h : List E) (pos : Nat) (inv : BInv start pos h) (hf : h.length ≤ fuel + pos) :
    BInv start (bubble fuel h pos).2 (bubble fuel h pos).1 ∧ (bubble fuel h pos).1.length ≤ 2 * (bubble fuel h pos).2 + 1 := by
  induction fuel generalizing h pos with
  | zero => simp only [bubble]; exact ⟨inv, by omega⟩
  | succ n ih =>
    simp only [bubble]
    split
    · rename_i hlt
      obtain ⟨x, hx⟩ : ∃ x, h[pos]? = some x := ⟨h[pos]'(by omega), List.getElem?_eq_getElem (by omega)⟩
      obtain ⟨a, ha⟩ : ∃ a, h[2 * pos + 1]? = some a := ⟨h[2 * pos + 1]'hlt, List.getElem?_eq_getElem hlt⟩
      rw [ha]
      cases hb : h[2 * pos + 1 + 1]? with
      | none =>
        simp only []
        have hlen : h.length ≤ 2 * pos + 2 := by
          rcases List.getElem?_eq_none_iff.mp hb with h1; omega
        have inv' := binv_swap inv hx ha (Or.inl rfl) (by
          intro d z hd hz
          rcases hd with rfl | rfl
          · rw [ha] at hz; cases hz; exact Int.le_refl _
          · rw [List.getElem?_eq_none (by omega)] at hz; cases hz)
        exact ih _ _ inv' (by simp; omega)
      | some b =>
        simp only []
        by_cases hab : a.1 < b.1
        · simp only [hab, decide_true, Bool.not_true, Bool.false_eq_true, if_false]
          have inv' := binv_swap inv hx ha (Or.inl rfl) (by
            intro d z hd hz
            rcases hd with rfl | rfl
            · rw [ha] at hz; cases hz; exact Int.le_refl _
            · rw [hb] at hz; cases hz; omega)
          exact ih _ _ inv' (by simp; omega)
        · simp only [hab, decide_false, Bool.not_false, if_true]
          have inv' := binv_swap inv hx hb (Or.inr rfl) (by
            intro d z hd hz
            rcases hd with rfl | rfl
            · rw [ha] at hz; cases hz; omega
            · rw [hb] at hz; cases hz; exact Int.le_refl _)
          exact ih _ _ inv' (by simp; omega)
    · rename_i hge
      exact ⟨inv, by simp only []; omega⟩


theorem bubble_length (fuel : Nat) (h : List E) (pos : Nat) : (bubble fuel h pos).1.length = h.length :=
  (bubble_perm fuel h pos).length_eq

/-- `_siftup(heap, k)` repairs the edges out of `k` when everything below is in order. -/
theorem siftUp_heap (h : List E) (k : Nat) (hh : HeapFrom (k + 1) h) : HeapFrom k (siftUp h k) := by
  unfold siftUp
  have inv0 : BInv k k h := by
    refine ⟨Sub.refl, ?_, ?_⟩
    · intro i a b hi hs hne hpne ha hb
      exact hh i a b hi (by omega) ha hb
    · intro c a b _ _ hlt; omega
  obtain ⟨inv, hleaf⟩ := bubble_inv k h.length h k inv0 (by omega)
  apply siftDown_heap _ _ _ _ _ (by omega)
  refine ⟨inv.sub, ?_, inv.grand⟩
  intro i a b hi hs hne ha hb
  by_cases hp : par i = (bubble h.length h k).2
  · have := (par_child i _).mp ⟨hi, hp⟩
    have hlt : i < (bubble h.length h k).1.length := (List.getElem?_eq_some_iff.mp hb).1
    omega
  · exact inv.edges i a b hi hs hne hp ha hb

theorem heapFrom_mono {k m : Nat} {h : List E} (hh : HeapFrom k h) (hkm : k ≤ m) : HeapFrom m h :=
  fun i a b hi hs ha hb => hh i a b hi (by omega) ha hb

/-- `heappush` keeps the heap order. -/
theorem push_heap (h : List E) (x : E) (hh : HeapFrom 0 h) : HeapFrom 0 (push h x) := by
  unfold push
  apply siftDown_heap _ _ _ _ _ (by omega)
  refine ⟨sub_zero _, ?_, ?_⟩
  · intro i a b hi _ hne ha hb
    have hlt : i < (h ++ [x]).length := (List.getElem?_eq_some_iff.mp hb).1
    simp at hlt
    have hpi := par_lt hi
    rw [List.getElem?_append_left (by omega)] at ha hb
    exact hh i a b hi (by omega) ha hb
  · intro c a b hc hpc _ _ hb
    have hlt : c < (h ++ [x]).length := (List.getElem?_eq_some_iff.mp hb).1
    simp at hlt
    have := (par_child c _).mp ⟨hc, hpc⟩
    omega

/-- the root of a heap carries a minimal key -/
theorem heap_root_min (h : List E) (hh : HeapFrom 0 h) (i : Nat) (r b : E) (hr : h[0]? = some r) (hb : h[i]? = some b) :
    r.1 ≤ b.1 := by
  induction i using Nat.strongRecOn generalizing b with
  | _ i ih =>
    by_cases h0 : i = 0
    · subst h0; rw [hr] at hb; cases hb; exact Int.le_refl _
    · have hpi := par_lt (Nat.pos_of_ne_zero h0)
      have hlt : i < h.length := (List.getElem?_eq_some_iff.mp hb).1
      obtain ⟨a, ha⟩ : ∃ a, h[par i]? = some a := ⟨h[par i]'(by omega), List.getElem?_eq_getElem (by omega)⟩
      have := ih (par i) hpi a ha
      have := hh i a b (by omega) (by omega) ha hb
      omega

/-- `heappop` on a heap: what remains is a heap, and nothing that remains has a smaller key than the item returned. -/
theorem pop_heap (h : List E) (x : E) (rest : List E) (hh : HeapFrom 0 h) (hp : pop h = some (x, rest)) :
    HeapFrom 0 rest ∧ ∀ y ∈ rest, x.1 ≤ y.1 := by
  have hperm := pop_perm h x rest hp
  have hmin : ∀ y ∈ h, h[0]? = some x → x.1 ≤ y.1 := by
    intro y hy hx
    obtain ⟨i, hi, rfl⟩ := List.getElem_of_mem hy
    exact heap_root_min h hh i x _ hx (List.getElem?_eq_getElem hi)
  unfold pop at hp
  cases hq : h.getLast? with
  | none => rw [hq] at hp; cases hp
  | some y =>
    rw [hq] at hp
    have hne : h ≠ [] := by intro h0; rw [h0] at hq; simp at hq
    have hy : h.getLast hne = y := by
      have := List.getLast?_eq_some_getLast hne
      rw [hq] at this; exact (Option.some.inj this).symm
    have hsplit : h.dropLast ++ [y] = h := by rw [← hy]; exact List.dropLast_concat_getLast hne
    cases hd : h.dropLast with
    | nil =>
      rw [hd] at hp
      simp at hp
      obtain ⟨rfl, rfl⟩ := hp
      exact ⟨fun i a b _ _ ha _ => by simp at ha, by simp⟩
    | cons a t =>
      rw [hd] at hp hsplit
      simp only [Option.some.injEq, Prod.mk.injEq] at hp
      obtain ⟨rfl, rfl⟩ := hp
      refine ⟨?_, ?_⟩
      · apply siftUp_heap
        intro i p c hi hs hpa hc
        have hpi := par_lt hi
        have hlt : i < (y :: t).length := (List.getElem?_eq_some_iff.mp hc).1
        simp at hlt
        have e1 : ∀ j, 0 < j → j < t.length + 1 → (y :: t)[j]? = h[j]? := by
          intro j hj hjl
          rw [← hsplit]
          obtain ⟨j', rfl⟩ : ∃ j', j = j' + 1 := ⟨j - 1, by omega⟩
          simp only [List.getElem?_cons_succ, List.cons_append]
          rw [List.getElem?_append_left (by omega)]
        rw [e1 _ (by omega) (by omega)] at hpa
        rw [e1 _ hi (by omega)] at hc
        exact hh i p c hi (by omega) hpa hc
      · intro z hz
        apply hmin z
        · have : z ∈ a :: siftUp (y :: t) 0 := List.mem_cons_of_mem _ hz
          exact hperm.symm.subset this
        · rw [← hsplit]; simp

theorem foldl_siftUp_heap (m : Nat) (h : List E) (hh : HeapFrom m h) :
    HeapFrom 0 ((List.range m).reverse.foldl siftUp h) := by
  induction m generalizing h with
  | zero => simpa using hh
  | succ n ih =>
    rw [List.range_succ, List.reverse_append]
    simp only [List.reverse_cons, List.reverse_nil, List.nil_append, List.cons_append, List.foldl_cons]
    exact ih _ (siftUp_heap h n hh)

/-- `heapify` establishes the heap order on any list. -/
theorem heapify_heap (h : List E) : HeapFrom 0 (heapify h) := by
  unfold heapify
  apply foldl_siftUp_heap
  intro i a b hi hs _ hb
  have hlt : i < h.length := (List.getElem?_eq_some_iff.mp hb).1
  unfold par at hs
  omega


/-- one queue operation: `some v` = `_put(v)`, `none` = `_get()` (a `_get` on an empty queue does not happen: `Queue.get`
    waits for `_qsize() > 0`) -/
def stepQ (prio : Nat → Int) (h : List E) : Option Nat → List E
  | some v => put prio h v
  | none => match get h with
    | some (_, rest) => rest
    | none => h

theorem get_heap (h : List E) (v : Nat) (rest : List E) (hh : HeapFrom 0 h) (hg : get h = some (v, rest)) :
    HeapFrom 0 rest ∧ ∃ k, (k, v) ∈ h ∧ ∀ y ∈ rest, k ≤ y.1 := by
  unfold get at hg
  cases hp : pop h with
  | none => rw [hp] at hg; cases hg
  | some r =>
    rw [hp] at hg
    obtain ⟨x, rest'⟩ := r
    simp at hg
    obtain ⟨rfl, rfl⟩ := hg
    have := pop_heap h x rest' hh hp
    exact ⟨this.1, x.1, (pop_perm h x rest' hp).symm.subset (List.mem_cons_self ..), this.2⟩

/-- every state of the priority queue reachable from its constructor is a heap -/
theorem reach_heap (prio : Nat → Int) (items : List Nat) (ops : List (Option Nat)) :
    HeapFrom 0 (ops.foldl (stepQ prio) (init prio items)) := by
  have h0 : HeapFrom 0 (init prio items) := heapify_heap _
  generalize init prio items = h at h0
  induction ops generalizing h with
  | nil => exact h0
  | cons op ops ih =>
    simp only [List.foldl_cons]
    apply ih
    cases op with
    | some v => exact push_heap h _ h0
    | none =>
      simp only [stepQ]
      cases hg : get h with
      | none => exact h0
      | some r => exact (get_heap h r.1 r.2 h0 hg).1

end Uberjob.PQueue
