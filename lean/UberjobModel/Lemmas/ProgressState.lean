import UberjobModel.Lemmas.ProgressTrace
/-!
The bookkeeping invariant `Sync p s` ("the `State` object `s` is exactly what the notifications `p` say") and its
preservation by every step of a legal sequence, with no `KeyError`.
-/
namespace Uberjob.Progress
open Uberjob.Gen.Progress

theorem sum_map_ite_of_mem (keys : List Key) (f : Key → Int) (k : Key) (v : Int) (hn : keys.Nodup) (hk : k ∈ keys) :
    (keys.map (fun x => if x = k then v else f x)).sum = (keys.map f).sum - f k + v := by
  induction keys with
  | nil => cases hk
  | cons a l ih =>
    simp only [List.map_cons, List.sum_cons]
    have hn' := List.nodup_cons.mp hn
    by_cases ha : a = k
    · subst ha
      have : (l.map (fun x => if x = a then v else f x)) = l.map f := by
        apply List.map_congr_left; intro x hx
        have : x ≠ a := fun h => hn'.1 (h ▸ hx)
        simp [this]
      simp [this]; omega
    · have hk' : k ∈ l := by
        cases hk with
        | head => exact absurd rfl ha
        | tail _ h => exact h
      rw [ih hn'.2 hk']; simp [ha]; omega

theorem map_ite_of_not_mem {β : Type} (keys : List Key) (f : Key → β) (k : Key) (v : β) (hk : k ∉ keys) :
    keys.map (fun x => if x = k then v else f x) = keys.map f := by
  apply List.map_congr_left; intro x hx
  have : x ≠ k := fun h => hk (h ▸ hx)
  simp [this]

structure Sync (p : List Notif) (s : PState) : Prop where
  nodup : s.keys.Nodup
  present : ∀ k, announced k p = true → k ∈ s.keys
  running : ∀ k ∈ s.keys, (s.cell k).running = (runs k p : Int) - (fins k p : Int)
  done : ∀ k ∈ s.keys, (s.cell k).completed + (s.cell k).failed = (fins k p : Int)
  nonneg : ∀ k ∈ s.keys, 0 ≤ (s.cell k).completed ∧ 0 ≤ (s.cell k).failed
  total : ∀ k ∈ s.keys, (s.cell k).total = (totalSum k p : Int)
  inSet : ∀ k ∈ s.keys, (s.cell k).inSet = ((s.cell k).running != 0)
  rcSum : s.rc = sumRunning s
  rcAct : s.rc = active p

theorem sync_init (start : Rat) : Sync [] (PState.init start) := by
  constructor <;> simp [PState.init, announced, sumRunning, active]

@[simp] theorem uwe_keys (s : PState) (t : Rat) : (uwe s t).keys = s.keys := by unfold uwe; split <;> rfl
@[simp] theorem uwe_cell (s : PState) (t : Rat) : (uwe s t).cell = s.cell := by unfold uwe; split <;> rfl
@[simp] theorem uwe_rc (s : PState) (t : Rat) : (uwe s t).rc = s.rc := by unfold uwe; split <;> rfl
@[simp] theorem uwe_prev (s : PState) (t : Rat) : (uwe s t).prev = t := by unfold uwe; split <;> rfl

theorem Sync.afterUwe {p : List Notif} {s : PState} (h : Sync p s) (t : Rat) : Sync p (uwe s t) := by
  obtain ⟨h1, h2, h3, h4, h5, h6, h7, h8, h9⟩ := h
  constructor <;> simp only [uwe_keys, uwe_cell, uwe_rc, sumRunning] <;> assumption

theorem totalSum_eq_zero {k : Key} {p : List Notif} (h : announced k p = false) : totalSum k p = 0 := by
  induction p with
  | nil => rfl
  | cons a l ih =>
    simp only [announced, List.any_cons, Bool.or_eq_false_iff] at h
    simp only [totalSum, List.map_cons, List.sum_cons]
    have h2 : totalSum k l = 0 := ih (by simpa [announced] using h.2)
    have h1 : a.amount k = 0 := by
      cases a <;> simp_all [Notif.amount, Notif.isTotal]
    simp only [totalSum] at h2
    omega

theorem other_key {n : Notif} {k k' : Key} (hn : n.key? = some k) (hne : k' ≠ k) :
    n.isRun k' = false ∧ n.isFin k' = false ∧ n.amount k' = 0 ∧ n.isTotal k' = false := by
  cases n <;> simp_all [Notif.key?, Notif.isRun, Notif.isFin, Notif.amount, Notif.isTotal] <;> grind

/-- `setdefault` of a key that was not announced yet keeps the invariant -/
theorem Sync.afterEnsure {b p : List Notif} {s : PState} (hb : PLegal b) (hp : p <+: b) (h : Sync p s) (k : Key) :
    Sync p (ensure s k) ∧ k ∈ (ensure s k).keys := by
  unfold Progress.ensure
  by_cases hk : k ∈ s.keys
  · rw [if_pos hk]; exact ⟨h, hk⟩
  · rw [if_neg hk]
    have hann : announced k p = false := by
      cases ha : announced k p with
      | false => rfl
      | true => exact absurd (h.present k ha) hk
    have hr : runs k p = 0 := by
      cases hr : runs k p with
      | zero => rfl
      | succ m => have := hb.announced_of_runs (k := k) hp (by omega); simp [hann] at this
    have hf : fins k p = 0 := by have := hb.finLeRun p k hp; omega
    have ht := totalSum_eq_zero hann
    refine ⟨?_, by simp⟩
    constructor
    · refine List.nodup_append.mpr ⟨h.nodup, by simp, ?_⟩
      intro a ha b hb
      simp only [List.mem_singleton] at hb
      subst hb
      exact fun hab => hk (hab ▸ ha)
    · intro k' hk'; simp; exact Or.inl (h.present k' hk')
    all_goals try (intro k' hk'
                   simp only [List.mem_append, List.mem_singleton] at hk'
                   by_cases hkk : k' = k
                   · subst hkk; simp [upd, Cell.init, hr, hf, ht]
                   · have hk'' : k' ∈ s.keys := by cases hk' with | inl h => exact h | inr h => exact absurd h hkk
                     simp only [upd, hkk, if_false]
                     first | exact h.running k' hk'' | exact h.done k' hk'' | exact h.nonneg k' hk''
                           | exact h.total k' hk'' | exact h.inSet k' hk'')
    · simp only [sumRunning, List.map_append, List.sum_append, List.map_cons, List.map_nil, List.sum_cons, List.sum_nil]
      have : s.keys.map (fun x => (upd s.cell k Cell.init x).running) = s.keys.map (fun x => (s.cell x).running) := by
        apply List.map_congr_left; intro x hx
        have : x ≠ k := fun h => hk (h ▸ hx)
        simp [upd, this]
      rw [this]; simp [upd, Cell.init]; exact h.rcSum
    · exact h.rcAct

/-- updating the cell of a present key to what the longer trace says -/
theorem Sync.update {p : List Notif} {s : PState} {n : Notif} {k : Key} {c : Cell} {rc' : Int}
    (hs : Sync p s) (hk : k ∈ s.keys) (hn : n.key? = some k)
    (hrun : c.running = (runs k (p ++ [n]) : Int) - (fins k (p ++ [n]) : Int))
    (hdone : c.completed + c.failed = (fins k (p ++ [n]) : Int))
    (hnn : 0 ≤ c.completed ∧ 0 ≤ c.failed)
    (htot : c.total = (totalSum k (p ++ [n]) : Int))
    (hin : c.inSet = (c.running != 0))
    (hrc : rc' = s.rc + (c.running - (s.cell k).running))
    (hact : rc' = active (p ++ [n])) :
    Sync (p ++ [n]) { s with cell := upd s.cell k c, rc := rc' } := by
  have hoth : ∀ k', k' ≠ k → runs k' (p ++ [n]) = runs k' p ∧ fins k' (p ++ [n]) = fins k' p
      ∧ totalSum k' (p ++ [n]) = totalSum k' p := by
    intro k' hne
    obtain ⟨a, b, c, _⟩ := other_key hn hne
    simp [runs_snoc, fins_snoc, totalSum_snoc, a, b, c]
  constructor
  · exact hs.nodup
  · intro k' hk'
    rw [announced_snoc] at hk'
    by_cases hkk : k' = k
    · subst hkk; exact hk
    · have := (other_key hn hkk).2.2.2
      simp [this] at hk'; exact hs.present k' hk'
  all_goals try (intro k' hk'
                 by_cases hkk : k' = k
                 · subst hkk; simp only [upd, if_true]; assumption
                 · obtain ⟨o1, o2, o3⟩ := hoth k' hkk
                   simp only [upd, hkk, if_false, o1, o2, o3]
                   first | exact hs.running k' hk' | exact hs.done k' hk' | exact hs.nonneg k' hk'
                         | exact hs.total k' hk' | exact hs.inSet k' hk')
  · show rc' = ((s.keys.map (fun x => (upd s.cell k c x).running)).sum)
    have : (fun x => (upd s.cell k c x).running) = fun x => if x = k then c.running else (fun y => (s.cell y).running) x := by
      funext x; simp only [upd]; split <;> rfl
    rw [this, sum_map_ite_of_mem _ _ _ _ hs.nodup hk, hrc, hs.rcSum]; simp only [sumRunning]; omega
  · exact hact

theorem stepCompleted_ok (c : Cell) (rc : Int) (h1 : 1 ≤ c.running) (hi : c.inSet = (c.running != 0)) :
    ∃ c', stepCompleted c rc = .ok c' (rc - 1) ∧ c'.running = c.running - 1 ∧ c'.completed = c.completed + 1
      ∧ c'.failed = c.failed ∧ c'.total = c.total ∧ c'.inSet = (c'.running != 0) := by
  have hin : c.inSet = true := by rw [hi]; simp; omega
  unfold stepCompleted
  by_cases h0 : c.running - 1 = 0
  · simp [h0, hin]
  · simp [h0, hin]

theorem stepFailed_ok (c : Cell) (rc : Int) (h1 : 1 ≤ c.running) (hi : c.inSet = (c.running != 0)) :
    ∃ c', stepFailed c rc = .ok c' (rc - 1) ∧ c'.running = c.running - 1 ∧ c'.completed = c.completed
      ∧ c'.failed = c.failed + 1 ∧ c'.total = c.total ∧ c'.inSet = (c'.running != 0) := by
  have hin : c.inSet = true := by rw [hi]; simp; omega
  unfold stepFailed
  by_cases h0 : c.running - 1 = 0
  · simp [h0, hin]
  · simp [h0, hin]

/-- One notification of a legal body: no `KeyError`, and the invariant is kept. -/
theorem Sync.step {b p : List Notif} {s : PState} {n : Notif} (hb : PLegal b) (hs : Sync p s)
    (hp : p ++ [n] <+: b) (t : Rat) : ∃ s', stepNotif s t n = .ok s' ∧ Sync (p ++ [n]) s' := by
  have hpb : p <+: b := (List.prefix_append p _).trans hp
  have hmem : n ∈ b := hp.subset (by simp)
  cases n with
  | enter => exact absurd hmem hb.noEnter
  | exit => exact absurd hmem hb.noExit
  | total sec sc m =>
    obtain ⟨he, hke⟩ := hs.afterEnsure hb hpb (sec, sc)
    have hr := he.running _ hke
    have hd := he.done _ hke
    have hn := he.nonneg _ hke
    have ht := he.total _ hke
    have hi := he.inSet _ hke
    simp only [stepNotif, apply, hke, if_true, stepTotal]
    refine ⟨_, rfl, ?_⟩
    apply he.update hke rfl
    all_goals simp [runs_snoc, fins_snoc, totalSum_snoc, active_snoc, Notif.isRun, Notif.isFin, Notif.amount,
      Notif.anyRun, Notif.anyFin]
    all_goals first | assumption | omega | exact he.rcAct
  | running sec sc =>
    have hs' := hs.afterUwe t
    have hk : (sec, sc) ∈ (uwe s t).keys := by
      rw [uwe_keys]; exact hs.present _ (hb.announcedFirst p sec sc hp)
    have hr := hs'.running _ hk
    have hd := hs'.done _ hk
    have hn := hs'.nonneg _ hk
    have ht := hs'.total _ hk
    have hfr := hb.finLeRun p (sec, sc) hpb
    have hact := hs'.rcAct
    simp only [uwe_cell, uwe_rc] at hr hd hn ht hact
    simp only [stepNotif, apply, hk, if_true, stepRunning]
    refine ⟨_, rfl, ?_⟩
    apply hs'.update hk rfl
    all_goals try simp [runs_snoc, fins_snoc, totalSum_snoc, active_snoc, Notif.isRun, Notif.isFin, Notif.amount,
      Notif.anyRun, Notif.anyFin]
    all_goals first | assumption | omega
  | completed sec sc =>
    have hs' := hs.afterUwe t
    have hfr := hb.finLeRun _ (sec, sc) hp
    simp only [runs_snoc, fins_snoc, Notif.isRun, Notif.isFin, beq_self_eq_true, if_true] at hfr
    have hk : (sec, sc) ∈ (uwe s t).keys := by
      rw [uwe_keys]; exact hs.present _ (hb.announced_of_runs hpb (by simp at hfr; omega))
    have hr := hs'.running _ hk
    have hd := hs'.done _ hk
    have hn := hs'.nonneg _ hk
    have ht := hs'.total _ hk
    have hact := hs'.rcAct
    obtain ⟨c', hc, c1, c2, c3, c4, c5⟩ := stepCompleted_ok ((uwe s t).cell (sec, sc)) (uwe s t).rc
      (by simp at hfr; omega) (hs'.inSet _ hk)
    simp only [uwe_cell, uwe_rc] at hr hd hn ht hact c1 c2 c3 c4
    simp only [stepNotif, apply, hk, if_true, hc]
    refine ⟨_, rfl, ?_⟩
    apply hs'.update hk rfl
    all_goals try simp [runs_snoc, fins_snoc, totalSum_snoc, active_snoc, Notif.isRun, Notif.isFin, Notif.amount,
      Notif.anyRun, Notif.anyFin]
    all_goals first | assumption | omega
  | failed sec sc =>
    have hs' := hs.afterUwe t
    have hfr := hb.finLeRun _ (sec, sc) hp
    simp only [runs_snoc, fins_snoc, Notif.isRun, Notif.isFin, beq_self_eq_true, if_true] at hfr
    have hk : (sec, sc) ∈ (uwe s t).keys := by
      rw [uwe_keys]; exact hs.present _ (hb.announced_of_runs hpb (by simp at hfr; omega))
    have hr := hs'.running _ hk
    have hd := hs'.done _ hk
    have hn := hs'.nonneg _ hk
    have ht := hs'.total _ hk
    have hact := hs'.rcAct
    obtain ⟨c', hc, c1, c2, c3, c4, c5⟩ := stepFailed_ok ((uwe s t).cell (sec, sc)) (uwe s t).rc
      (by simp at hfr; omega) (hs'.inSet _ hk)
    simp only [uwe_cell, uwe_rc] at hr hd hn ht hact c1 c2 c3 c4
    simp only [stepNotif, apply, hk, if_true, hc]
    refine ⟨_, rfl, ?_⟩
    apply hs'.update hk rfl
    all_goals try simp [runs_snoc, fins_snoc, totalSum_snoc, active_snoc, Notif.isRun, Notif.isFin, Notif.amount,
      Notif.anyRun, Notif.anyFin]
    all_goals first | assumption | omega

end Uberjob.Progress
