import UberjobModel.Model.FileStore
/-!
  Lemmas about the file-system model and the staged write (used by Props/C11 and Props/C12).
-/
namespace Uberjob.FileStore
open Uberjob.Gen.FileStore
set_option linter.unusedSectionVars false

section
variable {α : Type} [DecidableEq α]

/-! ## association list -/

theorem lookup_eraseKey (p q : α) (l : List (α × File)) :
    lookup q (eraseKey p l) = if q = p then none else lookup q l := by
  induction l with
  | nil => simp [eraseKey, lookup]
  | cons e r ih =>
    by_cases h1 : e.1 = p
    · have : eraseKey p (e :: r) = eraseKey p r := by simp [eraseKey, h1]
      rw [this, ih]
      by_cases h2 : q = p
      · simp [h2]
      · have : e.1 ≠ q := fun h => h2 (h ▸ h1)
        simp [h2, lookup, this]
    · have : eraseKey p (e :: r) = e :: eraseKey p r := by simp [eraseKey, h1]
      rw [this]
      simp only [lookup]
      by_cases h3 : e.1 = q
      · have : q ≠ p := fun h => h1 (h3 ▸ h)
        simp [h3, this]
      · simp only [h3, if_false]; exact ih

@[simp] theorem get_put (fs : FS α) (p q : α) (f : File) :
    (fs.put p f).get q = if q = p then some f else fs.get q := by
  unfold FS.put FS.get
  simp only [lookup]
  by_cases h : p = q
  · simp [h]
  · have h' : q ≠ p := fun e => h e.symm
    simp [h, h', lookup_eraseKey]

@[simp] theorem get_del (fs : FS α) (p q : α) : (fs.del p).get q = if q = p then none else fs.get q := by
  unfold FS.del FS.get; exact lookup_eraseKey p q fs.files

@[simp] theorem get_tick (fs : FS α) (q : α) : fs.tick.get q = fs.get q := rfl
@[simp] theorem clock_put (fs : FS α) (p : α) (f : File) : (fs.put p f).clock = fs.clock := rfl
@[simp] theorem clock_del (fs : FS α) (p : α) : (fs.del p).clock = fs.clock := rfl
@[simp] theorem clock_tick (fs : FS α) : fs.tick.clock = fs.clock + 1 := rfl

/-! ## primitive operations -/

theorem get_openTrunc (fs : FS α) (p q : α) :
    (fs.openTrunc p).get q = if q = p then some ⟨[], fs.clock⟩ else fs.get q := by
  simp [FS.openTrunc]

@[simp] theorem clock_openTrunc (fs : FS α) (p : α) : (fs.openTrunc p).clock = fs.clock + 1 := rfl

theorem get_append_some {fs : FS α} {p : α} {f : File} (h : fs.get p = some f) (c : Bytes) (q : α) :
    (fs.append p c).get q = if q = p then some ⟨f.content ++ c, fs.clock⟩ else fs.get q := by
  simp [FS.append, h]

theorem get_append_ne (fs : FS α) (p q : α) (c : Bytes) (h : q ≠ p) : (fs.append p c).get q = fs.get q := by
  unfold FS.append
  split <;> simp [h]

@[simp] theorem clock_append (fs : FS α) (p : α) (c : Bytes) : (fs.append p c).clock = fs.clock + 1 := by
  unfold FS.append
  split <;> rfl

theorem get_remove (fs : FS α) (p q : α) : (fs.remove p).get q = if q = p then none else fs.get q := by
  simp [FS.remove]

@[simp] theorem clock_remove (fs : FS α) (p : α) : (fs.remove p).clock = fs.clock + 1 := rfl

theorem replace_some {fs : FS α} {src : α} {f : File} (h : fs.get src = some f) (dst : α) :
    fs.replace src dst = some (((fs.del src).put dst f).tick) := by
  simp [FS.replace, h]

theorem replace_none {fs : FS α} {src : α} (h : fs.get src = none) (dst : α) : fs.replace src dst = none := by
  simp [FS.replace, h]

/-! ## well-formedness (stored mtimes are in the past) -/

theorem WF.tick {fs : FS α} (h : fs.WF) : fs.tick.WF := by
  intro p f hp
  have := h p f hp
  simp only [clock_tick]; omega

theorem WF.del {fs : FS α} (h : fs.WF) (p : α) : (fs.del p).WF := by
  intro q f hq
  rw [get_del] at hq
  split at hq
  · cases hq
  · exact h q f hq

theorem WF.put_tick {fs : FS α} (h : fs.WF) (p : α) (f : File) (hf : f.mtime ≤ fs.clock) : ((fs.put p f).tick).WF := by
  intro q g hq
  rw [get_tick, get_put] at hq
  simp only [clock_tick, clock_put]
  split at hq
  · cases hq; omega
  · have := h q g hq; omega

theorem WF.openTrunc {fs : FS α} (h : fs.WF) (p : α) : (fs.openTrunc p).WF :=
  WF.put_tick h p _ (Nat.le_refl _)

theorem WF.append {fs : FS α} (h : fs.WF) (p : α) (c : Bytes) : (fs.append p c).WF := by
  unfold FS.append
  split
  · exact WF.put_tick h p _ (Nat.le_refl _)
  · exact WF.tick h

theorem WF.remove {fs : FS α} (h : fs.WF) (p : α) : (fs.remove p).WF := WF.tick (WF.del h p)

theorem WF.replace {fs fs' : FS α} (h : fs.WF) {src dst : α} (hr : fs.replace src dst = some fs') : fs'.WF := by
  unfold FS.replace at hr
  split at hr
  · cases hr
  · rename_i f hf
    cases hr
    have hlt := h src f hf
    exact WF.put_tick (fs := fs.del src) (WF.del h src) dst f (by simp only [clock_del]; omega)

/-! ## "only the staging path was touched" -/

/-- `fs'` differs from `fs` at most at the path `stg`, later in time, and is well-formed if `fs` was -/
structure Evolves (stg : α) (fs fs' : FS α) : Prop where
  frame : ∀ p, p ≠ stg → fs'.get p = fs.get p
  clock : fs.clock ≤ fs'.clock
  wf : fs.WF → fs'.WF

theorem Evolves.refl (stg : α) (fs : FS α) : Evolves stg fs fs := ⟨fun _ _ => rfl, Nat.le_refl _, id⟩

theorem Evolves.trans {stg : α} {a b c : FS α} (h1 : Evolves stg a b) (h2 : Evolves stg b c) : Evolves stg a c :=
  ⟨fun p hp => (h2.frame p hp).trans (h1.frame p hp), Nat.le_trans h1.clock h2.clock, fun h => h2.wf (h1.wf h)⟩

theorem Evolves.tick (stg : α) (fs : FS α) : Evolves stg fs fs.tick :=
  ⟨fun _ _ => rfl, by simp, WF.tick⟩

theorem Evolves.openTrunc (stg : α) (fs : FS α) : Evolves stg fs (fs.openTrunc stg) :=
  ⟨fun p hp => by simp [get_openTrunc, hp], by simp, fun h => WF.openTrunc h stg⟩

theorem Evolves.append (stg : α) (fs : FS α) (c : Bytes) : Evolves stg fs (fs.append stg c) :=
  ⟨fun p hp => get_append_ne fs stg p c hp, by simp, fun h => WF.append h stg c⟩

theorem Evolves.remove (stg : α) (fs : FS α) : Evolves stg fs (fs.remove stg) :=
  ⟨fun p hp => by simp [get_remove, hp], by simp, fun h => WF.remove h stg⟩

theorem Evolves.partialAppend (stg : α) (fs : FS α) (c : Bytes) (p : Nat) :
    Evolves stg fs (if p = 0 then fs else fs.append stg (c.take p)) := by
  split
  · exact Evolves.refl _ _
  · exact Evolves.append _ _ _

theorem Evolves.partialOpen (stg : α) (fs : FS α) (p : Nat) :
    Evolves stg fs (if p = 0 then fs else fs.openTrunc stg) := by
  split
  · exact Evolves.refl _ _
  · exact Evolves.openTrunc _ _

/-! ## the block of `staged_write` -/

theorem closeOp_evolves (sched : Sched) (stg : α) (fs : FS α) (i : Nat) (pend : Outcome) (tr : List OpName) :
    Evolves stg fs (closeOp sched fs i pend tr).fs := by
  unfold closeOp
  split
  · exact Evolves.tick _ _
  · exact Evolves.tick _ _
  · exact Evolves.refl _ _

theorem closeOp_get (sched : Sched) (fs : FS α) (i : Nat) (pend : Outcome) (tr : List OpName) (q : α) :
    (closeOp sched fs i pend tr).fs.get q = fs.get q := by
  unfold closeOp
  split <;> rfl

theorem closeOp_ok {sched : Sched} {fs : FS α} {i : Nat} {pend : Outcome} {tr : List OpName}
    (h : (closeOp sched fs i pend tr).out = .ok) : pend = .ok := by
  unfold closeOp at h
  split at h
  · exact h
  · cases h
  · cases h

theorem writesOp_evolves (sched : Sched) (stg : α) (ops : List BodyOp) :
    ∀ (fs : FS α) (i : Nat) (tr : List OpName), Evolves stg fs (writesOp sched stg fs i ops tr).fs := by
  induction ops with
  | nil => intro fs i tr; exact closeOp_evolves ..
  | cons op r ih =>
    intro fs i tr
    cases op with
    | fail e => exact closeOp_evolves ..
    | write c =>
      simp only [writesOp]
      split
      · exact (Evolves.append stg fs c).trans (ih _ _ _)
      · exact (Evolves.partialAppend stg fs c _).trans (closeOp_evolves ..)
      · exact Evolves.partialAppend stg fs c _
    | failingWrite e =>
      simp only [writesOp]
      split
      · exact closeOp_evolves ..
      · exact closeOp_evolves ..
      · exact Evolves.refl _ _

/-- if the block completes, every op was a `write`, and the staging file holds exactly what was there plus
    all the chunks; its mtime is not older than any bound `c0` that held for the file and the clock before -/
theorem writesOp_ok (sched : Sched) (stg : α) (ops : List BodyOp) :
    ∀ (fs : FS α) (i : Nat) (tr : List OpName) (f : File) (c0 : Nat), fs.get stg = some f →
      c0 ≤ f.mtime → c0 ≤ fs.clock →
      (writesOp sched stg fs i ops tr).out = .ok →
      noFail ops = true ∧ ∃ t, c0 ≤ t ∧
        (writesOp sched stg fs i ops tr).fs.get stg = some ⟨f.content ++ payload ops, t⟩ := by
  induction ops with
  | nil =>
    intro fs i tr f c0 hf h0 _ _
    refine ⟨rfl, f.mtime, h0, ?_⟩
    simp [writesOp, closeOp_get, payload, hf]
  | cons op r ih =>
    intro fs i tr f c0 hf h0 h1 hok
    cases op with
    | fail e =>
      simp only [writesOp] at hok
      cases closeOp_ok hok
    | write c =>
      simp only [writesOp] at hok ⊢
      split at hok
      · rename_i hs
        try simp only [hs]
        have hg : (fs.append stg c).get stg = some ⟨f.content ++ c, fs.clock⟩ := by
          rw [get_append_some hf]; simp
        obtain ⟨h2, t, ht, h3⟩ := ih _ _ _ _ c0 hg h1 (by simp only [clock_append]; omega) hok
        refine ⟨by simpa [noFail] using h2, t, ht, ?_⟩
        simpa [payload, List.append_assoc] using h3
      · cases closeOp_ok hok
      · cases hok
    | failingWrite e =>
      simp only [writesOp] at hok
      split at hok
      · cases closeOp_ok hok
      · cases closeOp_ok hok
      · cases hok

theorem writesOp_raised (sched : Sched) (stg : α) (ops : List BodyOp) (hnf : noFail ops = true) :
    ∀ (fs : FS α) (i : Nat) (tr : List OpName) (e : Exc), (writesOp sched stg fs i ops tr).out = .raised e →
      ∃ j, j < (writesOp sched stg fs i ops tr).next ∧ sched j ≠ .none := by
  induction ops with
  | nil =>
    intro fs i tr e h
    simp only [writesOp, closeOp] at h ⊢
    split at h
    · cases h
    · rename_i hs; exact ⟨i, by simp, by simp [hs]⟩
    · cases h
  | cons op r ih =>
    intro fs i tr e h
    cases op with
    | fail e' => simp [noFail] at hnf
    | write c =>
      simp only [writesOp] at h ⊢
      split at h
      · exact ih (by simpa [noFail] using hnf) _ _ _ _ h
      · rename_i hs
        refine ⟨i, ?_, by simp [hs]⟩
        simp only [closeOp]
        split <;> simp <;> omega
      · cases h
    | failingWrite e' => simp [noFail] at hnf

theorem writesOp_next_pos (sched : Sched) (stg : α) (ops : List BodyOp) :
    ∀ (fs : FS α) (i : Nat) (tr : List OpName), i < (writesOp sched stg fs i ops tr).next := by
  induction ops with
  | nil => intro fs i tr; simp only [writesOp, closeOp]; split <;> simp
  | cons op r ih =>
    intro fs i tr
    cases op with
    | fail e => simp only [writesOp, closeOp]; split <;> simp
    | write c =>
      simp only [writesOp]
      split
      · exact Nat.lt_trans (Nat.lt_succ_self i) (ih _ _ _)
      · simp only [closeOp]; split <;> simp <;> omega
      · simp
    | failingWrite e =>
      simp only [writesOp]
      split
      · simp only [closeOp]; split <;> simp <;> omega
      · simp only [closeOp]; split <;> simp <;> omega
      · simp

theorem body_evolves (sched : Sched) (stg : α) (ops : List BodyOp) (fs : FS α) :
    Evolves stg fs (bodyStagedWrite sched stg ops fs).fs := by
  unfold bodyStagedWrite
  split
  · exact (Evolves.openTrunc stg fs).trans (writesOp_evolves ..)
  · exact Evolves.partialOpen stg fs _
  · exact Evolves.partialOpen stg fs _

theorem body_ok {sched : Sched} {stg : α} {ops : List BodyOp} {fs : FS α}
    (h : (bodyStagedWrite sched stg ops fs).out = .ok) :
    noFail ops = true ∧ ∃ t, fs.clock ≤ t ∧ (bodyStagedWrite sched stg ops fs).fs.get stg = some ⟨payload ops, t⟩ := by
  unfold bodyStagedWrite at h ⊢
  split at h
  · rename_i hs
    have hg : (fs.openTrunc stg).get stg = some ⟨[], fs.clock⟩ := by simp [get_openTrunc]
    have := writesOp_ok sched stg ops _ 1 [.open] _ fs.clock hg (Nat.le_refl _) (by simp) h
    simpa using this
  · cases h
  · cases h

theorem body_raised {sched : Sched} {stg : α} {ops : List BodyOp} {fs : FS α} {e : Exc} (hnf : noFail ops = true)
    (h : (bodyStagedWrite sched stg ops fs).out = .raised e) :
    ∃ j, j < (bodyStagedWrite sched stg ops fs).next ∧ sched j ≠ .none := by
  unfold bodyStagedWrite at h ⊢
  split at h
  · exact writesOp_raised sched stg ops hnf _ _ _ _ h
  · rename_i hs; exact ⟨0, by simp, by simp [hs]⟩
  · cases h

/-! ## the handler and `staged_write_path` -/

theorem handler_evolves (cfg : Cfg) (sched : Sched) (stg : α) (fs : FS α) (i : Nat) (e : Exc) (tr : List OpName) :
    Evolves stg fs (handler cfg sched stg fs i e tr).fs := by
  unfold handler
  split
  · split
    · split
      · exact Evolves.remove _ _
      · exact Evolves.refl _ _
      · exact Evolves.refl _ _
    · exact Evolves.refl _ _
  · exact Evolves.refl _ _

theorem handler_ok {cfg : Cfg} {sched : Sched} {stg : α} {fs : FS α} {i : Nat} {e : Exc} {tr : List OpName}
    (h : (handler cfg sched stg fs i e tr).out = .ok) : cfg.reraises = false := by
  unfold handler at h
  have fin_ok : ∀ e, cfg.fin e = .ok → cfg.reraises = false := by
    intro e h; unfold Cfg.fin at h; split at h
    · cases h
    · simpa using ‹¬ cfg.reraises = true›
  split at h
  · split at h
    · split at h
      · exact fin_ok _ h
      · simp only at h
        split at h
        · exact fin_ok _ h
        · cases h
      · cases h
    · exact fin_ok _ h
  · cases h

/-- the handler of the current shape (catches everything, removes) leaves no staging file unless its own
    `os.remove` is made to fail or the process dies -/
theorem handler_no_staging {cfg : Cfg} {sched : Sched} {stg : α} {fs : FS α} {i : Nat} {e e' : Exc} {tr : List OpName}
    (hc : cfg.catchesBase = true) (hr : cfg.removes = true)
    (h : (handler cfg sched stg fs i e tr).out = .raised e')
    (hq : sched ((handler cfg sched stg fs i e tr).next - 1) = .none) :
    (handler cfg sched stg fs i e tr).fs.get stg = none := by
  unfold handler at h hq ⊢
  simp only [hc, hr, Bool.true_or, if_true] at h hq ⊢
  split
  · simp [get_remove]
  · rename_i hs; simp [hs] at hq
  · rename_i hs; simp [hs] at h

/-- `staged_write_path`: either only the staging path was touched (and a normal return then means that the
    handler swallowed an exception), or the block completed and its staging file was renamed onto the target -/
theorem stagedPath_cases (cfg : Cfg) (sched : Sched) (stg tgt : α) (body : R α) :
    (Evolves stg body.fs (stagedPath cfg sched stg tgt body).fs ∧
      ((stagedPath cfg sched stg tgt body).out = .ok → cfg.reraises = false)) ∨
    (body.out = .ok ∧ (stagedPath cfg sched stg tgt body).out = .ok ∧
      ∃ f, body.fs.get stg = some f ∧ (stagedPath cfg sched stg tgt body).fs = ((body.fs.del stg).put tgt f).tick) := by
  unfold stagedPath
  split
  · rename_i hb; exact .inl ⟨Evolves.refl _ _, fun h => by rw [hb] at h; cases h⟩
  · exact .inl ⟨handler_evolves .., handler_ok⟩
  · rename_i hb
    simp only
    split
    · exact .inl ⟨Evolves.refl _ _, fun h => by cases h⟩
    · split
      · exact .inl ⟨handler_evolves .., handler_ok⟩
      · exact .inl ⟨Evolves.refl _ _, fun h => by cases h⟩
    · split
      · rename_i fs' hrep
        refine .inr ⟨hb, rfl, ?_⟩
        unfold FS.replace at hrep
        split at hrep
        · cases hrep
        · rename_i f hf; cases hrep; exact ⟨f, hf, rfl⟩
      · split
        · exact .inl ⟨handler_evolves .., handler_ok⟩
        · exact .inl ⟨Evolves.refl _ _, fun h => by cases h⟩

/-- `staged_write`: the same with what the block wrote -/
theorem stagedWrite_cases (cfg : Cfg) (sched : Sched) (w : Bool) (stg tgt : α) (ops : List BodyOp) (fs : FS α) :
    (Evolves stg fs (stagedWrite cfg sched w stg tgt ops fs).fs ∧
      ((stagedWrite cfg sched w stg tgt ops fs).out = .ok → cfg.reraises = false)) ∨
    ((stagedWrite cfg sched w stg tgt ops fs).out = .ok ∧ w = true ∧ noFail ops = true ∧
      ∃ fs1 t, Evolves stg fs fs1 ∧ fs.clock ≤ t ∧ fs1.get stg = some ⟨payload ops, t⟩ ∧
        (stagedWrite cfg sched w stg tgt ops fs).fs = ((fs1.del stg).put tgt ⟨payload ops, t⟩).tick) := by
  unfold stagedWrite
  split
  · rename_i hw
    rcases stagedPath_cases cfg sched stg tgt (bodyStagedWrite sched stg ops fs) with ⟨h1, h2⟩ | ⟨hb, ho, f, hf, hfs⟩
    · exact .inl ⟨(body_evolves sched stg ops fs).trans h1, h2⟩
    · obtain ⟨hnf, t, ht, hg⟩ := body_ok hb
      rw [hg] at hf; cases hf
      exact .inr ⟨ho, hw, hnf, _, t, body_evolves sched stg ops fs, ht, hg, hfs⟩
  · exact .inl ⟨Evolves.refl _ _, fun h => by cases h⟩

/-- no staging file after an exception, for a source that has the rename inside the `try`, catches
    `BaseException` and removes — unless no file operation was attempted at all (mode/None guard), or the
    clean-up `os.remove` itself was made to fail -/
theorem stagedWrite_no_staging {cfg : Cfg} {sched : Sched} {w : Bool} {stg tgt : α} {ops : List BodyOp} {fs : FS α} {e : Exc}
    (hi : cfg.replaceInsideTry = true) (hc : cfg.catchesBase = true) (hr : cfg.removes = true)
    (h : (stagedWrite cfg sched w stg tgt ops fs).out = .raised e)
    (hq : sched ((stagedWrite cfg sched w stg tgt ops fs).next - 1) = .none) :
    (stagedWrite cfg sched w stg tgt ops fs).fs.get stg = none ∨
      ((stagedWrite cfg sched w stg tgt ops fs).trace = [] ∧ (stagedWrite cfg sched w stg tgt ops fs).fs = fs) := by
  unfold stagedWrite at h hq ⊢
  split
  · rename_i hw
    simp only [hw, if_true] at h hq
    left
    unfold stagedPath at h hq ⊢
    split
    · rename_i hb; simp only [hb] at h; cases h
    · rename_i e0 hb
      simp only [hb] at h hq
      exact handler_no_staging hc hr h hq
    · rename_i hb
      simp only [hb, hi, if_true] at h hq ⊢
      split
      · rename_i hs; simp only [hs] at h; cases h
      · rename_i e1 p hs
        simp only [hs] at h hq
        exact handler_no_staging hc hr h hq
      · rename_i hs
        simp only [hs] at h hq
        split
        · rename_i fs' hrep; simp only [hrep] at h; cases h
        · rename_i hrep
          simp only [hrep] at h hq
          exact handler_no_staging hc hr h hq
  · right; exact ⟨rfl, rfl⟩

/-- at most one fault: after the first faulted index every later operation is left alone -/
def QuietAfterFirst (sched : Sched) : Prop := ∀ j i, sched j ≠ .none → j < i → sched i = .none

theorem quiet_noFaults : QuietAfterFirst noFaults := fun _ _ _ _ => rfl

theorem quiet_single (k : Nat) (f : Fault) : QuietAfterFirst (single k f) := by
  intro j i hj hji
  unfold single at hj ⊢
  split at hj
  · subst j; simp; omega
  · exact absurd rfl hj

theorem handler_no_staging' {cfg : Cfg} {sched : Sched} {stg : α} {fs : FS α} {i : Nat} {e : Exc} {tr : List OpName}
    (hc : cfg.catchesBase = true) (hr : cfg.removes = true) (hq : sched i = .none) :
    (handler cfg sched stg fs i e tr).fs.get stg = none := by
  unfold handler
  simp only [hc, hr, Bool.true_or, if_true, hq]
  simp [get_remove]

/-- single-fault form: when every exception comes from the (at most one) injected fault, the handler's
    `os.remove` runs undisturbed and no staging file is left -/
theorem stagedWrite_no_staging_quiet {cfg : Cfg} {sched : Sched} {stg tgt : α} {ops : List BodyOp} {fs : FS α} {e : Exc}
    (hi : cfg.replaceInsideTry = true) (hc : cfg.catchesBase = true) (hr : cfg.removes = true)
    (hnf : noFail ops = true) (hqs : QuietAfterFirst sched)
    (h : (stagedWrite cfg sched true stg tgt ops fs).out = .raised e) :
    (stagedWrite cfg sched true stg tgt ops fs).fs.get stg = none := by
  unfold stagedWrite at h ⊢
  simp only [if_true] at h ⊢
  unfold stagedPath at h ⊢
  split
  · rename_i hb; simp only [hb] at h; cases h
  · rename_i e0 hb
    obtain ⟨j, hj, hsj⟩ := body_raised hnf hb
    exact handler_no_staging' hc hr (hqs j _ hsj hj)
  · rename_i hb
    simp only [hb, hi, if_true] at h ⊢
    split
    · rename_i hs; simp only [hs] at h; cases h
    · rename_i e1 p hs
      exact handler_no_staging' hc hr (hqs _ _ (by simp [hs]) (Nat.lt_succ_self _))
    · rename_i hs
      simp only [hs] at h
      split
      · rename_i fs' hrep; simp only [hrep] at h; cases h
      · rename_i hrep
        obtain ⟨_, t, _, hg⟩ := body_ok hb
        rw [replace_some hg] at hrep; cases hrep

/-! ## runs without injected faults -/

theorem writesOp_noFaults (stg : α) (ops : List BodyOp) (hnf : noFail ops = true) :
    ∀ (fs : FS α) (i : Nat) (tr : List OpName),
      (writesOp noFaults stg fs i ops tr).out = .ok ∧
      (writesOp noFaults stg fs i ops tr).trace = tr ++ ops.map (fun _ => OpName.write) ++ [.close] := by
  induction ops with
  | nil => intro fs i tr; simp [writesOp, closeOp, noFaults]
  | cons op r ih =>
    intro fs i tr
    cases op with
    | fail e => simp [noFail] at hnf
    | write c =>
      have := ih (by simpa [noFail] using hnf) (fs.append stg c) (i + 1) (tr ++ [.write])
      simp only [writesOp, noFaults] at this ⊢
      simpa using this
    | failingWrite e => simp [noFail] at hnf

/-- without faults and without an error of the serialiser, a `staged_write` with a `"w"` mode completes and
    performs exactly `open, write …, close, replace` -/
theorem stagedWrite_noFaults (cfg : Cfg) (stg tgt : α) (ops : List BodyOp) (fs : FS α) (hnf : noFail ops = true) :
    (stagedWrite cfg noFaults true stg tgt ops fs).out = .ok ∧
    (stagedWrite cfg noFaults true stg tgt ops fs).trace =
      [.open] ++ ops.map (fun _ => OpName.write) ++ [.close, .replace] := by
  have hb := writesOp_noFaults stg ops hnf (fs.openTrunc stg) 1 [.open]
  have hbody : bodyStagedWrite noFaults stg ops fs = writesOp noFaults stg (fs.openTrunc stg) 1 ops [.open] := by
    simp [bodyStagedWrite, noFaults]
  obtain ⟨_, t, _, hg⟩ := body_ok (sched := noFaults) (stg := stg) (ops := ops) (fs := fs) (by rw [hbody]; exact hb.1)
  unfold stagedWrite stagedPath
  simp only [if_true]
  rw [hbody] at hg ⊢
  simp only [hb.1, hb.2, noFaults, replace_some hg]
  simp

/-! ## the stores -/

/-- the master case split: a write either touched nothing but the staging path (and if it nevertheless returned
    normally the handler swallowed an exception), or it completed and the target is the complete new value -/
theorem storeWrite_cases (cfg : Cfg) (sched : Sched) (spec : StoreSpec) (vn : Bool) (stg tgt : α)
    (ops : List BodyOp) (fs : FS α) :
    (Evolves stg fs (storeWrite cfg sched spec vn stg tgt ops fs).fs ∧
      ((storeWrite cfg sched spec vn stg tgt ops fs).out = .ok → cfg.reraises = false)) ∨
    ((storeWrite cfg sched spec vn stg tgt ops fs).out = .ok ∧ noFail (effOps spec ops) = true ∧
      ∃ fs1 t, Evolves stg fs fs1 ∧ fs.clock ≤ t ∧ fs1.get stg = some ⟨payload (effOps spec ops), t⟩ ∧
        (storeWrite cfg sched spec vn stg tgt ops fs).fs = ((fs1.del stg).put tgt ⟨payload (effOps spec ops), t⟩).tick) := by
  unfold storeWrite
  split
  · exact .inl ⟨Evolves.refl _ _, fun h => by cases h⟩
  · rcases stagedWrite_cases cfg sched (spec.writeMode.contains 'w') stg tgt (effOps spec ops) fs with h | ⟨h1, _, h2, h3⟩
    · exact .inl h
    · exact .inr ⟨h1, h2, h3⟩

end

/-! ## a concrete instance used by the examples of Props/C11 -/

/-- an old value `[1,2]` (mtime 3) and an unrelated file; JSON-like block of three chunks -/
def exFS : FS Nat := ⟨[(0, ⟨[1, 2], 3⟩), (9, ⟨[5], 4⟩)], 10⟩
def exOps : List BodyOp := [.write [91], .write [49, 44], .write [93]]

end Uberjob.FileStore
