import UberjobModel.Model.ExecNorm
import UberjobModel.Lemmas.ExecInv
/-!
  Normalising stores (`Model/ExecNorm.lean`): the execution with stores whose `read()` returns `nm i (what was written)` is,
  node by node and in every reachable state of every schedule of the engine model, the `normalise`-image of the plain
  execution (`Sim`, `sim_reach`).  With `xinv_reach` this gives the end-to-end statements for ARBITRARY normalising stores:
  a consumer always receives the read-back value of a stored dependency, never the value the call returned.
-/
set_option linter.unusedSectionVars false
set_option linter.unusedSimpArgs false
namespace Uberjob.Exec
open Uberjob.Phys Uberjob.Cache

theorem normaliseL_eq (st : Nat → Bool) (nm : Nat → V → V) (l : List V) :
    normaliseL st nm l = l.map (normalise st nm) := by
  induction l with
  | nil => simp [normaliseL]
  | cons a t ih => simp [normaliseL, ih]

/-- `normalise` for the stored calls of `P`. -/
abbrev _root_.Uberjob.Phys.Input.N (P : Input) (nm : Nat → V → V) : V → V := normalise P.stored nm

theorem N_app_stored {P : Input} {nm : Nat → V → V} {i : Nat} (h : P.regOf i = some false) (args : List V) :
    P.N nm (.app i args) = nm i (.app i (args.map (P.N nm))) := by
  simp [Input.N, normalise, Input.stored, h, normaliseL_eq]

theorem N_app_plain {P : Input} {nm : Nat → V → V} {i : Nat} (h : P.regOf i ≠ some false) (args : List V) :
    P.N nm (.app i args) = .app i (args.map (P.N nm)) := by
  simp [Input.N, normalise, Input.stored, h, normaliseL_eq]

@[simp] theorem N_missing {P : Input} {nm : Nat → V → V} (i : Nat) : P.N nm (.missing i) = .missing i := by
  simp [Input.N, normalise]

@[simp] theorem N_junk {P : Input} {nm : Nat → V → V} (k : Nat) : P.N nm (.junk k) = .junk k := by
  simp [Input.N, normalise]

/-- The normalised execution `x'` against the plain one `x`, after the nodes `D` completed. -/
structure Sim (P : Input) (nm : Nat → V → V) (D : List Nat) (x x' : XSt) : Prop where
  clock : x'.clock = x.clock
  mt : ∀ i, x'.w.mtime i = x.w.mtime i
  /-- a store that is not about to be rewritten, or has been rewritten, holds the normalised value -/
  ct : ∀ i, (code (.write i) ∈ D ∨ ¬ (P.regOf i = some false ∧ P.isStale i = true)) →
    x'.w.content i = (x.w.content i).map (P.N nm)
  rd : ∀ u, code (.read u) ∈ D → x'.slot (.read u) = (x.slot (.read u)).map (P.N nm)
  /-- a call returns the RAW value: its own function applied to normalised arguments -/
  og : ∀ j, code (.orig j) ∈ D → P.lits.contains j = false →
    ∃ args, x.slot (.orig j) = some (.app j args) ∧ x'.slot (.orig j) = some (.app j (args.map (P.N nm)))

/-- The two initial store states: same modified times; except in the stores the run is going to rewrite, the normalising
    stores hold the normalised values. -/
structure Start (P : Input) (nm : Nat → V → V) (w0 w0' : World) : Prop where
  mt : ∀ i, w0'.mtime i = w0.mtime i
  ct : ∀ i, ¬ (P.regOf i = some false ∧ P.isStale i = true) → w0'.content i = (w0.content i).map (P.N nm)

theorem sim_init {P : Input} {nm : Nat → V → V} {w0 w0' : World} (H : Start P nm w0 w0') (c0 : Int) :
    Sim P nm [] (initX w0 c0) (initX w0' c0) where
  clock := rfl
  mt := H.mt
  ct := fun i h => by
    rcases h with h | h
    · cases h
    · exact H.ct i h
  rd := fun _ h => by cases h
  og := fun _ h => by cases h

theorem sim_noop {P : Input} {nm : Nat → V → V} {D : List Nat} {x x' : XSt} (J : Sim P nm D x x') {a : PN}
    (hr : ∀ u, a ≠ .read u) (hw : ∀ i, a ≠ .write i) (ho : ∀ j, a = .orig j → P.lits.contains j = true) :
    Sim P nm (D ++ [code a]) x x' where
  clock := J.clock
  mt := J.mt
  ct := fun i h => by
    apply J.ct i
    rcases h with h | h
    · rcases mem_snoc_code.mp h with h | h
      · exact Or.inl h
      · exact absurd h.symm (hw i)
    · exact Or.inr h
  rd := fun u h => by
    rcases mem_snoc_code.mp h with h | h
    · exact J.rd u h
    · exact absurd h.symm (hr u)
  og := fun j h hl => by
    rcases mem_snoc_code.mp h with h | h
    · exact J.og j h hl
    · rw [ho j h.symm] at hl; cases hl

/-- Completing a node that fills its slot. -/
theorem sim_slot {P : Input} {nm : Nat → V → V} {D : List Nat} {x x' : XSt} (J : Sim P nm D x x') {a : PN} {v v' : V}
    (hw : ∀ i, a ≠ .write i)
    (hr : ∀ u, a = .read u → v' = P.N nm v)
    (ho : ∀ j, a = .orig j → ∃ args, v = .app j args ∧ v' = .app j (args.map (P.N nm))) :
    Sim P nm (D ++ [code a]) (setSlot x a v) (setSlot x' a v') where
  clock := J.clock
  mt := J.mt
  ct := fun i h => by
    apply J.ct i
    rcases h with h | h
    · rcases mem_snoc_code.mp h with h | h
      · exact Or.inl h
      · exact absurd h.symm (hw i)
    · exact Or.inr h
  rd := fun u h => by
    simp only [setSlot]
    by_cases hu : PN.read u = a
    · simp only [hu, if_true, Option.map_some]; rw [hr u hu.symm]
    · simp only [hu, if_false]
      rcases mem_snoc_code.mp h with h | h
      · exact J.rd u h
      · exact absurd h hu
  og := fun j h hl => by
    simp only [setSlot]
    by_cases hu : PN.orig j = a
    · simp only [hu, if_true]
      obtain ⟨args, h1, h2⟩ := ho j hu.symm
      exact ⟨args, by rw [h1], by rw [h2]⟩
    · simp only [hu, if_false]
      rcases mem_snoc_code.mp h with h | h
      · exact J.og j h hl
      · exact absurd h hu

section steps
variable {P : Input} {nm : Nat → V → V} {w0 : World} {F : Option Int} {c0 : Int} (S : Setup P w0 F c0)
  {cfg : Engine.Cfg} {s : Engine.St} (h : Engine.Reach (engineGraph P) cfg s)
  {x x' : XSt} (I : XInv P w0 c0 s.okd x) (J : Sim P nm s.okd x x')
include S h I J

/-- What the normalised run hands to a consumer of `u` is the normalised image of what the plain run hands to it. -/
theorem sim_arg {u j : Nat} (hu : u ∈ P.toLPlan.args j)
    (hpath : ∀ a, a.isLit P = false → (∃ k, (⟨a, .orig j, k⟩ : Edge PN) ∈ (physBuild P).edges) → code a ∈ s.okd) :
    x'.get P (argNode P u) = P.N nm (x.get P (argNode P u)) := by
  simp only [Input.toLPlan, List.mem_map, List.mem_filter, Bool.and_eq_true, beq_iff_eq] at hu
  obtain ⟨e, ⟨he, hd, hk⟩, hs⟩ := hu
  cases hr : P.regOf u with
  | some sr =>
    have hedge : (⟨.read u, .orig j, e.key⟩ : Edge PN) ∈ (physBuild P).edges :=
      mem_built_edges.mpr (Or.inl ⟨e, he, by simp [Input.rewire, hs, hr, hk, hd]⟩)
    have hok := hpath (.read u) rfl ⟨_, hedge⟩
    simp only [argNode, hr, Option.isSome_some, if_true, XSt.get, J.rd u hok, I.readOk u hok, Option.map_some,
      Option.getD_some]
  | none =>
    simp only [argNode, hr, Option.isSome_none, Bool.false_eq_true, if_false, XSt.get]
    by_cases hl : P.lits.contains u = true
    · simp only [hl, if_true]
      rw [N_app_plain (by rw [hr]; simp)]; rfl
    · have hl' : P.lits.contains u = false := by simpa using hl
      have hedge : (⟨.orig u, .orig j, e.key⟩ : Edge PN) ∈ (physBuild P).edges :=
        mem_built_edges.mpr (Or.inl ⟨e, he, by simp [Input.rewire, hs, hr, hd]⟩)
      have hok := hpath (.orig u) (by simpa [PN.isLit] using hl') ⟨_, hedge⟩
      obtain ⟨args, h1, h2⟩ := J.og u hok hl'
      simp only [hl', Bool.false_eq_true, if_false, h1, h2, Option.getD_some]
      rw [N_app_plain (by rw [hr]; simp)]

/-- A user call: the same function, applied to the normalised arguments. -/
theorem sim_orig {j : Nat} (hb : code (.orig j) ∈ s.begun) :
    (argSrcs (physFinal P) (.orig j)).map (x'.get P) =
      ((argSrcs (physFinal P) (.orig j)).map (x.get P)).map (P.N nm) := by
  have hbb := begun_built S h (fun _ hh => hh) (okd_begun h) I hb
  rw [argSrcs_final S.wf hbb.1, argSrcs_built, List.map_map, List.map_map, List.map_map]
  apply List.map_congr_left
  intro u hu
  simp only [Function.comp]
  exact sim_arg S h I J hu (fun a ha ⟨k, hk⟩ => path_order S.wf h (Path.single ⟨_, hk, rfl, rfl⟩) ha hb)

/-- A read-back: the store holds the normalised value by now. -/
theorem sim_read {u : Nat} (hb : code (.read u) ∈ s.begun) :
    (x'.w.content u).getD (.missing u) = P.N nm ((x.w.content u).getD (.missing u)) := by
  have hc : x'.w.content u = (x.w.content u).map (P.N nm) := by
    apply J.ct u
    by_cases hst : P.regOf u = some false ∧ P.isStale u = true
    · left
      have hadj := W_to_read hst.1 hst.2
      have hW : P.W u = .write u := by simp [Input.W, hst.1]
      rw [hW] at hadj
      exact path_order S.wf h (Path.single hadj) rfl hb
    · exact Or.inr hst
  rw [hc]
  cases x.w.content u <;> simp

/-- A write: the normalising store is left holding the normalised value. -/
theorem sim_write {i : Nat} (hb : code (.write i) ∈ s.begun) :
    nm i (x'.get P (.orig i)) = P.N nm (x.get P (.orig i)) := by
  obtain ⟨hri, hst⟩ := write_node_reg S.wf (begun_built S h (fun _ hh => hh) (okd_begun h) I hb).2
  simp only [XSt.get]
  by_cases hl : P.lits.contains i = true
  · simp only [hl, if_true]
    rw [N_app_stored hri]; rfl
  · have hl' : P.lits.contains i = false := by simpa using hl
    have hedge : (⟨.orig i, .write i, .pos 1⟩ : Edge PN) ∈ (physBuild P).edges :=
      mem_built_edges.mpr (Or.inr ⟨(i, false), mem_of_regOf hri, by simp [Input.gadgetEdges, hst]⟩)
    have hok := path_order S.wf h (Path.single ⟨_, hedge, rfl, rfl⟩) (by simpa [PN.isLit] using hl') hb
    obtain ⟨args, h1, h2⟩ := J.og i hok hl'
    simp only [hl', Bool.false_eq_true, if_false, h1, h2, Option.getD_some]
    rw [N_app_stored hri]

/-- **What a consumer receives.**  A completed user call `j` was applied to the NORMALISED from-scratch values of its
    arguments; and for every argument `u` that is a stored call, that value is `nm u (…)` — exactly what store `u` holds at
    that moment, i.e. what its `read()` returned — not the value the call of `u` returned. -/
theorem consumer_readback {j : Nat} (hj : code (.orig j) ∈ s.okd) (hl : P.lits.contains j = false)
    (hs : P.regOf j ≠ some true) :
    x'.slot (.orig j) = some (.app j ((P.toLPlan.args j).map (fun u => P.N nm (FS P.toLPlan w0 u)))) ∧
    ∀ u ∈ P.toLPlan.args j, P.regOf u = some false →
      x'.w.content u = some (P.N nm (FS P.toLPlan w0 u)) ∧
      P.N nm (FS P.toLPlan w0 u) = nm u (.app u ((P.toLPlan.args u).map (fun q => P.N nm (FS P.toLPlan w0 q)))) := by
  have hL := toLPlan_wf S.wf
  have hb := okd_begun h _ hj
  obtain ⟨args, h1, h2⟩ := J.og j hj hl
  have hFS := I.origOk j hj hl hs
  rw [h1, FS_eq hL] at hFS
  have hs' : P.toLPlan.reg j ≠ some true := hs
  have hargs : args = (P.toLPlan.args j).map (FS P.toLPlan w0) := by
    split at hFS
    · next h1 => exact absurd h1 hs'
    · simpa using hFS
  constructor
  · rw [h2, hargs, List.map_map]; rfl
  · intro u hu hru
    have hruL : P.toLPlan.reg u = some false := hru
    constructor
    · -- store `u` holds the normalised value by the time `j` has begun
      have hu' := hu
      simp only [Input.toLPlan, List.mem_map, List.mem_filter, Bool.and_eq_true, beq_iff_eq] at hu'
      obtain ⟨e, ⟨he, hd, hk⟩, hsrc⟩ := hu'
      have hedge : (⟨.read u, .orig j, e.key⟩ : Edge PN) ∈ (physBuild P).edges :=
        mem_built_edges.mpr (Or.inl ⟨e, he, by simp [Input.rewire, hsrc, hru, hk, hd]⟩)
      have hct : x'.w.content u = (x.w.content u).map (P.N nm) := by
        apply J.ct u
        by_cases hst : P.isStale u = true
        · left
          have hadj := W_to_read hru hst
          have hW : P.W u = .write u := by simp [Input.W, hru]
          rw [hW] at hadj
          exact path_order S.wf h (Path.cons (Path.single hadj) ⟨_, hedge, rfl, rfl⟩) rfl hb
        · exact Or.inr (fun hh => hst hh.2)
      rw [hct]
      by_cases hst : P.isStale u = true
      · have hadj := W_to_read hru hst
        have hW : P.W u = .write u := by simp [Input.W, hru]
        rw [hW] at hadj
        have hw := path_order S.wf h (Path.cons (Path.single hadj) ⟨_, hedge, rfl, rfl⟩) rfl hb
        obtain ⟨t, ht, _⟩ := I.written u hw
        simp [World.content, ht]
      · have hu0 := I.untouched u (write_not_okd_of_not S h (fun _ hh => hh) (okd_begun h) I (fun hh => hst hh.2))
        have hns : isStale P.toLPlan w0 F u = false := by rw [← S.stale]; simpa using hst
        obtain ⟨t, ht⟩ := fresh_content hL S.good hruL hns
        simp [World.content, hu0, ht]
    · rw [FS_eq hL, hruL]
      simp only
      rw [N_app_stored hru, List.map_map]; rfl

end steps

theorem execOrderN_snoc (P : Input) (nm : Nat → V → V) (x : XSt) (l : List Nat) (n : Nat) :
    execOrderN P nm x (l ++ [n]) = execNodeN P nm (physFinal P) (execOrderN P nm x l) (decode n) := by
  simp [execOrderN, List.foldl_append]

/-- **Node by node, in every reachable state of every schedule**: the execution with normalising stores is the
    `normalise`-image of the plain execution. -/
theorem sim_reach {P : Input} {nm : Nat → V → V} {w0 w0' : World} {F : Option Int} {c0 : Int} (S : Setup P w0 F c0)
    (H : Start P nm w0 w0') {cfg : Engine.Cfg} {s : Engine.St} (h : Engine.Reach (engineGraph P) cfg s) :
    Sim P nm s.okd (execOrder P (initX w0 c0) s.okd) (execOrderN P nm (initX w0' c0) s.okd) := by
  induction h with
  | init => exact sim_init H c0
  | @step s s' l hr hs ih =>
    rcases okd_step hs with heq | ⟨w, n, hw, heq⟩
    · rw [heq]; exact ih
    · rw [heq, execOrder_snoc, execOrderN_snoc]
      have I := xinv_reach S hr
      have hi := Engine.inv_reach (engine_wf P) hr
      obtain ⟨hnok, _, hbeg⟩ := hi.running n (List.mem_of_getElem? hw)
      obtain ⟨a, rfl, _⟩ := engine_node (Engine.begun_in_nodes (engine_wf P) hr _ hbeg)
      rw [decode_code]
      cases a with
      | orig j =>
        simp only [execNodeN, execNode]
        by_cases hl : P.lits.contains j = true
        · simp only [hl, if_true]
          exact sim_noop ih (by simp) (by simp) (fun j' hj => by cases hj; exact hl)
        · simp only [hl, if_false]
          apply sim_slot ih (by simp)
          · intro u hu; cases hu
          · intro j' hj
            cases hj
            exact ⟨_, rfl, by rw [sim_orig S hr I ih hbeg]⟩
      | read u =>
        simp only [execNodeN, execNode]
        apply sim_slot ih (by simp)
        · intro u' hu; cases hu; exact sim_read S hr I ih hbeg
        · intro j hj; cases hj
      | write i =>
        simp only [execNodeN, execNode]
        have hv := sim_write S hr I ih hbeg
        refine ⟨by simp [ih.clock], ?_, ?_, ?_, ?_⟩
        · intro k
          simp only [World.mtime, World.set]
          by_cases hk : k = i
          · simp [hk, ih.clock]
          · simpa [hk, World.mtime] using ih.mt k
        · intro k hk
          simp only [World.content, World.set]
          by_cases hki : k = i
          · simp [hki, hv]
          · simp only [hki, if_false]
            apply ih.ct k
            rcases hk with hk | hk
            · rcases mem_snoc_code.mp hk with hk | hk
              · exact Or.inl hk
              · simp only [PN.write.injEq] at hk; exact absurd hk hki
            · exact Or.inr hk
        · intro u hu
          rcases mem_snoc_code.mp hu with hu | hu
          · exact ih.rd u hu
          · cases hu
        · intro j hj hl
          rcases mem_snoc_code.mp hj with hj | hj
          · exact ih.og j hj hl
          · cases hj
      | storeLit i =>
        simp only [execNodeN, execNode]
        exact sim_noop ih (by simp) (by simp) (fun j hj => by cases hj)
      | barrier i =>
        simp only [execNodeN, execNode]
        exact sim_noop ih (by simp) (by simp) (fun j hj => by cases hj)

end Uberjob.Exec
