import UberjobModel.Model.Progress
/-!
Sorting with a comparison that may raise: permutation, totality, sortedness; the fallback key is a strict total order.
-/
namespace Uberjob.Progress

variable {α : Type}

theorem insertBy_perm {lt : α → α → Option Bool} {x : α} :
    ∀ (ys r : List α), insertBy lt x ys = some r → r.Perm (x :: ys) := by
  intro ys
  induction ys with
  | nil => intro r h; simp only [insertBy] at h; cases h; exact List.Perm.refl _
  | cons y ys ih =>
    intro r h
    simp only [insertBy] at h
    split at h
    · cases h
    · cases h; exact List.Perm.refl _
    · cases h' : insertBy lt x ys with
      | none => simp [h'] at h
      | some r' =>
        simp only [h', Option.map_some] at h; cases h
        exact ((ih r' h').cons y).trans (List.Perm.swap x y ys)

theorem sortBy_perm {lt : α → α → Option Bool} : ∀ (xs r : List α), sortBy lt xs = some r → r.Perm xs := by
  intro xs
  induction xs with
  | nil => intro r h; simp only [sortBy] at h; cases h; exact List.Perm.refl _
  | cons x xs ih =>
    intro r h
    simp only [sortBy] at h
    cases h' : sortBy lt xs with
    | none => simp [h'] at h
    | some r' =>
      simp only [h', Option.bind_some] at h
      exact (insertBy_perm r' r h).trans ((ih r' h').cons x)

theorem insertBy_total {lt : α → α → Option Bool} (hlt : ∀ a b, (lt a b).isSome) (x : α) :
    ∀ ys : List α, (insertBy lt x ys).isSome := by
  intro ys
  induction ys with
  | nil => simp [insertBy]
  | cons y ys ih =>
    simp only [insertBy]
    have := hlt y x
    cases h : lt y x with
    | none => simp [h] at this
    | some v =>
      cases v
      · simp
      · simp only []
        cases h' : insertBy lt x ys with
        | none => simp [h'] at ih
        | some _ => simp

theorem sortBy_total {lt : α → α → Option Bool} (hlt : ∀ a b, (lt a b).isSome) :
    ∀ xs : List α, (sortBy lt xs).isSome := by
  intro xs
  induction xs with
  | nil => simp [sortBy]
  | cons x xs ih =>
    simp only [sortBy]
    cases h : sortBy lt xs with
    | none => simp [h] at ih
    | some r => simpa using insertBy_total hlt x r

/-- the sort raises only if some comparison between two of its elements raises -/
theorem insertBy_none {lt : α → α → Option Bool} {x : α} :
    ∀ ys : List α, insertBy lt x ys = none → ∃ y ∈ ys, lt y x = none := by
  intro ys
  induction ys with
  | nil => intro h; simp [insertBy] at h
  | cons y ys ih =>
    intro h
    simp only [insertBy] at h
    split at h
    · next hn => exact ⟨y, by simp, hn⟩
    · cases h
    · cases h' : insertBy lt x ys with
      | none => obtain ⟨z, hz, hzn⟩ := ih h'; exact ⟨z, by simp [hz], hzn⟩
      | some r' => simp [h'] at h

theorem sortBy_none {lt : α → α → Option Bool} :
    ∀ xs : List α, sortBy lt xs = none → ∃ a ∈ xs, ∃ b ∈ xs, lt a b = none := by
  intro xs
  induction xs with
  | nil => intro h; simp [sortBy] at h
  | cons x xs ih =>
    intro h
    simp only [sortBy] at h
    cases h' : sortBy lt xs with
    | none =>
      obtain ⟨a, ha, b, hb, hab⟩ := ih h'
      exact ⟨a, by simp [ha], b, by simp [hb], hab⟩
    | some r =>
      simp only [h', Option.bind_some] at h
      obtain ⟨y, hy, hyn⟩ := insertBy_none r h
      have := (sortBy_perm xs r h').subset hy
      exact ⟨y, by simp [this], x, by simp, hyn⟩

/-! sortedness for a comparison that never raises -/

theorem insertBy_sorted {f : α → α → Bool}
    (hasym : ∀ a b, f a b = true → f b a = false)
    (htrans : ∀ a b c, f b a = false → f c b = false → f c a = false) (x : α) :
    ∀ (ys r : List α), insertBy (fun a b => some (f a b)) x ys = some r →
      ys.Pairwise (fun a b => f b a = false) → r.Pairwise (fun a b => f b a = false) := by
  intro ys
  induction ys with
  | nil => intro r h _; simp only [insertBy] at h; cases h; simp
  | cons y ys ih =>
    intro r h hp
    simp only [insertBy] at h
    have hp' := List.pairwise_cons.mp hp
    cases hv : f y x with
    | false =>
      simp only [hv] at h; cases h
      refine List.pairwise_cons.mpr ⟨?_, hp⟩
      intro z hz
      rcases List.mem_cons.mp hz with rfl | hz
      · exact hv
      · exact htrans x y z hv (hp'.1 z hz)
    | true =>
      simp only [hv] at h
      cases h' : insertBy (fun a b => some (f a b)) x ys with
      | none => simp [h'] at h
      | some r' =>
        simp only [h', Option.map_some] at h; cases h
        refine List.pairwise_cons.mpr ⟨?_, ih r' h' hp'.2⟩
        intro z hz
        have := (insertBy_perm ys r' h').subset hz
        rcases List.mem_cons.mp this with rfl | hz'
        · exact hasym y z hv
        · exact hp'.1 z hz'

theorem sortBy_sorted {f : α → α → Bool}
    (hasym : ∀ a b, f a b = true → f b a = false)
    (htrans : ∀ a b c, f b a = false → f c b = false → f c a = false) :
    ∀ (xs r : List α), sortBy (fun a b => some (f a b)) xs = some r → r.Pairwise (fun a b => f b a = false) := by
  intro xs
  induction xs with
  | nil => intro r h; simp only [sortBy] at h; cases h; simp
  | cons x xs ih =>
    intro r h
    simp only [sortBy] at h
    cases h' : sortBy (fun a b => some (f a b)) xs with
    | none => simp [h'] at h
    | some r' =>
      simp only [h', Option.bind_some] at h
      exact insertBy_sorted hasym htrans x r' r h (ih r' h')

/-! the fallback key -/

theorem fallbackLt_asymm (a b : List ScopeElt) (h : fallbackLt a b = true) : fallbackLt b a = false := by
  simp only [fallbackLt, decide_eq_true_eq, decide_eq_false_iff_not] at *
  exact List.lt_asymm h

theorem fallbackLt_le_trans (a b c : List ScopeElt) (h1 : fallbackLt b a = false) (h2 : fallbackLt c b = false) :
    fallbackLt c a = false := by
  simp only [fallbackLt, decide_eq_false_iff_not, List.not_lt] at *
  exact List.le_trans h1 h2

theorem fallbackLt_irrefl (a : List ScopeElt) : fallbackLt a a = false := by
  simp only [fallbackLt, decide_eq_false_iff_not]
  exact List.lt_irrefl _

/-- any two scopes are comparable under the fallback key -/
theorem fallbackLt_total (a b : List ScopeElt) : fallbackLt a b = false ∨ fallbackLt b a = false := by
  simp only [fallbackLt, decide_eq_false_iff_not, List.not_lt]
  exact (List.le_total _ _).symm

end Uberjob.Progress
