import UberjobModel.Lemmas.PlanArgs
/-!
  `_add_value_store` (caching.py): the argument out-edges of a node are moved to its read node with the same key;
  every consumer then sees the read node exactly where it saw the node.
-/
namespace Uberjob.Plan

/-- `plan.graph.remove_edge(node, successor, dependency); plan.graph.add_edge(read_node, successor, dependency)`
    for the `PositionalArg` / `KeywordArg` out-edges of `n`. -/
def rewire (n r : Nat) (e : Edge) : Edge :=
  if e.src = n ∧ e.key ≠ .dep then { e with src := r } else e

def ren (n r : Nat) (a : Nat) : Nat := if a = n then r else a

theorem rewire_dst (n r : Nat) (e : Edge) : (rewire n r e).dst = e.dst := by
  unfold rewire; split <;> rfl

theorem rewire_key (n r : Nat) (e : Edge) : (rewire n r e).key = e.key := by
  unfold rewire; split <;> rfl

theorem rewire_src_arg (n r : Nat) (e : Edge) (h : e.key ≠ .dep) : (rewire n r e).src = ren n r e.src := by
  unfold rewire ren
  by_cases hs : e.src = n
  · simp [hs, h]
  · simp [hs]

theorem inEdges_map_rewire (n r c : Nat) (es : List Edge) :
    inEdges (es.map (rewire n r)) c = (inEdges es c).map (rewire n r) := by
  unfold inEdges
  induction es with
  | nil => rfl
  | cons e es ih =>
    simp only [List.map_cons, List.filter_cons, rewire_dst]
    split <;> simp [ih]

theorem posPairs_map_rewire (n r : Nat) (es : List Edge) :
    posPairs (es.map (rewire n r)) = (posPairs es).map (fun p => (p.1, ren n r p.2)) := by
  unfold posPairs
  induction es with
  | nil => rfl
  | cons e es ih =>
    simp only [List.map_cons, List.filterMap_cons, rewire_key]
    cases hk : e.key with
    | dep => simpa using ih
    | kw nm i => simpa using ih
    | pos i =>
      have := rewire_src_arg n r e (by rw [hk]; simp)
      simp [this, ih]

theorem kwPairs_map_rewire (n r : Nat) (es : List Edge) :
    kwPairs (es.map (rewire n r)) = (kwPairs es).map (fun p => (p.1, (p.2.1, ren n r p.2.2))) := by
  unfold kwPairs
  induction es with
  | nil => rfl
  | cons e es ih =>
    simp only [List.map_cons, List.filterMap_cons, rewire_key]
    cases hk : e.key with
    | dep => simpa using ih
    | pos i => simpa using ih
    | kw nm i =>
      have := rewire_src_arg n r e (by rw [hk]; simp)
      simp [this, ih]

theorem foldl_set_map {α β : Type} (g : α → β) : ∀ (ps : List (Nat × α)) (acc : List (Option α)),
    (ps.map (fun p => (p.1, g p.2))).foldl (fun acc p => acc.set p.1 (some p.2)) (acc.map (Option.map g))
      = (ps.foldl (fun acc p => acc.set p.1 (some p.2)) acc).map (Option.map g)
  | [], _ => rfl
  | p :: ps, acc => by
    simp only [List.map_cons, List.foldl_cons]
    have : (acc.map (Option.map g)).set p.1 (some (g p.2)) = (acc.set p.1 (some p.2)).map (Option.map g) := by
      rw [List.map_set]; rfl
    rw [this, foldl_set_map g ps]

theorem placeAll_map {α β : Type} (g : α → β) (k : Nat) (ps : List (Nat × α)) :
    placeAll k (ps.map (fun p => (p.1, g p.2))) = (placeAll k ps).map (List.map (Option.map g)) := by
  unfold placeAll
  have hall : (ps.map (fun p => (p.1, g p.2))).all (fun p => decide (p.1 < k)) = ps.all (fun p => decide (p.1 < k)) := by
    rw [List.all_map]; rfl
  rw [hall]
  split
  · have := foldl_set_map g ps (List.replicate k none)
    simp only [List.map_replicate, Option.map_none] at this
    rw [this]; rfl
  · rfl

theorem allSome_map {α β : Type} (g : α → β) : ∀ (l : List (Option α)),
    allSome (l.map (Option.map g)) = (allSome l).map (List.map g)
  | [] => rfl
  | none :: l => rfl
  | some a :: l => by
    simp only [List.map_cons, Option.map_some, allSome, allSome_map g l]
    cases allSome l <;> rfl

theorem pyDictS_foldl_map {α β : Type} (g : α → β) : ∀ (ps acc : List (String × α)),
    (ps.map (fun q => (q.1, g q.2))).foldl (fun acc p =>
      if acc.any (fun q => q.1 == p.1) then acc.map (fun q => if q.1 == p.1 then (q.1, p.2) else q)
      else acc ++ [p]) (acc.map (fun q => (q.1, g q.2)))
    = (ps.foldl (fun acc p =>
      if acc.any (fun q => q.1 == p.1) then acc.map (fun q => if q.1 == p.1 then (q.1, p.2) else q)
      else acc ++ [p]) acc).map (fun q => (q.1, g q.2))
  | [], _ => rfl
  | p :: ps, acc => by
    simp only [List.map_cons, List.foldl_cons]
    have hany : (acc.map (fun q => (q.1, g q.2))).any (fun q => q.1 == p.1) = acc.any (fun q => q.1 == p.1) := by
      rw [List.any_map]; rfl
    rw [hany]
    split
    · have : (acc.map (fun q => (q.1, g q.2))).map (fun q => if q.1 == p.1 then (q.1, g p.2) else q)
          = (acc.map (fun q => if q.1 == p.1 then (q.1, p.2) else q)).map (fun q => (q.1, g q.2)) := by
        simp only [List.map_map]
        apply List.map_congr_left
        intro q _
        simp only [Function.comp]
        split <;> rfl
      rw [this, pyDictS_foldl_map g ps]
    · have : acc.map (fun q => (q.1, g q.2)) ++ [(p.1, g p.2)] = (acc ++ [p]).map (fun q => (q.1, g q.2)) := by simp
      rw [this, pyDictS_foldl_map g ps]

theorem pyDictS_map {α β : Type} (g : α → β) (ps : List (String × α)) :
    pyDictS (ps.map (fun q => (q.1, g q.2))) = (pyDictS ps).map (fun q => (q.1, g q.2)) := by
  unfold pyDictS
  exact pyDictS_foldl_map g ps []

/-- After the rewiring every call `c` has the same positional and keyword argument lists as before, with the
    node `n` replaced by the read node `r` at exactly the same positions and under the same names. -/
theorem getArgumentNodes_rewire (es : List Edge) (n r c : Nat) :
    getArgumentNodes (es.map (rewire n r)) c
      = (getArgumentNodes es c).map (fun p => (p.1.map (ren n r), p.2.map (fun q => (q.1, ren n r q.2)))) := by
  unfold getArgumentNodes
  simp only [inEdges_map_rewire, posPairs_map_rewire, kwPairs_map_rewire, List.length_map]
  rw [placeAll_map (ren n r), placeAll_map (fun (q : String × Nat) => (q.1, ren n r q.2))]
  cases h1 : placeAll (posPairs (inEdges es c)).length (posPairs (inEdges es c)) with
  | none => rfl
  | some a =>
    cases h2 : placeAll (kwPairs (inEdges es c)).length (kwPairs (inEdges es c)) with
    | none => rfl
    | some k =>
      simp only [Option.map_some, allSome_map]
      cases allSome a with
      | none => rfl
      | some a' =>
        cases allSome k with
        | none => rfl
        | some k' => simp [pyDictS_map]

end Uberjob.Plan
