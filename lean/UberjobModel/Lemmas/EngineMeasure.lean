import UberjobModel.Lemmas.EngineLive
/-!
  Termination: an explicit measure that every step strictly decreases.
-/
namespace Uberjob.Engine
open Uberjob.Gen.Engine

def nodePot (g : Graph) (x : Nat) : Nat := (g.succs x).length + 5

def qPot (g : Graph) : Item → Nat
  | .node x => (g.succs x).length + 4
  | .done => 3

def wPot (g : Graph) : W → Nat
  | .held (.node x) => (g.succs x).length + 3
  | .held .done => 2
  | .running x => (g.succs x).length + 2
  | .releasing _ todo => todo.length + 1
  | .finishing _ => 1
  | .idle => 0
  | .exited => 0

def cPot (cfg : Cfg) : Coord → Nat
  | .returned _ => 0
  | .joining _ => 1
  | .putting k _ => 2 + 4 * (cfg.workers - k)
  | .stopping _ => 3 + 4 * cfg.workers
  | .waiting => 4 + 4 * cfg.workers
  | .spawning i => 5 + 4 * cfg.workers + (cfg.workers - i)

def freshPot (g : Graph) (enq : List Nat) : Nat :=
  ((g.nodes.filter (fun x => !enq.contains x)).map (nodePot g)).sum

def mu (g : Graph) (cfg : Cfg) (s : St) : Nat :=
  freshPot g s.enq + (s.queue.map (qPot g)).sum + (s.ws.map (wPot g)).sum + cPot cfg s.coord

theorem sum_map_set {f : W → Nat} {l : List W} {i : Nat} {a b : W} (h : l[i]? = some a) :
    ((l.set i b).map f).sum + f a = (l.map f).sum + f b := by
  induction l generalizing i with
  | nil => simp at h
  | cons c t ih =>
    cases i with
    | zero => simp at h; subst h; simp; omega
    | succ i =>
      simp at h; have := ih h
      simp only [List.set_cons_succ, List.map_cons, List.sum_cons] at this ⊢; omega

theorem sum_map_erase {f : Item → Nat} {l : List Item} {a : Item} (h : a ∈ l) :
    ((l.erase a).map f).sum + f a = (l.map f).sum := by
  induction l with
  | nil => cases h
  | cons c t ih =>
    by_cases hca : c = a
    · subst hca; simp; omega
    · have hat : a ∈ t := by
        rcases List.mem_cons.mp h with h1 | h1
        · exact absurd h1.symm hca
        · exact h1
      have := ih hat
      rw [List.erase_cons_tail (by simpa using hca)]
      simp; omega

theorem freshPot_put {g : Graph} (hn : g.nodes.Nodup) {enq : List Nat} {y : Nat} (hy : y ∈ g.nodes)
    (hne : y ∉ enq) : freshPot g (enq ++ [y]) + nodePot g y = freshPot g enq := by
  unfold freshPot
  generalize g.nodes = ns at hn hy
  induction ns with
  | nil => cases hy
  | cons c t ih =>
    have hnt := (List.nodup_cons.mp hn).2
    have hct := (List.nodup_cons.mp hn).1
    by_cases hcy : c = y
    · subst hcy
      have hrest : List.filter (fun x => !(enq ++ [c]).contains x) t = List.filter (fun x => !enq.contains x) t := by
        apply List.filter_congr
        intro x hx
        have : x ≠ c := fun h => hct (h ▸ hx)
        simp [this]
      rw [List.filter_cons, List.filter_cons, hrest]
      simp [hne]; omega
    · have hyt : y ∈ t := by
        rcases List.mem_cons.mp hy with h1 | h1
        · exact absurd h1.symm hcy
        · exact h1
      have := ih hnt hyt
      by_cases hce : c ∈ enq
      · simp [List.filter_cons, hce]; simpa using this
      · simp [List.filter_cons, hce, hcy]
        simp at this; omega

/-- Every step strictly decreases the measure. -/
theorem mu_decreases {g : Graph} (hg : g.WF) {cfg : Cfg} {s s' : St} {l : Label}
    (hi : Inv g s) (h : step? g cfg s l = some s') : mu g cfg s' < mu g cfg s := by
  cases l with
  | spawn =>
    simp only [step?] at h
    split at h
    · next i hc =>
      split at h
      · next hlt =>
        cases h
        simp only [mu, hc, List.map_append, List.sum_append]
        split <;> simp [cPot, wPot] <;> omega
      · cases h
    · cases h
  | get w i =>
    simp only [step?] at h
    split at h
    · next hw =>
      split at h
      · next hq =>
        cases h
        have h1 := sum_map_set (f := wPot g) (b := W.held i) hw
        have h2 := sum_map_erase (f := qPot g) hq
        simp only [mu, setW]
        cases i <;> simp [wPot, qPot] at h1 h2 ⊢ <;> omega
      · cases h
    · cases h
  | check w =>
    simp only [step?] at h
    split at h
    · next hw =>
      cases h
      have h1 := sum_map_set (f := wPot g) (b := W.finishing true) hw
      simp only [mu, setW]; simp [wPot] at h1 ⊢; omega
    · next x hw =>
      split at h
      · cases h
        have h1 := sum_map_set (f := wPot g) (b := W.finishing false) hw
        simp only [mu, setW]; simp [wPot] at h1 ⊢; omega
      · cases h
        have h1 := sum_map_set (f := wPot g) (b := W.running x) hw
        simp only [mu, setW]; simp [wPot] at h1 ⊢; omega
    · cases h
  | finOk w =>
    simp only [step?] at h
    split at h
    · next x hw =>
      cases h
      have h1 := sum_map_set (f := wPot g) (b := W.releasing x (g.succs x)) hw
      simp only [mu, setW]; simp [wPot] at h1 ⊢; omega
    · cases h
  | finFail w =>
    simp only [step?] at h
    split at h
    · next x hw =>
      cases h
      have h1 := sum_map_set (f := wPot g) (b := W.finishing false) hw
      simp only [mu, setW]; simp [wPot] at h1 ⊢; omega
    · cases h
  | release w y =>
    simp only [step?] at h
    split at h
    · next x todo hw =>
      split at h
      · next hyt =>
        cases h
        have h1 := sum_map_set (f := wPot g) (b := W.releasing x (todo.erase y)) hw
        have hlen : (todo.erase y).length + 1 = todo.length := by
          rw [List.length_erase_of_mem hyt]
          have := List.length_pos_of_mem hyt; omega
        have hmem : W.releasing x todo ∈ s.ws := List.mem_of_getElem? hw
        obtain ⟨_, _, htodo, _⟩ := hi.relsing x todo hmem
        obtain ⟨hys, hnr⟩ := htodo y hyt
        have hxp : x ∈ g.preds y := (hg.adj x y).mp hys
        have hcy : cnt s y = 0 := by
          rcases Nat.eq_zero_or_pos (cnt s y) with h0 | h0
          · exact h0
          · exact absurd (hi.ready y h0 x hxp) hnr
        have hne : y ∉ s.enq := by
          intro hm
          have := List.count_pos_iff.mpr hm
          have := hi.place y
          omega
        have hyn : y ∈ g.nodes := (hg.succsNodes x y hys).2
        have hf := freshPot_put hg.nodesNodup hyn hne
        simp only [mu, setW]
        by_cases hp : releasePut g s y = true
        · simp [hp, wPot, qPot, nodePot] at h1 hf ⊢; omega
        · simp [hp, wPot] at h1 ⊢; omega
      · cases h
    · cases h
  | taskDone w =>
    simp only [step?] at h
    split at h
    · next x hw =>
      cases h
      have h1 := sum_map_set (f := wPot g) (b := W.idle) hw
      simp only [mu, setW]; simp [wPot] at h1 ⊢; omega
    · next hw =>
      cases h
      have h1 := sum_map_set (f := wPot g) (b := W.idle) hw
      simp only [mu, setW]; simp [wPot] at h1 ⊢; omega
    · next hw =>
      cases h
      have h1 := sum_map_set (f := wPot g) (b := W.exited) hw
      simp only [mu, setW]; simp [wPot] at h1 ⊢; omega
    · cases h
  | joinReturn =>
    simp only [step?] at h
    split at h
    · next hc =>
      split at h
      · cases h; simp only [mu, hc, cPot]; omega
      · cases h
    · cases h
  | interrupt =>
    simp only [step?] at h
    split at h
    · next hc => cases h; simp only [mu, hc, cPot]; omega
    · cases h
  | setStop =>
    simp only [step?] at h
    split at h
    · next i hc => cases h; simp only [mu, hc, cPot]; omega
    · cases h
  | putDone =>
    simp only [step?] at h
    split at h
    · next k i hc =>
      split at h
      · next hlt =>
        cases h
        simp only [mu, hc, List.map_append, List.sum_append]
        split <;> simp [cPot, qPot] <;> omega
      · cases h
    · cases h
  | joined =>
    simp only [step?] at h
    split at h
    · next i hc =>
      split at h
      · cases h; simp only [mu, hc, cPot]; omega
      · cases h
    · cases h

/-- Every accepted label sequence is shorter than the initial measure: no infinite run. -/
theorem run_length_bound {g : Graph} (hg : g.WF) {cfg : Cfg} {s s' : St} {ls : List Label}
    (hr : Reach g cfg s) (h : run? g cfg s ls = some s') : ls.length + mu g cfg s' ≤ mu g cfg s := by
  induction ls generalizing s with
  | nil => simp [run?] at h; subst h; simp
  | cons l ls ih =>
    simp only [run?] at h
    split at h
    · next s1 h1 =>
      have := ih (Reach.step l hr h1) h
      have := mu_decreases hg (inv_reach hg hr) h1
      simp; omega
    · cases h

end Uberjob.Engine
