import UberjobModel.Lemmas.ExecGraph
import UberjobModel.Lemmas.CacheHistory
/-!
  The run, end to end: the effects of the physical plan's nodes (Model/Exec.lean), applied in the order in which ANY
  schedule of the engine model completes them, keep an invariant from which C03 (outputs and stored values equal
  from-scratch), C05 (exactly the out-of-date stored values are rewritten, nothing is out of date afterwards) and C08
  (`Good` after every cut) follow — without assuming anything about the order or the values of the store events.
-/
set_option linter.unusedSectionVars false
set_option linter.unusedSimpArgs false
namespace Uberjob.Exec
open Uberjob.Phys Uberjob.Cache

/-! ### cache-level facts -/

/-- From-scratch values depend only on what the SOURCE stores hold. -/
theorem FS_congr {L : LPlan} (hL : L.WF) {w w' : World}
    (h : ∀ i, L.reg i = some true → w'.content i = w.content i) : ∀ k, FS L w' k = FS L w k := by
  intro k
  induction k using Nat.strongRecOn with
  | ind k ih =>
    rw [FS_eq hL w' k, FS_eq hL w k]
    have hm : (L.args k).map (FS L w') = (L.args k).map (FS L w) :=
      List.map_congr_left (fun p hp => ih p (hL.predsLt k p (hL.argsSub k p hp)))
    cases hr : L.reg k with
    | none => simp only [hm]
    | some s =>
      cases s with
      | true => simp only [h k hr]
      | false => simp only [hm]

/-- A registered node that is not out of date holds a value. -/
theorem present_of_fresh {L : LPlan} (hL : L.WF) {w : World} {F : Option Int} {u : Nat} {s : Bool}
    (hreg : L.reg u = some s) (hns : isStale L w F u = false) : ∃ v t, w.st u = some (v, t) := by
  cases hst : w.st u with
  | some vt => exact ⟨vt.1, vt.2, rfl⟩
  | none =>
    exfalso
    unfold isStale at hns
    rw [sres_eq hL] at hns
    unfold staleStepF at hns
    have hm : w.mtime u = none := by unfold World.mtime; rw [hst]; rfl
    split at hns
    · cases hns
    · simp [hreg, hm] at hns

/-- Under `Good`, a stored value that the run treats as up to date (for ANY `fresh_time`) is the from-scratch value. -/
theorem fresh_content {L : LPlan} (hL : L.WF) {w : World} (hg : Good L w) {F : Option Int} {u : Nat}
    (hreg : L.reg u = some false) (hns : isStale L w F u = false) : ∃ t, w.st u = some (FS L w u, t) := by
  obtain ⟨v, t, hst⟩ := present_of_fresh hL hreg hns
  have h0 : isStale L w none u = false := by
    unfold isStale; rw [stale_mono_fresh hL w F u hns]; exact hns
  exact ⟨t, by rw [hst, hg u hreg v t hst h0]⟩

theorem below_mono {w : World} {a b : Int} (h : w.below a) (hab : a ≤ b) : w.below b :=
  fun i m hm => Int.lt_of_lt_of_le (h i m hm) hab

theorem below_set {w : World} {c : Int} (h : w.below c) (i : Nat) (v : V) :
    (w.set i (some (v, c))).below (c + 1) := by
  intro j m hm
  unfold World.mtime World.set at hm
  simp only at hm
  split at hm
  · simp at hm; omega
  · have := h j m (by unfold World.mtime; exact hm); omega

/-! ### engine-level facts -/

theorem engine_wf (P : Input) : (engineGraph P).WF := Engine.ofEdges_wf _ _

/-- An engine node is the code of a node of the plan handed to the engine. -/
theorem engine_node {P : Input} {n : Nat} (h : n ∈ (engineGraph P).nodes) :
    ∃ a, n = code a ∧ a ∈ (physEngine P).nodes := by
  simp only [engineGraph, toEngine, Engine.Graph.ofEdges, Engine.mem_dedup, List.mem_map] at h
  obtain ⟨a, ha, rfl⟩ := h
  exact ⟨a, rfl, ha⟩

theorem engine_sub_final {P : Input} {a : PN} (h : a ∈ (physEngine P).nodes) : a ∈ (physFinal P).nodes :=
  (mem_dropSourceLits_nodes.mp h).1

theorem final_sub_built {P : Input} {a : PN} (h : a ∈ (physFinal P).nodes) : a ∈ (physBuild P).nodes := by
  unfold physFinal prunePlan pruneLiterals at h
  exact (mem_pruneAnc_nodes.mp (foldLit_nodes_sub h)).1

/-- If the plan before pruning has a path from a call `a` to `b` and `b` has begun, `a` has completed. -/
theorem path_order {P : Input} (hP : P.WF) {cfg : Engine.Cfg} {s : Engine.St}
    (h : Engine.Reach (engineGraph P) cfg s) {a b : PN} (hab : Path (physBuild P).edges a b)
    (ha : a.isLit P = false) (hb : code b ∈ s.begun) : code a ∈ s.okd := by
  have hwf := engine_wf P
  have hbn := Engine.begun_in_nodes hwf h _ hb
  exact Engine.begun_path_okd (Engine.inv_reach hwf h) (engine_path hP hab ha hbn) hb

/-- Only `finOk` extends the list of completed nodes, by the node the worker was running. -/
theorem okd_step {g : Engine.Graph} {cfg : Engine.Cfg} {s s' : Engine.St} {l : Engine.Label}
    (h : Engine.step? g cfg s l = some s') :
    s'.okd = s.okd ∨ ∃ (w x : Nat), s.ws[w]? = some (Engine.W.running x) ∧ s'.okd = s.okd ++ [x] := by
  cases l <;> simp only [Engine.step?] at h
  case finOk w =>
    split at h
    · next x hw => cases h; exact Or.inr ⟨w, x, hw, rfl⟩
    · cases h
  all_goals
    left
    repeat' split at h
    all_goals first | (cases h; rfl) | cases h

/-! ### which nodes exist -/

theorem write_node_reg {P : Input} (hP : P.WF) {i : Nat} (hm : PN.write i ∈ (physBuild P).nodes) :
    P.regOf i = some false ∧ P.isStale i = true := by
  rcases mem_built_nodes.mp hm with ⟨j, _, hj⟩ | ⟨r, hr, hg⟩
  · cases hj
  · have hreg : P.regOf r.1 = some r.2 := regOf_of_mem hP (by cases r; exact hr)
    unfold Input.gadgetNodes at hg
    simp only [List.mem_append, List.mem_cons, List.not_mem_nil, or_false] at hg
    rcases hg with (hg | hg) | hg
    · cases hg
    · cases hg
    · split at hg
      · next hst =>
        simp only [List.mem_singleton] at hg
        split at hg
        · cases hg
        · next h2 =>
          simp only [PN.write.injEq] at hg; subst hg
          exact ⟨by rw [hreg]; simpa using h2, hst⟩
      · cases hg

theorem read_node_reg {P : Input} (hP : P.WF) {u : Nat} (hm : PN.read u ∈ (physBuild P).nodes) :
    ∃ s, P.regOf u = some s := by
  rcases mem_built_nodes.mp hm with ⟨j, _, hj⟩ | ⟨r, hr, hg⟩
  · cases hj
  · have hreg : P.regOf r.1 = some r.2 := regOf_of_mem hP (by cases r; exact hr)
    unfold Input.gadgetNodes at hg
    simp only [List.mem_append, List.mem_cons, List.not_mem_nil, or_false] at hg
    rcases hg with (hg | hg) | hg
    · cases hg
    · simp only [PN.read.injEq] at hg; subst hg; exact ⟨_, hreg⟩
    · split at hg
      · simp only [List.mem_singleton] at hg
        split at hg <;> cases hg
      · cases hg

/-- A completed engine node is a node of the plan before pruning. -/
theorem okd_node {P : Input} {cfg : Engine.Cfg} {s : Engine.St} (h : Engine.Reach (engineGraph P) cfg s)
    {a : PN} (ha : code a ∈ s.okd) : a ∈ (physBuild P).nodes := by
  have hi := Engine.inv_reach (engine_wf P) h
  obtain ⟨b, hb, hbn⟩ := engine_node (Engine.begun_in_nodes (engine_wf P) h _ (hi.okBegun _ ha))
  rw [code_inj hb]
  exact final_sub_built (engine_sub_final hbn)

/-! ### the invariant -/

/-- The hypotheses of the end-to-end theorems: a well-formed logical plan with its registry; the stale set is the one
    the stale check computes from the store state `w0` and `fresh_time` `F`; every source is up to date (a pure source
    holds a value; a dependent source is not older than what it depends on); literals take no arguments; `Good`
    initially; the clock `c0` is past every modified time and not before `fresh_time`. -/
structure Setup (P : Input) (w0 : World) (F : Option Int) (c0 : Int) : Prop where
  wf : P.WF
  stale : ∀ x, P.isStale x = Cache.isStale P.toLPlan w0 F x
  srcFresh : ∀ i, P.regOf i = some true → P.isStale i = false
  litArgs : ∀ e ∈ P.edges, P.lits.contains e.dst = true → e.key.isArg = false
  good : Good P.toLPlan w0
  below : w0.below c0
  fresh : ∀ f, F = some f → f ≤ c0

structure XInv (P : Input) (w0 : World) (c0 : Int) (okd : List Nat) (x : XSt) : Prop where
  clockLe : c0 ≤ x.clock
  below : x.w.below x.clock
  readOk : ∀ u, code (.read u) ∈ okd → x.slot (.read u) = some (FS P.toLPlan w0 u)
  origOk : ∀ j, code (.orig j) ∈ okd → P.lits.contains j = false → P.regOf j ≠ some true →
    x.slot (.orig j) = some (FS P.toLPlan w0 j)
  written : ∀ i, code (.write i) ∈ okd → ∃ t, x.w.st i = some (FS P.toLPlan w0 i, t) ∧ c0 ≤ t
  untouched : ∀ i, code (.write i) ∉ okd → x.w.st i = w0.st i
  good : Good P.toLPlan x.w
  order : ∀ q k tq tk, q ≠ k → code (.write q) ∈ okd → code (.write k) ∈ okd →
    x.w.mtime q = some tq → x.w.mtime k = some tk → Cache.Reach P.toLPlan q k → tq < tk

theorem mem_snoc_code {okd : List Nat} {a b : PN} : code b ∈ okd ++ [code a] ↔ code b ∈ okd ∨ b = a := by
  simp only [List.mem_append, List.mem_singleton]
  constructor
  · rintro (h | h)
    · exact Or.inl h
    · exact Or.inr (code_inj h)
  · rintro (h | h)
    · exact Or.inl h
    · exact Or.inr (by rw [h])

theorem xinv_init {P : Input} {w0 : World} {F : Option Int} {c0 : Int} (S : Setup P w0 F c0) :
    XInv P w0 c0 [] (initX w0 c0) where
  clockLe := Int.le_refl _
  below := S.below
  readOk := fun _ h => by cases h
  origOk := fun _ h => by cases h
  written := fun _ h => by cases h
  untouched := fun _ _ => rfl
  good := S.good
  order := fun _ _ _ _ _ h => by cases h

/-- Completing a node that touches neither a slot nor a store. -/
theorem xinv_noop {P : Input} {w0 : World} {c0 : Int} {okd : List Nat} {x : XSt} (I : XInv P w0 c0 okd x) {a : PN}
    (hr : ∀ u, a ≠ .read u) (hw : ∀ i, a ≠ .write i) (ho : ∀ j, a = .orig j → P.lits.contains j = true) :
    XInv P w0 c0 (okd ++ [code a]) x where
  clockLe := I.clockLe
  below := I.below
  readOk := fun u h => by
    rcases mem_snoc_code.mp h with h | h
    · exact I.readOk u h
    · exact absurd h.symm (hr u)
  origOk := fun j h hl hs => by
    rcases mem_snoc_code.mp h with h | h
    · exact I.origOk j h hl hs
    · rw [ho j h.symm] at hl; cases hl
  written := fun i h => by
    rcases mem_snoc_code.mp h with h | h
    · exact I.written i h
    · exact absurd h.symm (hw i)
  untouched := fun i h => I.untouched i (fun h' => h (mem_snoc_code.mpr (Or.inl h')))
  good := I.good
  order := fun q k tq tk hne hq hk => by
    have hq' : code (PN.write q) ∈ okd := by
      rcases mem_snoc_code.mp hq with h | h
      · exact h
      · exact absurd h.symm (hw q)
    have hk' : code (PN.write k) ∈ okd := by
      rcases mem_snoc_code.mp hk with h | h
      · exact h
      · exact absurd h.symm (hw k)
    exact I.order q k tq tk hne hq' hk'

/-- Completing a node that fills its slot (a user call or a read-back) with the right value. -/
theorem xinv_slot {P : Input} {w0 : World} {c0 : Int} {okd : List Nat} {x : XSt} (I : XInv P w0 c0 okd x) {a : PN} {v : V}
    (hw : ∀ i, a ≠ .write i)
    (hr : ∀ u, a = .read u → v = FS P.toLPlan w0 u)
    (ho : ∀ j, a = .orig j → P.lits.contains j = false → P.regOf j ≠ some true → v = FS P.toLPlan w0 j) :
    XInv P w0 c0 (okd ++ [code a]) (setSlot x a v) where
  clockLe := I.clockLe
  below := I.below
  readOk := fun u h => by
    simp only [setSlot]
    by_cases hu : PN.read u = a
    · simp only [hu, if_true]; rw [hr u hu.symm]
    · simp only [hu, if_false]
      rcases mem_snoc_code.mp h with h | h
      · exact I.readOk u h
      · exact absurd h hu
  origOk := fun j h hl hs => by
    simp only [setSlot]
    by_cases hu : PN.orig j = a
    · simp only [hu, if_true]; rw [ho j hu.symm hl hs]
    · simp only [hu, if_false]
      rcases mem_snoc_code.mp h with h | h
      · exact I.origOk j h hl hs
      · exact absurd h hu
  written := fun i h => by
    rcases mem_snoc_code.mp h with h | h
    · exact I.written i h
    · exact absurd h.symm (hw i)
  untouched := fun i h => I.untouched i (fun h' => h (mem_snoc_code.mpr (Or.inl h')))
  good := I.good
  order := fun q k tq tk hne hq hk => by
    have hq' : code (PN.write q) ∈ okd := by
      rcases mem_snoc_code.mp hq with h | h
      · exact h
      · exact absurd h.symm (hw q)
    have hk' : code (PN.write k) ∈ okd := by
      rcases mem_snoc_code.mp hk with h | h
      · exact h
      · exact absurd h.symm (hw k)
    exact I.order q k tq tk hne hq' hk'

/-! ### what a completing node reads -/

section steps
variable {P : Input} {w0 : World} {F : Option Int} {c0 : Int} (S : Setup P w0 F c0)
  {cfg : Engine.Cfg} {s : Engine.St} (h : Engine.Reach (engineGraph P) cfg s)
  {D : List Nat} (hD1 : ∀ n, n ∈ s.okd → n ∈ D) (hD2 : ∀ n, n ∈ D → n ∈ s.begun)
  {x : XSt} (I : XInv P w0 c0 D x)
include S h hD1 hD2 I

theorem begun_built {a : PN} (hb : code a ∈ s.begun) : a ∈ (physFinal P).nodes ∧ a ∈ (physBuild P).nodes := by
  obtain ⟨b, hb', hbn⟩ := engine_node (Engine.begun_in_nodes (engine_wf P) h _ hb)
  rw [code_inj hb']
  exact ⟨engine_sub_final hbn, final_sub_built (engine_sub_final hbn)⟩

theorem write_not_okd_of_not {i : Nat} (hns : ¬ (P.regOf i = some false ∧ P.isStale i = true)) :
    code (.write i) ∉ D :=
  fun hm => hns (write_node_reg S.wf (begun_built S h hD1 hD2 I (hD2 _ hm)).2)

/-- What `read u` finds in the store is the from-scratch value of `u`. -/
theorem read_value {u : Nat} (hb : code (.read u) ∈ s.begun) :
    (x.w.content u).getD (.missing u) = FS P.toLPlan w0 u := by
  have hL := toLPlan_wf S.wf
  obtain ⟨sr, hreg⟩ := read_node_reg S.wf (begun_built S h hD1 hD2 I hb).2
  have hregL : P.toLPlan.reg u = some sr := hreg
  cases sr with
  | true =>
    have hu := I.untouched u (write_not_okd_of_not S h hD1 hD2 I (by rw [hreg]; simp))
    rw [FS_eq hL, hregL]
    simp only [World.content, hu]
  | false =>
    by_cases hst : P.isStale u = true
    · have hadj := W_to_read hreg hst
      have hW : P.W u = .write u := by simp [Input.W, hreg]
      rw [hW] at hadj
      have := path_order S.wf h (Path.single hadj) rfl hb
      obtain ⟨t, ht, _⟩ := I.written u (hD1 _ this)
      simp [World.content, ht]
    · have hu := I.untouched u (write_not_okd_of_not S h hD1 hD2 I (fun hh => hst hh.2))
      have hns : isStale P.toLPlan w0 F u = false := by
        rw [← S.stale]; simpa using hst
      obtain ⟨t, ht⟩ := fresh_content hL S.good hregL hns
      simp [World.content, hu, ht]

theorem lit_args_nil {u : Nat} (hl : P.lits.contains u = true) : P.toLPlan.args u = [] := by
  simp only [Input.toLPlan, List.map_eq_nil_iff, List.filter_eq_nil_iff]
  intro e he
  by_cases hd : e.dst = u
  · have := S.litArgs e he (by rw [hd]; exact hl)
    simp [this]
  · simp [hd]

theorem FS_lit {u : Nat} (hl : P.lits.contains u = true) (hr : P.regOf u ≠ some true) :
    FS P.toLPlan w0 u = .app u [] := by
  rw [FS_eq (toLPlan_wf S.wf), lit_args_nil S h hD1 hD2 I hl]
  have hr' : P.toLPlan.reg u ≠ some true := hr
  split
  · next h1 => exact absurd h1 hr'
  · rfl

/-- The value an argument node of a begun node holds is the from-scratch value of the logical node it stands for. -/
theorem arg_value {u j : Nat} (hu : u ∈ P.toLPlan.args j)
    (hpath : ∀ a, a.isLit P = false → (∃ k, (⟨a, .orig j, k⟩ : Edge PN) ∈ (physBuild P).edges) → code a ∈ s.okd) :
    x.get P (argNode P u) = FS P.toLPlan w0 u := by
  simp only [Input.toLPlan, List.mem_map, List.mem_filter, Bool.and_eq_true, beq_iff_eq] at hu
  obtain ⟨e, ⟨he, hd, hk⟩, hs⟩ := hu
  cases hr : P.regOf u with
  | some sr =>
    have hedge : (⟨.read u, .orig j, e.key⟩ : Edge PN) ∈ (physBuild P).edges :=
      mem_built_edges.mpr (Or.inl ⟨e, he, by simp [Input.rewire, hs, hr, hk, hd]⟩)
    have := hpath (.read u) rfl ⟨_, hedge⟩
    simp only [argNode, hr, Option.isSome_some, if_true, XSt.get, I.readOk u (hD1 _ this), Option.getD_some]
  | none =>
    simp only [argNode, hr, Option.isSome_none, Bool.false_eq_true, if_false, XSt.get]
    by_cases hl : P.lits.contains u = true
    · simp only [hl, if_true]
      exact (FS_lit S h hD1 hD2 I hl (by rw [hr]; simp)).symm
    · have hl' : P.lits.contains u = false := by simpa using hl
      have hedge : (⟨.orig u, .orig j, e.key⟩ : Edge PN) ∈ (physBuild P).edges :=
        mem_built_edges.mpr (Or.inl ⟨e, he, by simp [Input.rewire, hs, hr, hd]⟩)
      have := hpath (.orig u) (by simpa [PN.isLit] using hl') ⟨_, hedge⟩
      simp only [hl', Bool.false_eq_true, if_false, I.origOk u (hD1 _ this) hl' (by rw [hr]; simp), Option.getD_some]

/-- What a user call computes is its from-scratch value. -/
theorem orig_value {j : Nat} (hb : code (.orig j) ∈ s.begun) (hs : P.regOf j ≠ some true) :
    V.app j ((argSrcs (physFinal P) (.orig j)).map (x.get P)) = FS P.toLPlan w0 j := by
  have hL := toLPlan_wf S.wf
  rw [argSrcs_final S.wf (begun_built S h hD1 hD2 I hb).1, argSrcs_built, FS_eq hL]
  have hs' : P.toLPlan.reg j ≠ some true := hs
  have hm : ((P.toLPlan.args j).map (argNode P)).map (x.get P) = (P.toLPlan.args j).map (FS P.toLPlan w0) := by
    rw [List.map_map]
    apply List.map_congr_left
    intro u hu
    exact arg_value S h hD1 hD2 I hu
      (fun a ha ⟨k, hk⟩ => path_order S.wf h (Path.single ⟨_, hk, rfl, rfl⟩) ha hb)
  rw [hm]
  split
  · next h1 => exact absurd h1 hs'
  · rfl

/-- The modified times the run has given so far, with their nodes. -/
def linOf (okd : List Nat) (w : World) : List (Nat × Int) :=
  okd.filterMap (fun n => match decode n with
    | .write i => (w.mtime i).map (fun t => (i, t))
    | _ => none)

omit S h hD1 hD2 I in
theorem mem_linOf {okd : List Nat} {w : World} {i : Nat} {t : Int} :
    (i, t) ∈ linOf okd w ↔ code (.write i) ∈ okd ∧ w.mtime i = some t := by
  simp only [linOf, List.mem_filterMap]
  constructor
  · rintro ⟨n, hn, hm⟩
    split at hm
    · next j hd =>
      simp only [Option.map_eq_some_iff, Prod.mk.injEq] at hm
      obtain ⟨t', ht', rfl, rfl⟩ := hm
      exact ⟨code_of_decode_write hd ▸ hn, ht'⟩
    · cases hm
  · rintro ⟨hn, hm⟩
    exact ⟨_, hn, by simp [decode_code, hm]⟩

/-- Every registered node that the run has to rewrite upstream of a node whose write has begun has been rewritten. -/
theorem upstream_written {i q : Nat} (hb : code (.write i) ∈ s.begun) (hri : P.regOf i = some false)
    (hreach : Cache.Reach P.toLPlan q i) (hne : q ≠ i) {sq : Bool} (hrq : P.regOf q = some sq)
    (hst : P.isStale q = true) : code (.write q) ∈ s.okd := by
  have hL := toLPlan_wf S.wf
  cases sq with
  | true => rw [S.srcFresh q hrq] at hst; cases hst
  | false =>
    have hall : ∀ y, Cache.Reach P.toLPlan q y → ∀ s', P.regOf y = some s' → P.isStale y = true := by
      intro y hy _ _
      rw [S.stale] at hst ⊢
      exact Cache.stale_reach hL w0 F hst hy
    have hp := write_chain_path hrq hri hne hreach hall
    have hWq : P.W q = .write q := by simp [Input.W, hrq]
    have hWi : P.W i = .write i := by simp [Input.W, hri]
    rw [hWq, hWi] at hp
    exact path_order S.wf h hp rfl hb

/-- Right now nothing upstream of the value about to be written is out of date: every argument gives its
    from-scratch value. -/
theorem rawNow_value {i : Nat} (hb : code (.write i) ∈ s.begun) (hri : P.regOf i = some false) :
    rawNow P.toLPlan x.w i = FS P.toLPlan w0 i := by
  have hL := toLPlan_wf S.wf
  have hsrc : ∀ k, P.toLPlan.reg k = some true → x.w.content k = w0.content k := by
    intro k hk
    have := I.untouched k (write_not_okd_of_not S h hD1 hD2 I (by
      have hk' : P.regOf k = some true := hk
      rw [hk']; simp))
    simp [World.content, this]
  have hFS := FS_congr hL hsrc
  have hfresh : ∀ u, u ∈ P.toLPlan.preds i → isStale P.toLPlan x.w F u = false := by
    intro u hu
    apply run_prefix_fresh hL (w0 := w0) (wf := x.w) (F := F) (lin := linOf D x.w)
    · intro j hj
      by_cases hm : code (.write j) ∈ D
      · obtain ⟨t, ht, _⟩ := I.written j hm
        exact absurd (mem_linOf.mpr ⟨hm, by simp [World.mtime, ht]⟩) (hj t)
      · exact I.untouched j hm
    · intro j t hm; exact (mem_linOf.mp hm).2
    · intro j t hm
      obtain ⟨h1, h2⟩ := write_node_reg S.wf (begun_built S h hD1 hD2 I (hD2 _ (mem_linOf.mp hm).1)).2
      exact ⟨⟨false, h1⟩, by rw [← S.stale]; exact h2⟩
    · intro j t hm
      obtain ⟨hm1, hm2⟩ := mem_linOf.mp hm
      obtain ⟨t', ht', hc⟩ := I.written j hm1
      have : t = t' := by simp [World.mtime, ht'] at hm2; exact hm2.symm
      subst this
      exact ⟨below_mono S.below hc, fun f hf => Int.le_trans (S.fresh f hf) hc⟩
    · intro q tq k tk hq hk hne hr
      obtain ⟨hq1, hq2⟩ := mem_linOf.mp hq
      obtain ⟨hk1, hk2⟩ := mem_linOf.mp hk
      exact I.order q k tq tk hne hq1 hk1 hq2 hk2 hr
    · intro q sq hr hreg hst
      have hri' : Cache.Reach P.toLPlan q i := Cache.Reach.step hr hu
      have hlt : q < i := by
        have := Cache.Reach.le hL hr
        have := hL.predsLt i u hu
        omega
      have hm := hD1 _ (upstream_written S h hD1 hD2 I hb hri hri' (by omega) hreg (by rw [S.stale]; exact hst))
      obtain ⟨t, ht, _⟩ := I.written q hm
      exact ⟨t, mem_linOf.mpr ⟨hm, by simp [World.mtime, ht]⟩⟩
  unfold rawNow
  rw [FS_eq hL]
  have hri' : P.toLPlan.reg i = some false := hri
  simp only [hri']
  congr 1
  apply List.map_congr_left
  intro u hu
  have hup := hL.argsSub i u hu
  have h0 : isStale P.toLPlan x.w none u = false := by
    have := hfresh u hup
    unfold isStale; rw [stale_mono_fresh hL x.w F u this]; exact this
  rw [seen_eq_FS hL I.good u h0, hFS]

/-- The value handed to `write i` is the from-scratch value of `i`. -/
theorem write_arg_value {i : Nat} (hb : code (.write i) ∈ s.begun) (hri : P.regOf i = some false)
    (hst : P.isStale i = true) : x.get P (.orig i) = FS P.toLPlan w0 i := by
  simp only [XSt.get]
  by_cases hl : P.lits.contains i = true
  · simp only [hl, if_true]
    exact (FS_lit S h hD1 hD2 I hl (by rw [hri]; simp)).symm
  · have hl' : P.lits.contains i = false := by simpa using hl
    have hedge : (⟨.orig i, .write i, .pos 1⟩ : Edge PN) ∈ (physBuild P).edges :=
      mem_built_edges.mpr (Or.inr ⟨(i, false), mem_of_regOf hri, by simp [Input.gadgetEdges, hst]⟩)
    have := path_order S.wf h (Path.single ⟨_, hedge, rfl, rfl⟩) (by simpa [PN.isLit] using hl') hb
    simp only [hl', Bool.false_eq_true, if_false, I.origOk i (hD1 _ this) hl' (by rw [hri]; simp), Option.getD_some]

/-- Completing the write of stored value `i`. -/
theorem xinv_write {i : Nat} (hb : code (.write i) ∈ s.begun) (hn : code (.write i) ∉ s.okd) :
    XInv P w0 c0 (D ++ [code (.write i)])
      { x with w := x.w.set i (some (x.get P (.orig i), x.clock)), clock := x.clock + 1 } := by
  have hL := toLPlan_wf S.wf
  obtain ⟨hri, hst⟩ := write_node_reg S.wf (begun_built S h hD1 hD2 I hb).2
  have hv := write_arg_value S h hD1 hD2 I hb hri hst
  have hraw := rawNow_value S h hD1 hD2 I hb hri
  have hmem : ∀ b : PN, (∀ j, b ≠ .write j) → code b ∈ D ++ [code (.write i)] → code b ∈ D := by
    intro b hb' hm
    rcases mem_snoc_code.mp hm with h1 | h1
    · exact h1
    · exact absurd h1 (hb' i)
  have hst_other : ∀ j, j ≠ i → (x.w.set i (some (x.get P (.orig i), x.clock))).st j = x.w.st j := by
    intro j hj; simp [World.set, hj]
  have hmt_other : ∀ j, j ≠ i → (x.w.set i (some (x.get P (.orig i), x.clock))).mtime j = x.w.mtime j := by
    intro j hj; simp [World.mtime, hst_other j hj]
  have hmt_self : (x.w.set i (some (x.get P (.orig i), x.clock))).mtime i = some x.clock := by
    simp [World.mtime, World.set]
  refine
    { clockLe := by have := I.clockLe; show c0 ≤ x.clock + 1; omega
      below := below_set I.below i _
      readOk := fun u hm => I.readOk u (hmem _ (by simp) hm)
      origOk := fun j hm => I.origOk j (hmem _ (by simp) hm)
      written := ?_, untouched := ?_, good := ?_, order := ?_ }
  · intro j hm
    by_cases hj : j = i
    · subst hj
      exact ⟨x.clock, by simp [World.set, hv], I.clockLe⟩
    · rcases mem_snoc_code.mp hm with h1 | h1
      · obtain ⟨t, ht, hc⟩ := I.written j h1
        exact ⟨t, by show (x.w.set i _).st j = _; rw [hst_other j hj, ht], hc⟩
      · simp only [PN.write.injEq] at h1; exact absurd h1 hj
  · intro j hm
    have hj : j ≠ i := by
      intro hj; subst hj; exact hm (mem_snoc_code.mpr (Or.inr rfl))
    show (x.w.set i _).st j = _
    rw [hst_other j hj]
    exact I.untouched j (fun h' => hm (mem_snoc_code.mpr (Or.inl h')))
  · show Good P.toLPlan (x.w.set i _)
    rw [hv, ← hraw]
    exact good_write hL I.good hri I.below
  · intro q k tq tk hne hq hk hmq hmk hr
    change (x.w.set i _).mtime q = some tq at hmq
    change (x.w.set i _).mtime k = some tk at hmk
    by_cases hki : k = i
    · subst hki
      have hqi : q ≠ k := hne
      rw [hmt_self] at hmk
      rw [hmt_other q hqi] at hmq
      have := I.below q tq hmq
      simp at hmk; omega
    · by_cases hqi : q = i
      · subst hqi
        exfalso
        have hk' : code (PN.write k) ∈ D := by
          rcases mem_snoc_code.mp hk with h1 | h1
          · exact h1
          · simp only [PN.write.injEq] at h1; exact absurd h1 hki
        obtain ⟨hrk, _⟩ := write_node_reg S.wf (begun_built S h hD1 hD2 I (hD2 _ hk')).2
        have hall : ∀ y, Cache.Reach P.toLPlan q y → ∀ s', P.regOf y = some s' → P.isStale y = true := by
          intro y hy _ _
          rw [S.stale] at hst ⊢
          exact Cache.stale_reach hL w0 F hst hy
        have hp := write_chain_path hri hrk hne hr hall
        have hWq : P.W q = .write q := by simp [Input.W, hri]
        have hWk : P.W k = .write k := by simp [Input.W, hrk]
        rw [hWq, hWk] at hp
        exact hn (path_order S.wf h hp rfl (hD2 _ hk'))
      · rw [hmt_other q hqi] at hmq
        rw [hmt_other k hki] at hmk
        have hq' : code (PN.write q) ∈ D := by
          rcases mem_snoc_code.mp hq with h1 | h1
          · exact h1
          · simp only [PN.write.injEq] at h1; exact absurd h1 hqi
        have hk' : code (PN.write k) ∈ D := by
          rcases mem_snoc_code.mp hk with h1 | h1
          · exact h1
          · simp only [PN.write.injEq] at h1; exact absurd h1 hki
        exact I.order q k tq tk hne hq' hk' hmq hmk hr

end steps

theorem okd_begun {P : Input} {cfg : Engine.Cfg} {s : Engine.St} (h : Engine.Reach (engineGraph P) cfg s) :
    ∀ n, n ∈ s.okd → n ∈ s.begun :=
  fun n hn => (Engine.inv_reach (engine_wf P) h).okBegun n hn

/-! ### every reachable state of every schedule -/

theorem execOrder_snoc (P : Input) (x : XSt) (l : List Nat) (n : Nat) :
    execOrder P x (l ++ [n]) = execNode P (physFinal P) (execOrder P x l) (decode n) := by
  simp [execOrder, List.foldl_append]

/-- **The invariant holds in every reachable state of the engine model** on the physical plan — for every worker count,
    `max_errors`, queue discipline, failure pattern and interleaving: the effects of the nodes completed so far, applied
    in completion order, have produced exactly the from-scratch values. -/
theorem xinv_reach {P : Input} {w0 : World} {F : Option Int} {c0 : Int} (S : Setup P w0 F c0)
    {cfg : Engine.Cfg} {s : Engine.St} (h : Engine.Reach (engineGraph P) cfg s) :
    XInv P w0 c0 s.okd (execOrder P (initX w0 c0) s.okd) := by
  induction h with
  | init => exact xinv_init S
  | @step s s' l hr hs ih =>
    rcases okd_step hs with heq | ⟨w, n, hw, heq⟩
    · rw [heq]; exact ih
    · rw [heq, execOrder_snoc]
      have hi := Engine.inv_reach (engine_wf P) hr
      obtain ⟨hnok, _, hbeg⟩ := hi.running n (List.mem_of_getElem? hw)
      obtain ⟨a, rfl, _⟩ := engine_node (Engine.begun_in_nodes (engine_wf P) hr _ hbeg)
      rw [decode_code]
      cases a with
      | orig j =>
        simp only [execNode]
        by_cases hl : P.lits.contains j = true
        · simp only [hl, if_true]
          exact xinv_noop ih (by simp) (by simp) (fun j' hj => by cases hj; exact hl)
        · simp only [hl, if_false]
          apply xinv_slot ih (by simp) (by simp)
          intro j' hj _ hs'
          cases hj
          exact orig_value S hr (fun _ hh => hh) (fun n hn => hi.okBegun n hn) ih hbeg hs'
      | read u =>
        simp only [execNode]
        apply xinv_slot ih (by simp)
        · intro u' hu; cases hu; exact read_value S hr (fun _ hh => hh) (fun n hn => hi.okBegun n hn) ih hbeg
        · intro j hj; cases hj
      | write i =>
        simp only [execNode]
        exact xinv_write S hr (fun _ hh => hh) (fun n hn => hi.okBegun n hn) ih hbeg hnok
      | storeLit i =>
        simp only [execNode]
        exact xinv_noop ih (by simp) (by simp) (fun j hj => by cases hj)
      | barrier i =>
        simp only [execNode]
        exact xinv_noop ih (by simp) (by simp) (fun j hj => by cases hj)

end Uberjob.Exec
