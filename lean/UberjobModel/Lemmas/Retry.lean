import UberjobModel.Model.Retry
/-!
# The retry theorems (used by C10)

`n : Nat`, `1 ≤ n` is `retry = n`; a script is ANY function from the attempt index to an outcome, so the theorems
cover every pattern of flaky behaviour, every `n`, and both exception kinds.  They are about the generated loop
bound / is-last test / validation tests: change `range(attempts)` to `range(attempts - 1)`, `==` to `>=`, drop the
re-raise … and the corresponding lemma of the first block fails and names the fragment.
-/
namespace Uberjob.Retry
open Uberjob.Gen.Retry

/-! ### facts about the generated fragments -/

theorem rejects_iff (a : Int) : rejects a = true ↔ a < 1 := by
  unfold rejects; simp

theorem isIdentity_iff (a : Int) : isIdentity a = true ↔ a = 1 := by
  unfold isIdentity; simp

/-- `range(…)` provides at least `n` iterations (more would be harmless: the `n`-th attempt always leaves the loop). -/
theorem loopBound_ge (n : Nat) : n ≤ loopBound (n : Int) := by
  unfold loopBound; omega

theorem isLastAttempt_iff (i n : Nat) : isLastAttempt (i : Int) (n : Int) = true ↔ i + 1 = n := by
  unfold isLastAttempt; simp; omega

theorem defaultExcType_eq : defaultExcType = ExcClass.exception := rfl

theorem defaultAttempts_eq : defaultAttempts = 1 := rfl

theorem retried_exc {V E : Type} (e : E) : retried (Outcome.exc e : Outcome V E) = true := rfl
theorem retried_baseExc {V E : Type} (e : E) : retried (Outcome.baseExc e : Outcome V E) = false := rfl
theorem retried_ok {V E : Type} (v : V) : retried (Outcome.ok v : Outcome V E) = false := rfl

theorem retried_iff {V E : Type} (o : Outcome V E) : retried o = true ↔ ∃ e, o = Outcome.exc e := by
  cases o with
  | ok v => simp [retried]
  | raise k e => cases k <;> simp [retried, caught, defaultExcType_eq]

/-- The facts about where `run` applies the decorator still hold in the source. -/
theorem facts_faithful : facts.faithful = true := by decide

/-! ### the loop -/

/-- From iteration `i` (with `r` iterations left, enough to reach attempt `n`) the loop ends at the first attempt `m` that is not
    a retried exception, or at the last attempt `m = n - 1` whatever it does; it then returns / raises exactly
    what attempt `m` returned / raised, after `m + 1` calls. -/
theorem loop_stop {V E : Type} (n : Nat) (script : Nat → Outcome V E) (m : Nat) :
    ∀ (r i : Nat), n ≤ i + r → i ≤ m → m < n →
      (∀ j, i ≤ j → j < m → retried (script j) = true) →
      (retried (script m) = false ∨ m + 1 = n) →
      loop defaultExcType (n : Int) script r i = ⟨final (script m), m + 1⟩ := by
  intro r
  induction r with
  | zero => intro i h1 h2 h3; omega
  | succ r ih =>
    intro i h1 h2 h3 hpre hstop
    by_cases him : i = m
    · subst him
      unfold loop
      cases hs : script i with
      | ok v => simp [final]
      | raise k e =>
        simp only [final]
        rcases hstop with hst | hlast
        · have : caught defaultExcType k = false := by simpa [retried, hs] using hst
          simp [this]
        · by_cases hc : caught defaultExcType k = true
          · simp [hc, (isLastAttempt_iff i n).mpr hlast]
          · simp [hc]
    · have hlt : i < m := by omega
      have hri := hpre i (Nat.le_refl i) hlt
      unfold loop
      cases hs : script i with
      | ok v => simp [retried, hs] at hri
      | raise k e =>
        have hc : caught defaultExcType k = true := by simpa [retried, hs] using hri
        have hnl : isLastAttempt (i : Int) (n : Int) = false := by
          cases h : isLastAttempt (i : Int) (n : Int) with
          | false => rfl
          | true => have := (isLastAttempt_iff i n).mp h; omega
        simp only [hc, hnl, if_true]
        exact ih (i + 1) (by omega) (by omega) h3 (fun j hj1 hj2 => hpre j (by omega) hj2) hstop

theorem firstStop_spec {V E : Type} (script : Nat → Outcome V E) :
    ∀ (r i : Nat), i ≤ firstStop script r i ∧ firstStop script r i ≤ i + r ∧
      (∀ j, i ≤ j → j < firstStop script r i → retried (script j) = true) ∧
      (firstStop script r i < i + r → retried (script (firstStop script r i)) = false) := by
  intro r
  induction r with
  | zero => intro i; simp [firstStop]; intro j h1 h2; omega
  | succ r ih =>
    intro i
    unfold firstStop
    by_cases h : retried (script i) = true
    · rw [if_pos h]
      obtain ⟨a, b, c, d⟩ := ih (i + 1)
      refine ⟨by omega, by omega, ?_, fun hlt => d (by omega)⟩
      intro j hj1 hj2
      by_cases hji : j = i
      · subst hji; exact h
      · exact c j (by omega) hj2
    · rw [if_neg h]
      refine ⟨Nat.le_refl i, by omega, fun j h1 h2 => by omega, fun _ => by simpa using h⟩

/-! ### the theorems -/

/-- `create_retry(n)` for `n ≥ 2` is the wrapper; for `n = 1` the identity. -/
theorem createRetry_ge_two (n : Nat) (h : 2 ≤ n) : createRetry (n : Int) = .wrapper := by
  unfold createRetry
  have h1 : rejects (n : Int) = false := by
    cases hr : rejects (n : Int) with
    | false => rfl
    | true => have := (rejects_iff _).mp hr; omega
  have h2 : isIdentity (n : Int) = false := by
    cases hr : isIdentity (n : Int) with
    | false => rfl
    | true => have := (isIdentity_iff _).mp hr; omega
  simp [h1, h2]

/-- **`retry = 1` is the identity**: `create_retry(1)` returns `identity`, so the function is called exactly once
    and whatever it returns or raises (of any kind) is what the caller sees. -/
theorem retry_one_is_identity {V E : Type} (script : Nat → Outcome V E) :
    createRetry 1 = .identity ∧ retryLoop 1 script = some ⟨final (script 0), 1⟩ := by
  have h : createRetry 1 = .identity := by decide
  exact ⟨h, by simp [retryLoop, h, direct]⟩

/-- `attempts < 1` is rejected by `create_retry` itself (`ValueError`), nothing is called. -/
theorem retry_rejects_nonpositive {V E : Type} (a : Int) (h : a < 1) (script : Nat → Outcome V E) :
    createRetry a = .valueError ∧ retryLoop a script = none := by
  have hc : createRetry a = .valueError := by
    unfold createRetry; simp [(rejects_iff a).mpr h]
  exact ⟨hc, by simp [retryLoop, hc]⟩

/-- The master statement: with `retry = n ≥ 1` the call ends at attempt `m`, the first one that is not a retried
    `Exception` or else the `n`-th, with exactly that attempt's result, after `m + 1` calls. -/
theorem retry_stop {V E : Type} (n : Nat) (hn : 1 ≤ n) (script : Nat → Outcome V E) (m : Nat) (hm : m < n)
    (hpre : ∀ j, j < m → retried (script j) = true) (hstop : retried (script m) = false ∨ m + 1 = n) :
    retryLoop (n : Int) script = some ⟨final (script m), m + 1⟩ := by
  by_cases h1 : n = 1
  · subst h1
    have : m = 0 := by omega
    subst this
    exact (retry_one_is_identity script).2
  · have h2 : 2 ≤ n := by omega
    simp only [retryLoop, createRetry_ge_two n h2, wrapper]
    rw [loop_stop n script m (loopBound (n : Int)) 0 (by have := loopBound_ge n; omega) (by omega) hm (fun j _ hj => hpre j hj) hstop]

/-- **Number of attempts** `= min n (first non-retried attempt + 1)`: attempts stop at the first success (or the
    first `BaseException`), and never exceed `n`. -/
theorem retry_attempts {V E : Type} (n : Nat) (hn : 1 ≤ n) (script : Nat → Outcome V E) :
    ∃ run, retryLoop (n : Int) script = some run ∧ run.attempts = min n (firstStop script n 0 + 1)
      ∧ run.res = final (script (min (n - 1) (firstStop script n 0))) := by
  obtain ⟨_, hle, hpre, hst⟩ := firstStop_spec script n 0
  by_cases hlt : firstStop script n 0 < n
  · refine ⟨_, retry_stop n hn script (firstStop script n 0) hlt (fun j hj => hpre j (Nat.zero_le j) hj)
      (Or.inl (hst (by omega))), ?_, ?_⟩
    · simp only; omega
    · simp only; congr 2; omega
  · have heq : firstStop script n 0 = n := by omega
    refine ⟨_, retry_stop n hn script (n - 1) (by omega) (fun j hj => hpre j (Nat.zero_le j) (by omega))
      (Or.inr (by omega)), ?_, ?_⟩
    · simp only; omega
    · simp only; congr 2; omega

/-- **At most `n` attempts, at least one, and never a silent `None`.** -/
theorem retry_attempts_le {V E : Type} (n : Nat) (hn : 1 ≤ n) (script : Nat → Outcome V E) :
    ∃ run, retryLoop (n : Int) script = some run ∧ 1 ≤ run.attempts ∧ run.attempts ≤ n ∧ run.res ≠ .returnedNone := by
  obtain ⟨run, h, ha, hr⟩ := retry_attempts n hn script
  refine ⟨run, h, by omega, by omega, ?_⟩
  rw [hr]; cases script (min (n - 1) (firstStop script n 0)) <;> simp [final]

/-- **First success wins**: if the first `m < n` attempts raise `Exception`s and attempt `m` returns `v`, the
    decorated call returns `v` after exactly `m + 1` attempts (an eventual success is a success). -/
theorem retry_first_success {V E : Type} (n : Nat) (script : Nat → Outcome V E) (m : Nat) (v : V) (hm : m < n)
    (hpre : ∀ j, j < m → ∃ e, script j = Outcome.exc e) (hok : script m = .ok v) :
    retryLoop (n : Int) script = some ⟨.returned v, m + 1⟩ := by
  have := retry_stop n (by omega) script m hm (fun j hj => (retried_iff _).mpr (hpre j hj))
    (Or.inl (by rw [hok]; rfl))
  simpa [hok, final] using this

/-- **Exhausted ⇒ the LAST exception**: if all `n` attempts raise `Exception`s, the decorated call raises the
    exception of attempt `n` (index `n - 1`), after exactly `n` attempts. -/
theorem retry_last_exception {V E : Type} (n : Nat) (hn : 1 ≤ n) (script : Nat → Outcome V E) (e : E)
    (hall : ∀ j, j < n → ∃ e', script j = Outcome.exc e') (hlast : script (n - 1) = Outcome.exc e) :
    retryLoop (n : Int) script = some ⟨.raised .exc e, n⟩ := by
  have := retry_stop n hn script (n - 1) (by omega) (fun j hj => (retried_iff _).mpr (hall j (by omega)))
    (Or.inr (by omega))
  have h1 : n - 1 + 1 = n := by omega
  simpa [hlast, final, h1] using this

/-- **Only `Exception` is retried**: a `BaseException` that is not an `Exception` (Ctrl-C!) raised by attempt
    `m < n` propagates at once; no further attempt is made. -/
theorem retry_base_exception_not_retried {V E : Type} (n : Nat) (script : Nat → Outcome V E) (m : Nat) (e : E)
    (hm : m < n) (hpre : ∀ j, j < m → ∃ e', script j = Outcome.exc e') (hb : script m = Outcome.baseExc e) :
    retryLoop (n : Int) script = some ⟨.raised .baseExc e, m + 1⟩ := by
  have := retry_stop n (by omega) script m hm (fun j hj => (retried_iff _).mpr (hpre j hj))
    (Or.inl (by rw [hb]; rfl))
  simpa [hb, final] using this

/-! Non-vacuity (scripts given as lists). -/
example : retryLoop 3 (ofList [Outcome.exc 10, .exc 11, .ok 7] (0 : Nat)) = some ⟨.returned 7, 3⟩ := by decide
example : retryLoop 3 (ofList [Outcome.exc 10, .exc 11, .exc 12, .ok 7] (0 : Nat)) = some ⟨.raised .exc 12, 3⟩ := by decide
example : retryLoop 5 (ofList [Outcome.exc 10, .baseExc 11, .ok 7] (0 : Nat)) = some ⟨.raised .baseExc 11, 2⟩ := by decide
example : retryLoop 1 (ofList [Outcome.exc 10, .ok 7] (0 : Nat)) = some ⟨.raised .exc 10, 1⟩ := by decide
example : retryLoop 0 (ofList [Outcome.ok 7] (0 : Nat)) = (none : Option (Run Nat Nat)) := by decide
example : firstStop (ofList [Outcome.exc 10, .exc 11, .ok 7] (0 : Nat)) 5 0 = 2 := by decide

end Uberjob.Retry
