import UberjobModel.Gen.Engine
/-!
  The facts about the GENERATED definitions that the engine proofs rely on.  They are re-proved
  against what the source says now on every run; a changed comparison operator or constant in
  `process_node` / `prepare_nodes` makes one of these fail and names it.
-/
namespace Uberjob.Gen.Engine

theorem classify_source_iff (c : Nat) : classify c = Kind.source ↔ c = 0 := by
  unfold classify; split <;> (try split) <;> simp_all

theorem classify_single_iff (c : Nat) : classify c = Kind.single ↔ c = 1 := by
  unfold classify; split <;> (try split) <;> simp_all

theorem readyCond_iff (r : Nat) : readyCond r = true ↔ r = 0 := by
  unfold readyCond; simp

theorem stopCond_some (e k : Nat) : stopCond e (some k) = true ↔ k < e := by
  unfold stopCond; simp

theorem stopCond_none (e : Nat) : stopCond e none = false := by
  unfold stopCond; simp

/-- The source still has the shape the hand-written engine model assumes. -/
theorem skeleton_faithful : skeleton.faithful = true := by decide

end Uberjob.Gen.Engine
