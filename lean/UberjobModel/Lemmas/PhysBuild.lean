import UberjobModel.Lemmas.PhysGraph
import UberjobModel.Lemmas.GraphWF
import UberjobModel.Lemmas.EnginePath
/-!
  Facts about the physical plan `physBuild` of a well-formed input: which edges it has, that the rank `code`
  increases along every edge (hence along every edge of the pruned plans), that every edge ends in a node, and the
  bridge to the engine model: a path of the plan BEFORE pruning from a call `a` to a node `b` that the engine knows
  is a path of the engine graph.
-/
set_option linter.unusedSectionVars false
namespace Uberjob.Phys

/-- Well-formed inputs: ids are a topological numbering, edges and registry entries refer to nodes of the plan,
    a node is registered at most once (the registry is a dict). -/
structure Input.WF (P : Input) : Prop where
  topo      : ∀ e ∈ P.edges, e.src < e.dst
  edgeNodes : ∀ e ∈ P.edges, e.src ∈ P.nodes ∧ e.dst ∈ P.nodes
  regNodes  : ∀ r ∈ P.reg, r.1 ∈ P.nodes
  regNodup  : (P.reg.map (·.1)).Nodup

theorem find_of_nodup {l : List (Nat × Bool)} (hn : (l.map (·.1)).Nodup) {i : Nat} {s : Bool} (h : (i, s) ∈ l) :
    l.find? (fun e => e.1 == i) = some (i, s) := by
  induction l with
  | nil => cases h
  | cons x xs ih =>
    simp only [List.map_cons, List.nodup_cons] at hn
    simp only [List.mem_cons] at h
    by_cases hx : x.1 = i
    · rcases h with h | h
      · subst h; simp
      · exfalso; apply hn.1; rw [hx]; exact List.mem_map.mpr ⟨(i, s), h, rfl⟩
    · have hne : (i, s) ≠ x := by intro hh; apply hx; rw [← hh]
      rcases h with h | h
      · exact absurd h hne
      · rw [List.find?_cons_of_neg (by simpa using hx)]
        exact ih hn.2 h

theorem regOf_of_mem {P : Input} (hP : P.WF) {i : Nat} {s : Bool} (h : (i, s) ∈ P.reg) : P.regOf i = some s := by
  simp [Input.regOf, find_of_nodup hP.regNodup h]

theorem mem_of_regOf {P : Input} {i : Nat} {s : Bool} (h : P.regOf i = some s) : (i, s) ∈ P.reg := by
  simp only [Input.regOf, Option.map_eq_some_iff] at h
  obtain ⟨e, he, hs⟩ := h
  have h1 := List.mem_of_find?_eq_some he
  have h2 := List.find?_some he
  have : e = (i, s) := by
    cases e; simp at h2 hs; simp [h2, hs]
  rw [← this]; exact h1

theorem W_of_regOf {P : Input} {i : Nat} {s : Bool} (h : P.regOf i = some s) :
    P.W i = if s then .barrier i else .write i := by
  cases s <;> simp [Input.W, h]

theorem code_W (P : Input) (u : Nat) : 5 * u + 2 ≤ code (P.W u) ∧ code (P.W u) ≤ 5 * u + 3 := by
  unfold Input.W; split <;> simp [code]

theorem W_not_orig (P : Input) (u v : Nat) : P.W u ≠ .orig v := by
  unfold Input.W; split <;> simp

theorem depSrc_cases {P : Input} {u : Nat} {a : PN} (h : P.depSrc u = some a) :
    (P.regOf u = none ∧ a = .orig u) ∨ (∃ s, P.regOf u = some s ∧ P.isStale u = true ∧ a = P.W u) := by
  unfold Input.depSrc at h
  split at h
  · next h0 => left; exact ⟨h0, by simpa using h.symm⟩
  · next s h0 =>
    right
    split at h
    · next hs => exact ⟨s, h0, hs, by simpa using h.symm⟩
    · cases h

theorem code_depSrc {P : Input} {u : Nat} {a : PN} (h : P.depSrc u = some a) : code a ≤ 5 * u + 3 := by
  rcases depSrc_cases h with ⟨_, rfl⟩ | ⟨_, _, _, rfl⟩
  · simp [code]
  · exact (code_W P u).2

theorem mem_logicalPreds {P : Input} {i u : Nat} : u ∈ P.logicalPreds i ↔ ∃ e ∈ P.edges, e.src = u ∧ e.dst = i := by
  simp only [Input.logicalPreds, mem_dedup, List.mem_map, List.mem_filter]
  constructor
  · rintro ⟨e, ⟨he, hd⟩, rfl⟩; exact ⟨e, he, rfl, by simpa using hd⟩
  · rintro ⟨e, he, h1, h2⟩; exact ⟨e, ⟨he, by simpa using h2⟩, h1⟩

theorem mem_built_edges {P : Input} {e : Edge PN} :
    e ∈ (physBuild P).edges ↔ (∃ le ∈ P.edges, P.rewire le = some e) ∨ (∃ r ∈ P.reg, e ∈ P.gadgetEdges r) := by
  simp [physBuild, List.mem_append, List.mem_filterMap, List.mem_flatMap]

theorem mem_built_nodes {P : Input} {a : PN} :
    a ∈ (physBuild P).nodes ↔ (∃ i ∈ P.nodes, a = .orig i) ∨ (∃ r ∈ P.reg, a ∈ P.gadgetNodes r) := by
  simp only [physBuild, List.mem_append, List.mem_map, List.mem_flatMap]
  constructor
  · rintro (⟨i, hi, rfl⟩ | h)
    · exact Or.inl ⟨i, hi, rfl⟩
    · exact Or.inr h
  · rintro (⟨i, hi, rfl⟩ | h)
    · exact Or.inl ⟨i, hi, rfl⟩
    · exact Or.inr h

/-- What one logical edge becomes. -/
theorem rewire_cases {P : Input} {le : LEdge} {e : Edge PN} (h : P.rewire le = some e) :
    (P.regOf le.src = none ∧ e = ⟨.orig le.src, .orig le.dst, le.key⟩) ∨
    (∃ s, P.regOf le.src = some s ∧ le.key.isArg = true ∧ e = ⟨.read le.src, .orig le.dst, le.key⟩) ∨
    (∃ s, P.regOf le.src = some s ∧ le.key.isArg = false ∧ P.isStale le.src = true ∧
      e = ⟨P.W le.src, .orig le.dst, Key.dep⟩) := by
  unfold Input.rewire at h
  split at h
  · next h0 => left; exact ⟨h0, by simpa using h.symm⟩
  · next s h0 =>
    right
    split at h
    · next hk => left; exact ⟨s, h0, hk, by simpa using h.symm⟩
    · next hk =>
      right
      simp only [Option.map_eq_some_iff] at h
      obtain ⟨a, ha, rfl⟩ := h
      rcases depSrc_cases ha with ⟨h1, _⟩ | ⟨_, _, hs, rfl⟩
      · rw [h0] at h1; cases h1
      · exact ⟨s, h0, by simpa using hk, hs, rfl⟩

/-- The edges of one registry entry's gadget. -/
theorem gadget_cases {P : Input} {r : Nat × Bool} {e : Edge PN} (h : e ∈ P.gadgetEdges r) :
    e = ⟨.storeLit r.1, .read r.1, .pos 0⟩ ∨
    (P.isStale r.1 = true ∧ r.2 = true ∧
      (e = ⟨.barrier r.1, .read r.1, .dep⟩ ∨
        ∃ u a, u ∈ P.logicalPreds r.1 ∧ P.depSrc u = some a ∧ e = ⟨a, .barrier r.1, .dep⟩)) ∨
    (P.isStale r.1 = true ∧ r.2 = false ∧
      (e = ⟨.storeLit r.1, .write r.1, .pos 0⟩ ∨ e = ⟨.orig r.1, .write r.1, .pos 1⟩ ∨
        e = ⟨.write r.1, .read r.1, .dep⟩)) := by
  unfold Input.gadgetEdges at h
  simp only [List.mem_cons] at h
  rcases h with h | h
  · exact Or.inl h
  · right
    split at h
    · next hs =>
      split at h
      · next hsrc =>
        left
        refine ⟨hs, hsrc, ?_⟩
        simp only [List.mem_cons, List.mem_filterMap, Option.map_eq_some_iff] at h
        rcases h with h | ⟨u, hu, a, ha, rfl⟩
        · exact Or.inl h
        · exact Or.inr ⟨u, a, hu, ha, rfl⟩
      · next hsrc =>
        right
        refine ⟨hs, by simpa using hsrc, ?_⟩
        simpa using h
    · cases h

/-- `code` increases along every edge of the physical plan of a topologically numbered plan. -/
theorem built_rank {P : Input} (hP : P.WF) : ∀ e ∈ (physBuild P).edges, code e.src < code e.dst := by
  intro e he
  rcases mem_built_edges.mp he with ⟨le, hle, hr⟩ | ⟨r, _, hg⟩
  · have ht := hP.topo le hle
    rcases rewire_cases hr with ⟨_, rfl⟩ | ⟨_, _, _, rfl⟩ | ⟨_, _, _, _, rfl⟩
    · simp only [code]; omega
    · simp only [code]; omega
    · have := (code_W P le.src).2
      show code (P.W le.src) < 5 * le.dst
      omega
  · rcases gadget_cases hg with rfl | ⟨_, _, rfl | ⟨u, a, hu, ha, rfl⟩⟩ | ⟨_, _, rfl | rfl | rfl⟩
    · simp [code]
    · simp [code]
    · obtain ⟨le, hle, h1, h2⟩ := mem_logicalPreds.mp hu
      have ht := hP.topo le hle
      have := code_depSrc ha
      show code a < 5 * r.1 + 3
      omega
    · simp [code]
    · simp [code]
    · simp [code]

theorem storeLit_mem {P : Input} {r : Nat × Bool} (h : r ∈ P.reg) : PN.storeLit r.1 ∈ (physBuild P).nodes :=
  mem_built_nodes.mpr (Or.inr ⟨r, h, by simp [Input.gadgetNodes]⟩)

theorem read_mem {P : Input} {r : Nat × Bool} (h : r ∈ P.reg) : PN.read r.1 ∈ (physBuild P).nodes :=
  mem_built_nodes.mpr (Or.inr ⟨r, h, by simp [Input.gadgetNodes]⟩)

theorem W_mem {P : Input} (hP : P.WF) {r : Nat × Bool} (h : r ∈ P.reg) (hs : P.isStale r.1 = true) :
    P.W r.1 ∈ (physBuild P).nodes := by
  have hr : P.regOf r.1 = some r.2 := regOf_of_mem hP (by cases r; exact h)
  refine mem_built_nodes.mpr (Or.inr ⟨r, h, ?_⟩)
  rw [W_of_regOf hr]
  cases h2 : r.2 <;> simp [Input.gadgetNodes, hs, h2]

theorem depSrc_mem {P : Input} (hP : P.WF) {u : Nat} {a : PN} (hu : u ∈ P.nodes) (h : P.depSrc u = some a) :
    a ∈ (physBuild P).nodes := by
  rcases depSrc_cases h with ⟨_, rfl⟩ | ⟨s, hr, hs, rfl⟩
  · exact mem_built_nodes.mpr (Or.inl ⟨u, hu, rfl⟩)
  · exact W_mem hP (r := (u, s)) (mem_of_regOf hr) hs

theorem orig_mem {P : Input} {i : Nat} (h : i ∈ P.nodes) : PN.orig i ∈ (physBuild P).nodes :=
  mem_built_nodes.mpr (Or.inl ⟨i, h, rfl⟩)

/-- Every edge of the physical plan ends in nodes of the physical plan. -/
theorem built_endsIn {P : Input} (hP : P.WF) : EndsIn (physBuild P) := by
  intro e he
  rcases mem_built_edges.mp he with ⟨le, hle, hr⟩ | ⟨r, hrm, hg⟩
  · obtain ⟨hs, hd⟩ := hP.edgeNodes le hle
    rcases rewire_cases hr with ⟨_, rfl⟩ | ⟨s, h0, _, rfl⟩ | ⟨s, h0, _, hst, rfl⟩
    · exact ⟨orig_mem hs, orig_mem hd⟩
    · exact ⟨read_mem (r := (le.src, s)) (mem_of_regOf h0), orig_mem hd⟩
    · exact ⟨W_mem hP (r := (le.src, s)) (mem_of_regOf h0) hst, orig_mem hd⟩
  · have hrn := hP.regNodes r hrm
    have hreg : P.regOf r.1 = some r.2 := regOf_of_mem hP (by cases r; exact hrm)
    rcases gadget_cases hg with rfl | ⟨hs, h2, rfl | ⟨u, a, hu, ha, rfl⟩⟩ | ⟨hs, h2, rfl | rfl | rfl⟩
    · exact ⟨storeLit_mem hrm, read_mem hrm⟩
    · have := W_mem hP hrm hs
      rw [W_of_regOf hreg, h2] at this
      exact ⟨this, read_mem hrm⟩
    · have := W_mem hP hrm hs
      rw [W_of_regOf hreg, h2] at this
      obtain ⟨le, hle, h1, _⟩ := mem_logicalPreds.mp hu
      exact ⟨depSrc_mem hP (h1 ▸ (hP.edgeNodes le hle).1) ha, this⟩
    all_goals
      have hw := W_mem hP hrm hs
      rw [W_of_regOf hreg, h2] at hw
    · exact ⟨storeLit_mem hrm, hw⟩
    · exact ⟨orig_mem hrn, hw⟩
    · exact ⟨hw, read_mem hrm⟩

/-! ### ranks of the required nodes are below the fuel -/

theorem le_maxL {l : List Nat} {x : Nat} (h : x ∈ l) : x ≤ maxL l := by
  induction l with
  | nil => cases h
  | cons y ys ih =>
    simp only [List.mem_cons] at h
    simp only [maxL]
    rcases h with rfl | h
    · omega
    · have := ih h; omega

theorem fuel_ok (P : Input) : ∀ r ∈ required P ++ (physOut P).toList, code r < fuelOf P := by
  intro r hr
  have : code r ≤ maxL ((required P ++ (physOut P).toList).map code) := le_maxL (List.mem_map.mpr ⟨r, hr, rfl⟩)
  unfold fuelOf; omega

/-! ### the pruned plans -/

theorem Path.src_mem {α : Type} {G : PG α} (hE : EndsIn G) {a b : α} (h : Path G.edges a b) : a ∈ G.nodes := by
  induction h with
  | single h => obtain ⟨e, he, h1, _⟩ := h; exact h1 ▸ (hE e he).1
  | cons _ _ ih => exact ih

/-- **From the plan before pruning to the plan `dry_run` returns**: a path from a call `a` into a node `b` that
    survives both pruning steps survives too, with its start. -/
theorem final_path {P : Input} (hP : P.WF) {a b : PN} (hab : Path (physBuild P).edges a b)
    (ha : a.isLit P = false) (hb : b ∈ (physFinal P).nodes) :
    Path (physFinal P).edges a b ∧ a ∈ (physFinal P).nodes := by
  unfold physFinal prunePlan pruneLiterals at hb ⊢
  have hb1 := foldLit_nodes_sub hb
  have hbK := (mem_pruneAnc_nodes.mp hb1).2
  obtain ⟨hp1, haK⟩ := pruneAnc_path code (built_rank hP) (fuel_ok P) hab hbK
  have ha0 : a ∈ (physBuild P).nodes := Path.src_mem (built_endsIn hP) hab
  have ha1 : a ∈ (pruneAnc (fuelOf P) (required P ++ (physOut P).toList) (physBuild P)).nodes :=
    mem_pruneAnc_nodes.mpr ⟨ha0, haK⟩
  have ha2 := foldLit_nodes_keep (G := pruneAnc (fuelOf P) (required P ++ (physOut P).toList) (physBuild P))
    (cands := (pruneAnc (fuelOf P) (required P ++ (physOut P).toList) (physBuild P)).nodes.filter
      (fun u => PN.isLit P u && some u != physOut P)) ha1
    (by simp [List.mem_filter, ha])
  exact ⟨foldLit_path hp1 ha2 hb, ha2⟩

theorem final_rank {P : Input} (hP : P.WF) : ∀ e ∈ (physFinal P).edges, code e.src < code e.dst := by
  unfold physFinal prunePlan pruneLiterals
  apply foldLit_rank
  intro e he
  exact built_rank hP e (mem_pruneAnc_edges.mp he).1

theorem final_endsIn {P : Input} (hP : P.WF) : EndsIn (physFinal P) := by
  unfold physFinal prunePlan pruneLiterals
  exact foldLit_endsIn (pruneAnc_endsIn (built_endsIn hP))

/-! ### the engine graph -/

theorem code_inj {a b : PN} (h : code a = code b) : a = b := by
  cases a with
  | orig i => cases b <;> simp only [code] at h <;> first | (exfalso; omega) | (congr 1; omega)
  | storeLit i => cases b <;> simp only [code] at h <;> first | (exfalso; omega) | (congr 1; omega)
  | read i => cases b <;> simp only [code] at h <;> first | (exfalso; omega) | (congr 1; omega)
  | write i => cases b <;> simp only [code] at h <;> first | (exfalso; omega) | (congr 1; omega)
  | barrier i => cases b <;> simp only [code] at h <;> first | (exfalso; omega) | (congr 1; omega)

theorem toEngine_nodes {G : PG PN} {b : PN} (h : code b ∈ (toEngine G).nodes) : b ∈ G.nodes := by
  simp only [toEngine, Engine.Graph.ofEdges, Engine.mem_dedup, List.mem_map] at h
  obtain ⟨a, ha, hc⟩ := h
  exact code_inj hc ▸ ha

theorem toEngine_preds {G : PG PN} {e : Edge PN} (he : e ∈ G.edges) (hs : e.src ∈ G.nodes) (hd : e.dst ∈ G.nodes) :
    code e.src ∈ (toEngine G).preds (code e.dst) := by
  simp only [toEngine, Engine.Graph.ofEdges, Engine.mem_dedup, List.mem_map, List.mem_filter]
  refine ⟨(code e.src, code e.dst), ⟨⟨⟨e, he, rfl⟩, ?_⟩, ?_⟩, rfl⟩
  · simp only [List.contains_eq_mem, List.mem_map, Bool.and_eq_true, decide_eq_true_eq]
    exact ⟨⟨e.src, hs, rfl⟩, ⟨e.dst, hd, rfl⟩⟩
  · simp

theorem toEngine_path {G : PG PN} (hE : EndsIn G) {a b : PN} (h : Path G.edges a b) :
    Engine.Path (toEngine G) (code a) (code b) := by
  induction h with
  | single h =>
    obtain ⟨e, he, h1, h2⟩ := h
    have := toEngine_preds he (hE e he).1 (hE e he).2
    rw [h1, h2] at this
    exact Engine.Path.single this
  | cons _ h ih =>
    obtain ⟨e, he, h1, h2⟩ := h
    have := toEngine_preds he (hE e he).1 (hE e he).2
    rw [h1, h2] at this
    exact Engine.Path.cons ih this

/-- **The bridge**: a path of the plan before pruning, from a call `a` to a node `b` of the graph handed to the
    engine, is a path of that graph. -/
theorem engine_path {P : Input} (hP : P.WF) {a b : PN} (hab : Path (physBuild P).edges a b)
    (ha : a.isLit P = false) (hb : code b ∈ (engineGraph P).nodes) :
    Engine.Path (engineGraph P) (code a) (code b) := by
  have hb1 : b ∈ (physEngine P).nodes := toEngine_nodes hb
  have hb2 : b ∈ (physFinal P).nodes := (mem_dropSourceLits_nodes.mp hb1).1
  obtain ⟨hp, _⟩ := final_path hP hab ha hb2
  have hp2 := dropSourceLits_path (isLit := PN.isLit P) hp ha
  exact toEngine_path (dropSourceLits_endsIn (final_endsIn hP)) hp2

end Uberjob.Phys
