import UberjobModel.Model.Time
/-!
CPython's local-time algorithms (`cpyDecode` = `datetime._mktime`, `cpyFold` = fold detection of `fromtimestamp`,
`cpyAstimezone` = `astimezone()` on a naive value) satisfy PEP 495's round-trip contract for every zone with ONE
offset change of less than 24 h (fall-back or spring-forward, any instant, any offsets).
The case analysis over the positions of the probes relative to the transition is done by `grind`.
-/
namespace Uberjob.Time

theorem cpyDecode_rt (T a b : Int) (h1 : -day < b - a) (h2 : b - a < day) (i : Int) :
    cpyDecode (oneOffset T a b) (i + oneOffset T a b i) (cpyFold (oneOffset T a b) i) = i := by
  have hd : day = 86400000000 := rfl
  unfold cpyDecode cpyFold
  generalize day = D at *
  grind [oneOffset]

/-- In a one-transition zone the only other instants that can show the same wall reading are `i ± (a - b)`. -/
theorem cpyDecode_unique (T a b : Int) (i : Int) (f : Bool)
    (hx : (i + (a - b)) + oneOffset T a b (i + (a - b)) = i + oneOffset T a b i → i + (a - b) = i)
    (hy : (i + (b - a)) + oneOffset T a b (i + (b - a)) = i + oneOffset T a b i → i + (b - a) = i) :
    cpyDecode (oneOffset T a b) (i + oneOffset T a b i) f = i := by
  have hd : day = 86400000000 := rfl
  unfold cpyDecode
  generalize day = D at *
  cases f <;> grind [oneOffset]

/-- Decoding with the other fold bit errs, if at all, on the side that `_local_timezone`'s gap test ignores. -/
theorem cpyDecode_other (T a b : Int) (h1 : -day < b - a) (i : Int) :
    (cpyFold (oneOffset T a b) i = false → i ≤ cpyDecode (oneOffset T a b) (i + oneOffset T a b i) true) ∧
    (cpyFold (oneOffset T a b) i = true → cpyDecode (oneOffset T a b) (i + oneOffset T a b i) false ≤ i) := by
  have hd : day = 86400000000 := rfl
  unfold cpyDecode cpyFold
  generalize day = D at *
  constructor <;> grind [oneOffset]

theorem cpyAstimezone_rt (T a b : Int) (h1 : -day < b - a) (h2 : b - a < day) (i : Int) :
    cpyAstimezone (oneOffset T a b) (i + oneOffset T a b i) (cpyFold (oneOffset T a b) i) = i := by
  unfold cpyAstimezone
  rw [cpyDecode_rt T a b h1 h2 i]
  have h := cpyDecode_other T a b h1 i
  cases hf : cpyFold (oneOffset T a b) i <;> simp only [hf] at h <;> simp <;> grind

theorem cpyAstimezone_unique (T a b : Int) (i : Int) (f : Bool)
    (hx : (i + (a - b)) + oneOffset T a b (i + (a - b)) = i + oneOffset T a b i → i + (a - b) = i)
    (hy : (i + (b - a)) + oneOffset T a b (i + (b - a)) = i + oneOffset T a b i → i + (b - a) = i) :
    cpyAstimezone (oneOffset T a b) (i + oneOffset T a b i) f = i := by
  unfold cpyAstimezone
  rw [cpyDecode_unique T a b i f hx hy, cpyDecode_unique T a b i (!f) hx hy]
  simp

theorem cpython_one_lawful (T a b : Int) (h1 : -day < b - a) (h2 : b - a < day) :
    (TZ.cpython (oneOffset T a b)).Lawful where
  roundTrip i := cpyAstimezone_rt T a b h1 h2 i
  foldIgnored i f hu := cpyAstimezone_unique T a b i f (hu _) (hu _)

end Uberjob.Time
