import UberjobModel.Model.Time
/-!
CPython's local-time algorithms (`cpyDecode` = `datetime._mktime`, `cpyFold` = fold detection of `fromtimestamp`,
`cpyAstimezone` = `astimezone()` on a naive value) satisfy PEP 495's round-trip contract for every zone with ONE
offset change of less than 24 h (fall-back or spring-forward, any instant, any offsets).
The case analysis over the positions of the probes relative to the transition is done by `grind`.
-/
namespace Uberjob.Time

theorem cpyDecode_rt (T a b : Int) (h1 : -day < b - a) (h2 : b - a < day) (i : Int) :
    cpyDecode (oneOffset T a b) (i + oneOffset T a b i) (cpyFold (oneOffset T a b) i) = i := by
  have hd : day = 86400000000 := rfl
  unfold cpyDecode cpyFold
  generalize day = D at *
  grind [oneOffset]

/-- In a one-transition zone the only other instants that can show the same wall reading are `i ± (a - b)`. -/
theorem cpyDecode_unique (T a b : Int) (i : Int) (f : Bool)
    (hx : (i + (a - b)) + oneOffset T a b (i + (a - b)) = i + oneOffset T a b i → i + (a - b) = i)
    (hy : (i + (b - a)) + oneOffset T a b (i + (b - a)) = i + oneOffset T a b i → i + (b - a) = i) :
    cpyDecode (oneOffset T a b) (i + oneOffset T a b i) f = i := by
  have hd : day = 86400000000 := rfl
  unfold cpyDecode
  generalize day = D at *
  cases f <;> grind [oneOffset]

/-- Decoding with the other fold bit errs, if at all, on the side that `_local_timezone`'s gap test ignores. -/
theorem cpyDecode_other (T a b : Int) (h1 : -day < b - a) (i : Int) :
    (cpyFold (oneOffset T a b) i = false → i ≤ cpyDecode (oneOffset T a b) (i + oneOffset T a b i) true) ∧
    (cpyFold (oneOffset T a b) i = true → cpyDecode (oneOffset T a b) (i + oneOffset T a b i) false ≤ i) := by
  have hd : day = 86400000000 := rfl
  unfold cpyDecode cpyFold
  generalize day = D at *
  constructor <;> grind [oneOffset]

theorem cpyAstimezone_rt (T a b : Int) (h1 : -day < b - a) (h2 : b - a < day) (i : Int) :
    cpyAstimezone (oneOffset T a b) (i + oneOffset T a b i) (cpyFold (oneOffset T a b) i) = i := by
  unfold cpyAstimezone
  rw [cpyDecode_rt T a b h1 h2 i]
  have h := cpyDecode_other T a b h1 i
  cases hf : cpyFold (oneOffset T a b) i <;> simp only [hf] at h <;> simp <;> grind

theorem cpyAstimezone_unique (T a b : Int) (i : Int) (f : Bool)
    (hx : (i + (a - b)) + oneOffset T a b (i + (a - b)) = i + oneOffset T a b i → i + (a - b) = i)
    (hy : (i + (b - a)) + oneOffset T a b (i + (b - a)) = i + oneOffset T a b i → i + (b - a) = i) :
    cpyAstimezone (oneOffset T a b) (i + oneOffset T a b i) f = i := by
  unfold cpyAstimezone
  rw [cpyDecode_unique T a b i f hx hy, cpyDecode_unique T a b i (!f) hx hy]
  simp

theorem cpython_one_lawful (T a b : Int) (h1 : -day < b - a) (h2 : b - a < day) :
    (TZ.cpython (oneOffset T a b)).Lawful where
  roundTrip i := cpyAstimezone_rt T a b h1 h2 i
  foldIgnored i f hu := cpyAstimezone_unique T a b i f (hu _) (hu _)


/-! ### every zone that is, around each instant, a one-transition zone

`_mktime`, the fold detection and `astimezone` probe the offset function only within three days of the instant they are
about (their probes are at most 24 h plus two offsets away).  So the contract holds for EVERY offset function that looks,
within three days of every instant, like a one-transition zone — in particular for every transition table whose transitions
are at least seven days apart, with offsets and jumps below 24 h (every zone of the IANA database in its recent decades). -/

/-- The probes of `_mktime` stay within three days of the instant. -/
theorem cpyDecode_local (off off' : Int → Int) (i : Int) (f : Bool)
    (hb : ∀ j, -day < off' j ∧ off' j < day)
    (h : ∀ j, i - 3 * day ≤ j → j ≤ i + 3 * day → off j = off' j) :
    cpyDecode off (i + off i) f = cpyDecode off' (i + off' i) f := by
  have hd : day = 86400000000 := rfl
  have h0 := h i (by omega) (by omega)
  unfold cpyDecode
  generalize day = D at *
  grind

theorem cpyFold_local (off off' : Int → Int) (i : Int)
    (hb : ∀ j, -day < off' j ∧ off' j < day)
    (h : ∀ j, i - 3 * day ≤ j → j ≤ i + 3 * day → off j = off' j) :
    cpyFold off i = cpyFold off' i := by
  have hd : day = 86400000000 := rfl
  have h0 := h i (by omega) (by omega)
  unfold cpyFold
  generalize day = D at *
  grind

theorem cpyDecode_near (off' : Int → Int) (i : Int) (f : Bool)
    (hb : ∀ j, -day < off' j ∧ off' j < day) :
    i - 3 * day ≤ cpyDecode off' (i + off' i) f ∧ cpyDecode off' (i + off' i) f ≤ i + 3 * day := by
  have hd : day = 86400000000 := rfl
  unfold cpyDecode
  generalize day = D at *
  grind

theorem cpyAstimezone_local (off off' : Int → Int) (i : Int) (f : Bool)
    (hb : ∀ j, -day < off' j ∧ off' j < day)
    (h : ∀ j, i - 3 * day ≤ j → j ≤ i + 3 * day → off j = off' j) :
    cpyAstimezone off (i + off i) f = cpyAstimezone off' (i + off' i) f := by
  have h0 := h i (by have : (0:Int) < day := by decide
                     omega) (by have : (0:Int) < day := by decide
                                omega)
  unfold cpyAstimezone
  rw [cpyDecode_local off off' i f hb h, cpyDecode_local off off' i (!f) hb h]
  have n1 := cpyDecode_near off' i f hb
  have n2 := cpyDecode_near off' i (!f) hb
  simp only []
  split
  · rw [h _ n2.1 n2.2, h0]
  · rw [h _ n1.1 n1.2, h0]


/-- Around every instant the zone looks like a zone with (at most) one transition. -/
def LocallyOne (off : Int → Int) : Prop :=
  ∀ i, ∃ T a b, (-day < a ∧ a < day) ∧ (-day < b ∧ b < day) ∧ (-day < b - a ∧ b - a < day) ∧
    ∀ j, i - 3 * day ≤ j → j ≤ i + 3 * day → off j = oneOffset T a b j

theorem oneOffset_bounded {T a b : Int} (ha : -day < a ∧ a < day) (hb : -day < b ∧ b < day) :
    ∀ j, -day < oneOffset T a b j ∧ oneOffset T a b j < day := by
  intro j; unfold oneOffset; split <;> assumption

/-- **CPython's algorithms are lawful for every locally-one-transition zone.** -/
theorem cpython_local_lawful (off : Int → Int) (h : LocallyOne off) : (TZ.cpython off).Lawful where
  roundTrip i := by
    obtain ⟨T, a, b, ha, hb, hd, hloc⟩ := h i
    have hbd := oneOffset_bounded (T := T) ha hb
    show cpyAstimezone off (i + off i) (cpyFold off i) = i
    rw [cpyFold_local off _ i hbd hloc, cpyAstimezone_local off _ i _ hbd hloc]
    exact cpyAstimezone_rt T a b hd.1 hd.2 i
  foldIgnored i f hu := by
    obtain ⟨T, a, b, ha, hb, hd, hloc⟩ := h i
    have hbd := oneOffset_bounded (T := T) ha hb
    have hday : (0 : Int) < day := by decide
    have h0 : off i = oneOffset T a b i := hloc i (by omega) (by omega)
    show cpyAstimezone off (i + off i) f = i
    rw [cpyAstimezone_local off _ i f hbd hloc]
    apply cpyAstimezone_unique T a b i f
    · intro hx
      have hj : off (i + (a - b)) = oneOffset T a b (i + (a - b)) := hloc _ (by omega) (by omega)
      exact hu (i + (a - b)) (by show _ + off _ = _ + off _; rw [hj, h0]; exact hx)
    · intro hy
      have hj : off (i + (b - a)) = oneOffset T a b (i + (b - a)) := hloc _ (by omega) (by omega)
      exact hu (i + (b - a)) (by show _ + off _ = _ + off _; rw [hj, h0]; exact hy)

/-- A transition table whose transitions are at least seven days apart, with offsets and jumps below 24 h. -/
def Spaced : Int → List (Int × Int) → Prop
  | _, [] => True
  | base, (t, o) :: rest =>
    (-day < o ∧ o < day) ∧ (-day < o - base ∧ o - base < day) ∧ (∀ p ∈ rest, t + 7 * day ≤ p.1) ∧ Spaced o rest

theorem tableOffset_before (o : Int) (rest : List (Int × Int)) (j : Int) (h : ∀ p ∈ rest, j < p.1) :
    tableOffset o rest j = o := by
  cases rest with
  | nil => rfl
  | cons p ps =>
    obtain ⟨t, o'⟩ := p
    have := h (t, o') (by simp)
    simp only [tableOffset]
    rw [if_pos this]

theorem table_locallyOne (base : Int) (trs : List (Int × Int)) (hb : -day < base ∧ base < day)
    (hs : Spaced base trs) : LocallyOne (tableOffset base trs) := by
  have hday : (0 : Int) < day := by decide
  induction trs generalizing base with
  | nil =>
    intro i
    exact ⟨i, base, base, hb, hb, ⟨by omega, by omega⟩, fun j _ _ => by simp [tableOffset, oneOffset]⟩
  | cons p rest ih =>
    obtain ⟨t, o⟩ := p
    obtain ⟨ho, hjump, hgap, hrest⟩ := hs
    intro i
    by_cases h1 : i + 3 * day < t
    · -- the whole window lies before the transition
      refine ⟨i, base, base, hb, hb, ⟨by omega, by omega⟩, fun j _ hj => ?_⟩
      simp only [tableOffset, oneOffset, ite_self]
      rw [if_pos (by omega)]
    · by_cases h2 : t ≤ i - 3 * day
      · -- the whole window lies after it: the rest of the table
        obtain ⟨T, a, b, ha, hb', hd, hloc⟩ := ih o ho hrest i
        refine ⟨T, a, b, ha, hb', hd, fun j hj1 hj2 => ?_⟩
        simp only [tableOffset]
        rw [if_neg (by omega)]
        exact hloc j hj1 hj2
      · -- the transition is inside the window; the next one is at least seven days later
        refine ⟨t, base, o, hb, ho, hjump, fun j _ hj2 => ?_⟩
        simp only [tableOffset, oneOffset]
        by_cases hjt : j < t
        · rw [if_pos hjt, if_pos hjt]
        · rw [if_neg hjt, if_neg hjt]
          apply tableOffset_before
          intro q hq
          have := hgap q hq
          omega

/-- **CPython's algorithms are lawful for every such table.** -/
theorem cpython_table_lawful (base : Int) (trs : List (Int × Int)) (hb : -day < base ∧ base < day)
    (hs : Spaced base trs) : (TZ.table base trs).Lawful :=
  cpython_local_lawful _ (table_locallyOne base trs hb hs)

end Uberjob.Time
