import UberjobModel.Model.PQueue
import Batteries.Data.List.Perm
/-!
  The priority heap neither loses nor duplicates an item: every `heapq` operation of the transcription is a permutation
  (plus / minus the item pushed / popped), whatever the keys - ties, negative keys (the DONE sentinel has key -1), any
  list, heap-shaped or not.
-/
namespace Uberjob.PQueue
open List

theorem count_swap_set (l : List E) (i j : Nat) (hi : i < l.length) (hj : j < l.length) (x : E) :
    ((l.set i l[j]).set j l[i]).count x = l.count x := by
  have hj' : j < (l.set i l[j]).length := by simpa using hj
  have h1 := List.count_set (a := l[i]) (b := x) (l := l.set i l[j]) hj'
  have h2 := List.count_set (a := l[j]) (b := x) (l := l) hi
  have h3 : (l.set i l[j])[j] = l[j] := by
    by_cases hij : i = j
    · subst hij; simp
    · exact List.getElem_set_ne hij _
  rw [h1, h2, h3]
  have ci : 0 < l.count l[i] := List.count_pos_iff.mpr (List.getElem_mem hi)
  have cj : 0 < l.count l[j] := List.count_pos_iff.mpr (List.getElem_mem hj)
  by_cases e1 : l[i] = x <;> by_cases e2 : l[j] = x
  · rw [e1] at ci; simp [e1, e2]; omega
  · rw [e1] at ci; simp [e1, e2]; omega
  · rw [e2] at cj; simp [e1, e2]
  · simp [e1, e2]

theorem swap_perm (h : List E) (i j : Nat) : (swap h i j).Perm h := by
  unfold swap
  split
  · rename_i a b ha hb
    obtain ⟨hi, rfl⟩ := List.getElem?_eq_some_iff.mp ha
    obtain ⟨hj, rfl⟩ := List.getElem?_eq_some_iff.mp hb
    exact List.perm_iff_count.mpr (count_swap_set h i j hi hj)
  · exact List.Perm.refl _

@[simp] theorem swap_length (h : List E) (i j : Nat) : (swap h i j).length = h.length :=
  (swap_perm h i j).length_eq

theorem siftDown_perm (start : Nat) (fuel : Nat) (h : List E) (pos : Nat) : (siftDown start fuel h pos).Perm h := by
  induction fuel generalizing h pos with
  | zero => simp [siftDown]
  | succ n ih =>
    simp only [siftDown]
    split
    · split
      · split
        · exact (ih _ _).trans (swap_perm _ _ _)
        · exact List.Perm.refl _
      · exact List.Perm.refl _
    · exact List.Perm.refl _

theorem bubble_perm (fuel : Nat) (h : List E) (pos : Nat) : (bubble fuel h pos).1.Perm h := by
  induction fuel generalizing h pos with
  | zero => simp [bubble]
  | succ n ih =>
    simp only [bubble]
    split
    · exact (ih _ _).trans (swap_perm _ _ _)
    · exact List.Perm.refl _

theorem siftUp_perm (h : List E) (pos : Nat) : (siftUp h pos).Perm h := by
  unfold siftUp
  exact (siftDown_perm _ _ _ _).trans (bubble_perm _ _ _)

/-- `heappush`: the heap afterwards holds the old items plus the new one. -/
theorem push_perm (h : List E) (x : E) : (push h x).Perm (x :: h) := by
  unfold push
  exact (siftDown_perm _ _ _ _).trans (List.perm_append_singleton x h)

/-- `heappop` removes exactly the item it returns. -/
theorem pop_perm (h : List E) (x : E) (rest : List E) (hp : pop h = some (x, rest)) : h.Perm (x :: rest) := by
  unfold pop at hp
  cases hq : h.getLast? with
  | none => rw [hq] at hp; cases hp
  | some y =>
    rw [hq] at hp
    have hne : h ≠ [] := by intro h0; rw [h0] at hq; simp at hq
    have hy : h.getLast hne = y := by
      have := List.getLast?_eq_some_getLast hne
      rw [hq] at this; exact (Option.some.inj this).symm
    have hsplit : h.dropLast ++ [y] = h := by rw [← hy]; exact List.dropLast_concat_getLast hne
    cases hd : h.dropLast with
    | nil =>
      rw [hd] at hp hsplit
      simp at hp
      obtain ⟨rfl, rfl⟩ := hp
      rw [← hsplit]; simp
    | cons a t =>
      rw [hd] at hp hsplit
      simp at hp
      obtain ⟨rfl, rfl⟩ := hp
      rw [← hsplit]
      have h1 : (siftUp (y :: t) 0).Perm (y :: t) := siftUp_perm _ _
      have h2 : (a :: t ++ [y]).Perm (a :: y :: t) := by simp
      exact h2.trans (List.Perm.cons a h1.symm)

theorem pop_none (h : List E) : pop h = none ↔ h = [] := by
  unfold pop
  cases h with
  | nil => simp
  | cons a t =>
    simp only [reduceCtorEq, iff_false]
    cases hq : (a :: t).getLast? with
    | none => simp [List.getLast?_cons] at hq
    | some y =>
      simp only
      split <;> simp

theorem foldl_siftUp_perm (is : List Nat) (h : List E) : (is.foldl siftUp h).Perm h := by
  induction is generalizing h with
  | nil => simp
  | cons i is ih => simp only [List.foldl_cons]; exact (ih _).trans (siftUp_perm _ _)

/-- `heapify` rearranges, nothing else. -/
theorem heapify_perm (h : List E) : (heapify h).Perm h := foldl_siftUp_perm _ _

/-- `PriorityQueue.__init__`: the queue holds exactly the initial items. -/
theorem init_perm (prio : Nat → Int) (items : List Nat) : ((init prio items).map (·.2)).Perm items := by
  unfold init
  have := (heapify_perm (items.map fun v => (prio v, v))).map (·.2)
  simpa [List.map_map, Function.comp_def] using this

/-- `PriorityQueue._put`: old items plus the new one. -/
theorem put_perm (prio : Nat → Int) (h : List E) (item : Nat) :
    ((put prio h item).map (·.2)).Perm (item :: h.map (·.2)) := by
  unfold put
  simpa using (push_perm h (prio item, item)).map (·.2)

/-- `PriorityQueue._get` removes exactly the item it returns. -/
theorem get_perm (h : List E) (v : Nat) (rest : List E) (hg : get h = some (v, rest)) :
    (h.map (·.2)).Perm (v :: rest.map (·.2)) := by
  unfold get at hg
  cases hp : pop h with
  | none => rw [hp] at hg; cases hg
  | some r =>
    rw [hp] at hg
    obtain ⟨x, rest'⟩ := r
    simp at hg
    obtain ⟨rfl, rfl⟩ := hg
    simpa using (pop_perm h x rest' hp).map (·.2)

theorem get_none (h : List E) : get h = none ↔ h = [] := by
  unfold get; simp [pop_none]

end Uberjob.PQueue
