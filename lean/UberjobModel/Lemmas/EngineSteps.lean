import UberjobModel.Lemmas.EngineInv2
namespace Uberjob.Engine

/-- A step either leaves `begun` alone or appends one node, and the latter needs `stop = false`. -/
theorem begun_step {g : Graph} {cfg : Cfg} {s s' : St} {l : Label} (h : step? g cfg s l = some s') :
    s'.begun = s.begun ∨ ∃ x, s'.begun = s.begun ++ [x] ∧ s.stop = false := by
  cases l <;> simp only [step?] at h
  case check w =>
    split at h
    · cases h; left; rfl
    · split at h
      · cases h; left; rfl
      · next x _ hns => cases h; right; exact ⟨x, rfl, by simpa using hns⟩
    · cases h
  all_goals
    repeat' split at h
    all_goals first | cases h; left; rfl | cases h

/-- `stop` is monotone. -/
theorem stop_step {g : Graph} {cfg : Cfg} {s s' : St} {l : Label} (h : step? g cfg s l = some s')
    (hs : s.stop = true) : s'.stop = true := by
  cases l <;> simp only [step?] at h
  all_goals
    repeat' split at h
    all_goals first | (cases h; simp [setW, hs]) | cases h

/-- The coordinator never goes back before `setStop`. -/
theorem past_step {g : Graph} {cfg : Cfg} {s s' : St} {l : Label} (h : step? g cfg s l = some s')
    (hs : s.coord.past = true) : s'.coord.past = true := by
  cases l <;> simp only [step?] at h
  all_goals
    repeat' split at h
    all_goals first | (cases h; simp_all [setW, Coord.past]) | cases h

def Label.worker : Label → Option Nat
  | .get w _ => some w
  | .check w => some w
  | .finOk w => some w
  | .finFail w => some w
  | .release w _ => some w
  | .taskDone w => some w
  | _ => none

/-- A step changes at most the acting worker's control state (and `spawn` appends a new worker). -/
theorem ws_step {g : Graph} {cfg : Cfg} {s s' : St} {l : Label} (h : step? g cfg s l = some s')
    {w : Nat} (hlt : w < s.ws.length) (hne : l.worker ≠ some w) : s'.ws[w]? = s.ws[w]? := by
  cases l <;> simp only [step?] at h <;> simp only [Label.worker, ne_eq, Option.some.injEq] at hne
  case spawn =>
    repeat' split at h
    all_goals first | (cases h; simp [List.getElem?_append_left hlt]) | cases h
  all_goals
    repeat' split at h
    all_goals first
      | (cases h; simp only [setW, List.getElem?_set]; split <;> simp_all)
      | (cases h; rfl)
      | cases h

end Uberjob.Engine
