import UberjobModel.Model.Plan
/-!
  `get_argument_nodes`: placement by index does not depend on the order of the edges; round trip with `mkCall`.
-/
namespace Uberjob.Plan

/-- `[(i, a₀), (i+1, a₁), …]` -/
def enumFrom {α : Type} : Nat → List α → List (Nat × α)
  | _, [] => []
  | i, a :: as => (i, a) :: enumFrom (i + 1) as

theorem enumFrom_fst_ge {α : Type} : ∀ (as : List α) (i : Nat) (p : Nat × α), p ∈ enumFrom i as → i ≤ p.1
  | [], _, _, h => by simp [enumFrom] at h
  | a :: as, i, p, h => by
    simp only [enumFrom, List.mem_cons] at h
    rcases h with h | h
    · subst h; exact Nat.le_refl _
    · have := enumFrom_fst_ge as (i + 1) p h; omega

theorem enumFrom_fst_lt {α : Type} : ∀ (as : List α) (i : Nat) (p : Nat × α), p ∈ enumFrom i as → p.1 < i + as.length
  | [], _, _, h => by simp [enumFrom] at h
  | a :: as, i, p, h => by
    simp only [enumFrom, List.mem_cons] at h
    rcases h with h | h
    · subst h; simp
    · have := enumFrom_fst_lt as (i + 1) p h; simp only [List.length_cons]; omega

theorem enumFrom_inj {α : Type} : ∀ (as : List α) (i : Nat) (p q : Nat × α),
    p ∈ enumFrom i as → q ∈ enumFrom i as → p.1 = q.1 → p = q
  | [], _, _, _, h, _, _ => by simp [enumFrom] at h
  | a :: as, i, p, q, hp, hq, e => by
    simp only [enumFrom, List.mem_cons] at hp hq
    rcases hp with hp | hp <;> rcases hq with hq | hq
    · rw [hp, hq]
    · have := enumFrom_fst_ge as (i + 1) q hq; subst hp; simp at e; omega
    · have := enumFrom_fst_ge as (i + 1) p hp; subst hq; simp at e; omega
    · exact enumFrom_inj as (i + 1) p q hp hq e

/-- Filling the slots `i, i+1, …` of a list in order. -/
theorem foldl_set_enumFrom {α : Type} : ∀ (as : List α) (pre : List (Option α)) (post : List (Option α)),
    (enumFrom pre.length as).foldl (fun acc p => acc.set p.1 (some p.2)) (pre ++ List.replicate as.length none ++ post)
      = pre ++ as.map some ++ post
  | [], pre, post => by simp [enumFrom]
  | a :: as, pre, post => by
    simp only [enumFrom, List.foldl_cons, List.length_cons, List.replicate_succ, List.map_cons]
    have h1 : (pre ++ none :: List.replicate as.length none ++ post).set pre.length (some a)
        = (pre ++ [some a]) ++ List.replicate as.length none ++ post := by
      simp
    rw [h1]
    have := foldl_set_enumFrom as (pre ++ [some a]) post
    simp only [List.length_append, List.length_cons, List.length_nil, Nat.zero_add] at this
    rw [this]; simp

theorem placeAll_enumFrom {α : Type} (as : List α) (ps : List (Nat × α)) (hp : ps.Perm (enumFrom 0 as)) :
    placeAll as.length ps = some (as.map some) := by
  unfold placeAll
  have hall : ps.all (fun p => decide (p.1 < as.length)) = true := by
    rw [List.all_eq_true]; intro p hm
    have := enumFrom_fst_lt as 0 p (hp.mem_iff.mp hm)
    simp; omega
  rw [if_pos hall]
  congr 1
  rw [List.Perm.foldl_eq' hp]
  · have := foldl_set_enumFrom as [] []
    simpa using this
  · intro x hx y hy z
    by_cases e : x.1 = y.1
    · have := enumFrom_inj as 0 x y (hp.mem_iff.mp hx) (hp.mem_iff.mp hy) e
      rw [this]
    · exact List.set_comm _ _ e

theorem allSome_map_some {α : Type} : ∀ (as : List α), allSome (as.map some) = some as
  | [] => rfl
  | a :: as => by simp [allSome, allSome_map_some as]

theorem mem_of_allSome {α : Type} : ∀ (l : List (Option α)) (as : List α), allSome l = some as → ∀ a ∈ as, some a ∈ l
  | [], as, h, a, ha => by simp [allSome] at h; subst h; simp at ha
  | none :: l, as, h, a, ha => by simp [allSome] at h
  | some b :: l, as, h, a, ha => by
    simp only [allSome, Option.map_eq_some_iff] at h
    obtain ⟨as', h', rfl⟩ := h
    simp only [List.mem_cons] at ha ⊢
    rcases ha with ha | ha
    · left; rw [ha]
    · right; exact mem_of_allSome l as' h' a ha

/-- `dict(pairs)` of pairs with distinct names is the list itself. -/
theorem pyDictS_foldl_nodup {α : Type} : ∀ (ps acc : List (String × α)),
    ((acc ++ ps).map (·.1)).Nodup →
    ps.foldl (fun acc p =>
      if acc.any (fun q => q.1 == p.1) then acc.map (fun q => if q.1 == p.1 then (q.1, p.2) else q)
      else acc ++ [p]) acc = acc ++ ps
  | [], acc, _ => by simp
  | p :: ps, acc, h => by
    simp only [List.foldl_cons]
    have hno : acc.any (fun q => q.1 == p.1) = false := by
      rw [List.any_eq_false]; intro q hq
      simp only [List.map_append, List.map_cons, List.nodup_append, List.nodup_cons] at h
      have := h.2.2 q.1 (List.mem_map_of_mem hq) p.1 (by simp)
      simpa using this
    rw [hno]
    simp only [Bool.false_eq_true, if_false]
    have := pyDictS_foldl_nodup ps (acc ++ [p]) (by simpa using h)
    rw [this]; simp

theorem pyDictS_nodup {α : Type} (ps : List (String × α)) (h : (ps.map (·.1)).Nodup) : pyDictS ps = ps := by
  unfold pyDictS
  have := pyDictS_foldl_nodup ps [] (by simpa using h)
  simpa using this

theorem mem_pyDictS_foldl {α : Type} : ∀ (ps acc : List (String × α)) (q : String × α),
    q ∈ ps.foldl (fun acc p =>
      if acc.any (fun q => q.1 == p.1) then acc.map (fun q => if q.1 == p.1 then (q.1, p.2) else q)
      else acc ++ [p]) acc → (∃ p ∈ acc, q.2 = p.2) ∨ (∃ p ∈ ps, q.2 = p.2)
  | [], acc, q, h => by left; exact ⟨q, by simpa using h, rfl⟩
  | p :: ps, acc, q, h => by
    simp only [List.foldl_cons] at h
    rcases mem_pyDictS_foldl ps _ q h with ⟨r, hr, e⟩ | ⟨r, hr, e⟩
    · split at hr
      · simp only [List.mem_map] at hr
        obtain ⟨r0, hr0, e0⟩ := hr
        split at e0
        · right; exact ⟨p, by simp, by rw [e, ← e0]⟩
        · left; exact ⟨r0, hr0, by rw [e, ← e0]⟩
      · simp only [List.mem_append, List.mem_singleton] at hr
        rcases hr with hr | hr
        · left; exact ⟨r, hr, e⟩
        · right; exact ⟨p, by simp, by rw [e, hr]⟩
    · right; exact ⟨r, by simp [hr], e⟩

theorem mem_pyDictS {α : Type} (ps : List (String × α)) (q : String × α) (h : q ∈ pyDictS ps) :
    ∃ p ∈ ps, q.2 = p.2 := by
  rcases mem_pyDictS_foldl ps [] q h with ⟨r, hr, _⟩ | h
  · simp at hr
  · exact h

theorem mem_foldl_set {α : Type} : ∀ (ps : List (Nat × α)) (acc : List (Option α)) (a : α),
    some a ∈ ps.foldl (fun acc p => acc.set p.1 (some p.2)) acc → some a ∈ acc ∨ ∃ p ∈ ps, p.2 = a
  | [], acc, a, h => by left; simpa using h
  | p :: ps, acc, a, h => by
    simp only [List.foldl_cons] at h
    rcases mem_foldl_set ps _ a h with h | ⟨r, hr, e⟩
    · rcases List.mem_or_eq_of_mem_set h with h | h
      · left; exact h
      · right; exact ⟨p, by simp, by simpa using h.symm⟩
    · right; exact ⟨r, by simp [hr], e⟩

theorem mem_placeAll {α : Type} (n : Nat) (ps : List (Nat × α)) (l : List (Option α)) (h : placeAll n ps = some l)
    (a : α) (ha : some a ∈ l) : ∃ p ∈ ps, p.2 = a := by
  unfold placeAll at h
  split at h
  · simp only [Option.some.injEq] at h
    subst h
    rcases mem_foldl_set ps _ a ha with h | h
    · simp [List.mem_replicate] at h
    · exact h
  · simp at h

/-- Every argument node `get_argument_nodes` returns is the source of an edge into the call. -/
theorem src_of_getArgumentNodes {es : List Edge} {c : Nat} {as : List Nat} {kws : List (String × Nat)}
    (h : getArgumentNodes es c = some (as, kws)) :
    (∀ a ∈ as, ∃ e ∈ es, e.dst = c ∧ e.src = a ∧ e.key ≠ .dep) ∧
    (∀ q ∈ kws, ∃ e ∈ es, e.dst = c ∧ e.src = q.2 ∧ e.key ≠ .dep) := by
  unfold getArgumentNodes at h
  simp only at h
  split at h
  · rename_i a k ha hk
    split at h
    · rename_i a' k' ha' hk'
      simp only [Option.some.injEq, Prod.mk.injEq] at h
      obtain ⟨rfl, rfl⟩ := h
      constructor
      · intro x hx
        obtain ⟨p, hp, e⟩ := mem_placeAll _ _ _ ha x (mem_of_allSome _ _ ha' x hx)
        simp only [posPairs, List.mem_filterMap] at hp
        obtain ⟨ed, hed, hm⟩ := hp
        simp only [inEdges, List.mem_filter, beq_iff_eq] at hed
        refine ⟨ed, hed.1, hed.2, ?_⟩
        split at hm
        · rename_i i hkey
          simp only [Option.some.injEq] at hm
          exact ⟨by rw [← e, ← hm], by rw [hkey]; simp⟩
        · simp at hm
      · intro q hq
        obtain ⟨p0, hp0, e0⟩ := mem_pyDictS _ q hq
        obtain ⟨p, hp, e⟩ := mem_placeAll _ _ _ hk p0 (mem_of_allSome _ _ hk' p0 hp0)
        simp only [kwPairs, List.mem_filterMap] at hp
        obtain ⟨ed, hed, hm⟩ := hp
        simp only [inEdges, List.mem_filter, beq_iff_eq] at hed
        refine ⟨ed, hed.1, hed.2, ?_⟩
        split at hm
        · rename_i nm i hkey
          simp only [Option.some.injEq] at hm
          exact ⟨by rw [e0, ← e, ← hm], by rw [hkey]; simp⟩
        · simp at hm
    · simp at h
  · simp at h

/-! ### the edges `mkCall` adds -/

theorem posPairs_posEdges (c : Nat) : ∀ (as : List Nat) (i : Nat), posPairs (posEdges c i as) = enumFrom i as
  | [], _ => rfl
  | a :: as, i => by
    have := posPairs_posEdges c as (i + 1)
    simp only [posPairs] at this
    simp [posEdges, posPairs, enumFrom, this]

theorem kwPairs_posEdges (c : Nat) : ∀ (as : List Nat) (i : Nat), kwPairs (posEdges c i as) = []
  | [], _ => rfl
  | a :: as, i => by
    have := kwPairs_posEdges c as (i + 1)
    simp only [kwPairs] at this
    simp [posEdges, kwPairs, this]

theorem kwPairs_kwEdges (c : Nat) : ∀ (kws : List (String × Nat)) (i : Nat), kwPairs (kwEdges c i kws) = enumFrom i kws
  | [], _ => rfl
  | (n, a) :: kws, i => by
    have := kwPairs_kwEdges c kws (i + 1)
    simp only [kwPairs] at this
    simp [kwEdges, kwPairs, enumFrom, this]

theorem posPairs_kwEdges (c : Nat) : ∀ (kws : List (String × Nat)) (i : Nat), posPairs (kwEdges c i kws) = []
  | [], _ => rfl
  | (n, a) :: kws, i => by
    have := posPairs_kwEdges c kws (i + 1)
    simp only [posPairs] at this
    simp [kwEdges, posPairs, this]

theorem dst_posEdges (c : Nat) : ∀ (as : List Nat) (i : Nat), ∀ e ∈ posEdges c i as, e.dst = c
  | [], _, e, h => by simp [posEdges] at h
  | a :: as, i, e, h => by
    simp only [posEdges, List.mem_cons] at h
    rcases h with h | h
    · rw [h]
    · exact dst_posEdges c as (i + 1) e h

theorem dst_kwEdges (c : Nat) : ∀ (kws : List (String × Nat)) (i : Nat), ∀ e ∈ kwEdges c i kws, e.dst = c
  | [], _, e, h => by simp [kwEdges] at h
  | (n, a) :: kws, i, e, h => by
    simp only [kwEdges, List.mem_cons] at h
    rcases h with h | h
    · rw [h]
    · exact dst_kwEdges c kws (i + 1) e h

theorem src_posEdges (c : Nat) : ∀ (as : List Nat) (i : Nat), ∀ e ∈ posEdges c i as, e.src ∈ as
  | [], _, e, h => by simp [posEdges] at h
  | a :: as, i, e, h => by
    simp only [posEdges, List.mem_cons] at h
    rcases h with h | h
    · rw [h]; simp
    · exact List.mem_cons_of_mem _ (src_posEdges c as (i + 1) e h)

theorem src_kwEdges (c : Nat) : ∀ (kws : List (String × Nat)) (i : Nat), ∀ e ∈ kwEdges c i kws, e.src ∈ kws.map (·.2)
  | [], _, e, h => by simp [kwEdges] at h
  | (n, a) :: kws, i, e, h => by
    simp only [kwEdges, List.mem_cons] at h
    rcases h with h | h
    · rw [h]; simp
    · exact List.mem_cons_of_mem _ (src_kwEdges c kws (i + 1) e h)

theorem filter_dst_eq_self {c : Nat} {l : List Edge} (h : ∀ e ∈ l, e.dst = c) : l.filter (fun e => e.dst == c) = l := by
  rw [List.filter_eq_self]; intro e he; simp [h e he]

theorem filter_dst_eq_nil {c : Nat} {l : List Edge} (h : ∀ e ∈ l, e.dst ≠ c) : l.filter (fun e => e.dst == c) = [] := by
  rw [List.filter_eq_nil_iff]; intro e he; simp [h e he]

/-- Round trip, for ANY order of the edge list: the in-edges of the new call carry the positional arguments at
    their index and the keyword arguments (distinct names) with name and index. -/
theorem getArgumentNodes_mkCall (old : List Edge) (c : Nat) (as : List Nat) (kws : List (String × Nat))
    (hold : ∀ e ∈ old, e.dst ≠ c) (hn : (kws.map (·.1)).Nodup)
    (es' : List Edge) (hp : es'.Perm (old ++ posEdges c 0 as ++ kwEdges c 0 kws)) :
    getArgumentNodes es' c = some (as, kws) := by
  have hin : (inEdges es' c).Perm (posEdges c 0 as ++ kwEdges c 0 kws) := by
    unfold inEdges
    refine (hp.filter _).trans ?_
    rw [List.filter_append, List.filter_append, filter_dst_eq_nil hold,
      filter_dst_eq_self (dst_posEdges c as 0), filter_dst_eq_self (dst_kwEdges c kws 0)]
    simp
  have hpp : (posPairs (inEdges es' c)).Perm (enumFrom 0 as) := by
    have := hin.filterMap (fun e => match e.key with | .pos i => some (i, e.src) | _ => none)
    have h2 : posPairs (posEdges c 0 as ++ kwEdges c 0 kws) = enumFrom 0 as := by
      unfold posPairs; rw [List.filterMap_append]
      have a1 := posPairs_posEdges c as 0
      have a2 := posPairs_kwEdges c kws 0
      unfold posPairs at a1 a2
      rw [a1, a2]; simp
    unfold posPairs at h2 ⊢
    rw [← h2]; exact this
  have hkp : (kwPairs (inEdges es' c)).Perm (enumFrom 0 kws) := by
    have := hin.filterMap (fun e => match e.key with | .kw name i => some (i, (name, e.src)) | _ => none)
    have h2 : kwPairs (posEdges c 0 as ++ kwEdges c 0 kws) = enumFrom 0 kws := by
      unfold kwPairs; rw [List.filterMap_append]
      have a1 := kwPairs_posEdges c as 0
      have a2 := kwPairs_kwEdges c kws 0
      unfold kwPairs at a1 a2
      rw [a1, a2]; simp
    unfold kwPairs at h2 ⊢
    rw [← h2]; exact this
  have hlen1 : (posPairs (inEdges es' c)).length = as.length := by
    rw [hpp.length_eq]; clear hpp hp hin hkp
    generalize 0 = i
    induction as generalizing i with
    | nil => rfl
    | cons a as ih => simp [enumFrom, ih]
  have hlen2 : (kwPairs (inEdges es' c)).length = kws.length := by
    rw [hkp.length_eq]; clear hpp hp hin hkp hn
    generalize 0 = i
    induction kws generalizing i with
    | nil => rfl
    | cons a as ih => simp [enumFrom, ih]
  unfold getArgumentNodes
  simp only [hlen1, hlen2, placeAll_enumFrom as _ hpp, placeAll_enumFrom kws _ hkp, allSome_map_some,
    pyDictS_nodup kws hn]

end Uberjob.Plan
