import UberjobModel.Gen.DryRun
import UberjobModel.Model.Exec
import UberjobModel.Lemmas.PhysChain
/-!
  Graph facts the execution theorems need: the argument nodes a call is bound to in the plan `dry_run` returns are the
  rewired images of its logical argument edges, in order; and the engine-order facts (who has completed when a node has
  begun) in the form the induction over the run consumes them.
-/
set_option linter.unusedSectionVars false
namespace Uberjob.Exec

/-- The text the physical-plan model transcribes — the registry loop of `plan_with_value_stores` and the whole of
    `_add_value_store` — is, statement for statement, the text of the current source (T1, `Gen.DryRun`).  Every end-to-end
    theorem (C03, C05, C08, C09) stands on this file, so a change of either function breaks all of them. -/
theorem phys_source_shape : Uberjob.Gen.DryRun.facts.registryLoopShape = true ∧
    Uberjob.Gen.DryRun.facts.addValueStoreShape = true := by decide
open Uberjob.Phys Uberjob.Cache

theorem decode_code (a : PN) : decode (code a) = a := by
  cases a <;> simp [decode, code, Nat.mul_add_mod, Nat.mul_add_div]

theorem code_of_decode_write {n i : Nat} (h : decode n = .write i) : n = code (.write i) := by
  unfold decode at h
  split at h <;> simp at h
  next h5 => subst h; simp [code]; omega

/-! ### argument nodes survive both pruning steps -/

section generic
variable {α : Type} [DecidableEq α]

def argEdges (es : List (Edge α)) (a : α) : List (Edge α) := es.filter (fun e => e.dst == a && e.key.isArg)

theorem argEdges_pruneAnc (rank : α → Nat) {G : PG α} (hr : ∀ e ∈ G.edges, rank e.src < rank e.dst) {fuel : Nat}
    {req : List α} (hS : ∀ r ∈ req, rank r < fuel) {a : α} (ha : a ∈ (pruneAnc fuel req G).nodes) :
    argEdges (pruneAnc fuel req G).edges a = argEdges G.edges a := by
  have haK := (mem_pruneAnc_nodes.mp ha).2
  unfold argEdges pruneAnc
  simp only [List.filter_filter]
  apply List.filter_congr
  intro e he
  by_cases hd : e.dst = a
  · have h2 : e.dst ∈ anc G.edges fuel req := by rw [hd]; exact haK
    have h1 : e.src ∈ anc G.edges fuel req := anc_closed rank hr hS (b := a) haK ⟨e, he, rfl, hd⟩
    simp [h1, h2]
  · simp [hd]

/-- Removing a trivial literal `l` leaves the argument edges into every remaining node untouched: the literal has only
    plain-dependency out-edges, and the new pred × succ edges are plain dependencies. -/
theorem argEdges_pruneLit {G : PG α} {l a : α} (ha : a ∈ (pruneLit G l).nodes) :
    argEdges (pruneLit G l).edges a = argEdges G.edges a := by
  unfold pruneLit at ha ⊢
  dsimp only at ha ⊢
  split
  · next hall =>
    simp only [hall, if_true] at ha
    split
    · rfl
    · next hk =>
      simp only [hk] at ha
      have hne : a ≠ l := by
        simp only [Bool.false_eq_true, if_false, List.mem_filter, bne_iff_ne, ne_eq] at ha
        exact ha.2
      unfold argEdges
      simp only [Bool.false_eq_true, if_false]
      rw [List.filter_filter, List.filter_append]
      have hnew : ((prodEdges (predsOf G l) (succsOf G l)).filter (fun e => !G.edges.contains e)).filter
          (fun e => (e.dst == a && e.key.isArg) && (e.src != l && e.dst != l)) = [] := by
        apply List.filter_eq_nil_iff.mpr
        intro e he
        have := (mem_prodEdges.mp (List.mem_filter.mp he).1).2.2
        simp [this, Key.isArg]
      rw [hnew, List.append_nil]
      apply List.filter_congr
      intro e he
      by_cases hd : e.dst = a
      · by_cases hk' : e.key.isArg = true
        · have hs : e.src ≠ l := by
            intro hs
            have := List.all_eq_true.mp hall e (by simp [outEdges, he, hs])
            simp [hk'] at this
          simp [hd, hk', hs, hne]
        · simp [hk']
      · simp [hd]
  · rfl

theorem argEdges_foldLit {cands : List α} {G : PG α} {a : α} (ha : a ∈ (cands.foldl pruneLit G).nodes) :
    argEdges (cands.foldl pruneLit G).edges a = argEdges G.edges a := by
  induction cands generalizing G with
  | nil => rfl
  | cons c cs ih =>
    simp only [List.foldl_cons] at ha ⊢
    rw [ih ha]
    exact argEdges_pruneLit (foldLit_nodes_sub ha)

end generic

theorem argSrcs_eq (G : PG PN) (a : PN) : argSrcs G a = (argEdges G.edges a).map (·.src) := rfl

/-- The plan `dry_run` returns binds a kept call to the same argument nodes as the plan before pruning. -/
theorem argSrcs_final {P : Input} (hP : P.WF) {a : PN} (ha : a ∈ (physFinal P).nodes) :
    argSrcs (physFinal P) a = argSrcs (physBuild P) a := by
  rw [argSrcs_eq, argSrcs_eq]
  unfold physFinal prunePlan pruneLiterals at ha ⊢
  rw [argEdges_foldLit ha]
  rw [argEdges_pruneAnc code (built_rank hP) (fuel_ok P) (foldLit_nodes_sub ha)]

/-- Where a consumer of logical node `u` gets `u`'s value from. -/
def argNode (P : Input) (u : Nat) : PN := if (P.regOf u).isSome then .read u else .orig u

theorem gadget_dst_not_orig {P : Input} {r : Nat × Bool} {e : Edge PN} (h : e ∈ P.gadgetEdges r) (j : Nat) :
    e.dst ≠ .orig j := by
  rcases gadget_cases h with h | ⟨_, _, h | ⟨u, a, _, _, h⟩⟩ | ⟨_, _, h | h | h⟩ <;> subst h <;> simp

/-- The argument nodes of `orig j` in the plan before pruning: the rewired logical argument edges, in order. -/
theorem argSrcs_built (P : Input) (j : Nat) :
    argSrcs (physBuild P) (.orig j) = (P.toLPlan.args j).map (argNode P) := by
  rw [argSrcs_eq]
  unfold argEdges physBuild
  simp only [List.filter_append]
  have hg : (P.reg.flatMap P.gadgetEdges).filter (fun e => e.dst == PN.orig j && e.key.isArg) = [] := by
    apply List.filter_eq_nil_iff.mpr
    intro e he
    obtain ⟨r, _, hr⟩ := List.mem_flatMap.mp he
    simp [gadget_dst_not_orig hr j]
  rw [hg, List.append_nil]
  simp only [Input.toLPlan]
  induction P.edges with
  | nil => rfl
  | cons e es ih =>
    simp only [List.filterMap_cons, List.filter_cons]
    cases hr : P.regOf e.src with
    | none =>
      simp only [Input.rewire, hr]
      by_cases hd : e.dst = j
      · by_cases hk : e.key.isArg = true
        · simp [hd, hk, ih, argNode, hr]
        · simp [hd, hk, ih]
      · simp [hd, ih]
    | some s =>
      by_cases hk : e.key.isArg = true
      · simp only [Input.rewire, hr, hk, if_true]
        by_cases hd : e.dst = j
        · simp [hd, hk, ih, argNode, hr]
        · simp [hd, ih]
      · simp only [Input.rewire, hr, hk]
        cases hds : P.depSrc e.src with
        | none => simp [hk, ih]
        | some a =>
          have hf : (PN.orig e.dst == PN.orig j && Key.dep.isArg) = false := by simp [Key.isArg]
          simp only [Option.map_some, List.filter_cons, hf, hk, Bool.and_false, Bool.false_eq_true, if_false, ih]

end Uberjob.Exec
