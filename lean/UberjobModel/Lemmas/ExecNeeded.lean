import UberjobModel.Lemmas.ExecFinal
/-!
  WHICH calls a run with a registry executes, stated on the user's plan: a call `j` is `Needed` iff it is the requested
  output, or a stored value that has to be rebuilt, or feeds — through unregistered nodes only — such a call or an
  out-of-date registered node.  `needed_iff_kept`: the original node of `j` survives `prune_plan` exactly when `j` is `Needed`.
-/
set_option linter.unusedSectionVars false
set_option linter.unusedSimpArgs false
namespace Uberjob.Exec
open Uberjob.Phys Uberjob.Cache

/-- What a node of the user's plan is executed FOR. -/
inductive Needed (P : Input) : Nat → Prop where
  /-- it is the requested output and has no store of its own (a registered output is read from its store) -/
  | out {j : Nat} : P.out = some j → P.regOf j = none → j ∈ P.nodes → Needed P j
  /-- it is a stored value that is out of date: it is rebuilt -/
  | rebuilt {j : Nat} : P.regOf j = some false → P.isStale j = true → Needed P j
  /-- it has no store and a node without a store that is executed depends on it directly -/
  | feedsCall {j k : Nat} {key : Key} : (⟨j, k, key⟩ : LEdge) ∈ P.edges → P.regOf j = none →
      P.regOf k = none → Needed P k → Needed P j
  /-- it has no store and an out-of-date registered node (a stored value to rebuild, a source to refresh) depends on it
      directly -/
  | feedsStale {j k : Nat} {key : Key} {sk : Bool} : (⟨j, k, key⟩ : LEdge) ∈ P.edges → P.regOf j = none →
      P.regOf k = some sk → P.isStale k = true → Needed P j

abbrev keptSet (P : Input) : List PN := anc (physBuild P).edges (fuelOf P) (required P ++ (physOut P).toList)

theorem rebuilt_kept {P : Input} (hP : P.WF) {j : Nat} (hr : P.regOf j = some false) (hst : P.isStale j = true) :
    PN.orig j ∈ keptSet P := by
  have hm : (j, false) ∈ P.reg := mem_of_regOf hr
  have hW : P.W j = .write j := by simp [Input.W, hr]
  have hreq : PN.write j ∈ required P ++ (physOut P).toList := by
    apply List.mem_append.mpr; left
    exact List.mem_map.mpr ⟨(j, false), List.mem_filter.mpr ⟨hm, hst⟩, hW⟩
  have hedge : (⟨.orig j, .write j, .pos 1⟩ : Edge PN) ∈ (physBuild P).edges :=
    mem_built_edges.mpr (Or.inr ⟨(j, false), hm, by simp [Input.gadgetEdges, hst]⟩)
  exact anc_closed code (built_rank hP) (fuel_ok P) (subset_anc hreq) ⟨_, hedge, rfl, rfl⟩

theorem needed_kept {P : Input} (hP : P.WF) {j : Nat} (h : Needed P j) : PN.orig j ∈ keptSet P := by
  induction h with
  | out ho hr _ =>
    apply subset_anc
    apply List.mem_append.mpr; right
    simp [physOut, ho, hr]
  | rebuilt hr hst => exact rebuilt_kept hP hr hst
  | @feedsCall j k key he hj _ _ ih =>
    have hedge : (⟨.orig j, .orig k, key⟩ : Edge PN) ∈ (physBuild P).edges :=
      mem_built_edges.mpr (Or.inl ⟨_, he, by simp [Input.rewire, hj]⟩)
    exact anc_closed code (built_rank hP) (fuel_ok P) ih ⟨_, hedge, rfl, rfl⟩
  | @feedsStale j k key sk he hj hrk hstk =>
    have hedge : (⟨.orig j, .orig k, key⟩ : Edge PN) ∈ (physBuild P).edges :=
      mem_built_edges.mpr (Or.inl ⟨_, he, by simp [Input.rewire, hj]⟩)
    · cases sk with
      | false => exact anc_closed code (built_rank hP) (fuel_ok P) (rebuilt_kept hP hrk hstk) ⟨_, hedge, rfl, rfl⟩
      | true =>
        have hm : (k, true) ∈ P.reg := mem_of_regOf hrk
        have hW : P.W k = .barrier k := by simp [Input.W, hrk]
        have hreq : PN.barrier k ∈ required P ++ (physOut P).toList := by
          apply List.mem_append.mpr; left
          exact List.mem_map.mpr ⟨(k, true), List.mem_filter.mpr ⟨hm, hstk⟩, hW⟩
        have hpred : j ∈ P.logicalPreds k := mem_logicalPreds.mpr ⟨_, he, rfl, rfl⟩
        have hb : (⟨.orig j, .barrier k, .dep⟩ : Edge PN) ∈ (physBuild P).edges := by
          refine mem_built_edges.mpr (Or.inr ⟨(k, true), hm, ?_⟩)
          simp only [Input.gadgetEdges, hstk, if_true, List.mem_cons, List.mem_filterMap]
          right; right
          exact ⟨j, hpred, by simp [Input.depSrc, hj]⟩
        exact anc_closed code (built_rank hP) (fuel_ok P) (subset_anc hreq) ⟨_, hb, rfl, rfl⟩

theorem root_orig {P : Input} {v : Nat} (h : PN.orig v ∈ required P ++ (physOut P).toList) :
    P.out = some v ∧ P.regOf v = none := by
  rcases List.mem_append.mp h with h1 | h1
  · simp only [required, List.mem_map, List.mem_filter] at h1
    obtain ⟨e, _, he⟩ := h1
    exact absurd he (W_not_orig P _ _)
  · simp only [physOut, Option.mem_toList, Option.map_eq_some_iff] at h1
    obtain ⟨o, ho, ho2⟩ := h1
    split at ho2
    · cases ho2
    · next hno =>
      simp only [PN.orig.injEq] at ho2; subst ho2
      exact ⟨ho, by cases hh : P.regOf o <;> simp_all⟩

theorem kept_needed {P : Input} (hP : P.WF) {r : PN} (hr : r ∈ required P ++ (physOut P).toList) :
    ∀ (n : Nat) (j : Nat), j ∈ P.nodes → PathN (physBuild P).edges n (.orig j) r → Needed P j := by
  intro n
  induction n with
  | zero =>
    intro j hjn hp
    cases hp
    obtain ⟨ho, hreg⟩ := root_orig hr
    exact Needed.out ho hreg hjn
  | succ n ih =>
    intro j hjn hp
    cases hp with
    | succ ha hrest =>
      obtain ⟨e, he, hs, hq⟩ := ha
      rcases mem_built_edges.mp he with ⟨le, hle, hre⟩ | ⟨r', hrm', hg⟩
      · rcases rewire_cases hre with ⟨h0, rfl⟩ | ⟨s', _, _, rfl⟩ | ⟨s', _, _, _, rfl⟩
        · simp only [PN.orig.injEq] at hs
          simp only at hq
          subst hq
          have hle' : (⟨j, le.dst, le.key⟩ : LEdge) ∈ P.edges := by
            have : le = ⟨j, le.dst, le.key⟩ := by cases le; simp_all
            rw [← this]; exact hle
          have hj : P.regOf j = none := by rw [← hs]; exact h0
          have hkn : le.dst ∈ P.nodes := (hP.edgeNodes le hle).2
          cases hrk : P.regOf le.dst with
          | none => exact Needed.feedsCall hle' hj hrk (ih le.dst hkn hrest)
          | some sk =>
            by_cases hst : P.isStale le.dst = true
            · exact Needed.feedsStale hle' hj hrk hst
            · exfalso
              cases hrest with
              | zero => have := (root_orig hr).2; rw [hrk] at this; cases this
              | succ ha2 _ =>
                obtain ⟨e2, he2, hs2, _⟩ := ha2
                exact no_out_of_kept_orig hP hrk (Or.inr (by simpa using hst)) e2 he2 hs2
        · cases hs
        · exact absurd hs (W_not_orig P _ _)
      · have hreg : P.regOf r'.1 = some r'.2 := regOf_of_mem hP (by cases r'; exact hrm')
        rcases gadget_cases hg with h | ⟨hst, hsrc, h | ⟨u, a, hu, hda, h⟩⟩ | ⟨hst, hsrc, h | h | h⟩
        · subst h; cases hs
        · subst h; cases hs
        · subst h
          simp only at hs
          subst hs
          rcases depSrc_cases hda with ⟨h1, h2⟩ | ⟨_, _, _, h2⟩
          · simp only [PN.orig.injEq] at h2
            subst h2
            obtain ⟨le, hle, h1', h2'⟩ := mem_logicalPreds.mp hu
            have hle' : (⟨j, r'.1, le.key⟩ : LEdge) ∈ P.edges := by
              have : le = ⟨j, r'.1, le.key⟩ := by cases le; simp_all
              rw [← this]; exact hle
            exact Needed.feedsStale hle' h1 hreg hst
          · exact absurd h2.symm (W_not_orig P _ _)
        · subst h; cases hs
        · subst h
          simp only [PN.orig.injEq] at hs
          subst hs
          rw [hsrc] at hreg
          exact Needed.rebuilt hreg hst
        · subst h; cases hs

/-- **Exactly the needed calls are part of the plan a run executes.** -/
theorem needed_iff_kept {P : Input} (hP : P.WF) {j : Nat} (hjn : j ∈ P.nodes) (hl : P.lits.contains j = false) :
    code (.orig j) ∈ (engineGraph P).nodes ↔ Needed P j := by
  constructor
  · intro hm
    obtain ⟨b, hb, hbn⟩ := engine_node hm
    rw [← code_inj hb] at hbn
    have hfin := engine_sub_final hbn
    unfold physFinal prunePlan pruneLiterals at hfin
    obtain ⟨_, hK⟩ := mem_pruneAnc_nodes.mp (foldLit_nodes_sub hfin)
    obtain ⟨n, _, r, hrm, hp⟩ := mem_anc.mp hK
    exact kept_needed hP hrm n j hjn hp
  · intro hn
    have hanc := needed_kept hP hn
    have h1 : PN.orig j ∈ (pruneAnc (fuelOf P) (required P ++ (physOut P).toList) (physBuild P)).nodes :=
      mem_pruneAnc_nodes.mpr ⟨orig_mem hjn, hanc⟩
    have h2 : PN.orig j ∈ (physFinal P).nodes := by
      unfold physFinal prunePlan pruneLiterals
      refine foldLit_nodes_keep h1 ?_
      intro hmem
      have := (List.mem_filter.mp hmem).2
      simp only [PN.isLit, Bool.and_eq_true] at this
      rw [hl] at this
      exact absurd this.1 (by simp)
    exact engine_of_final h2 (by simpa [PN.isLit] using hl)

end Uberjob.Exec
