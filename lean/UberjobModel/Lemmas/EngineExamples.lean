import UberjobModel.Model.Engine
namespace Uberjob.Engine

/-! Non-vacuity: the diamond 0 → {1,2} → 3 with a parallel edge 1 ⇉ 3, two workers; a complete
    schedule is accepted by `step?` and begins node 3 last. -/
def diamond : Graph := Graph.ofEdges [0, 1, 2, 3] [(0, 1), (0, 2), (1, 3), (1, 3), (2, 3)]

def diamondRun : List Label :=
  [.spawn, .spawn, .get 0 (.node 0), .check 0, .finOk 0, .release 0 1, .release 0 2, .taskDone 0,
   .get 0 (.node 1), .get 1 (.node 2), .check 0, .check 1, .finOk 1, .finOk 0,
   .release 1 3, .release 0 3, .taskDone 0, .taskDone 1, .get 1 (.node 3), .check 1, .finOk 1, .taskDone 1,
   .joinReturn, .setStop, .putDone, .putDone, .get 0 .done, .get 1 .done, .check 0, .check 1,
   .taskDone 0, .taskDone 1, .joined]


/-- A failing run: node 1 fails, `max_errors = 0`; node 3 (downstream) never begins. -/
def diamondFail : List Label :=
  [.spawn, .spawn, .get 0 (.node 0), .check 0, .finOk 0, .release 0 1, .release 0 2, .taskDone 0,
   .get 0 (.node 1), .get 1 (.node 2), .check 0, .check 1, .finFail 0, .finOk 1,
   .release 1 3, .taskDone 0, .taskDone 1,
   .joinReturn, .setStop, .putDone, .putDone, .get 0 .done, .get 1 .done, .check 0, .check 1,
   .taskDone 0, .taskDone 1, .joined]

/-- An interrupted run: Ctrl-C while node 1 and 2 are running. -/
def diamondIntr : List Label :=
  [.spawn, .spawn, .get 0 (.node 0), .check 0, .finOk 0, .release 0 1, .release 0 2, .taskDone 0,
   .get 0 (.node 1), .get 1 (.node 2), .check 0, .check 1, .interrupt, .setStop, .putDone, .finOk 1, .finOk 0,
   .release 1 3, .release 0 3, .taskDone 0, .taskDone 1, .putDone, .get 1 (.node 3), .check 1, .taskDone 1,
   .get 0 .done, .get 1 .done, .check 0, .check 1, .taskDone 0, .taskDone 1, .joined]

end Uberjob.Engine
