import UberjobModel.Lemmas.PlanEval
/-!
  `_gather` builds a graph whose direct evaluation is the substitution of the nodes by their values.
-/
namespace Uberjob.Plan
open Uberjob.Gen.Plan (Ty GFn gatherLookup gfnBuilds)

/-- The value a child returned by `recurse` stands for. -/
def valOf (st : PlanSt) : PV → Val
  | .node n => eval st n
  | v => embed v

def nodeOK (b : Nat) (r : PV) : Prop := ∀ n, r = .node n → n < b

theorem valOf_nonnode (st : PlanSt) {r : PV} (h : r.isNode = false) : valOf st r = embed r := by
  cases r <;> simp [valOf, PV.isNode] at h ⊢

theorem valOf_ext {a b : PlanSt} (h : Ext a b) {r : PV} (hr : nodeOK a.nodes.length r) : valOf b r = valOf a r := by
  cases r <;> simp only [valOf]
  exact eval_ext h (hr _ rfl)

theorem nodeOK_mono {b b' : Nat} (h : b ≤ b') {r : PV} (hr : nodeOK b r) : nodeOK b' r := by
  intro n e; have := hr n e; omega

theorem subst_nodefree (ρ : Nat → Val) {v : PV} (h : v.containsNode = false) : subst ρ v = embed v := by
  cases v
  case node n => simp [PV.containsNode] at h
  case list id xs => simp only [PV.containsNode] at h; simp [subst, h]
  case tuple id xs => simp only [PV.containsNode] at h; simp [subst, h]
  case set id xs => simp only [PV.containsNode] at h; simp [subst, h]
  case dict id xs => simp only [PV.containsNode] at h; simp [subst, h]
  all_goals rfl

mutual
theorem subst_congr (ρ ρ' : Nat → Val) (b : Nat) (h : ∀ n, n < b → ρ n = ρ' n) :
    ∀ (v : PV), v.nodesBelow b = true → subst ρ v = subst ρ' v
  | .atom _, _ => rfl
  | .int _, _ => rfl
  | .node n, hb => by simp only [PV.nodesBelow, decide_eq_true_eq] at hb; simp [subst, h n hb]
  | .list id xs, hb => by
    simp only [PV.nodesBelow] at hb; simp only [subst]; rw [substList_congr ρ ρ' b h xs hb]
  | .tuple id xs, hb => by
    simp only [PV.nodesBelow] at hb; simp only [subst]; rw [substList_congr ρ ρ' b h xs hb]
  | .set id xs, hb => by
    simp only [PV.nodesBelow] at hb; simp only [subst]; rw [substList_congr ρ ρ' b h xs hb]
  | .dict id kvs, hb => by
    simp only [PV.nodesBelow] at hb; simp only [subst]; rw [substKVs_congr ρ ρ' b h kvs hb]
  | .opaque _ _ _, _ => rfl
theorem substList_congr (ρ ρ' : Nat → Val) (b : Nat) (h : ∀ n, n < b → ρ n = ρ' n) :
    ∀ (xs : List PV), PV.nodesBelowL b xs = true → substList ρ xs = substList ρ' xs
  | [], _ => rfl
  | x :: xs, hb => by
    simp only [PV.nodesBelowL, Bool.and_eq_true] at hb
    simp only [substList]
    rw [subst_congr ρ ρ' b h x hb.1, substList_congr ρ ρ' b h xs hb.2]
theorem substKVs_congr (ρ ρ' : Nat → Val) (b : Nat) (h : ∀ n, n < b → ρ n = ρ' n) :
    ∀ (kvs : List (PV × PV)), PV.nodesBelowKV b kvs = true → substKVs ρ kvs = substKVs ρ' kvs
  | [], _ => rfl
  | (k, v) :: rest, hb => by
    simp only [PV.nodesBelowKV, Bool.and_eq_true] at hb
    simp only [substKVs]
    rw [subst_congr ρ ρ' b h k hb.1.1, subst_congr ρ ρ' b h v hb.1.2, substKVs_congr ρ ρ' b h rest hb.2]
end

/-! ### `asNode`, `asNodes`, `rebuild` -/

theorem asNode_spec {st : PlanSt} (hwf : WF st) (r : PV) (hr : nodeOK st.nodes.length r) :
    WF (asNode st r).1 ∧ Ext st (asNode st r).1 ∧ (asNode st r).2 < (asNode st r).1.nodes.length ∧
      eval (asNode st r).1 (asNode st r).2 = valOf st r := by
  cases r
  case node n => exact ⟨hwf, Ext.refl _, hr n rfl, rfl⟩
  all_goals exact ⟨WF_lit hwf _, Ext_lit _ _, by simp [asNode, lit], eval_lit _ _⟩

theorem asNodes_spec : ∀ (cs : List PV) {st : PlanSt} (_ : WF st) (_ : ∀ r ∈ cs, nodeOK st.nodes.length r),
    WF (asNodes st cs).1 ∧ Ext st (asNodes st cs).1 ∧ (∀ a ∈ (asNodes st cs).2, a < (asNodes st cs).1.nodes.length) ∧
      (asNodes st cs).2.map (eval (asNodes st cs).1) = cs.map (valOf st)
  | [], st, hwf, _ => ⟨hwf, Ext.refl _, by simp [asNodes], by simp [asNodes]⟩
  | r :: rs, st, hwf, hr => by
    obtain ⟨w1, e1, l1, v1⟩ := asNode_spec hwf r (hr r (by simp))
    have hr2 : ∀ r' ∈ rs, nodeOK (asNode st r).1.nodes.length r' :=
      fun r' h' => nodeOK_mono e1.len_le (hr r' (by simp [h']))
    obtain ⟨w2, e2, l2, v2⟩ := asNodes_spec rs w1 hr2
    simp only [asNodes]
    refine ⟨w2, e1.trans e2, ?_, ?_⟩
    · intro a ha
      simp only [List.mem_cons] at ha
      rcases ha with ha | ha
      · rw [ha]; have := e2.len_le; omega
      · exact l2 a ha
    · simp only [List.map_cons]
      rw [eval_ext e2 l1, v1, v2]
      congr 1
      apply List.map_congr_left
      intro r' h'
      exact valOf_ext e1 (hr r' (by simp [h']))

theorem applyFn_gather (g : GFn) (args : List Val) :
    applyFn (.gather g) args [] = strict args (Val.build (gfnBuilds g) args) := by
  simp [applyFn, strict]

theorem rebuild_spec {st : PlanSt} (hwf : WF st) (g : GFn) (cs : List PV) (root : PV)
    (hok : ∀ r ∈ cs, nodeOK st.nodes.length r) :
    WF (rebuild st g cs root).1 ∧ Ext st (rebuild st g cs root).1 ∧
    (cs.any PV.isNode = true → ∃ c, (rebuild st g cs root).2 = .node c ∧ c < (rebuild st g cs root).1.nodes.length ∧
        eval (rebuild st g cs root).1 c = strict (cs.map (valOf st)) (Val.build (gfnBuilds g) (cs.map (valOf st)))) ∧
    (cs.any PV.isNode = false → rebuild st g cs root = (st, root)) := by
  unfold rebuild
  by_cases h : cs.any PV.isNode = true
  · rw [if_pos h]
    obtain ⟨w1, e1, l1, v1⟩ := asNodes_spec cs hwf hok
    have hk : ∀ q ∈ ([] : List (String × Nat)), q.2 < (asNodes st cs).1.nodes.length := by simp
    refine ⟨WF_mkCall w1 _ _ _ l1 hk, e1.trans (Ext_mkCall _ _ _ _), ?_, ?_⟩
    · intro _
      refine ⟨(asNodes st cs).1.nodes.length, rfl, by simp [mkCall], ?_⟩
      have := eval_mkCall w1 (.gather g) (asNodes st cs).2 [] l1 hk (by simp)
      simp only [mkCall] at this ⊢
      rw [this, v1]
      exact applyFn_gather g _
    · intro h'; rw [h] at h'; cases h'
  · rw [if_neg h]
    refine ⟨hwf, Ext.refl _, fun h' => absurd h' h, fun _ => rfl⟩

/-! ### the main induction -/

def Good (st : PlanSt) (v : PV) (res : PlanSt × PV) : Prop :=
  WF res.1 ∧ Ext st res.1 ∧ res.2.isNode = v.containsNode ∧ nodeOK res.1.nodes.length res.2 ∧
    valOf res.1 res.2 = subst (eval st) v ∧ (v.containsNode = false → res = (st, v))

def GoodL (st : PlanSt) (xs : List PV) (res : PlanSt × List PV) : Prop :=
  WF res.1 ∧ Ext st res.1 ∧ res.2.any PV.isNode = PV.anyContains xs ∧ (∀ r ∈ res.2, nodeOK res.1.nodes.length r) ∧
    res.2.map (valOf res.1) = substList (eval st) xs ∧ (PV.anyContains xs = false → res = (st, xs))

def GoodKV (st : PlanSt) (kvs : List (PV × PV)) (res : PlanSt × List PV) : Prop :=
  WF res.1 ∧ Ext st res.1 ∧ res.2.any PV.isNode = PV.anyContainsKV kvs ∧ (∀ r ∈ res.2, nodeOK res.1.nodes.length r) ∧
    res.2.map (valOf res.1) = substKVs (eval st) kvs ∧ (PV.anyContainsKV kvs = false → res.1 = st)

/-- From the children to the container (`list`, `tuple`, `set`, `dict` alike). -/
theorem good_container {st : PlanSt} {g : GFn} {root : PV} {res : PlanSt × List PV} {args : List Val} {cn : Bool}
    (hw : WF res.1) (he : Ext st res.1) (hany : res.2.any PV.isNode = cn)
    (hok : ∀ r ∈ res.2, nodeOK res.1.nodes.length r) (hval : res.2.map (valOf res.1) = args)
    (hst : cn = false → res.1 = st)
    (hroot : root.isNode = false) (hcn : root.containsNode = cn)
    (hsub : subst (eval st) root = if cn then strict args (Val.build (gfnBuilds g) args) else embed root) :
    Good st root (rebuild res.1 g res.2 root) := by
  obtain ⟨w, e, hn, hf⟩ := rebuild_spec hw g res.2 root hok
  cases cn with
  | true =>
    obtain ⟨c, hc, hlt, hev⟩ := hn hany
    refine ⟨w, he.trans e, ?_, ?_, ?_, ?_⟩
    · rw [hc, hcn]; rfl
    · rw [hc]; intro n en; cases en; exact hlt
    · rw [hc, hsub]; simp only [valOf, if_true]; rw [hev, hval]
    · rw [hcn]; intro h; cases h
  | false =>
    have h0 := hf hany
    have hs := hst rfl
    rw [h0]
    refine ⟨hw, he, ?_, ?_, ?_, ?_⟩
    · rw [hcn]; exact hroot
    · intro n en; simp only at en; rw [en] at hroot; simp [PV.isNode] at hroot
    · simp only; rw [valOf_nonnode _ hroot, hsub]; simp
    · intro _; simp only [hs]

mutual
theorem recurse_ok (b : Nat) : ∀ (v : PV) (st : PlanSt), WF st → b ≤ st.nodes.length → v.nodesBelow b = true →
    Good st v (recurse st v)
  | .atom id, st, hwf, _, _ => ⟨hwf, Ext.refl _, rfl, fun n e => by simp [recurse] at e, rfl, fun _ => rfl⟩
  | .int k, st, hwf, _, _ => ⟨hwf, Ext.refl _, rfl, fun n e => by simp [recurse] at e, rfl, fun _ => rfl⟩
  | .opaque id it xs, st, hwf, _, _ => ⟨hwf, Ext.refl _, rfl, fun n e => by simp [recurse] at e, rfl, fun _ => rfl⟩
  | .node n, st, hwf, hb, hv => by
    simp only [PV.nodesBelow, decide_eq_true_eq] at hv
    refine ⟨hwf, Ext.refl _, rfl, ?_, rfl, ?_⟩
    · intro m e
      have e' : PV.node n = PV.node m := e
      cases e'
      show n < st.nodes.length
      omega
    · intro h; simp [PV.containsNode] at h
  | .list id xs, st, hwf, hb, hv => by
    simp only [PV.nodesBelow] at hv
    obtain ⟨w, e, hany, hok, hval, hst⟩ := recurseList_ok b xs st hwf hb hv
    simp only [recurse, gatherLookup]
    exact good_container (g := .gatherList) w e hany hok hval (fun h => by rw [hst h]) rfl rfl
      (by simp only [subst, gfnBuilds])
  | .tuple id xs, st, hwf, hb, hv => by
    simp only [PV.nodesBelow] at hv
    obtain ⟨w, e, hany, hok, hval, hst⟩ := recurseList_ok b xs st hwf hb hv
    simp only [recurse, gatherLookup]
    exact good_container (g := .gatherTuple) w e hany hok hval (fun h => by rw [hst h]) rfl rfl
      (by simp only [subst, gfnBuilds])
  | .set id xs, st, hwf, hb, hv => by
    simp only [PV.nodesBelow] at hv
    obtain ⟨w, e, hany, hok, hval, hst⟩ := recurseList_ok b xs st hwf hb hv
    simp only [recurse, gatherLookup]
    exact good_container (g := .gatherSet) w e hany hok hval (fun h => by rw [hst h]) rfl rfl
      (by simp only [subst, gfnBuilds])
  | .dict id kvs, st, hwf, hb, hv => by
    simp only [PV.nodesBelow] at hv
    obtain ⟨w, e, hany, hok, hval, hst⟩ := recurseKVs_ok b kvs st hwf hb hv
    simp only [recurse, gatherLookup]
    exact good_container (g := .gatherDict) w e hany hok hval hst rfl rfl
      (by simp only [subst, gfnBuilds])
theorem recurseList_ok (b : Nat) : ∀ (xs : List PV) (st : PlanSt), WF st → b ≤ st.nodes.length →
    PV.nodesBelowL b xs = true → GoodL st xs (recurseList st xs)
  | [], st, hwf, _, _ => ⟨hwf, Ext.refl _, rfl, by simp [recurseList], rfl, fun _ => rfl⟩
  | x :: xs, st, hwf, hb, hv => by
    simp only [PV.nodesBelowL, Bool.and_eq_true] at hv
    obtain ⟨w1, e1, n1, ok1, v1, s1⟩ := recurse_ok b x st hwf hb hv.1
    obtain ⟨w2, e2, n2, ok2, v2, s2⟩ :=
      recurseList_ok b xs (recurse st x).1 w1 (Nat.le_trans hb e1.len_le) hv.2
    simp only [recurseList]
    refine ⟨w2, e1.trans e2, ?_, ?_, ?_, ?_⟩
    · simp only [List.any_cons, PV.anyContains, n1, n2]
    · intro r hr
      simp only [List.mem_cons] at hr
      rcases hr with hr | hr
      · rw [hr]; exact nodeOK_mono e2.len_le ok1
      · exact ok2 r hr
    · simp only [List.map_cons, substList]
      rw [valOf_ext e2 ok1, v1, v2]
      congr 1
      exact substList_congr _ _ b (fun n hn => eval_ext e1 (by omega)) xs hv.2
    · intro h
      simp only [PV.anyContains, Bool.or_eq_false_iff] at h
      have h1 := s1 h.1
      have h2 := s2 h.2
      rw [h1] at h2 ⊢
      simp only at h2 ⊢
      rw [h2]
theorem recurseKVs_ok (b : Nat) : ∀ (kvs : List (PV × PV)) (st : PlanSt), WF st → b ≤ st.nodes.length →
    PV.nodesBelowKV b kvs = true → GoodKV st kvs (recurseKVs st kvs)
  | [], st, hwf, _, _ => ⟨hwf, Ext.refl _, rfl, by simp [recurseKVs], rfl, fun _ => rfl⟩
  | (k, v) :: rest, st, hwf, hb, hv => by
    simp only [PV.nodesBelowKV, Bool.and_eq_true] at hv
    obtain ⟨w1, e1, n1, ok1, v1, s1⟩ := recurse_ok b k st hwf hb hv.1.1
    obtain ⟨w2, e2, n2, ok2, v2, s2⟩ := recurse_ok b v (recurse st k).1 w1 (Nat.le_trans hb e1.len_le) hv.1.2
    -- the item `(k, v)` as a tuple
    have hitem : Good st (.tuple 0 [k, v])
        (rebuild (recurse (recurse st k).1 v).1 .gatherTuple [(recurse st k).2, (recurse (recurse st k).1 v).2]
          (.tuple 0 [k, v])) := by
      have hv2 : subst (eval (recurse st k).1) v = subst (eval st) v :=
        subst_congr _ _ b (fun n hn => eval_ext e1 (by omega)) v hv.1.2
      refine good_container (st := st) (g := .gatherTuple)
        (res := ((recurse (recurse st k).1 v).1, [(recurse st k).2, (recurse (recurse st k).1 v).2]))
        (args := [subst (eval st) k, subst (eval st) v]) (cn := k.containsNode || v.containsNode)
        w2 (e1.trans e2) ?_ ?_ ?_ ?_ rfl ?_ ?_
      · simp [n1, n2]
      · intro r hr
        simp only [List.mem_cons, List.mem_nil_iff, or_false] at hr
        rcases hr with hr | hr
        · rw [hr]; exact nodeOK_mono e2.len_le ok1
        · rw [hr]; exact ok2
      · simp only [List.map_cons, List.map_nil]
        rw [valOf_ext e2 ok1, v1, v2, hv2]
      · intro h
        simp only [Bool.or_eq_false_iff] at h
        have h1 := s1 h.1
        have h2 := s2 h.2
        show (recurse (recurse st k).1 v).1 = st
        rw [h2, h1]
      · simp [PV.containsNode, PV.anyContains]
      · simp only [subst, substList, PV.anyContains, Bool.or_false, gfnBuilds]
    obtain ⟨w3, e3, n3, ok3, v3, s3⟩ := hitem
    obtain ⟨w4, e4, n4, ok4, v4, s4⟩ :=
      recurseKVs_ok b rest _ w3 (Nat.le_trans hb e3.len_le) hv.2
    simp only [recurseKVs, gatherLookup]
    refine ⟨w4, e3.trans e4, ?_, ?_, ?_, ?_⟩
    · simp only [List.any_cons, PV.anyContainsKV, n3, n4, PV.containsNode, PV.anyContains, Bool.or_false]
    · intro r hr
      simp only [List.mem_cons] at hr
      rcases hr with hr | hr
      · rw [hr]; exact nodeOK_mono e4.len_le ok3
      · exact ok4 r hr
    · simp only [List.map_cons, substKVs]
      rw [valOf_ext e4 ok3, v3, v4]
      congr 1
      · simp only [subst, substList, PV.anyContains, Bool.or_false]
      · exact substKVs_congr _ _ b (fun n hn => eval_ext e3 (by omega)) rest hv.2
    · intro h
      simp only [PV.anyContainsKV, Bool.or_eq_false_iff] at h
      have h3 := s3 (by simp [PV.containsNode, PV.anyContains, h.1.1, h.1.2])
      have h4 := s4 h.2
      show (recurseKVs (rebuild _ _ _ _).1 rest).1 = st
      rw [h4, h3]
end

end Uberjob.Plan
