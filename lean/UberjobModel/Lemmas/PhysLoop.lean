import UberjobModel.Lemmas.PhysBuild
/-!
  The loop of `plan_with_value_stores` (transcribed as `planWithValueStores`: a fold of `addValueStore` over the
  registry in mapping order) builds the closed form `physBuild` — same node list, same edge set — for EVERY registry
  order.  The proof is one step: processing entry `r` on the closed form for the entries processed so far gives the
  closed form for those entries plus `r`.
-/
set_option linter.unusedSectionVars false
namespace Uberjob.Phys

/-- the same plan with another registry (the entries processed so far) -/
def Input.withReg (P : Input) (l : List (Nat × Bool)) : Input := { P with reg := l }

/-- Sources are created by `registry.source`: calls without arguments, so every edge into a source is a plain
    dependency. -/
def Input.SrcDeps (P : Input) : Prop :=
  ∀ e ∈ P.edges, ∀ r ∈ P.reg, r.1 = e.dst → r.2 = true → e.key = Key.dep

/-- two graphs with the same node list and the same edge set -/
def Same (G H : PG PN) : Prop := G.nodes = H.nodes ∧ ∀ e, e ∈ G.edges ↔ e ∈ H.edges

theorem regOf_snoc {P : Input} {done : List (Nat × Bool)} {r : Nat × Bool} (hi : r.1 ∉ done.map (·.1)) (u : Nat) :
    (P.withReg (done ++ [r])).regOf u = if u = r.1 then some r.2 else (P.withReg done).regOf u := by
  simp only [Input.regOf, Input.withReg, List.find?_append]
  by_cases hu : u = r.1
  · subst hu
    have : done.find? (fun e => e.1 == r.1) = none := by
      apply List.find?_eq_none.mpr
      intro x hx hxe
      apply hi
      exact List.mem_map.mpr ⟨x, hx, by simpa using hxe⟩
    simp [this]
  · have : ([r] : List (Nat × Bool)).find? (fun e => e.1 == u) = none := by
      simp [List.find?_cons, Ne.symm hu]
    simp [this, hu]

theorem regOf_done_none {P : Input} {done : List (Nat × Bool)} {i : Nat} (hi : i ∉ done.map (·.1)) :
    (P.withReg done).regOf i = none := by
  simp only [Input.regOf, Input.withReg, Option.map_eq_none_iff]
  apply List.find?_eq_none.mpr
  intro x hx hxe
  apply hi
  exact List.mem_map.mpr ⟨x, hx, by simpa using hxe⟩

theorem mem_gadgetEdges {P : Input} {r : Nat × Bool} {e : Edge PN} :
    e ∈ P.gadgetEdges r ↔
      (e = ⟨.storeLit r.1, .read r.1, .pos 0⟩ ∨
      (P.isStale r.1 = true ∧ r.2 = true ∧
        (e = ⟨.barrier r.1, .read r.1, .dep⟩ ∨
          ∃ u a, u ∈ P.logicalPreds r.1 ∧ P.depSrc u = some a ∧ e = ⟨a, .barrier r.1, .dep⟩)) ∨
      (P.isStale r.1 = true ∧ r.2 = false ∧
        (e = ⟨.storeLit r.1, .write r.1, .pos 0⟩ ∨ e = ⟨.orig r.1, .write r.1, .pos 1⟩ ∨
          e = ⟨.write r.1, .read r.1, .dep⟩))) := by
  constructor
  · exact gadget_cases
  · rintro (rfl | ⟨hs, h2, rfl | ⟨u, a, hu, ha, rfl⟩⟩ | ⟨hs, h2, rfl | rfl | rfl⟩)
    · simp [Input.gadgetEdges]
    · simp [Input.gadgetEdges, hs, h2]
    · simp only [Input.gadgetEdges, hs, h2, if_true, List.mem_cons, List.mem_filterMap, Option.map_eq_some_iff]
      right; right; exact ⟨u, hu, a, ha, rfl⟩
    · simp [Input.gadgetEdges, hs, h2]
    · simp [Input.gadgetEdges, hs, h2]
    · simp [Input.gadgetEdges, hs, h2]

/-- What `addValueStore` does to the edge set. -/
theorem mem_addValueStore {P : Input} {G : PG PN} {r : Nat × Bool} {e : Edge PN} :
    e ∈ (addValueStore P G r).edges ↔
      (e ∈ G.edges ∧ e.src ≠ .orig r.1) ∨
      e = ⟨.storeLit r.1, .read r.1, .pos 0⟩ ∨
      (P.isStale r.1 = true ∧
        ((r.2 = true ∧ ∃ p, Adj G.edges p (.orig r.1) ∧ e = ⟨p, .barrier r.1, .dep⟩) ∨
         (r.2 = false ∧ (e = ⟨.storeLit r.1, .write r.1, .pos 0⟩ ∨ e = ⟨.orig r.1, .write r.1, .pos 1⟩)) ∨
         e = ⟨if r.2 then .barrier r.1 else .write r.1, .read r.1, .dep⟩)) ∨
      (∃ e0 ∈ G.edges, e0.src = .orig r.1 ∧
        ((e0.key.isArg = true ∧ e = ⟨.read r.1, e0.dst, e0.key⟩) ∨
         (e0.key.isArg = false ∧ P.isStale r.1 = true ∧
            e = ⟨if r.2 then .barrier r.1 else .write r.1, e0.dst, e0.key⟩))) := by
  simp only [addValueStore, List.mem_append, List.mem_filter, List.mem_cons, List.mem_filterMap, outEdges, bne_iff_ne,
    ne_eq, beq_iff_eq]
  constructor
  · rintro ((h | h | h) | ⟨e0, ⟨he0, hs0⟩, hrew⟩)
    · exact Or.inl h
    · exact Or.inr (Or.inl h)
    · right; right; left
      split at h
      · next hst =>
        refine ⟨hst, ?_⟩
        simp only [List.mem_append, List.mem_singleton] at h
        rcases h with h | h
        · split at h
          · next hsrc =>
            left
            simp only [List.mem_map, mem_predsOf] at h
            obtain ⟨p, hp, rfl⟩ := h
            exact ⟨hsrc, p, hp, rfl⟩
          · next hsrc =>
            right; left
            simp only [List.mem_cons, List.not_mem_nil, or_false] at h
            exact ⟨by simpa using hsrc, h⟩
        · exact Or.inr (Or.inr h)
      · cases h
    · right; right; right
      refine ⟨e0, he0, hs0, ?_⟩
      split at hrew
      · next hk => left; exact ⟨hk, by simpa using hrew.symm⟩
      · next hk =>
        split at hrew
        · next hst => right; exact ⟨by simpa using hk, hst, by simpa using hrew.symm⟩
        · cases hrew
  · rintro (h | h | ⟨hst, h⟩ | ⟨e0, he0, hs0, h⟩)
    · exact Or.inl (Or.inl h)
    · exact Or.inl (Or.inr (Or.inl h))
    · left; right; right
      simp only [hst, if_true, List.mem_append, List.mem_singleton]
      rcases h with ⟨hsrc, p, hp, rfl⟩ | ⟨hsrc, h⟩ | h
      · left
        simp only [hsrc, if_true, List.mem_map, mem_predsOf]
        exact ⟨p, hp, rfl⟩
      · left
        simp [hsrc, h]
      · exact Or.inr h
    · right
      refine ⟨e0, ⟨he0, hs0⟩, ?_⟩
      rcases h with ⟨hk, rfl⟩ | ⟨hk, hst, rfl⟩
      · simp [hk]
      · simp [hk, hst]

theorem isStale_withReg (P : Input) (l : List (Nat × Bool)) (i : Nat) : (P.withReg l).isStale i = P.isStale i := rfl
theorem edges_withReg (P : Input) (l : List (Nat × Bool)) : (P.withReg l).edges = P.edges := rfl
theorem logicalPreds_withReg (P : Input) (l : List (Nat × Bool)) (i : Nat) :
    (P.withReg l).logicalPreds i = P.logicalPreds i := rfl

/-- **One step of the loop on the closed form.** -/
theorem addValueStore_step {P : Input} (htopo : ∀ e ∈ P.edges, e.src < e.dst)
    {done : List (Nat × Bool)} {r : Nat × Bool} (hi : r.1 ∉ done.map (·.1))
    (hsrc : r.2 = true → ∀ e ∈ P.edges, e.dst = r.1 → e.key = Key.dep)
    {G : PG PN} (hG : Same G (physBuild (P.withReg done))) :
    Same (addValueStore P G r) (physBuild (P.withReg (done ++ [r]))) := by
  obtain ⟨hGn, hGe⟩ := hG
  -- abbreviations
  have hreg' := regOf_snoc (P := P) hi
  have hregi : (P.withReg done).regOf r.1 = none := regOf_done_none hi
  have hregi' : (P.withReg (done ++ [r])).regOf r.1 = some r.2 := by rw [hreg']; simp
  have hW' : (P.withReg (done ++ [r])).W r.1 = (if r.2 then PN.barrier r.1 else PN.write r.1) := W_of_regOf hregi'
  have hWne : ∀ u, u ≠ r.1 → (P.withReg (done ++ [r])).W u = (P.withReg done).W u := by
    intro u hu; simp [Input.W, hreg', hu]
  have hdep_ne : ∀ u, u ≠ r.1 → (P.withReg (done ++ [r])).depSrc u = (P.withReg done).depSrc u := by
    intro u hu
    simp only [Input.depSrc, hreg', hu, if_false, isStale_withReg, hWne u hu]
    rfl
  have hdep_i : (P.withReg done).depSrc r.1 = some (.orig r.1) := by simp [Input.depSrc, hregi]
  have hdep_i' : (P.withReg (done ++ [r])).depSrc r.1 =
      if P.isStale r.1 then some (if r.2 then PN.barrier r.1 else PN.write r.1) else none := by
    simp only [Input.depSrc, hregi', isStale_withReg, hW']
  have hrew_ne : ∀ le : LEdge, le.src ≠ r.1 →
      (P.withReg (done ++ [r])).rewire le = (P.withReg done).rewire le := by
    intro le hne
    simp only [Input.rewire, hreg', hne, if_false, hdep_ne _ hne]
  have hrew_i : ∀ le : LEdge, le.src = r.1 →
      (P.withReg done).rewire le = some ⟨.orig r.1, .orig le.dst, le.key⟩ := by
    intro le he; simp [Input.rewire, he, hregi]
  have hrew_i' : ∀ le : LEdge, le.src = r.1 → (P.withReg (done ++ [r])).rewire le =
      if le.key.isArg then some ⟨.read r.1, .orig le.dst, le.key⟩
      else if P.isStale r.1 then some ⟨if r.2 then .barrier r.1 else .write r.1, .orig le.dst, Key.dep⟩ else none := by
    intro le he
    simp only [Input.rewire, he, hregi', hdep_i']
    split
    · rfl
    · split <;> simp
  have hdepsrc_orig : ∀ u a, (P.withReg done).depSrc u = some a → a = .orig r.1 → u = r.1 := by
    intro u a ha hao
    rcases depSrc_cases ha with ⟨_, rfl⟩ | ⟨_, _, _, rfl⟩
    · simpa using hao
    · exact absurd hao (W_not_orig _ _ _)
  have hkeydep : ∀ k : Key, k.isArg = false → k = Key.dep := by
    intro k hk; cases k <;> simp_all [Key.isArg]
  constructor
  · -- nodes
    simp only [addValueStore, physBuild, hGn, Input.withReg, List.flatMap_append, List.flatMap_cons, List.flatMap_nil,
      List.append_nil, List.append_assoc]
    rfl
  · intro e
    rw [mem_addValueStore, mem_built_edges]
    simp only [Adj, hGe, edges_withReg]
    have hrmem : r ∈ (P.withReg (done ++ [r])).reg := by simp [Input.withReg]
    constructor
    · rintro (⟨heG, hne⟩ | rfl | ⟨hst, h⟩ | ⟨e0, he0, hs0, h⟩)
      · -- an old edge that does not leave `orig i`
        rcases mem_built_edges.mp heG with ⟨le, hle, hr⟩ | ⟨z, hz, hg⟩
        · left
          by_cases hls : le.src = r.1
          · rw [hrew_i le hls] at hr
            have : e.src = .orig r.1 := by rw [← Option.some.inj hr]
            exact absurd this hne
          · exact ⟨le, hle, by rw [hrew_ne le hls]; exact hr⟩
        · right
          refine ⟨z, List.mem_append.mpr (Or.inl hz), ?_⟩
          rw [mem_gadgetEdges] at hg ⊢
          simp only [isStale_withReg, logicalPreds_withReg] at hg ⊢
          rcases hg with h | ⟨hs, h2, h | ⟨u, a, hu, ha, rfl⟩⟩ | h
          · exact Or.inl h
          · exact Or.inr (Or.inl ⟨hs, h2, Or.inl h⟩)
          · by_cases hui : u = r.1
            · subst hui
              rw [hdep_i] at ha
              exact absurd (Option.some.inj ha).symm hne
            · exact Or.inr (Or.inl ⟨hs, h2, Or.inr ⟨u, a, hu, by rw [hdep_ne u hui]; exact ha, rfl⟩⟩)
          · exact Or.inr (Or.inr h)
      · right
        exact ⟨r, hrmem, by simp [Input.gadgetEdges]⟩
      · -- the new gadget
        right
        refine ⟨r, hrmem, ?_⟩
        rw [mem_gadgetEdges]
        simp only [isStale_withReg, logicalPreds_withReg]
        rcases h with ⟨h2, p, ⟨e0, he0, hs0, hd0⟩, rfl⟩ | ⟨h2, h⟩ | rfl
        · -- Barrier ← current predecessors of the node
          right; left
          refine ⟨hst, h2, Or.inr ?_⟩
          rcases mem_built_edges.mp he0 with ⟨le, hle, hr⟩ | ⟨z, _, hg⟩
          · have hkd : le.dst = r.1 := by
              rcases rewire_cases hr with ⟨_, rfl⟩ | ⟨_, _, _, rfl⟩ | ⟨_, _, _, _, rfl⟩ <;> simpa using hd0
            have hkey := hsrc h2 le hle hkd
            have hlt := htopo le hle
            have hne : le.src ≠ r.1 := by omega
            refine ⟨le.src, e0.src, mem_logicalPreds.mpr ⟨le, hle, rfl, hkd⟩, ?_, by rw [hs0]⟩
            rw [hdep_ne _ hne]
            rcases rewire_cases hr with ⟨h0, rfl⟩ | ⟨_, _, hk, _⟩ | ⟨s, h0, _, hs', rfl⟩
            · simp [Input.depSrc, h0]
            · rw [hkey] at hk; cases hk
            · have hs'' : P.isStale le.src = true := hs'
              simp [Input.depSrc, h0, isStale_withReg, hs'']
          · rcases gadget_cases hg with rfl | ⟨_, _, rfl | ⟨_, _, _, _, rfl⟩⟩ | ⟨_, _, rfl | rfl | rfl⟩ <;> cases hd0
        · right; right
          rcases h with rfl | rfl
          · exact ⟨hst, h2, Or.inl rfl⟩
          · exact ⟨hst, h2, Or.inr (Or.inl rfl)⟩
        · cases h2 : r.2
          · right; right; exact ⟨hst, rfl, by simp⟩
          · right; left; exact ⟨hst, rfl, by simp⟩
      · -- a snapshot edge, re-attached
        rcases mem_built_edges.mp he0 with ⟨le, hle, hr⟩ | ⟨z, hz, hg⟩
        · left
          have hls : le.src = r.1 := by
            rcases rewire_cases hr with ⟨_, rfl⟩ | ⟨_, _, _, rfl⟩ | ⟨_, _, _, _, rfl⟩
            · simpa using hs0
            · cases hs0
            · exact absurd hs0 (W_not_orig _ _ _)
          rw [hrew_i le hls] at hr
          have he0' : e0 = ⟨.orig r.1, .orig le.dst, le.key⟩ := (Option.some.inj hr).symm
          refine ⟨le, hle, ?_⟩
          rw [hrew_i' le hls]
          rcases h with ⟨hk, rfl⟩ | ⟨hk, hst, rfl⟩
          · rw [he0'] at hk ⊢; simp at hk; simp [hk]
          · rw [he0'] at hk ⊢
            have hk' : le.key.isArg = false := hk
            simp only [hk', hst, Bool.false_eq_true, if_false, if_true]
            rw [hkeydep _ hk']
        · right
          refine ⟨z, List.mem_append.mpr (Or.inl hz), ?_⟩
          have hzi : z.1 ≠ r.1 := by
            intro hh; apply hi; exact List.mem_map.mpr ⟨z, hz, hh⟩
          rw [mem_gadgetEdges] at hg ⊢
          simp only [isStale_withReg, logicalPreds_withReg] at hg ⊢
          rcases hg with rfl | ⟨hs, h2, rfl | ⟨u, a, hu, ha, rfl⟩⟩ | ⟨_, _, rfl | rfl | rfl⟩
          · cases hs0
          · cases hs0
          · have hui := hdepsrc_orig u a ha hs0
            subst hui
            rcases h with ⟨hk, _⟩ | ⟨_, hst, rfl⟩
            · cases hk
            · right; left
              exact ⟨hs, h2, Or.inr ⟨r.1, _, hu, by rw [hdep_i', hst]; rfl, rfl⟩⟩
          · cases hs0
          · simp only [PN.orig.injEq] at hs0; exact absurd hs0 hzi
          · cases hs0
    · rintro (⟨le, hle, hr⟩ | ⟨z, hz, hg⟩)
      · by_cases hls : le.src = r.1
        · -- an edge leaving the node: it comes from a snapshot edge
          rw [hrew_i' le hls] at hr
          right; right; right
          refine ⟨⟨.orig r.1, .orig le.dst, le.key⟩, mem_built_edges.mpr (Or.inl ⟨le, hle, hrew_i le hls⟩), rfl, ?_⟩
          split at hr
          · next hk => left; exact ⟨hk, (Option.some.inj hr).symm⟩
          · next hk =>
            split at hr
            · next hst =>
              right
              have hk' : le.key.isArg = false := by simpa using hk
              refine ⟨hk', hst, ?_⟩
              rw [← Option.some.inj hr, hkeydep _ hk']
            · cases hr
        · left
          rw [hrew_ne le hls] at hr
          refine ⟨mem_built_edges.mpr (Or.inl ⟨le, hle, hr⟩), ?_⟩
          rcases rewire_cases hr with ⟨_, rfl⟩ | ⟨_, _, _, rfl⟩ | ⟨_, _, _, _, rfl⟩
          · simpa using hls
          · simp
          · exact W_not_orig _ _ _
      · rcases List.mem_append.mp hz with hz | hz
        · -- the gadget of an entry processed before
          have hzi : z.1 ≠ r.1 := by
            intro hh; apply hi; exact List.mem_map.mpr ⟨z, hz, hh⟩
          rw [mem_gadgetEdges] at hg
          simp only [isStale_withReg, logicalPreds_withReg] at hg
          have hold : ∀ e', e' ∈ (P.withReg done).gadgetEdges z → e'.src ≠ .orig r.1 →
              (e' ∈ (physBuild (P.withReg done)).edges ∧ e'.src ≠ .orig r.1) :=
            fun e' h1 h2 => ⟨mem_built_edges.mpr (Or.inr ⟨z, hz, h1⟩), h2⟩
          rcases hg with rfl | ⟨hs, h2, rfl | ⟨u, a, hu, ha, rfl⟩⟩ | ⟨hs, h2, rfl | rfl | rfl⟩
          · exact Or.inl (hold _ (by simp [Input.gadgetEdges]) (by simp))
          · exact Or.inl (hold _ (mem_gadgetEdges.mpr (Or.inr (Or.inl ⟨hs, h2, Or.inl rfl⟩))) (by simp))
          · by_cases hui : u = r.1
            · subst hui
              rw [hdep_i'] at ha
              split at ha
              · next hst =>
                right; right; right
                refine ⟨⟨.orig r.1, .barrier z.1, .dep⟩, ?_, rfl, Or.inr ⟨rfl, hst, ?_⟩⟩
                · exact mem_built_edges.mpr (Or.inr ⟨z, hz, mem_gadgetEdges.mpr
                    (Or.inr (Or.inl ⟨hs, h2, Or.inr ⟨r.1, _, hu, hdep_i, rfl⟩⟩))⟩)
                · rw [← Option.some.inj ha]
              · cases ha
            · rw [hdep_ne u hui] at ha
              refine Or.inl (hold _ (mem_gadgetEdges.mpr (Or.inr (Or.inl ⟨hs, h2, Or.inr ⟨u, a, hu, ha, rfl⟩⟩))) ?_)
              intro hao
              exact hui (hdepsrc_orig u a ha hao)
          · exact Or.inl (hold _ (mem_gadgetEdges.mpr (Or.inr (Or.inr ⟨hs, h2, Or.inl rfl⟩))) (by simp))
          · exact Or.inl (hold _ (mem_gadgetEdges.mpr (Or.inr (Or.inr ⟨hs, h2, Or.inr (Or.inl rfl)⟩)))
              (by simpa using hzi))
          · exact Or.inl (hold _ (mem_gadgetEdges.mpr (Or.inr (Or.inr ⟨hs, h2, Or.inr (Or.inr rfl)⟩))) (by simp))
        · -- the gadget of `r` itself
          simp only [List.mem_singleton] at hz
          subst hz
          rw [mem_gadgetEdges] at hg
          simp only [isStale_withReg, logicalPreds_withReg] at hg
          rcases hg with rfl | ⟨hs, h2, rfl | ⟨u, a, hu, ha, rfl⟩⟩ | ⟨hs, h2, rfl | rfl | rfl⟩
          · exact Or.inr (Or.inl rfl)
          · exact Or.inr (Or.inr (Or.inl ⟨hs, Or.inr (Or.inr (by simp [h2]))⟩))
          · obtain ⟨le, hle, h1, hd⟩ := mem_logicalPreds.mp hu
            have hlt := htopo le hle
            have hui : u ≠ z.1 := by omega
            rw [hdep_ne u hui] at ha
            have hkey := hsrc h2 le hle hd
            refine Or.inr (Or.inr (Or.inl ⟨hs, Or.inl ⟨h2, a, ?_, rfl⟩⟩))
            refine ⟨⟨a, .orig z.1, .dep⟩, mem_built_edges.mpr (Or.inl ⟨le, hle, ?_⟩), rfl, rfl⟩
            rcases depSrc_cases ha with ⟨h0, rfl⟩ | ⟨s, h0, hst, rfl⟩
            · simp [Input.rewire, h1, h0, hd, hkey]
            · simp only [Input.rewire, h1, h0, hkey, Key.isArg, Bool.false_eq_true, if_false, ha, Option.map_some, hd]
          · exact Or.inr (Or.inr (Or.inl ⟨hs, Or.inr (Or.inl ⟨h2, Or.inl rfl⟩)⟩))
          · exact Or.inr (Or.inr (Or.inl ⟨hs, Or.inr (Or.inl ⟨h2, Or.inr rfl⟩)⟩))
          · exact Or.inr (Or.inr (Or.inl ⟨hs, Or.inr (Or.inr (by simp [h2]))⟩))

theorem base_same (P : Input) : Same (baseGraph P) (physBuild (P.withReg [])) := by
  constructor
  · simp [baseGraph, physBuild, Input.withReg]
  · intro e
    simp only [baseGraph, physBuild, Input.withReg, List.flatMap_nil, List.append_nil, List.mem_map,
      List.mem_filterMap]
    constructor
    · rintro ⟨le, hle, rfl⟩; exact ⟨le, hle, by simp [Input.rewire, Input.regOf]⟩
    · rintro ⟨le, hle, hr⟩; exact ⟨le, hle, by simpa [Input.rewire, Input.regOf] using hr⟩

theorem loop_same_aux {P : Input} (htopo : ∀ e ∈ P.edges, e.src < e.dst) (rest : List (Nat × Bool)) :
    ∀ (done : List (Nat × Bool)) (G : PG PN), Same G (physBuild (P.withReg done)) →
      ((done ++ rest).map (·.1)).Nodup →
      (∀ r ∈ rest, r.2 = true → ∀ e ∈ P.edges, e.dst = r.1 → e.key = Key.dep) →
      Same (rest.foldl (addValueStore P) G) (physBuild (P.withReg (done ++ rest))) := by
  induction rest with
  | nil => intro done G hG _ _; simpa using hG
  | cons r rest ih =>
    intro done G hG hnd hsrc
    simp only [List.foldl_cons]
    have hnd' : (((done ++ [r]) ++ rest).map (·.1)).Nodup := by simpa [List.append_assoc] using hnd
    have hi : r.1 ∉ done.map (·.1) := by
      simp only [List.map_append, List.map_cons] at hnd
      have := (List.nodup_append.mp hnd).2.2
      intro hmem
      exact this _ hmem _ (by simp) rfl
    have := ih (done ++ [r]) (addValueStore P G r)
      (addValueStore_step htopo hi (hsrc r (by simp)) hG) hnd' (fun r' hr' => hsrc r' (by simp [hr']))
    simpa [List.append_assoc] using this

/-- **The loop builds the closed form, whatever the registry order.** -/
theorem loop_same {P : Input} (hP : P.WF) (hS : P.SrcDeps) : Same (planWithValueStores P) (physBuild P) := by
  have h := loop_same_aux hP.topo P.reg [] (baseGraph P) (base_same P) (by simpa using hP.regNodup)
    (fun r hr h2 e he hd => hS e he r hr hd.symm h2)
  simpa [planWithValueStores, Input.withReg] using h

end Uberjob.Phys
