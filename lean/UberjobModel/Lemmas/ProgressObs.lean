import UberjobModel.Lemmas.ProgressState
/-!
Observer-level facts: a legal body never makes the bookkeeping fail (with render points anywhere), what the last
emitted rendering shows, and the time attributed to scopes.
-/
namespace Uberjob.Progress
open Uberjob.Gen.Progress

theorem notifsOf_cons (ev : Ev) (evs : List Ev) : notifsOf (ev :: evs) = notifsOf [ev] ++ notifsOf evs := by
  cases ev <;> simp [notifsOf]

theorem notifsOf_append (a b : List Ev) : notifsOf (a ++ b) = notifsOf a ++ notifsOf b := by
  induction a with
  | nil => simp [notifsOf]
  | cons ev a ih => rw [List.cons_append, notifsOf_cons, notifsOf_cons ev a, ih, List.append_assoc]

theorem notifsOf_take_prefix (evs : List Ev) (i : Nat) : notifsOf (evs.take i) <+: notifsOf evs := by
  conv => rhs; rw [← List.take_append_drop i evs, notifsOf_append]
  exact List.prefix_append _ _

theorem doRender_st (m : Rat) (o : Obs) (t t2 : Rat) :
    (doRender m o t t2).st = o.st ∨ (doRender m o t t2).st = uwe o.st t2 := by
  unfold doRender; split
  · exact Or.inr rfl
  · exact Or.inl rfl

theorem Sync.afterRender {p : List Notif} {o : Obs} (h : Sync p o.st) (m t t2 : Rat) :
    Sync p (doRender m o t t2).st := by
  rcases doRender_st m o t t2 with h' | h' <;> rw [h']
  · exact h
  · exact h.afterUwe t2

/-- One event of a legal body: no error; `Sync` is kept. -/
theorem Sync.obsStep {b p : List Notif} {o : Obs} {ev : Ev} (hb : PLegal b) (hs : Sync p o.st)
    (hp : p ++ notifsOf [ev] <+: b) (m : Rat) :
    ∃ o', o.step m ev = .ok o' ∧ Sync (p ++ notifsOf [ev]) o'.st := by
  cases ev with
  | notif t n =>
    simp only [notifsOf] at hp ⊢
    obtain ⟨s', h1, h2⟩ := hs.step hb hp t
    simp only [Obs.step, h1]
    exact ⟨_, rfl, h2⟩
  | wake t t2 =>
    simp only [notifsOf, List.append_nil, Obs.step]
    exact ⟨_, rfl, hs.afterRender m t t2⟩

/-- Induction principle along a run over (a prefix of) a legal body: `Sync` is available at every step. -/
theorem run_ind {b : List Notif} (hb : PLegal b) (m : Rat) (P : List Notif → Obs → Prop)
    (hstep : ∀ p o ev o', Sync p o.st → P p o → p ++ notifsOf [ev] <+: b → o.step m ev = .ok o' →
      P (p ++ notifsOf [ev]) o') :
    ∀ evs p o, Sync p o.st → P p o → p ++ notifsOf evs <+: b →
      ∃ o', Obs.run m o evs = .ok o' ∧ Sync (p ++ notifsOf evs) o'.st ∧ P (p ++ notifsOf evs) o' := by
  intro evs
  induction evs with
  | nil => intro p o hs hP _; simp only [notifsOf, List.append_nil, Obs.run]; exact ⟨o, rfl, hs, hP⟩
  | cons ev evs ih =>
    intro p o hs hP hp
    rw [notifsOf_cons, ← List.append_assoc] at hp ⊢
    have hp1 : p ++ notifsOf [ev] <+: b := (List.prefix_append _ _).trans hp
    obtain ⟨o1, h1, hs1⟩ := hs.obsStep hb hp1 m
    have hP1 := hstep p o ev o1 hs hP hp1 h1
    obtain ⟨o', h2, hs2, hP2⟩ := ih _ o1 hs1 hP1 hp
    exact ⟨o', by simp only [Obs.run, h1, h2], hs2, hP2⟩

theorem run_ok {b : List Notif} (hb : PLegal b) (m : Rat) (evs : List Ev) (start : Rat)
    (hp : notifsOf evs <+: b) :
    ∃ o, Obs.run m (Obs.init start) evs = .ok o ∧ Sync (notifsOf evs) o.st := by
  obtain ⟨o, h1, h2, _⟩ := run_ind hb m (fun _ _ => True) (fun _ _ _ _ _ _ _ _ => trivial) evs [] (Obs.init start)
    (sync_init start) trivial (by simpa using hp)
  exact ⟨o, h1, by simpa using h2⟩

/-! ### keys are exactly the announced ones -/

theorem apply_keys {s s' : PState} {k : Key} {f : Cell → Int → Res} (h : apply s k f = .ok s') : s'.keys = s.keys := by
  unfold apply at h
  split at h
  · split at h
    · cases h; rfl
    · cases h
  · cases h

theorem apply_weighted {s s' : PState} {k : Key} {f : Cell → Int → Res} (h : apply s k f = .ok s') :
    s'.weighted = s.weighted ∧ s'.prev = s.prev := by
  unfold apply at h
  split at h
  · split at h
    · cases h; exact ⟨rfl, rfl⟩
    · cases h
  · cases h

theorem ensure_keys_sub (s : PState) (k k' : Key) (h : k' ∈ (ensure s k).keys) : k' ∈ s.keys ∨ k' = k := by
  unfold ensure at h; split at h
  · exact Or.inl h
  · simpa using h

theorem stepNotif_keys_announced {p : List Notif} {s s' : PState} {t : Rat} {n : Notif}
    (h : stepNotif s t n = .ok s') (ha : ∀ k ∈ s.keys, announced k p = true) :
    ∀ k ∈ s'.keys, announced k (p ++ [n]) = true := by
  intro k hk
  cases n with
  | enter => simp only [stepNotif] at h; cases h; exact announced_mono (ha k hk)
  | exit => simp only [stepNotif] at h; cases h; exact announced_mono (ha k hk)
  | total sec sc a =>
    simp only [stepNotif] at h
    rw [apply_keys h] at hk
    rcases ensure_keys_sub _ _ _ hk with h' | h'
    · exact announced_mono (ha k h')
    · subst h'; simp [announced_snoc, Notif.isTotal]
  | running sec sc =>
    simp only [stepNotif] at h
    rw [apply_keys h, uwe_keys] at hk; exact announced_mono (ha k hk)
  | completed sec sc =>
    simp only [stepNotif] at h
    rw [apply_keys h, uwe_keys] at hk; exact announced_mono (ha k hk)
  | failed sec sc =>
    simp only [stepNotif] at h
    rw [apply_keys h, uwe_keys] at hk; exact announced_mono (ha k hk)

theorem doRender_keys (m : Rat) (o : Obs) (t t2 : Rat) : (doRender m o t t2).st.keys = o.st.keys := by
  rcases doRender_st m o t t2 with h | h <;> rw [h]; simp

theorem doRender_cell (m : Rat) (o : Obs) (t t2 : Rat) : (doRender m o t t2).st.cell = o.st.cell := by
  rcases doRender_st m o t t2 with h | h <;> rw [h]; simp

theorem doRender_rc (m : Rat) (o : Obs) (t t2 : Rat) : (doRender m o t t2).st.rc = o.st.rc := by
  rcases doRender_st m o t t2 with h | h <;> rw [h]; simp

theorem obsStep_keys_announced {p : List Notif} {o o' : Obs} {m : Rat} {ev : Ev}
    (h : o.step m ev = .ok o') (ha : ∀ k ∈ o.st.keys, announced k p = true) :
    ∀ k ∈ o'.st.keys, announced k (p ++ notifsOf [ev]) = true := by
  cases ev with
  | notif t n =>
    simp only [Obs.step] at h
    split at h
    · next st hst => cases h; exact stepNotif_keys_announced hst ha
    · cases h
  | wake t t2 =>
    simp only [Obs.step] at h; cases h
    simp only [notifsOf, List.append_nil, doRender_keys]; exact ha

theorem totalSum_pos {k : Key} {p : List Notif} (ha : announced k p = true) (hpos : ∀ x ∈ p, x.amountPos = true) :
    1 ≤ totalSum k p := by
  induction p with
  | nil => simp [announced] at ha
  | cons a l ih =>
    simp only [totalSum, List.map_cons, List.sum_cons]
    simp only [announced, List.any_cons, Bool.or_eq_true] at ha
    rcases ha with ha | ha
    · have := hpos a (by simp)
      cases a <;> simp_all [Notif.isTotal, Notif.amount, Notif.amountPos]
      omega
    · have := ih (by simpa [announced] using ha) (fun x hx => hpos x (by simp [hx]))
      simp only [totalSum] at this; omega

/-! ### the last emitted rendering -/

/-- what `_stale = False` means: the newest output shows the current counts -/
def Fresh (o : Obs) : Prop :=
  ∃ out, o.outs.getLast? = some out ∧ out.seen = o.seen ∧ out.keys = o.st.keys ∧ out.cell = o.st.cell

theorem doRender_fresh (m : Rat) (o : Obs) (t t2 : Rat) (h : o.stale = false → Fresh o) :
    Fresh (doRender m o t t2) ∧ (doRender m o t t2).stale = false := by
  unfold doRender
  split
  · refine ⟨⟨{ seen := o.seen, keys := (uwe o.st t2).keys, cell := (uwe o.st t2).cell,
                 weighted := (uwe o.st t2).weighted, elapsed := t - o.start }, by simp, rfl, rfl, rfl⟩, rfl⟩
  · next hc =>
    have hst : o.stale = false := by
      cases hs : o.stale with
      | false => rfl
      | true => simp [renderCond, hs] at hc
    exact ⟨h hst, hst⟩

theorem step_fresh {m : Rat} {o o' : Obs} {ev : Ev} (hstep : o.step m ev = .ok o')
    (h : o.stale = false → Fresh o) : o'.stale = false → Fresh o' := by
  cases ev with
  | notif t n =>
    simp only [Obs.step] at hstep
    split at hstep
    · cases hstep; intro h'; simp at h'
    · cases hstep
  | wake t t2 =>
    simp only [Obs.step] at hstep; cases hstep
    intro _; exact (doRender_fresh m o t t2 h).1

theorem run_fresh {m : Rat} : ∀ (evs : List Ev) (o o' : Obs), Obs.run m o evs = .ok o' →
    (o.stale = false → Fresh o) → (o'.stale = false → Fresh o') := by
  intro evs
  induction evs with
  | nil => intro o o' h; simp only [Obs.run] at h; cases h; exact id
  | cons ev evs ih =>
    intro o o' h hf
    simp only [Obs.run] at h
    split at h
    · next o1 h1 => exact ih o1 o' h (step_fresh h1 hf)
    · cases h

theorem step_seen {m : Rat} {o o' : Obs} {ev : Ev} (h : o.step m ev = .ok o') :
    o'.seen = o.seen + (notifsOf [ev]).length := by
  cases ev with
  | notif t n =>
    simp only [Obs.step] at h
    split at h
    · cases h; simp [notifsOf]
    · cases h
  | wake t t2 =>
    simp only [Obs.step] at h; cases h
    simp only [notifsOf, List.length_nil, Nat.add_zero]
    unfold doRender; split <;> rfl

theorem run_seen {m : Rat} : ∀ (evs : List Ev) (o o' : Obs), Obs.run m o evs = .ok o' →
    o'.seen = o.seen + (notifsOf evs).length := by
  intro evs
  induction evs with
  | nil => intro o o' h; simp only [Obs.run] at h; cases h; simp [notifsOf]
  | cons ev evs ih =>
    intro o o' h
    simp only [Obs.run] at h
    split at h
    · next o1 h1 =>
      rw [ih o1 o' h, step_seen h1, notifsOf_cons ev evs, List.length_append]; omega
    · cases h

end Uberjob.Progress
