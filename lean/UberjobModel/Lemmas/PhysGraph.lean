import UberjobModel.Model.Phys
/-!
  Generic facts about the graph operations of `Model/Phys.lean`: paths, the ancestor closure, literal pruning
  (reachability among the remaining nodes is preserved, whatever the order of the removals), dropping source
  literals, adding the all-nodes gather.
-/
set_option linter.unusedSectionVars false
namespace Uberjob.Phys

section generic
variable {α : Type} [DecidableEq α]

theorem PG.ext' {G H : PG α} (h1 : G.nodes = H.nodes) (h2 : G.edges = H.edges) : G = H := by
  cases G; cases H; simp_all

theorem mem_dedup {l : List α} {a : α} : a ∈ dedup l ↔ a ∈ l := by
  induction l with
  | nil => simp [dedup]
  | cons x xs ih =>
    simp only [dedup, List.mem_cons, List.mem_filter, ih]
    by_cases h : a = x <;> simp [h]

/-- There is an edge (with any key) from `a` to `b`. -/
def Adj (es : List (Edge α)) (a b : α) : Prop := ∃ e ∈ es, e.src = a ∧ e.dst = b

/-- `Path es a b`: `b` is reachable from `a` through one or more edges. -/
inductive Path (es : List (Edge α)) : α → α → Prop where
  | single {a b : α} : Adj es a b → Path es a b
  | cons {a q b : α} : Path es a q → Adj es q b → Path es a b

theorem Path.trans {es : List (Edge α)} {a b c : α} (h1 : Path es a b) (h2 : Path es b c) : Path es a c := by
  induction h2 with
  | single h => exact Path.cons h1 h
  | cons _ h ih => exact Path.cons ih h

theorem Path.head {es : List (Edge α)} {a b c : α} (h1 : Adj es a b) (h2 : Path es b c) : Path es a c :=
  Path.trans (Path.single h1) h2

theorem Path.mono {es es' : List (Edge α)} (hsub : ∀ e ∈ es, e ∈ es') {a b : α} (h : Path es a b) : Path es' a b := by
  induction h with
  | single h => obtain ⟨e, he, h1, h2⟩ := h; exact Path.single ⟨e, hsub e he, h1, h2⟩
  | cons _ h ih => obtain ⟨e, he, h1, h2⟩ := h; exact Path.cons ih ⟨e, hsub e he, h1, h2⟩

theorem Path.has_in {es : List (Edge α)} {a b : α} (h : Path es a b) : ∃ e ∈ es, e.dst = b := by
  cases h with
  | single h => obtain ⟨e, he, _, h2⟩ := h; exact ⟨e, he, h2⟩
  | cons _ h => obtain ⟨e, he, _, h2⟩ := h; exact ⟨e, he, h2⟩

theorem adj_of_mem {es : List (Edge α)} {e : Edge α} (h : e ∈ es) : Adj es e.src e.dst := ⟨e, h, rfl, rfl⟩

/-- A rank that increases along every edge increases along every path: no cycles. -/
theorem rank_path {es : List (Edge α)} (rank : α → Nat) (hr : ∀ e ∈ es, rank e.src < rank e.dst) {a b : α}
    (h : Path es a b) : rank a < rank b := by
  induction h with
  | single h => obtain ⟨e, he, h1, h2⟩ := h; have := hr e he; rw [h1, h2] at this; exact this
  | cons _ h ih => obtain ⟨e, he, h1, h2⟩ := h; have := hr e he; rw [h1, h2] at this; omega

/-- every edge has both endpoints among the nodes -/
def EndsIn (G : PG α) : Prop := ∀ e ∈ G.edges, e.src ∈ G.nodes ∧ e.dst ∈ G.nodes

/-! ### the ancestor closure -/

/-- a path with exactly `n` edges -/
inductive PathN (es : List (Edge α)) : Nat → α → α → Prop where
  | zero (a : α) : PathN es 0 a a
  | succ {n : Nat} {a q b : α} : Adj es a q → PathN es n q b → PathN es (n + 1) a b

theorem PathN.snoc {es : List (Edge α)} {n : Nat} {a q b : α} (h : PathN es n a q) (hq : Adj es q b) :
    PathN es (n + 1) a b := by
  induction h with
  | zero a => exact PathN.succ hq (PathN.zero _)
  | succ ha _ ih => exact PathN.succ ha (ih hq)

theorem PathN.unsnoc {es : List (Edge α)} {n : Nat} {a b : α} (h : PathN es (n + 1) a b) :
    ∃ q, PathN es n a q ∧ Adj es q b := by
  induction n generalizing a with
  | zero =>
    cases h with
    | succ ha h' => cases h'; exact ⟨a, PathN.zero _, ha⟩
  | succ n ih =>
    cases h with
    | succ ha h' =>
      obtain ⟨q, hq1, hq2⟩ := ih h'
      exact ⟨q, PathN.succ ha hq1, hq2⟩

theorem rank_pathN {es : List (Edge α)} (rank : α → Nat) (hr : ∀ e ∈ es, rank e.src < rank e.dst) {n : Nat} {a b : α}
    (h : PathN es n a b) : rank a + n ≤ rank b := by
  induction h with
  | zero => omega
  | succ ha _ ih => obtain ⟨e, he, h1, h2⟩ := ha; have := hr e he; rw [h1, h2] at this; omega

theorem mem_ancStep {es : List (Edge α)} {S : List α} {a : α} :
    a ∈ ancStep es S ↔ a ∈ S ∨ ∃ q ∈ S, Adj es a q := by
  simp only [ancStep, List.mem_append, mem_dedup, List.mem_map, List.mem_filter]
  constructor
  · rintro (h | ⟨e, ⟨he, hc⟩, rfl⟩)
    · exact Or.inl h
    · simp at hc
      exact Or.inr ⟨e.dst, hc.1, e, he, rfl, rfl⟩
  · rintro (h | ⟨q, hq, e, he, h1, h2⟩)
    · exact Or.inl h
    · by_cases ha : a ∈ S
      · exact Or.inl ha
      · refine Or.inr ⟨e, ⟨he, ?_⟩, h1⟩
        subst h1; subst h2
        simp [hq, ha]

theorem mem_anc {es : List (Edge α)} {k : Nat} {S : List α} {a : α} :
    a ∈ anc es k S ↔ ∃ n, n ≤ k ∧ ∃ r ∈ S, PathN es n a r := by
  induction k generalizing S with
  | zero =>
    simp only [anc]
    constructor
    · intro h; exact ⟨0, Nat.le_refl _, a, h, PathN.zero _⟩
    · rintro ⟨n, hn, r, hr, hp⟩
      have : n = 0 := by omega
      subst this
      cases hp; exact hr
  | succ k ih =>
    simp only [anc]
    rw [ih]
    constructor
    · rintro ⟨n, hn, r, hr, hp⟩
      rcases mem_ancStep.mp hr with h | ⟨q, hq, hadj⟩
      · exact ⟨n, by omega, r, h, hp⟩
      · exact ⟨n + 1, by omega, q, hq, hp.snoc hadj⟩
    · rintro ⟨n, hn, r, hr, hp⟩
      by_cases hk : n ≤ k
      · exact ⟨n, hk, r, mem_ancStep.mpr (Or.inl hr), hp⟩
      · have : n = k + 1 := by omega
        subst this
        obtain ⟨q, hq1, hq2⟩ := hp.unsnoc
        exact ⟨k, Nat.le_refl _, q, mem_ancStep.mpr (Or.inr ⟨r, hr, hq2⟩), hq1⟩

theorem subset_anc {es : List (Edge α)} {k : Nat} {S : List α} {a : α} (h : a ∈ S) : a ∈ anc es k S :=
  mem_anc.mpr ⟨0, Nat.zero_le _, a, h, PathN.zero _⟩

/-- With enough rounds the computed set is closed under predecessors. -/
theorem anc_closed {es : List (Edge α)} (rank : α → Nat) (hr : ∀ e ∈ es, rank e.src < rank e.dst)
    {fuel : Nat} {S : List α} (hS : ∀ r ∈ S, rank r < fuel) {a b : α}
    (hb : b ∈ anc es fuel S) (hab : Adj es a b) : a ∈ anc es fuel S := by
  obtain ⟨n, _, r, hrS, hp⟩ := mem_anc.mp hb
  have hp' : PathN es (n + 1) a r := PathN.succ hab hp
  have := rank_pathN rank hr hp'
  have := hS r hrS
  exact mem_anc.mpr ⟨n + 1, by omega, r, hrS, hp'⟩

theorem mem_pruneAnc_nodes {fuel : Nat} {req : List α} {G : PG α} {a : α} :
    a ∈ (pruneAnc fuel req G).nodes ↔ a ∈ G.nodes ∧ a ∈ anc G.edges fuel req := by
  simp [pruneAnc, List.mem_filter]

theorem mem_pruneAnc_edges {fuel : Nat} {req : List α} {G : PG α} {e : Edge α} :
    e ∈ (pruneAnc fuel req G).edges ↔
      e ∈ G.edges ∧ e.src ∈ anc G.edges fuel req ∧ e.dst ∈ anc G.edges fuel req := by
  simp [pruneAnc, List.mem_filter]

theorem pruneAnc_endsIn {fuel : Nat} {req : List α} {G : PG α} (h : EndsIn G) : EndsIn (pruneAnc fuel req G) := by
  intro e he
  obtain ⟨h1, h2, h3⟩ := mem_pruneAnc_edges.mp he
  exact ⟨mem_pruneAnc_nodes.mpr ⟨(h e h1).1, h2⟩, mem_pruneAnc_nodes.mpr ⟨(h e h1).2, h3⟩⟩

/-- **Ancestor pruning keeps every path into a kept node** (and the start of the path is kept). -/
theorem pruneAnc_path {G : PG α} (rank : α → Nat) (hr : ∀ e ∈ G.edges, rank e.src < rank e.dst)
    {fuel : Nat} {req : List α} (hS : ∀ r ∈ req, rank r < fuel) {a b : α}
    (h : Path G.edges a b) (hb : b ∈ anc G.edges fuel req) :
    Path (pruneAnc fuel req G).edges a b ∧ a ∈ anc G.edges fuel req := by
  induction h with
  | single h =>
    obtain ⟨e, he, h1, h2⟩ := h
    have ha := anc_closed rank hr hS hb ⟨e, he, h1, h2⟩
    exact ⟨Path.single ⟨e, mem_pruneAnc_edges.mpr ⟨he, by rw [h1]; exact ha, by rw [h2]; exact hb⟩, h1, h2⟩, ha⟩
  | cons _ h ih =>
    obtain ⟨e, he, h1, h2⟩ := h
    have hq := anc_closed rank hr hS hb ⟨e, he, h1, h2⟩
    obtain ⟨ihp, iha⟩ := ih hq
    exact ⟨Path.cons ihp ⟨e, mem_pruneAnc_edges.mpr ⟨he, by rw [h1]; exact hq, by rw [h2]; exact hb⟩, h1, h2⟩, iha⟩

/-! ### removing one literal -/

theorem mem_predsOf {G : PG α} {l p : α} : p ∈ predsOf G l ↔ Adj G.edges p l := by
  simp only [predsOf, inEdges, mem_dedup, List.mem_map, List.mem_filter, Adj]
  constructor
  · rintro ⟨e, ⟨he, hd⟩, rfl⟩; exact ⟨e, he, rfl, by simpa using hd⟩
  · rintro ⟨e, he, h1, h2⟩; exact ⟨e, ⟨he, by simpa using h2⟩, h1⟩

theorem mem_succsOf {G : PG α} {l s : α} : s ∈ succsOf G l ↔ Adj G.edges l s := by
  simp only [succsOf, outEdges, mem_dedup, List.mem_map, List.mem_filter, Adj]
  constructor
  · rintro ⟨e, ⟨he, hd⟩, rfl⟩; exact ⟨e, he, by simpa using hd, rfl⟩
  · rintro ⟨e, he, h1, h2⟩; exact ⟨e, ⟨he, by simpa using h1⟩, h2⟩

theorem mem_prodEdges {ps ss : List α} {e : Edge α} :
    e ∈ prodEdges ps ss ↔ e.src ∈ ps ∧ e.dst ∈ ss ∧ e.key = Key.dep := by
  simp only [prodEdges, List.mem_flatMap, List.mem_map]
  constructor
  · rintro ⟨p, hp, s, hs, rfl⟩; exact ⟨hp, hs, rfl⟩
  · rintro ⟨h1, h2, h3⟩
    refine ⟨e.src, h1, e.dst, h2, ?_⟩
    cases e; simp_all

/-- What `pruneLit` does: nothing, or the literal goes and every predecessor gets a plain dependency to every
    successor. -/
theorem pruneLit_cases (G : PG α) (l : α) :
    pruneLit G l = G ∨
      ((∀ e ∈ G.edges, e.src = l → e.key.isArg = false) ∧
        (pruneLit G l).nodes = G.nodes.filter (fun a => a != l) ∧
        ∀ e, e ∈ (pruneLit G l).edges ↔
          (e ∈ G.edges ∨ (Adj G.edges e.src l ∧ Adj G.edges l e.dst ∧ e.key = Key.dep)) ∧ e.src ≠ l ∧ e.dst ≠ l) := by
  unfold pruneLit
  split
  · next hall =>
    simp only
    split
    · exact Or.inl rfl
    · right
      refine ⟨?_, rfl, ?_⟩
      · intro e he hs
        have := List.all_eq_true.mp hall e (by simp [outEdges, List.mem_filter, he, hs])
        simpa using this
      · intro e
        simp only [List.mem_filter, List.mem_append, mem_prodEdges, mem_predsOf, mem_succsOf]
        constructor
        · rintro ⟨h | ⟨⟨h1, h2, h3⟩, _⟩, hne⟩
          · exact ⟨Or.inl h, by simpa using hne⟩
          · exact ⟨Or.inr ⟨h1, h2, h3⟩, by simpa using hne⟩
        · rintro ⟨h | ⟨h1, h2, h3⟩, hne⟩
          · exact ⟨Or.inl h, by simpa using hne⟩
          · by_cases hin : e ∈ G.edges
            · exact ⟨Or.inl hin, by simpa using hne⟩
            · exact ⟨Or.inr ⟨⟨h1, h2, h3⟩, by simpa using hin⟩, by simpa using hne⟩
  · exact Or.inl rfl

theorem pruneLit_nodes_sub {G : PG α} {l a : α} (h : a ∈ (pruneLit G l).nodes) : a ∈ G.nodes := by
  rcases pruneLit_cases G l with h0 | ⟨_, hn, _⟩
  · rw [h0] at h; exact h
  · rw [hn] at h; exact (List.mem_filter.mp h).1

theorem pruneLit_nodes_keep {G : PG α} {l a : α} (h : a ∈ G.nodes) (hne : a ≠ l) : a ∈ (pruneLit G l).nodes := by
  rcases pruneLit_cases G l with h0 | ⟨_, hn, _⟩
  · rw [h0]; exact h
  · rw [hn]; exact List.mem_filter.mpr ⟨h, by simpa using hne⟩

/-- **Removing a literal (with the pred × succ edges) preserves reachability among the remaining nodes.** -/
theorem pruneLit_path {G : PG α} {l a b : α} (h : Path G.edges a b)
    (ha : a ∈ (pruneLit G l).nodes) (hb : b ∈ (pruneLit G l).nodes) : Path (pruneLit G l).edges a b := by
  rcases pruneLit_cases G l with h0 | ⟨_, hn, he⟩
  · rw [h0]; exact h
  · rw [hn] at ha hb
    have hal : a ≠ l := by simpa using (List.mem_filter.mp ha).2
    have hbl : b ≠ l := by simpa using (List.mem_filter.mp hb).2
    -- an edge of the new graph between two remaining nodes
    have hadj : ∀ x y, x ≠ l → y ≠ l → (Adj G.edges x y ∨ (Adj G.edges x l ∧ Adj G.edges l y)) →
        Adj (pruneLit G l).edges x y := by
      intro x y hx hy hxy
      rcases hxy with ⟨e, hee, h1, h2⟩ | ⟨h1, h2⟩
      · exact ⟨e, (he e).mpr ⟨Or.inl hee, by rw [h1]; exact hx, by rw [h2]; exact hy⟩, h1, h2⟩
      · exact ⟨⟨x, y, Key.dep⟩, (he _).mpr ⟨Or.inr ⟨h1, h2, rfl⟩, hx, hy⟩, rfl, rfl⟩
    have key : ∀ {b : α}, Path G.edges a b →
        (b ≠ l → Path (pruneLit G l).edges a b) ∧
        (b = l → ∀ y, y ≠ l → Adj G.edges l y → Path (pruneLit G l).edges a y) := by
      intro b hp
      induction hp with
      | single hab =>
        refine ⟨fun hb' => Path.single (hadj _ _ hal hb' (Or.inl hab)), ?_⟩
        intro hb' y hy hly
        subst hb'
        exact Path.single (hadj _ _ hal hy (Or.inr ⟨hab, hly⟩))
      | @cons q b' _ hqb ih =>
        by_cases hq : q = l
        · refine ⟨fun hb' => ih.2 hq _ hb' (hq ▸ hqb), ?_⟩
          intro _ y hy hly
          exact ih.2 hq y hy hly
        · refine ⟨fun hb' => Path.cons (ih.1 hq) (hadj _ _ hq hb' (Or.inl hqb)), ?_⟩
          intro hb' y hy hly
          subst hb'
          exact Path.cons (ih.1 hq) (hadj _ _ hq hy (Or.inr ⟨hqb, hly⟩))
    exact (key h).1 hbl

theorem pruneLit_rank {G : PG α} {l : α} (rank : α → Nat) (hr : ∀ e ∈ G.edges, rank e.src < rank e.dst) :
    ∀ e ∈ (pruneLit G l).edges, rank e.src < rank e.dst := by
  rcases pruneLit_cases G l with h0 | ⟨_, _, he⟩
  · rw [h0]; exact hr
  · intro e hee
    rcases ((he e).mp hee).1 with h | ⟨⟨e1, h1, h1s, h1d⟩, ⟨e2, h2, h2s, h2d⟩, _⟩
    · exact hr e h
    · have a1 := hr e1 h1
      have a2 := hr e2 h2
      rw [h1s, h1d] at a1
      rw [h2s, h2d] at a2
      omega

theorem pruneLit_endsIn {G : PG α} {l : α} (h : EndsIn G) : EndsIn (pruneLit G l) := by
  rcases pruneLit_cases G l with h0 | ⟨_, hn, he⟩
  · rw [h0]; exact h
  · intro e hee
    obtain ⟨hor, hs, hd⟩ := (he e).mp hee
    rw [hn]
    have : e.src ∈ G.nodes ∧ e.dst ∈ G.nodes := by
      rcases hor with h1 | ⟨⟨e1, h1, h1s, _⟩, ⟨e2, h2, _, h2d⟩, _⟩
      · exact h e h1
      · exact ⟨h1s ▸ (h e1 h1).1, h2d ▸ (h e2 h2).2⟩
    exact ⟨List.mem_filter.mpr ⟨this.1, by simpa using hs⟩, List.mem_filter.mpr ⟨this.2, by simpa using hd⟩⟩

/-! ### the fold of `prune_plan` — any order, any candidate list -/

theorem foldLit_nodes_sub {cands : List α} {G : PG α} {a : α} (h : a ∈ (cands.foldl pruneLit G).nodes) :
    a ∈ G.nodes := by
  induction cands generalizing G with
  | nil => exact h
  | cons l ls ih => exact pruneLit_nodes_sub (ih h)

theorem foldLit_nodes_keep {cands : List α} {G : PG α} {a : α} (h : a ∈ G.nodes) (hc : a ∉ cands) :
    a ∈ (cands.foldl pruneLit G).nodes := by
  induction cands generalizing G with
  | nil => exact h
  | cons l ls ih =>
    simp only [List.mem_cons, not_or] at hc
    exact ih (pruneLit_nodes_keep h hc.1) hc.2

theorem foldLit_path {cands : List α} {G : PG α} {a b : α} (h : Path G.edges a b)
    (ha : a ∈ (cands.foldl pruneLit G).nodes) (hb : b ∈ (cands.foldl pruneLit G).nodes) :
    Path (cands.foldl pruneLit G).edges a b := by
  induction cands generalizing G with
  | nil => exact h
  | cons l ls ih =>
    exact ih (pruneLit_path h (foldLit_nodes_sub ha) (foldLit_nodes_sub hb)) ha hb

theorem foldLit_rank {cands : List α} {G : PG α} (rank : α → Nat) (hr : ∀ e ∈ G.edges, rank e.src < rank e.dst) :
    ∀ e ∈ (cands.foldl pruneLit G).edges, rank e.src < rank e.dst := by
  induction cands generalizing G with
  | nil => exact hr
  | cons l ls ih => exact ih (pruneLit_rank rank hr)

theorem foldLit_endsIn {cands : List α} {G : PG α} (h : EndsIn G) : EndsIn (cands.foldl pruneLit G) := by
  induction cands generalizing G with
  | nil => exact h
  | cons l ls ih => exact ih (pruneLit_endsIn h)

theorem foldLit_id {cands : List α} {G : PG α} (h : ∀ c ∈ cands, pruneLit G c = G) : cands.foldl pruneLit G = G := by
  induction cands with
  | nil => rfl
  | cons l ls ih =>
    simp only [List.foldl_cons]
    rw [h l (by simp)]
    exact ih (fun c hc => h c (by simp [hc]))

/-! ### `run_physical`'s removal of the literals without predecessors -/

theorem mem_dropSourceLits_nodes {isLit : α → Bool} {G : PG α} {a : α} :
    a ∈ (dropSourceLits isLit G).nodes ↔
      a ∈ G.nodes ∧ ¬ (isLit a = true ∧ ∀ e ∈ G.edges, e.dst ≠ a) := by
  simp only [dropSourceLits, List.mem_filter, List.contains_eq_mem, Bool.not_eq_eq_eq_not, Bool.not_true,
    decide_eq_false_iff_not, Bool.and_eq_true, List.any_eq_false, beq_iff_eq]
  constructor
  · rintro ⟨h1, h2⟩
    exact ⟨h1, fun ⟨h3, h4⟩ => h2 ⟨h1, h3, fun e he => by simpa using h4 e he⟩⟩
  · rintro ⟨h1, h2⟩
    exact ⟨h1, fun ⟨_, h3, h4⟩ => h2 ⟨h3, fun e he => by simpa using h4 e he⟩⟩

theorem mem_dropSourceLits_edges {isLit : α → Bool} {G : PG α} {e : Edge α} :
    e ∈ (dropSourceLits isLit G).edges ↔
      e ∈ G.edges ∧ ¬ (e.src ∈ G.nodes ∧ isLit e.src = true ∧ ∀ e' ∈ G.edges, e'.dst ≠ e.src) ∧
        ¬ (e.dst ∈ G.nodes ∧ isLit e.dst = true ∧ ∀ e' ∈ G.edges, e'.dst ≠ e.dst) := by
  simp only [dropSourceLits, List.mem_filter, List.contains_eq_mem, Bool.not_eq_eq_eq_not, Bool.not_true,
    decide_eq_false_iff_not, Bool.and_eq_true, List.any_eq_false, beq_iff_eq]

theorem dropSourceLits_endsIn {isLit : α → Bool} {G : PG α} (h : EndsIn G) : EndsIn (dropSourceLits isLit G) := by
  intro e he
  obtain ⟨h1, h2, h3⟩ := mem_dropSourceLits_edges.mp he
  exact ⟨mem_dropSourceLits_nodes.mpr ⟨(h e h1).1, fun hh => h2 ⟨(h e h1).1, hh⟩⟩,
    mem_dropSourceLits_nodes.mpr ⟨(h e h1).2, fun hh => h3 ⟨(h e h1).2, hh⟩⟩⟩

/-- Paths that start at a non-literal survive: a literal without predecessors is never in the interior of a path. -/
theorem dropSourceLits_path {isLit : α → Bool} {G : PG α} {a b : α} (h : Path G.edges a b) (ha : isLit a = false) :
    Path (dropSourceLits isLit G).edges a b := by
  induction h with
  | single h =>
    obtain ⟨e, he, h1, h2⟩ := h
    refine Path.single ⟨e, mem_dropSourceLits_edges.mpr ⟨he, ?_, ?_⟩, h1, h2⟩
    · rintro ⟨_, hl, _⟩; rw [h1, ha] at hl; cases hl
    · rintro ⟨_, _, hn⟩; exact hn e he rfl
  | cons hp h ih =>
    obtain ⟨e, he, h1, h2⟩ := h
    obtain ⟨e0, he0, hd0⟩ := hp.has_in
    refine Path.cons ih ⟨e, mem_dropSourceLits_edges.mpr ⟨he, ?_, ?_⟩, h1, h2⟩
    · rintro ⟨_, _, hn⟩; exact hn e0 he0 (by rw [hd0, h1])
    · rintro ⟨_, _, hn⟩; exact hn e he rfl

/-! ### the all-nodes gather (C14) -/

theorem mem_sinkEdges {k : Nat} {l : List α} {e : Edge (Option α)} (h : e ∈ sinkEdges k l) :
    (∃ a ∈ l, e.src = some a) ∧ e.dst = none ∧ e.key.isArg = true := by
  induction l generalizing k with
  | nil => simp [sinkEdges] at h
  | cons x xs ih =>
    simp only [sinkEdges, List.mem_cons] at h
    rcases h with rfl | h
    · exact ⟨⟨x, by simp, rfl⟩, rfl, rfl⟩
    · obtain ⟨⟨a, ha, hs⟩, h2, h3⟩ := ih h
      exact ⟨⟨a, by simp [ha], hs⟩, h2, h3⟩

theorem sinkEdges_has {k : Nat} {l : List α} {a : α} (h : a ∈ l) :
    ∃ e ∈ sinkEdges k l, e.src = some a ∧ e.dst = none ∧ e.key.isArg = true := by
  induction l generalizing k with
  | nil => cases h
  | cons x xs ih =>
    simp only [List.mem_cons] at h
    rcases h with rfl | h
    · exact ⟨⟨some a, none, Key.pos k⟩, by simp [sinkEdges], rfl, rfl, rfl⟩
    · obtain ⟨e, he, hh⟩ := ih (k := k + 1) h
      exact ⟨e, by simp [sinkEdges, he], hh⟩

/-- the literals of `G⁺`: those of `G`; the gather is a call -/
def optIsLit (isLit : α → Bool) : Option α → Bool
  | some a => isLit a
  | none => false

/-- **Pruning `G⁺` with respect to the all-nodes gather removes nothing**: every node is an ancestor of the gather,
    and every literal now has an argument edge (to the gather), so `_prune_literal_if_trivial` leaves it alone. -/
theorem prunePlan_addSink (G : PG α) (hE : EndsIn G) (isLit : α → Bool) (fuel : Nat) (hf : 1 ≤ fuel) :
    prunePlan (optIsLit isLit) fuel [] (some none) (addSink G) = addSink G := by
  have hall : ∀ x ∈ (addSink G).nodes, x ∈ anc (addSink G).edges fuel [none] := by
    intro x hx
    simp only [addSink, List.mem_append, List.mem_map, List.mem_singleton] at hx
    rcases hx with ⟨a, ha, rfl⟩ | rfl
    · obtain ⟨e, he, h1, h2, _⟩ := sinkEdges_has (k := 0) ha
      refine mem_anc.mpr ⟨1, hf, none, by simp, ?_⟩
      exact PathN.succ ⟨e, by simp [addSink, he], h1, h2⟩ (PathN.zero _)
    · exact subset_anc (by simp)
  have hends : ∀ e ∈ (addSink G).edges, e.src ∈ (addSink G).nodes ∧ e.dst ∈ (addSink G).nodes := by
    intro e he
    simp only [addSink, List.mem_append, List.mem_map] at he
    rcases he with ⟨e0, he0, rfl⟩ | he
    · simp [addSink, (hE e0 he0).1, (hE e0 he0).2]
    · obtain ⟨⟨a, ha, hs⟩, hd, _⟩ := mem_sinkEdges he
      simp [addSink, hs, hd, ha]
  have h1 : pruneAnc fuel ([] ++ (some (none : Option α)).toList) (addSink G) = addSink G := by
    apply PG.ext'
    · simp only [pruneAnc, List.nil_append, Option.toList_some]
      exact List.filter_eq_self.mpr (fun x hx => by simpa using hall x hx)
    · simp only [pruneAnc, List.nil_append, Option.toList_some]
      exact List.filter_eq_self.mpr (fun e he => by
        have := hends e he
        simp [hall _ this.1, hall _ this.2])
  unfold prunePlan
  rw [h1]
  unfold pruneLiterals
  apply foldLit_id
  intro c hc
  obtain ⟨hcn, hcl⟩ := List.mem_filter.mp hc
  simp only [Bool.and_eq_true, bne_iff_ne, ne_eq] at hcl
  cases c with
  | none => exact absurd rfl hcl.2
  | some a =>
    have ha : a ∈ G.nodes := by
      simp only [addSink, List.mem_append, List.mem_map, List.mem_singleton] at hcn
      rcases hcn with ⟨a', ha', h⟩ | h
      · cases h; exact ha'
      · cases h
    obtain ⟨e, he, hs, _, hk⟩ := sinkEdges_has (k := 0) ha
    unfold pruneLit
    have : ((outEdges (addSink G) (some a)).all (fun e => !e.key.isArg)) = false := by
      apply List.all_eq_false.mpr
      refine ⟨e, ?_, by simp [hk]⟩
      simp [outEdges, List.mem_filter, addSink, he, hs]
    simp [this]

end generic

end Uberjob.Phys
