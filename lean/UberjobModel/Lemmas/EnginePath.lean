import UberjobModel.Lemmas.EngineInv
namespace Uberjob.Engine

/-- `Path g p x`: `x` depends on `p` through one or more edges. -/
inductive Path (g : Graph) : Nat → Nat → Prop where
  | single {p x : Nat} : p ∈ g.preds x → Path g p x
  | cons {p q x : Nat} : Path g p q → q ∈ g.preds x → Path g p x

theorem begun_preds_okd {g : Graph} {s : St} (hi : Inv g s) {x : Nat} (hx : x ∈ s.begun) :
    ∀ p ∈ g.preds x, p ∈ s.okd := by
  intro p hp
  exact (hi.relOk p x (hi.ready x (hi.begunCnt x hx) p hp)).1

theorem begun_path_okd {g : Graph} {s : St} (hi : Inv g s) {p x : Nat} (hpx : Path g p x)
    (hx : x ∈ s.begun) : p ∈ s.okd := by
  induction hpx with
  | single h => exact begun_preds_okd hi hx _ h
  | cons _ hq ih => exact ih (hi.okBegun _ (begun_preds_okd hi hx _ hq))

end Uberjob.Engine
