import UberjobModel.Lemmas.EngineInv
namespace Uberjob.Engine

/-- `Path g p x`: `x` depends on `p` through one or more edges. -/
inductive Path (g : Graph) : Nat → Nat → Prop where
  | single {p x : Nat} : p ∈ g.preds x → Path g p x
  | cons {p q x : Nat} : Path g p q → q ∈ g.preds x → Path g p x

theorem begun_preds_okd {g : Graph} {s : St} (hi : Inv g s) {x : Nat} (hx : x ∈ s.begun) :
    ∀ p ∈ g.preds x, p ∈ s.okd := by
  intro p hp
  exact (hi.relOk p x (hi.ready x (hi.begunCnt x hx) p hp)).1

theorem begun_path_okd {g : Graph} {s : St} (hi : Inv g s) {p x : Nat} (hpx : Path g p x)
    (hx : x ∈ s.begun) : p ∈ s.okd := by
  induction hpx with
  | single h => exact begun_preds_okd hi hx _ h
  | cons _ hq ih => exact ih (hi.okBegun _ (begun_preds_okd hi hx _ hq))

/-- Only nodes of the graph are ever begun. -/
theorem begun_in_nodes {g : Graph} (hg : g.WF) {cfg : Cfg} {s : St} (h : Reach g cfg s) :
    ∀ x ∈ s.begun, x ∈ g.nodes := by
  intro x hx
  have hi := inv_reach hg h
  have h1 := hi.begunCnt x hx
  have h2 := hi.place x
  have h3 : 0 < s.enq.count x := by omega
  have h4 : x ∈ s.enq := List.count_pos_iff.mp h3
  clear h1 h2 h3 hx
  induction h with
  | init => simp [init, sources] at h4; exact h4.1
  | step l hr hs ih =>
    have hi' := inv_reach hg hr
    cases l <;> simp only [step?] at hs
    case release w y =>
      split at hs
      · next x' todo hw =>
        split at hs
        · next hyt =>
          cases hs
          simp only at h4
          split at h4
          · simp only [List.mem_append, List.mem_singleton] at h4
            rcases h4 with h4 | h4
            · exact ih hi' h4
            · subst h4
              have := (hi'.relsing x' todo (List.mem_of_getElem? hw)).2.2.1 x hyt
              exact (hg.succsNodes _ _ this.1).2
          · exact ih hi' h4
        · cases hs
      · cases hs
    all_goals
      repeat' split at hs
      all_goals first | (cases hs; exact ih hi' h4) | cases hs

end Uberjob.Engine
