import UberjobModel.Lemmas.EngineTrack
import UberjobModel.Model.Notify
/-!
  From the engine's event log to what a ProgressObserver is told during one phase (stale check or run).
-/
namespace Uberjob.Notify
open Uberjob.Engine Uberjob.Progress

/-- how many of the open calls are reported under key `k` -/
def openUnder (p : Phase) (k : Key) (R : List Nat) : Nat := R.countP (fun x => p.isCall x && (p.key x == k))

theorem countP_erase_add {R : List Nat} {x : Nat} (q : Nat → Bool) (h : x ∈ R) :
    (R.erase x).countP q + (if q x then 1 else 0) = R.countP q := by
  induction R with
  | nil => cases h
  | cons a t ih =>
    by_cases hax : a = x
    · subst hax; simp [List.countP_cons]
    · have hxt : x ∈ t := by
        rcases List.mem_cons.mp h with h1 | h1
        · exact absurd h1.symm hax
        · exact h1
      rw [List.erase_cons_tail (by simpa using hax)]
      have := ih hxt
      simp only [List.countP_cons]; omega

/-- **Counting lemma.**  Reading a well-bracketed log from any point: runnings reported so far + open before
    = finishes reported so far + open now, key by key. -/
theorem counts_fold (p : Phase) (k : Key) :
    ∀ (l : List Engine.Ev) (R0 R : List Nat), l.foldl trackStep (some R0) = some R →
      runs k (l.filterMap p.notif) + openUnder p k R0 = fins k (l.filterMap p.notif) + openUnder p k R := by
  intro l
  induction l with
  | nil => intro R0 R h; simp at h; subst h; simp [runs, fins]
  | cons e t ih =>
    intro R0 R h
    simp only [List.foldl_cons] at h
    cases h1 : trackStep (some R0) e with
    | none => rw [h1, foldl_trackStep_none] at h; cases h
    | some R1 =>
      rw [h1] at h
      have := ih R1 R h
      cases e with
      | begin x =>
        simp only [trackStep] at h1
        split at h1
        · cases h1
        · simp at h1; subst h1
          by_cases hc : p.isCall x = true
          · simp only [List.filterMap_cons, Phase.notif, hc, if_true, runs, fins, List.countP_cons,
              Notif.isRun, Notif.isFin, openUnder, List.countP_append, List.countP_nil] at this ⊢
            simp only [Phase.key] at this ⊢
            simp [hc] at this ⊢
            omega
          · simp only [List.filterMap_cons, Phase.notif, hc, openUnder, List.countP_append, List.countP_cons,
              List.countP_nil] at this ⊢
            simp [hc] at this ⊢
            exact this
      | ok x =>
        simp only [trackStep] at h1
        split at h1
        · next hx =>
          simp at h1; subst h1
          have he := countP_erase_add (fun y => p.isCall y && (p.key y == k)) hx
          by_cases hc : p.isCall x = true
          · simp only [List.filterMap_cons, Phase.notif, hc, if_true, runs, fins, List.countP_cons,
              Notif.isRun, Notif.isFin, openUnder] at this he ⊢
            simp only [Phase.key] at this he ⊢
            simp [hc] at this he ⊢
            omega
          · simp only [List.filterMap_cons, Phase.notif, hc, openUnder] at this he ⊢
            simp [hc] at this he ⊢
            omega
        · cases h1
      | fail x =>
        simp only [trackStep] at h1
        split at h1
        · next hx =>
          simp at h1; subst h1
          have he := countP_erase_add (fun y => p.isCall y && (p.key y == k)) hx
          by_cases hc : p.isCall x = true
          · simp only [List.filterMap_cons, Phase.notif, hc, if_true, runs, fins, List.countP_cons,
              Notif.isRun, Notif.isFin, openUnder] at this he ⊢
            simp only [Phase.key] at this he ⊢
            simp [hc] at this he ⊢
            omega
          · simp only [List.filterMap_cons, Phase.notif, hc, openUnder] at this he ⊢
            simp [hc] at this he ⊢
            omega
        · cases h1

/-- Every prefix of the mapped events is the image of a prefix of the log. -/
theorem filterMap_take {α β} (f : α → Option β) (l : List α) (i : Nat) :
    ∃ j, (l.filterMap f).take i = (l.take j).filterMap f := by
  induction l generalizing i with
  | nil => exact ⟨0, by simp⟩
  | cons a t ih =>
    cases i with
    | zero => exact ⟨0, by simp⟩
    | succ i =>
      cases hf : f a with
      | none =>
        obtain ⟨j, hj⟩ := ih (i + 1)
        exact ⟨j + 1, by simp [List.filterMap_cons, hf, hj]⟩
      | some b =>
        obtain ⟨j, hj⟩ := ih i
        exact ⟨j + 1, by simp [List.filterMap_cons, hf, hj]⟩

/-- In every prefix of a phase's events there are at most as many finishes as runnings, key by key. -/
theorem events_prefix_le (p : Phase) {R : List Nat} (h : track p.log = some R) (k : Key) (i : Nat) :
    fins k (p.events.take i) ≤ runs k (p.events.take i) := by
  obtain ⟨j, hj⟩ := filterMap_take p.notif p.log i
  obtain ⟨R', hR'⟩ := track_prefix h j
  have := counts_fold p k (p.log.take j) [] R' hR'
  unfold Phase.events
  rw [hj]
  simp [openUnder] at this
  omega

/-- When nothing is open at the end, every running has been answered. -/
theorem events_balanced (p : Phase) (h : track p.log = some []) (k : Key) :
    fins k p.events = runs k p.events := by
  have := counts_fold p k p.log [] [] h
  simp [openUnder] at this
  unfold Phase.events; omega

end Uberjob.Notify
