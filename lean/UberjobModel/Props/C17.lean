import UberjobModel.Lemmas.EngineSteps
import UberjobModel.Lemmas.EngineExamples
/-!
# C17 — Ctrl-C during a run stops new work and waits for in-flight calls (engine part)

`interrupt` is enabled whenever the coordinating thread is inside `queue.join()`; it leads to the same
`finally` as a normal return (`stop = True`, then `worker_count` sentinels, then joining the workers).
-/
namespace Uberjob.Engine

/-- After `stop = True` has been executed by the coordinator no call is started any more. -/
theorem C17_no_new {g : Graph} {cfg : Cfg} (hw : 1 ≤ cfg.workers) {s s' : St} {l : Label}
    (h : Reach g cfg s) (hp : s.coord.past = true) (hs : step? g cfg s l = some s') :
    s'.begun = s.begun := by
  rcases begun_step hs with h1 | ⟨x, _, h2⟩
  · exact h1
  · have := (inv2_reach hw h).stopPast hp
    rw [this] at h2; cases h2

/-- … and this stays so for the rest of the run. -/
theorem C17_no_new_ever {g : Graph} {cfg : Cfg} (hw : 1 ≤ cfg.workers) {s s' : St} {ls : List Label}
    (h : Reach g cfg s) (hp : s.coord.past = true) (hs : run? g cfg s ls = some s') :
    s'.begun = s.begun := by
  induction ls generalizing s with
  | nil => simp [run?] at hs; rw [hs]
  | cons l ls ih =>
    simp only [run?] at hs
    split at hs
    · next s1 h1 =>
      rw [ih (Reach.step l h h1) (past_step h1 hp) hs]
      exact C17_no_new hw h hp h1
    · cases hs

/-- A call that is executing is never removed by an interrupt: the only steps that change a `running`
    worker are its own `finOk` / `finFail`. -/
theorem C17_inflight {g : Graph} {cfg : Cfg} {s s' : St} {l : Label} {w x : Nat}
    (hw : s.ws[w]? = some (W.running x)) (hs : step? g cfg s l = some s') :
    s'.ws[w]? = some (W.running x) ∨ l = .finOk w ∨ l = .finFail w := by
  have hlt : w < s.ws.length := (List.getElem?_eq_some_iff.mp hw).1
  by_cases hl : l.worker = some w
  · right
    cases l <;> simp only [Label.worker, Option.some.injEq, reduceCtorEq] at hl
    all_goals subst hl
    all_goals (first | (left; rfl) | (right; rfl) | (simp [step?, hw] at hs))
  · left; rw [ws_step hs hlt hl]; exact hw

example : (run? diamond ⟨2, some 0⟩ (init diamond) diamondIntr).map (fun s => (s.begun, s.skipped, s.coord))
    = some ([0, 1, 2], [3], Coord.returned true) := by decide

end Uberjob.Engine
