import UberjobModel.Lemmas.EngineSteps
import UberjobModel.Lemmas.EngineExamples
import UberjobModel.Props.C07
/-!
# C17 — Ctrl-C during a run stops new work and waits for in-flight calls (engine part)

`interrupt` is enabled whenever the coordinating thread is inside `queue.join()`; it leads to the same
`finally` as a normal return (`stop = True`, then `worker_count` sentinels, then joining the workers).
-/
namespace Uberjob.Engine

/-- After `stop = True` has been executed by the coordinator no call is started any more. -/
theorem C17_no_new {g : Graph} {cfg : Cfg} (hw : 1 ≤ cfg.workers) {s s' : St} {l : Label}
    (h : Reach g cfg s) (hp : s.coord.past = true) (hs : step? g cfg s l = some s') :
    s'.begun = s.begun := by
  rcases begun_step hs with h1 | ⟨x, _, h2⟩
  · exact h1
  · have := (inv2_reach hw h).stopPast hp
    rw [this] at h2; cases h2

/-- … and this stays so for the rest of the run. -/
theorem C17_no_new_ever {g : Graph} {cfg : Cfg} (hw : 1 ≤ cfg.workers) {s s' : St} {ls : List Label}
    (h : Reach g cfg s) (hp : s.coord.past = true) (hs : run? g cfg s ls = some s') :
    s'.begun = s.begun := by
  induction ls generalizing s with
  | nil => simp [run?] at hs; rw [hs]
  | cons l ls ih =>
    simp only [run?] at hs
    split at hs
    · next s1 h1 =>
      rw [ih (Reach.step l h h1) (past_step h1 hp) hs]
      exact C17_no_new hw h hp h1
    · cases hs

/-- A call that is executing is never removed by an interrupt: the only steps that change a `running`
    worker are its own `finOk` / `finFail`. -/
theorem C17_inflight {g : Graph} {cfg : Cfg} {s s' : St} {l : Label} {w x : Nat}
    (hw : s.ws[w]? = some (W.running x)) (hs : step? g cfg s l = some s') :
    s'.ws[w]? = some (W.running x) ∨ l = .finOk w ∨ l = .finFail w := by
  have hlt : w < s.ws.length := (List.getElem?_eq_some_iff.mp hw).1
  by_cases hl : l.worker = some w
  · right
    cases l <;> simp only [Label.worker, Option.some.injEq, reduceCtorEq] at hl
    all_goals subst hl
    all_goals (first | (left; rfl) | (right; rfl) | (simp [step?, hw] at hs))
  · left; rw [ws_step hs hlt hl]; exact hw

example : (run? diamond ⟨2, some 0⟩ (init diamond) diamondIntr).map (fun s => (s.begun, s.skipped, s.coord))
    = some ([0, 1, 2], [3], Coord.returned true) := by decide

open Uberjob.EngineQ in
/-- **Ctrl-C reaches a calling thread that is ASLEEP** in `all_tasks_done.wait()` (`Model/EngineQ.lean`): whenever the caller
    is inside `queue.join()` — awake, asleep or just notified — the interrupt is enabled; it leaves the caller awake in the
    `finally` of the run (`stopping true`), and from there the run can always be driven to its end by threads that are awake
    (`C07_q_can_finish`): workers asleep in `queue.get()` are woken by the sentinels, one `notify()` each. -/
theorem C17_interrupt_wakes {g : Graph} (hg : g.WF) {cfg : Cfg} (hw : 1 ≤ cfg.workers) {s : StQ} (hr : ReachQ g cfg s)
    (hc : s.c.coord = .waiting) :
    ∃ s', stepQ? g cfg s .interrupt = some s' ∧ s'.cs = .awake ∧ s'.c.coord = .stopping true ∧
      ∃ ls sf, runQ? g cfg s' ls = some sf ∧ ∃ i, sf.c.coord = .returned i := by
  have hstep : stepQ? g cfg s .interrupt = some { s with c := { s.c with coord := .stopping true }, cs := .awake } := by
    simp [stepQ?, step?, hc]
  refine ⟨_, hstep, rfl, rfl, ?_⟩
  exact C07_q_can_finish hg hw _ _ (Nat.le_refl _) (ReachQ.step _ hr hstep)

/-- The interrupted flag is carried to the end: a run that was interrupted ends in `returned true` (KeyboardInterrupt
    propagates), never in `returned false`. -/
theorem C17_interrupted_stays {g : Graph} {cfg : Cfg} {s s' : St} {l : Label} (hs : step? g cfg s l = some s') :
    (s.coord = .stopping true ∨ (∃ k, s.coord = .putting k true) ∨ s.coord = .joining true ∨ s.coord = .returned true) →
    (s'.coord = .stopping true ∨ (∃ k, s'.coord = .putting k true) ∨ s'.coord = .joining true ∨ s'.coord = .returned true) := by
  intro hc
  cases l <;> simp only [step?, setW] at hs
  all_goals
    repeat' split at hs
    all_goals first
      | (cases hs; simp_all)
      | cases hs

end Uberjob.Engine
