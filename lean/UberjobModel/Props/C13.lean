import UberjobModel.Lemmas.HeapConc
import UberjobModel.Lemmas.HeapCopy
import UberjobModel.Lemmas.HeapReg
/-!
# C13 — run, dry_run and render never modify the Plan or Registry they are given

On the `Heap` model (`Model/Heap.lean`): objects with identities; a plan object points to its graph object; a graph
object holds the node table and the edge table; node objects carry `scope`; a registry object maps nodes to
RegistryValue objects.  `Plan.copy` allocates a new plan and a new graph object that share node objects and edge
keys with the original.  The run path and the render path are PROGRAMS over the variable `plan` whose `inplace`
flags, the placement of `call.scope = …` and the absence of registry writes are REGENERATED from the source
(`Gen.Purity.flow`, `Gen.Purity.facts`); the theorems below are about `flow` as generated now (`by decide`).

Quantified over: every heap `h` (any objects, any aliasing), every plan object `p` that is a Plan with a graph
(`WFPlan`, what `assert_is_instance(plan, "plan", Plan)` guarantees), every allocation base above the existing
objects, every `Script` (arbitrary lists of mutations for `_gather`, the stale-check pruning, `_add_value_store`,
`prune_plan`, the user's `transform_physical`, `prune_source_literals`; with or without registry) and every cut
point `n` of the program: an exception anywhere (validation, stale check, a call, a store), `dry_run=True`
(the program simply stops before `run_physical`) and normal completion are all prefixes.

Outside the model: what user callbacks (`transform_physical`, stores, call functions, predicates of `render`) do
to objects they can reach by other means; `nxv`/GraphViz.
-/
namespace Uberjob.Heap
open Uberjob.Gen.Purity (facts flow)

/-- The source still has the shape the model assumes (see harness/gen/purity.py for the list). -/
theorem C13_facts : facts.faithful = true := by decide

private theorem f_first : flow.runFirstInplace = false := by decide
private theorem f_render : (!flow.renderCopies) = false := by decide
private theorem f_scope : flow.scopeFreshOnly = true := by decide
private theorem f_reg : flow.registryWrites = false := by decide

/-- **Frame.**  Whatever `run` (any options, any outcome) or `render` does, every object that existed before the
    call — every address below the allocation base, in particular everything reachable from the caller's plan and
    registry — holds exactly the same value afterwards, field by field. -/
theorem C13_frame (w : Who) (h : Heap) (p : Nat) (hp : WFPlan h p) (s : Script) (n : Nat) :
    (∀ o, o < w.base → (runN w h p (runProg flow s) n).2 o = h o) ∧
    (∀ o, o < w.base → (runN w h p (renderProg flow s) n).2 o = h o) := by
  constructor
  · simp only [runProg, f_first]
    exact (frame_prog hp (runRest_tame f_scope f_reg s) n).1
  · simp only [renderProg, f_render]
    exact (frame_prog hp (renderRest_tame f_scope f_reg s) n).1

/-- the caller's registry and everything it maps to exist before the call -/
structure BelowReg (h : Heap) (b r : Nat) : Prop where
  reg : r < b
  ent : ∀ m, h r = some (.registry m) → ∀ ne ∈ m, ne.2 < b

/-- … hence the deep structural snapshot of the caller's plan (its `_scope`, the node table with every node object's
    kind and scope, the edge table with keys and attribute dicts, the graph attributes) and of the caller's registry
    (mapping, and store / is_source / stack_frame of every RegistryValue) is the same before and after. -/
theorem C13_frame_snapshot (w : Who) (h : Heap) (p r : Nat) (hp : WFPlan h p) (hb : Below h w.base p)
    (hr : BelowReg h w.base r) (s : Script) (n : Nat) :
    snapPlan (runN w h p (runProg flow s) n).2 p = snapPlan h p ∧
    snapReg (runN w h p (runProg flow s) n).2 r = snapReg h r ∧
    snapPlan (runN w h p (renderProg flow s) n).2 p = snapPlan h p ∧
    snapReg (runN w h p (renderProg flow s) n).2 r = snapReg h r := by
  obtain ⟨h1, h2⟩ := C13_frame w h p hp s n
  refine ⟨snapPlan_congr h1 hb, ?_, snapPlan_congr h2 hb, ?_⟩
  · exact snapReg_same (h1 r hr.reg) (fun m hm ne hne => h1 _ (hr.ent m hm ne hne))
  · exact snapReg_same (h2 r hr.reg) (fun m hm ne hne => h2 _ (hr.ent m hm ne hne))

/-- **Every write targets an object allocated after the initial copy.**  `log` records the address of every
    existing object a step overwrites (graph tables, `plan._scope`, `call.scope = …`): each is the k-th object THIS
    call allocated, for some k — never an object of the caller (`w.base ≤ a`). -/
theorem C13_writes_fresh (w : Who) (h : Heap) (p : Nat) (hp : WFPlan h p) (s : Script) (n : Nat) :
    (∀ a ∈ (runN w h p (runProg flow s) n).1.log,
        (∃ k, k < (runN w h p (runProg flow s) n).1.nxt ∧ a = w.addr k) ∧ w.base ≤ a) ∧
    (∀ a ∈ (runN w h p (renderProg flow s) n).1.log,
        (∃ k, k < (runN w h p (renderProg flow s) n).1.nxt ∧ a = w.addr k) ∧ w.base ≤ a) := by
  constructor
  · simp only [runProg, f_first]
    intro a ha
    have := (frame_prog (w := w) hp (runRest_tame f_scope f_reg s) n).2 a ha
    exact ⟨this, this.base_le⟩
  · simp only [renderProg, f_render]
    intro a ha
    have := (frame_prog (w := w) hp (renderRest_tame f_scope f_reg s) n).2 a ha
    exact ⟨this, this.base_le⟩

/-- **`Plan.copy` is independent of its original, both ways.**  (1) any mutations through the copy (new calls and
    literals, edges added/removed, nodes removed, `_scope`, scope of nodes it created) leave the original's snapshot
    unchanged; (2) any such mutations through the ORIGINAL after the copy was taken leave the copy's snapshot
    unchanged; (3) right after copying, the copy has the original's node table (same node objects), edge table
    (same keys) and graph attributes. -/
theorem C13_copy_independent (w : Who) (h : Heap) (p : Nat) (hp : WFPlan h p) (ht : Typed h w.base p)
    (ms : List Mut) (hm : ∀ m ∈ ms, m.tame = true) :
    snapPlan (exec w (step w (T.init p, h) (.getMutable false)) (ms.map (.mut false ·))).2 p = snapPlan h p ∧
    snapPlan (exec w (step w (T.init p, h) (.forkTmp false)) (ms.map (.mut false ·))).2 (w.addr 1) =
      snapPlan (step w (T.init p, h) (.forkTmp false)).2 (w.addr 1) ∧
    (step w (T.init p, h) (.forkTmp false)).1.tmp = some (w.addr 1) ∧
    (snapPlan (step w (T.init p, h) (.forkTmp false)).2 (w.addr 1)).map (fun x => x.2) =
      (snapPlan h p).map (fun x => x.2) := by
  obtain ⟨c1, c2, c3⟩ := copy_indep_original hp ht ms hm
  refine ⟨?_, c2, c1, c3⟩
  have ht' : ∀ i ∈ ms.map (Instr.mut false ·), i.tame = true := by
    intro i hi
    obtain ⟨m, hmm, rfl⟩ := List.mem_map.mp hi
    exact hm m hmm
  have := (frame_prog (w := w) hp ht' (ms.length + 1)).1
  have e : runN w h p (.getMutable false :: ms.map (Instr.mut false ·)) (ms.length + 1) =
      exec w (step w (T.init p, h) (.getMutable false)) (ms.map (.mut false ·)) := by
    have tk : List.take ms.length (ms.map (Instr.mut false ·)) = ms.map (Instr.mut false ·) :=
      List.take_of_length_le (by simp)
    simp [runN, exec, List.take_succ_cons, tk]
  rw [e] at this
  exact snapPlan_congr this ht.below

/-- **`Registry.copy` is independent of its original, both ways**, and lists the same nodes with RegistryValue
    objects of equal contents (store, is_source, stack_frame) but different identity. -/
theorem C13_registry_copy_independent (w : Who) (t : T) (h : Heap) (r : Nat) (m : List (Nat × Nat))
    (hw : WFReg h w.base r m) (rms : List RMut) :
    snapReg (execR w (regCopy w t h r).2.2 ((regCopy w t h r).1, (regCopy w t h r).2.1) rms).2 r = snapReg h r ∧
    snapReg (execR w r ((regCopy w t h r).1, (regCopy w t h r).2.1) rms).2 (regCopy w t h r).2.2 =
      snapReg (regCopy w t h r).2.1 (regCopy w t h r).2.2 ∧
    (snapReg (regCopy w t h r).2.1 (regCopy w t h r).2.2).map (List.map (fun x => (x.1, x.2.2))) =
      (snapReg h r).map (List.map (fun x => (x.1, x.2.2))) ∧
    w.base ≤ (regCopy w t h r).2.2 :=
  ⟨regcopy_indep_copy hw rms, regcopy_indep_original hw rms, regCopy_contents hw.reg,
   by rw [(regCopy_eq (w := w) (t := t) hw.reg).2.1]; exact hb0 w _⟩

/-- **Two runs of one plan, interleaved arbitrarily.**  Thread 1 (`true` in the schedule `σ`) and thread 2 execute
    `run` on the same plan `p` with arbitrary scripts and are cut at arbitrary points.  Then (a) every object that
    existed before is unchanged, and (b) for each thread there is a number `n` of instructions (the ones it got to
    execute) such that its registers, its remaining program and every object outside the OTHER thread's allocation
    class are exactly as in its solo run of `n` instructions — neither run can observe the other. -/
theorem C13_concurrent (b p : Nat) (h0 : Heap) (hb : Base h0 b p) (s1 s2 : Script) (σ : List Bool) :
    let r := runConc ⟨b, 0⟩ ⟨b, 1⟩ σ ⟨T.init p, runProg flow s1⟩ ⟨T.init p, runProg flow s2⟩ h0
    (∀ x, x < b → r.2.2 x = h0 x) ∧
    (∃ n, r.1.t = (runN ⟨b, 0⟩ h0 p (runProg flow s1) n).1 ∧ r.1.rest = (runProg flow s1).drop n ∧
        n ≤ (runProg flow s1).length ∧ ∀ x, ¬ Cls ⟨b, 1⟩ x → r.2.2 x = (runN ⟨b, 0⟩ h0 p (runProg flow s1) n).2 x) ∧
    (∃ n, r.2.1.t = (runN ⟨b, 1⟩ h0 p (runProg flow s2) n).1 ∧ r.2.1.rest = (runProg flow s2).drop n ∧
        n ≤ (runProg flow s2).length ∧ ∀ x, ¬ Cls ⟨b, 0⟩ x → r.2.2 x = (runN ⟨b, 1⟩ h0 p (runProg flow s2) n).2 x) := by
  intro r
  have hp1 : Ph ⟨b, 0⟩ p ⟨T.init p, runProg flow s1⟩ h0 :=
    .inl ⟨rfl, runRest flow s1, by simp [runProg, f_first], runRest_tame f_scope f_reg s1⟩
  have hp2 : Ph ⟨b, 1⟩ p ⟨T.init p, runProg flow s2⟩ h0 :=
    .inl ⟨rfl, runRest flow s2, by simp [runProg, f_first], runRest_tame f_scope f_reg s2⟩
  have hs1 : Solo ⟨b, 0⟩ ⟨b, 1⟩ h0 p (runProg flow s1) ⟨T.init p, runProg flow s1⟩ h0 :=
    ⟨0, by simp [runN, exec], by simp, Nat.zero_le _, fun x _ => by simp [runN, exec]⟩
  have hs2 : Solo ⟨b, 1⟩ ⟨b, 0⟩ h0 p (runProg flow s2) ⟨T.init p, runProg flow s2⟩ h0 :=
    ⟨0, by simp [runN, exec], by simp, Nat.zero_le _, fun x _ => by simp [runN, exec]⟩
  obtain ⟨hf, ha, hb'⟩ := conc_inv hb σ _ _ h0 (fun _ _ => rfl) hp1 hp2 hs1 hs2
  exact ⟨hf, ha.ex, hb'.ex⟩

/-! ### Non-vacuity

A concrete heap: node objects 0 and 1, the graph object 2 (rows 0, 1; one edge 0→1 with key 7), the caller's plan 3
(`_scope = (5,)`), a RegistryValue 4, the caller's registry 5 (node 1 ↦ 4).  Allocation base 6. -/
def exHeap : Heap := fun a =>
  match a with
  | 0 => some (.node 0 [])
  | 1 => some (.node 0 [5])
  | 2 => some (.graph [(0, []), (1, [])] [⟨0, 1, 7, []⟩] [])
  | 3 => some (.plan 2 [5])
  | 4 => some (.entry 100 false 200)
  | 5 => some (.registry [(1, 4)])
  | _ => none

def exScript : Script :=
  { gather := [.newNode 0, .addEdge 1 7 0 []], useRegistry := true
    stale := [.removeNode 0]
    stores := [.setPlanScope [5], .newNode 1, .newNode 0, .scopeOf 1 0 [5, 9], .addEdge 0 9 3 [], .removeEdge 0 1 7]
    prune := [.removeNode 1], transformCopies := false, transform := [], phys := [.removeNode 9]
    wild := [(3, .plan 0 [])], render := [.removeNode 0, .newNode 2] }

example : WFPlan exHeap 3 := ⟨2, [5], rfl, _, _, _, rfl⟩
/-- the run really writes (11 writes, all to objects it allocated), and works on its own plan object (address 8) -/
example : (runN ⟨6, 0⟩ exHeap 3 (runProg flow exScript) 100).1.log = [6, 6, 12, 8, 6, 6, 18, 6, 6, 6, 6] := by decide
example : (runN ⟨6, 0⟩ exHeap 3 (runProg flow exScript) 100).1.cur = 8 := by decide
example : (runN ⟨6, 0⟩ exHeap 3 (runProg flow exScript) 100).2 6 =
    some (.graph [(0, []), (10, []), (7, []), (16, []), (18, [])] [] []) := by decide
example : ∀ a, a < 6 → (runN ⟨6, 0⟩ exHeap 3 (runProg flow exScript) 100).2 a = exHeap a := by decide
/-- `call.scope = …` landed on the node the run created last (address 18), not on the caller's node 1 -/
example : (runN ⟨6, 0⟩ exHeap 3 (runProg flow exScript) 100).2 18 = some (.node 0 [5, 9]) := by decide
/-- the stale check pruned ITS OWN copy (graph 12 lost node 0), not the run's working graph 6 -/
example : (runN ⟨6, 0⟩ exHeap 3 (runProg flow exScript) 100).1.tmp = some 14 := by decide
/-- if `run` started with `inplace=True` the caller's graph object would be overwritten … -/
example : (runN ⟨6, 0⟩ exHeap 3 (runProg { flow with runFirstInplace := true } exScript) 3).2 2 ≠ exHeap 2 := by decide
/-- … if `x.scope = …` could hit an arbitrary node, the caller's node 1 would change … -/
example : (runN ⟨6, 0⟩ exHeap 3 (runProg { flow with scopeFreshOnly := false } exScript) 100).2 1 ≠ exHeap 1 := by
  decide
/-- … and if `render` did not copy, it would remove nodes from the caller's graph. -/
example : (runN ⟨6, 0⟩ exHeap 3 (renderProg { flow with renderCopies := false } exScript) 2).2 2 ≠ exHeap 2 := by decide
example : (runN ⟨6, 0⟩ exHeap 3 (renderProg flow exScript) 100).2 2 = exHeap 2 := by decide
/-- `Registry.copy`: new registry at 8 mapping node 1 to a NEW RegistryValue (6) with the same contents -/
example : (regCopy ⟨6, 0⟩ (T.init 3) exHeap 5).2.1 8 = some (.registry [(1, 6)]) := by decide
example : (regCopy ⟨6, 0⟩ (T.init 3) exHeap 5).2.1 6 = exHeap 4 := by decide

end Uberjob.Heap
