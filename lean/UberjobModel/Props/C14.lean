import UberjobModel.Model.DryRun
import UberjobModel.Lemmas.PhysBuild
/-!
# C14 — a dry run touches nothing and returns a faithful, self-contained physical plan

* `Gen.DryRun.runProg` is the statement list of `uberjob.run` regenerated from _run.py on every check;
  `Gen.DryRun.calledOnStore` the ValueStore methods that caching.py / pruning.py / _run.py can CALL
  (`read` / `write` occur there only as function objects handed to `plan._call`).
* `physFinal P` (Model/Phys.lean) is the physical plan a dry run returns; it is compared with the real
  `run(dry_run=True)` result node by node and edge by edge on every check.
-/
namespace Uberjob.DryRun
open Uberjob.Gen.DryRun Uberjob.Phys

/-- **A dry run only asks stores for their modified times.**  For every set of visited registered nodes and whatever
    `run_physical` would do, the store-level events of `run(..., dry_run=True)` are `get_modified_time` queries. -/
theorem C14_quiet (visited : List Nat) (exec : List Ev) :
    ∀ e ∈ events true visited exec runProg, ∃ i, e = Ev.mtime i := by
  intro e he
  simp only [runProg, events, calledOnStore, List.map_cons, List.map_nil, evOf, if_true, List.append_nil,
    List.mem_flatMap, List.mem_singleton] at he
  obtain ⟨i, _, rfl⟩ := he
  exact ⟨i, rfl⟩

/-- …whereas a real run continues with `run_physical` (the event model is not vacuous). -/
theorem C14_real_run_executes (visited : List Nat) (exec : List Ev) :
    events false visited exec runProg = visited.map Ev.mtime ++ exec := by
  have h : ∀ l : List Nat, l.flatMap (fun i => [Ev.mtime i]) = l.map Ev.mtime := by
    intro l; induction l <;> simp_all [List.flatMap_cons]
  simp [runProg, events, calledOnStore, evOf, h]

/-- **The dry-run result IS the plan the real run executes.**  For arbitrary transformations (the user's
    `transform_physical` included) and an arbitrary initial state: `run(dry_run=True)` returns exactly the
    `(plan, redirected_output_node)` that `run(dry_run=False)` passes to `run_physical` — all transformations precede
    the single `if dry_run: return`, which immediately precedes `return run_physical(…)`. -/
theorem C14_same_plan {Pl Nd : Type} (ops : Ops Pl Nd) (st : RunSt Pl Nd) :
    ∃ pl o, interp ops true runProg st = .dry pl o ∧ interp ops false runProg st = .ran pl o :=
  ⟨_, _, rfl, rfl⟩

/-- The returned plan is the result of: copy, gather the output, value stores (or plain pruning), `transform_physical`. -/
theorem C14_result {Pl Nd : Type} (ops : Ops Pl Nd) (st : RunSt Pl Nd) :
    interp ops true runProg st =
      (let p1 := ops.copy st.plan
       let g := ops.gather p1
       let s := ops.stores g.1 g.2
       let t := ops.transform s.1 s.2
       .dry (ops.totals t.1) t.2) := rfl

/-- **The returned plan is self-contained.**  `G` any graph all of whose edges end in its nodes (in particular every
    physical plan `physFinal P`, next theorem), `G⁺ = addSink G` = `G` plus one call taking every node of `G` as a
    positional argument (what `plan._gather(list(P.graph.nodes()))` adds).  Running `G⁺` with NO registry means
    `prune_plan(G⁺, required_nodes=[], output_node=gather)`: it removes nothing — every node is an ancestor of the gather,
    and no literal is prunable because each now has an argument edge.  So `run(P, output=list(P.graph.nodes()))`
    executes exactly the nodes and edges of `P` (plus the gather, which only collects the results). -/
theorem C14_selfcontained {α : Type} [DecidableEq α] (G : PG α) (hE : EndsIn G) (isLit : α → Bool)
    (fuel : Nat) (hf : 1 ≤ fuel) :
    prunePlan (optIsLit isLit) fuel [] (some none) (addSink G) = addSink G :=
  prunePlan_addSink G hE isLit fuel hf

/-- …instantiated with the plan a dry run returns, for every well-formed input. -/
theorem C14_selfcontained_phys {P : Input} (hP : P.WF) (fuel : Nat) (hf : 1 ≤ fuel) :
    prunePlan (optIsLit (PN.isLit P)) fuel [] (some none) (addSink (physFinal P)) = addSink (physFinal P) :=
  prunePlan_addSink _ (final_endsIn hP) _ fuel hf

/-- `G⁺` restricted to the nodes of `G` is `G`: same nodes in the same order, and the edges between them are those
    of `G`. -/
theorem C14_restrict {α : Type} [DecidableEq α] (G : PG α) :
    (addSink G).nodes.filterMap id = G.nodes ∧
    ∀ e : Edge α, (⟨some e.src, some e.dst, e.key⟩ : Edge (Option α)) ∈ (addSink G).edges ↔ e ∈ G.edges := by
  constructor
  · simp [addSink, List.filterMap_append, List.filterMap_map]
  · intro e
    simp only [addSink, List.mem_append, List.mem_map]
    constructor
    · rintro (⟨e0, he0, h⟩ | h)
      · have : e0 = e := by cases e0; cases e; simp_all
        exact this ▸ he0
      · have := (mem_sinkEdges h).2.1
        cases this
    · intro h; exact Or.inl ⟨e, h, rfl⟩

/-- The shape facts about `_add_value_store` hold in the current source: the store literal embeds the store object,
    `read` takes that literal, `write` takes it and the node, the Barrier is a literal, `get_modified_time` is only
    called through `retry(...)()` — nothing in the physical plan refers back to the registry. -/
theorem C14_source_shape : facts.ok = true ∧ calledOnStore = [.getModifiedTime] ∧ referencedAsFn = [.read, .write] := by
  decide

/-! ### Non-vacuity -/

/-- a literal with only plain-dependency out-edges, two predecessors and one successor: prunable in `G`… -/
def exG : PG Nat := ⟨[0, 1, 2, 3], [⟨0, 2, .dep⟩, ⟨1, 2, .dep⟩, ⟨2, 3, .dep⟩]⟩
example : (pruneLit exG 2).nodes = [0, 1, 3] := by decide
/-- …but not in `G⁺` -/
example : pruneLit (addSink exG) (some 2) = addSink exG := by decide
example : EndsIn exG := by intro e he; revert e; decide
example : (addSink exG).nodes = [some 0, some 1, some 2, some 3, none] ∧
    (⟨some 2, none, .pos 2⟩ : Edge (Option Nat)) ∈ (addSink exG).edges := by decide
example : interp (Pl := Nat) (Nd := Nat) ⟨(· + 1), fun p => (p * 2, some p), fun p o => (p + 10, o.map (· + 1)),
    fun p o => (p, o), id⟩ true runProg ⟨1, none, none⟩ = .dry 14 (some 3) := by decide

end Uberjob.DryRun
