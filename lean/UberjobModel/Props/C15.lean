import UberjobModel.Lemmas.NotifExtras
import UberjobModel.Lemmas.EngineComplete
import UberjobModel.Lemmas.EngineExamples
import UberjobModel.Gen.Observer
/-!
# C15 — progress observers receive an exact, well-formed account of every run

A run talks to its observer in PHASES (the stale check, then the run proper; only the second without a registry;
only the first when the stale check fails).  Within a phase `_update_*_totals` announces one total per scope, then
the engine executes the phase's graph and every `Call` node reports `running` on entry and `completed` / `failed`
(for an `Exception`) on exit.  `Phase.ofEngine` reads these reports off the event log of ANY reachable, returned
state of the engine model — any graph, worker count, `max_errors`, failure pattern, schedule, interrupt.
`Legal`, `PosTotals`, `WithinTotals`, `TotalsFirst` are the predicates of Model/Progress.lean shared with C20.
-/
namespace Uberjob.Notify
open Uberjob.Engine Uberjob.Progress

/-- The phase an engine run gives rise to. -/
def Phase.ofEngine (sec : Nat) (g : Graph) (isCall : Nat → Bool) (sc : Nat → Nat) (s : St) : Phase :=
  { sec := sec, nodes := g.nodes, isCall := isCall, sc := sc, log := s.log }

theorem sum_zero_of_all_zero : ∀ l : List Nat, (∀ n ∈ l, n = 0) → l.sum = 0 := by
  intro l
  induction l with
  | nil => intro _; rfl
  | cons a t ih =>
    intro h
    have h1 := h a (by simp)
    have h2 := ih (fun n hn => h n (List.mem_cons_of_mem _ hn))
    simp [h1, h2]

theorem begins_eq_begun {g : Graph} {cfg : Cfg} {s : St} (h : Reach g cfg s) : beginsOf s.log = s.begun := by
  induction h with
  | init => simp [init, beginsOf]
  | step l _ hs ih =>
    cases l <;> simp only [step?] at hs
    case check w =>
      split at hs
      · cases hs; exact ih
      · split at hs
        · cases hs; exact ih
        · cases hs; simp only [setW, beginsOf, List.filterMap_append] at ih ⊢; simp [ih]
      · cases hs
    case finOk w =>
      split at hs
      · cases hs; simp only [setW, beginsOf, List.filterMap_append] at ih ⊢; simp [ih]
      · cases hs
    case finFail w =>
      split at hs
      · cases hs; simp only [setW, beginsOf, List.filterMap_append] at ih ⊢; simp [ih]
      · cases hs
    all_goals
      repeat' split at hs
      all_goals first | (cases hs; exact ih) | cases hs

/-- Every returned engine run yields a phase with a well-bracketed, duplicate-free log over the graph's nodes. -/
theorem phase_ok {g : Graph} (hg : g.WF) {cfg : Cfg} (hw : 1 ≤ cfg.workers) {s : St} (h : Reach g cfg s)
    {i : Bool} (hc : s.coord = .returned i) (sec : Nat) (isCall : Nat → Bool) (sc : Nat → Nat) :
    (Phase.ofEngine sec g isCall sc s).Ok := by
  have hb := begins_eq_begun h
  have hi := inv_reach hg h
  refine ⟨?_, ?_, ?_, hg.nodesNodup⟩
  · simp only [Phase.ofEngine]
    rw [track_reach hg h, openCalls_nil_at_return hg hw h hc]
  · intro x hx
    simp only [Phase.ofEngine] at hx ⊢
    have hxb : x ∈ s.begun := by
      rw [← hb]; exact List.mem_filterMap.mpr ⟨_, hx, rfl⟩
    -- only graph nodes are ever begun
    have h1 := hi.begunCnt x hxb
    have h2 := hi.place x
    have h4 : x ∈ s.enq := List.count_pos_iff.mp (by omega)
    clear h1 h2 hxb hx hb hc
    induction h with
    | init => simp [init, sources] at h4; exact h4.1
    | step l hr hs ih =>
      have hi' := inv_reach hg hr
      cases l <;> simp only [step?] at hs
      case release w y =>
        split at hs
        · next x' todo hw' =>
          split at hs
          · next hyt =>
            cases hs
            simp only at h4
            split at h4
            · simp only [List.mem_append, List.mem_singleton] at h4
              rcases h4 with h4 | h4
              · exact ih hi' h4
              · subst h4
                have := (hi'.relsing x' todo (List.mem_of_getElem? hw')).2.2.1 x hyt
                exact (hg.succsNodes _ _ this.1).2
            · exact ih hi' h4
          · cases hs
        · cases hs
      all_goals
        repeat' split at hs
        all_goals first | (cases hs; exact ih hi' h4) | cases hs
  · simp only [Phase.ofEngine]
    show (beginsOf s.log).Nodup
    rw [hb]; exact hi.begunNodup

/-- **The account is well formed**: entered first, exited last and once (also when the run fails); the total of a
    (section, scope) precedes its first `running`; every `running` is answered by exactly one later `completed` or
    `failed` of the same key; nothing is running at exit. -/
theorem C15_legal {ps : List Phase} (h : ∀ p ∈ ps, p.Ok) : Legal (runNotifs ps) :=
  runNotifs_legal h

/-- … and announced totals are positive, runnings never exceed the announced total, and no total of a section
    arrives after activity in that section (what the bundled displays of C20 additionally rely on). -/
theorem C15_extras {ps : List Phase} (h : ∀ p ∈ ps, p.Ok) (hsec : (ps.map (·.sec)).Nodup) :
    PosTotals (body (runNotifs ps)) ∧ WithinTotals (body (runNotifs ps)) ∧ TotalsFirst (body (runNotifs ps)) := by
  rw [body_runNotifs]
  exact ⟨blocks_posTotals ps, blocks_withinTotals h, blocks_totalsFirst hsec⟩

/-- The two engine runs of `uberjob.run` with a registry (stale check = section 0, run = section 1), whatever
    happened inside them. -/
theorem C15_run {g0 g1 : Graph} (hg0 : g0.WF) (hg1 : g1.WF) {cfg0 cfg1 : Cfg} (hw0 : 1 ≤ cfg0.workers)
    (hw1 : 1 ≤ cfg1.workers) {s0 s1 : St} (h0 : Reach g0 cfg0 s0) (h1 : Reach g1 cfg1 s1) {i0 i1 : Bool}
    (hc0 : s0.coord = .returned i0) (hc1 : s1.coord = .returned i1) (isCall0 isCall1 : Nat → Bool) (sc0 sc1 : Nat → Nat) :
    let ps := [Phase.ofEngine 0 g0 isCall0 sc0 s0, Phase.ofEngine 1 g1 isCall1 sc1 s1]
    Legal (runNotifs ps) ∧ PosTotals (body (runNotifs ps)) ∧ WithinTotals (body (runNotifs ps)) ∧
      TotalsFirst (body (runNotifs ps)) := by
  intro ps
  have hok : ∀ p ∈ ps, p.Ok := by
    intro p hp
    simp only [ps, List.mem_cons, List.mem_singleton, List.not_mem_nil, or_false] at hp
    rcases hp with rfl | rfl
    · exact phase_ok hg0 hw0 h0 hc0 0 isCall0 sc0
    · exact phase_ok hg1 hw1 h1 hc1 1 isCall1 sc1
  exact ⟨C15_legal hok, C15_extras hok (by simp [ps, Phase.ofEngine])⟩

/-- **Totals are exact.**  After an engine run that returned normally (no failure, no interrupt) on an acyclic
    graph, for every scope: announced total = number of calls with that scope = number of `completed`, and nothing
    `failed`. -/
theorem C15_totals {g : Graph} (hg : g.WF) {cfg : Cfg} (hw : 1 ≤ cfg.workers) {s : St} (h : Reach g cfg s)
    {rank : Nat → Nat} (hrank : ∀ x y, y ∈ g.succs x → rank x < rank y)
    (hc : s.coord = .returned false) (hf : s.failed = []) (sec : Nat) (isCall : Nat → Bool) (sc : Nat → Nat) (k : Key) :
    let p := Phase.ofEngine sec g isCall sc s
    totalSum k p.block = (p.calls.filter (fun x => p.key x == k)).length ∧
    runs k p.block = totalSum k p.block ∧ fins k p.block = totalSum k p.block := by
  intro p
  have hok := phase_ok hg hw h hc sec isCall sc
  have hi := inv_reach hg h
  have hb := begins_eq_begun h
  -- every node of the graph has begun (C04_exact)
  have h4 := inv4_reach hg hw h
  have hts : totalSum k p.block = (p.calls.filter (fun x => p.key x == k)).length := by
    unfold Phase.block
    rw [totalSum_append, totalSum_totals]
    have : totalSum k p.events = 0 := by
      unfold totalSum Phase.events
      apply sum_zero_of_all_zero
      intro n hn
      obtain ⟨x, hx, rfl⟩ := List.mem_map.mp hn
      obtain ⟨e, _, he⟩ := List.mem_filterMap.mp hx
      cases e <;> simp only [Phase.notif] at he <;> split at he <;> simp at he <;> subst he <;> rfl
    omega
  have hbal := block_bal p hok k
  have hruns : runs k p.block = (p.calls.filter (fun x => p.key x == k)).length := by
    unfold Phase.block
    rw [runs_append, (totals_no_act p k).1, Nat.zero_add, runs_events_eq]
    -- begun = all nodes, as sets; both sides are duplicate-free
    have hall : ∀ x, x ∈ s.begun ↔ x ∈ g.nodes := by
      have hskip : s.skipped = [] := by
        cases hs : s.skipped with
        | nil => rfl
        | cons a t =>
          rcases h4.skipWhy (by rw [hs]; simp) with ⟨k', _, hlt⟩ | h1
          · have := (inv2_reach hw h).errsLen; rw [hf] at this; simp at this; omega
          · rw [hc] at h1; cases h1
      obtain ⟨q1, q2, _⟩ := h4.quiet (by rw [hc]; rfl)
      have enq_okd : ∀ y, y ∈ s.enq → y ∈ s.okd ∧ y ∈ s.retired := by
        intro y hy
        have hpl := hi.place y
        have hone := hi.once y
        have hpos := List.count_pos_iff.mpr hy
        have hq0 : s.queue.count (Item.node y) = 0 := List.count_eq_zero.mpr (q1 y)
        have hw0 : s.ws.countP (holds y) = 0 := by
          apply List.countP_eq_zero.mpr
          intro v hv; simp [holds, q2 v hv]
        simp only [cnt, qCount, wCount, rCount] at hpl
        have hret : y ∈ s.retired := List.count_pos_iff.mp (by omega)
        rcases h4.retWhy y hret with h1 | h1 | h1
        · exact ⟨h1, hret⟩
        · rw [hf] at h1; cases h1
        · rw [hskip] at h1; cases h1
      have key : ∀ n y, rank y ≤ n → y ∈ g.nodes → y ∈ s.enq := by
        intro n
        induction n with
        | zero =>
          intro y hy hyn
          have hp : g.preds y = [] := by
            cases hpy : g.preds y with
            | nil => rfl
            | cons p t => have := hrank p y ((hg.adj p y).mpr (by rw [hpy]; simp)); omega
          apply h4.srcEnq
          simp [sources, hyn, Graph.predCount, hp, Uberjob.Gen.Engine.classify_source_iff]
        | succ n ih =>
          intro y hy hyn
          cases hpy : g.preds y with
          | nil =>
            apply h4.srcEnq
            simp [sources, hyn, Graph.predCount, hpy, Uberjob.Gen.Engine.classify_source_iff]
          | cons p0 t =>
            apply h4.relEnq y (by rw [hpy]; simp)
            intro p' hp'
            have hsp : y ∈ g.succs p' := (hg.adj p' y).mpr hp'
            have hlt := hrank p' y hsp
            have hpn : p' ∈ g.nodes := (hg.succsNodes p' y hsp).1
            obtain ⟨hpo, hpr⟩ := enq_okd p' (ih p' (by omega) hpn)
            exact h4.okdRel p' hpr hpo y hsp
      intro x
      constructor
      · intro hx; exact hok.inNodes x (by
          have : x ∈ beginsOf s.log := by rw [hb]; exact hx
          obtain ⟨e, he, hee⟩ := List.mem_filterMap.mp this
          cases e <;> simp at hee; subst hee; exact he)
      · intro hx; exact hi.okBegun x (enq_okd x (key (rank x) x (Nat.le_refl _) hx)).1
    have hpl : p.log = s.log := rfl
    rw [hpl, hb]
    have hperm : (s.begun.filter (fun x => p.isCall x && (p.key x == k))).Perm (p.calls.filter (fun x => p.key x == k)) := by
      have h1 : s.begun.Perm g.nodes :=
        (List.perm_ext_iff_of_nodup hi.begunNodup hg.nodesNodup).mpr hall
      have h2 := h1.filter (fun x => p.isCall x && (p.key x == k))
      refine h2.trans ?_
      unfold Phase.calls
      rw [List.filter_filter]
      have : (fun x => p.isCall x && (p.key x == k)) = (fun a => (p.key a == k) && p.isCall a) := by
        funext a; exact Bool.and_comm _ _
      rw [this]
      exact List.Perm.refl _
    exact hperm.length_eq
  unfold Bal at hbal
  exact ⟨hts, by omega, by omega⟩

/-- The observer protocol of `run` still has the shape the model assumes: everything happens inside
    `with progress_observer:`; totals precede the phase; `running` before the call, `completed` after, `failed` in
    `except Exception`; totals and reports use the same scope functions; the composite observer forwards every
    notification to every member, entering in order and exiting in reverse. -/
theorem C15_protocol : Uberjob.Gen.Observer.facts.ok = true := by decide

/-! Non-vacuity: the diamond run as a "run" phase with two scopes. -/
example : (run? diamond ⟨2, some 0⟩ (init diamond) diamondRun).map
    (fun s => decide (Legal (runNotifs [Phase.ofEngine 1 diamond (fun _ => true) (fun x => x % 2) s]))) = some true := by
  decide

end Uberjob.Notify
