import UberjobModel.Lemmas.CacheHistory
import UberjobModel.Lemmas.ExecFinal
import UberjobModel.Lemmas.ExecFault
import UberjobModel.Lemmas.ExecProd
/-!
# C08 — a run cut short at any point leaves stores that the next run repairs correctly

Store-level theorems.  Whatever a run does to the value stores is a sequence of COMPLETED writes (`HOp.write`: the
stored value's write node finished — the value is what the call computed from what its arguments gave at that
moment; `HOp.update` for a dependent source rewritten by its producer).  A run cut short at ANY point of ANY
schedule — a call or store operation raising, a KeyboardInterrupt, the process dying between two store operations —
contributes a PREFIX of such a sequence (a store write "took effect completely or not at all": for the in-memory
contract by assumption, for file-backed stores by C11).  The theorems below make NO assumption on the order or
on which writes completed, so they cover every cut position and every interleaving at once.
-/
namespace Uberjob.Cache

/-- Every history of completed writes (of any runs, cut anywhere, in any order), source updates and deletions keeps
    `Good`: every stored value that the next run would treat as up to date equals its from-scratch value. -/
theorem C08_cut {P : LPlan} (hP : P.WF) {w : World} (hg : Good P w) {ops : List HOp} (hok : OpsOk P w ops) :
    Good P (applyOps P w ops) :=
  good_history hP hg hok

/-- In particular after every PREFIX of what a complete run would have done. -/
theorem C08_every_prefix {P : LPlan} (hP : P.WF) {w : World} (hg : Good P w) {ops : List HOp}
    (hok : OpsOk P w ops) (k : Nat) : Good P (applyOps P w (ops.take k)) := by
  apply good_history hP hg
  induction ops generalizing w k with
  | nil => simp [OpsOk]
  | cons op ops ih =>
    cases k with
    | zero => simp [OpsOk]
    | succ k => exact ⟨hok.1, ih (good_op hP hg hok.1) hok.2 k⟩

/-- A store operation that fails BEFORE taking effect changes nothing; one that fails AFTER taking effect is a
    completed write.  Either way `Good` survives. -/
theorem C08_fault {P : LPlan} (hP : P.WF) {w : World} (hg : Good P w) {i : Nat} {t : Int}
    (hreg : P.reg i = some false) (hb : w.below t) (tookEffect : Bool) :
    Good P (if tookEffect then applyOp P w (.write i t) else w) := by
  cases tookEffect
  · exact hg
  · exact good_write hP hg hreg hb

/-- The next successful run is correct (this is C03 applied to the state the cut left behind). -/
theorem C08_next_run_correct {P : LPlan} (hP : P.WF) {w0 : World} (hg : Good P w0) {cut : List HOp}
    (hcut : OpsOk P w0 cut) {F : Option Int} {ops : List HOp} (hnd : NoDelete ops)
    (hok : OpsOk P (applyOps P w0 cut) ops) (hnodup : ((linOf ops).map Prod.fst).Nodup)
    (hOnlyStale : ∀ j t, (j, t) ∈ linOf ops → (∃ s, P.reg j = some s) ∧ isStale P (applyOps P w0 cut) F j = true)
    (hAllStale : ∀ j s, P.reg j = some s → isStale P (applyOps P w0 cut) F j = true → ∃ t, (j, t) ∈ linOf ops)
    (hFresh : ∀ j t f, (j, t) ∈ linOf ops → F = some f → f ≤ t)
    (hOrder : ∀ q tq k tk, (q, tq) ∈ linOf ops → (k, tk) ∈ linOf ops → q ≠ k → Reach P q k → tq < tk) :
    let wf := applyOps P (applyOps P w0 cut) ops
    (∀ i v t, P.reg i = some false → wf.st i = some (v, t) → v = FS P wf i) ∧ (∀ o, seen P wf o = FS P wf o) := by
  have := complete_run_correct hP (good_history hP hg hcut) hnd hok hnodup hOnlyStale hAllStale hFresh hOrder
  exact ⟨this.2.2.1, this.2.2.2⟩

/-- Stored values completely written before the cut are NOT out of date for the next run, provided every registered
    node in their ancestor cone that was out of date had been rewritten too (nothing upstream changed since and
    `fresh_time` was not advanced past the writes).  `lin` = the writes the cut run completed. -/
theorem C08_no_redo {P : LPlan} (hP : P.WF) {w0 : World} {F : Option Int} {ops : List HOp}
    (hnd : NoDelete ops) (hok : OpsOk P w0 ops) (hnodup : ((linOf ops).map Prod.fst).Nodup)
    (hOnlyStale : ∀ j t, (j, t) ∈ linOf ops → (∃ s, P.reg j = some s) ∧ isStale P w0 F j = true)
    (hFresh : ∀ j t f, (j, t) ∈ linOf ops → F = some f → f ≤ t)
    (hOrder : ∀ q tq k tk, (q, tq) ∈ linOf ops → (k, tk) ∈ linOf ops → q ≠ k → Reach P q k → tq < tk)
    (j : Nat)
    (hsettled : ∀ q s, Reach P q j → P.reg q = some s → isStale P w0 F q = true → ∃ t, (q, t) ∈ linOf ops) :
    isStale P (applyOps P w0 ops) F j = false :=
  run_prefix_fresh hP (fun j hu => applyOps_untouched hnd hu w0)
    (fun j t hm => applyOps_touched hnd hnodup hm w0) hOnlyStale
    (fun j t hm => ⟨opsOk_below hnd hok hm, fun f hf => hFresh j t f hm hf⟩) hOrder j hsettled

/-! ### End to end (stale check + physical plan + engine + stores; see Props/C03.lean for the setting) -/

open Uberjob.Phys Uberjob.Exec in
/-- **A run cut short at ANY point of ANY schedule** (any reachable state of the engine model on the physical plan: after
    a call or a store operation raised — failed nodes have no effect —, after a KeyboardInterrupt, or simply stopped
    there by the death of the process between two store operations): the stores satisfy `Good` — every stored value that
    the next run would treat as up to date equals its from-scratch value; every stored value completely written so far
    IS its from-scratch value; every other store is untouched; no source was changed. -/
theorem C08_end_to_end_cut {P : Input} {w0 : World} {F : Option Int} {c0 : Int} (S : Setup P w0 F c0)
    {cfg : Engine.Cfg} {s : Engine.St} (h : Engine.Reach (engineGraph P) cfg s) :
    let xc := execOrder P (initX w0 c0) s.okd
    Good P.toLPlan xc.w ∧
    (∀ i, code (.write i) ∈ s.okd → ∃ t, xc.w.st i = some (FS P.toLPlan w0 i, t) ∧ c0 ≤ t) ∧
    (∀ i, code (.write i) ∉ s.okd → xc.w.st i = w0.st i) ∧
    (∀ k, FS P.toLPlan xc.w k = FS P.toLPlan w0 k) := by
  intro xc
  have I : XInv P w0 c0 s.okd xc := xinv_reach S h
  refine ⟨I.good, I.written, I.untouched, ?_⟩
  apply FS_congr (toLPlan_wf S.wf)
  intro k hk
  have hk' : P.regOf k = some true := hk
  have := I.untouched k (write_not_okd_of_not S h (fun _ hh => hh) (okd_begun h) I (by rw [hk']; simp))
  simp [World.content, this]

open Uberjob.Phys Uberjob.Exec in
/-- **... including store writes that raise AFTER taking effect.**  `eff` says, arbitrarily, which failing write nodes had
    already changed their store when they raised (the engine sees a failed node either way and runs nothing downstream);
    `effects eff s.log` is the order in which effects took place (completed nodes and those writes).  In every reachable
    state of every schedule the stores satisfy `Good`, every store whose write took effect — completed or not — holds its
    from-scratch value, and every other store is untouched. -/
theorem C08_end_to_end_fault {P : Input} {w0 : World} {F : Option Int} {c0 : Int} (S : Setup P w0 F c0)
    (eff : Nat → Bool) {cfg : Engine.Cfg} {s : Engine.St} (h : Engine.Reach (engineGraph P) cfg s) :
    let xc := execOrder P (initX w0 c0) (effects eff s.log)
    Good P.toLPlan xc.w ∧
    (∀ i, code (.write i) ∈ effects eff s.log → ∃ t, xc.w.st i = some (FS P.toLPlan w0 i, t) ∧ c0 ≤ t) ∧
    (∀ i, code (.write i) ∉ effects eff s.log → xc.w.st i = w0.st i) ∧
    (∀ n, n ∈ s.okd → n ∈ effects eff s.log) := by
  intro xc
  obtain ⟨hD1, _, I⟩ := xinv_reach_eff S eff h
  exact ⟨I.good, I.written, I.untouched, hD1⟩

open Uberjob.Phys Uberjob.Exec in
/-- **With producers that rewrite dependent sources** (`Model/ExecProd.lean`): wherever a run is cut — after any prefix of
    any schedule, failures included, with some sources already refreshed and others not — `Good` holds: every stored value
    the next run would treat as up to date equals its from-scratch value with respect to what the sources hold at that
    moment.  Every store touched so far has a modified time of this run, newer than everything upstream of it that was
    touched. -/
theorem C08_end_to_end_cut_prod {P : Input} {pr : Nat → Option Nat} {w0 : World} {F : Option Int} {c0 : Int}
    (S : SetupP P pr w0 F c0) {cfg : Engine.Cfg} {s : Engine.St} (h : Engine.Reach (engineGraph P) cfg s) :
    let xc := execOrderP P pr (initX w0 c0) s.okd
    Good P.toLPlan xc.w ∧
    (∀ i, code (.write i) ∈ s.okd → xc.w.content i = some (FS P.toLPlan xc.w i)) ∧
    (∀ j d, pr j = some d → code (.orig j) ∈ s.okd → xc.w.content d = some (FS P.toLPlan xc.w j)) ∧
    (∀ i, ¬ Tch pr s.okd i → xc.w.st i = w0.st i) := by
  intro xc
  have I := xinvP_reach S h
  exact ⟨I.good, I.writtenOk, I.prodOk, I.untouched⟩

/-- with `eff` = "never", the effects are exactly those of the completed nodes (an example run: the write of node 7 fails
    with and without effect) -/
example : Exec.effects (fun _ => false) [.begin 4, .ok 4, .begin 7, .fail 7] = [4] ∧
    Exec.effects (fun _ => true) [.begin 4, .ok 4, .begin 7, .fail 7] = [4, 7] ∧
    Exec.effects (fun _ => true) [.begin 4, .ok 4, .begin 5, .fail 5] = [4] := by decide

/-! Non-vacuity: source 0 → unstored 1 → stored 2; a source update, a completed write, then both. -/
def chain : LPlan := ⟨3, fun i => if i = 0 then [] else [i - 1], fun i => if i = 0 then [] else [i - 1],
  fun i => if i = 0 then some true else if i = 2 then some false else none⟩
def w1 : World := applyOps chain ⟨fun _ => none⟩ [.update 0 (.src 0 1) 5, .write 2 6]
example : (w1.st 2).map (·.1.toStr) = some "a2(a1(s0.1))" := by decide
example : isStale chain w1 none 2 = false := by decide
example : isStale chain (applyOp chain w1 (.update 0 (.src 0 2) 7)) none 2 = true := by decide

end Uberjob.Cache
