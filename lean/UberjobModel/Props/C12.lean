import UberjobModel.Lemmas.Stores
import UberjobModel.Lemmas.JsonRoundtrip
import UberjobModel.Props.C11
/-!
# C12 — stores return what was written and report modified times faithfully   (claimed: proof, PARTIAL)

**Proved** (for all inputs, unbounded):
* newline handling of TextFileStore for the modes the CURRENT source passes (`Gen.TextCodec`): reading back
  returns exactly the string written (`C12_text_roundtrip`), for every Python string (every list of code points,
  lone surrogates and all line terminators included); the exact result under universal newlines
  (`C12_text_universal`, `C12_text_universal_iff`) and the counter-example that was finding F1
  (`C12_text_defect_witness`);
* BinaryFileStore and TouchFileStore completely (`C12_binary_roundtrip`, `C12_touch_roundtrip`);
* every store *given* that its serialiser/deserialiser round-trips (`C12_codec_store`, `C12_text_store`,
  `C12_json_store`, `C12_pickle_store`) — through the full staged-write model of C11;
* MountedStore given faithful copies (`C12_mounted`);
* `get_modified_time` is `None` exactly when nothing is stored and never decreases over any sequence of write
  attempts, failing or not (`C12_mtime_none_iff`, `C12_mtime_after_write`, `C12_mtime_monotone`), given the
  monotone clock of the file-system model.

**Assumed, validated by sampling only** (harness/props/c12.py): CPython's text codecs (`Encoding.Roundtrip`), `json`
(`TextSer.Roundtrip`, `TextSer.NoCR`) and `pickle` (`Codec.Roundtrip`) round-trip on their domains; the OS.
-/
namespace Uberjob.Stores
open Uberjob.FileStore Uberjob.Gen.FileStore Uberjob.TextCodec

/-! ## text: newline translation -/

/-- **TextFileStore returns the string that was written** — for the `newline=` arguments the current source
    passes to its two `open` calls (both `decide`s are about regenerated definitions), for EVERY string. -/
theorem C12_text_roundtrip (s : Str) :
    decodeText Gen.TextCodec.textReadNewline (encodeText posix Gen.TextCodec.textWriteNewline s) = s := by
  rw [encodeText_transparent (by decide), decodeText_transparent (by decide)]

/-- Under `newline=None` on both sides (the source before fix f9f7866) the string read back is the one written
    with every `"\r\n"`, then every remaining `"\r"`, replaced by `"\n"`. -/
theorem C12_text_universal (s : Str) :
    decodeText .universal (encodeText posix .universal s) = replaceCR (replaceCRLF s) := by
  rw [encodeText_transparent (by decide)]
  exact universalRead_eq s

/-- … so it round-trips exactly the strings without a carriage return. -/
theorem C12_text_universal_iff (s : Str) :
    decodeText .universal (encodeText posix .universal s) = s ↔ CR ∉ s := by
  rw [encodeText_transparent (by decide)]
  exact universalRead_id_iff s

/-- **F1** (repaired by f9f7866): `"a\rb"` comes back as `"a\nb"` under universal newlines. -/
theorem C12_text_defect_witness : ∃ s : Str, decodeText .universal (encodeText posix .universal s) ≠ s :=
  ⟨[97, 13, 98], by decide⟩

/-! ## read after write through the staged write -/

/-- **The part of C12 that is NOT proved** (why the claim is "proof, partial"): that the concrete serialisers of
    CPython — `json.dump`/`json.load` (as a `TextSer`, with no carriage return in the output), `pickle.dump`/`pickle.load`
    (as a `Codec`) and the text codecs utf-8 / utf-16 / latin-1 / the locale's (as an `Encoding`; latin-1 IS proved:
    `C12_latin1_roundtrip`) — round-trip on their domains.  The theorems below take these as hypotheses; the
    harness validates them on sampled values only (and found the limit of json's domain: an escaped surrogate pair
    is read back as one astral character). -/
def C12_trusted_codecs {V W : Type} (jsonSer : TextSer V) (pickle : Codec W) (e : Encoding) : Prop :=
  jsonSer.Roundtrip ∧ jsonSer.NoCR ∧ pickle.Roundtrip ∧ e.Roundtrip

section
variable {α : Type} [DecidableEq α] {V : Type}

/-- **Every store whose serialiser round-trips returns what was written.**  For a store shape `spec` that passes a
    `"w"` mode and whose None-guard (if any) lets the value through, a codec whose deserialiser inverts its
    serialiser (`Codec.Roundtrip` — the PARTIAL part: assumed of json/pickle/text codecs), any value the serialiser
    accepts, and any file system: the write completes, and `read` returns the value. -/
theorem C12_codec_store (spec : StoreSpec) (c : Codec V) (hc : c.Roundtrip) (vn : Bool) {stg tgt : α} (hne : stg ≠ tgt)
    (v : V) (chunks : List Bytes) (fs : FS α)
    (hg : (spec.noneGuardFirst && !vn) = false) (hw : spec.writeMode.contains 'w' = true)
    (heff : effOps spec (chunkOps chunks) = chunkOps chunks) (henc : c.enc v = some chunks) :
    (writeValue spec c vn stg tgt v fs).out = .ok ∧
    readValue c (writeValue spec c vn stg tgt v fs).fs tgt = some v ∧
    (writeValue spec c vn stg tgt v fs).fs.get stg = none := by
  unfold writeValue
  simp only [henc]
  have hnf : noFail (effOps spec (chunkOps chunks)) = true := by rw [heff]; exact noFail_chunkOps chunks
  have hok := (C11_ops Cfg.gen spec vn stg tgt (chunkOps chunks) fs hg hw hnf).1
  obtain ⟨⟨t, _, hget⟩, hstg⟩ := C11_completed noFaults spec vn hne (chunkOps chunks) fs hok
  refine ⟨hok, ?_, hstg⟩
  unfold readValue FS.read
  rw [hget, heff, payload_chunkOps]
  exact hc v chunks henc

/-- **BinaryFileStore**: `read()` after `write(b)` returns `b`, for every byte string and file system (no assumption
    beyond the file-system model). -/
theorem C12_binary_roundtrip {stg tgt : α} (hne : stg ≠ tgt) (b : Bytes) (fs : FS α) :
    readValue binaryCodec (writeValue binaryFileStore binaryCodec true stg tgt b fs).fs tgt = some b :=
  (C12_codec_store binaryFileStore binaryCodec (by intro v ch h; cases h; simp [binaryCodec]) true hne b [b] fs
    (by decide) (by decide) (by simp [effOps, binaryFileStore]) rfl).2.1

/-- **TouchFileStore**: `write(None)` leaves an empty file and `read()` returns `None`; a value that is not `None` is
    rejected with `TypeError` before any file operation (the file system is untouched). -/
theorem C12_touch_roundtrip {stg tgt : α} (hne : stg ≠ tgt) (fs : FS α) :
    readValue touchCodec (writeValue touchFileStore touchCodec true stg tgt () fs).fs tgt = some () ∧
    (writeValue touchFileStore touchCodec true stg tgt () fs).fs.read tgt = some [] ∧
    ((writeValue touchFileStore touchCodec false stg tgt () fs).out = .raised .exception ∧
      (writeValue touchFileStore touchCodec false stg tgt () fs).trace = [] ∧
      (writeValue touchFileStore touchCodec false stg tgt () fs).fs = fs) := by
  have h := C12_codec_store touchFileStore touchCodec (by intro v ch h; cases h; simp [touchCodec]) true hne () [] fs
    (by decide) (by decide) (by simp [effOps, chunkOps]) rfl
  refine ⟨h.2.1, ?_, ?_⟩
  · have hok := h.1
    unfold writeValue at hok ⊢
    simp only [touchCodec] at hok ⊢
    obtain ⟨⟨t, _, hget⟩, _⟩ := C11_completed noFaults touchFileStore true hne (chunkOps []) fs hok
    unfold FS.read; rw [hget]; rfl
  · unfold writeValue storeWrite
    simp [touchCodec, touchFileStore]

/-- **TextFileStore(path, encoding=e)**: for a codec `e` that round-trips (assumed of CPython's codecs; proved for
    `latin1` below), the newline modes of the current source, and every string `e` can encode, `read()` returns
    the string written.  (`encoding=self.encoding` is passed by both `open` calls: T1.) -/
theorem C12_text_store (e : Encoding) (he : e.Roundtrip) {stg tgt : α} (hne : stg ≠ tgt) (s : Str) (b : Bytes) (fs : FS α)
    (henc : e.enc s = some b) :
    readValue (textCodec e posix Gen.TextCodec.textWriteNewline Gen.TextCodec.textReadNewline)
      (writeValue textFileStore (textCodec e posix Gen.TextCodec.textWriteNewline Gen.TextCodec.textReadNewline)
        true stg tgt s fs).fs tgt = some s ∧
    (Gen.TextCodec.textWritePassesEncoding && Gen.TextCodec.textReadPassesEncoding) = true := by
  refine ⟨?_, by decide⟩
  have hw : textWrite e posix Gen.TextCodec.textWriteNewline s = some b := by
    unfold textWrite; rw [encodeText_transparent (by decide)]; exact henc
  refine (C12_codec_store textFileStore _ ?_ true hne s [b] fs (by decide) (by decide)
    (by simp [effOps, textFileStore]) (by simp [textCodec, hw])).2.1
  intro v chunks h
  simp only [textCodec, Option.map_eq_some_iff] at h
  obtain ⟨b', hb', rfl⟩ := h
  unfold textWrite at hb'
  rw [encodeText_transparent (by decide)] at hb'
  simp only [textCodec, textRead, List.flatten_cons, List.flatten_nil, List.append_nil, he v b' hb', Option.map_some]
  rw [decodeText_transparent (by decide)]

/-- … and a string the codec cannot encode (e.g. a lone surrogate under utf-8) makes `write` raise with the target
    untouched and no staging file left (C11). -/
theorem C12_text_store_unencodable (e : Encoding) {stg tgt : α} (hne : stg ≠ tgt) (s : Str) (fs : FS α)
    (henc : e.enc s = none) :
    let r := writeValue textFileStore (textCodec e posix Gen.TextCodec.textWriteNewline Gen.TextCodec.textReadNewline) true stg tgt s fs
    r.out = .raised .exception ∧ r.fs.get tgt = fs.get tgt ∧ r.fs.get stg = none := by
  have hw : (textCodec e posix Gen.TextCodec.textWriteNewline Gen.TextCodec.textReadNewline).enc s = none := by
    simp only [textCodec, textWrite, Option.map_eq_none_iff]
    rw [encodeText_transparent (by decide)]; exact henc
  simp only [writeValue, hw]
  have hout : (storeWrite Cfg.gen noFaults textFileStore true stg tgt [.fail .exception] fs).out = .raised .exception := by
    simp [storeWrite, stagedWrite, stagedPath, bodyStagedWrite, writesOp, closeOp, handler, noFaults, effOps,
      textFileStore, Cfg.gen, Cfg.fin, Exc.isException, Gen.FileStore.replaceInsideTry,
      Gen.FileStore.handlerCatchesBaseException, Gen.FileStore.handlerRemovesStaging, Gen.FileStore.handlerReraises]
  refine ⟨hout, C11_failed_unchanged _ _ _ _ hne _ _ (by rw [hout]; exact fun h => by cases h), ?_⟩
  rcases C11_no_staging_serialisation textFileStore true stg tgt [.fail .exception] fs _ hout with h | ⟨h, _⟩
  · exact h
  · simp [storeWrite, stagedWrite, stagedPath, bodyStagedWrite, writesOp, closeOp, handler, noFaults, effOps,
      textFileStore, Cfg.gen, Cfg.fin, Exc.isException, Gen.FileStore.replaceInsideTry,
      Gen.FileStore.handlerCatchesBaseException, Gen.FileStore.handlerRemovesStaging, Gen.FileStore.handlerReraises] at h

/-- **JsonFileStore(path, encoding=e)**, with the text serialiser a parameter: if `json.load ∘ json.dump` is the
    identity on the value (assumed), `json.dump` emits no carriage return (assumed; sampled) and `e` round-trips
    (assumed), then — through a text-mode file opened with the newline modes of the CURRENT source, whatever the read
    mode is — `read()` returns the value written. -/
theorem C12_json_store (ser : TextSer V) (hs : ser.Roundtrip) (hcr : ser.NoCR) (e : Encoding) (he : e.Roundtrip)
    {stg tgt : α} (hne : stg ≠ tgt) (v : V) (txt : List Str) (b : Bytes) (fs : FS α)
    (hser : ser.enc v = some txt) (henc : e.enc txt.flatten = some b) :
    readValue (jsonCodec ser e posix Gen.TextCodec.jsonWriteNewline Gen.TextCodec.jsonReadNewline)
      (writeValue jsonFileStore (jsonCodec ser e posix Gen.TextCodec.jsonWriteNewline Gen.TextCodec.jsonReadNewline)
        true stg tgt v fs).fs tgt = some v := by
  have hw : textWrite e posix Gen.TextCodec.jsonWriteNewline txt.flatten = some b := by
    unfold textWrite; rw [encodeText_transparent (by decide)]; exact henc
  refine (C12_codec_store jsonFileStore _ ?_ true hne v [b] fs (by decide) (by decide)
    (by simp [effOps, jsonFileStore]) (by simp [jsonCodec, hser, hw])).2.1
  intro v' chunks h
  simp only [jsonCodec, Option.bind_eq_some_iff, Option.map_eq_some_iff] at h
  obtain ⟨txt', ht', b', hb', rfl⟩ := h
  unfold textWrite at hb'
  rw [encodeText_transparent (by decide)] at hb'
  simp only [jsonCodec, textRead, List.flatten_cons, List.flatten_nil, List.append_nil, he _ b' hb', Option.map_some,
    Option.bind_some]
  rw [decodeText_noCR _ _ (hcr v' txt' ht')]
  exact hs v' txt' ht'

/-- **PickleFileStore**, with `pickle.dump`/`pickle.load` a parameter assumed to round-trip. -/
theorem C12_pickle_store (c : Codec V) (hc : c.Roundtrip) {stg tgt : α} (hne : stg ≠ tgt) (v : V) (chunks : List Bytes)
    (fs : FS α) (henc : c.enc v = some chunks) :
    readValue c (writeValue pickleFileStore c true stg tgt v fs).fs tgt = some v :=
  (C12_codec_store pickleFileStore c hc true hne v chunks fs (by decide) (by decide)
    (by simp [effOps, pickleFileStore]) henc).2.1

/-! ## MountedStore -/

/-- **MountedStore**: given copies that are faithful (what `copy_to_local` delivers is what `copy_from_local` was
    given), `read()` after `write(v)` is `inner.read()` after `inner.write(v)` of the underlying store on the
    temporary local path — hence `v` whenever the underlying store returns what was written. -/
theorem C12_mounted {ρ : Type} (m : Remote ρ) (hm : m.Faithful) (spec : StoreSpec) (c : Codec V) (vn : Bool)
    {stg tgt : α} (clock clock' : Nat) (v : V) (r r' : ρ)
    (h : mountedWrite m spec c vn stg tgt clock v r = some r') :
    mountedRead m c tgt clock' r' = readValue c (writeValue spec c vn stg tgt v (freshDir clock)).fs tgt := by
  unfold mountedWrite at h
  simp only at h
  split at h
  · simp only [Option.map_eq_some_iff] at h
    obtain ⟨b, hb, rfl⟩ := h
    unfold mountedRead
    rw [hm b r]
    simp only [Option.bind_some]
    unfold readValue
    rw [hb]
    simp [FS.read]
  · cases h

/-- `mountedRead` / `mountedWrite` are the shape of the CURRENT `stores/_mounted_store.py` (pinned by the translator: any other
    shape does not translate) -/
theorem C12_mounted_source_shape : Gen.FileStore.mountedStoreShape = true := by decide

/-- … in particular a MountedStore over a round-tripping store returns what was written. -/
theorem C12_mounted_roundtrip {ρ : Type} (m : Remote ρ) (hm : m.Faithful) (spec : StoreSpec) (c : Codec V)
    (hc : c.Roundtrip) (vn : Bool) {stg tgt : α} (hne : stg ≠ tgt) (clock clock' : Nat) (v : V) (chunks : List Bytes) (r : ρ)
    (hg : (spec.noneGuardFirst && !vn) = false) (hw : spec.writeMode.contains 'w' = true)
    (heff : effOps spec (chunkOps chunks) = chunkOps chunks) (henc : c.enc v = some chunks) :
    ∃ r', mountedWrite m spec c vn stg tgt clock v r = some r' ∧ mountedRead m c tgt clock' r' = some v := by
  obtain ⟨hok, hread, _⟩ := C12_codec_store spec c hc vn hne v chunks (freshDir clock) hg hw heff henc
  have hsome : ∃ b, (writeValue spec c vn stg tgt v (freshDir clock)).fs.read tgt = some b := by
    unfold readValue at hread
    cases hr : (writeValue spec c vn stg tgt v (freshDir clock)).fs.read tgt with
    | none => rw [hr] at hread; cases hread
    | some b => exact ⟨b, rfl⟩
  obtain ⟨b, hb⟩ := hsome
  refine ⟨m.copyFromLocal b r, ?_, ?_⟩
  · unfold mountedWrite; simp [hok, hb]
  · rw [C12_mounted (stg := stg) m hm spec c vn clock clock' v r _ (by unfold mountedWrite; simp [hok, hb])]
    exact hread

/-! ## modified times -/

/-- **`get_modified_time()` is `None` exactly when nothing is stored** (an `OSError` of `os.path.getmtime` is the
    model's "absent or inaccessible" — the shape of `get_modified_time` is pinned by T1). -/
theorem C12_mtime_none_iff (fs : FS α) (p : α) :
    (fs.getModifiedTime p = none ↔ fs.get p = none) ∧ (fs.getModifiedTime p = none ↔ fs.read p = none) := by
  unfold FS.getModifiedTime FS.read
  cases fs.get p <;> simp

/-- After a write that returned normally the modified time is not `None`; after a write that failed (exception or
    death, anywhere) it is what it was — in particular still `None` if nothing was stored. -/
theorem C12_mtime_after_write (sched : Sched) (spec : StoreSpec) (vn : Bool) {stg tgt : α} (hne : stg ≠ tgt)
    (ops : List BodyOp) (fs : FS α) :
    ((storeWrite Cfg.gen sched spec vn stg tgt ops fs).out = .ok →
      ((storeWrite Cfg.gen sched spec vn stg tgt ops fs).fs.getModifiedTime tgt).isSome = true) ∧
    ((storeWrite Cfg.gen sched spec vn stg tgt ops fs).out ≠ .ok →
      (storeWrite Cfg.gen sched spec vn stg tgt ops fs).fs.getModifiedTime tgt = fs.getModifiedTime tgt) := by
  constructor
  · intro h
    obtain ⟨⟨t, _, hget⟩, _⟩ := C11_completed sched spec vn hne ops fs h
    simp [FS.getModifiedTime, hget]
  · intro h
    simp [FS.getModifiedTime, C11_failed_unchanged Cfg.gen sched spec vn hne ops fs h]

/-- **The modified time never decreases across successive writes** — over ANY sequence of write attempts to the
    path (different store classes, values, failing anywhere by exception or death, or completing), on a well-formed
    file system with the monotone clock of the model; and it never returns to `None`. -/
theorem C12_mtime_monotone (cfg : Cfg) {stg tgt : α} (hne : stg ≠ tgt) (as : List Attempt) :
    ∀ (fs : FS α), fs.WF →
      mtimeLE (fs.getModifiedTime tgt) ((runAttempts cfg stg tgt as fs).getModifiedTime tgt) ∧ (runAttempts cfg stg tgt as fs).WF := by
  induction as with
  | nil => intro fs hwf; exact ⟨mtimeLE_refl _, hwf⟩
  | cons a r ih =>
    intro fs hwf
    have h1 : mtimeLE (fs.getModifiedTime tgt)
        ((storeWrite cfg a.sched a.spec a.valueIsNone stg tgt a.ops fs).fs.getModifiedTime tgt) := by
      rcases C11_atomic cfg a.sched a.spec a.valueIsNone hne a.ops fs with h | ⟨t, ht, h, _, _⟩
      · unfold FS.getModifiedTime; rw [h]; exact mtimeLE_refl _
      · unfold FS.getModifiedTime; rw [h]
        cases hg : fs.get tgt with
        | none => simp [mtimeLE]
        | some f => have := hwf tgt f hg; simp only [Option.map_some, mtimeLE]; omega
    have hwf' := (C11_wf cfg a.sched a.spec a.valueIsNone stg tgt a.ops fs hwf).1
    obtain ⟨h2, h3⟩ := ih _ hwf'
    exact ⟨mtimeLE_trans h1 h2, h3⟩

/-- … between any two points of the sequence. -/
theorem C12_mtime_monotone_between (cfg : Cfg) {stg tgt : α} (hne : stg ≠ tgt) (as bs : List Attempt) (fs : FS α)
    (hwf : fs.WF) :
    mtimeLE ((runAttempts cfg stg tgt as fs).getModifiedTime tgt) ((runAttempts cfg stg tgt (as ++ bs) fs).getModifiedTime tgt) := by
  rw [runAttempts_append]
  exact (C12_mtime_monotone cfg hne bs _ (C12_mtime_monotone cfg hne as fs hwf).2).1

end

/-! ## non-vacuity -/

/-- the round-trip assumption is satisfiable: latin-1 -/
theorem C12_latin1_roundtrip : latin1.Roundtrip := latin1_roundtrip

/-- **UTF-8 is no longer an assumption**: the strict decoder (shortest form, no surrogates, ≤ U+10FFFF — compared with
    CPython's on valid and invalid byte strings by the check) inverts the strict encoder on every string it accepts, i.e.
    every sequence of code points without lone surrogates, of any length. -/
theorem C12_utf8_roundtrip : utf8.Roundtrip := utf8_roundtrip

/-- … and UTF-16 with a byte-order mark (CPython's "utf-16" on a little-endian machine). -/
theorem C12_utf16_roundtrip : utf16.Roundtrip := utf16_roundtrip

/-- what the encoders reject is exactly the lone surrogates and the non-code-points -/
theorem C12_utf8_domain (s : Str) : (utf8.enc s).isSome ↔ ∀ c ∈ s, c < 0x110000 ∧ isSurrogate c = false := by
  induction s with
  | nil => simp [utf8, utf8Enc, encodeWith]
  | cons c r ih =>
    simp only [utf8, utf8Enc] at ih ⊢
    simp only [encodeWith, List.mem_cons, forall_eq_or_imp]
    rw [← ih]
    have hc : (utf8Char c).isSome ↔ (c < 0x110000 ∧ isSurrogate c = false) := by
      unfold utf8Char isSurrogate
      repeat' split
      all_goals simp_all
      all_goals omega
    rw [← hc]
    cases utf8Char c <;> cases encodeWith utf8Char r <;> simp

section
variable {α : Type} [DecidableEq α]
/-- **TextFileStore(path, encoding="utf-8")**, no assumption left: for every string without lone surrogates `read()` returns
    the string written (newline modes and `encoding=` arguments of the current source). -/
theorem C12_text_store_utf8 {stg tgt : α} (hne : stg ≠ tgt) (s : Str) (fs : FS α)
    (hs : ∀ c ∈ s, c < 0x110000 ∧ isSurrogate c = false) :
    readValue (textCodec utf8 posix Gen.TextCodec.textWriteNewline Gen.TextCodec.textReadNewline)
      (writeValue textFileStore (textCodec utf8 posix Gen.TextCodec.textWriteNewline Gen.TextCodec.textReadNewline)
        true stg tgt s fs).fs tgt = some s := by
  obtain ⟨b, hb⟩ := Option.isSome_iff_exists.mp ((C12_utf8_domain s).mpr hs)
  exact (C12_text_store utf8 utf8_roundtrip hne s b fs hb).1
end

/-! ## JsonFileStore: `json.dump` / `json.load` are a model with a theorem, not a hypothesis (ints, strs, lists, dicts, bools, None) -/

section Json
open Uberjob.Json

/-- the options `JsonFileStore.write` passes to `json.dump` in the CURRENT source (regenerated on every check) -/
def jsonGenOpts : Opts :=
  ⟨match Gen.TextCodec.jsonDumpIndent with | some n => .indent n | none => .compact, Gen.TextCodec.jsonDumpEnsureAscii⟩

/-- what the round-trip theorems below need of the source: no key sorting, no other keyword argument of `json.dump`
    (`default=`, `separators=`, `cls=` …: none is modelled), and `ensure_ascii` left on (so the text can be encoded whatever
    the strings contain).  `indent` may be anything: the theorems hold for every layout. -/
theorem C12_json_source_options :
    Gen.TextCodec.jsonDumpSortKeys = false ∧ Gen.TextCodec.jsonDumpOtherKeywords = [] ∧ Gen.TextCodec.jsonDumpEnsureAscii = true := by
  decide

/-- **`json.loads(json.dumps(v, indent=…, ensure_ascii=…)) == v`**, same types, same dict order — for every layout (every
    `indent`, or none), with and without `ensure_ascii`, every nesting depth, every size, every value built from `None`, bools,
    ints, floats, strs, lists and dicts with distinct str keys whose strings are Python strs (control characters, line
    terminators, astral characters and LONE surrogates included) without a high surrogate immediately followed by a low one.
    A float is the TEXT that denotes it (`FT`; `float.__repr__` writes such a text, the scanner returns the text it read): that
    `float(repr(x)) == x` is CPython's guarantee, outside this model. -/
theorem C12_json_roundtrip (o : Opts) (v : JV) (h : v.ok = true) : parse (render o 0 v) = .ok v :=
  parse_render_top o v h

/-- … and that last restriction is a real limit of `json`: the two halves are escaped separately and read back as ONE
    astral character (the check observes the same on CPython). -/
theorem C12_json_surrogate_pair_witness :
    parse (render ⟨.indent 4, true⟩ 0 (.str [0xD800, 0xDC00])) = .ok (.str [0x10000]) := by decide

/-- with `ensure_ascii` the text consists of printable ASCII and line feeds: no carriage return (so no newline mode can
    change it) and nothing a text codec could refuse -/
theorem C12_json_text_ascii (L : Layout) (v : JV) (hv : v.ok = true) : ∀ c ∈ render ⟨L, true⟩ 0 v, c = 10 ∨ (32 ≤ c ∧ c ≤ 126) :=
  render_ascii L v 0 hv

/-- `json.dump(value, file, <the source's options>)` / `json.load(file)` on the values of the domain -/
def jsonSer : TextSer {v : JV // v.ok = true} where
  enc v := some [render jsonGenOpts 0 v.1]
  dec s := match parse s with
    | .ok v => if h : v.ok = true then some ⟨v, h⟩ else none
    | .error _ => none

theorem jsonSer_roundtrip : jsonSer.Roundtrip := by
  intro v chunks h
  simp only [jsonSer, Option.some.injEq] at h
  subst h
  simp only [jsonSer, List.flatten_cons, List.flatten_nil, List.append_nil, parse_render_top jsonGenOpts v.1 v.2]
  simp [v.2]

theorem jsonGenOpts_ascii : jsonGenOpts = ⟨jsonGenOpts.layout, true⟩ := by
  have := C12_json_source_options.2.2
  simp [jsonGenOpts, this]

theorem jsonSer_ascii (v : {v : JV // v.ok = true}) : ∀ c ∈ render jsonGenOpts 0 v.1, c = 10 ∨ (32 ≤ c ∧ c ≤ 126) := by
  rw [jsonGenOpts_ascii]; exact render_ascii _ v.1 0 v.2

theorem jsonSer_noCR : jsonSer.NoCR := by
  intro v chunks h
  simp only [jsonSer, Option.some.injEq] at h
  subst h
  simp only [List.flatten_cons, List.flatten_nil, List.append_nil]
  intro hc
  have := jsonSer_ascii v CR hc
  simp [CR] at this

variable {α : Type} [DecidableEq α]

/-- **JsonFileStore(path, encoding="utf-8")** (and the default encoding where it is UTF-8), NO assumption left about `json`
    or the codec: for every value of the domain — any nesting depth, any size, every code point — `read()` after `write(v)`
    returns `v`, through the staged write, the text layer with the newline modes of the current source, and UTF-8. -/
theorem C12_json_store_utf8 {stg tgt : α} (hne : stg ≠ tgt) (v : JV) (hv : v.ok = true) (fs : FS α) :
    readValue (jsonCodec jsonSer utf8 posix Gen.TextCodec.jsonWriteNewline Gen.TextCodec.jsonReadNewline)
      (writeValue jsonFileStore (jsonCodec jsonSer utf8 posix Gen.TextCodec.jsonWriteNewline Gen.TextCodec.jsonReadNewline)
        true stg tgt ⟨v, hv⟩ fs).fs tgt = some ⟨v, hv⟩ := by
  have hdom : ∀ c ∈ ([render jsonGenOpts 0 v] : List TextCodec.Str).flatten, c < 0x110000 ∧ isSurrogate c = false := by
    intro c hc
    simp only [List.flatten_cons, List.flatten_nil, List.append_nil] at hc
    have := jsonSer_ascii ⟨v, hv⟩ c hc
    simp only [isSurrogate, Bool.and_eq_false_iff, decide_eq_false_iff_not]
    omega
  obtain ⟨b, hb⟩ := Option.isSome_iff_exists.mp ((C12_utf8_domain _).mpr hdom)
  exact C12_json_store jsonSer jsonSer_roundtrip jsonSer_noCR utf8 utf8_roundtrip hne ⟨v, hv⟩ [render jsonGenOpts 0 v] b fs rfl hb

/-- the same for EVERY text codec that round-trips and accepts printable ASCII and the line feed (json's text is nothing else,
    `C12_json_text_ascii`): which `encoding=` the store is given does not matter -/
theorem C12_json_store_any_codec (e : Encoding) (he : e.Roundtrip)
    (hacc : ∀ s : TextCodec.Str, (∀ c ∈ s, c = 10 ∨ (32 ≤ c ∧ c ≤ 126)) → (e.enc s).isSome = true)
    {stg tgt : α} (hne : stg ≠ tgt) (v : JV) (hv : v.ok = true) (fs : FS α) :
    readValue (jsonCodec jsonSer e posix Gen.TextCodec.jsonWriteNewline Gen.TextCodec.jsonReadNewline)
      (writeValue jsonFileStore (jsonCodec jsonSer e posix Gen.TextCodec.jsonWriteNewline Gen.TextCodec.jsonReadNewline)
        true stg tgt ⟨v, hv⟩ fs).fs tgt = some ⟨v, hv⟩ := by
  have hasc : ∀ c ∈ ([render jsonGenOpts 0 v] : List TextCodec.Str).flatten, c = 10 ∨ (32 ≤ c ∧ c ≤ 126) := by
    intro c hc
    simp only [List.flatten_cons, List.flatten_nil, List.append_nil] at hc
    exact jsonSer_ascii ⟨v, hv⟩ c hc
  obtain ⟨b, hb⟩ := Option.isSome_iff_exists.mp (hacc _ hasc)
  exact C12_json_store jsonSer jsonSer_roundtrip jsonSer_noCR e he hne ⟨v, hv⟩ [render jsonGenOpts 0 v] b fs rfl hb

theorem encodeWith_isSome (f : Nat → Option Bytes) (s : TextCodec.Str) (h : ∀ c ∈ s, (f c).isSome = true) :
    (encodeWith f s).isSome = true := by
  induction s with
  | nil => rfl
  | cons c r ih =>
    have h1 := h c (by simp)
    have h2 := ih (fun d hd => h d (by simp [hd]))
    simp only [encodeWith]
    cases hc : f c <;> cases hr : encodeWith f r <;> simp_all

/-- **JsonFileStore(path, encoding="utf-16")** and **encoding="latin-1"**: no assumption left either -/
theorem C12_json_store_utf16 {stg tgt : α} (hne : stg ≠ tgt) (v : JV) (hv : v.ok = true) (fs : FS α) :
    readValue (jsonCodec jsonSer utf16 posix Gen.TextCodec.jsonWriteNewline Gen.TextCodec.jsonReadNewline)
      (writeValue jsonFileStore (jsonCodec jsonSer utf16 posix Gen.TextCodec.jsonWriteNewline Gen.TextCodec.jsonReadNewline)
        true stg tgt ⟨v, hv⟩ fs).fs tgt = some ⟨v, hv⟩ := by
  refine C12_json_store_any_codec utf16 utf16_roundtrip ?_ hne v hv fs
  intro s hs
  have : (encodeWith utf16Char s).isSome = true := by
    apply encodeWith_isSome
    intro c hc
    have := hs c hc
    unfold utf16Char isSurrogate
    rw [if_pos (by omega)]
    have h2 : (decide (0xD800 ≤ c) && decide (c ≤ 0xDFFF)) = false := by simp; omega
    simp [h2]
  simp only [utf16, utf16Enc]
  cases h : encodeWith utf16Char s
  · rw [h] at this; cases this
  · rfl

theorem C12_json_store_latin1 {stg tgt : α} (hne : stg ≠ tgt) (v : JV) (hv : v.ok = true) (fs : FS α) :
    readValue (jsonCodec jsonSer latin1 posix Gen.TextCodec.jsonWriteNewline Gen.TextCodec.jsonReadNewline)
      (writeValue jsonFileStore (jsonCodec jsonSer latin1 posix Gen.TextCodec.jsonWriteNewline Gen.TextCodec.jsonReadNewline)
        true stg tgt ⟨v, hv⟩ fs).fs tgt = some ⟨v, hv⟩ := by
  refine C12_json_store_any_codec latin1 latin1_roundtrip ?_ hne v hv fs
  intro s hs
  simp only [latin1, List.all_eq_true, decide_eq_true_eq]
  rw [if_pos]
  · rfl
  · intro c hc
    have := hs c hc
    omega

end Json


example : decodeText .universal (encodeText posix .universal [97, 13, 10, 98, 13, 99, 10]) = [97, 10, 98, 10, 99, 10] := by decide
example : decodeText Gen.TextCodec.textReadNewline (encodeText posix Gen.TextCodec.textWriteNewline [97, 13, 10, 98, 13]) = [97, 13, 10, 98, 13] := by decide
example : utf8Enc [0x41, 0xE9, 0x20AC, 0x1F600] = some [0x41, 0xC3, 0xA9, 0xE2, 0x82, 0xAC, 0xF0, 0x9F, 0x98, 0x80] := by decide
example : utf8Enc [0x41, 0xD800] = none := by decide
example : utf16Enc [0x41, 0x1F600] = some [0xFF, 0xFE, 0x41, 0x00, 0x3D, 0xD8, 0x00, 0xDE] := by decide
example : latin1.enc [0x41, 0x100] = none := by decide
-- text store over latin-1 on a concrete file system, with CR, CRLF and NEL in the string
example : readValue (textCodec latin1 posix Gen.TextCodec.textWriteNewline Gen.TextCodec.textReadNewline)
    (writeValue textFileStore (textCodec latin1 posix Gen.TextCodec.textWriteNewline Gen.TextCodec.textReadNewline)
      true 1 0 [97, 13, 10, 13, 0x85] (freshDir 0 : FS Nat)).fs 0 = some [97, 13, 10, 13, 0x85] := by decide
-- a mounted store whose remote is "the last bytes copied"
example : (mountedWrite (ρ := Option Bytes) ⟨fun b _ => some b, id⟩ binaryFileStore binaryCodec true 1 0 0 [1, 2, 3] none).bind
    (mountedRead (α := Nat) ⟨fun b _ => some b, id⟩ binaryCodec 0 7) = some [1, 2, 3] := by decide
-- successive attempts: ok, failed, ok — mtimes none ≤ 1 ≤ 1 ≤ …
example : ((runAttempts Cfg.gen 1 0 [⟨binaryFileStore, true, [.write [1]], noFaults⟩,
    ⟨binaryFileStore, true, [.write [2]], single 1 (.raise .osError 0)⟩] (freshDir 0 : FS Nat)).get 0) = some ⟨[1], 1⟩ := by decide
-- json: a nested value with every kind of character, rendered as JsonFileStore writes it and read back
example : Uberjob.Json.parse (Uberjob.Json.render jsonGenOpts 0
    (.obj (.cons [107, 34, 10] (.arr (.cons (.int (-120)) (.cons (.str [0xD800, 92, 0x1F600, 13, 0x7F]) (.cons .null (.cons (.obj .nil) .nil))))) (.cons [] (.bool true) .nil))))
    = .ok (.obj (.cons [107, 34, 10] (.arr (.cons (.int (-120)) (.cons (.str [0xD800, 92, 0x1F600, 13, 0x7F]) (.cons .null (.cons (.obj .nil) .nil))))) (.cons [] (.bool true) .nil))) :=
  C12_json_roundtrip _ _ (by decide)
example : Uberjob.Json.render ⟨.indent 4, true⟩ 0 (.arr (.cons (.int 1) (.cons (.str [233]) .nil)))
    = [91, 10, 32, 32, 32, 32, 49, 44, 10, 32, 32, 32, 32, 34, 92, 117, 48, 48, 101, 57, 34, 10, 93] := by
  simp [Uberjob.Json.render, Uberjob.Json.renderItems, Uberjob.Json.Layout.gap, Uberjob.Json.Layout.sgap, Uberjob.Json.nl, Uberjob.Json.encStr,
    Uberjob.Json.escChar, Uberjob.Json.uEsc, Uberjob.Json.hex4, Uberjob.Json.hexDigit, Uberjob.Json.encInt, Uberjob.Json.natDigits, List.replicate]
-- floats travel as their text: 1.5, -2.5e-07, 1e+300, 0.0 in a list
example : Uberjob.Json.parse (Uberjob.Json.render jsonGenOpts 0 (.arr (.cons (.float ⟨false, 1, [53], none⟩)
    (.cons (.float ⟨true, 2, [53], some (101, some 45, [48, 55])⟩) (.cons (.float ⟨false, 1, [], some (101, some 43, [51, 48, 48])⟩)
    (.cons (.float ⟨false, 0, [48], none⟩) .nil))))))
    = .ok (.arr (.cons (.float ⟨false, 1, [53], none⟩)
    (.cons (.float ⟨true, 2, [53], some (101, some 45, [48, 55])⟩) (.cons (.float ⟨false, 1, [], some (101, some 43, [51, 48, 48])⟩)
    (.cons (.float ⟨false, 0, [48], none⟩) .nil))))) :=
  C12_json_roundtrip _ _ (by decide)
example : Uberjob.Json.parse [49, 46, 53, 69, 50] = .ok (.float ⟨false, 1, [53], some (69, none, [50])⟩) := by decide
example : Uberjob.Json.parse [49, 46] = .error .syntax ∧ Uberjob.Json.parse [49, 101, 43] = .error .syntax := by decide
-- a duplicate key in the FILE: the later value, at the first position (what a Python dict does)
example : Uberjob.Json.parse [123, 34, 97, 34, 58, 49, 44, 34, 98, 34, 58, 50, 44, 34, 97, 34, 58, 51, 125]
    = .ok (.obj (.cons [97] (.int 3) (.cons [98] (.int 2) .nil))) := by decide

end Uberjob.Stores
