import UberjobModel.Lemmas.CacheSpec
import UberjobModel.Lemmas.CacheHistory
/-!
# C05 — exactly the out-of-date stored values are rebuilt; a repeated run does nothing

`isStale P w F i` is the model of `_get_stale_nodes` (the comparison itself is `Gen.Stale.staleCond`, regenerated
from caching.py on every run).  `OutOfDate` is the declarative reading of the property.  Plans, registries, store
states and `fresh_time` are arbitrary.
-/
namespace Uberjob.Cache
open Uberjob.Gen.Stale

/-- The stale check marks a node iff it is out of date in the sense of the property: some registered node upstream
    of it (or itself) is missing, or older than `fresh_time` (a source with nothing timed upstream is exempt), or
    older than a registered node upstream of it. -/
theorem C05_stale_spec {P : LPlan} (hP : P.WF) (w : World) (F : Option Int) (j : Nat) :
    isStale P w F j = true ↔ OutOfDate P w F j :=
  stale_iff_outOfDate hP w F j

/-- Out-of-dateness is inherited downstream. -/
theorem C05_downstream {P : LPlan} (hP : P.WF) (w : World) (F : Option Int) {q j : Nat}
    (hs : isStale P w F q = true) (h : Reach P q j) : isStale P w F j = true :=
  stale_reach hP w F hs h

/-- `fresh_time` can only add out-of-date values, never remove any. -/
theorem C05_fresh_monotone {P : LPlan} (hP : P.WF) (w : World) (F : Option Int) (j : Nat)
    (h : isStale P w F j = false) : isStale P w none j = false := by
  unfold isStale; rw [stale_mono_fresh hP w F j h]; exact h

/-- **A repeated run does nothing.**  After a run that rewrote exactly the out-of-date registered nodes (each once, at
    increasing modified times not before `fresh_time`, ancestors first) NO node is out of date any more — so the
    stale set of an immediately repeated run is empty and its physical plan contains no write (C09/C14: and with no
    output requested, no call and no read either). -/
theorem C05_idempotent {P : LPlan} (hP : P.WF) {w0 : World} (hg : Good P w0) {F : Option Int}
    {ops : List HOp} (hnd : NoDelete ops) (hok : OpsOk P w0 ops)
    (hnodup : ((linOf ops).map Prod.fst).Nodup)
    (hOnlyStale : ∀ j t, (j, t) ∈ linOf ops → (∃ s, P.reg j = some s) ∧ isStale P w0 F j = true)
    (hAllStale : ∀ j s, P.reg j = some s → isStale P w0 F j = true → ∃ t, (j, t) ∈ linOf ops)
    (hFresh : ∀ j t f, (j, t) ∈ linOf ops → F = some f → f ≤ t)
    (hOrder : ∀ q tq k tk, (q, tq) ∈ linOf ops → (k, tk) ∈ linOf ops → q ≠ k → Reach P q k → tq < tk) :
    ∀ j, isStale P (applyOps P w0 ops) F j = false :=
  (complete_run_correct hP hg hnd hok hnodup hOnlyStale hAllStale hFresh hOrder).1

/-- The facts about caching.py / pruning.py the model relies on still hold in the current source. -/
theorem C05_source_shape : facts.ok = true := by decide

/-! Non-vacuity (plan `chain`: source 0 → unstored 1 → stored 2). -/
def chainP : LPlan := ⟨3, fun i => if i = 0 then [] else [i - 1], fun i => if i = 0 then [] else [i - 1],
  fun i => if i = 0 then some true else if i = 2 then some false else none⟩
def wA : World := applyOps chainP ⟨fun _ => none⟩ [.update 0 (.src 0 1) 5]
example : (List.range 3).filter (isStale chainP wA none) = [2] := by decide
example : (List.range 3).filter (isStale chainP (applyOps chainP wA [.write 2 6]) none) = [] := by decide
example : (List.range 3).filter (isStale chainP (applyOps chainP wA [.write 2 6]) (some 7)) = [2] := by decide

end Uberjob.Cache
